package c16

import (
	"bytes"
	"fmt"
	"strconv"
	"strings"
	"testing"

	lua "github.com/yuin/gopher-lua"
	"pgregory.net/rapid"

	"verif/vf"
)

// ---------------------------------------------------------------------------------------------
// case + oracle: literals that must denote given bytes

type Lit struct {
	Src  []byte `json:"src"`  // the literal as it appears in the chunk
	Text string `json:"text"` // same, Go-quoted, for the reader
	Want []byte `json:"want"` // the bytes it must denote
	Kind string `json:"kind"` // dq | sq | long
}

type LitCase struct {
	Lits []Lit    `json:"lits"`
	WS   []string `json:"ws"` // blanks: WS[0] after "return", then after each literal (before the comma / the end)
	Pad  int      `json:"pad,omitempty"` // extra spaces after "return": moves the literals across the lexer's 4096-byte read buffer
}

func (c *LitCase) chunk() string {
	var b strings.Builder
	b.WriteString("return")
	b.WriteString(strings.Repeat(" ", c.Pad))
	b.WriteString(c.ws(0))
	for i, l := range c.Lits {
		if i > 0 {
			b.WriteString(",")
			b.WriteString(c.ws(2 * i))
		}
		b.Write(l.Src)
		b.WriteString(c.ws(2*i + 1))
	}
	return b.String()
}

func (c *LitCase) ws(i int) string {
	if i < len(c.WS) {
		return c.WS[i]
	}
	return " "
}

var chkLit = vf.Register("strlit", func(k *vf.C, c *LitCase) error {
	if len(c.Lits) == 0 {
		return nil
	}
	// 1. the generator's spelling and the independent 5.1 model must agree on what the text denotes
	for i, l := range c.Lits {
		got, err := decodeLiteral(l.Src)
		if err != nil {
			return fmt.Errorf("harness: model rejects generated literal #%d %s: %v", i, strconv.Quote(string(l.Src)), err)
		}
		if !bytes.Equal(got, l.Want) {
			return fmt.Errorf("harness: model decodes literal #%d %s to %q, generator intended %q", i, strconv.Quote(string(l.Src)), got, l.Want)
		}
	}
	// 2. the interpreter
	ip := in()
	src := c.chunk()
	fn, lerr, err := ip.loadChunk(src)
	if err != nil {
		return err
	}
	if lerr != nil {
		return fmt.Errorf("chunk %s does not load: %v", strconv.Quote(src), lerr)
	}
	res, err := ip.callFn(fn, len(c.Lits))
	if err != nil {
		return fmt.Errorf("chunk %s fails: %v", strconv.Quote(src), err)
	}
	for i, l := range c.Lits {
		s, ok := res[i].(lua.LString)
		if !ok {
			return fmt.Errorf("literal #%d %s evaluates to %s, want string %q", i, strconv.Quote(string(l.Src)), show(res[i]), l.Want)
		}
		if string(s) != string(l.Want) {
			return fmt.Errorf("literal #%d %s denotes %q, want %q", i, strconv.Quote(string(l.Src)), string(s), l.Want)
		}
	}
	// bookkeeping
	interesting := false
	for _, l := range c.Lits {
		k.Class("kind:" + l.Kind)
		classifyLit(k, &l)
		if l.Kind == "long" || bytes.IndexByte(l.Src, '\\') >= 0 {
			interesting = true
		}
	}
	if c.Pad > 0 {
		k.Class("padded_to_buffer_boundary")
	}
	if interesting {
		nontrivial(k, vf.Hash(src))
		k.Sample("literal", 2, map[string]any{"chunk": clip(strconv.Quote(src), 300)})
	}
	return nil
})

func classifyLit(k *vf.C, l *Lit) {
	s := l.Src
	if len(l.Want) == 0 {
		k.Class("empty")
	}
	if l.Kind == "long" {
		lvl := 0
		for 1+lvl < len(s) && s[1+lvl] == '=' {
			lvl++
		}
		switch {
		case lvl == 0:
			k.Class("long:level0")
		case lvl == 1:
			k.Class("long:level1")
		default:
			k.Class("long:level>=2")
		}
		body := s[lvl+2 : len(s)-lvl-2]
		if len(body) > 0 && isNL(body[0]) {
			k.Class("long:leading_newline_dropped")
			if len(l.Want) > 0 && l.Want[0] == '\n' {
				k.Class("long:content_starts_with_newline")
			}
		}
		if bytes.Contains(body, []byte("\r\n")) {
			k.Class("long:CRLF")
		}
		if bytes.Contains(body, []byte("\n\r")) {
			k.Class("long:LFCR")
		}
		if bytes.IndexByte(body, '\r') >= 0 {
			k.Class("long:CR")
		}
		if bytes.IndexByte(body, ']') >= 0 {
			k.Class("long:has_]")
		}
		if bytes.IndexByte(body, '\\') >= 0 {
			k.Class("long:has_backslash")
		}
		if bytes.IndexByte(body, 0) >= 0 {
			k.Class("long:has_NUL")
		}
		return
	}
	for i := 1; i < len(s)-1; i++ {
		if s[i] != '\\' {
			if s[i] >= 0x80 {
				k.Class("short:raw_high_byte")
			} else if s[i] < 0x20 {
				k.Class("short:raw_control_byte")
			}
			continue
		}
		i++
		e := s[i]
		switch {
		case isDig(e):
			n := 1
			for n < 3 && i+1 < len(s) && isDig(s[i+1]) {
				i++
				n++
			}
			k.Class(fmt.Sprintf("short:decimal_escape_%d", n))
			if i+1 < len(s) && isDig(s[i+1]) {
				k.Class("short:decimal_escape_then_digit")
			}
		case isNL(e):
			k.Class("short:backslash_newline")
			if i+1 < len(s) && isNL(s[i+1]) && s[i+1] != e {
				i++
				k.Class("short:backslash_newline_pair")
			}
		default:
			k.Class("short:named_escape")
		}
	}
}

// ---------------------------------------------------------------------------------------------
// case + oracle: literals that must be rejected

type NegLitCase struct {
	Src  []byte `json:"src"`
	Text string `json:"text"`
	Kind string `json:"kind"` // esc>255 | raw_newline
}

var chkLitNeg = vf.Register("strlit_neg", func(k *vf.C, c *NegLitCase) error {
	_, merr := decodeLiteral(c.Src)
	if merr == nil {
		return fmt.Errorf("harness: model accepts %s, generator meant it to be ill-formed", strconv.Quote(string(c.Src)))
	}
	switch c.Kind {
	case "esc>255":
		if !strings.Contains(merr.Error(), "too large") {
			return fmt.Errorf("harness: model rejects %s for another reason: %v", strconv.Quote(string(c.Src)), merr)
		}
	case "raw_newline":
		if !strings.Contains(merr.Error(), "raw newline") {
			return fmt.Errorf("harness: model rejects %s for another reason: %v", strconv.Quote(string(c.Src)), merr)
		}
	case "unfinished":
		if !strings.Contains(merr.Error(), "unfinished") {
			return fmt.Errorf("harness: model rejects %s for another reason: %v", strconv.Quote(string(c.Src)), merr)
		}
	default:
		return fmt.Errorf("harness: unknown kind %q", c.Kind)
	}
	ip := in()
	for _, tmpl := range []string{"return %s", "return %s\n", "local s = %s"} {
		src := fmt.Sprintf(tmpl, c.Src)
		fn, lerr, err := ip.loadChunk(src)
		if err != nil {
			return err
		}
		if lerr == nil {
			got := "?"
			if res, e := ip.callFn(fn, 1); e == nil {
				got = show(res[0])
			}
			return fmt.Errorf("chunk %s must be a load error (%v) but loads and yields %s", strconv.Quote(src), merr, got)
		}
	}
	k.Class("kind:" + c.Kind)
	nontrivial(k, vf.Hash("neg", string(c.Src)))
	k.Sample("neg/"+c.Kind, 1, map[string]any{"literal": clip(strconv.Quote(string(c.Src)), 200)})
	return nil
})

// ---------------------------------------------------------------------------------------------
// generators

var litBytesHot = []byte{0, 1, 7, 8, 9, 10, 11, 12, 13, 26, 27, 31, ' ', '"', '\'', '\\', '0', '1', '9', '5', 'a', 'n', 'z', 'x', '[', ']', '=',
	'-', 127, 128, 0xc3, 0xa9, 0xfe, 0xff}

func genLitByte(noCR bool) *rapid.Generator[byte] {
	return rapid.Custom(func(t *rapid.T) byte {
		var b byte
		if rapid.IntRange(0, 3).Draw(t, "hot") > 0 {
			b = litBytesHot[rapid.IntRange(0, len(litBytesHot)-1).Draw(t, "hb")]
		} else {
			b = rapid.Byte().Draw(t, "b")
		}
		if noCR && b == '\r' {
			b = '\n'
		}
		return b
	})
}

// spellShort writes b as a short string delimited by q, choosing a representation per byte.
func spellShort(t *rapid.T, b []byte, q byte) []byte {
	const (
		rRaw = iota
		rNamed
		rBsNl
		rDec
	)
	reps := make([]int, len(b))
	for i, c := range b {
		opts := []int{rDec}
		if c != q && c != '\\' && c != '\n' && c != '\r' {
			opts = append(opts, rRaw, rRaw) // raw twice: keep literals readable
		}
		if bytes.IndexByte([]byte{7, 8, 12, 10, 13, 9, 11, '\\', '"', '\''}, c) >= 0 {
			opts = append(opts, rNamed, rNamed)
		}
		if c == '\n' {
			opts = append(opts, rBsNl, rBsNl)
		}
		reps[i] = opts[rapid.IntRange(0, len(opts)-1).Draw(t, "rep")]
	}
	out := []byte{q}
	for i, c := range b {
		switch reps[i] {
		case rRaw:
			out = append(out, c)
		case rNamed:
			out = append(out, '\\')
			out = append(out, map[byte]byte{7: 'a', 8: 'b', 12: 'f', 10: 'n', 13: 'r', 9: 't', 11: 'v', '\\': '\\', '"': '"', '\'': '\''}[c])
		case rBsNl:
			out = append(out, '\\')
			out = append(out, []string{"\n", "\r", "\r\n", "\n\r"}[rapid.IntRange(0, 3).Draw(t, "nl")]...)
		case rDec:
			min := len(strconv.Itoa(int(c)))
			w := rapid.IntRange(min, 3).Draw(t, "width")
			if i+1 < len(b) && reps[i+1] == rRaw && isDig(b[i+1]) {
				w = 3 // a shorter escape would swallow the following digit
			}
			out = append(out, fmt.Sprintf("\\%0*d", w, c)...)
		}
	}
	return append(out, q)
}

// spellLong writes b (which must not contain CR) as a long bracket.
func spellLong(t *rapid.T, b []byte) []byte {
	var body []byte
	// prev is the last single-character newline written ('\n' or '\r'), or 0 when the previous source byte cannot pair
	var prev byte
	writeNL := func(label string) {
		forms := []string{"\n", "\r", "\r\n", "\n\r"}
		var ok []string
		for _, f := range forms {
			// a newline that starts with the other newline character right after a single-character newline would
			// be read as the second half of a pair
			if prev != 0 && f[0] != prev {
				continue
			}
			ok = append(ok, f)
		}
		f := ok[rapid.IntRange(0, len(ok)-1).Draw(t, label)]
		body = append(body, f...)
		if len(f) == 1 {
			prev = f[0]
		} else {
			prev = 0
		}
	}
	if len(b) > 0 && b[0] == '\n' || rapid.IntRange(0, 2).Draw(t, "leadnl") == 0 {
		writeNL("lead") // dropped by the lexer
	}
	for _, c := range b {
		if c == '\n' {
			writeNL("nl")
			continue
		}
		body = append(body, c)
		prev = 0
	}
	lvl := rapid.IntRange(0, 3).Draw(t, "level")
	for ; ; lvl++ {
		closer := "]" + strings.Repeat("=", lvl) + "]"
		cand := string(body) + closer
		if strings.Index(cand, closer) != len(body) {
			continue
		}
		if lvl == 0 && bytes.Contains(body, []byte("[[")) {
			continue // the 5.1 reference build rejects "[[" inside a level-0 long string (LUA_COMPAT_LSTR)
		}
		break
	}
	out := []byte("[" + strings.Repeat("=", lvl) + "[")
	out = append(out, body...)
	return append(out, "]"+strings.Repeat("=", lvl)+"]"...)
}

func genLit(t *rapid.T) Lit {
	kind := []string{"dq", "sq", "long", "long"}[rapid.IntRange(0, 3).Draw(t, "kind")]
	maxLen := 24
	if rapid.IntRange(0, 7).Draw(t, "big") == 0 {
		maxLen = 64
	}
	want := rapid.SliceOfN(genLitByte(kind == "long"), 0, maxLen).Draw(t, "bytes")
	var src []byte
	switch kind {
	case "dq":
		src = spellShort(t, want, '"')
	case "sq":
		src = spellShort(t, want, '\'')
	default:
		src = spellLong(t, want)
	}
	if want == nil {
		want = []byte{}
	}
	return Lit{Src: src, Text: strconv.Quote(string(src)), Want: want, Kind: kind}
}

var wsChoices = []string{"", " ", " ", "\n", "\t", "\r\n", "  ", " \n "}

func genLitCase(t *rapid.T) *LitCase {
	n := rapid.IntRange(1, 3).Draw(t, "nlits")
	c := &LitCase{}
	for i := 0; i < n; i++ {
		c.Lits = append(c.Lits, genLit(t))
	}
	for i := 0; i < 2*n; i++ {
		c.WS = append(c.WS, wsChoices[rapid.IntRange(0, len(wsChoices)-1).Draw(t, "ws")])
	}
	if rapid.IntRange(0, 9).Draw(t, "padded") == 0 {
		c.Pad = rapid.IntRange(4096-6-70, 4096-6+2).Draw(t, "pad")
	}
	return c
}

func TestStringLiterals(t *testing.T) {
	vf.Rapid(t, func(rt *rapid.T) {
		chkLit.Run(rt, genLitCase(rt))
	})
}

func genNegLit(t *rapid.T) *NegLitCase {
	q := []byte{'"', '\''}[rapid.IntRange(0, 1).Draw(t, "q")]
	pre := rapid.SliceOfN(genLitByte(false), 0, 6).Draw(t, "pre")
	post := rapid.SliceOfN(genLitByte(false), 0, 6).Draw(t, "post")
	ps := spellShort(t, pre, q)
	ss := spellShort(t, post, q)
	ps = ps[:len(ps)-1] // drop closing quote
	ss = ss[1:]         // drop opening quote
	c := &NegLitCase{}
	var mid []byte
	if rapid.IntRange(0, 3).Draw(t, "negkind") > 0 {
		c.Kind = "esc>255"
		v := rapid.IntRange(256, 999).Draw(t, "esc")
		if rapid.IntRange(0, 3).Draw(t, "edge") == 0 {
			v = []int{256, 257, 260, 299, 300, 511, 512, 999}[rapid.IntRange(0, 7).Draw(t, "edgev")]
		}
		mid = []byte(fmt.Sprintf("\\%d", v))
	} else {
		c.Kind = "raw_newline"
		mid = []byte([]string{"\n", "\r", "\r\n"}[rapid.IntRange(0, 2).Draw(t, "rawnl")])
		if isNL(ps[len(ps)-1]) {
			// the prefix ends in backslash-newline: a following raw newline character could pair with it
			ps = append(ps, 'x')
		}
	}
	// a prefix ending in a pending decimal escape of fewer than 3 digits is still fine: the backslash of mid ends it
	c.Src = append(append(append([]byte{}, ps...), mid...), ss...)
	c.Text = strconv.Quote(string(c.Src))
	return c
}

func TestStringLiteralsRejected(t *testing.T) {
	vf.Rapid(t, func(rt *rapid.T) {
		chkLitNeg.Run(rt, genNegLit(rt))
	})
}

// ---------------------------------------------------------------------------------------------
// text first: literal-shaped token soup, classified by the model (the printer above only ever emits canonical
// spellings; this one reaches `\0a`, `\1234`, "]=]" runs in front of the closer, escapes at the very end, ...)

var shortPieces = []string{"a", "z", "0", "1", "9", "12", "255", "256", " ", "\t", "\\\\", "\\n", "\\r", "\\t", "\\a", "\\b", "\\f", "\\v", "\\\"", "\\'", "\\0", "\\00",
	"\\000", "\\1", "\\12", "\\123", "\\255", "\\256", "\\25", "\\2", "\\999", "\\065", "\\\n", "\\\r", "\\\r\n", "\\\n\r", "\"", "'", "\n", "\r", "[[", "]]", "--", "\x00", "\xff",
	"\xc3\xa9", "\\\\\\", "\\\\n"}

var longPieces = []string{"a", "z", "0", " ", "\t", "\\", "\\n", "\n", "\r", "\r\n", "\n\r", "\n\n", "\r\r", "]", "]]", "]=", "]=]", "]==]", "]===]", "=", "==", "[", "[=[", "[==[",
	"--", "\"", "'", "\x00", "\xff", "]=]=]", "]]]"}

func genLitText(t *rapid.T) []byte {
	var b []byte
	n := rapid.IntRange(0, 8).Draw(t, "npieces")
	if rapid.IntRange(0, 2).Draw(t, "long") == 0 {
		lvl := rapid.IntRange(0, 3).Draw(t, "level")
		var body []byte
		for i := 0; i < n; i++ {
			body = append(body, longPieces[rapid.IntRange(0, len(longPieces)-1).Draw(t, "lp")]...)
		}
		if lvl == 0 && bytes.Contains(body, []byte("[[")) {
			lvl = 1 // "[[" inside a level-0 long string: rejected by the reference build, accepted by others
		}
		b = append(b, "["+strings.Repeat("=", lvl)+"["...)
		b = append(b, body...)
		if rapid.IntRange(0, 9).Draw(t, "close") > 0 {
			b = append(b, "]"+strings.Repeat("=", lvl)+"]"...)
		}
	} else {
		q := []string{"\"", "'"}[rapid.IntRange(0, 1).Draw(t, "q")]
		b = append(b, q...)
		for i := 0; i < n; i++ {
			b = append(b, shortPieces[rapid.IntRange(0, len(shortPieces)-1).Draw(t, "sp")]...)
		}
		if rapid.IntRange(0, 19).Draw(t, "dangling") == 0 {
			b = append(b, '\\') // escapes whatever comes next: the closing quote, or nothing
		}
		if rapid.IntRange(0, 9).Draw(t, "close") > 0 {
			b = append(b, q...)
		}
	}
	// a closer met before the end of the text: keep the complete literal, drop the rest
	if _, err := decodeLiteral(b); err != nil {
		if ec, ok := err.(earlyClose); ok {
			b = b[:ec.End]
		}
	}
	return b
}

// TestStringLiteralText routes each generated text to the positive or the negative oracle according to the model;
// texts the manual does not decide (undocumented escapes, "[[" inside a level-0 long string, a closer in the middle
// followed by more text) are counted as discarded.
func TestStringLiteralText(t *testing.T) {
	col := vf.Col("strlit_text")
	vf.Rapid(t, func(rt *rapid.T) {
		src := genLitText(rt)
		want, err := decodeLiteral(src)
		kind := map[byte]string{'"': "dq", '\'': "sq", '[': "long"}[src[0]]
		switch {
		case err == nil:
			col.Class("routed:accept")
			chkLit.Run(rt, &LitCase{Lits: []Lit{{Src: src, Text: strconv.Quote(string(src)), Want: want, Kind: kind}}, WS: []string{" ", ""}})
		case strings.Contains(err.Error(), "too large"):
			col.Class("routed:esc>255")
			chkLitNeg.Run(rt, &NegLitCase{Src: src, Text: strconv.Quote(string(src)), Kind: "esc>255"})
		case strings.Contains(err.Error(), "raw newline"):
			col.Class("routed:raw_newline")
			chkLitNeg.Run(rt, &NegLitCase{Src: src, Text: strconv.Quote(string(src)), Kind: "raw_newline"})
		case strings.Contains(err.Error(), "unfinished"):
			col.Class("routed:unfinished")
			chkLitNeg.Run(rt, &NegLitCase{Src: src, Text: strconv.Quote(string(src)), Kind: "unfinished"})
		default:
			col.Eval()
			col.Discard("text_not_decided_by_the_manual")
		}
	})
}
