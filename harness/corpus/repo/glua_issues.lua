
-- issue #10
local function inspect(options)
    options = options or {}
    return type(options)
end
assert(inspect(nil) == "table")

local function inspect(options)
    options = options or setmetatable({}, {__mode = "test"})
    return type(options)
end
assert(inspect(nil) == "table")

-- issue #16
local ok, msg = pcall(function()
  local a = {}
  a[nil] = 1
end)
assert(not ok and string.find(msg, "table index is nil", 1, true))

-- issue #19
local tbl = {1,2,3,4,5}
assert(#tbl == 5)
assert(table.remove(tbl) == 5)
assert(#tbl == 4)
assert(table.remove(tbl, 3) == 3)
assert(#tbl == 3)

-- issue #24
local tbl = {string.find('hello.world', '.', 0)}
assert(tbl[1] == 1 and tbl[2] == 1)
assert(string.sub('hello.world', 0, 2) == "he")

-- issue 33
local a,b
a = function ()
  pcall(function()
  end)
  coroutine.yield("a")
  return b()
end

b = function ()
  return "b"
end

local co = coroutine.create(a)
assert(select(2, coroutine.resume(co)) == "a")
assert(select(2, coroutine.resume(co)) == "b")
assert(coroutine.status(co) == "dead")

-- issue 37
function test(a, b, c)
    b = b or string.format("b%s", a)
    c = c or string.format("c%s", a)
    assert(a == "test")
    assert(b == "btest")
    assert(c == "ctest")
end
test("test")

-- issue 39
assert(string.match("あいうえお", ".*あ.*") == "あいうえお")
assert(string.match("あいうえお", "あいうえお") == "あいうえお")

-- issue 47
assert(string.gsub("A\nA", ".", "A") == "AAA")

-- issue 62
local function level4() error("error!") end
local function level3() level4() end
local function level2() level3() end
local function level1() level2() end
local ok, result = xpcall(level1, function(err)
  return debug.traceback("msg", 10)
end)
assert(result == [[msg
stack traceback:]])
ok, result = xpcall(level1, function(err)
  return debug.traceback("msg", 9)
end)
assert(result == string.gsub([[msg
stack traceback:
@TAB@[G]: ?]], "@TAB@", "\t"))
local ok, result = xpcall(level1, function(err)
  return debug.traceback("msg", 0)
end)

assert(result == string.gsub([[msg
stack traceback:
@TAB@[G]: in function 'traceback'
@TAB@issues.lua:87: in function <issues.lua:86>
@TAB@[G]: in function 'error'
@TAB@issues.lua:71: in function 'level4'
@TAB@issues.lua:72: in function 'level3'
@TAB@issues.lua:73: in function 'level2'
@TAB@issues.lua:74: in function <issues.lua:74>
@TAB@[G]: in function 'xpcall'
@TAB@issues.lua:86: in main chunk
@TAB@[G]: ?]], "@TAB@", "\t"))

local ok, result = xpcall(level1, function(err)
  return debug.traceback("msg", 3)
end)

assert(result == string.gsub([[msg
stack traceback:
@TAB@issues.lua:71: in function 'level4'
@TAB@issues.lua:72: in function 'level3'
@TAB@issues.lua:73: in function 'level2'
@TAB@issues.lua:74: in function <issues.lua:74>
@TAB@[G]: in function 'xpcall'
@TAB@issues.lua:103: in main chunk
@TAB@[G]: ?]], "@TAB@", "\t"))

-- issue 81
local tbl = {
        [-1] = "a",
        [0] = "b",
        [1] = "c",
}
local a, b = next(tbl, nil)
assert( a == -1 and b == "a" or a == 0 and b == "b" or a == 1 and b == "c")
local a, b = next(tbl, a)
assert( a == -1 and b == "a" or a == 0 and b == "b" or a == 1 and b == "c")
local a, b = next(tbl, a)
assert( a == -1 and b == "a" or a == 0 and b == "b" or a == 1 and b == "c")
local a, b = next(tbl, a)
assert( a == nil and b == nil)

local tbl = {'a', 'b'}
local a, b = next(tbl, nil)
assert(a == 1 and b == "a")
local a, b = next(tbl, a)
assert(a == 2 and b == "b")
local a, b = next(tbl, a)
assert(a == nil and b == nil)

-- issue 82
local cr = function()
        return coroutine.wrap(function()
                coroutine.yield(1, "a")
                coroutine.yield(2, "b")
        end)
end

local f = cr()
local a, b = f()
assert(a == 1 and b == "a")
local a, b = f()
assert(a == 2 and b == "b")

-- issue 91, 92
local url = "www.aaa.bbb_abc123-321-cba_abc123"
assert(string.match(url, ".-([%w-]*)[.]*") == "www")

local s = "hello.world"
assert(s:match("([^.]+).world") == "hello")

local s = "hello-world"
assert(s:match("([^-]+)-world") == "hello")

-- issue 93
local t = {}
local ok, msg = pcall(function() t.notfound() end)
assert(not ok and string.find(msg, "attempt to call a non-function object", 1, true))

-- issue 150
local util = {
  fn = function() end
}
local b
local x = util.fn(
  1,
  (b or {}).x)

local s = [=[["a"]['b'][9] - ["a"]['b'][8] > ]=]
local result = {}
for i in s:gmatch([=[[[][^%s,]*[]]]=]) do 
  table.insert(result, i)
end
assert(result[1] == [=[["a"]['b'][9]]=])
assert(result[2] == [=[["a"]['b'][8]]=])

-- issue 168
local expected = 1

local result = math.random(1)

assert(result == expected)

-- issue 202
local t = {}
ok, res = pcall(table.remove, t)
if not ok or not res then
    table.insert(t, {})
else
    assert(false)
end
ok, res = pcall(table.remove, t)
ok, res = pcall(table.remove, t)
assert(not ok or not res)

-- issue 204
local ok, message = pcall(nil)
assert(not ok)
assert(message == "attempt to call a nil value")

local ok, message = pcall(1)
assert(not ok)
assert(message == "attempt to call a number value")

ok, message = pcall(function()
  pcall()
end)
assert(not ok and string.find(message, "bad argument #1 to pcall", 1, true))

-- issue 216
local function bar()
  return "bar"
end

local function test(foo)
  local should_not_change
  foo = foo or bar()
  print(should_not_change)
  return should_not_change
end

assert(test(nil) == nil)

-- issue 220
function test() 
  function f(v)
    return v
  end
  local tbl = {y=0}
  local a,b
  a, b = f(10), f(20)
  assert(tbl.y == 0)
end
test()

-- issue 222
function test()
  local m = {n=2}
  
  function m:f1()
    return self:f3() >= self.n
  end
  
  function m:f2()
    local v1, v2, v3 = m:f1()
    assert(v1 == true)
    assert(v2 == nil)
    assert(v3 == nil)
  end
  
  function m:f3()
    return 3
  end
  
  m:f2()
end
test()

-- issue #292
function test()
  t0 = {}
	t0.year = 2006
	t0.month = 1
	t0.day = 2
	t0.hour = 15
	t0.min = 4
	t0.sec = 5

	t1 = {}
	t1.year = "2006"
	t1.month = "1"
	t1.day = "2"
	t1.hour = "15"
	t1.min = "4"
	t1.sec = "5"

	assert(os.time(t0) == os.time(t1))

	t2 = {}
	t2.year = "  2006"--prefix blank space
	t2.month = "1"
	t2.day = "2"
	t2.hour = "15"
	t2.min = "4"
	t2.sec = "5"
	assert(os.time(t0) == os.time(t2))

	t3 = {}
	t3.year = "  0002006"--prefix blank space and 0
	t3.month = "1"
	t3.day = "2"
	t3.hour = "15"
	t3.min = "4"
	t3.sec = "5"
	assert(os.time(t1) == os.time(t3))

	t4 = {}
	t4.year = "0002006"--prefix 0
	t4.month = "1"
	t4.day = "2"
	t4.hour = "15"
	t4.min = "4"
	t4.sec = "5"
	assert(os.time(t1) == os.time(t4))

	t5 = {}
	t5.year = "0x7d6"--prefix 0x
	t5.month = "1"
	t5.day = "2"
	t5.hour = "15"
	t5.min = "4"
	t5.sec = "5"
	assert(os.time(t1) == os.time(t5))

	t6 = {}
	t6.year = "0X7d6"--prefix 0X
	t6.month = "1"
	t6.day = "2"
	t6.hour = "15"
	t6.min = "4"
	t6.sec = "5"
	assert(os.time(t1) == os.time(t6))
end
test()

--issue #331
function test()
	local select_a = function()
		return select(3, "1")
	end
	assert(true == pcall(select_a))
	local select_b = function()
		return select(0)
	end
	assert(false == pcall(select_b))
	local select_c = function()
		return select(1/9)
	end
	assert(false == pcall(select_c))
	local select_d = function()
		return select(1, "a")
	end
	assert("a" == select_d())
	local select_e = function()
		return select(3, "a", "b", "c")
	end
	assert("c" == select_e())
	local select_f = function()
		return select(0)(select(1/9))
	end
	assert(false == pcall(select_f))
end
test()

-- issue #363
-- Any expression enclosed in parentheses always results in only one value.
function test()
    function ret2(a, b)
        return a, b
    end
    function enclosed_ret()
        return (ret2(1, 2))
    end
    local a,b = enclosed_ret()
    assert(a == 1 and b == nil)

    function enclosed_vararg_ret(...)
        return (...)
    end
    local a,b,c=enclosed_vararg_ret(1, 2, 3)
    assert(a == 1 and b == nil and c == nil)

    function enclosed_vararg_assign(...)
        local a,b,c = (...)
        return a,b,c
    end
    local a,b,c=enclosed_vararg_assign(1, 2, 3)
    assert(a == 1 and b == nil and c == nil)
end
test()

-- issue #412
-- issue #418
-- Conversion from symmetric modulo is incorrect.
function test()
    assert(-2 % -2 == 0)
    assert(-1 % -2 == -1)
    assert(0 % -2 == 0)
    assert(1 % -2 == -1)
    assert(2 % -2 == 0)
    assert(-2 % 2 == 0)
    assert(-1 % 2 == 1)
    assert(0 % 2 == 0)
    assert(1 % 2 == 1)
    assert(2 % 2 == 0)
end
test()

-- issue #355
function test()
  local x = "valid"
  assert(x == "valid")
  assert(zzz == nil)
  x = zzz and "not-valid" or x
  assert(x == "valid")
end
test()

function test()
  local x = "valid"
  local z = nil
  assert(x == "valid")
  assert(z == nil)
  x = z and "not-valid" or x
  assert(x == "valid")
end
test()

function test()
  local x = "valid"
  assert(x == "valid")
  assert(zzz == nil)
  x = zzz and "not-valid" or "still " .. x
  assert(x == "still valid")
end
test()

-- issue #315
function test()
  local a = {}
  local d = 'e'
  local f = 1
  
  f, a.d = f, d
  
  assert(f..", "..a.d == "1, e")
end
test()

-- issue #423
function test()
  local a, b, c = "1", "3", "1"
  a, b, c= tonumber(a), tonumber(b) or a, tonumber(c)
  assert(a == 1)
  assert(type(a) == "number")
  assert(b == 3)
  assert(type(b) == "number")
  assert(c == 1)
  assert(type(c) == "number")
end
test()

-- issue #452
function test()
  local ok, msg = pcall(function()
    local ok, msg = xpcall(function() error("fn") end, function(err) error("handler") end)
    assert(not ok and msg)
    error("expected to reach this.")
  end)
  assert(not ok)
end
test()

-- issue #455
function test()
  local path = "."
  local fd, _, code = io.open(path, "r")
  assert(fd ~= nil)
  local _, _, ecode = fd:read(1)
  assert(ecode == 1)
end
test()

-- issue #459
function test()
  local a, b = io.popen("ls", nil)
  assert(a)
  assert(b == nil)
  local a, b = io.popen("ls", nil, nil)
  assert(a)
  assert(b == nil)
end
test()
