print('testing pattern matching')

function f(s, p)
  local i,e = string.find(s, p)
  if i then return string.sub(s, i, e) end
end

function f1(s, p)
  p = string.gsub(p, "%%([0-9])", function (s) return "%" .. (s+1) end)
  p = string.gsub(p, "^(^?)", "%1()", 1)
  p = string.gsub(p, "($?)$", "()%1", 1)
  local t = {string.match(s, p)}
  return string.sub(s, t[1], t[#t] - 1)
end

a,b = string.find('', '')    -- empty patterns are tricky
assert(a == 1 and b == 0);
a,b = string.find('alo', '')
assert(a == 1 and b == 0)
a,b = string.find('a\0o a\0o a\0o', 'a', 1)   -- first position
assert(a == 1 and b == 1)
a,b = string.find('a\0o a\0o a\0o', 'a\0o', 2)   -- starts in the midle
assert(a == 5 and b == 7)
a,b = string.find('a\0o a\0o a\0o', 'a\0o', 9)   -- starts in the midle
assert(a == 9 and b == 11)
a,b = string.find('a\0a\0a\0a\0\0ab', '\0ab', 2);  -- finds at the end
assert(a == 9 and b == 11);
a,b = string.find('a\0a\0a\0a\0\0ab', 'b')    -- last position
assert(a == 11 and b == 11)
assert(string.find('a\0a\0a\0a\0\0ab', 'b\0') == nil)   -- check ending
assert(string.find('', '\0') == nil)
assert(string.find('alo123alo', '12') == 4)
assert(string.find('alo123alo', '^12') == nil)

assert(f('aloALO', '%l*') == 'alo')
assert(f('aLo_ALO', '%a*') == 'aLo')

assert(f('aaab', 'a*') == 'aaa');
assert(f('aaa', '^.*$') == 'aaa');
assert(f('aaa', 'b*') == '');
assert(f('aaa', 'ab*a') == 'aa')
assert(f('aba', 'ab*a') == 'aba')
assert(f('aaab', 'a+') == 'aaa')
assert(f('aaa', '^.+$') == 'aaa')
assert(f('aaa', 'b+') == nil)
assert(f('aaa', 'ab+a') == nil)
assert(f('aba', 'ab+a') == 'aba')
assert(f('a$a', '.$') == 'a')
assert(f('a$a', '.%$') == 'a$')
assert(f('a$a', '.$.') == 'a$a')
assert(f('a$a', '$$') == nil)
assert(f('a$b', 'a$') == nil)
assert(f('a$a', '$') == '')
assert(f('', 'b*') == '')
assert(f('aaa', 'bb*') == nil)
assert(f('aaab', 'a-') == '')
assert(f('aaa', '^.-$') == 'aaa')
assert(f('aabaaabaaabaaaba', 'b.*b') == 'baaabaaabaaab')
assert(f('aabaaabaaabaaaba', 'b.-b') == 'baaab')
assert(f('alo xo', '.o$') == 'xo')
assert(f(' \n isto é assim', '%S%S*') == 'isto')
assert(f(' \n isto é assim', '%S*$') == 'assim')
assert(f(' \n isto é assim', '[a-z]*$') == 'assim')
assert(f('um caracter ? extra', '[^%sa-z]') == '?')
assert(f('', 'a?') == '')
assert(f('á', 'á?') == 'á')
assert(f('ábl', 'á?b?l?') == 'ábl')
assert(f('  ábl', 'á?b?l?') == '')
assert(f('aa', '^aa?a?a') == 'aa')
-- assert(f(']]]áb', '[^]]') == 'á')
assert(f(']]]áb', '[^%]]') == 'á')
assert(f("0alo alo", "%x*") == "0a")
assert(f("alo alo", "%C+") == "alo alo")
print('+')

assert(f1('alo alx 123 b\0o b\0o', '(..*) %1') == "b\0o b\0o")
assert(f1('axz123= 4= 4 34', '(.+)=(.*)=%2 %1') == '3= 4= 4 3')
assert(f1('=======', '^(=*)=%1$') == '=======')
assert(string.match('==========', '^([=]*)=%1$') == nil)

local function range (i, j)
  if i <= j then
    return i, range(i+1, j)
  end
end

local function range (i, j)
  local ret = {}
  for k=i, j do; table.insert(ret, k); end
  return unpack(ret)
end

local abc = string.char(range(0, 255));

assert(string.len(abc) == 256)

function strset (p)
  local res = {s=''}
  string.gsub(abc, p, function (c) res.s = res.s .. c end)
  return res.s
end;

assert(string.len(strset('[\200-\210]')) == 11)

assert(strset('[a-z]') == "abcdefghijklmnopqrstuvwxyz")
assert(strset('[a-z%d]') == strset('[%da-uu-z]'))
-- assert(strset('[a-]') == "-a")
assert(strset('[a%-]') == "-a")
assert(strset('[^%W]') == strset('[%w]'))
-- assert(strset('[]%%]') == '%]')
assert(strset('[%]%%]') == '%]')
assert(strset('[a%-z]') == '-az')
assert(strset('[%^%[%-a%]%-b]') == '-[]^ab')
assert(strset('%Z') == strset('[\1-\255]'))
assert(strset('.') == strset('[\1-\255%z]'))
print('+');

assert(string.match("alo xyzK", "(%w+)K") == "xyz")
assert(string.match("254 K", "(%d*)K") == "")
assert(string.match("alo ", "(%w*)$") == "")
assert(string.match("alo ", "(%w+)$") == nil)
assert(string.find("(álo)", "%(á") == 1)
local a, b, c, d, e = string.match("âlo alo", "^(((.).).* (%w*))$")
assert(a == 'âlo alo' and b == 'âl' and c == 'â' and d == 'alo' and e == nil)
a, b, c, d  = string.match('0123456789', '(.+(.?)())')
assert(a == '0123456789' and b == '' and c == 11 and d == nil)
print('+')

assert(string.gsub('ülo ülo', 'ü', 'x') == 'xlo xlo')
assert(string.gsub('alo úlo  ', ' +$', '') == 'alo úlo')  -- trim
assert(string.gsub('  alo alo  ', '^%s*(.-)%s*$', '%1') == 'alo alo')  -- double trim
assert(string.gsub('alo  alo  \n 123\n ', '%s+', ' ') == 'alo alo 123 ')
t = "abç d"
a, b = string.gsub(t, '(.)', '%1@')
assert('@'..a == string.gsub(t, '', '@') and b == 5)
a, b = string.gsub('abçd', '(.)', '%0@', 2)
assert(a == 'a@b@çd' and b == 2)
assert(string.gsub('alo alo', '()[al]', '%1') == '12o 56o')
assert(string.gsub("abc=xyz", "(%w*)(%p)(%w+)", "%3%2%1-%0") ==
              "xyz=abc-abc=xyz")
assert(string.gsub("abc", "%w", "%1%0") == "aabbcc")
assert(string.gsub("abc", "%w+", "%0%1") == "abcabc")
assert(string.gsub('áéí', '$', '\0óú') == 'áéí\0óú')
assert(string.gsub('', '^', 'r') == 'r')
assert(string.gsub('', '$', 'r') == 'r')
print('+')

assert(string.gsub("um (dois) tres (quatro)", "(%(%w+%))", string.upper) ==
            "um (DOIS) tres (QUATRO)")

do
  local function setglobal (n,v) rawset(_G, n, v) end
  string.gsub("a=roberto,roberto=a", "(%w+)=(%w%w*)", setglobal)
  assert(_G.a=="roberto" and _G.roberto=="a")
end

function f(a,b) return string.gsub(a,'.',b) end
assert(string.gsub("trocar tudo em |teste|b| é |beleza|al|", "|([^|]*)|([^|]*)|", f) ==
            "trocar tudo em bbbbb é alalalalalal")

local function dostring (s) return loadstring(s)() or "" end
assert(string.gsub("alo $a=1$ novamente $return a$", "$([^$]*)%$", dostring) ==
            "alo  novamente 1")

x = string.gsub("$x=string.gsub('alo', '.', string.upper)$ assim vai para $return x$",
         "$([^$]*)%$", dostring)
assert(x == ' assim vai para ALO')

t = {}
s = 'a alo jose  joao'
r = string.gsub(s, '()(%w+)()', function (a,w,b)
      assert(string.len(w) == b-a);
      t[a] = b-a;
    end)
assert(s == r and t[1] == 1 and t[3] == 3 and t[7] == 4 and t[13] == 4)


function isbalanced (s)
  return string.find(string.gsub(s, "%b()", ""), "[()]") == nil
end

assert(isbalanced("(9 ((8))(\0) 7) \0\0 a b ()(c)() a"))
assert(not isbalanced("(9 ((8) 7) a b (\0 c) a"))
assert(string.gsub("alo 'oi' alo", "%b''", '"') == 'alo " alo')


local t = {"apple", "orange", "lime"; n=0}
assert(string.gsub("x and x and x", "x", function () t.n=t.n+1; return t[t.n] end)
        == "apple and orange and lime")

t = {n=0}
string.gsub("first second word", "%w%w*", function (w) t.n=t.n+1; t[t.n] = w end)
assert(t[1] == "first" and t[2] == "second" and t[3] == "word" and t.n == 3)

t = {n=0}
assert(string.gsub("first second word", "%w+",
         function (w) t.n=t.n+1; t[t.n] = w end, 2) == "first second word")
assert(t[1] == "first" and t[2] == "second" and t[3] == nil)

assert(not pcall(string.gsub, "alo", "(.", print))
assert(not pcall(string.gsub, "alo", ".)", print))
assert(not pcall(string.gsub, "alo", "(.", {}))
assert(not pcall(string.gsub, "alo", "(.)", "%2"))
assert(not pcall(string.gsub, "alo", "(%1)", "a"))
assert(not pcall(string.gsub, "alo", "(%0)", "a"))

-- big strings
local a = string.rep('a', 300000)
assert(string.find(a, '^a*.?$'))
assert(not string.find(a, '^a*.?b$'))
assert(string.find(a, '^a-.?$'))

-- deep nest of gsubs
function rev (s)
  return string.gsub(s, "(.)(.+)", function (c,s1) return rev(s1)..c end)
end

local x = string.rep('012345', 10)
assert(rev(rev(x)) == x)


-- gsub with tables
assert(string.gsub("alo alo", ".", {}) == "alo alo")
assert(string.gsub("alo alo", "(.)", {a="AA", l=""}) == "AAo AAo")
assert(string.gsub("alo alo", "(.).", {a="AA", l="K"}) == "AAo AAo")
assert(string.gsub("alo alo", "((.)(.?))", {al="AA", o=false}) == "AAo AAo")

assert(string.gsub("alo alo", "().", {2,5,6}) == "256 alo")

t = {}; setmetatable(t, {__index = function (t,s) return string.upper(s) end})
assert(string.gsub("a alo b hi", "%w%w+", t) == "a ALO b HI")


-- tests for gmatch
assert(string.gfind == string.gmatch)
local a = 0
for i in string.gmatch('abcde', '()') do assert(i == a+1); a=i end
assert(a==6)

t = {n=0}
for w in string.gmatch("first second word", "%w+") do
      t.n=t.n+1; t[t.n] = w
end
assert(t[1] == "first" and t[2] == "second" and t[3] == "word")

t = {3, 6, 9}
for i in string.gmatch ("xuxx uu ppar r", "()(.)%2") do
  assert(i == table.remove(t, 1))
end
assert(table.getn(t) == 0)

t = {}
for i,j in string.gmatch("13 14 10 = 11, 15= 16, 22=23", "(%d+)%s*=%s*(%d+)") do
  t[i] = j
end
a = 0
for k,v in pairs(t) do assert(k+1 == v+0); a=a+1 end
assert(a == 3)


-- tests for `%f' (`frontiers')

-- assert(string.gsub("aaa aa a aaa a", "%f[%w]a", "x") == "xaa xa x xaa x")
-- assert(string.gsub("[[]] [][] [[[[", "%f[[].", "x") == "x[]] x]x] x[[[")
-- assert(string.gsub("01abc45de3", "%f[%d]", ".") == ".01abc.45de.3")
-- assert(string.gsub("01abc45 de3x", "%f[%D]%w", ".") == "01.bc45 de3.")
-- assert(string.gsub("function", "%f[\1-\255]%w", ".") == ".unction")
-- assert(string.gsub("function", "%f[^\1-\255]", ".") == "function.")
-- 
-- local i, e = string.find(" alo aalo allo", "%f[%S].-%f[%s].-%f[%S]")
-- assert(i == 2 and e == 5)
-- local k = string.match(" alo aalo allo", "%f[%S](.-%f[%s].-%f[%S])")
-- assert(k == 'alo ')
-- 
-- local a = {1, 5, 9, 14, 17,}
-- for k in string.gmatch("alo alo th02 is 1hat", "()%f[%w%d]") do
--   assert(table.remove(a, 1) == k)
-- end
-- assert(table.getn(a) == 0)


print('OK')
