package c10

import (
	"fmt"
	"testing"

	lua "github.com/yuin/gopher-lua"
	"pgregory.net/rapid"

	"verif/vf"
)

// ---------------------------------------------------------------------------------------------
// (i) stack machine

// Op is one stack operation of the innermost host function.
type Op struct {
	Op string `json:"op"`          // push pushn pop get gettop settop insert remove replace call
	I  int    `json:"i,omitempty"` // index (get settop insert remove replace) or count (pop pushn) or nargs (call)
	V  *Val   `json:"v,omitempty"` // value (push insert replace)
	N  int    `json:"n,omitempty"` // call: NRet (-1: all)
	F  string `json:"f,omitempty"` // call: callee  goecho luaecho gorev goconst luaconst   + how: Call PCall CallByParam
	H  string `json:"h,omitempty"` // call: Call | PCall | CallByParam
}

type StackCase struct {
	Reg    RegCfg  `json:"reg"`
	Depth0 bool    `json:"depth0,omitempty"` // run the operations at top level (no call frame at all)
	Top    TopSpec `json:"top"`
	Chain  []Frame `json:"chain"`
	NArgs  int     `json:"nargs"` // arguments of the innermost function = its initial list
	Ops    []Op    `json:"ops"`
	Under  bool    `json:"under,omitempty"` // finish with Pop(top+1): must raise and must not reach below the list
	Ret    int     `json:"ret"`             // how many of its top-most values the innermost function returns
	Rounds int     `json:"rounds"`          // how often the whole chain is run on the same state
}

// listModel is the oracle: a Go slice indexed 1..len (or -1..-len from the end).  Written from the property text.
type listModel struct {
	s []lua.LValue
}

// pos maps an index to a 1-based position; ok is false when the index does not name an element.
func (m *listModel) pos(i int) (int, bool) {
	n := len(m.s)
	switch {
	case i > 0:
		return i, i <= n
	case i < 0:
		p := n + i + 1
		return p, p >= 1
	}
	return 0, false
}

func (m *listModel) get(i int) lua.LValue {
	if p, ok := m.pos(i); ok {
		return m.s[p-1]
	}
	return lua.LNil
}

// apply returns false when the operation is outside the domain the property quantifies over
// (then nothing is executed and the case is counted as discarded; generated cases never do this).
func (m *listModel) apply(op Op, v lua.LValue) bool {
	n := len(m.s)
	switch op.Op {
	case "push":
		m.s = append(m.s, v)
	case "pushn":
		if op.I < 0 {
			return false
		}
		for k := 0; k < op.I; k++ {
			m.s = append(m.s, lua.LNumber(1000+k))
		}
	case "pop":
		if op.I < 0 || op.I > n {
			return false
		}
		m.s = m.s[:n-op.I]
	case "get", "gettop":
	case "settop":
		nl := op.I
		if op.I < 0 {
			nl = n + op.I + 1
		}
		if nl < 0 || nl > n+400 {
			return false
		}
		for len(m.s) < nl {
			m.s = append(m.s, lua.LNil)
		}
		m.s = m.s[:nl]
	case "insert":
		// the element goes in front of the element the index names; top+1 appends
		var p int
		if op.I > 0 {
			p = op.I
			if p > n+1 {
				return false
			}
		} else {
			q, ok := m.pos(op.I)
			if !ok {
				return false
			}
			p = q
		}
		m.s = append(m.s, nil)
		copy(m.s[p:], m.s[p-1:])
		m.s[p-1] = v
	case "remove":
		// outside the list (the repository's own TestRemove pins Remove(top+1) and Remove(-10) as no-ops)
		if op.I > n+2 || op.I < -(n+2) {
			return false
		}
		if p, ok := m.pos(op.I); ok {
			m.s = append(m.s[:p-1], m.s[p:]...)
		}
	case "replace":
		// outside the list (TestGetAndReplace pins Replace(0, v) as a no-op)
		if op.I > n+2 || op.I < -(n+2) {
			return false
		}
		if p, ok := m.pos(op.I); ok {
			m.s[p-1] = v
		}
	case "call":
		// the function is slipped in below the top-most I values, which become its arguments; the call removes the
		// function and the arguments and leaves the (adjusted) results
		if op.I < 0 || op.I > n {
			return false
		}
		args := append([]lua.LValue(nil), m.s[n-op.I:]...)
		res := calleeResults(op.F, args)
		if res == nil && op.F != "goecho" && op.F != "luaecho" && op.F != "gorev" && op.F != "goconst" && op.F != "luaconst" {
			return false
		}
		m.s = m.s[:n-op.I]
		for _, e := range adjust(exact(res...), op.N) {
			m.s = append(m.s, e.v)
		}
	default:
		return false
	}
	return true
}

// calleeResults: what the callees of the "call" operation return for given arguments.
func calleeResults(kind string, args []lua.LValue) []lua.LValue {
	switch kind {
	case "goecho", "luaecho":
		return args
	case "gorev":
		out := make([]lua.LValue, len(args))
		for i, a := range args {
			out[len(args)-1-i] = a
		}
		return out
	case "goconst", "luaconst":
		return []lua.LValue{lua.LString("k1"), lua.LString("k2")}
	}
	return nil
}

// stackCallees builds the functions the "call" operation calls (at top level, before anything runs).
func stackCallees(L *lua.LState) (map[string]lua.LValue, error) {
	m := map[string]lua.LValue{
		"goecho": L.NewFunction(func(L *lua.LState) int { return L.GetTop() }),
		"gorev": L.NewFunction(func(L *lua.LState) int {
			n := L.GetTop()
			for i := n; i >= 1; i-- {
				L.Push(L.Get(i))
			}
			return n
		}),
		"goconst": L.NewFunction(func(L *lua.LState) int {
			L.Push(lua.LString("below"))
			L.Push(lua.LString("k1"))
			L.Push(lua.LString("k2"))
			return 2
		}),
	}
	for _, e := range [][2]string{
		{"luaecho", "return function(...) return ... end"},
		{"luaconst", "return function(...) local a, b = 1, 2; return \"k1\", \"k2\" end"},
	} {
		name, src := e[0], e[1]
		chunk, err := L.LoadString(src)
		if err != nil {
			return nil, fmt.Errorf("harness: %v", err)
		}
		L.Push(chunk)
		if err := L.PCall(0, 1, nil); err != nil {
			return nil, fmt.Errorf("harness: %v", err)
		}
		m[name] = L.Get(-1)
		L.Pop(1)
	}
	return m, nil
}

func doOp(L *lua.LState, op Op, v lua.LValue, callees map[string]lua.LValue) error {
	switch op.Op {
	case "call":
		fn := callees[op.F]
		if fn == nil {
			return fmt.Errorf("harness: unknown callee %q", op.F)
		}
		switch op.H {
		case "CallByParam":
			args := make([]lua.LValue, op.I)
			for i := range args {
				args[i] = L.Get(i - op.I) // -I .. -1
			}
			L.Pop(op.I)
			return L.CallByParam(lua.P{Fn: fn, NRet: op.N, Protect: true}, args...)
		default:
			if op.I == 0 {
				L.Push(fn)
			} else {
				L.Insert(fn, -op.I)
			}
			if op.H == "PCall" {
				return L.PCall(op.I, op.N, nil)
			}
			L.Call(op.I, op.N)
		}
	case "push":
		L.Push(v)
	case "pushn":
		for k := 0; k < op.I; k++ {
			L.Push(lua.LNumber(1000 + k))
		}
	case "pop":
		L.Pop(op.I)
	case "settop":
		L.SetTop(op.I)
	case "insert":
		L.Insert(v, op.I)
	case "remove":
		L.Remove(op.I)
	case "replace":
		L.Replace(op.I, v)
	}
	return nil
}

var chkStack = vf.Register("stack_machine", stackOracle)

// chkStackSmall runs the same oracle over the enumerated short sequences of TestStackSmallScope.
var chkStackSmall = vf.Register("stack_small_scope", stackOracle)

func stackOracle(k *vf.C, c *StackCase) error {
	L := newState(c.Reg)
	defer L.Close()
	env := newValEnv(L)

	// simulate the model first: the expected final list decides what the innermost function returns
	cr := &chainRun{L: L, env: env, top: c.Top, frames: c.Chain, innerNArgs: c.NArgs, innerFails: c.Under}
	if c.Depth0 {
		cr.frames = nil
	}
	var init []lua.LValue
	if !c.Depth0 {
		init = cr.argsOf(len(cr.frames))
	}
	if c.Depth0 {
		for i := 1; i <= c.Top.Sent; i++ {
			init = append(init, sentVal(-1, i))
		}
	}
	sim := &listModel{s: append([]lua.LValue(nil), init...)}
	for _, op := range c.Ops {
		var v lua.LValue = lua.LNil
		if op.V != nil {
			v = env.val(*op.V)
		}
		if !sim.apply(op, v) {
			k.Discard("operation_outside_domain")
			return nil
		}
	}
	ret := c.Ret
	if ret > len(sim.s) {
		ret = len(sim.s)
	}
	if ret < 0 {
		ret = 0
	}
	finalRes := append([]lua.LValue(nil), sim.s[len(sim.s)-ret:]...)

	cr.innerRes = finalRes
	negIdx, boundaryIdx, outRead, maxTop := 0, 0, 0, 0
	callees, err := stackCallees(L)
	if err != nil {
		return err
	}

	body := func(L *lua.LState, who string) int {
		m := &listModel{s: append([]lua.LValue(nil), init...)}
		toExp := func() []expv { return exact(m.s...) }
		if !cr.expectStack(L, who, "on entry", toExp()) {
			return 0
		}
		for oi, op := range c.Ops {
			var v lua.LValue = lua.LNil
			if op.V != nil {
				v = env.val(*op.V)
			}
			n := len(m.s)
			when := fmt.Sprintf("after op %d %s(%d) on a list of %d", oi, op.Op, op.I, n)
			switch op.Op {
			case "get":
				got := L.Get(op.I)
				want := m.get(op.I)
				if got == nil {
					cr.fail("%s op %d: Get(%d) on a list of %d returned a Go nil", who, oi, op.I, n)
				} else if got != want {
					cr.fail("%s op %d: Get(%d) on a list of %d gave %s, expected %s", who, oi, op.I, n, env.desc(got), env.desc(want))
				}
				if _, ok := m.pos(op.I); !ok {
					outRead++
				}
			case "gettop":
				if got := L.GetTop(); got != n {
					cr.fail("%s op %d: GetTop()=%d, expected %d", who, oi, got, n)
				}
			default:
				if err := doOp(L, op, v, callees); err != nil {
					cr.fail("%s op %d %s: unexpected error: %v", who, oi, op.Op, firstLine(err.Error()))
					return 0
				}
				m.apply(op, v)
			}
			switch op.Op {
			case "get", "settop", "insert", "remove", "replace":
				if op.I < 0 {
					negIdx++
				}
				if op.I == 0 || op.I == n+1 || op.I == -(n+1) {
					boundaryIdx++
				}
			}
			if len(m.s) > maxTop {
				maxTop = len(m.s)
			}
			if op.Op != "get" && op.Op != "gettop" {
				if !cr.expectStack(L, who, when, toExp()) {
					return 0
				}
			}
		}
		if !cr.expectStack(L, who, "after the last operation", toExp()) {
			return 0
		}
		if c.Under {
			// documented in state.go: Pop raises "register underflow" as soon as the list is empty; whatever it does
			// it must not reach into the caller's values (those are re-read by the outer activations)
			L.Pop(len(m.s) + 1)
			cr.fail("%s: Pop(%d) on a list of %d returned normally, expected the 'register underflow' error", who, len(m.s)+1, len(m.s))
			return 0
		}
		return ret
	}

	rounds := c.Rounds
	if rounds < 1 {
		rounds = 1
	}
	if c.Depth0 {
		for r := 0; r < rounds && len(cr.problems) == 0; r++ {
			for i := 1; i <= c.Top.Sent; i++ {
				L.Push(sentVal(-1, i))
			}
			func() {
				defer func() {
					if r := recover(); r != nil {
						cr.fail("Go panic during top-level stack operations: %v", firstLine(fmt.Sprint(r)))
					}
				}()
				body(L, "top-level")
			}()
			L.SetTop(0)
			if L.GetTop() != 0 {
				cr.fail("top-level: SetTop(0) left %d values", L.GetTop())
			}
		}
	} else {
		cr.innerBody = func(L *lua.LState) int { return body(L, "innermost") }
		if err := cr.build(); err != nil {
			return err
		}
		for r := 0; r < rounds && len(cr.problems) == 0; r++ {
			before := cr.entered
			cr.run()
			if cr.entered != before+1 && len(cr.problems) == 0 {
				cr.fail("innermost function ran %d times in one round", cr.entered-before)
			}
		}
	}
	if err := cr.err(); err != nil {
		return err
	}

	// what was explored
	depth := 0
	if !c.Depth0 {
		depth = len(c.Chain) + 1
	}
	k.Class(fmt.Sprintf("depth:%d", depth))
	k.Class(c.Reg.class())
	chainClasses(k, cr.frames)
	for _, op := range c.Ops {
		k.Class("op:" + op.Op)
	}
	if negIdx > 0 {
		k.Class("has_negative_index")
	}
	if boundaryIdx > 0 {
		k.Class("has_boundary_index")
	}
	if outRead > 0 {
		k.Class("has_read_outside_list")
	}
	if c.Under {
		k.Class("ends_with_pop_underflow")
	}
	if maxTop > 128 && c.Reg.Max > 0 {
		k.Class("registry_grew")
	}
	if rounds > 1 {
		k.Class("two_rounds")
	}
	if depth >= 1 && negIdx > 0 && boundaryIdx > 0 {
		h := fmt.Sprintf("%v|%v|%d|%v|%d", c.Chain, c.Ops, c.NArgs, c.Under, c.Ret)
		k.Nontrivial(vf.Hash("stack", h))
		k.Sample(fmt.Sprintf("stack/depth%d", depth), 1, c)
	}
	return nil
}

// ---------------------------------------------------------------------------------------------
// generator

func genIndex(t *rapid.T, top int, classes []string) int {
	for {
		switch rapid.SampledFrom(classes).Draw(t, "idxclass") {
		case "pos":
			if top > 0 {
				return rapid.IntRange(1, top).Draw(t, "idx")
			}
		case "neg":
			if top > 0 {
				return -rapid.IntRange(1, top).Draw(t, "idx")
			}
		case "top+1":
			return top + 1
		case "zero":
			return 0
		case "-(top+1)":
			return -(top + 1)
		case "out":
			if rapid.Bool().Draw(t, "outside_high") {
				return top + 2
			}
			return -(top + 2)
		}
		if top == 0 {
			// only boundary classes are possible on an empty list
			for _, c := range classes {
				switch c {
				case "top+1":
					return 1
				case "zero":
					return 0
				}
			}
			return 1
		}
	}
}

var opKinds = []string{"push", "push", "push", "pop", "get", "get", "gettop", "settop", "insert", "insert", "remove", "remove",
	"replace", "replace", "pushn", "call"}

func genOps(t *rapid.T, top int) []Op {
	n := rapid.IntRange(1, 40).Draw(t, "nops")
	var ops []Op
	bulk := 0
	for len(ops) < n {
		kind := rapid.SampledFrom(opKinds).Draw(t, "op")
		var op Op
		switch kind {
		case "push":
			v := genVal(t)
			op = Op{Op: "push", V: &v}
			top++
		case "pushn":
			if bulk >= 2 || top > 400 {
				continue
			}
			bulk++
			cnt := rapid.IntRange(1, 300).Draw(t, "pushn")
			op = Op{Op: "pushn", I: cnt}
			top += cnt
		case "pop":
			cnt := rapid.IntRange(0, top).Draw(t, "popn")
			if top > 3 && rapid.IntRange(0, 3).Draw(t, "popsmall") > 0 {
				cnt = rapid.IntRange(0, 3).Draw(t, "popn2")
			}
			op = Op{Op: "pop", I: cnt}
			top -= cnt
		case "get":
			op = Op{Op: "get", I: genIndex(t, top, []string{"pos", "neg", "pos", "neg", "top+1", "zero", "-(top+1)", "out"})}
		case "gettop":
			op = Op{Op: "gettop"}
		case "settop":
			var idx int
			switch rapid.IntRange(0, 5).Draw(t, "settopclass") {
			case 0:
				idx = 0
			case 1:
				idx = -(top + 1) // boundary: empties the list
			case 2:
				idx = top + rapid.IntRange(1, 8).Draw(t, "grow")
			case 3:
				if top > 300 {
					idx = top
				} else {
					idx = top + rapid.IntRange(20, 200).Draw(t, "growbig")
				}
			case 4:
				idx = rapid.IntRange(0, top).Draw(t, "idx")
			default:
				idx = -rapid.IntRange(1, top+1).Draw(t, "idx")
			}
			op = Op{Op: "settop", I: idx}
			if idx >= 0 {
				top = idx
			} else {
				top = top + idx + 1
			}
		case "insert":
			// documented domain: 1..top+1 and -top..-1
			v := genVal(t)
			idx := genIndex(t, top, []string{"pos", "neg", "pos", "neg", "top+1"})
			op = Op{Op: "insert", I: idx, V: &v}
			top++
		case "remove":
			idx := genIndex(t, top, []string{"pos", "neg", "pos", "neg", "pos", "neg", "top+1", "zero", "-(top+1)", "out"})
			op = Op{Op: "remove", I: idx}
			if (idx > 0 && idx <= top) || (idx < 0 && -idx <= top) {
				top--
			}
		case "replace":
			v := genVal(t)
			idx := genIndex(t, top, []string{"pos", "neg", "pos", "neg", "pos", "neg", "top+1", "zero", "-(top+1)", "out"})
			op = Op{Op: "replace", I: idx, V: &v}
		case "call":
			maxArgs := top
			if maxArgs > 5 {
				maxArgs = 5
			}
			op = Op{Op: "call", I: rapid.IntRange(0, maxArgs).Draw(t, "callnargs"),
				N: rapid.SampledFrom([]int{-1, 0, 1, 3}).Draw(t, "callnret"),
				F: rapid.SampledFrom([]string{"goecho", "luaecho", "gorev", "goconst", "luaconst"}).Draw(t, "callee"),
				H: rapid.SampledFrom([]string{"Call", "PCall", "CallByParam"}).Draw(t, "how")}
			nres := op.I
			if op.F == "goconst" || op.F == "luaconst" {
				nres = 2
			}
			if op.N >= 0 {
				nres = op.N
			}
			top = top - op.I + nres
		}
		ops = append(ops, op)
	}
	return ops
}

func genStackCase(t *rapid.T) *StackCase {
	c := &StackCase{Reg: genRegCfg(t), Top: genTop(t)}
	c.Depth0 = rapid.IntRange(0, 6).Draw(t, "depth0") == 0
	start := 0
	if c.Depth0 {
		start = c.Top.Sent
	} else {
		c.Chain = genChain(t, 4)
		c.NArgs = rapid.IntRange(0, 5).Draw(t, "nargs")
		if n := len(c.Chain); n > 0 && viaMeta(c.Chain[n-1].Via) {
			c.NArgs = 2 // the innermost function runs as an __index handler: (table, key)
		}
		start = c.NArgs
		c.Under = rapid.IntRange(0, 7).Draw(t, "under") == 0
		c.Ret = rapid.IntRange(0, 5).Draw(t, "ret")
	}
	c.Ops = genOps(t, start)
	c.Rounds = rapid.IntRange(1, 2).Draw(t, "rounds")
	return c
}

func TestStackMachine(t *testing.T) {
	vf.Rapid(t, func(rt *rapid.T) {
		chkStack.Run(rt, genStackCase(rt))
	})
}

// smallScopeChoices lists every operation of the reduced alphabet that is inside the domain for a list of `top` values.
func smallScopeChoices(top, step int) []Op {
	v := Val{K: "n", N: 100 + step}
	ops := []Op{{Op: "push", V: &v}}
	for k := 0; k <= top; k++ {
		ops = append(ops, Op{Op: "pop", I: k})
	}
	for i := -(top + 1); i <= top+2; i++ {
		ops = append(ops, Op{Op: "settop", I: i})
	}
	for i := -top; i <= top+1; i++ {
		if i != 0 {
			ops = append(ops, Op{Op: "insert", I: i, V: &v})
		}
	}
	for i := -(top + 2); i <= top+2; i++ {
		ops = append(ops, Op{Op: "remove", I: i}, Op{Op: "replace", I: i, V: &v}, Op{Op: "get", I: i})
	}
	for nargs := 0; nargs <= top && nargs <= 2; nargs++ {
		for _, nret := range []int{-1, 0, 2} {
			ops = append(ops, Op{Op: "call", I: nargs, N: nret, F: "gorev", H: "Call"}, Op{Op: "call", I: nargs, N: nret, F: "luaconst", H: "PCall"})
		}
	}
	return ops
}

// TestStackSmallScope enumerates EVERY sequence of at most 2 (quick) / 3 (thorough) operations of a reduced alphabet
// (every in-domain index for every operation, lists of at most 4 values) from initial lists of 0, 1 and 2 values, once
// at top level and once in a host function called from a Lua function that keeps locals and pending arguments.
func TestStackSmallScope(t *testing.T) {
	si, sn := vf.Shard()
	maxLen := vf.Scale(2, 3)
	n := 0
	var rec func(top int, ops []Op, run func([]Op))
	rec = func(top int, ops []Op, run func([]Op)) {
		if len(ops) > 0 {
			run(ops)
		}
		if len(ops) == maxLen {
			return
		}
		for _, op := range smallScopeChoices(top, len(ops)) {
			m := &listModel{s: make([]lua.LValue, top)}
			for i := range m.s {
				m.s[i] = lua.LNil
			}
			if !m.apply(op, lua.LNil) || len(m.s) > 4 {
				continue
			}
			rec(len(m.s), append(append([]Op(nil), ops...), op), run)
		}
	}
	for _, depth0 := range []bool{true, false} {
		for n0 := 0; n0 <= 2; n0++ {
			rec(n0, nil, func(ops []Op) {
				n++
				if n%sn != si {
					return
				}
				c := &StackCase{Reg: RegCfg{Size: 128, Max: 128 + 8192, Step: 3}, Depth0: depth0, Top: TopSpec{Sent: n0, Via: "PCall", NRet: -1},
					Ops: ops, Rounds: 1}
				if !depth0 {
					c.Chain = []Frame{{Kind: "lua", NArgs: 1, NPar: 0, VarArg: true, Sent: 2, Pend: 2, Cap: true, Via: "call", NRet: -1, Ret: 1}}
					c.NArgs = n0
					c.Ret = 4
				}
				chkStackSmall.Run(t, c)
			})
		}
	}
	chkStackSmall.SetExhaustive(true)
	chkStackSmall.Note("space", fmt.Sprintf("all sequences of 1..%d operations over push/pop/settop/insert/remove/replace/get/call with every in-domain index, lists of <= 4 values, initial lists of 0..2 values, at top level and at depth 2", maxLen))
}
