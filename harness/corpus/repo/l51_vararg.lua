print('testing vararg')

_G.arg = nil

function f(a, ...)
  assert(type(arg) == 'table')
  assert(type(arg.n) == 'number')
  for i=1,arg.n do assert(a[i]==arg[i]) end
  return arg.n
end

function c12 (...)
  assert(arg == nil)
  local x = {...}; x.n = table.getn(x)
  local res = (x.n==2 and x[1] == 1 and x[2] == 2)
  if res then res = 55 end
  return res, 2
end

function vararg (...) return arg end

local call = function (f, args) return f(unpack(args, 1, args.n)) end

assert(f() == 0)
assert(f({1,2,3}, 1, 2, 3) == 3)
assert(f({"alo", nil, 45, f, nil}, "alo", nil, 45, f, nil) == 5)

assert(c12(1,2)==55)
a,b = assert(call(c12, {1,2}))
assert(a == 55 and b == 2)
a = call(c12, {1,2;n=2})
assert(a == 55 and b == 2)
a = call(c12, {1,2;n=1})
assert(not a)
assert(c12(1,2,3) == false)
--[[
local a = vararg(call(next, {_G,nil;n=2}))
local b,c = next(_G)
assert(a[1] == b and a[2] == c and a.n == 2)
a = vararg(call(call, {c12, {1,2}}))
assert(a.n == 2 and a[1] == 55 and a[2] == 2)
a = call(print, {'+'})
assert(a == nil)
--]]

local t = {1, 10}
function t:f (...) return self[arg[1]]+arg.n end
assert(t:f(1,4) == 3 and t:f(2) == 11)
print('+')

lim = 20
local i, a = 1, {}
while i <= lim do a[i] = i+0.3; i=i+1 end

function f(a, b, c, d, ...)
  local more = {...}
  assert(a == 1.3 and more[1] == 5.3 and
         more[lim-4] == lim+0.3 and not more[lim-3])
end

function g(a,b,c)
  assert(a == 1.3 and b == 2.3 and c == 3.3)
end

call(f, a)
call(g, a)

a = {}
i = 1
while i <= lim do a[i] = i; i=i+1 end
assert(call(math.max, a) == lim)

print("+")


-- new-style varargs

function oneless (a, ...) return ... end

function f (n, a, ...)
  local b
  assert(arg == nil)
  if n == 0 then
    local b, c, d = ...
    return a, b, c, d, oneless(oneless(oneless(...)))
  else
    n, b, a = n-1, ..., a
    assert(b == ...)
    return f(n, a, ...)
  end
end

a,b,c,d,e = assert(f(10,5,4,3,2,1))
assert(a==5 and b==4 and c==3 and d==2 and e==1)

a,b,c,d,e = f(4)
assert(a==nil and b==nil and c==nil and d==nil and e==nil)


-- varargs for main chunks
f = loadstring[[ return {...} ]]
x = f(2,3)
assert(x[1] == 2 and x[2] == 3 and x[3] == nil)


f = loadstring[[
  local x = {...}
  for i=1,select('#', ...) do assert(x[i] == select(i, ...)) end
  assert(x[select('#', ...)+1] == nil)
  return true
]]

assert(f("a", "b", nil, {}, assert))
assert(f())

a = {select(3, unpack{10,20,30,40})}
assert(table.getn(a) == 2 and a[1] == 30 and a[2] == 40)
a = {select(1)}
assert(next(a) == nil)
a = {select(-1, 3, 5, 7)}
assert(a[1] == 7 and a[2] == nil)
a = {select(-2, 3, 5, 7)}
assert(a[1] == 5 and a[2] == 7 and a[3] == nil)
pcall(select, 10000)
pcall(select, -10000)

print('OK')

