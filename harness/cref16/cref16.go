// Package cref16 exposes the few libc routines that serve as independent reference for property C16
// (text <-> value round trips): strtod / strtoull for numerals, gmtime_r / timegm / strftime for dates.
// The process never calls setlocale, so every routine runs in the "C" locale.
package cref16

/*
#include <stdlib.h>
#include <string.h>
#include <time.h>
#include <errno.h>

// c16_strtod parses the whole NUL-terminated string; *used receives the number of bytes consumed.
static double c16_strtod(const char *s, int *used) {
	char *end;
	double d = strtod(s, &end);
	*used = (int)(end - s);
	return d;
}

static unsigned long long c16_strtoull(const char *s, int base, int *used, int *range) {
	char *end;
	errno = 0;
	unsigned long long v = strtoull(s, &end, base);
	*range = (errno == ERANGE);
	*used = (int)(end - s);
	return v;
}

typedef struct {
	int sec, min, hour, mday, mon, year, wday, yday, isdst;
} c16_tm;

static int c16_gmtime(long long t, c16_tm *o) {
	time_t tt = (time_t)t;
	struct tm tm;
	memset(&tm, 0, sizeof tm);
	if (gmtime_r(&tt, &tm) == NULL) return 0;
	o->sec = tm.tm_sec; o->min = tm.tm_min; o->hour = tm.tm_hour; o->mday = tm.tm_mday; o->mon = tm.tm_mon;
	o->year = tm.tm_year; o->wday = tm.tm_wday; o->yday = tm.tm_yday; o->isdst = tm.tm_isdst;
	return 1;
}

static long long c16_timegm(int year, int mon, int mday, int hour, int min, int sec) {
	struct tm tm;
	memset(&tm, 0, sizeof tm);
	tm.tm_year = year; tm.tm_mon = mon; tm.tm_mday = mday; tm.tm_hour = hour; tm.tm_min = min; tm.tm_sec = sec;
	tm.tm_isdst = 0;
	return (long long)timegm(&tm);
}

// c16_strftime formats gmtime(t) with fmt; returns the number of bytes written (0 also when the buffer is too small).
static int c16_strftime(long long t, const char *fmt, char *buf, int n) {
	time_t tt = (time_t)t;
	struct tm tm;
	memset(&tm, 0, sizeof tm);
	if (gmtime_r(&tt, &tm) == NULL) return -1;
	return (int)strftime(buf, (size_t)n, fmt, &tm);
}
*/
import "C"

import (
	"strings"
	"unsafe"
)

// Strtod runs libc strtod on s (which must not contain NUL) and reports the value and how many bytes it consumed.
func Strtod(s string) (float64, int) {
	if strings.IndexByte(s, 0) >= 0 {
		panic("cref16.Strtod: NUL in input")
	}
	cs := C.CString(s)
	defer C.free(unsafe.Pointer(cs))
	var used C.int
	d := C.c16_strtod(cs, &used)
	return float64(d), int(used)
}

// Strtoull runs libc strtoull; rng reports ERANGE (saturated result).
func Strtoull(s string, base int) (v uint64, used int, rng bool) {
	if strings.IndexByte(s, 0) >= 0 {
		panic("cref16.Strtoull: NUL in input")
	}
	cs := C.CString(s)
	defer C.free(unsafe.Pointer(cs))
	var u, r C.int
	x := C.c16_strtoull(cs, C.int(base), &u, &r)
	return uint64(x), int(u), r != 0
}

// Tm mirrors struct tm (C conventions: Mon 0..11, Year since 1900, Wday 0=Sunday, Yday 0..365).
type Tm struct {
	Sec, Min, Hour, Mday, Mon, Year, Wday, Yday, Isdst int
}

func Gmtime(t int64) (Tm, bool) {
	var o C.c16_tm
	if C.c16_gmtime(C.longlong(t), &o) == 0 {
		return Tm{}, false
	}
	return Tm{int(o.sec), int(o.min), int(o.hour), int(o.mday), int(o.mon), int(o.year), int(o.wday), int(o.yday), int(o.isdst)}, true
}

// Timegm takes C-convention fields (year since 1900, mon 0..11).
func Timegm(year, mon, mday, hour, min, sec int) int64 {
	return int64(C.c16_timegm(C.int(year), C.int(mon), C.int(mday), C.int(hour), C.int(min), C.int(sec)))
}

// Strftime renders gmtime(t) with the format in the C locale.  ok is false when gmtime fails.
func Strftime(t int64, format string) (string, bool) {
	if strings.IndexByte(format, 0) >= 0 {
		panic("cref16.Strftime: NUL in format")
	}
	cf := C.CString(format)
	defer C.free(unsafe.Pointer(cf))
	buf := make([]byte, 1024)
	n := C.c16_strftime(C.longlong(t), cf, (*C.char)(unsafe.Pointer(&buf[0])), C.int(len(buf)))
	if n < 0 {
		return "", false
	}
	return string(buf[:int(n)]), true
}
