package c18

import (
	"encoding/json"
	"math"
	"strconv"
)

// Val is a Lua value as it appears in a case: nil, number, string, boolean, or an object of a fixed pool of tables
// (compared by identity).
type Val struct {
	T string  // nil | num | str | bool | obj
	f float64 // number
	S string
	B bool
	I int // index into the object pool
}

// valJSON is the wire form: the number travels as text (strconv 'g') so that NaN, +Inf and -0 survive JSON.
type valJSON struct {
	T string `json:"t"`
	N string `json:"n,omitempty"`
	S string `json:"s,omitempty"`
	B bool   `json:"b,omitempty"`
	I int    `json:"i,omitempty"`
}

func (v Val) MarshalJSON() ([]byte, error) {
	j := valJSON{T: v.T, S: v.S, B: v.B, I: v.I}
	if v.T == "num" {
		j.N = strconv.FormatFloat(v.f, 'g', -1, 64)
	}
	return json.Marshal(j)
}

func (v *Val) UnmarshalJSON(b []byte) error {
	var j valJSON
	if err := json.Unmarshal(b, &j); err != nil {
		return err
	}
	*v = Val{T: j.T, S: j.S, B: j.B, I: j.I}
	if j.T == "num" {
		f, err := strconv.ParseFloat(j.N, 64)
		if err != nil {
			return err
		}
		v.f = f
	}
	return nil
}

var vNil = Val{T: "nil"}

func vNum(f float64) Val  { return Val{T: "num", f: f} }
func vStr(s string) Val   { return Val{T: "str", S: s} }
func vBool(b bool) Val    { return Val{T: "bool", B: b} }
func vObj(i int) Val      { return Val{T: "obj", I: i} }
func (v Val) IsNil() bool { return v.T == "nil" || v.T == "" }
func (v Val) F() float64  { return v.f }

func (v Val) String() string {
	switch v.T {
	case "num":
		return strconv.FormatFloat(v.f, 'g', -1, 64)
	case "str":
		return strconv.Quote(v.S)
	case "bool":
		return strconv.FormatBool(v.B)
	case "obj":
		return "obj#" + strconv.Itoa(v.I)
	}
	return "nil"
}

// concatText is the text table.concat must produce for v; ok is false when the manual does not fix it (only strings
// and integer-valued numbers of moderate size are used: the text of other numbers is "a reasonable format").
func (v Val) concatText() (string, bool) {
	switch v.T {
	case "str":
		return v.S, true
	case "num":
		if v.f == math.Trunc(v.f) && math.Abs(v.f) < 1e14 && !(v.f == 0 && math.Signbit(v.f)) {
			return strconv.FormatInt(int64(v.f), 10), true
		}
	}
	return "", false
}

// id is the identity of a value as an element of a multiset (rawequal classes; NaN is not equal to itself but for
// counting elements all NaNs are one class).
func (v Val) id() string {
	switch v.T {
	case "num":
		if v.f == 0 {
			return "n0"
		}
		return "n" + strconv.FormatFloat(v.f, 'g', -1, 64)
	case "str":
		return "s" + v.S
	case "bool":
		return "b" + strconv.FormatBool(v.B)
	case "obj":
		return "o" + strconv.Itoa(v.I)
	}
	return "nil"
}
