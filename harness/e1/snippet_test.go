package e1

import (
	"os"
	"strings"
	"testing"
)

// TestSnippets runs every "-- case" separated snippet of VERIF_SNIPPETS (a file) on both sides; a development aid.
func TestSnippets(t *testing.T) {
	p := os.Getenv("VERIF_SNIPPETS")
	if p == "" {
		t.Skip()
	}
	b, err := os.ReadFile(p)
	if err != nil {
		t.Fatal(err)
	}
	for i, src := range strings.Split(string(b), "\n--CASE\n") {
		v, d, r, g := Diff(src)
		switch v {
		case Equal:
			t.Logf("case %d: equal (%d events)", i, len(r.Trace))
		case Discard:
			t.Logf("case %d: DISCARD %s", i, d)
		case Differ:
			t.Errorf("case %d: DIFFER %s\n--- source\n%s", i, d, src)
			_ = g
		}
	}
}
