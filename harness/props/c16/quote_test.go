package c16

import (
	"bytes"
	"fmt"
	"strconv"
	"testing"

	lua "github.com/yuin/gopher-lua"
	"pgregory.net/rapid"

	"verif/vf"
)

// QCase: loadstring("return " .. string.format("%q", s))() == s for the byte string S.
type QCase struct {
	S    []byte `json:"s"`
	Text string `json:"text"` // Go-quoted, for the reader
}

var chkQuote = vf.Register("quote", func(k *vf.C, c *QCase) error {
	ip := in()
	s := lua.LString(string(c.S))
	qt := "?"
	if res, err := ip.call("fmtq", 1, s); err == nil {
		if q, ok := res[0].(lua.LString); ok {
			qt = string(q)
		}
	} else if !isLuaError(err) {
		return err
	} else {
		return fmt.Errorf("string.format('%%q', %s) raised: %v", strconv.Quote(string(c.S)), err)
	}
	res, err := ip.call("qroundtrip", 2, s)
	if err != nil {
		return fmt.Errorf("round trip of %s raised: %v", strconv.Quote(string(c.S)), err)
	}
	if res[0] != lua.LTrue {
		return fmt.Errorf("%%q of %s is %s which the interpreter does not read back: %s", strconv.Quote(string(c.S)), strconv.Quote(qt), show(res[1]))
	}
	back, ok := res[1].(lua.LString)
	if !ok || string(back) != string(c.S) {
		return fmt.Errorf("%%q of %s is %s which reads back as %s", strconv.Quote(string(c.S)), strconv.Quote(qt), show(res[1]))
	}
	// the same text inside a larger chunk (the literal must end where it should)
	src := "local a, b = " + qt + ", " + qt + " return a == b, a"
	fn, lerr, err := ip.loadChunk(src)
	if err != nil {
		return err
	}
	if lerr != nil {
		return fmt.Errorf("%%q text %s used twice in one chunk does not load: %v", strconv.Quote(qt), lerr)
	}
	r2, err := ip.callFn(fn, 2)
	if err != nil {
		return fmt.Errorf("chunk with %%q text %s fails: %v", strconv.Quote(qt), err)
	}
	if b2, ok := r2[1].(lua.LString); r2[0] != lua.LTrue || !ok || string(b2) != string(c.S) {
		return fmt.Errorf("%%q text %s inside a chunk reads back as %s", strconv.Quote(qt), show(r2[1]))
	}

	// bookkeeping
	if m, merr := decodeLiteral([]byte(qt)); merr == nil && bytes.Equal(m, c.S) {
		k.Class("text_is_a_5.1_literal_for_s") // informational: not demanded by the property
	} else {
		k.Class("text_is_not_a_plain_5.1_literal")
	}
	nt := false
	seen := map[string]bool{}
	for i, b := range c.S {
		switch {
		case b == 0:
			seen["has:NUL"] = true
			if i+1 < len(c.S) && isDig(c.S[i+1]) {
				seen["has:NUL_then_digit"] = true
			}
			if i+1 < len(c.S) && c.S[i+1] == 0 {
				seen["has:NUL_run"] = true
			}
		case b == '\n':
			seen["has:LF"] = true
		case b == '\r':
			seen["has:CR"] = true
			if i+1 < len(c.S) && c.S[i+1] == '\n' {
				seen["has:CRLF"] = true
			}
		case b == '"':
			seen["has:dquote"] = true
		case b == '\\':
			seen["has:backslash"] = true
			if i+1 == len(c.S) {
				seen["has:trailing_backslash"] = true
			}
		case b < 32 || b == 127:
			seen["has:control"] = true
			if i+1 < len(c.S) && isDig(c.S[i+1]) {
				seen["has:control_then_digit"] = true
			}
		case b >= 128:
			seen["has:high"] = true
		}
		if b < 32 || b >= 127 {
			nt = true
		}
	}
	for _, name := range []string{"has:NUL", "has:NUL_then_digit", "has:NUL_run", "has:LF", "has:CR", "has:CRLF", "has:dquote", "has:backslash",
		"has:trailing_backslash", "has:control", "has:control_then_digit", "has:high"} {
		if seen[name] {
			k.Class(name)
		}
	}
	if len(c.S) == 0 {
		k.Class("empty")
	}
	if nt {
		nontrivial(k, vf.Hash("q", string(c.S)))
		k.Sample("quote", 2, map[string]any{"s": clip(strconv.Quote(string(c.S)), 200), "q": clip(strconv.Quote(qt), 300)})
	}
	return nil
})

var qHot = []byte{0, 0, 0, '\r', '\r', '\n', '\n', '"', '"', '\\', '\\', '0', '1', '9', 1, 7, 9, 11, 12, 26, 27, 31, 127, 128, 0xc3, 0xa9, 0xe2, 0x82, 0xac,
	0xff, 0xfe, 'a', ' ', '\'', 'n', 'r', 'x', 'u', '{', '}', '[', ']', '%'}

func genQBytes(t *rapid.T) []byte {
	switch rapid.IntRange(0, 5).Draw(t, "qstyle") {
	case 0: // arbitrary bytes
		return rapid.SliceOfN(rapid.Byte(), 0, 64).Draw(t, "bytes")
	case 1: // runs
		var out []byte
		n := rapid.IntRange(1, 5).Draw(t, "nruns")
		for i := 0; i < n; i++ {
			b := qHot[rapid.IntRange(0, len(qHot)-1).Draw(t, "rb")]
			out = append(out, bytes.Repeat([]byte{b}, rapid.IntRange(1, 12).Draw(t, "rl"))...)
		}
		return out
	case 2: // every byte value once, rotated
		off := rapid.IntRange(0, 255).Draw(t, "off")
		out := make([]byte, 256)
		for i := range out {
			out[i] = byte(i + off)
		}
		return out
	default:
		return rapid.SliceOfN(rapid.Custom(func(t *rapid.T) byte {
			if rapid.IntRange(0, 4).Draw(t, "hot") > 0 {
				return qHot[rapid.IntRange(0, len(qHot)-1).Draw(t, "hb")]
			}
			return rapid.Byte().Draw(t, "b")
		}), 0, 40).Draw(t, "mixed")
	}
}

func TestQuoteRoundTrip(t *testing.T) {
	vf.Rapid(t, func(rt *rapid.T) {
		s := genQBytes(rt)
		if s == nil {
			s = []byte{}
		}
		chkQuote.Run(rt, &QCase{S: s, Text: strconv.Quote(string(s))})
	})
}

// TestQuoteAllPairs enumerates every two-byte string over a set of bytes that matter to a quoting routine
// (every control byte, quote, backslash, digits, high bytes) and every single byte.
func TestQuoteAllPairs(t *testing.T) {
	si, sn := vf.Shard()
	var alpha []byte
	for b := 0; b < 32; b++ {
		alpha = append(alpha, byte(b))
	}
	alpha = append(alpha, '"', '\'', '\\', '0', '1', '7', '9', 'a', 'n', 'r', 'x', 'z', ' ', 127, 128, 0xa0, 0xc3, 0xff)
	n := 0
	for b := 0; b < 256; b++ {
		n++
		if n%sn != si {
			continue
		}
		s := []byte{byte(b)}
		chkQuote.Run(t, &QCase{S: s, Text: strconv.Quote(string(s))})
	}
	for _, a := range alpha {
		for _, b := range alpha {
			n++
			if n%sn != si {
				continue
			}
			s := []byte{a, b}
			chkQuote.Run(t, &QCase{S: s, Text: strconv.Quote(string(s))})
		}
	}
	chkQuote.Note("all_pairs", fmt.Sprintf("all 256 one-byte strings and all %d two-byte strings over %d selected bytes", len(alpha)*len(alpha), len(alpha)))
}
