package c19

import (
	"encoding/json"
	"fmt"
	"os"
	"path/filepath"
	"strings"
	"testing"

	"pgregory.net/rapid"

	"verif/gl"
	im "verif/iomodel"
	"verif/vf"
)

func TestHistoryMixed(t *testing.T) {
	vf.Rapid(t, func(rt *rapid.T) { chkHistory.Run(rt, genCase(rt, profMixed)) })
}

func TestHistoryUpdate(t *testing.T) {
	vf.Rapid(t, func(rt *rapid.T) { chkHistory.Run(rt, genCase(rt, profUpdate)) })
}

// TestHistoryLong: histories of ~150 steps on long-lived handles (thorough tier).
func TestHistoryLong(t *testing.T) {
	vf.Rapid(t, func(rt *rapid.T) { chkHistory.Run(rt, genCase(rt, profLong)) })
}

func TestHistoryText(t *testing.T) {
	vf.Rapid(t, func(rt *rapid.T) { chkHistory.Run(rt, genCase(rt, profText)) })
}

// ---------------------------------------------------------------------------------------------
// the oracle's own yardstick: the same histories on the C library's FILE*.  A disagreement here says the model (or
// the generator's idea of the domain) is wrong, not gopher-lua; it fails the shard without a replay file, which the
// driver reports as INCONCLUSIVE, never as a violation of the property.

var colLibc = vf.Col("model_vs_libc")

func libcHistory(k *vf.C, c *Case) error {
	dir := gl.Scratch()
	path := filepath.Join(dir, "c19-libc.dat")
	os.Remove(path)
	init := c.InitBytes()
	if !c.Absent {
		if err := os.WriteFile(path, init, 0o600); err != nil {
			return fmt.Errorf("harness: cannot create scratch file: %v", err)
		}
	} else {
		init = nil
	}
	defer os.Remove(path)
	r := &im.CRunner{Path: path}
	defer r.CloseAll()
	w := im.NewWorld(!c.Absent, init)
	step := func(i int, op *im.Op) (bool, error) {
		e := w.Apply(op)
		if e.Unspec != "" {
			return true, nil
		}
		if e.Raise && op.K == "open" {
			r.Do(op, 0) // io.input(missing file): keeps the slots aligned
			return false, nil
		}
		if e.Raise {
			k.Class("skipped:closed_handle_op")
			return false, nil // undefined behaviour in C; covered on the Lua side only
		}
		if e.Free && op.K == "lines" {
			return false, nil
		}
		for _, t := range e.Tags {
			if strings.HasPrefix(t, "refused:") {
				// input on an output-only stream and the reverse: not defined by ISO C; Lua side only
				k.Class("skipped:wrong_direction_op")
				return false, nil
			}
		}
		bound := len(w.Data)
		if len(init) > bound {
			bound = len(init)
		}
		vals, err := r.Do(op, bound)
		if err != nil {
			return true, err
		}
		if cerr := e.Compare(false, "", vals); cerr != nil {
			return true, fmt.Errorf("op %d %s: C library: %v", i, opString(op), cerr)
		}
		if w.Synced() {
			if derr := checkDisk(path, w); derr != nil {
				return true, fmt.Errorf("after op %d %s: C library: %v", i, opString(op), derr)
			}
		}
		for _, t := range e.Tags {
			k.Class(t)
		}
		return false, nil
	}
	for i := range c.Ops {
		stop, err := step(i, &c.Ops[i])
		if err != nil {
			return err
		}
		if stop {
			break
		}
	}
	for hi, h := range w.H {
		if h.Failed || h.Closed {
			continue
		}
		if _, err := step(len(c.Ops), &im.Op{K: "close", H: hi}); err != nil {
			return err
		}
	}
	return checkDisk(path, w)
}

func TestModelVsLibc(t *testing.T) {
	if !im.HaveLibc {
		t.Skip("built without cgo")
	}
	profs := []*profile{profMixed, profUpdate, profText}
	vf.Rapid(t, func(rt *rapid.T) {
		p := profs[rapid.IntRange(0, len(profs)-1).Draw(rt, "profile")]
		c := genCase(rt, p)
		colLibc.Eval()
		if err := libcHistory(colLibc, c); err != nil {
			b, _ := json.Marshal(c)
			rt.Fatalf("ORACLE SELF-CHECK: the model disagrees with the C library (this says nothing about gopher-lua): %v\ncase: %s", err, b)
		}
	})
}

// ---------------------------------------------------------------------------------------------
// bounded-exhaustive: every history of up to N operations from a fixed alphabet, on one handle, for each base mode
// and three initial files.  Histories the model puts outside the domain are not run (by construction).

var chkShort = vf.Register("io_history_short", runHistory)

func rn(n int) im.RFmt    { return im.RFmt{N: &n} }
func rf(f string) im.RFmt { return im.RFmt{F: f} }
func ws(s string, x int) im.WArg {
	return im.WArg{S: []im.Seg{{Pat: im.B(s), Rep: x}}}
}
func off(v int64) *int64 { return &v }

func shortAlphabet() []im.Op {
	return []im.Op{
		{K: "read", R: []im.RFmt{rn(1)}},
		{K: "read", R: []im.RFmt{rn(4096)}},
		{K: "read", R: []im.RFmt{rf("*l")}},
		{K: "read", R: []im.RFmt{rf("*a")}},
		{K: "read", R: []im.RFmt{rn(0)}},
		{K: "read", R: []im.RFmt{rf("*n")}},
		{K: "write", W: []im.WArg{ws("xy", 1)}},
		{K: "write", W: []im.WArg{ws("Z", 4097)}},
		{K: "seek", Wh: "set", Off: off(0)},
		{K: "seek", Wh: "set", Off: off(4095)},
		{K: "seek", Wh: "cur", Off: off(-1)},
		{K: "seek", Wh: "end"},
		{K: "seek", Wh: "end", Off: off(2)},
		{K: "flush"},
		{K: "setvbuf", Buf: "full"},
		{K: "forlines", Max: 1},
		{K: "close"},
	}
}

func shortFiles() [][]im.Seg {
	return [][]im.Seg{
		nil,
		{{Pat: im.B("12 ab\ncd\r\n7")}},
		{{Pat: im.B("x"), Rep: 4090}, {Pat: im.B("\n12 34\n")}},
	}
}

func TestShortHistoriesExhaustive(t *testing.T) {
	si, sn := vf.Shard()
	depth := vf.Scale(3, 4)
	alpha := shortAlphabet()
	modes := []string{"r", "r+", "w", "w+", "a", "a+"}
	n, ran, pruned := 0, 0, 0
	var rec func(prefix []im.Op, mode string, init []im.Seg)
	run := func(ops []im.Op, mode string, init []im.Seg) {
		n++
		if n%sn != si {
			return
		}
		c := &Case{Init: init, Ops: append([]im.Op{{K: "open", H: 0, Mode: mode}}, ops...)}
		// domain filter: the model alone decides
		w := im.NewWorld(true, c.InitBytes())
		for i := range c.Ops {
			op := c.Ops[i]
			if e := w.Apply(&op); e.Unspec != "" {
				pruned++
				return
			}
		}
		ran++
		chkShort.Run(t, c)
	}
	rec = func(prefix []im.Op, mode string, init []im.Seg) {
		if len(prefix) > 0 {
			run(prefix, mode, init)
		}
		if len(prefix) == depth {
			return
		}
		for _, op := range alpha {
			rec(append(append([]im.Op(nil), prefix...), op), mode, init)
		}
	}
	for _, init := range shortFiles() {
		for _, mode := range modes {
			rec(nil, mode, init)
		}
	}
	chkShort.SetExhaustive(true)
	chkShort.Note("space", fmt.Sprintf("all histories of 1..%d operations from a %d-operation alphabet after io.open(mode), modes %v, %d initial files; this shard ran %d, %d outside the domain",
		depth, len(alpha), modes, len(shortFiles()), ran, pruned))
}

// ---------------------------------------------------------------------------------------------
// the shapes of the defects this check found on the pinned tree (all repaired), kept as fixed cases so that a
// regression is reported by name whatever the random part happens to draw

type regression struct {
	id string
	c  Case
}

func regressions() []regression {
	long := []im.Seg{{Pat: im.B("L"), Rep: 5000}, {Pat: im.B("\nshort\n")}}
	return []regression{
		{"F-IO1 *l keeps CR", Case{Init: []im.Seg{{Pat: im.B("a\r\nb\rc\n\r\n")}}, Ops: []im.Op{
			{K: "open", H: 0, Mode: "r"}, {K: "read", H: 0, R: []im.RFmt{rf("*l"), rf("*l"), rf("*l"), rf("*l")}}}}},
		{"F-IO1 lines keeps CR", Case{Init: []im.Seg{{Pat: im.B("a\r\nb\r\n")}}, Ops: []im.Op{
			{K: "open", H: 0, Mode: "r"}, {K: "forlines", H: 0, Max: 10}, {K: "iolines"}}}},
		{"F-IO2 lines longer than the buffer", Case{Init: long, Ops: []im.Op{
			{K: "open", H: 0, Mode: "r"}, {K: "forlines", H: 0, Max: 10}, {K: "close", H: 0}, {K: "iolines"},
			{K: "open", H: 1, Mode: "r"}, {K: "lines", H: 1}, {K: "next", H: 1}, {K: "next", H: 1}, {K: "next", H: 1}}}},
		{"F-IO3 *n across newlines", Case{Init: []im.Seg{{Pat: im.B("12\n34 \r\n\n 5.5e1,7\t\v\f8")}}, Ops: []im.Op{
			{K: "open", H: 0, Mode: "r"}, {K: "read", H: 0, R: []im.RFmt{rf("*n"), rf("*n"), rf("*n"), rn(1), rf("*n"), rf("*n"), rf("*n")}}}}},
		{"F-IO4 seek with buffered output", Case{Init: []im.Seg{{Pat: im.B("0123456789")}}, Ops: []im.Op{
			{K: "open", H: 0, Mode: "r+"}, {K: "setvbuf", H: 0, Buf: "full"}, {K: "write", H: 0, W: []im.WArg{ws("AB", 1)}},
			{K: "seek", H: 0, Wh: "set", Off: off(5)}, {K: "write", H: 0, W: []im.WArg{ws("CD", 1)}}, {K: "seek", H: 0, Wh: "cur", Off: off(0)},
			{K: "seek", H: 0, Wh: "end"}, {K: "write", H: 0, W: []im.WArg{ws("E", 1)}}, {K: "seek", H: 0, Wh: "end"}}}},
		{"F-IO5 read-flush-write", Case{Init: []im.Seg{{Pat: im.B("0123456789")}}, Ops: []im.Op{
			{K: "open", H: 0, Mode: "r+"}, {K: "read", H: 0, R: []im.RFmt{rn(3)}}, {K: "flush", H: 0}, {K: "write", H: 0, W: []im.WArg{ws("XY", 1)}},
			{K: "seek", H: 0}, {K: "read", H: 0, R: []im.RFmt{rf("*a")}}}}},
		{"F-IO6 closed handle", Case{Init: []im.Seg{{Pat: im.B("abc\n")}}, Ops: []im.Op{
			{K: "open", H: 0, Mode: "r"}, {K: "lines", H: 0}, {K: "close", H: 0},
			{K: "read", H: 0}, {K: "write", H: 0, W: []im.WArg{ws("x", 1)}}, {K: "seek", H: 0}, {K: "flush", H: 0}, {K: "lines", H: 0},
			{K: "setvbuf", H: 0, Buf: "no"}, {K: "close", H: 0}, {K: "next", H: 0}, {K: "forlines", H: 0, Max: 2},
			{K: "open", H: 1, Mode: "w"}, {K: "close", H: 1},
			{K: "read", H: 1}, {K: "write", H: 1, W: []im.WArg{ws("x", 1)}}, {K: "seek", H: 1, Wh: "set", Off: off(0)}, {K: "flush", H: 1}, {K: "lines", H: 1},
			{K: "setvbuf", H: 1, Buf: "full"}, {K: "close", H: 1}}}},
		{"F-IO7 b after +", Case{Init: []im.Seg{{Pat: im.B("abc")}}, Ops: []im.Op{
			{K: "open", H: 0, Mode: "r+b"}, {K: "close", H: 0}, {K: "open", H: 1, Mode: "a+b"}, {K: "close", H: 1}, {K: "open", H: 2, Mode: "w+b"}}}},
		{"F-IO8 mode a is write-only", Case{Init: []im.Seg{{Pat: im.B("abc")}}, Ops: []im.Op{
			{K: "open", H: 0, Mode: "a"}, {K: "read", H: 0, R: []im.RFmt{rn(0)}}, {K: "read", H: 0, R: []im.RFmt{rn(1)}}, {K: "read", H: 0, R: []im.RFmt{rf("*a")}}}}},
		{"F-IO9 io.output truncates", Case{Init: []im.Seg{{Pat: im.B("old content")}}, Ops: []im.Op{
			{K: "open", H: 0, Via: "io.output"}, {K: "write", H: 0, W: []im.WArg{ws("new", 1)}, Via: "io"}, {K: "close", H: 0, Via: "io.close0"}}}},
	}
}

func TestRegressions(t *testing.T) {
	for _, r := range regressions() {
		c := r.c
		chkHistory.Class("regression:" + r.id)
		chkHistory.Run(t, &c)
	}
}

// TestKnownFindings re-runs the example of every finding of this property: an open one is logged (still failing or
// not), a repaired one must pass like any other case.
func TestKnownFindings(t *testing.T) {
	col := vf.Col("known_findings")
	for _, f := range vf.Findings() {
		if f.Property != "C19" || f.Example == "" {
			continue
		}
		var c Case
		if err := json.Unmarshal([]byte(f.Example), &c); err != nil {
			t.Errorf("finding %s: example is not a case: %v", f.ID, err)
			continue
		}
		if f.Status != "open" {
			// a repaired finding suppresses nothing: its example is an ordinary case again
			chkHistory.Class("fixed_finding_example:" + f.ID)
			chkHistory.Run(t, &c)
			continue
		}
		col.Eval()
		if err := runHistory(col, &c); err != nil {
			t.Logf("KNOWN-FINDING: property=C19 %s still fails: %v", f.ID, err)
		} else {
			t.Logf("finding %s: example no longer fails", f.ID)
		}
	}
}
