package lgen

import (
	"strconv"

	L "verif/luaref"
)

// ---- C05: fault sites.  A program of this profile starts with a prelude that defines fault(i): it raises, in the
// way selected by the chunk's second argument, when i equals the chunk's first argument, and returns false otherwise.
// One generated program is run once per (site, kind) and once fault-free.

// FaultKinds names the ways fault(i) can fail (the chunk's second argument selects one by index, 1-based).
var FaultKinds = []string{"error_string", "error_string_level2", "error_string_level0", "error_table", "error_nil", "error_number",
	"host_raise", "host_panic", "host_runtime_panic", "arith_on_nil", "call_nil", "index_nil", "call_stack_overflow", "registry_overflow"}

// FaultPrelude is the Lua text that defines fault(i).
const FaultPrelude = `local ARMED, KIND = ...
local function fault(i)
  if i ~= ARMED then return false end
  if KIND == 1 then error("boom 100% %d %s %" .. i)
  elseif KIND == 2 then error("boom %5.2f%%" .. i, 2)
  elseif KIND == 3 then error("boom %v %!" .. i, 0)
  elseif KIND == 4 then error({site = i})
  elseif KIND == 5 then error(nil)
  elseif KIND == 6 then error(i + 0.5)
  elseif KIND == 7 then hostraise()
  elseif KIND == 8 then hostpanic()
  elseif KIND == 9 then hostnilpanic()
  elseif KIND == 10 then local z = nil; return z + i
  elseif KIND == 11 then local z = nil; return z(i)
  elseif KIND == 12 then local z = nil; return z.field
  elseif KIND == 13 then hoststackoverflow()
  else hostregoverflow()
  end
end
`

// site returns the next fault(i) call expression.
func (g *Gen) site() L.Expr {
	g.Sites++
	return call(name("fault"), num(float64(g.Sites)))
}

func (g *Gen) siteStmt() L.Stmt { return callStmt(g.site().(*L.CallExpr)) }

// inlineSite is a fault site whose fault is raised by a VM instruction of the enclosing function itself (not inside
// fault()): the failing frame is the one whose locals the surrounding template has captured.
func (g *Gen) inlineSite() L.Stmt {
	g.Sites++
	return ifs(bin("==", name("ARMED"), num(float64(g.Sites))), blk(local1("nz", &L.NilExpr{}), local1("bad", bin("+", name("nz"), num(1)))), nil)
}

// describe(e): what the caller may observe of a caught error value without looking inside unspecified text
func describeErr(e string) []L.Expr {
	return []L.Expr{call(name("type"), name(e)), bin("and", bin("==", call(name("type"), name(e)), str("table")), field(name(e), "site")), name(e)}
}

// faultyBody: a short sequence with side effects (emits, writes to upvalues ups) and fault sites.
func (g *Gen) faultyBody(ups []string, depth int) []L.Stmt {
	var ss []L.Stmt
	n := 2 + g.n(4, "fbn")
	for i := 0; i < n; i++ {
		switch g.n(17, "fbkind") {
		case 12:
			// the failing function is reached through a table field whose name is unusual text (the call site's name ends
			// up in tracebacks and messages)
			g.class("err:callee_under_unusual_key")
			key := []string{"", "(", "<", "%d%s", "a b", "\n", "?"}[g.n(7, "oddkey")]
			ss = append(ss, local1("ok", tbl(kv(str(key), fn([]string{"p"}, false, blk(g.siteStmt(), ret(name("p"))))))), emit(call(idx(name("ok"), str(key)), num(3))))
		case 0, 1:
			ss = append(ss, g.siteStmt())
		case 2:
			ss = append(ss, emit(str("effect"), num(float64(g.Sites*10+i))))
		case 3:
			if len(ups) > 0 {
				u := ups[g.n(len(ups), "whichup")]
				ss = append(ss, assign1(name(u), bin("+", name(u), num(1))))
			}
		case 4:
			// a site inside an expression
			ss = append(ss, emit(bin("or", g.site(), str("expr continues"))))
		case 5:
			ss = append(ss, local1("ft", tbl(pos(num(1)), pos(g.site()), kv(str("k"), g.site()))), emit(un("#", name("ft"))))
		case 6:
			if depth > 0 {
				// nested protected call: the inner one contains its faults
				g.class("err:nested_pcall")
				inner := fn(nil, false, blk(append(g.faultyBody(ups, depth-1), ret(str("inner ok")))...))
				if g.n(2, "innerx") == 0 {
					h := fn([]string{"m"}, false, blk(emit(append([]L.Expr{str("inner handler")}, describeErr("m")[:2]...)...), ret(str("inner handled"))))
					ss = append(ss, emit(call(name("xpcall"), inner, h)))
				} else {
					ss = append(ss, local([]string{"iok", "ie"}, call(name("pcall"), inner)), emit(append([]L.Expr{str("inner"), name("iok")}, describeErr("ie")...)...))
				}
			}
		case 7:
			// inside a metamethod handler
			g.class("err:in_metamethod")
			mt := tbl(kv(str("__add"), fn([]string{"a", "b"}, false, blk(g.siteStmt(), ret(num(5))))), kv(str("__index"), fn([]string{"t", "k"}, false, blk(g.siteStmt(), ret(name("k"))))))
			ss = append(ss, local1("mo", call(name("setmetatable"), tbl(), mt)), emit(bin("+", name("mo"), num(1)), field(name("mo"), "anything")))
		case 8:
			// inside a for-in iterator
			g.class("err:in_iterator")
			it := fn([]string{"s", "c"}, false, blk(g.siteStmt(), ifs(bin("<", name("c"), name("s")), blk(ret(bin("+", name("c"), num(1)))), nil)))
			ss = append(ss, &L.GenForStmt{Names: []string{"fi"}, Exprs: []L.Expr{it, num(2), num(0)}, Body: blk(emit(str("iter body"), name("fi")), g.siteStmt())})
		case 9:
			// inside a sort comparator (the comparator only fails or compares; the table is not looked at afterwards)
			g.class("err:in_sort_comparator")
			cmp := fn([]string{"x", "y"}, false, blk(g.siteStmt(), ret(bin("<", name("x"), name("y")))))
			ss = append(ss, callStmt(call(field(name("table"), "sort"), tbl(pos(num(3)), pos(num(1)), pos(num(2))), cmp)), emit(str("sorted")))
		case 10:
			// inside a function called through a host function (Go re-entry)
			g.class("err:through_host_call")
			ss = append(ss, emit(call(name("hostcall"), fn([]string{"p"}, false, blk(g.siteStmt(), ret(name("p"), str("from callback")))), num(7))))
		case 16:
			// coroutine -> pcall -> wrapped coroutine that fails: afterwards the outer coroutine is the running one again
			g.class("err:wrapped_coroutine_fails_inside_a_coroutine")
			gen := fn(nil, false, blk(g.siteStmt(), ret(str("gen ok"))))
			outer := fn(nil, false, blk(local1("gen", call(field(name("coroutine"), "wrap"), gen)), emit(str("inner"), call(name("select"), num(1), call(name("pcall"), name("gen")))),
				emit(str("outer still the running one"), bin("==", call(field(name("coroutine"), "running")), name("oc")), call(field(name("coroutine"), "status"), name("oc"))), g.siteStmt(), ret(str("outer done"))))
			ss = append(ss, local([]string{"oc"}), assign1(name("oc"), call(field(name("coroutine"), "create"), outer)),
				emit(str("outer"), call(name("select"), num(1), call(field(name("coroutine"), "resume"), name("oc")))), emit(call(field(name("coroutine"), "status"), name("oc")), call(field(name("coroutine"), "running"))))
		case 15:
			// host functions directly under host functions: a library function that fails by itself under pcall, and callbacks
			// of sort that is itself called through pcall(table.sort, ...) - two host frames between the fault
			// and the Lua code; every position prefix still names a line of the chunk
			g.class("err:two_host_frames_between_fault_and_lua_code")
			ss = append(ss, emit(str("rep under pcall"), call(name("pcall"), field(name("string"), "rep"))),
				emit(str("sort under pcall"), call(name("select"), num(1), call(name("pcall"), field(name("table"), "sort"), tbl(pos(num(3)), pos(num(1)), pos(num(2))), fn([]string{"x", "y"}, false, blk(g.siteStmt(), ret(bin("<", name("x"), name("y")))))))))
		case 14:
			// the protecting or re-entering host function is reached through an expression that has no name (a table slot, a
			// call result, a parenthesised or logical expression)
			g.class("err:host_function_called_through_unnamed_expression")
			f := fn(nil, false, blk(g.siteStmt(), ret(str("unnamed ok"))))
			ss = append(ss, local1("hs", tbl(pos(name("pcall")), pos(name("hostpcall")), pos(name("hostcall")), pos(name("select")))))
			switch g.n(5, "unnamedcall") {
			case 0:
				ss = append(ss, emit(str("slot"), call(idx(name("hs"), num(1)), f)))
			case 1:
				ss = append(ss, emit(str("slot 2"), call(idx(name("hs"), num(2)), f)))
			case 2:
				ss = append(ss, emit(str("call result"), call(call(paren(fn(nil, false, blk(ret(name("pcall")))))), f)))
			case 3:
				ss = append(ss, emit(str("logical"), call(paren(bin("or", &L.FalseExpr{}, name("pcall"))), f)))
			default:
				ss = append(ss, emit(str("nested slots"), call(idx(name("hs"), num(1)), idx(name("hs"), num(3)), f)))
			}
		case 11:
			// inside a coroutine driven by the host through the Go API (NewThread + Resume until it is dead)
			g.class("err:in_host_resumed_coroutine")
			hb := fn([]string{"p"}, false, blk(emit(str("host co start"), name("p")), g.siteStmt(), callStmt(call(field(name("coroutine"), "yield"), num(1))), g.siteStmt(), ret(str("host co end"), name("p"))))
			ss = append(ss, emit(str("hostresume"), call(name("hostresume"), hb, num(5))))
		default:
			// inside a coroutine body: the fault kills the coroutine and reaches the resumer as (false, value)
			g.class("err:in_coroutine")
			// a closure over a local of the coroutine body escapes and is used after the coroutine has died or ended
			body := fn(nil, false, blk(emit(str("co start")), local1("cv", num(7)), assign1(field(name("cesc"), "get"), fn(nil, false, blk(ret(name("cv"))))), g.siteStmt(), g.inlineSite(), assign1(name("cv"), num(8)),
				callStmt(call(field(name("coroutine"), "yield"), num(1))), g.inlineSite(), g.siteStmt(), ret(str("co end"))))
			ss = append(ss, local1("cesc", tbl()), local1("fco", call(field(name("coroutine"), "create"), body)),
				local([]string{"r1", "v1"}, call(field(name("coroutine"), "resume"), name("fco"))), emit(str("resume1"), name("r1"), call(name("type"), name("v1")), call(field(name("coroutine"), "status"), name("fco"))),
				local([]string{"r2", "v2"}, call(field(name("coroutine"), "resume"), name("fco"))), emit(str("resume2"), name("r2"), call(name("type"), name("v2")), call(field(name("coroutine"), "status"), name("fco"))),
				emit(str("escaped from the coroutine"), call(field(name("cesc"), "get"))))
		}
	}
	return ss
}

// tplProtected: prologue; protected call of a faulty body (pcall, xpcall, hostpcall); epilogue that dumps the caller's
// locals and upvalues, probes the value stack through select('#'), makes further calls and more protected calls.
func (g *Gen) tplProtected() []L.Stmt {
	id := strconv.Itoa(g.ctr)
	g.ctr++
	la, lb, up := "la"+id, "lb"+id, "up"+id
	out := []L.Stmt{local([]string{la, lb, up}, num(11), str("keep"), num(0))}
	// a closure over up created before the protected call: shares the variable with the failing body
	out = append(out, local1("getup"+id, fn(nil, false, blk(ret(name(up))))))
	// closures over a local of the failing body escape through this table and are used after the call has failed
	esc := "esc" + id
	out = append(out, local1(esc, tbl()))
	bodyStmts := []L.Stmt{emit(str("body start"), name("p1"), name("p2"), call(name("select"), str("#"), &L.VarargExpr{})),
		local1("ev", num(42)),
		assign1(field(name(esc), "get"), fn(nil, false, blk(ret(name("ev"))))),
		assign1(field(name(esc), "set"), fn([]string{"x"}, false, blk(assign1(name("ev"), name("x")))))}
	fb := g.faultyBody([]string{up, "ev"}, 2)
	bodyStmts = append(bodyStmts, fb...)
	alwaysFails := g.n(5, "bodyalwaysfails") == 0
	if alwaysFails {
		// the body fails by itself at its end: the handler of xpcall runs in every run, also the fault-free one
		g.class("err:body_always_fails")
		bodyStmts = append(bodyStmts, ifs(bin("==", name("ev"), name("ev")), blk(callStmt(call(name("error"), tbl(kv(str("site"), num(-1)))))), nil))
	}
	body := fn([]string{"p1", "p2"}, true, blk(append(bodyStmts, ret(str("body ok"), name("p1"), &L.VarargExpr{}))...))
	args := []L.Expr{num(1), str("two"), &L.NilExpr{}, num(4)}[:g.n(5, "npargs")]
	form := g.n(4, "protform")
	g.class("err:protform" + strconv.Itoa(form))
	res := "res" + id
	// the interpreter state (call depth, value-stack height, open upvalues) is sampled by the host before and after the
	// protected call, at points with the same active locals
	out = append(out, local1(res, &L.NilExpr{}), callStmt(call(name("snap"), str("P"+id))))
	switch form {
	case 0:
		out = append(out, assign1(name(res), tbl(pos(call(name("pcall"), append([]L.Expr{body}, args...)...)))))
	case 1:
		// xpcall: the handler runs once, before unwinding (it can still see the failing function's frame depth through a
		// counter kept by the body), and its result is what the caller receives
		hs := []L.Stmt{emit(append([]L.Expr{str("handler")}, describeErr("m")[:2]...)...), assign1(name(up), bin("+", name(up), num(1000)))}
		hkind := g.n(4, "handlerkind")
		switch hkind {
		case 1:
			// the handler fails too: what the caller receives after false is not fixed, everything else is
			g.class("err:handler_fails")
			switch g.n(3, "handlerfailure") {
			case 0:
				hs = append(hs, callStmt(call(name("error"), str("handler failed"))))
			case 1:
				hs = append(hs, local1("hz", bin("+", &L.NilExpr{}, num(1))))
			default:
				hs = append(hs, callStmt(call(name("hostpanic"))))
			}
		case 2:
			// the handler has a fault site of its own (reached when the body fails by itself)
			g.class("err:site_in_handler")
			hs = append(hs, g.siteStmt())
		}
		h := fn([]string{"m"}, false, blk(append(hs, ret(str("handled"), str("second handler result is dropped")))...))
		wrapped := fn(nil, false, blk(ret(call(paren(body), args...))))
		out = append(out, assign1(name(res), tbl(pos(call(name("xpcall"), wrapped, h)))))
		if hkind == 1 || hkind == 2 {
			out = append(out, ifs(un("not", idx(name(res), num(1))), blk(assign1(idx(name(res), num(2)), str("(not fixed when the handler fails)"))), nil))
		}
	case 2:
		// protected call made from the Go side (L.PCall inside a host function)
		out = append(out, assign1(name(res), tbl(pos(call(name("hostpcall"), append([]L.Expr{body}, args...)...)))))
	default:
		// protected call inside a function that is itself a few frames deep
		deep := fn(nil, false, blk(local1("d1", num(1)), ret(call(name("pcall"), append([]L.Expr{body}, args...)...))))
		out = append(out, assign1(name(res), tbl(pos(call(paren(fn(nil, false, blk(local1("d0", num(0)), ret(call(paren(deep)))))))))))
	}
	out = append(out, callStmt(call(name("snap"), str("P"+id))))
	r := name(res)
	out = append(out,
		emit(str("outcome"), idx(r, num(1)), call(name("type"), idx(r, num(2))), bin("and", bin("==", call(name("type"), idx(r, num(2))), str("table")), field(idx(r, num(2)), "site")), idx(r, num(2)), idx(r, num(3)), call(name("select"), str("#"), call(name("unpack"), r, num(1), num(6)))),
		emit(str("caller state"), name(la), name(lb), name(up), call(name("getup"+id))),
		// the closures that escaped from the (failed) body own their variable: frames laid over the old registers neither
		// see it nor are changed through it
		&L.LocalFuncStmt{Name: "probe" + id, Fn: fn([]string{"a", "b", "c", "d", "e", "f", "g", "h"}, false, blk(ret(call(field(name(esc), "get")))))},
		emit(str("escaped"), call(name("probe"+id), num(1), num(2), num(3), num(4), num(5), num(6), num(7), num(8))),
		&L.LocalFuncStmt{Name: "poke" + id, Fn: fn([]string{"a", "b", "c", "d", "e", "f", "g", "h"}, false, blk(callStmt(call(field(name(esc), "set"), num(1000))),
			ret(bin("+", bin("+", bin("+", name("a"), name("b")), bin("+", name("c"), name("d"))), bin("+", bin("+", name("e"), name("f")), bin("+", name("g"), name("h")))))))},
		emit(str("poked"), call(name("poke"+id), num(1), num(2), num(3), num(4), num(5), num(6), num(7), num(8)), call(field(name(esc), "get"))),
		// later behaviour: ordinary calls, a further protected call that fails on its own, and one that succeeds
		emit(call(name("hostf"), num(2), name(la), name(lb), name(up))),
		emit(call(name("pcall"), name("error"), tbl(kv(str("later"), &L.TrueExpr{})))),
		emit(call(name("pcall"), fn([]string{"a"}, false, blk(ret(name("a"), name(la)))), str("fine"))),
	)
	return []L.Stmt{&L.DoStmt{Body: blk(out...)}}
}

// Errors is the profile of C05(a).
func Errors() *Profile {
	return &Profile{Name: "errors", MaxStmts: 5, MaxDepth: 2, Wild: 0, WildOpen: 0, Stress: 0, TemplatePc: 70, NoGoto: true,
		Templates: []func(g *Gen) []L.Stmt{(*Gen).tplProtected}}
}

// ---- C05(b) / C11: programs whose protected body is pure (it only computes on its own locals and emits), so that the
// effect of a fault injected at any instruction boundary is predictable from the fault-free run.

// ErrorsProgram generates a program of the errors profile with the fault prelude; it returns the source pieces and the
// number of fault sites.
func ErrorsProgram(g *Gen) *L.Block {
	return g.Program()
}

// pureStmts generates statements that touch nothing outside themselves: no variable of the enclosing program is
// visible, no global is written, no protected call, no coroutine.
func (g *Gen) pureStmts(n, d int) []L.Stmt {
	savedVars, savedGlobals, savedFn, savedP := g.vars, g.globals, g.fn, g.P
	pure := *g.P
	pure.Templates, pure.TemplatePc, pure.Stress, pure.Wild, pure.WildOpen, pure.NoGoto = nil, 0, 0, 0, 0, false
	g.P = &pure
	g.vars, g.globals = nil, nil
	g.fn = &fnCtx{depth: 1}
	g.pure++
	ss := g.stmts(n, d)
	g.pure--
	g.vars, g.globals, g.fn, g.P = savedVars, savedGlobals, savedFn, savedP
	return ss
}

// BoundaryProgram: prologue; snap; local ok, e = pcall(body); snap; epilogue.  Markers delimit the three parts of the trace.
func (g *Gen) BoundaryProgram() *L.Block {
	g.budget = 400
	var out []L.Stmt
	out = append(out, emit(str("@PROLOGUE")))
	out = append(out, local([]string{"keep1", "keep2", "up"}, num(11), str("keep"), num(5)))
	out = append(out, local1("getup", fn(nil, false, blk(ret(name("up"))))))
	out = append(out, &L.DoStmt{Body: blk(g.pureStmts(1+g.n(3, "npro"), 2)...)})
	body := []L.Stmt{emit(str("@BODY"))}
	body = append(body, g.pureStmts(2+g.n(6, "nbody"), 3)...)
	body = append(body, emit(str("@BODYEND")), ret(str("ok"), num(2)))
	bf := fn(nil, false, blk(body...))
	out = append(out, &L.LocalFuncStmt{Name: "body", Fn: bf})
	out = append(out, local([]string{"ok", "e"}))
	out = append(out, callStmt(call(name("snap"), str("B"))))
	switch g.n(3, "bform") {
	case 0:
		out = append(out, &L.AssignStmt{Targets: []L.Expr{name("ok"), name("e")}, Exprs: []L.Expr{call(name("pcall"), name("body"))}})
	case 1:
		g.class("boundary:xpcall")
		out = append(out, &L.AssignStmt{Targets: []L.Expr{name("ok"), name("e")}, Exprs: []L.Expr{call(name("xpcall"), name("body"), fn([]string{"m"}, false, blk(ret(name("m")))))}})
	default:
		g.class("boundary:hostpcall")
		out = append(out, &L.AssignStmt{Targets: []L.Expr{name("ok"), name("e")}, Exprs: []L.Expr{call(name("hostpcall"), name("body"))}})
	}
	out = append(out, callStmt(call(name("snap"), str("B"))))
	out = append(out, emit(str("@EPILOGUE"), name("ok"), call(name("type"), name("e")),
		bin("or", bin("==", name("e"), str("ok")), bin("and", bin("==", call(name("type"), name("e")), str("string")), bin("~=", call(field(name("string"), "find"), name("e"), str("context canceled"), num(1), &L.TrueExpr{}), &L.NilExpr{}))),
		name("keep1"), name("keep2"), name("up"), call(name("getup"))))
	out = append(out, &L.DoStmt{Body: blk(g.pureStmts(1+g.n(3, "nepi"), 2)...)})
	out = append(out, emit(str("@END"), name("keep1"), call(name("hostf"), num(1), name("keep2"))))
	return blk(out...)
}
