local file = os.tmpname()
local otherfile = os.tmpname()

-- assert(os.setlocale('C', 'all'))

io.input(io.stdin); io.output(io.stdout);

os.remove(file)
assert(loadfile(file) == nil)
assert(io.open(file) == nil)
io.output(file)
assert(io.output() ~= io.stdout)

assert(io.output():seek() == 0)
assert(io.write("alo alo"))
assert(io.output():seek() == string.len("alo alo"))
assert(io.output():seek("cur", -3) == string.len("alo alo")-3)
assert(io.write("joao"))
assert(io.output():seek("end") == string.len("alo joao"))

assert(io.output():seek("set") == 0)

assert(io.write('"álo"', "{a}\n", "second line\n", "third line \n"))
assert(io.write('çfourth_line'))
io.output():close()
io.output(io.stdout)
-- collectgarbage()  -- file should be closed by GC
assert(io.input() == io.stdin and rawequal(io.output(), io.stdout))
print('+')

-- test GC for files
-- collectgarbage()
-- for i=1,120 do
--   for i=1,5 do
--     io.input(file)
--     assert(io.open(file, 'r'))
--     io.lines(file)
--   end
--   collectgarbage()
-- end

assert(os.rename(file, otherfile))
assert(os.rename(file, otherfile) == nil)

io.output(io.open(otherfile, "a"))
assert(io.write("\n\n\t\t  3450\n"));
io.close()

-- test line generators
assert(os.rename(otherfile, file))
io.output(otherfile)
local f = io.lines(file)
while f() do end;
assert(not pcall(f))  -- read lines after EOF
assert(not pcall(f))  -- read lines after EOF
-- copy from file to otherfile
for l in io.lines(file) do io.write(l, "\n") end
io.close()
-- copy from otherfile back to file
local f = assert(io.open(otherfile))
assert(io.type(f) == "file")
io.output(file)
assert(io.output():read() == nil)
for l in f:lines() do io.write(l, "\n") end
assert(f:close()); io.close()
assert(not pcall(io.close, f))   -- error trying to close again
assert(tostring(f) == "file (closed)")
assert(io.type(f) == "closed file")
io.input(file)
local of =io.open(otherfile)
f = of:lines()
for l in io.lines() do 
  assert(l == f()) 
end
of:close()
assert(os.remove(otherfile))
assert(io.close(io.input()))

io.input(file)
do  -- test error returns
  local a,b,c = io.input():write("xuxu")
  assert(not a and type(b) == "string" and type(c) == "number")
end
assert(io.read(0) == "")   -- not eof
assert(io.read(5, '*l') == '"álo"')
assert(io.read(0) == "")
assert(io.read() == "second line")
local x = io.input():seek()
assert(io.read() == "third line ")
assert(io.input():seek("set", x))
assert(io.read('*l') == "third line ")
assert(io.read(1) == "ç")
assert(io.read(string.len"fourth_line") == "fourth_line")
assert(io.input():seek("cur", -string.len"fourth_line"))
assert(io.read() == "fourth_line")
assert(io.read() == "")  -- empty line
assert(io.read('*n') == 3450)
assert(io.read(1) == '\n')
assert(io.read(0) == nil)  -- end of file
assert(io.read(1) == nil)  -- end of file
assert(({io.read(1)})[2] == nil)
assert(io.read() == nil)  -- end of file
assert(({io.read()})[2] == nil)
assert(io.read('*n') == nil)  -- end of file
assert(({io.read('*n')})[2] == nil)
assert(io.read('*a') == '')  -- end of file (OK for `*a')
assert(io.read('*a') == '')  -- end of file (OK for `*a')
collectgarbage()
print('+')
io.close(io.input())
assert(not pcall(io.read))

assert(os.remove(file))

local t = '0123456789'
for i=1,12 do t = t..t; end
assert(string.len(t) == 10*2^12)

io.output(file)
io.write("alo\n")
io.close()
assert(not pcall(io.write))
local f = io.open(file, "a")
io.output(f)
collectgarbage()

assert(io.write(' ' .. t .. ' '))
assert(io.write(';', 'end of file\n'))
f:flush(); io.flush()
f:close()
print('+')

io.input(file)
assert(io.read() == "alo")
assert(io.read(1) == ' ')
assert(io.read(string.len(t)) == t)
assert(io.read(1) == ' ')
assert(io.read(0))
assert(io.read('*a') == ';end of file\n')
assert(io.read(0) == nil)
assert(io.close(io.input()))

assert(os.remove(file))
print('+')

local x1 = "string\n\n\\com \"\"''coisas [[estranhas]] ]]'"
io.output(file)
assert(io.write(string.format("x2 = %q\n-- comment without ending EOS", x1)))
io.close()
assert(loadfile(file))()
assert(x1 == x2)
print('+')
assert(os.remove(file))
assert(os.remove(file) == nil)
assert(os.remove(otherfile) == nil)

io.output(file)
assert(io.write("qualquer coisa\n"))
assert(io.write("mais qualquer coisa"))
io.close()
io.output(assert(io.open(otherfile, 'wb')))
assert(io.write("outra coisa\0\1\3\0\0\0\0\255\0"))
io.close()

local filehandle = assert(io.open(file, 'r'))
local otherfilehandle = assert(io.open(otherfile, 'rb'))
assert(filehandle ~= otherfilehandle)
assert(type(filehandle) == "userdata")
assert(filehandle:read('*l') == "qualquer coisa")
io.input(otherfilehandle)
assert(io.read(string.len"outra coisa") == "outra coisa")
assert(filehandle:read('*l') == "mais qualquer coisa")
filehandle:close();
assert(type(filehandle) == "userdata")
io.input(otherfilehandle)
assert(io.read(4) == "\0\1\3\0")
assert(io.read(3) == "\0\0\0")
assert(io.read(0) == "")        -- 255 is not eof
assert(io.read(1) == "\255")
assert(io.read('*a') == "\0")
assert(not io.read(0))
assert(otherfilehandle == io.input())
otherfilehandle:close()
assert(os.remove(file))
assert(os.remove(otherfile))
collectgarbage()

io.output(file)
io.write[[
 123.4	-56e-2  not a number
second line
third line

and the rest of the file
]]
io.close()
io.input(file)
local _,a,b,c,d,e,h,__ = io.read(1, '*n', '*n', '*l', '*l', '*l', '*a', 10)
assert(io.close(io.input()))
assert(_ == ' ' and __ == nil)
assert(type(a) == 'number' and a==123.4 and b==-56e-2)
assert(d=='second line' and e=='third line')
assert(h==[[

and the rest of the file
]])
assert(os.remove(file))
collectgarbage()

-- testing buffers
do
  local f = assert(io.open(file, "w"))
  local fr = assert(io.open(file, "r"))
  assert(f:setvbuf("full", 2000))
  f:write("x")
  assert(fr:read("*all") == "")  -- full buffer; output not written yet
  f:close()
  fr:seek("set")
  assert(fr:read("*all") == "x")   -- `close' flushes it
  f = assert(io.open(file, "w"))
  assert(f:setvbuf("no"))
  f:write("x")
  fr:seek("set")
  assert(fr:read("*all") == "x")  -- no buffer; output is ready
  f:close()
  fr:close()
  -- f = assert(io.open(file, "a"))
  -- assert(f:setvbuf("line"))
  -- f:write("x")
  -- fr:seek("set", 1)
  -- assert(fr:read("*all") == "")   -- line buffer; no output without `\n'
  -- f:write("a\n")
  -- fr:seek("set", 1)
  -- assert(fr:read("*all") == "xa\n")  -- now we have a whole line
  -- f:close(); fr:close()
end


-- testing large files (> BUFSIZ)
io.output(file)
for i=1,5001 do io.write('0123456789123') end
io.write('\n12346')
io.close()
io.input(file)
local x = io.read('*a')
io.input():seek('set', 0)
local y = io.read(30001)..io.read(1005)..io.read(0)..io.read(1)..io.read(100003)
assert(x == y and string.len(x) == 5001*13 + 6)
io.input():seek('set', 0)
y = io.read()  -- huge line
assert(x == y..'\n'..io.read())
assert(io.read() == nil)
io.close(io.input())
assert(os.remove(file))
x = nil; y = nil

x, y = pcall(io.popen, "ls")
if x then
  assert(y:read("*a"))
  assert(y:close())
else
  (Message or print)('\a\n >>> popen not available<<<\n\a')
end

print'+'

local t = os.time()
-- T = os.date("*t", t)
-- loadstring(os.date([[assert(T.year==%Y and T.month==%m and T.day==%d and
--   T.hour==%H and T.min==%M and T.sec==%S and
--   T.wday==%w+1 and T.yday==%j and type(T.isdst) == 'boolean')]], t))()
-- 
-- assert(os.time(T) == t)
-- 
T = os.date("!*t", t)
-- loadstring(os.date([[!assert(T.year==%Y and T.month==%m and T.day==%d and
--   T.hour==%H and T.min==%M and T.sec==%S and
--   T.wday==%w+1 and T.yday==%j and type(T.isdst) == 'boolean')]], t))()

do
  local T = os.date("*t")
  local t = os.time(T)
  assert(type(T.isdst) == 'boolean')
  T.isdst = nil
  local t1 = os.time(T)
  assert(t == t1)   -- if isdst is absent uses correct default
end   

t = os.time(T)
T.year = T.year-1;
local t1 = os.time(T)
-- allow for leap years
assert(math.abs(os.difftime(t,t1)/(24*3600) - 365) < 2)

t = os.time()
t1 = os.time(os.date("*t"))
assert(os.difftime(t1,t) <= 2)

local t1 = os.time{year=2000, month=10, day=1, hour=23, min=12, sec=17}
local t2 = os.time{year=2000, month=10, day=1, hour=23, min=10, sec=19}
assert(os.difftime(t1,t2) == 60*2-2)

io.output(io.stdout)
local d = os.date('%d')
local m = os.date('%m')
local a = os.date('%Y')
local ds = os.date('%w') + 1
local h = os.date('%H')
local min = os.date('%M')
local s = os.date('%S')
io.write(string.format('test done on %2.2d/%2.2d/%d', d, m, a))
io.write(string.format(', at %2.2d:%2.2d:%2.2d\n', h, min, s))
io.write(string.format('%s\n', _VERSION))
