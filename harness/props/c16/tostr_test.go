package c16

import (
	"fmt"
	"math"
	"regexp"
	"testing"

	lua "github.com/yuin/gopher-lua"
	"pgregory.net/rapid"

	"verif/vf"
)

// TsCase: a finite float64 given by its bits.
type TsCase struct {
	Bits uint64 `json:"bits"`
	Text string `json:"text"` // %.17g, for the reader
}

var reInteger = regexp.MustCompile(`^-?[0-9]+$`)

var chkToStr = vf.Register("tostring", func(k *vf.C, c *TsCase) error {
	x := math.Float64frombits(c.Bits)
	if math.IsNaN(x) || math.IsInf(x, 0) {
		return fmt.Errorf("harness: non-finite value in tostring case")
	}
	ip := in()
	X := lua.LNumber(x)
	res, err := ip.call("tostring", 1, X)
	if err != nil {
		return fmt.Errorf("tostring(%s) raised: %v", fnum(x), err)
	}
	s, ok := res[0].(lua.LString)
	if !ok {
		return fmt.Errorf("tostring(%s) is %s, not a string", fnum(x), show(res[0]))
	}
	integral := x == math.Trunc(x) && math.Abs(x) < 1<<53
	if integral && !reInteger.MatchString(string(s)) {
		return fmt.Errorf("tostring(%s) = %q: an integral value below 2^53 must print as -?digits", fnum(x), string(s))
	}
	// tonumber(tostring(x)) == x
	res, err = ip.call("tonumber", 1, s)
	if err != nil {
		return fmt.Errorf("tonumber(%q) raised: %v", string(s), err)
	}
	if g, ok := num(res[0]); !ok || !sameNum(g, x) {
		return fmt.Errorf("tonumber(tostring(x)) = %s for x = %s (tostring gave %q)", show(res[0]), fnum(x), string(s))
	}
	// the same text through number->string coercion (x .. "") and string->number coercion (s + 0)
	res, err = ip.call("concat", 1, X)
	if err != nil {
		return fmt.Errorf("x .. \"\" raised for x = %s: %v", fnum(x), err)
	}
	cs, ok := res[0].(lua.LString)
	if !ok {
		return fmt.Errorf("x .. \"\" is %s for x = %s", show(res[0]), fnum(x))
	}
	if integral && !reInteger.MatchString(string(cs)) {
		return fmt.Errorf("x .. \"\" = %q for x = %s: an integral value below 2^53 must print as -?digits", string(cs), fnum(x))
	}
	res, err = ip.call("tonumber", 1, cs)
	if err != nil {
		return fmt.Errorf("tonumber(%q) raised: %v", string(cs), err)
	}
	if g, ok := num(res[0]); !ok || !sameNum(g, x) {
		return fmt.Errorf("tonumber(x .. \"\") = %s for x = %s (text %q)", show(res[0]), fnum(x), string(cs))
	}
	res, err = ip.call("add0", 1, s)
	if err != nil {
		return fmt.Errorf("tostring(x) + 0 raised for x = %s (text %q): %v", fnum(x), string(s), err)
	}
	if g, ok := num(res[0]); !ok || !sameNum(g, x) {
		return fmt.Errorf("tostring(x) + 0 = %s for x = %s (text %q)", show(res[0]), fnum(x), string(s))
	}
	// and as source text
	src := "return " + string(s)
	fn, lerr, err := ip.loadChunk(src)
	if err != nil {
		return err
	}
	if lerr != nil {
		return fmt.Errorf("chunk %q (tostring of %s) does not load: %v", src, fnum(x), lerr)
	}
	r, err := ip.callFn(fn, 1)
	if err != nil {
		return fmt.Errorf("chunk %q fails: %v", src, err)
	}
	if g, ok := num(r[0]); !ok || !sameNum(g, x) {
		return fmt.Errorf("chunk %q yields %s, want x = %s", src, show(r[0]), fnum(x))
	}

	// bookkeeping
	ax := math.Abs(x)
	switch {
	case x == 0:
		k.Class("zero")
		if math.Signbit(x) {
			k.Class("negative_zero")
		}
	case integral:
		k.Class("integral<2^53")
	case x == math.Trunc(x) && ax < 1<<63:
		k.Class("integral_2^53..2^63")
	case x == math.Trunc(x):
		k.Class("integral>=2^63")
	case ax < 2.2250738585072014e-308:
		k.Class("subnormal")
	case ax < 1e-5:
		k.Class("tiny_fraction")
	default:
		k.Class("fraction")
	}
	if x < 0 {
		k.Class("negative")
	}
	if len(s) >= 17 {
		k.Class("text>=17_chars")
	}
	for _, ch := range string(s) {
		if ch == 'e' || ch == 'E' {
			k.Class("text_has_exponent")
			break
		}
	}
	nontrivial(k, vf.Hash("ts", fmt.Sprint(c.Bits)))
	k.Sample("tostring", 3, map[string]any{"x": fnum(x), "tostring": string(s)})
	return nil
})

var tsCorners = []float64{0, math.Copysign(0, -1), 1, -1, 2, 10, 100, 0.1, 0.5, -0.5, 1.5, 0.3, 0.30000000000000004, 1e15, 1e16, 1e17, 1e20, 1e21, 1e22,
	1e23, 1e100, 1e-5, 1e-7, 123456789012345678, 9007199254740991, -9007199254740991, 9007199254740992, -9007199254740992, 9007199254740994,
	4503599627370496, 4503599627370495.5, 2251799813685247.8, 9223372036854775808, -9223372036854775808, 9223372036854774784,
	-9223372036854774784, 18446744073709551616, 4294967295, 4294967296, -2147483648, 2147483647, 4.9e-324, -4.9e-324, 2.2250738585072014e-308,
	2.225073858507201e-308, 1.7976931348623157e308, -1.7976931348623157e308, 3.141592653589793, 1.0000000000000002, 0.9999999999999999,
	1e308, 1e-308, 5e-324, 1234567.5, 0.1 + 0.2, 100000000000000, 1e14 + 0.5, 999999999999999.9, 0.000001, 0.0000001, 123456.789e3}

func genTsBits(t *rapid.T) uint64 {
	var x float64
	switch rapid.IntRange(0, 7).Draw(t, "tsclass") {
	case 0:
		x = tsCorners[rapid.IntRange(0, len(tsCorners)-1).Draw(t, "corner")]
	case 1: // random finite bit pattern, biased towards small magnitudes and mantissas (rapid's integer bias)
		b := rapid.Uint64Range(0, 0x7FEFFFFFFFFFFFFF).Draw(t, "bits")
		if rapid.Bool().Draw(t, "neg") {
			b |= 1 << 63
		}
		return b
	case 2: // exponent uniform over all finite binades, mantissa from 52 random bits
		e := uint64(rapid.IntRange(0, 2046).Draw(t, "exp"))
		m := rapid.Uint64().Draw(t, "mant") & (1<<52 - 1)
		b := e<<52 | m
		if rapid.Bool().Draw(t, "neg") {
			b |= 1 << 63
		}
		return b
	case 3: // integers below 2^53
		x = float64(rapid.Int64Range(-(1 << 53), 1<<53).Draw(t, "int"))
	case 4: // around powers of two and ten
		if rapid.Bool().Draw(t, "two") {
			x = math.Ldexp(1, rapid.IntRange(-60, 70).Draw(t, "e2"))
		} else {
			x = math.Pow(10, float64(rapid.IntRange(-30, 30).Draw(t, "e10")))
		}
		b := math.Float64bits(x)
		b = uint64(int64(b) + int64(rapid.IntRange(-2, 2).Draw(t, "ulp")))
		x = math.Float64frombits(b)
	case 5: // decimal fractions
		x = float64(rapid.Int64Range(-100000000, 100000000).Draw(t, "n")) / math.Pow(10, float64(rapid.IntRange(1, 9).Draw(t, "d")))
	case 6: // integers between 2^53 and 2^64
		x = float64(rapid.Uint64Range(1<<53, math.MaxUint64).Draw(t, "big"))
		if rapid.Bool().Draw(t, "neg") {
			x = -x
		}
	case 7: // integer plus a half, a quarter: largest magnitudes that still have a fraction
		x = float64(rapid.Int64Range(-(1<<51), 1<<51).Draw(t, "i")) + []float64{0.5, 0.25, 0.75, 0.125}[rapid.IntRange(0, 3).Draw(t, "f")]
	}
	if math.IsNaN(x) || math.IsInf(x, 0) {
		x = 1
	}
	return math.Float64bits(x)
}

func TestToStringRoundTrip(t *testing.T) {
	vf.Rapid(t, func(rt *rapid.T) {
		b := genTsBits(rt)
		chkToStr.Run(rt, &TsCase{Bits: b, Text: fmt.Sprintf("%.17g", math.Float64frombits(b))})
	})
}
