print("testing errors")

function doit (s)
  local f, msg = loadstring(s)
  if f == nil then return msg end
  local cond, msg = pcall(f)
  return (not cond) and msg
end


function checkmessage (prog, msg)
  assert(string.find(doit(prog), msg, 1, true))
end

function checksyntax (prog, extra, token, line)
  local msg = doit(prog)
  token = string.gsub(token, "(%p)", "%%%1")
  local pt = string.format([[^%%[string ".*"%%]:%d: .- near '%s'$]],
                           line, token)
  assert(string.find(msg, pt))
  assert(string.find(msg, msg, 1, true))
end


-- test error message with no extra info
assert(doit("error('hi', 0)") == 'hi')

-- test error message with no info
assert(doit("error()") == nil)


-- test common errors/errors that crashed in the past
assert(doit("unpack({}, 1, n=2^30)"))
assert(doit("a=math.sin()"))
assert(not doit("tostring(1)") and doit("tostring()"))
assert(doit"tonumber()")
assert(doit"repeat until 1; a")
checksyntax("break label", "", "label", 1)
assert(doit";")
assert(doit"a=1;;")
assert(doit"return;;")
assert(doit"assert(false)")
assert(doit"assert(nil)")
assert(doit"a=math.sin\n(3)")
assert(doit("function a (... , ...) end"))
assert(doit("function a (, ...) end"))

checksyntax([[
  local a = {4

]], "'}' expected (to close '{' at line 1)", "<eof>", 3)


-- tests for better error messages

checkmessage("a=1; bbbb=2; a=math.sin(3)+bbbb(3)", "global 'bbbb'")
checkmessage("a=1; local a,bbbb=2,3; a = math.sin(1) and bbbb(3)",
       "local 'bbbb'")
checkmessage("a={}; do local a=1 end a:bbbb(3)", "method 'bbbb'")
checkmessage("local a={}; a.bbbb(3)", "field 'bbbb'")
assert(not string.find(doit"a={13}; local bbbb=1; a[bbbb](3)", "'bbbb'"))
checkmessage("a={13}; local bbbb=1; a[bbbb](3)", "number")

aaa = nil
checkmessage("aaa.bbb:ddd(9)", "global 'aaa'")
checkmessage("local aaa={bbb=1}; aaa.bbb:ddd(9)", "field 'bbb'")
checkmessage("local aaa={bbb={}}; aaa.bbb:ddd(9)", "method 'ddd'")
checkmessage("local a,b,c; (function () a = b+1 end)()", "upvalue 'b'")
assert(not doit"local aaa={bbb={ddd=next}}; aaa.bbb:ddd(nil)")

checkmessage("b=1; local aaa='a'; x=aaa+b", "local 'aaa'")
checkmessage("aaa={}; x=3/aaa", "global 'aaa'")
checkmessage("aaa='2'; b=nil;x=aaa*b", "global 'b'")
checkmessage("aaa={}; x=-aaa", "global 'aaa'")
assert(not string.find(doit"aaa={}; x=(aaa or aaa)+(aaa and aaa)", "'aaa'"))
assert(not string.find(doit"aaa={}; (aaa or aaa)()", "'aaa'"))

checkmessage([[aaa=9
repeat until 3==3
local x=math.sin(math.cos(3))
if math.sin(1) == x then return math.sin(1) end   -- tail call
local a,b = 1, {
  {x='a'..'b'..'c', y='b', z=x},
  {1,2,3,4,5} or 3+3<=3+3,
  3+1>3+1,
  {d = x and aaa[x or y]}}
]], "global 'aaa'")

checkmessage([[
local x,y = {},1
if math.sin(1) == 0 then return 3 end    -- return
x.a()]], "field 'a'")

checkmessage([[
prefix = nil
insert = nil
while 1 do  
  local a
  if nil then break end
  insert(prefix, a)
end]], "global 'insert'")

checkmessage([[  -- tail call
  return math.sin("a")
]], "'sin'")

checkmessage([[collectgarbage("nooption")]], "invalid option")

checkmessage([[x = print .. "a"]], "concatenate")

checkmessage("getmetatable(io.stdin).__gc()", "no value")

print'+'


-- testing line error

function lineerror (s)
  local err,msg = pcall(loadstring(s))
  local line = string.match(msg, ":(%d+):")
  return line and line+0
end

assert(lineerror"local a\n for i=1,'a' do \n print(i) \n end" == 2)
assert(lineerror"\n local a \n for k,v in 3 \n do \n print(k) \n end" == 3)
assert(lineerror"\n\n for k,v in \n 3 \n do \n print(k) \n end" == 4)
assert(lineerror"function a.x.y ()\na=a+1\nend" == 1)

local p = [[
function g() f() end
function f(x) error('a', X) end
g()
]]
X=3;assert(lineerror(p) == 3)
X=0;assert(lineerror(p) == nil)
X=1;assert(lineerror(p) == 2)
X=2;assert(lineerror(p) == 1)

lineerror = nil

C = 0
local l = debug.getinfo(1, "l").currentline; function y () C=C+1; y() end

local function checkstackmessage (m)
  return (string.find(m, "^.-:%d+: stack overflow"))
end
assert(checkstackmessage(doit('y()')))
assert(checkstackmessage(doit('y()')))
assert(checkstackmessage(doit('y()')))
-- teste de linhas em erro
C = 0
local l1
local function g()
  l1 = debug.getinfo(1, "l").currentline; y()
end
local _, stackmsg = xpcall(g, debug.traceback)
local stack = {}
for line in string.gmatch(stackmsg, "[^\n]*") do
  local curr = string.match(line, ":(%d+):")
  if curr then table.insert(stack, tonumber(curr)) end
end
local i=1
while stack[i] ~= l1 do
  assert(stack[i] == l)
  i = i+1
end
assert(i > 15)


-- error in error handling
local res, msg = xpcall(error, error)
assert(not res and type(msg) == 'string')

local function f (x)
  if x==0 then error('a\n')
  else
    local aux = function () return f(x-1) end
    local a,b = xpcall(aux, aux)
    return a,b
  end
end
f(3)

-- non string messages
function f() error{msg='x'} end
res, msg = xpcall(f, function (r) return {msg=r.msg..'y'} end)
assert(msg.msg == 'xy')

print('+')
checksyntax("syntax error", "", "error", 1)
checksyntax("1.000", "", "1.000", 1)
checksyntax("[[a]]", "", "[[a]]", 1)
checksyntax("'aa'", "", "'aa'", 1)

-- test 255 as first char in a chunk
checksyntax("\255a = 1", "", "\255", 1)

doit('I = loadstring("a=9+"); a=3')
assert(a==3 and I == nil)
print('+')

lim = 1000
if rawget(_G, "_soft") then lim = 100 end
for i=1,lim do
  doit('a = ')
  doit('a = 4+nil')
end


-- testing syntax limits
local function testrep (init, rep)
  local s = "local a; "..init .. string.rep(rep, 400)
  local a,b = loadstring(s)
  assert(not a and string.find(b, "syntax levels"))
end
testrep("a=", "{")
testrep("a=", "(")
testrep("", "a(")
testrep("", "do ")
testrep("", "while a do ")
testrep("", "if a then else ")
testrep("", "function foo () ")
testrep("a=", "a..")
testrep("a=", "a^")


-- testing other limits
-- upvalues
local  s = "function foo ()\n  local "
for j = 1,70 do
  s = s.."a"..j..", "
end
s = s.."b\n"
for j = 1,70 do
  s = s.."function foo"..j.." ()\n a"..j.."=3\n"
end
local a,b = loadstring(s)
assert(string.find(b, "line 3"))

-- local variables
s = "\nfunction foo ()\n  local "
for j = 1,300 do
  s = s.."a"..j..", " 
end
s = s.."b\n"
local a,b = loadstring(s)
assert(string.find(b, "line 2"))


print('OK')
