#!/bin/bash
# seedallb.sh <lanes> <NN:checks>... : round-2 candidates (/tmp/mutbNN-work) -> seeded/CNN-bmK
lanes=$1; shift
mkdir -p /verif/.build/seedlogb
stamp=$(date +%s)
i=0
for spec in "$@"; do
  p=${spec%%:*}; checks=${spec##*:}
  for m in m1 m2 m3; do
    d=/tmp/mutb$p-work/$m
    [ -f $d/patch.diff ] || continue
    echo "$d C$p-b$m C$p $checks" >> /verif/.build/seedlogb/lane$stamp-$((i % lanes)); i=$((i+1))
  done
done
for l in $(seq 0 $((lanes-1))); do
  [ -f /verif/.build/seedlogb/lane$stamp-$l ] || continue
  ( while read d id prop checks; do SEEDED_JOBS=5 python3 /verif/tools_seeded.py add $d $id $prop $checks >> /verif/.build/seedlogb/out.txt 2>&1; done < /verif/.build/seedlogb/lane$stamp-$l; echo LANE-DONE-$stamp >> /verif/.build/seedlogb/out.txt ) &
done
wait
