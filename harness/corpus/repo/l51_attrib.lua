do --[

print "testing require"

assert(require"string" == string)
assert(require"math" == math)
assert(require"table" == table)
assert(require"io" == io)
assert(require"os" == os)
assert(require"debug" == debug)
assert(require"coroutine" == coroutine)

assert(type(package.path) == "string")
assert(type(package.cpath) == "string")
assert(type(package.loaded) == "table")
assert(type(package.preload) == "table")


local DIR = "libs/"

local function createfiles (files, preextras, posextras)
  for n,c in pairs(files) do
    io.output(DIR..n)
    io.write(string.format(preextras, n))
    io.write(c)
    io.write(string.format(posextras, n))
    io.close(io.output())
  end
end

function removefiles (files)
  for n in pairs(files) do
    os.remove(DIR..n)
  end
end

local files = {
  ["A.lua"] = "",
  ["B.lua"] = "assert(...=='B');require 'A'",
  ["A.lc"] = "",
  ["A"] = "",
  ["L"] = "",
  ["XXxX"] = "",
  ["C.lua"] = "package.loaded[...] = 25; require'C'"
}

AA = nil
local extras = [[
NAME = '%s'
REQUIRED = ...
return AA]]

createfiles(files, "", extras)


local oldpath = package.path

package.path = string.gsub("D/?.lua;D/?.lc;D/?;D/??x?;D/L", "D/", DIR)

local try = function (p, n, r)
  NAME = nil
  local rr = require(p)
  assert(NAME == n)
  assert(REQUIRED == p)
  assert(rr == r)
end

assert(require"C" == 25)
assert(require"C" == 25)
AA = nil
try('B', 'B.lua', true)
assert(package.loaded.B)
assert(require"B" == true)
assert(package.loaded.A)
package.loaded.A = nil
try('B', nil, true)   -- should not reload package
try('A', 'A.lua', true)
package.loaded.A = nil
os.remove(DIR..'A.lua')
AA = {}
try('A', 'A.lc', AA)  -- now must find second option
assert(require("A") == AA)
AA = false
try('K', 'L', false)     -- default option
try('K', 'L', false)     -- default option (should reload it)
assert(rawget(_G, "_REQUIREDNAME") == nil)

AA = "x"
try("X", "XXxX", AA)


removefiles(files)


-- testing require of sub-packages

package.path = string.gsub("D/?.lua;D/?/init.lua", "D/", DIR)

files = {
  ["P1/init.lua"] = "AA = 10",
  ["P1/xuxu.lua"] = "AA = 20",
}

createfiles(files, "module(..., package.seeall)\n", "")
AA = 0

local m = assert(require"P1")
assert(m == P1 and m._NAME == "P1" and AA == 0 and m.AA == 10)
assert(require"P1" == P1 and P1 == m)
assert(require"P1" == P1)
assert(P1._PACKAGE == "")

local m = assert(require"P1.xuxu")
assert(m == P1.xuxu and m._NAME == "P1.xuxu" and AA == 0 and m.AA == 20)
assert(require"P1.xuxu" == P1.xuxu and P1.xuxu == m)
assert(require"P1.xuxu" == P1.xuxu)
assert(require"P1" == P1)
assert(P1.xuxu._PACKAGE == "P1.")
assert(P1.AA == 10 and P1._PACKAGE == "")
assert(P1._G == _G and P1.xuxu._G == _G)



removefiles(files)


package.path = ""
assert(not pcall(require, "file_does_not_exist"))
package.path = "??\0?"
assert(not pcall(require, "file_does_not_exist1"))

package.path = oldpath

-- check 'require' error message
-- local fname = "file_does_not_exist2"
-- local m, err = pcall(require, fname)
-- for t in string.gmatch(package.path..";"..package.cpath, "[^;]+") do
--   t = string.gsub(t, "?", fname)
--   print(t, err)
--   assert(string.find(err, t, 1, true))
-- end


local function import(...)
  local f = {...}
  return function (m)
    for i=1, #f do m[f[i]] = _G[f[i]] end
  end
end

local assert, module, package = assert, module, package
X = nil; x = 0; assert(_G.x == 0)   -- `x' must be a global variable
module"X"; x = 1; assert(_M.x == 1)
module"X.a.b.c"; x = 2; assert(_M.x == 2)
module("X.a.b", package.seeall); x = 3
assert(X._NAME == "X" and X.a.b.c._NAME == "X.a.b.c" and X.a.b._NAME == "X.a.b")
assert(X._M == X and X.a.b.c._M == X.a.b.c and X.a.b._M == X.a.b)
assert(X.x == 1 and X.a.b.c.x == 2 and X.a.b.x == 3)
assert(X._PACKAGE == "" and X.a.b.c._PACKAGE == "X.a.b." and
       X.a.b._PACKAGE == "X.a.")
assert(_PACKAGE.."c" == "X.a.c")
assert(X.a._NAME == nil and X.a._M == nil)
module("X.a", import("X")) ; x = 4
assert(X.a._NAME == "X.a" and X.a.x == 4 and X.a._M == X.a)
module("X.a.b", package.seeall); assert(x == 3); x = 5
assert(_NAME == "X.a.b" and X.a.b.x == 5)

assert(X._G == nil and X.a._G == nil and X.a.b._G == _G and X.a.b.c._G == nil)

setfenv(1, _G)
assert(x == 0)

assert(not pcall(module, "x"))
assert(not pcall(module, "math.sin"))


-- testing C libraries


local p = ""   -- On Mac OS X, redefine this to "_"

-- assert(loadlib == package.loadlib)   -- only for compatibility
-- local f, err, when = package.loadlib("libs/lib1.so", p.."luaopen_lib1")
local f = nil
if not f then
  (Message or print)('\a\n >>> cannot load dynamic library <<<\n\a')
  print(err, when)
else
  f()   -- open library
  assert(require("lib1") == lib1)
  collectgarbage()
  assert(lib1.id("x") == "x")
  f = assert(package.loadlib("libs/lib1.so", p.."anotherfunc"))
  assert(f(10, 20) == "1020\n")
  f, err, when = package.loadlib("libs/lib1.so", p.."xuxu")
  assert(not f and type(err) == "string" and when == "init")
  package.cpath = "libs/?.so"
  require"lib2"
  assert(lib2.id("x") == "x")
  local fs = require"lib1.sub"
  assert(fs == lib1.sub and next(lib1.sub) == nil)
  module("lib2", package.seeall)
  f = require"-lib2"
  assert(f.id("x") == "x" and _M == f and _NAME == "lib2")
  module("lib1.sub", package.seeall)
  assert(_M == fs)
  setfenv(1, _G)
 
end
-- f, err, when = package.loadlib("donotexist", p.."xuxu")
-- assert(not f and type(err) == "string" and (when == "open" or when == "absent"))


-- testing preload

do
  local p = package
  package = {}
  p.preload.pl = function (...)
    module(...)
    function xuxu (x) return x+20 end
  end

  require"pl"
  assert(require"pl" == pl)
  assert(pl.xuxu(10) == 30)

  package = p
  assert(type(package.path) == "string")
end



end  --]

print('+')

print("testing assignments, logical operators, and constructors")

local res, res2 = 27

a, b = 1, 2+3
assert(a==1 and b==5)
a={}
function f() return 10, 11, 12 end
a.x, b, a[1] = 1, 2, f()
assert(a.x==1 and b==2 and a[1]==10)
a[f()], b, a[f()+3] = f(), a, 'x'
assert(a[10] == 10 and b == a and a[13] == 'x')

do
  local f = function (n) local x = {}; for i=1,n do x[i]=i end;
                         return unpack(x) end;
  local a,b,c
  a,b = 0, f(1)
  assert(a == 0 and b == 1)
  A,b = 0, f(1)
  assert(A == 0 and b == 1)
  a,b,c = 0,5,f(4)
  assert(a==0 and b==5 and c==1)
  a,b,c = 0,5,f(0)
  assert(a==0 and b==5 and c==nil)
end


a, b, c, d = 1 and nil, 1 or nil, (1 and (nil or 1)), 6
assert(not a and b and c and d==6)

d = 20
a, b, c, d = f()
assert(a==10 and b==11 and c==12 and d==nil)
a,b = f(), 1, 2, 3, f()
assert(a==10 and b==1)

assert(a<b == false and a>b == true)
assert((10 and 2) == 2)
assert((10 or 2) == 10)
assert((10 or assert(nil)) == 10)
assert(not (nil and assert(nil)))
assert((nil or "alo") == "alo")
assert((nil and 10) == nil)
assert((false and 10) == false)
assert((true or 10) == true)
assert((false or 10) == 10)
assert(false ~= nil)
assert(nil ~= false)
assert(not nil == true)
assert(not not nil == false)
assert(not not 1 == true)
assert(not not a == true)
assert(not not (6 or nil) == true)
assert(not not (nil and 56) == false)
assert(not not (nil and true) == false)
print('+')

a = {}
a[true] = 20
a[false] = 10
assert(a[1<2] == 20 and a[1>2] == 10)

function f(a) return a end

local a = {}
for i=3000,-3000,-1 do a[i] = i; end
a[10e30] = "alo"; a[true] = 10; a[false] = 20
assert(a[10e30] == 'alo' and a[not 1] == 20 and a[10<20] == 10)
for i=3000,-3000,-1 do assert(a[i] == i); end
a[print] = assert
a[f] = print
a[a] = a
assert(a[a][a][a][a][print] == assert)
a[print](a[a[f]] == a[print])
a = nil

a = {10,9,8,7,6,5,4,3,2; [-3]='a', [f]=print, a='a', b='ab'}
a, a.x, a.y = a, a[-3]
assert(a[1]==10 and a[-3]==a.a and a[f]==print and a.x=='a' and not a.y)
a[1], f(a)[2], b, c = {['alo']=assert}, 10, a[1], a[f], 6, 10, 23, f(a), 2
a[1].alo(a[2]==10 and b==10 and c==print)

a[2^31] = 10; a[2^31+1] = 11; a[-2^31] = 12;
a[2^32] = 13; a[-2^32] = 14; a[2^32+1] = 15; a[10^33] = 16;

assert(a[2^31] == 10 and a[2^31+1] == 11 and a[-2^31] == 12 and
       a[2^32] == 13 and a[-2^32] == 14 and a[2^32+1] == 15 and
       a[10^33] == 16)

a = nil


-- do
--   local a,i,j,b
--   a = {'a', 'b'}; i=1; j=2; b=a
--   i, a[i], a, j, a[j], a[i+j] = j, i, i, b, j, i
--   assert(i == 2 and b[1] == 1 and a == 1 and j == b and b[2] == 2 and
--          b[3] == 1)
-- end

print('OK')

return res
