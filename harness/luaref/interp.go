package luaref

import (
	"fmt"
	"math"
)

// Unspecified is raised (as a Go panic) when the program's behaviour is not fixed by the properties.
type Unspecified struct{ Reason string }

type budgetExceeded struct{}
type coKill struct{}

// LuaError is a Lua-level error in flight (Go panic value).
type LuaError struct {
	Val     Value
	Handled bool // an xpcall handler already ran for it
}

type ctl int

const (
	ctlNone ctl = iota
	ctlBreak
	ctlReturn
	ctlGoto
)

type readRec struct {
	c   *Cell
	ver uint32
}

type Frame struct {
	cl      *Closure
	bi      *Builtin
	slots   []*Cell
	varargs []Value
	lo, hi  int // line span of the statement (or block header) being executed
	reads   []readRec
	ret     []Value
	label   string
	tail    bool // ret holds fn+args of a pending tail call
	tailFn  Value
	viaTail bool       // this activation was entered by a tail call
	tails   int        // how many activations it replaced (consecutive tail calls): each still counts as a debug level
	actives []actLocal // named locals in scope, in declaration order (for the debug library)
}

type actLocal struct {
	name string
	cell *Cell
}

func (fr *Frame) declare(name string, c *Cell) { fr.actives = append(fr.actives, actLocal{name, c}) }

type protEntry struct {
	isX     bool
	handler Value
	depth   int
}

type thread struct {
	frames    []*Frame
	prot      []protEntry
	cBoundary int // > 0 while a Go-side re-entry (pcall, metamethod, iterator, ...) is on the stack
	co        *Coroutine
}

type Interp struct {
	pendingTails int // tail-call count handed from Call to callClosure
	G          *Table
	StringMeta *Table
	Registry   map[string]*Table
	th         *thread
	mainTh     *thread
	Steps      int
	Budget     int
	MaxDepth   int
	ChunkName  string
	coros      []*Coroutine
	Trace      []TraceEvent
	// statistics for non-triviality rules
	Stat Stats
	// hooks
	OnCall func(in *Interp, fn Value, nargs int)
}

type Stats struct {
	Stmts        int
	StmtKinds    map[string]int
	Calls        int
	MaxCallDepth int
	Faults       int
	Caught       int
	MetaCalls    map[string]int
	Coercions    int
	Transfers    int
	Classes      map[string]int
}

func (in *Interp) class(k string) {
	if in.Stat.Classes == nil {
		in.Stat.Classes = map[string]int{}
	}
	in.Stat.Classes[k]++
}

func NewInterp() *Interp {
	in := &Interp{G: NewTable(), Budget: 300_000, MaxDepth: 160, ChunkName: "<string>", Registry: map[string]*Table{}}
	in.mainTh = &thread{}
	in.th = in.mainTh
	in.Stat.StmtKinds = map[string]int{}
	in.Stat.MetaCalls = map[string]int{}
	in.G.Set("_G", in.G)
	openBase(in)
	return in
}

func unspecified(format string, a ...any) {
	panic(Unspecified{fmt.Sprintf(format, a...)})
}

func (in *Interp) step() {
	in.Steps++
	if in.Steps > in.Budget {
		panic(budgetExceeded{})
	}
}

// ---- errors

func (in *Interp) curFrame() *Frame {
	if n := len(in.th.frames); n > 0 {
		return in.th.frames[n-1]
	}
	return nil
}

// luaFrameAt returns the level-th frame counting from the top (1 = innermost), nil when absent.
func (in *Interp) frameAt(level int) *Frame {
	n := len(in.th.frames)
	if level < 1 || level > n {
		return nil
	}
	return in.th.frames[n-level]
}

// raise delivers an error value: runs the innermost xpcall handler first (before unwinding), then unwinds.
func (in *Interp) raise(v Value) {
	th := in.th
	if n := len(th.prot); n > 0 {
		p := th.prot[n-1]
		if p.isX {
			// the handler runs at the point of the error, on top of the failing frames
			th.prot[n-1].isX = false // an error inside the handler is not handled again
			if o, ok := v.(*OStr); ok && o.NoRoom {
				panic(&LuaError{Val: &OStr{Kind: "any"}, Handled: true})
			}
			th.cBoundary++
			var res []Value
			failed := false
			func() {
				defer func() {
					if r := recover(); r != nil {
						if _, ok := r.(*LuaError); ok {
							// the handler failed too: xpcall returns false and a value no property fixes
							failed = true
							return
						}
						panic(r)
					}
				}()
				res = in.Call(p.handler, []Value{v})
			}()
			th.cBoundary--
			var hv Value
			if len(res) > 0 {
				hv = res[0]
			}
			if failed {
				hv = &OStr{Kind: "any"}
			}
			panic(&LuaError{Val: hv, Handled: true})
		}
	}
	panic(&LuaError{Val: v})
}

// fault raises a run-time fault: a string whose text is unspecified except for its position prefix.
func (in *Interp) fault(what string) {
	in.Stat.Faults++
	f := in.curFrame()
	o := &OStr{Kind: "err", Msg: what}
	// position: the innermost Lua function's current statement
	for i := len(in.th.frames) - 1; i >= 0; i-- {
		fr := in.th.frames[i]
		if fr.cl != nil {
			if fr == f {
				o.HasPos, o.Lo, o.Hi = true, fr.lo, fr.hi
			} else {
				// raised inside a builtin called from Lua: whether and which position is attached is unspecified
				o.HasPos = false
			}
			break
		}
	}
	in.raise(o)
}

// ---- calls

func (in *Interp) metaOf(v Value) *Table {
	switch x := v.(type) {
	case *Table:
		return x.Meta
	case *Userdata:
		return x.Meta
	case string, *OStr:
		return in.StringMeta
	}
	return nil
}

func (in *Interp) metaField(v Value, ev string) Value {
	mt := in.metaOf(v)
	if mt == nil {
		return nil
	}
	return mt.Get(ev)
}

// Call calls fn with args and returns all results (proper tail calls are trampolined).
func (in *Interp) Call(fn Value, args []Value) []Value {
	tailed := false
	ntails := 0
	for {
		in.step()
		switch f := fn.(type) {
		case *Closure:
			in.pendingTails = ntails
			res, tfn, targs, tail := in.callClosure(f, args, tailed)
			if !tail {
				return res
			}
			fn, args = tfn, targs
			tailed = true
			ntails++
			in.class("tailcall")
		case *Builtin:
			return in.callBuiltin(f, args, tailed)
		default:
			h := in.metaField(fn, "__call")
			if h == nil {
				in.fault("attempt to call a " + TypeName(fn) + " value")
			}
			in.Stat.MetaCalls["__call"]++
			args = append([]Value{fn}, args...)
			fn = h
		}
	}
}

func (in *Interp) callBuiltin(b *Builtin, args []Value, tailed bool) []Value {
	th := in.th
	if len(th.frames) >= in.MaxDepth {
		unspecified("call depth beyond the modelled range")
	}
	fr := &Frame{bi: b, viaTail: tailed}
	th.frames = append(th.frames, fr)
	res := b.Fn(in, args)
	// the frame may belong to another thread's slice only if a coroutine switched; th is stable here
	th.frames = th.frames[:len(th.frames)-1]
	return res
}

func (in *Interp) callClosure(c *Closure, args []Value, tailed bool) (res []Value, tfn Value, targs []Value, tail bool) {
	th := in.th
	if len(th.frames) >= in.MaxDepth {
		unspecified("call depth beyond the modelled range")
	}
	in.Stat.Calls++
	fn := c.Fn
	fr := &Frame{cl: c, slots: make([]*Cell, fn.NumSlots), lo: fn.Line, hi: fn.Line, viaTail: tailed, tails: in.pendingTails}
	in.pendingTails = 0
	np := len(fn.ParamSlots)
	for i, s := range fn.ParamSlots {
		var v Value
		if i < len(args) {
			v = args[i]
		}
		fr.slots[s] = &Cell{V: v}
		fr.declare(fn.Params[i], fr.slots[s])
	}
	if fn.IsVararg {
		if len(args) > np {
			fr.varargs = args[np:]
		}
		if fn.Name != "main chunk" {
			cell := &Cell{}
			if fn.UsesArg {
				t := NewTable()
				for i, v := range fr.varargs {
					if v != nil {
						t.Set(float64(i+1), v)
					}
				}
				t.Set("n", float64(len(fr.varargs)))
				cell.V = t
			}
			fr.slots[fn.ArgSlot] = cell
			fr.declare("arg", cell)
		}
	}
	th.frames = append(th.frames, fr)
	if d := len(th.frames); d > in.Stat.MaxCallDepth {
		in.Stat.MaxCallDepth = d
	}
	// the frame is popped on normal exit; on a Go panic (error) the protected call truncates the frame stack
	k := in.execBlock(fr, fn.Body)
	th.frames = th.frames[:len(th.frames)-1]
	switch k {
	case ctlReturn:
		if fr.tail {
			return nil, fr.tailFn, fr.ret, true
		}
		return fr.ret, nil, nil, false
	case ctlBreak:
		panic("luaref: break escaped a function")
	case ctlGoto:
		panic("luaref: goto escaped a function: " + fr.label)
	}
	return nil, nil, nil, false
}

// ---- statements

func (in *Interp) execBlock(fr *Frame, b *Block) ctl {
	i := 0
	base := len(fr.actives)
	var at []int // number of active locals before statement j, for the statements executed so far
	if len(b.Labels) > 0 {
		at = make([]int, len(b.Stmts)+1)
		for j := range at {
			at[j] = -1
		}
	}
	for i < len(b.Stmts) {
		if at != nil {
			at[i] = len(fr.actives)
		}
		k := in.execStmt(fr, b.Stmts[i])
		if k == ctlNone {
			i++
			continue
		}
		if k == ctlGoto {
			if idx, ok := b.Labels[fr.label]; ok {
				in.step()
				// leaving nested blocks already dropped their locals; a backward jump also ends the scope of the
				// locals declared after the label
				if at[idx] >= 0 && at[idx] < len(fr.actives) {
					fr.actives = fr.actives[:at[idx]]
				}
				i = idx
				continue
			}
		}
		if len(fr.actives) > base {
			fr.actives = fr.actives[:base]
		}
		return k
	}
	if len(fr.actives) > base {
		fr.actives = fr.actives[:base]
	}
	return ctlNone
}

func (fr *Frame) span(lo, hi int) { fr.lo, fr.hi = lo, hi }

func truthy(v Value) bool {
	if v == nil {
		return false
	}
	if b, ok := v.(bool); ok {
		return b
	}
	return true
}

func (in *Interp) kind(k string) {
	in.Stat.Stmts++
	in.Stat.StmtKinds[k]++
}

func (in *Interp) execStmt(fr *Frame, s Stmt) ctl {
	in.step()
	switch st := s.(type) {
	case *LocalStmt:
		in.kind("local")
		fr.span(st.Line, st.EndLine)
		mark := len(fr.reads)
		vals := in.evalList(fr, st.Exprs, len(st.Names))
		in.checkReads(fr, mark)
		for i, slot := range st.Slots {
			fr.slots[slot] = &Cell{V: vals[i]}
			fr.declare(st.Names[i], fr.slots[slot])
		}
	case *AssignStmt:
		in.kind("assign")
		fr.span(st.Line, st.EndLine)
		in.execAssign(fr, st)
	case *CallStmt:
		in.kind("call")
		fr.span(st.Line, st.EndLine)
		in.evalCall(fr, st.Call, 0)
	case *DoStmt:
		in.kind("do")
		return in.execBlock(fr, st.Body)
	case *WhileStmt:
		in.kind("while")
		for {
			in.step()
			fr.span(st.Line, st.HdrEnd)
			if !truthy(in.eval(fr, st.Cond)) {
				break
			}
			k := in.execBlock(fr, st.Body)
			if k == ctlBreak {
				break
			}
			if k != ctlNone {
				return k
			}
		}
	case *RepeatStmt:
		in.kind("repeat")
		for {
			in.step()
			k := in.execBlock(fr, st.Body)
			if k == ctlBreak {
				break
			}
			if k != ctlNone {
				return k
			}
			fr.span(st.UntilLine, st.EndLine)
			if truthy(in.eval(fr, st.Cond)) {
				break
			}
		}
	case *IfStmt:
		in.kind("if")
		for i, c := range st.Conds {
			fr.span(st.HdrBegs[i], st.HdrEnds[i])
			if truthy(in.eval(fr, c)) {
				return in.execBlock(fr, st.Blocks[i])
			}
		}
		if st.Else != nil {
			return in.execBlock(fr, st.Else)
		}
	case *NumForStmt:
		in.kind("numfor")
		return in.execNumFor(fr, st)
	case *GenForStmt:
		in.kind("genfor")
		return in.execGenFor(fr, st)
	case *FuncStmt:
		in.kind("function")
		fr.span(st.Line, st.EndLine)
		cl := in.makeClosure(fr, st.Fn)
		switch t := st.Target.(type) {
		case *NameExpr:
			in.assignName(fr, t, cl)
		case *IndexExpr:
			obj := in.eval(fr, t.Obj)
			key := in.eval(fr, t.Key)
			in.setIndex(obj, key, cl)
		}
	case *LocalFuncStmt:
		in.kind("localfunction")
		cell := &Cell{}
		fr.slots[st.Slot] = cell
		fr.declare(st.Name, cell)
		cell.V = in.makeClosure(fr, st.Fn)
	case *ReturnStmt:
		in.kind("return")
		fr.span(st.Line, st.EndLine)
		if len(st.Exprs) == 1 {
			if ce, ok := st.Exprs[0].(*CallExpr); ok {
				// proper tail call
				fn, args := in.evalCallParts(fr, ce)
				// a value that cannot be called fails here, in the calling function's frame
				switch fn.(type) {
				case *Closure, *Builtin:
				default:
					if in.metaField(fn, "__call") == nil {
						in.fault("attempt to call a " + TypeName(fn) + " value")
					}
				}
				fr.tail, fr.tailFn, fr.ret = true, fn, args
				return ctlReturn
			}
		}
		mark := len(fr.reads)
		fr.ret = in.evalList(fr, st.Exprs, -1)
		in.checkReads(fr, mark)
		fr.tail = false
		return ctlReturn
	case *BreakStmt:
		in.kind("break")
		return ctlBreak
	case *GotoStmt:
		in.kind("goto")
		fr.label = st.Label
		return ctlGoto
	case *LabelStmt:
	default:
		panic(fmt.Sprintf("luaref: unknown statement %T", s))
	}
	return ctlNone
}

func (in *Interp) toNumberStrict(v Value) (float64, bool) {
	switch x := v.(type) {
	case float64:
		return x, true
	case string:
		unspecified("numeric for with a string bound (F-VM2)")
		_ = x
	case *OStr:
		unspecified("opaque string as a number")
	}
	return 0, false
}

func (in *Interp) execNumFor(fr *Frame, st *NumForStmt) ctl {
	fr.span(st.Line, st.HdrEnd)
	mark := len(fr.reads)
	startV := in.eval(fr, st.Start)
	endV := in.eval(fr, st.End)
	var stepV Value = float64(1)
	if st.Step != nil {
		stepV = in.eval(fr, st.Step)
	}
	in.checkReads(fr, mark)
	start, ok1 := in.toNumberStrict(startV)
	if !ok1 {
		in.fault("'for' initial value must be a number")
	}
	limit, ok2 := in.toNumberStrict(endV)
	if !ok2 {
		in.fault("'for' limit must be a number")
	}
	step, ok3 := in.toNumberStrict(stepV)
	if !ok3 {
		in.fault("'for' step must be a number")
	}
	// (a step of 0 or -0 is decided by the manual's equivalent code: the loop runs while limit <= var)
	if step != step || start != start || limit != limit {
		unspecified("numeric for with NaN")
	}
	idx := start - step
	if idx+step != start {
		unspecified("numeric for whose first index is not exactly representable as (init-step)+step")
	}
	for {
		in.step()
		idx += step
		if step > 0 && !(idx <= limit) || step <= 0 && !(idx >= limit) {
			break
		}
		fr.slots[st.Slot] = &Cell{V: idx}
		nact := len(fr.actives)
		fr.declare(st.Var, fr.slots[st.Slot])
		k := in.execBlock(fr, st.Body)
		fr.actives = fr.actives[:nact]
		if k == ctlBreak {
			break
		}
		if k != ctlNone {
			return k
		}
	}
	return ctlNone
}

func (in *Interp) execGenFor(fr *Frame, st *GenForStmt) ctl {
	fr.span(st.Line, st.HdrEnd)
	mark := len(fr.reads)
	vals := in.evalList(fr, st.Exprs, 3)
	in.checkReads(fr, mark)
	f, s, c := vals[0], vals[1], vals[2]
	for {
		in.step()
		fr.span(st.Line, st.HdrEnd)
		in.th.cBoundary++
		rs := in.Call(f, []Value{s, c})
		in.th.cBoundary--
		var first Value
		if len(rs) > 0 {
			first = rs[0]
		}
		if first == nil {
			break
		}
		c = first
		nact := len(fr.actives)
		for i, slot := range st.Slots {
			var v Value
			if i < len(rs) {
				v = rs[i]
			}
			fr.slots[slot] = &Cell{V: v}
			fr.declare(st.Names[i], fr.slots[slot])
		}
		k := in.execBlock(fr, st.Body)
		fr.actives = fr.actives[:nact]
		if k == ctlBreak {
			break
		}
		if k != ctlNone {
			return k
		}
	}
	return ctlNone
}

type target struct {
	name *NameExpr
	obj  Value
	key  Value
}

func (in *Interp) execAssign(fr *Frame, st *AssignStmt) {
	mark := len(fr.reads)
	// left-hand prefixes and keys first, left to right
	tg := make([]target, len(st.Targets))
	for i, t := range st.Targets {
		switch x := t.(type) {
		case *NameExpr:
			tg[i].name = x
		case *IndexExpr:
			tg[i].obj = in.eval(fr, x.Obj)
			tg[i].key = in.eval(fr, x.Key)
		}
	}
	vals := in.evalList(fr, st.Exprs, len(st.Targets))
	in.checkReads(fr, mark)
	if len(tg) > 1 {
		// the order of the stores is undefined: it must not be observable
		for i := 0; i < len(tg); i++ {
			for j := i + 1; j < len(tg); j++ {
				if in.sameTarget(fr, tg[i], tg[j]) {
					unspecified("multiple assignment to the same variable or field")
				}
			}
			if tg[i].name == nil {
				if in.storeObservable(tg[i].obj, tg[i].key) {
					unspecified("multiple assignment with a store that runs a handler or fails")
				}
			}
		}
	}
	for i := len(tg) - 1; i >= 0; i-- {
		if tg[i].name != nil {
			in.assignName(fr, tg[i].name, vals[i])
		} else {
			in.setIndex(tg[i].obj, tg[i].key, vals[i])
		}
	}
}

func (in *Interp) sameTarget(fr *Frame, a, b target) bool {
	if a.name != nil && b.name != nil {
		if a.name.Kind != b.name.Kind {
			return false
		}
		switch a.name.Kind {
		case NameLocal, NameUpval:
			return a.name.Idx == b.name.Idx
		default:
			return a.name.Name == b.name.Name
		}
	}
	if a.name == nil && b.name == nil {
		return a.obj == b.obj && rawEqual(a.key, b.key)
	}
	// a global assignment is a store into the environment table
	n, o := a, b
	if n.name == nil {
		n, o = b, a
	}
	if n.name.Kind == NameGlobal {
		if t, ok := o.obj.(*Table); ok && t == fr.cl.Env {
			if s, ok := o.key.(string); ok && s == n.name.Name {
				return true
			}
		}
	}
	return false
}

// storeObservable: would a store into obj[key] do anything other than a plain raw store?
func (in *Interp) storeObservable(obj, key Value) bool {
	t, ok := obj.(*Table)
	if !ok {
		return true
	}
	if key == nil {
		return true
	}
	if f, ok := key.(float64); ok && f != f {
		return true
	}
	if t.Meta != nil && t.Meta.Get("__newindex") != nil && t.Get(key) == nil {
		return true
	}
	return false
}

func (in *Interp) assignName(fr *Frame, n *NameExpr, v Value) {
	switch n.Kind {
	case NameLocal:
		c := fr.slots[n.Idx]
		c.V = v
		c.Ver++
	case NameUpval:
		c := fr.cl.Upvals[n.Idx]
		c.V = v
		c.Ver++
	default:
		in.setIndex(fr.cl.Env, n.Name, v)
	}
}

func (in *Interp) checkReads(fr *Frame, mark int) {
	for _, r := range fr.reads[mark:] {
		if r.c.Ver != r.ver {
			unspecified("a local read as an operand was written before the construct completed")
		}
	}
	fr.reads = fr.reads[:mark]
}

// ---- expressions

func (in *Interp) makeClosure(fr *Frame, fn *FuncExpr) *Closure {
	c := &Closure{Fn: fn, Env: fr.cl.Env}
	if len(fn.Upvals) > 0 {
		c.Upvals = make([]*Cell, len(fn.Upvals))
		for i, u := range fn.Upvals {
			if u.FromParentLocal {
				c.Upvals[i] = fr.slots[u.Idx]
			} else {
				c.Upvals[i] = fr.cl.Upvals[u.Idx]
			}
		}
	}
	return c
}

// evalList evaluates an expression list to want values (want < 0: all values of the last multi-value expression).
func (in *Interp) evalList(fr *Frame, es []Expr, want int) []Value {
	var out []Value
	for i, e := range es {
		if i == len(es)-1 {
			switch x := e.(type) {
			case *CallExpr:
				out = append(out, in.evalCall(fr, x, -1)...)
				goto done
			case *VarargExpr:
				out = append(out, fr.varargs...)
				goto done
			}
		}
		out = append(out, in.eval(fr, e))
	}
done:
	if want >= 0 {
		for len(out) < want {
			out = append(out, nil)
		}
		out = out[:want]
	}
	return out
}

func (in *Interp) evalCallParts(fr *Frame, ce *CallExpr) (Value, []Value) {
	mark := len(fr.reads)
	var fn Value
	var args []Value
	if ce.Method != "" {
		obj := in.eval(fr, ce.Fn)
		fn = in.index(obj, ce.Method)
		args = append(args, obj)
	} else {
		fn = in.eval(fr, ce.Fn)
	}
	args = append(args, in.evalList(fr, ce.Args, -1)...)
	in.checkReads(fr, mark)
	return fn, args
}

// evalCall: want = -1 all results, 0 none, 1 first.
func (in *Interp) evalCall(fr *Frame, ce *CallExpr, want int) []Value {
	fn, args := in.evalCallParts(fr, ce)
	lo, hi := fr.lo, fr.hi
	res := in.Call(fn, args)
	fr.lo, fr.hi = lo, hi
	return res
}

func first(vs []Value) Value {
	if len(vs) > 0 {
		return vs[0]
	}
	return nil
}

func (in *Interp) eval(fr *Frame, e Expr) Value {
	switch x := e.(type) {
	case *NilExpr:
		return nil
	case *TrueExpr:
		return true
	case *FalseExpr:
		return false
	case *NumberExpr:
		return x.Val
	case *StringExpr:
		return x.Val
	case *VarargExpr:
		return first(fr.varargs)
	case *NameExpr:
		switch x.Kind {
		case NameLocal:
			c := fr.slots[x.Idx]
			if c == nil {
				panic(fmt.Sprintf("luaref: local %s read before its declaration ran (line %d)", x.Name, x.Line))
			}
			fr.reads = append(fr.reads, readRec{c, c.Ver})
			return c.V
		case NameUpval:
			return fr.cl.Upvals[x.Idx].V
		default:
			return in.index(fr.cl.Env, x.Name)
		}
	case *ParenExpr:
		return in.eval(fr, x.X)
	case *FuncExpr:
		return in.makeClosure(fr, x)
	case *CallExpr:
		return first(in.evalCall(fr, x, 1))
	case *IndexExpr:
		mark := len(fr.reads)
		obj := in.eval(fr, x.Obj)
		key := in.eval(fr, x.Key)
		in.checkReads(fr, mark)
		return in.index(obj, key)
	case *TableExpr:
		return in.evalTable(fr, x)
	case *UnExpr:
		v := in.eval(fr, x.X)
		switch x.Op {
		case "not":
			return !truthy(v)
		case "-":
			return in.unm(v)
		case "#":
			return in.length(v)
		}
	case *BinExpr:
		switch x.Op {
		case "and":
			l := in.eval(fr, x.L)
			if !truthy(l) {
				return l
			}
			return in.eval(fr, x.R)
		case "or":
			l := in.eval(fr, x.L)
			if truthy(l) {
				return l
			}
			return in.eval(fr, x.R)
		}
		mark := len(fr.reads)
		l := in.eval(fr, x.L)
		r := in.eval(fr, x.R)
		in.checkReads(fr, mark)
		return in.binop(x.Op, l, r)
	}
	panic(fmt.Sprintf("luaref: unknown expression %T", e))
}

func (in *Interp) evalTable(fr *Frame, te *TableExpr) Value {
	// a constructor costs what its fields cost: a 25 000-field constructor inside a loop must run into the step budget
	in.Steps += len(te.Fields) / 4
	in.step()
	t := NewTable()
	mark := len(fr.reads)
	n := 0
	var keyedInts []float64
	for i, f := range te.Fields {
		if f.Key != nil {
			k := in.eval(fr, f.Key)
			v := in.eval(fr, f.Val)
			if k == nil {
				in.fault("table index is nil")
			}
			if kf, ok := k.(float64); ok && kf != kf {
				in.fault("table index is NaN")
			}
			if _, ok := k.(*OStr); ok {
				unspecified("opaque string used as a table key")
			}
			// a keyed field that names a positional slot: which of the two stores wins is decided by
			// instruction order the manual does not fix
			if kf, ok := k.(float64); ok && kf >= 1 && kf == math.Floor(kf) {
				keyedInts = append(keyedInts, kf)
			}
			t.Set(k, v)
			continue
		}
		if i == len(te.Fields)-1 {
			switch x := f.Val.(type) {
			case *CallExpr:
				for _, v := range in.evalCall(fr, x, -1) {
					n++
					t.Set(float64(n), v)
				}
				continue
			case *VarargExpr:
				for _, v := range fr.varargs {
					n++
					t.Set(float64(n), v)
				}
				continue
			}
		}
		n++
		t.Set(float64(n), in.eval(fr, f.Val))
	}
	in.checkReads(fr, mark)
	for _, kf := range keyedInts {
		if kf <= float64(n) {
			unspecified("table constructor with a keyed field that collides with a positional one")
		}
	}
	return t
}

// ---- primitive operations with metamethods (manual 2.8)

func rawEqual(a, b Value) bool {
	if x, ok := a.(*ONum); ok {
		if x.Lo != x.Hi {
			unspecified("comparison of a line number that is only known as a span")
		}
		a = float64(x.Lo)
	}
	if x, ok := b.(*ONum); ok {
		if x.Lo != x.Hi {
			unspecified("comparison of a line number that is only known as a span")
		}
		b = float64(x.Lo)
	}
	if af, ok := a.(float64); ok {
		bf, ok := b.(float64)
		return ok && af == bf
	}
	if _, ok := a.(*OStr); ok {
		if a == b {
			return true
		}
		if TypeName(b) == "string" {
			unspecified("comparison of an opaque string")
		}
		return false
	}
	if _, ok := b.(*OStr); ok {
		if TypeName(a) == "string" {
			unspecified("comparison of an opaque string")
		}
		return false
	}
	return a == b
}

func (in *Interp) callMeta(ev string, h Value, args ...Value) Value {
	in.Stat.MetaCalls[ev]++
	in.th.cBoundary++
	r := in.Call(h, args)
	in.th.cBoundary--
	return first(r)
}

func (in *Interp) index(obj, key Value) Value {
	key = deline(key)
	for loop := 0; loop < 100; loop++ {
		var h Value
		if t, ok := obj.(*Table); ok {
			if _, ok := key.(*OStr); ok {
				unspecified("opaque string used as a table key")
			}
			v := t.Get(key)
			if v != nil {
				return v
			}
			if t.Meta == nil {
				return nil
			}
			h = t.Meta.Get("__index")
			if h == nil {
				return nil
			}
		} else {
			h = in.metaField(obj, "__index")
			if h == nil {
				in.fault("attempt to index a " + TypeName(obj) + " value")
			}
			if _, ok := obj.(*OStr); ok {
				unspecified("indexing an opaque string")
			}
		}
		switch h.(type) {
		case *Closure, *Builtin:
			return in.callMeta("__index", h, obj, key)
		}
		obj = h
	}
	in.fault("loop in gettable")
	return nil
}

func (in *Interp) setIndex(obj, key, val Value) {
	key = deline(key)
	for loop := 0; loop < 100; loop++ {
		var h Value
		if t, ok := obj.(*Table); ok {
			if _, ok := key.(*OStr); ok {
				unspecified("opaque string used as a table key")
			}
			if t.Get(key) != nil {
				t.Set(key, val)
				return
			}
			if t.Meta != nil {
				h = t.Meta.Get("__newindex")
			}
			if h == nil {
				if key == nil {
					in.fault("table index is nil")
				}
				if kf, ok := key.(float64); ok && kf != kf {
					in.fault("table index is NaN")
				}
				t.Set(key, val)
				return
			}
		} else {
			h = in.metaField(obj, "__newindex")
			if h == nil {
				in.fault("attempt to index a " + TypeName(obj) + " value")
			}
		}
		switch h.(type) {
		case *Closure, *Builtin:
			in.callMeta("__newindex", h, obj, key, val)
			return
		}
		obj = h
	}
	in.fault("loop in settable")
}

func (in *Interp) toNum(v Value) (float64, bool) {
	switch x := v.(type) {
	case *ONum:
		if x.Lo == x.Hi {
			return float64(x.Lo), true
		}
		unspecified("arithmetic on a line number that is only known as a span")
	case float64:
		return x, true
	case string:
		f, st := StrToNum(x)
		switch st {
		case numOK:
			in.Stat.Coercions++
			return f, true
		case numGrey:
			unspecified("string->number coercion in the grey zone: %q", x)
		}
		return 0, false
	case *OStr:
		unspecified("arithmetic on an opaque string")
	}
	return 0, false
}

var arithEvent = map[string]string{"+": "__add", "-": "__sub", "*": "__mul", "/": "__div", "%": "__mod", "^": "__pow"}

func luaMod(a, b float64) (float64, bool) {
	if math.IsInf(a, 0) || math.IsNaN(a) || math.IsNaN(b) || b == 0 || math.IsInf(b, 0) {
		return 0, false
	}
	r1 := a - math.Floor(a/b)*b
	// fmod-based definition (5.3 style)
	r2 := math.Mod(a, b)
	if r2 != 0 && (r2 < 0) != (b < 0) {
		r2 += b
	}
	if r1 != r2 {
		return 0, false
	}
	// (a zero result is +0 by the 5.1 definition, whatever sign fmod gives it)
	return r1, true
}

func (in *Interp) arith(op string, a, b float64) float64 {
	switch op {
	case "+":
		return a + b
	case "-":
		return a - b
	case "*":
		return a * b
	case "/":
		return a / b
	case "%":
		r, ok := luaMod(a, b)
		if !ok {
			switch {
			case b == 0:
				unspecified("modulo by zero (nan in 5.1 on most platforms; not fixed)")
			case math.IsInf(a, 0) || math.IsInf(b, 0) || math.IsNaN(a) || math.IsNaN(b):
				unspecified("modulo with an infinite or nan operand")
			}
			unspecified("modulo where the two definitions differ (rounding)")
		}
		return r
	case "^":
		return math.Pow(a, b)
	}
	panic("arith " + op)
}

// deline turns an exactly known line number into a plain number; one that is only known as a span cannot be looked at.
func deline(v Value) Value {
	if x, ok := v.(*ONum); ok {
		if x.Lo != x.Hi {
			unspecified("operation on a line number that is only known as a span")
		}
		return float64(x.Lo)
	}
	return v
}

func (in *Interp) binop(op string, l, r Value) Value {
	if op != "==" && op != "~=" {
		l, r = deline(l), deline(r)
	}
	switch op {
	case "+", "-", "*", "/", "%", "^":
		lf, ok1 := in.toNum(l)
		rf, ok2 := in.toNum(r)
		if ok1 && ok2 {
			return in.arith(op, lf, rf)
		}
		ev := arithEvent[op]
		h := in.metaField(l, ev)
		if h == nil {
			h = in.metaField(r, ev)
		}
		if h == nil {
			in.fault("attempt to perform arithmetic")
		}
		return in.callMeta(ev, h, l, r)
	case "..":
		ls, ok1 := in.concatStr(l)
		rs, ok2 := in.concatStr(r)
		if ok1 && ok2 {
			if len(ls)+len(rs) > 1<<18 {
				unspecified("string longer than the modelled range")
			}
			return ls + rs
		}
		h := in.metaField(l, "__concat")
		if h == nil {
			h = in.metaField(r, "__concat")
		}
		if h == nil {
			in.fault("attempt to concatenate")
		}
		return in.callMeta("__concat", h, l, r)
	case "==":
		return in.equals(l, r)
	case "~=":
		return !in.equals(l, r)
	case "<":
		return in.lessThan(l, r)
	case "<=":
		return in.lessEqual(l, r)
	case ">":
		return in.lessThan(r, l)
	case ">=":
		return in.lessEqual(r, l)
	}
	panic("binop " + op)
}

func (in *Interp) concatStr(v Value) (string, bool) {
	switch x := v.(type) {
	case string:
		return x, true
	case float64:
		s, ok := NumToStr(x)
		if !ok {
			unspecified("number->string conversion whose text is not fixed")
		}
		return s, true
	case *OStr:
		unspecified("concatenation of an opaque string")
	}
	return "", false
}

func (in *Interp) equals(l, r Value) bool {
	if rawEqual(l, r) {
		return true
	}
	_, lt := l.(*Table)
	_, rt := r.(*Table)
	_, lu := l.(*Userdata)
	_, ru := r.(*Userdata)
	if !(lt && rt || lu && ru) {
		return false
	}
	h1 := in.metaField(l, "__eq")
	if h1 == nil {
		return false
	}
	m1, m2 := in.metaOf(l), in.metaOf(r)
	if m1 != m2 {
		h2 := in.metaField(r, "__eq")
		if h2 == nil || !rawEqual(h1, h2) {
			return false
		}
	}
	return truthy(in.callMeta("__eq", h1, l, r))
}

func (in *Interp) compHandler(l, r Value, ev string) Value {
	if TypeName(l) != TypeName(r) {
		return nil
	}
	h1 := in.metaField(l, ev)
	if h1 == nil {
		return nil
	}
	if in.metaOf(l) == in.metaOf(r) {
		return h1
	}
	h2 := in.metaField(r, ev)
	if h2 == nil || !rawEqual(h1, h2) {
		return nil
	}
	return h1
}

func (in *Interp) lessThan(l, r Value) bool {
	if a, ok := l.(float64); ok {
		if b, ok := r.(float64); ok {
			return a < b
		}
	}
	if a, ok := l.(string); ok {
		if b, ok := r.(string); ok {
			return a < b
		}
	}
	if TypeName(l) == "string" && TypeName(r) == "string" {
		unspecified("ordering of an opaque string")
	}
	if h := in.compHandler(l, r, "__lt"); h != nil {
		return truthy(in.callMeta("__lt", h, l, r))
	}
	in.fault("attempt to compare")
	return false
}

func (in *Interp) lessEqual(l, r Value) bool {
	if a, ok := l.(float64); ok {
		if b, ok := r.(float64); ok {
			return a <= b
		}
	}
	if a, ok := l.(string); ok {
		if b, ok := r.(string); ok {
			return a <= b
		}
	}
	if TypeName(l) == "string" && TypeName(r) == "string" {
		unspecified("ordering of an opaque string")
	}
	if h := in.compHandler(l, r, "__le"); h != nil {
		return truthy(in.callMeta("__le", h, l, r))
	}
	if h := in.compHandler(r, l, "__lt"); h != nil {
		return !truthy(in.callMeta("__lt", h, r, l))
	}
	in.fault("attempt to compare")
	return false
}

func (in *Interp) unm(v Value) Value {
	v = deline(v)
	if f, ok := in.toNum(v); ok {
		return -f
	}
	h := in.metaField(v, "__unm")
	if h == nil {
		in.fault("attempt to perform arithmetic (unary minus)")
	}
	return in.callMeta("__unm", h, v)
}

func (in *Interp) length(v Value) Value {
	switch x := v.(type) {
	case string:
		return float64(len(x))
	case *OStr:
		unspecified("length of an opaque string")
	case *Table:
		if x.Meta != nil && x.Meta.Get("__len") != nil {
			// 5.1 takes the primitive length of a table; gopher-lua honours __len (as 5.2 does) - no listed property fixes it
			unspecified("length of a table whose metatable has __len")
		}
		n, unique := x.Border()
		if !unique {
			unspecified("length of a table with more than one border")
		}
		return float64(n)
	}
	h := in.metaField(v, "__len")
	if h == nil {
		in.fault("attempt to get length")
	}
	return in.callMeta("__len", h, v)
}

// ---- running a chunk

type Outcome struct {
	Results     []Value
	Err         Value // non-nil value of a failed run (Failed tells nil errors apart)
	Failed      bool
	Unspecified string // non-empty: discard the case
	Budget      bool
}

// Run executes a parsed main chunk with the given arguments under the interpreter's budget.
func (in *Interp) Run(main *FuncExpr, args ...Value) (out Outcome) {
	defer in.killCoroutines()
	defer func() {
		if r := recover(); r != nil {
			switch x := r.(type) {
			case *LuaError:
				out.Failed, out.Err = true, x.Val
			case Unspecified:
				out.Unspecified = x.Reason
			case budgetExceeded:
				out.Budget = true
				out.Unspecified = "step budget exceeded"
			default:
				panic(r)
			}
		}
	}()
	cl := &Closure{Fn: main, Env: in.G}
	out.Results = in.Call(cl, args)
	return out
}
