// Package c08: loading arbitrary bytes ends in a function or a syntax error, never a crash.
package c08

import (
	"bytes"
	"fmt"
	"io"
	"os"
	"regexp"
	"strconv"
	"strings"
	"sync"
	"testing"
	"testing/iotest"
	"time"

	lua "github.com/yuin/gopher-lua"
	"github.com/yuin/gopher-lua/parse"
	"pgregory.net/rapid"

	"verif/e1"
	"verif/gl"
	"verif/lgen"
	"verif/luaref"
	"verif/vf"
)

func TestMain(m *testing.M) { vf.Main(m) }

func TestReplay(t *testing.T) { vf.Replay(t) }

// ---------------------------------------------------------------------------------------------
// oracle

type LoadCase struct {
	Src  []byte `json:"src"`
	Text string `json:"text,omitempty"` // same bytes, for the reader (may be lossy)
	Kind string `json:"kind,omitempty"`
}

type outcome struct {
	ok    bool
	class string // accepted | syntax
	err   string
	dump  string
}

var sharedState = lua.NewState(lua.Options{SkipOpenLibs: true})

// loadOnce loads through LState.LoadString and reports what happened.  A Go panic is turned into an error here
// because "never panics out of Load" is the property.
func loadOnce(src string) (o outcome, perr error) {
	// "never hangs": a load that has not returned after 30 s (the largest texts generated here load in well under a
	// second) is reported; the driver believes it only when the saved case does the same again in a fresh process
	type res struct {
		o   outcome
		err error
	}
	ch := make(chan res, 1)
	go func() {
		o, err := loadOnceUnguarded(src)
		ch <- res{o, err}
	}()
	select {
	case r := <-ch:
		return r.o, r.err
	case <-time.After(30 * time.Second):
		if os.Getenv("VERIF_REPLAY") == "" {
			// the load is still spinning and holds the state: nothing more can be learned in this process (shrinking would
			// only measure the lock).  The case being run is in the journal; the driver replays it in a fresh process.
			fmt.Println("LoadString had not returned after 30 s; leaving so that the journalled case is replayed")
			os.Exit(3)
		}
		return o, fmt.Errorf("LoadString had not returned after 30 s")
	}
}

var loadMu sync.Mutex

func loadOnceUnguarded(src string) (o outcome, perr error) {
	loadMu.Lock()
	defer loadMu.Unlock()
	defer func() {
		if r := recover(); r != nil {
			perr = fmt.Errorf("LoadString panicked: %v", r)
		}
	}()
	fn, err := sharedState.LoadString(src)
	if err == nil {
		if fn == nil || fn.Proto == nil {
			return o, fmt.Errorf("LoadString returned (nil, nil)")
		}
		return outcome{ok: true, class: "accepted", dump: gl.DumpProto(fn.Proto, true)}, nil
	}
	if fn != nil {
		return o, fmt.Errorf("LoadString returned both a function and an error")
	}
	ae, isApi := err.(*lua.ApiError)
	if !isApi {
		return o, fmt.Errorf("error is %T, not *ApiError: %v", err, err)
	}
	if ae.Type != lua.ApiErrorSyntax {
		return o, fmt.Errorf("error type is %d, not ApiErrorSyntax: %v", ae.Type, err)
	}
	if ae.Cause == nil {
		return o, fmt.Errorf("syntax error without Cause")
	}
	return outcome{class: "syntax", err: err.Error()}, nil
}

type chunkReader struct {
	s string
	n int
}

func (c *chunkReader) Read(p []byte) (int, error) {
	if len(c.s) == 0 {
		return 0, io.EOF
	}
	n := c.n
	if n > len(c.s) {
		n = len(c.s)
	}
	if n > len(p) {
		n = len(p)
	}
	copy(p, c.s[:n])
	c.s = c.s[n:]
	return n, nil
}

// loadReader loads through LState.Load with the chunk name LoadString uses.
func loadReader(rd io.Reader) (o outcome, perr error) {
	loadMu.Lock()
	defer loadMu.Unlock()
	defer func() {
		if r := recover(); r != nil {
			perr = fmt.Errorf("Load panicked: %v", r)
		}
	}()
	fn, err := sharedState.Load(rd, "<string>")
	if err == nil {
		if fn == nil || fn.Proto == nil {
			return o, fmt.Errorf("Load returned (nil, nil)")
		}
		return outcome{ok: true, class: "accepted", dump: gl.DumpProto(fn.Proto, true)}, nil
	}
	return outcome{class: "syntax", err: err.Error()}, nil
}

// parseCompileOnce goes through parse.Parse + lua.Compile directly (the other documented route).
func parseCompileOnce(src string) (o outcome, perr error) {
	defer func() {
		if r := recover(); r != nil {
			perr = fmt.Errorf("parse.Parse/Compile panicked: %v", r)
		}
	}()
	chunk, err := parse.Parse(strings.NewReader(src), "<string>")
	if err != nil {
		return outcome{class: "syntax", err: err.Error()}, nil
	}
	proto, err := lua.Compile(chunk, "<string>")
	if err != nil {
		return outcome{class: "syntax", err: err.Error()}, nil
	}
	if proto == nil {
		return o, fmt.Errorf("Compile returned (nil, nil)")
	}
	return outcome{ok: true, class: "accepted", dump: gl.DumpProto(proto, true)}, nil
}

var chkLoad = vf.Register("load_total", func(k *vf.C, c *LoadCase) error {
	src := string(c.Src)
	o1, err := loadOnce(src)
	if err != nil {
		return err
	}
	o2, err := loadOnce(src)
	if err != nil {
		return err
	}
	if o1 != o2 {
		return fmt.Errorf("loading the same bytes twice gave different outcomes: %q vs %q", brief(o1), brief(o2))
	}
	o3, err := parseCompileOnce(src)
	if err != nil {
		return err
	}
	if o3.ok != o1.ok || o3.dump != o1.dump {
		return fmt.Errorf("LoadString and parse.Parse+Compile disagree: %q vs %q", brief(o1), brief(o3))
	}
	if !o1.ok && strings.TrimSpace(o1.err) == "" {
		return fmt.Errorf("rejected with an empty error message")
	}
	// "never depends on anything but the bytes": the same bytes through readers that deliver them in other portions
	for name, rd := range map[string]io.Reader{"one byte at a time": iotest.OneByteReader(strings.NewReader(src)), "in halves": iotest.HalfReader(strings.NewReader(src)),
		"in portions of 7": &chunkReader{s: src, n: 7}, "in portions of 4095": &chunkReader{s: src, n: 4095}} {
		o4, err := loadReader(rd)
		if err != nil {
			return fmt.Errorf("read %s: %v", name, err)
		}
		if o4.ok != o1.ok || o4.dump != o1.dump || o4.err != o1.err {
			return fmt.Errorf("the same bytes read %s load differently: %q vs %q", name, brief(o1), brief(o4))
		}
	}
	classify(k, c, o1)
	return nil
})

func brief(o outcome) string {
	if o.ok {
		return fmt.Sprintf("accepted(%d bytes of dump)", len(o.dump))
	}
	return "syntax: " + o.err
}

func init() {
	chkLoad.Journal = true
	chkLayout.Journal = true
	chkValid.Journal = true
	chkRepeat.Journal = true
	chkGlue.Journal = true
}

func classify(k *vf.C, c *LoadCase, o outcome) {
	k.Class("outcome:" + o.class)
	src := c.Src
	if bytes.Contains(src, []byte("[[")) || bytes.Contains(src, []byte("[=")) {
		k.Class("has_long_bracket")
	}
	if bytes.ContainsAny(src, "\r") {
		k.Class("has_CR")
	}
	if bytes.Contains(src, []byte("\\1")) || bytes.Contains(src, []byte("\\0")) || bytes.Contains(src, []byte("\\2")) {
		k.Class("has_decimal_escape")
	}
	if c.Kind != "" {
		k.Class("kind:" + c.Kind)
	}
	// non-trivial: the input is not rejected at its first token: either accepted, or the error is not on the
	// first line/first columns, or the input has >= 5 blank-separated pieces
	if len(bytes.Fields(src)) >= 5 || o.ok && len(src) > 8 {
		k.Nontrivial(vf.Hash(string(src)))
		k.Sample(c.Kind+"/"+o.class, 1, map[string]any{"text": clip(string(src), 300), "outcome": clip(brief(o), 200)})
	}
}

func clip(s string, n int) string {
	if len(s) > n {
		return s[:n] + "..."
	}
	return s
}

// ---------------------------------------------------------------------------------------------
// generators

var tokenAlphabet = []string{
	"and", "break", "do", "else", "elseif", "end", "false", "for", "function", "goto", "if", "in", "local", "nil", "not",
	"or", "repeat", "return", "then", "true", "until", "while",
	"+", "-", "*", "/", "%", "^", "#", "==", "~=", "<=", ">=", "<", ">", "=", "(", ")", "{", "}", "[", "]", ";", ":", ",", ".",
	"..", "...", "::", "~", "!", "@", "$", "&", "|", "?", "`", "\\",
	"a", "b", "x", "_", "f", "t", "_G", "a1", "goto1", "nilx",
	"0", "1", "2", "10", "0x", "0x1", "0xA", "0xg", "1e", "1e+", "1e5", "1E-3", "1.", ".5", "1.5", "1..2", "0010", "08", "1e+;", "3e",
	"0x.1", "1.5.2", "9999999999999999999999", "1e400", "0b1", "1_0", "1f",
	"\"\"", "''", "\"a\"", "'b'", "\"\\n\"", "\"\\\n\"", "\"\\065\"", "\"\\999\"", "\"\\x41\"", "\"\\", "\"unterminated", "'\\'",
	"\"\\0\"", "\"\\00\"", "\"\\0001\"", "'\\z'", "\"\r\"",
	"[[", "]]", "[=[", "]=]", "[==[", "]==]", "[[x]]", "[=[x]=]", "[==[ ]] ]=] ]==]", "[[\n\n]]", "[=", "[==", "[=x",
	"--", "--x\n", "--[[", "--[[x]]", "--[==[x]==]", "--[= x\n", "--[", "--[=[", "--]]", "--[[ ]=] ]]",
	" ", "  ", "\t", "\n", "\r", "\r\n", "\n\r", "\f", "\v", "\x00", "\x7f", "\x80", "\xff", "\xc3\xa9", "\xef\xbb\xbf", "#!",
}

func genTokenSoup(t *rapid.T) []byte {
	n := rapid.IntRange(0, 40).Draw(t, "ntok")
	var b bytes.Buffer
	for i := 0; i < n; i++ {
		k := rapid.IntRange(0, len(tokenAlphabet)+3).Draw(t, "tok")
		switch {
		case k < len(tokenAlphabet):
			b.WriteString(tokenAlphabet[k])
		case k == len(tokenAlphabet):
			b.WriteByte(rapid.Byte().Draw(t, "byte"))
		default:
			b.WriteString(statementSnippets[rapid.IntRange(0, len(statementSnippets)-1).Draw(t, "snip")])
		}
		if rapid.IntRange(0, 3).Draw(t, "sep") > 0 {
			b.WriteByte(' ')
		}
	}
	return b.Bytes()
}

var statementSnippets = []string{
	"local a = 1", "a = a + 1", "f(a, b)", "return a", "if a then b = 1 end", "while a do break end", "repeat until a",
	"for i = 1, 10 do end", "for k, v in pairs(t) do end", "function f(a, ...) return ... end", "local function g() end",
	"t = {1, 2, x = 3, [4] = 5; 6}", "goto l1", "::l1::", "do local x <const> = 1 end", "a.b.c = d[e][f]", "a:b(c):d{e}'f'",
	"x = function() return function() return x end end", "a, b, c = f()", "local a, b = ...", "x = a and b or c", "x = not -#a",
	"x = a .. b .. c", "x = 2 ^ 3 ^ 4", "x = (f())", "f{...}", "f'str'", "f[[long]]", "return", "break", "a.b:c()", "(a).b = 1",
	"(f)()", "a = 1;", ";", "x = {f()}", "x = {...}", "x = a < b == c", "for i = 1, 2, 3 do local i = i end",
	"f()\n(g)()", "a = b\n(c)()", "x = 1 = 2", "f() = 1", "local function a.b() end", "function a:b:c() end", "x = {,}",
	"return return", "local = 1", "a.1 = 2", "for do end", "if then end", "else", "end", "until", "x = #", "x = ..", "x = a b",
}

func TestLoadTokens(t *testing.T) {
	vf.Rapid(t, func(rt *rapid.T) {
		src := genTokenSoup(rt)
		chkLoad.Run(rt, &LoadCase{Src: src, Text: string(src), Kind: "tokens"})
	})
}

func TestLoadBytes(t *testing.T) {
	vf.Rapid(t, func(rt *rapid.T) {
		src := rapid.SliceOfN(rapid.Byte(), 0, 64).Draw(rt, "bytes")
		chkLoad.Run(rt, &LoadCase{Src: src, Text: string(src), Kind: "bytes"})
	})
}

var corpus [][]byte
var corpusNames []string

func loadCorpus() {
	if corpus != nil {
		return
	}
	for _, sub := range []string{"repo", "own"} {
		for _, f := range gl.CorpusFiles(sub) {
			b, err := os.ReadFile(f)
			if err == nil {
				corpus = append(corpus, b)
				corpusNames = append(corpusNames, f)
			}
		}
	}
	for _, s := range statementSnippets {
		corpus = append(corpus, []byte(s))
		corpusNames = append(corpusNames, "snippet")
	}
}

// mutate applies token/byte level mutations to a valid program.
func mutate(t *rapid.T, src []byte) []byte {
	out := append([]byte(nil), src...)
	nm := rapid.IntRange(1, 4).Draw(t, "nmut")
	for i := 0; i < nm; i++ {
		if len(out) == 0 {
			out = append(out, ' ')
		}
		pos := rapid.IntRange(0, len(out)-1).Draw(t, "pos")
		switch rapid.IntRange(0, 7).Draw(t, "mut") {
		case 0: // flip byte
			out[pos] = rapid.Byte().Draw(t, "b")
		case 1: // delete span
			n := rapid.IntRange(1, 12).Draw(t, "n")
			end := pos + n
			if end > len(out) {
				end = len(out)
			}
			out = append(out[:pos], out[end:]...)
		case 2: // duplicate span
			n := rapid.IntRange(1, 20).Draw(t, "n")
			end := pos + n
			if end > len(out) {
				end = len(out)
			}
			seg := append([]byte(nil), out[pos:end]...)
			out = append(out[:end], append(seg, out[end:]...)...)
		case 3: // insert token
			tok := tokenAlphabet[rapid.IntRange(0, len(tokenAlphabet)-1).Draw(t, "tok")]
			out = append(out[:pos], append([]byte(" "+tok+" "), out[pos:]...)...)
		case 4: // truncate
			out = out[:pos]
		case 5: // swap two spans
			pos2 := rapid.IntRange(0, len(out)-1).Draw(t, "pos2")
			out[pos], out[pos2] = out[pos2], out[pos]
		case 6: // newline style
			out = bytes.ReplaceAll(out, []byte("\n"), []byte([]string{"\r", "\r\n", "\n\r"}[rapid.IntRange(0, 2).Draw(t, "nl")]))
		case 7: // splice another program's tail
			other := corpus[rapid.IntRange(0, len(corpus)-1).Draw(t, "other")]
			if len(other) > 0 {
				p2 := rapid.IntRange(0, len(other)-1).Draw(t, "p2")
				e2 := p2 + 200
				if e2 > len(other) {
					e2 = len(other)
				}
				out = append(out[:pos], other[p2:e2]...)
			}
		}
	}
	return out
}

func TestLoadMutations(t *testing.T) {
	loadCorpus()
	vf.Rapid(t, func(rt *rapid.T) {
		i := rapid.IntRange(0, len(corpus)-1).Draw(rt, "file")
		src := corpus[i]
		// work on a window so that one case stays cheap
		if len(src) > 1500 {
			off := rapid.IntRange(0, len(src)-1500).Draw(rt, "off")
			// start at a line boundary to keep most of the window valid
			for off > 0 && src[off-1] != '\n' {
				off--
			}
			src = src[off : off+1500]
		}
		m := mutate(rt, src)
		chkLoad.Run(rt, &LoadCase{Src: m, Text: string(m), Kind: "mutation"})
	})
}

// TestLoadTruncations loads every prefix of every corpus program (quick: every prefix of the short ones and a
// stride over the long ones).
func TestLoadTruncations(t *testing.T) {
	loadCorpus()
	si, sn := vf.Shard()
	n := 0
	for fi, src := range corpus {
		if len(src) > 8000 {
			src = src[:8000]
		}
		stride := 1
		if !vf.Thorough() && len(src) > 400 {
			stride = 7 + int(vf.Seed()%5)
		}
		for cut := 0; cut <= len(src); cut += stride {
			n++
			if n%sn != si {
				continue
			}
			_ = fi
			chkLoad.Run(t, &LoadCase{Src: src[:cut], Kind: "truncation"})
		}
	}
	chkLoad.Note("truncation_stride_quick", "every prefix of programs <= 400 bytes; stride 7..11 for longer ones; thorough: every prefix up to 8000 bytes")
}

// FuzzLoad is the coverage-guided campaign (thorough tier only).
func FuzzLoad(f *testing.F) {
	loadCorpus()
	for _, s := range tokenAlphabet {
		f.Add([]byte(s))
	}
	for _, s := range statementSnippets {
		f.Add([]byte(s))
	}
	for _, c := range corpus {
		if len(c) < 3000 {
			f.Add(c)
		}
	}
	f.Fuzz(func(t *testing.T, src []byte) {
		if len(src) > 1<<14 {
			return
		}
		chkLoad.Run(t, &LoadCase{Src: src, Text: string(src), Kind: "fuzz"})
	})
}

// ---------------------------------------------------------------------------------------------
// goto/label-heavy token soups (the front-end's label bookkeeping)

var gotoAlphabet = []string{"goto l1", "goto l2", "goto l3", "::l1::", "::l2::", "::l3::", "local a", "local b = 1", "local c, d", "do", "end", "end",
	"while x do", "repeat", "until x", "until a", "if x then", "else", "elseif y then", "break", "return", "for i = 1, 2 do", "for k in f do",
	"local function f()", "function g()", "print(a)", "x = function() goto l1 end", ";", "a = b"}

func TestLoadGotoSoup(t *testing.T) {
	vf.Rapid(t, func(rt *rapid.T) {
		n := rapid.IntRange(1, 24).Draw(rt, "ntok")
		var b bytes.Buffer
		for i := 0; i < n; i++ {
			b.WriteString(gotoAlphabet[rapid.IntRange(0, len(gotoAlphabet)-1).Draw(rt, "tok")])
			b.WriteString([]string{" ", "\n", " ", "\n  "}[rapid.IntRange(0, 3).Draw(rt, "sep")])
		}
		src := b.Bytes()
		chkLoad.Run(rt, &LoadCase{Src: src, Text: string(src), Kind: "goto_soup"})
	})
}

// TestLoadRepeated loads inputs with several independent errors many times: the outcome may depend on nothing but the bytes.
func TestLoadRepeated(t *testing.T) {
	vf.Rapid(t, func(rt *rapid.T) {
		n := rapid.IntRange(2, 16).Draw(rt, "ntok")
		var b bytes.Buffer
		for i := 0; i < n; i++ {
			b.WriteString(gotoAlphabet[rapid.IntRange(0, len(gotoAlphabet)-1).Draw(rt, "tok")])
			b.WriteString("\n")
		}
		chkRepeat.Run(rt, &LoadCase{Src: b.Bytes(), Text: b.String(), Kind: "repeated"})
	})
}

var chkRepeat = vf.Register("load_repeatable", func(k *vf.C, c *LoadCase) error {
	src := string(c.Src)
	first, err := loadOnce(src)
	if err != nil {
		return err
	}
	for i := 0; i < 40; i++ {
		o, err := loadOnce(src)
		if err != nil {
			return err
		}
		if o != first {
			return fmt.Errorf("load %d of the same bytes gave a different outcome: %q vs %q", i+2, brief(first), brief(o))
		}
	}
	k.Class("outcome:" + first.class)
	if !first.ok {
		k.Nontrivial(vf.Hash(src))
	}
	return nil
})

// ---------------------------------------------------------------------------------------------
// layouts: the meaning of a valid program does not depend on comments, blank space, line ends, optional semicolons and
// redundant parentheses; every rendering is accepted

type LayoutCase struct {
	Srcs    []string `json:"renderings"`
	Profile string   `json:"profile"`
}

func stripLines(p *lua.FunctionProto) string { return gl.DumpProto(p, false) }

var chkLayout = vf.Register("layout_invariance", func(k *vf.C, c *LayoutCase) error {
	var dumps []string
	for i, src := range c.Srcs {
		o, err := loadOnce(src)
		if err != nil {
			return fmt.Errorf("rendering %d: %v", i, err)
		}
		if !o.ok {
			return fmt.Errorf("rendering %d of a valid program was rejected: %s", i, o.err)
		}
		fn, _ := sharedState.LoadString(src)
		dumps = append(dumps, stripLines(fn.Proto))
	}
	same := true
	for i := 1; i < len(dumps); i++ {
		if dumps[i] != dumps[0] {
			same = false
		}
	}
	if same {
		k.Class("identical_bytecode")
	} else {
		// redundant parentheses and literal spellings may legitimately change the generated code; the meaning may not:
		// run the renderings and compare what they do
		k.Class("bytecode_differs_traces_compared")
		r := e1.RunRef(c.Srcs[0], nil)
		if r.ParseErr != nil || r.Unspecified != "" {
			k.Discard("reference: unspecified or over budget")
			return nil
		}
		var t0 string
		for i, src := range c.Srcs {
			g := e1.RunGopher(src, e1.BudgetFor(r))
			if g.Panic != "" || g.Overrun != "" {
				k.Discard("run does not finish cleanly (subject of C01/C05)")
				return nil
			}
			// line numbers in messages legitimately differ between layouts
			t := lineRe.ReplaceAllString(strings.Join(e1.GTraceStrings(g.Trace), "\n")+fmt.Sprintf("\nfailed=%v", g.Failed), "<string>:N:")
			t = addrRe.ReplaceAllString(t, "$1: ADDR")
			if i == 0 {
				t0 = t
			} else if t != t0 {
				return fmt.Errorf("renderings 0 and %d of one program behave differently", i)
			}
		}
	}
	k.Class("profile:" + c.Profile)
	if len(c.Srcs) >= 3 {
		k.Nontrivial(vf.Hash(c.Srcs...))
		k.Sample("layouts", 1, map[string]any{"renderings": []string{clip(c.Srcs[0], 400), clip(c.Srcs[len(c.Srcs)-1], 600)}})
	}
	return nil
})

var lineRe = regexp.MustCompile(`<string>:\d+:`)
var addrRe = regexp.MustCompile(`(table|userdata|function|thread|channel): 0x[0-9a-f]+`)

func TestLayouts(t *testing.T) {
	profiles := lgen.AllProfiles()
	vf.Rapid(t, func(rt *rapid.T) {
		p := profiles[rapid.IntRange(0, len(profiles)-1).Draw(rt, "profile")]
		g := lgen.New(rt, p)
		b := g.Program()
		c := &LayoutCase{Profile: p.Name}
		c.Srcs = append(c.Srcs, lgen.Print(b, &lgen.Layout{}))
		c.Srcs = append(c.Srcs, lgen.Print(b, &lgen.Layout{Ch: g, Wild: true, Semis: true, CRLF: rapid.IntRange(0, 3).Draw(rt, "crlf")}))
		c.Srcs = append(c.Srcs, lgen.Print(b, &lgen.Layout{Ch: g, Wild: true, Spell: true, Semis: true, Parens: true, HostileComments: true, CRLF: rapid.IntRange(0, 3).Draw(rt, "crlf2")}))
		chkLayout.Run(rt, c)
	})
}

// ---------------------------------------------------------------------------------------------
// every text the grammar accepts is accepted: an independent recogniser (verif/luaref's parser) decides validity of
// mutated programs

var chkValid = vf.Register("valid_accepted", func(k *vf.C, c *LoadCase) error {
	src := string(c.Src)
	main, perr := luaref.Parse(src)
	o, err := loadOnce(src)
	if err != nil {
		return err
	}
	if perr != nil {
		k.Class("recogniser:rejects")
		return nil
	}
	info := main.Info
	if info.HasGoto || info.MaxLocals > 150 || info.MaxUpvals > 50 || info.MaxDepth > 150 || len(src) > 20000 {
		k.Class("recogniser:accepts_but_near_a_limit_or_goto")
		return nil
	}
	k.Class("recogniser:accepts")
	if !o.ok {
		return fmt.Errorf("a text the Lua 5.1 grammar accepts was rejected: %s", o.err)
	}
	k.Nontrivial(vf.Hash(src))
	k.Sample("valid", 2, map[string]any{"text": clip(src, 300)})
	return nil
})

func TestValidAccepted(t *testing.T) {
	loadCorpus()
	vf.Rapid(t, func(rt *rapid.T) {
		var src []byte
		if rapid.Bool().Draw(rt, "fromcorpus") {
			i := rapid.IntRange(0, len(corpus)-1).Draw(rt, "file")
			src = corpus[i]
			if len(src) > 1200 {
				off := rapid.IntRange(0, len(src)-1200).Draw(rt, "off")
				for off > 0 && src[off-1] != '\n' {
					off--
				}
				src = src[off : off+1200]
				if j := bytes.LastIndexByte(src, '\n'); j > 0 {
					src = src[:j]
				}
			}
			src = mutate(rt, src)
		} else {
			src = genTokenSoup(rt)
		}
		chkValid.Run(rt, &LoadCase{Src: src, Text: string(src), Kind: "validity"})
	})
}

// well-nested programs with locals, labels and gotos at random places (valid and invalid uses): the front-end's label
// resolution must end in a function or a syntax error for each of them
func genGotoBlock(rt *rapid.T, b *strings.Builder, depth int) {
	n := rapid.IntRange(0, 5).Draw(rt, "nstmts")
	for i := 0; i < n; i++ {
		lbl := []string{"l1", "l2", "l3"}[rapid.IntRange(0, 2).Draw(rt, "label")]
		k := rapid.IntRange(0, 13).Draw(rt, "stmt")
		if depth <= 0 && k >= 6 && k <= 11 {
			k = 0
		}
		switch k {
		case 0, 1:
			b.WriteString("local " + []string{"a", "b", "c"}[rapid.IntRange(0, 2).Draw(rt, "name")] + " = 1\n")
		case 2, 3:
			b.WriteString("goto " + lbl + "\n")
		case 4, 5:
			b.WriteString("::" + lbl + "::\n")
		case 6:
			b.WriteString("do\n")
			genGotoBlock(rt, b, depth-1)
			b.WriteString("end\n")
		case 7:
			b.WriteString("while x do\n")
			genGotoBlock(rt, b, depth-1)
			b.WriteString("end\n")
		case 8:
			b.WriteString("repeat\n")
			genGotoBlock(rt, b, depth-1)
			b.WriteString("until " + []string{"x", "a", "b"}[rapid.IntRange(0, 2).Draw(rt, "cond")] + "\n")
		case 9:
			b.WriteString("if x then\n")
			genGotoBlock(rt, b, depth-1)
			if rapid.Bool().Draw(rt, "else") {
				b.WriteString("else\n")
				genGotoBlock(rt, b, depth-1)
			}
			b.WriteString("end\n")
		case 10:
			b.WriteString("for i = 1, 2 do\n")
			genGotoBlock(rt, b, depth-1)
			b.WriteString("end\n")
		case 11:
			b.WriteString("local function f()\n")
			genGotoBlock(rt, b, depth-1)
			b.WriteString("end\n")
		case 12:
			b.WriteString("print(a, b)\n")
		default:
			b.WriteString("x = function() return a end\n")
		}
	}
}

func TestLoadGotoPrograms(t *testing.T) {
	vf.Rapid(t, func(rt *rapid.T) {
		var b strings.Builder
		genGotoBlock(rt, &b, 3)
		chkRepeat.Run(rt, &LoadCase{Src: []byte(b.String()), Text: b.String(), Kind: "goto_program"})
	})
}

// ---------------------------------------------------------------------------------------------
// control-flow skeletons: every statement kind with empty or tiny bodies in every position, including loops that never
// end (loading them must still end) - the shapes on which jump threading, label resolution and block exits work

func genSkeleton(rt *rapid.T, depth int, inLoop bool, labels *int) string {
	var b strings.Builder
	n := rapid.IntRange(0, 3).Draw(rt, "nstmts")
	for i := 0; i < n; i++ {
		cond := rapid.SampledFrom([]string{"c", "true", "false", "nil", "not c", "c and d", "c or d", "1", "x == 1"}).Draw(rt, "cond")
		kind := rapid.IntRange(0, 13).Draw(rt, "kind")
		if depth <= 0 && kind < 9 {
			kind = 9 + kind%5
		}
		switch kind {
		case 0:
			fmt.Fprintf(&b, "if %s then %s end ", cond, genSkeleton(rt, depth-1, inLoop, labels))
		case 1:
			fmt.Fprintf(&b, "if %s then %s else %s end ", cond, genSkeleton(rt, depth-1, inLoop, labels), genSkeleton(rt, depth-1, inLoop, labels))
		case 2:
			fmt.Fprintf(&b, "if %s then %s elseif d then %s end ", cond, genSkeleton(rt, depth-1, inLoop, labels), genSkeleton(rt, depth-1, inLoop, labels))
		case 3:
			fmt.Fprintf(&b, "while %s do %s end ", cond, genSkeleton(rt, depth-1, true, labels))
		case 4:
			fmt.Fprintf(&b, "repeat %s until %s ", genSkeleton(rt, depth-1, true, labels), cond)
		case 5:
			fmt.Fprintf(&b, "for i = 1, 2 do %s end ", genSkeleton(rt, depth-1, true, labels))
		case 6:
			fmt.Fprintf(&b, "for k, v in next, t do %s end ", genSkeleton(rt, depth-1, true, labels))
		case 7:
			fmt.Fprintf(&b, "do %s end ", genSkeleton(rt, depth-1, inLoop, labels))
		case 8:
			*labels++
			l := *labels
			if rapid.Bool().Draw(rt, "backward") {
				fmt.Fprintf(&b, "::l%d:: %s goto l%d ", l, genSkeleton(rt, depth-1, inLoop, labels), l)
			} else {
				fmt.Fprintf(&b, "do goto l%d %s ::l%d:: end ", l, genSkeleton(rt, depth-1, inLoop, labels), l)
			}
		case 9:
			b.WriteString("f() ")
		case 10:
			b.WriteString("x = 1 ")
		case 11:
			if inLoop {
				b.WriteString("do break end ")
			} else {
				b.WriteString("local y = c ")
			}
		case 12:
			b.WriteString("do return end ")
		default:
			b.WriteString("local g = function() return x end ")
		}
	}
	return b.String()
}

func TestLoadSkeletons(t *testing.T) {
	vf.Rapid(t, func(rt *rapid.T) {
		labels := 0
		src := "local c, d, x, t, f = ...\n" + genSkeleton(rt, rapid.IntRange(1, 4).Draw(rt, "depth"), false, &labels)
		if rapid.IntRange(0, 3).Draw(rt, "infunction") == 0 {
			src = "local c, d, x, t, f = ...\nreturn function() " + genSkeleton(rt, 3, false, &labels) + " end"
		}
		chkLoad.Run(rt, &LoadCase{Src: []byte(src), Text: src, Kind: "skeleton"})
	})
}

// ---------------------------------------------------------------------------------------------
// glued tokens: where the lexer's longest-match rule keeps two tokens apart, blank space between them is irrelevant

type GlueCase struct {
	Tokens []string `json:"tokens"`
}

var glueOperands = []string{"0xe", "0xE", "0xfe", "0XFE", "0x1e", "0xee", "0Xe", "14", "1e5", "1E5", "1e+5", "1e-5", "2.", "0.5", ".5", "3.0e2", "0xa", "0xf", "7", "0",
	"x", "e", "E", "xe", "e1", "\"s\"", "'e'", "[[e]]", "nil", "true", "{}", "#t", "t.e", "t[1]", "f(1)"}
var glueOps = []string{"+", "-", "*", "/", "%", "^", "==", "~=", "<", "<=", ">", ">=", "..", "and", "or"}

var chkGlue = vf.Register("glued_tokens", func(k *vf.C, c *GlueCase) error {
	render := func(sep func(a, b string) string) string {
		var b strings.Builder
		b.WriteString("local x, e, E, xe, e1, t, f = 1, 2, 3, 4, 5, {e = 6, 7}, function(a) return a end\nreturn ")
		for i, tk := range c.Tokens {
			if i > 0 {
				b.WriteString(sep(c.Tokens[i-1], tk))
			}
			b.WriteString(tk)
		}
		return b.String()
	}
	spaced := render(func(a, b string) string { return " " })
	glued := render(func(a, b string) string {
		if lgen.NeedsSpace(a, b) {
			return " "
		}
		return ""
	})
	newlines := render(func(a, b string) string { return "\n --x\n\t" })
	run := func(src string) (string, error) {
		o, err := loadOnce(src)
		if err != nil {
			return "", err
		}
		if !o.ok {
			return "rejected", nil
		}
		L := lua.NewState()
		defer L.Close()
		if err := L.DoString(src); err != nil {
			return "runtime error", nil
		}
		return strings.Join(e1.GTraceStrings([]e1.GEvent{{Kind: "value", Vals: []lua.LValue{L.Get(-1)}}}), ""), nil
	}
	a, err := run(spaced)
	if err != nil {
		return err
	}
	for name, src := range map[string]string{"glued": glued, "broken over lines": newlines} {
		b, err := run(src)
		if err != nil {
			return err
		}
		if a != b {
			return fmt.Errorf("%q gives %s, the same tokens %s (%q) give %s", spaced, a, name, src, b)
		}
	}
	k.Class("outcome:" + map[bool]string{true: "value", false: a}[strings.HasPrefix(a, "value")])
	if glued != spaced {
		k.Nontrivial(vf.Hash(glued))
		k.Sample("glued", 2, map[string]any{"spaced": spaced, "glued": glued, "outcome": a})
	}
	return nil
})

func TestLoadGlued(t *testing.T) {
	vf.Rapid(t, func(rt *rapid.T) {
		c := &GlueCase{}
		n := rapid.IntRange(2, 5).Draw(rt, "operands")
		for i := 0; i < n; i++ {
			if i > 0 {
				c.Tokens = append(c.Tokens, rapid.SampledFrom(glueOps).Draw(rt, "op"))
			}
			if rapid.IntRange(0, 5).Draw(rt, "unary") == 0 {
				c.Tokens = append(c.Tokens, rapid.SampledFrom([]string{"-", "not", "#"}).Draw(rt, "unop"))
			}
			if rapid.IntRange(0, 6).Draw(rt, "paren") == 0 {
				c.Tokens = append(c.Tokens, "(", rapid.SampledFrom(glueOperands).Draw(rt, "operand"), ")")
			} else {
				c.Tokens = append(c.Tokens, rapid.SampledFrom(glueOperands).Draw(rt, "operand"))
			}
		}
		chkGlue.Run(rt, c)
	})
}

// ---------------------------------------------------------------------------------------------
// two-byte line ends at every offset around the scanner's buffer size: a leading comment of every length from
// 4096-len(program) to 4100 moves each CR LF (and LF CR) pair of a small program across the 4096-byte boundary

type BoundaryCase struct {
	Pad  int    `json:"comment_length"`
	Ends string `json:"line_ends"`
}

const boundaryProgram = "local a = [[p\nq\n\nr]]\nlocal b = 'r\\\ns'\n--[==[ c\nd ]==]\nlocal c = \"x\\\n\\\ny\" -- e\nlocal l = debug and debug.getinfo(1, 'l').currentline or 0\nreturn a .. '|' .. b .. '|' .. c .. '|' .. l\n"

var chkBoundary = vf.Register("line_ends_across_buffer_boundary", func(k *vf.C, c *BoundaryCase) error {
	src := "--" + strings.Repeat("x", c.Pad) + "\n" + boundaryProgram
	want := "p\nq\n\nr|r\ns|x\n\ny|13"
	text := strings.ReplaceAll(src, "\n", c.Ends)
	for name, load := range map[string]func(L *lua.LState) (*lua.LFunction, error){
		"LoadString": func(L *lua.LState) (*lua.LFunction, error) { return L.LoadString(text) },
		"Load, one byte at a time": func(L *lua.LState) (*lua.LFunction, error) {
			return L.Load(iotest.OneByteReader(strings.NewReader(text)), "<string>")
		},
		"Load, portions of 4095": func(L *lua.LState) (*lua.LFunction, error) { return L.Load(&chunkReader{s: text, n: 4095}, "<string>") },
	} {
		L := lua.NewState()
		fn, err := load(L)
		if err != nil {
			L.Close()
			return fmt.Errorf("%s, comment of %d bytes, line ends %q: rejected: %v", name, c.Pad, c.Ends, err)
		}
		L.Push(fn)
		if err := L.PCall(0, 1, nil); err != nil {
			L.Close()
			return fmt.Errorf("%s, comment of %d bytes, line ends %q: %v", name, c.Pad, c.Ends, err)
		}
		got := L.Get(-1).String()
		L.Close()
		if got != want {
			return fmt.Errorf("%s, comment of %d bytes, line ends %q: the program returns %q, with LF line ends %q", name, c.Pad, c.Ends, got, want)
		}
	}
	k.Class("line_ends:" + strconv.Quote(c.Ends))
	k.Nontrivial(vf.Hash(fmt.Sprint(*c)))
	if c.Pad%50 == 0 {
		k.Sample("boundary", 1, c)
	}
	return nil
})

func TestLoadBufferBoundaries(t *testing.T) {
	si, sn := vf.Shard()
	i := 0
	for _, ends := range []string{"\r\n", "\n\r", "\n", "\r"} {
		for _, base := range []int{4096, 8192} {
			for pad := base - len(boundaryProgram) - 12; pad <= base+4; pad++ {
				i++
				if i%sn != si {
					continue
				}
				chkBoundary.Run(t, &BoundaryCase{Pad: pad, Ends: ends})
			}
		}
	}
	chkBoundary.SetExhaustive(true)
}
