for i, v in ipairs({"hoge", {}, function() end, true, nil}) do
  local ok, msg = pcall(function()
    print(-v)
  end)
  assert(not ok and string.find(msg, "__unm undefined"))
end

assert(#"abc" == 3)
local tbl = {1,2,3}
setmetatable(tbl, {__len = function(self)
  return 10
end})
assert(#tbl == 10)

setmetatable(tbl, nil)
assert(#tbl == 3)

local ok, msg = pcall(function()
  return 1 < "hoge"
end)
assert(not ok and string.find(msg, "attempt to compare number with string"))

local ok, msg = pcall(function()
  return {} < (function() end)
end)
assert(not ok and string.find(msg, "attempt to compare table with function"))

local ok, msg = pcall(function()
  for n = nil,1 do
    print(1)
  end
end)
assert(not ok and string.find(msg, "for statement init must be a number"))

local ok, msg = pcall(function()
  for n = 1,nil do
    print(1)
  end
end)
assert(not ok and string.find(msg, "for statement limit must be a number"))

local ok, msg = pcall(function()
  for n = 1,10,nil do
    print(1)
  end
end)
assert(not ok and string.find(msg, "for statement step must be a number"))

local ok, msg = pcall(function()
  return {} + (function() end)
end)
assert(not ok and string.find(msg, "cannot perform add operation between table and function"))

local ok, msg = pcall(function()
  return {} .. (function() end)
end)
assert(not ok and string.find(msg, "cannot perform concat operation between table and function"))

-- test table with initial elements over 511
local bigtable = {1,1,1,1,1,1,1,1,1,1,1,1,1,1,1,1,1,1,1,1,1,1,1,1,1,1,1,1,
                  1,1,1,1,1,1,1,1,1,1,1,1,1,1,1,1,1,1,1,1,1,1,1,1,1,1,1,1,
                  1,1,1,1,1,1,1,1,1,1,1,1,1,1,1,1,1,1,1,1,1,1,1,1,1,1,1,1,
                  1,1,1,1,1,1,1,1,1,1,1,1,1,1,1,1,1,1,1,1,1,1,1,1,1,1,1,1,
                  1,1,1,1,1,1,1,1,1,1,1,1,1,1,1,1,1,1,1,1,1,1,1,1,1,1,1,1,
                  1,1,1,1,1,1,1,1,1,1,1,1,1,1,1,1,1,1,1,1,1,1,1,1,1,1,1,1,
                  1,1,1,1,1,1,1,1,1,1,1,1,1,1,1,1,1,1,1,1,1,1,1,1,1,1,1,1,
                  1,1,1,1,1,1,1,1,1,1,1,1,1,1,1,1,1,1,1,1,1,1,1,1,1,1,1,1,
                  1,1,1,1,1,1,1,1,1,1,1,1,1,1,1,1,1,1,1,1,1,1,1,1,1,1,1,1,
                  1,1,1,1,1,1,1,1,1,1,1,1,1,1,1,1,1,1,1,1,1,1,1,1,1,1,1,1,
                  1,1,1,1,1,1,1,1,1,1,1,1,1,1,1,1,1,1,1,1,1,1,1,1,1,1,1,1,
                  1,1,1,1,1,1,1,1,1,1,1,1,1,1,1,1,1,1,1,1,1,1,1,1,1,1,1,1,
                  1,1,1,1,1,1,1,1,1,1,1,1,1,1,1,1,1,1,1,1,1,1,1,1,1,1,1,1,
                  1,1,1,1,1,1,1,1,1,1,1,1,1,1,1,1,1,1,1,1,1,1,1,1,1,1,1,1,
                  1,1,1,1,1,1,1,1,1,1,1,1,1,1,1,1,1,1,1,1,1,1,1,1,1,1,1,1,
                  1,1,1,1,1,1,1,1,1,1,1,1,1,1,1,1,1,1,1,1,1,1,1,1,1,1,1,1,
                  1,1,1,1,1,1,1,1,1,1,1,1,1,1,1,1,1,1,1,1,1,1,1,1,1,1,1,1,
                  1,1,1,1,1,1,1,1,1,1,1,1,1,1,1,1,1,1,1,1,1,1,1,1,1,1,1,1,
                  1,1,1,1,1,1,1,1,1,1,1,1,1,1,1,1,1,1,1,1,1,1,1,1,1,1,1,1,
                  1,1,1,1,1,1,1,1,1,1,1,1,1,1,1,1,1,1,1,1,1,1,1,1,1,1,1,1,
                  1,1,1,1,1,1,1,1,1,1,1,1,1,1,1,1,1,1,1,1,1,1,1,1,1,1,1,1,
                  1,1,1,1,1,1,1,1,1,1,1,1,10}
assert(bigtable[601] == 10)

local ok, msg = loadstring([[
  function main(
     a1,  a2,  a3,  a4,  a5,  a6,  a7,  a8,
     a9,  a10,  a11,  a12,  a13,  a14,  a15,  a16,
     a17,  a18,  a19,  a20,  a21,  a22,  a23,  a24,
     a25,  a26,  a27,  a28,  a29,  a30,  a31,  a32,
     a33,  a34,  a35,  a36,  a37,  a38,  a39,  a40,
     a41,  a42,  a43,  a44,  a45,  a46,  a47,  a48,
     a49,  a50,  a51,  a52,  a53,  a54,  a55,  a56,
     a57,  a58,  a59,  a60,  a61,  a62,  a63,  a64,
     a65,  a66,  a67,  a68,  a69,  a70,  a71,  a72,
     a73,  a74,  a75,  a76,  a77,  a78,  a79,  a80,
     a81,  a82,  a83,  a84,  a85,  a86,  a87,  a88,
     a89,  a90,  a91,  a92,  a93,  a94,  a95,  a96,
     a97,  a98,  a99,  a100,  a101,  a102,  a103,
     a104,  a105,  a106,  a107,  a108,  a109,  a110,
     a111,  a112,  a113,  a114,  a115,  a116,  a117,
     a118,  a119,  a120,  a121,  a122,  a123,  a124,
     a125,  a126,  a127,  a128,  a129,  a130,  a131,
     a132,  a133,  a134,  a135,  a136,  a137,  a138,
     a139,  a140,  a141,  a142,  a143,  a144,  a145,
     a146,  a147,  a148,  a149,  a150,  a151,  a152,
     a153,  a154,  a155,  a156,  a157,  a158,  a159,
     a160,  a161,  a162,  a163,  a164,  a165,  a166,
     a167,  a168,  a169,  a170,  a171,  a172,  a173,
     a174,  a175,  a176,  a177,  a178,  a179,  a180,
     a181,  a182,  a183,  a184,  a185,  a186,  a187,
     a188,  a189,  a190,  a191,  a192,  a193,  a194,
     a195,  a196,  a197,  a198,  a199,  a200,  a201,
     a202,  a203,  a204,  a205,  a206,  a207,  a208,
     a209,  a210,  a211,  a212,  a213,  a214,  a215,
     a216,  a217,  a218,  a219,  a220,  a221,  a222,
     a223,  a224,  a225,  a226,  a227,  a228,  a229,
     a230,  a231,  a232,  a233,  a234,  a235,  a236,
     a237,  a238,  a239,  a240,  a241,  a242,  a243,
     a244,  a245,  a246,  a247,  a248,  a249,  a250,
     a251,  a252,  a253,  a254,  a255,  a256,  a257,
     a258,  a259,  a260,  a261,  a262,  a263,  a264,
     a265,  a266,  a267,  a268,  a269,  a270,  a271,
     a272,  a273,  a274,  a275,  a276,  a277,  a278,
     a279,  a280,  a281,  a282,  a283,  a284,  a285,
     a286,  a287,  a288,  a289,  a290,  a291,  a292,
     a293,  a294,  a295,  a296,  a297,  a298,  a299,
     a300,  a301,  a302) end
]]) 
assert(not ok and string.find(msg, "register overflow"))

local ok, msg = loadstring([[
   function main()
     local a = {...}
   end
]])
assert(not ok and string.find(msg, "cannot use '...' outside a vararg function"))
