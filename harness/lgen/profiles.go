package lgen

// Core is the profile of C01: the deterministic core language.
func Core() *Profile {
	return &Profile{Name: "core", MaxStmts: 22, MaxDepth: 4, Wild: 12, WildOpen: 4, Stress: 5}
}

// AllProfiles lists every profile (used by checks that want any program the generator can produce).
func AllProfiles() []*Profile {
	return []*Profile{Core(), Calls(), Closures(), Meta(), Errors(), Coroutines(), Lines()}
}
