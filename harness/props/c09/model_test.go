package c09

import (
	"encoding/json"
	"math"
	"sort"
	"strconv"
)

// ---------------------------------------------------------------------------------------------
// serialisable values (keys and values of the tables under test)

// Val is a Lua value as it appears in a case: nil, number, string, boolean, or an object of the fixed pool
// (tables incl. the tables under test, a Lua function, a Go function, a userdata) compared by identity.
type Val struct {
	T string  // nil | num | str | bool | obj
	f float64 // number
	S string
	B bool
	I int // index into the object pool
}

// valJSON is the wire form: the number travels as text (strconv 'g') so that NaN, +Inf and -0 survive JSON.
type valJSON struct {
	T string `json:"t"`
	N string `json:"n,omitempty"`
	S string `json:"s,omitempty"`
	B bool   `json:"b,omitempty"`
	I int    `json:"i,omitempty"`
}

func (v Val) MarshalJSON() ([]byte, error) {
	j := valJSON{T: v.T, S: v.S, B: v.B, I: v.I}
	if v.T == "num" {
		j.N = strconv.FormatFloat(v.f, 'g', -1, 64)
	}
	return json.Marshal(j)
}

func (v *Val) UnmarshalJSON(b []byte) error {
	var j valJSON
	if err := json.Unmarshal(b, &j); err != nil {
		return err
	}
	*v = Val{T: j.T, S: j.S, B: j.B, I: j.I}
	if j.T == "num" {
		f, err := strconv.ParseFloat(j.N, 64)
		if err != nil {
			return err
		}
		v.f = f
	}
	return nil
}

var vNil = Val{T: "nil"}

func vNum(f float64) Val  { return Val{T: "num", f: f} }
func vStr(s string) Val   { return Val{T: "str", S: s} }
func vBool(b bool) Val    { return Val{T: "bool", B: b} }
func vObj(i int) Val      { return Val{T: "obj", I: i} }
func (v Val) IsNil() bool { return v.T == "nil" || v.T == "" }
func (v Val) F() float64  { return v.f }
func (v Val) IsNaN() bool { return v.T == "num" && math.IsNaN(v.F()) }

// integral reports whether v is a number with an integer value that fits an int exactly.
func (v Val) integral() (int, bool) {
	if v.T != "num" {
		return 0, false
	}
	f := v.F()
	if f != math.Trunc(f) || math.IsInf(f, 0) || math.Abs(f) > 9007199254740992 {
		return 0, false
	}
	return int(f), true
}

// String is for messages only.
func (v Val) String() string {
	switch v.T {
	case "num":
		return strconv.FormatFloat(v.f, 'g', -1, 64)
	case "str":
		return strconv.Quote(v.S)
	case "bool":
		return strconv.FormatBool(v.B)
	case "obj":
		return "obj#" + strconv.Itoa(v.I)
	}
	return "nil"
}

// mkey is the model's notion of key equality: numbers by value (so 1 and 1.0, 0 and -0 are one key), strings by
// content, booleans by value, objects by identity; a string is never equal to a number.
type mkey struct {
	t byte
	n float64
	s string
	i int
}

// key returns the model key of v; ok is false for nil and NaN, which are not keys.
func (v Val) key() (mkey, bool) {
	switch v.T {
	case "num":
		f := v.F()
		if math.IsNaN(f) {
			return mkey{}, false
		}
		if f == 0 {
			f = 0 // -0 and +0 are the same key
		}
		return mkey{t: 'n', n: f}, true
	case "str":
		return mkey{t: 's', s: v.S}, true
	case "bool":
		if v.B {
			return mkey{t: 'b', i: 1}, true
		}
		return mkey{t: 'b'}, true
	case "obj":
		return mkey{t: 'o', i: v.I}, true
	}
	return mkey{}, false
}

func intKey(n int) mkey { return mkey{t: 'n', n: float64(n)} }

func lessKey(a, b mkey) bool {
	if a.t != b.t {
		return a.t < b.t
	}
	if a.n != b.n {
		return a.n < b.n
	}
	if a.s != b.s {
		return a.s < b.s
	}
	return a.i < b.i
}

// arrayGuardMax: positive integer keys above this and below 2^26 are never stored (a store at 6e7 nil-fills 1 GiB).
const arrayGuardMax = 6000
const arrayGuardHard = 8000
const maxArrayIndex = 67108864

// guarded reports whether the generator must not store under k (memory guard).
func guarded(k Val) bool {
	if n, ok := k.integral(); ok {
		return n > arrayGuardMax && n < maxArrayIndex
	}
	return false
}

// guardedHard is the oracle's limit: appends may walk a little beyond arrayGuardMax, nothing reaches arrayGuardHard.
func guardedHard(k Val) bool {
	if n, ok := k.integral(); ok {
		return n > arrayGuardHard && n < maxArrayIndex
	}
	return false
}

// hashPartKey reports whether k is a key the hash-part accessors (RawSetH/RawGetH) may be used with: any key that is
// not a positive integer below MaxArrayIndex (those live in the array part), not nil, not NaN.
func hashPartKey(k Val) bool {
	if _, ok := k.key(); !ok {
		return false
	}
	if k.T == "num" {
		f := k.F()
		if f == math.Trunc(f) && f > 0 && f < maxArrayIndex {
			return false
		}
	}
	return true
}

// ---------------------------------------------------------------------------------------------
// the model: a finite map

type tmodel struct {
	cur     map[mkey]Val // present keys
	spec    map[mkey]Val // the key as a Val, for every key ever touched
	touched []mkey       // first-touch order (deterministic iteration)
}

func newModel() *tmodel { return &tmodel{cur: map[mkey]Val{}, spec: map[mkey]Val{}} }

func (m *tmodel) touch(k Val) (mkey, bool) {
	mk, ok := k.key()
	if !ok {
		return mk, false
	}
	if _, seen := m.spec[mk]; !seen {
		if k.T == "num" && k.F() == 0 {
			k = vNum(0)
		}
		m.spec[mk] = k
		m.touched = append(m.touched, mk)
	}
	return mk, true
}

func (m *tmodel) get(mk mkey) (Val, bool) {
	v, ok := m.cur[mk]
	return v, ok
}

func (m *tmodel) has(mk mkey) bool { _, ok := m.cur[mk]; return ok }

func (m *tmodel) set(k Val, v Val) {
	mk, ok := m.touch(k)
	if !ok {
		return
	}
	if v.IsNil() {
		delete(m.cur, mk)
	} else {
		m.cur[mk] = v
	}
}

// present returns the present keys in canonical order.
func (m *tmodel) present() []mkey {
	out := make([]mkey, 0, len(m.cur))
	for _, mk := range m.touched {
		if _, ok := m.cur[mk]; ok {
			out = append(out, mk)
		}
	}
	sort.Slice(out, func(i, j int) bool { return lessKey(out[i], out[j]) })
	return out
}

// absent returns touched keys that are currently not present, canonical order.
func (m *tmodel) absent() []mkey {
	var out []mkey
	for _, mk := range m.touched {
		if _, ok := m.cur[mk]; !ok {
			out = append(out, mk)
		}
	}
	sort.Slice(out, func(i, j int) bool { return lessKey(out[i], out[j]) })
	return out
}

// isBorder is the manual's definition: t[n] ~= nil and t[n+1] == nil, or n == 0 when t[1] == nil.
func (m *tmodel) isBorder(n int) bool {
	if n < 0 {
		return false
	}
	if n > 0 && !m.has(intKey(n)) {
		return false
	}
	return !m.has(intKey(n + 1))
}

func (m *tmodel) borders() []int {
	var out []int
	if m.isBorder(0) {
		out = append(out, 0)
	}
	for _, mk := range m.touched {
		if mk.t == 'n' && mk.n >= 1 && mk.n == math.Trunc(mk.n) && mk.n < 1e15 && m.isBorder(int(mk.n)) {
			out = append(out, int(mk.n))
		}
	}
	sort.Ints(out)
	return out
}

// seqLen is what ipairs must visit: 1..seqLen.
func (m *tmodel) seqLen() int {
	n := 0
	for m.has(intKey(n + 1)) {
		n++
	}
	return n
}

func (m *tmodel) clone() *tmodel {
	c := newModel()
	for k, v := range m.cur {
		c.cur[k] = v
	}
	for k, v := range m.spec {
		c.spec[k] = v
	}
	c.touched = append([]mkey(nil), m.touched...)
	return c
}
