#!/usr/bin/env python3
"""Seeded-defect bookkeeping (development tool, not part of any registered check).

  tools_seeded.py add <mutdir> <id> <property> <checks>   verify a candidate (patch.diff, demo_test.go, README.md) in a
        scratch worktree of /repo HEAD (demo passes without the patch; patch applies, builds, the repository's tests
        pass, the demo fails), store it as /verif/seeded/<id>/ with the patch re-diffed against HEAD, run the named
        checks (quick tier) against the patched worktree and record the outcome in meta.json
  tools_seeded.py run <id>|all [checks]                   re-run the recorded (or given) checks against stored changes
  tools_seeded.py matrix                                  write /verif/seeded/MATRIX.md from the meta.json files

Nothing is ever applied to /repo itself: every run uses its own worktree under /tmp, removed afterwards.
"""
import json, os, re, shutil, subprocess, sys, glob

ENV = dict(os.environ, GOFLAGS='-mod=mod', GOPROXY='off', GOSUMDB='off', GOTOOLCHAIN='local')
SEEDED = '/verif/seeded'


def sh(cmd, cwd=None, env=ENV, timeout=3600):
    p = subprocess.run(cmd, shell=True, cwd=cwd, env=env, stdout=subprocess.PIPE, stderr=subprocess.STDOUT, text=True, timeout=timeout)
    return p.returncode, p.stdout


def head():
    return sh('git -C /repo rev-parse --short HEAD')[1].strip()


class Worktree:
    def __init__(self):
        self.path = '/tmp/seeded-wt-%d' % os.getpid()

    def __enter__(self):
        rc, out = sh('git -C /repo worktree add -q --detach %s HEAD' % self.path)
        if rc != 0:
            raise SystemExit('worktree: ' + out)
        return self.path

    def __exit__(self, *a):
        sh('git -C /repo worktree remove --force %s' % self.path)


def demo(wt, demofile):
    shutil.copy(demofile, wt + '/zz_seeded_demo_test.go')
    names = re.findall(r'^func (Test\w+)\(', open(demofile).read(), re.M)
    pat = '^(' + '|'.join(names) + ')$' if names else 'Test(Demo|Mut|M[0-9])'
    rc, out = sh("go test -vet=off -count=1 -run '%s' . 2>&1 | tail -1" % pat, cwd=wt)
    os.remove(wt + '/zz_seeded_demo_test.go')
    return out.strip()


def run_checks(wt, checks, jobs):
    res = []
    for c in checks:
        seed = os.environ.get('SEEDED_SEED', '1')
        rc, out = sh('VERIF_SEED=%s VERIF_REPO=%s ./check %s --jobs %s' % (seed, wt, c, jobs), cwd='/verif', timeout=7200)
        viol = len(re.findall(r'^VIOLATION', out, re.M))
        reasons = [l.strip()[:300] for l in out.splitlines() if re.search(r'check .* failed:', l)][:2]
        summary = [l for l in out.splitlines() if l.startswith('[C')]
        res.append({'check': c, 'tier': 'quick', 'seed': int(seed), 'exit': rc, 'violations': viol, 'caught': rc == 1 and viol > 0,
                    'first_reasons': reasons, 'summary': summary[-1] if summary else ''})
    return res


def section(readme, *titles):
    """the text of the first README section whose heading contains one of the titles"""
    lines = readme.splitlines()
    for i, l in enumerate(lines):
        if (l.startswith('#') or l.startswith('**')) and any(t.lower() in l.lower() for t in titles):
            out = []
            rest = re.sub(r'^\W*(%s)[^:*]*[:*]*\s*' % '|'.join(titles), '', l, flags=re.I).strip('* ')
            if rest:
                out.append(rest)
            for m in lines[i + 1:]:
                if m.startswith('#') or (m.startswith('**') and len(out) > 0):
                    break
                out.append(m)
            return '\n'.join(out).strip()
    return ''


def add(mutdir, sid, prop, checks):
    jobs = os.environ.get('SEEDED_JOBS', '8')
    dst = '%s/%s' % (SEEDED, sid)
    os.makedirs(dst, exist_ok=True)
    readme = open(mutdir + '/README.md').read() if os.path.exists(mutdir + '/README.md') else ''
    meta = {'id': sid, 'property': prop, 'origin': 'written by a sub-agent that saw only the property text and a scratch worktree',
            'repo_head': head()}
    with Worktree() as wt:
        meta['demo_without_patch'] = demo(wt, mutdir + '/demo_test.go')
        rc, out = sh('git apply %s/patch.diff' % mutdir, cwd=wt)
        if rc != 0:
            rc, out = sh('git apply -3 %s/patch.diff' % mutdir, cwd=wt)
            meta['apply'] = 'three-way' if rc == 0 else 'FAILED: ' + out[-300:]
            if rc != 0:
                print(json.dumps(meta, indent=1))
                return 2
        else:
            meta['apply'] = 'clean'
        rc, out = sh('go build ./...', cwd=wt)
        meta['build'] = 'ok' if rc == 0 else out[-300:]
        rc, out = sh('go test -vet=off -count=1 ./... 2>&1 | tail -3', cwd=wt)
        if 'ok  \tgithub.com/yuin/gopher-lua\t' not in out:
            # the suite's 40 MB heap watchdog and a wall-clock os.date test are flaky when the machine is loaded: once more
            rc, out = sh('go test -vet=off -count=1 ./... 2>&1 | tail -3', cwd=wt)
        meta['repository_tests_with_patch'] = [l for l in out.splitlines() if 'gopher-lua\t' in l or l.startswith('FAIL') or l.startswith('ok')][-1:] or [out[-200:]]
        meta['demo_with_patch'] = demo(wt, mutdir + '/demo_test.go')
        rc, diff = sh('git diff', cwd=wt)
        open(dst + '/patch.diff', 'w').write(diff)
        meta['files_touched'] = re.findall(r'^diff --git a/(\S+)', diff, re.M)
        meta['checks_run'] = run_checks(wt, checks, jobs)
    shutil.copy(mutdir + '/demo_test.go', dst + '/demo_test.go')
    if readme:
        open(dst + '/README.md', 'w').write(readme)
    first = readme.splitlines()[0].lstrip('# ').strip() if readme else ''
    meta['what'] = first
    meta['needs_to_manifest'] = section(readme, 'what is needed', 'what it needs', 'condition needed', 'needed to manifest', 'needs') or 'see README.md'
    meta['commands'] = ['git -C /repo apply /verif/seeded/%s/patch.diff' % sid,
                        "cp /verif/seeded/%s/demo_test.go /repo/zz_demo_test.go && (cd /repo && go test -vet=off -count=1 -run 'Test(Demo|Mut|M[0-9])' .)  # fails with the patch" % sid,
                        'cd /verif && ./check %s' % ' '.join(checks), 'rm /repo/zz_demo_test.go; git -C /repo checkout -- .']
    meta['kept'] = (meta['build'] == 'ok' and meta['demo_without_patch'].startswith('ok') and 'FAIL' in meta['demo_with_patch']
                    and any(l.startswith('ok') for l in meta['repository_tests_with_patch']))
    json.dump(meta, open(dst + '/meta.json', 'w'), indent=1)
    print(sid, 'kept=%s' % meta['kept'], 'apply=%s' % meta['apply'], 'demo: %s -> %s' % (meta['demo_without_patch'][:12], meta['demo_with_patch'][:12]),
          ' '.join('%s:%s(%d)' % (r['check'], 'CAUGHT' if r['caught'] else 'missed', r['violations']) for r in meta['checks_run']))
    return 0


def rerun(sid, checks=None):
    jobs = os.environ.get('SEEDED_JOBS', '8')
    ids = sorted(os.path.basename(os.path.dirname(p)) for p in glob.glob(SEEDED + '/*/meta.json')) if sid == 'all' else [sid]
    for i in ids:
        mp = '%s/%s/meta.json' % (SEEDED, i)
        meta = json.load(open(mp))
        cs = checks or sorted(set(r['check'] for r in meta['checks_run']))
        if os.environ.get('SEEDED_OWN'):
            cs = [meta['property']]
        with Worktree() as wt:
            rc, out = sh('git apply %s/%s/patch.diff' % (SEEDED, i), cwd=wt)
            if rc != 0:
                print(i, 'patch does not apply to HEAD any more:', out[-200:])
                continue
            res = run_checks(wt, cs, jobs)
        old = {(r['check'], r.get('seed', 1)): r for r in meta['checks_run']}
        for r in res:
            old[(r['check'], r.get('seed', 1))] = r
        meta['checks_run'] = [old[k] for k in sorted(old)]
        meta['repo_head'] = head()
        json.dump(meta, open(mp, 'w'), indent=1)
        print(i, ' '.join('%s:%s(%d)' % (r['check'], 'CAUGHT' if r['caught'] else 'missed', r['violations']) for r in res), flush=True)


def matrix():
    rows = []
    for p in sorted(glob.glob(SEEDED + '/*/meta.json')):
        m = json.load(open(p))
        rows.append('| %s | %s | %s | %s | %s |' % (m['id'], m['property'], m['what'].replace('|', '/')[:110], ', '.join(m['files_touched'])[:60],
                    ', '.join('%s%s: %s' % (r['check'], '' if r.get('seed', 1) == 1 else ' seed %d' % r['seed'], 'caught (%d)' % r['violations'] if r['caught'] else 'MISSED') for r in m['checks_run'])))
    txt = '# Seeded changes and the checks that catch them\n\nEvery row: a change that compiles, passes the repository\'s own tests and breaks the named property (demonstration in the directory). Quick tier, VERIF_SEED=1, run against a scratch worktree with the patch applied.\n\n| id | property | change | files | result |\n|---|---|---|---|---|\n' + '\n'.join(rows) + '\n'
    open(SEEDED + '/MATRIX.md', 'w').write(txt)
    d = open('/verif/DESIGN.md').read()
    if '<!-- SEEDED-BEGIN -->' in d:
        a, b = d.index('<!-- SEEDED-BEGIN -->'), d.index('<!-- SEEDED-END -->')
        body = '| id | property | change | result |\n|---|---|---|---|\n' + '\n'.join('| %s | %s | %s | %s |' % tuple(r.split(' | ')[i].strip('| ') for i in (0, 1, 2, 4)) for r in rows)
        d = d[:a] + '<!-- SEEDED-BEGIN -->\n' + body + '\n' + d[b:]
        open('/verif/DESIGN.md', 'w').write(d)
    print(txt)


if __name__ == '__main__':
    a = sys.argv[1:]
    if a[:1] == ['add']:
        sys.exit(add(a[1], a[2], a[3], a[4].split(',')))
    elif a[:1] == ['run']:
        rerun(a[1], a[2].split(',') if len(a) > 2 else None)
    elif a[:1] == ['matrix']:
        matrix()
    else:
        print(__doc__)
