// Package c04: metamethods are selected and applied by the Lua 5.1 rules.
package c04

import (
	"testing"

	"pgregory.net/rapid"

	"verif/dcheck"
	"verif/e1"
	"verif/lgen"
	"verif/vf"
)

func TestMain(m *testing.M)   { vf.Main(m) }
func TestReplay(t *testing.T) { vf.Replay(t) }

// non-trivial: >= 3 handler invocations of >= 2 distinct events in the reference run
var chkMeta = vf.Register("metamethods", dcheck.Oracle(func(c *dcheck.ProgCase, r *e1.ROutcome) (bool, string) {
	n := 0
	for _, v := range r.In.Stat.MetaCalls {
		n += v
	}
	return n >= 3 && len(r.In.Stat.MetaCalls) >= 2, ""
}))

func init() { chkMeta.Journal = true }

func TestMetamethods(t *testing.T) {
	vf.Rapid(t, func(rt *rapid.T) { chkMeta.Run(rt, dcheck.Gen(rt, lgen.Meta())) })
}
