// Package c03: closures keep their captured variables on every exit path; globals follow fenv.
package c03

import (
	"sort"
	"strings"
	"testing"

	"pgregory.net/rapid"

	"verif/dcheck"
	"verif/e1"
	"verif/lgen"
	"verif/vf"
)

func TestMain(m *testing.M)   { vf.Main(m) }
func TestReplay(t *testing.T) { vf.Replay(t) }

// non-trivial: the program contains a closure-exit template (capture kind x exit kind) or a fenv template, and the
// saved closures were invoked (calls happened after the scope ended); distinct by signature set + source
var chkClosures = vf.Register("closure_exits", dcheck.Oracle(func(c *dcheck.ProgCase, r *e1.ROutcome) (bool, string) {
	var sigs []string
	for k := range c.Classes {
		if strings.HasPrefix(k, "closure:") || k == "fenv" {
			sigs = append(sigs, k)
		}
	}
	sort.Strings(sigs)
	return len(sigs) > 0 && r.In.Stat.Calls >= 4 && dcheck.Values(r) >= 4, strings.Join(sigs, ",")
}))

func init() { chkClosures.Journal = true }

func TestClosureExits(t *testing.T) {
	vf.Rapid(t, func(rt *rapid.T) { chkClosures.Run(rt, dcheck.Gen(rt, lgen.Closures())) })
}
