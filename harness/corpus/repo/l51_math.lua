print("testing numbers and math lib")

do
  local a,b,c = "2", " 3e0 ", " 10  "
  assert(a+b == 5 and -b == -3 and b+"2" == 5 and "10"-c == 0)
  assert(type(a) == 'string' and type(b) == 'string' and type(c) == 'string')
  assert(a == "2" and b == " 3e0 " and c == " 10  " and -c == -"  10 ")
  assert(c%a == 0 and a^b == 8)
end


do
  local a,b = math.modf(3.5)
  assert(a == 3 and b == 0.5)
  assert(math.huge > 10e30)
  assert(-math.huge < -10e30)
end

function f(...)
  if select('#', ...) == 1 then
    return (...)
  else
    return "***"
  end
end

assert(tonumber{} == nil)
assert(tonumber'+0.01' == 1/100 and tonumber'+.01' == 0.01 and
       tonumber'.01' == 0.01    and tonumber'-1.' == -1 and
       tonumber'+1.' == 1)
assert(tonumber'+ 0.01' == nil and tonumber'+.e1' == nil and
       tonumber'1e' == nil     and tonumber'1.0e+' == nil and
       tonumber'.' == nil)
assert(tonumber('-12') == -10-2)
assert(tonumber('-1.2e2') == - - -120)
assert(f(tonumber('1  a')) == nil)
assert(f(tonumber('e1')) == nil)
assert(f(tonumber('e  1')) == nil)
assert(f(tonumber(' 3.4.5 ')) == nil)
assert(f(tonumber('')) == nil)
assert(f(tonumber('', 8)) == nil)
assert(f(tonumber('  ')) == nil)
assert(f(tonumber('  ', 9)) == nil)
assert(f(tonumber('99', 8)) == nil)
assert(tonumber('  1010  ', 2) == 10)
assert(tonumber('10', 36) == 36)
assert(tonumber('\n  -10  \n', 36) == -36)
assert(tonumber('-fFfa', 16) == -(10+(16*(15+(16*(15+(16*15)))))))
assert(tonumber('fFfa', 15) == nil)
assert(tonumber(string.rep('1', 42), 2) + 1 == 2^42)
assert(tonumber(string.rep('1', 32), 2) + 1 == 2^32)
assert(tonumber('-fffffFFFFF', 16)-1 == -2^40)
assert(tonumber('ffffFFFF', 16)+1 == 2^32)
assert(tonumber('0xF') == 15)

assert(1.1 == 1.+.1)
print(100.0, 1E2, .01)
assert(100.0 == 1E2 and .01 == 1e-2)
assert(1111111111111111-1111111111111110== 1000.00e-03)
--     1234567890123456
assert(1.1 == '1.'+'.1')
assert('1111111111111111'-'1111111111111110' == tonumber"  +0.001e+3 \n\t")

function eq (a,b,limit)
  if not limit then limit = 10E-10 end
  return math.abs(a-b) <= limit
end

assert(0.1e-30 > 0.9E-31 and 0.9E30 < 0.1e31)

assert(0.123456 > 0.123455)

assert(tonumber('+1.23E30') == 1.23*10^30)

-- testing order operators
assert(not(1<1) and (1<2) and not(2<1))
assert(not('a'<'a') and ('a'<'b') and not('b'<'a'))
assert((1<=1) and (1<=2) and not(2<=1))
assert(('a'<='a') and ('a'<='b') and not('b'<='a'))
assert(not(1>1) and not(1>2) and (2>1))
assert(not('a'>'a') and not('a'>'b') and ('b'>'a'))
assert((1>=1) and not(1>=2) and (2>=1))
assert(('a'>='a') and not('a'>='b') and ('b'>='a'))

-- testing mod operator
assert(-4%3 == 2)
assert(4%-3 == -2)
assert(math.pi - math.pi % 1 == 3)
assert(math.pi - math.pi % 0.001 == 3.141)

local function testbit(a, n)
  return a/2^n % 2 >= 1
end

assert(eq(math.sin(-9.8)^2 + math.cos(-9.8)^2, 1))
assert(eq(math.tan(math.pi/4), 1))
assert(eq(math.sin(math.pi/2), 1) and eq(math.cos(math.pi/2), 0))
assert(eq(math.atan(1), math.pi/4) and eq(math.acos(0), math.pi/2) and
       eq(math.asin(1), math.pi/2))
assert(eq(math.deg(math.pi/2), 90) and eq(math.rad(90), math.pi/2))
assert(math.abs(-10) == 10)
assert(eq(math.atan2(1,0), math.pi/2))
assert(math.ceil(4.5) == 5.0)
assert(math.floor(4.5) == 4.0)
assert(math.mod(10,3) == 1)
assert(eq(math.sqrt(10)^2, 10))
assert(eq(math.log10(2), math.log(2)/math.log(10)))
assert(eq(math.exp(0), 1))
assert(eq(math.sin(10), math.sin(10%(2*math.pi))))
local v,e = math.frexp(math.pi)
assert(eq(math.ldexp(v,e), math.pi))

assert(eq(math.tanh(3.5), math.sinh(3.5)/math.cosh(3.5)))

assert(tonumber(' 1.3e-2 ') == 1.3e-2)
assert(tonumber(' -1.00000000000001 ') == -1.00000000000001)

-- testing constant limits
-- 2^23 = 8388608
assert(8388609 + -8388609 == 0)
assert(8388608 + -8388608 == 0)
assert(8388607 + -8388607 == 0)

if rawget(_G, "_soft") then return end

f = io.tmpfile()
assert(f)
f:write("a = {")
i = 1
repeat
  f:write("{", math.sin(i), ", ", math.cos(i), ", ", i/3, "},\n")
  i=i+1
until i > 1000
f:write("}")
f:seek("set", 0)
assert(loadstring(f:read('*a')))()
assert(f:close())

assert(eq(a[300][1], math.sin(300)))
assert(eq(a[600][1], math.sin(600)))
assert(eq(a[500][2], math.cos(500)))
assert(eq(a[800][2], math.cos(800)))
assert(eq(a[200][3], 200/3))
assert(eq(a[1000][3], 1000/3, 0.001))
print('+')

do   -- testing NaN
  local NaN = 10e500 - 10e400
  assert(NaN ~= NaN)
  assert(not (NaN < NaN))
  assert(not (NaN <= NaN))
  assert(not (NaN > NaN))
  assert(not (NaN >= NaN))
  assert(not (0 < NaN))
  assert(not (NaN < 0))
  local a = {}
  assert(not pcall(function () a[NaN] = 1 end))
  assert(a[NaN] == nil)
  a[1] = 1
  assert(not pcall(function () a[NaN] = 1 end))
  assert(a[NaN] == nil)
end

require "checktable"
stat(a)

a = nil

-- testing implicit convertions

local a,b = '10', '20'
assert(a*b == 200 and a+b == 30 and a-b == -10 and a/b == 0.5 and -b == -20)
assert(a == '10' and b == '20')


math.randomseed(0)

local i = 0
local Max = 0
local Min = 2
repeat
  local t = math.random()
  Max = math.max(Max, t)
  Min = math.min(Min, t)
  i=i+1
  flag = eq(Max, 1, 0.001) and eq(Min, 0, 0.001)
until flag or i>10000
assert(0 <= Min and Max<1)
assert(flag);

for i=1,10 do
  local t = math.random(5)
  assert(1 <= t and t <= 5)
end

i = 0
Max = -200
Min = 200
repeat
  local t = math.random(-10,0)
  Max = math.max(Max, t)
  Min = math.min(Min, t)
  i=i+1
  flag = (Max == 0 and Min == -10)
until flag or i>10000
assert(-10 <= Min and Max<=0)
assert(flag);


print('OK')
