local function errmsg (code, m)
  local st, msg = loadstring(code)
  assert(not st and string.find(msg, m))
end

-- cannot see label inside block
errmsg([[ goto l1; do ::l1:: end ]], "label 'l1'")
errmsg([[ do ::l1:: end goto l1; ]], "label 'l1'")

-- repeated label
errmsg([[ ::l1:: ::l1:: ]], "label 'l1'")


-- undefined label
errmsg([[ goto l1; local aa ::l1:: ::l2:: print(3) ]], "local 'aa'")

-- jumping over variable definition
errmsg([[
do local bb, cc; goto l1; end
local aa
::l1:: print(3)
]], "local 'aa'")

-- jumping into a block
errmsg([[ do ::l1:: end goto l1 ]], "label 'l1'")
errmsg([[ goto l1 do ::l1:: end ]], "label 'l1'")

-- cannot continue a repeat-until with variables
errmsg([[
  repeat
    if x then goto cont end
    local xuxu = 10
    ::cont::
  until xuxu < x
]], "local 'xuxu'")

-- simple gotos
local x
do
  local y = 12
  goto l1
  ::l2:: x = x + 1; goto l3
  ::l1:: x = y; goto l2
end
::l3:: ::l3_1:: assert(x == 13)


-- long labels
do
  local prog = [[
  do
    local a = 1
    goto l%sa; a = a + 1
   ::l%sa:: a = a + 10
    goto l%sb; a = a + 2
   ::l%sb:: a = a + 20
    return a
  end
  ]]
  local label = string.rep("0123456789", 40)
  prog = string.format(prog, label, label, label, label)
  assert(assert(loadstring(prog))() == 31)
end

-- goto to correct label when nested
do goto l3; ::l3:: end   -- does not loop jumping to previous label 'l3'

-- ok to jump over local dec. to end of block
do
  goto l1
  local a = 23
  x = a
  ::l1::;
end

while true do
  goto l4
  goto l1  -- ok to jump over local dec. to end of block
  goto l1  -- multiple uses of same label
  local x = 45
  ::l1:: ;;;
end
::l4:: assert(x == 13)

if print then
  goto l1   -- ok to jump over local dec. to end of block
  error("should not be here")
  goto l2   -- ok to jump over local dec. to end of block
  local x
  ::l1:: ; ::l2:: ;;
else end

-- to repeat a label in a different function is OK
local function foo ()
  local a = {}
  goto l3
  ::l1:: a[#a + 1] = 1; goto l2;
  ::l2:: a[#a + 1] = 2; goto l5;
  ::l3::
  ::l3a:: a[#a + 1] = 3; goto l1;
  ::l4:: a[#a + 1] = 4; goto l6;
  ::l5:: a[#a + 1] = 5; goto l4;
  ::l6:: assert(a[1] == 3 and a[2] == 1 and a[3] == 2 and
              a[4] == 5 and a[5] == 4)
  if not a[6] then a[6] = true; goto l3a end   -- do it twice
end

::l6:: foo()



--------------------------------------------------------------------------------
-- testing closing of upvalues

local function foo ()
  local a = {}
  do
  local i = 1
  local k = 0
  a[0] = function (y) k = y end
  ::l1:: do
    local x
    if i > 2 then goto l2 end
    a[i] = function (y) if y then x = y else return x + k end end
    i = i + 1
    goto l1
  end
  end
  ::l2:: return a
end

local a = foo()
a[1](10); a[2](20)
assert(a[1]() == 10 and a[2]() == 20 and a[3] == nil)
a[0](13)
assert(a[1]() == 23 and a[2]() == 33)

--------------------------------------------------------------------------------
-- testing if x goto optimizations

local function testG (a)
  if a == 1 then
    goto l1
    error("should never be here!")
  elseif a == 2 then goto l2
  elseif a == 3 then goto l3
  elseif a == 4 then
    goto l1  -- go to inside the block
    error("should never be here!")
    ::l1:: a = a + 1   -- must go to 'if' end
  else
    goto l4
    ::l4a:: a = a * 2; goto l4b
    error("should never be here!")
    ::l4:: goto l4a
    error("should never be here!")
    ::l4b::
  end
  do return a end
  ::l2:: do return "2" end
  ::l3:: do return "3" end
  ::l1:: return "1"
end

assert(testG(1) == "1")
assert(testG(2) == "2")
assert(testG(3) == "3")
assert(testG(4) == 5)
assert(testG(5) == 10)
--------------------------------------------------------------------------------


print'OK'
