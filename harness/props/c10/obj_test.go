package c10

import (
	"fmt"
	"math"
	"sort"
	"strconv"
	"strings"
	"testing"

	lua "github.com/yuin/gopher-lua"
	"pgregory.net/rapid"

	"verif/vf"
)

// ---------------------------------------------------------------------------------------------
// (iii) object-level operations: Go API vs the corresponding Lua expression in the same state
//
// The operand zoo is built twice from one specification (copy A is handed to the Go API, copy B to a Lua
// function evaluating the corresponding expression), because several operations and handlers have side effects.
// Results, the sequence of handler invocations and the raw contents of every zoo table afterwards are compared
// through canonical names (obj3, mt1, h2, ...), never through addresses.

const FindingObjLenUserdata = "C10-OBJLEN-NOLEN"

// noExclusions is set by TestKnownFindings only: the recorded examples are then run as they are.
var noExclusions bool

type OVal struct {
	K string  `json:"k"`           // nil true false num nan inf ninf str obj mt h G
	F float64 `json:"f,omitempty"` // num
	S string  `json:"s,omitempty"` // str
	I int     `json:"i,omitempty"` // obj / mt / h: index into the zoo
}

type HandlerSpec struct {
	Impl string `json:"impl"`          // lua | go
	Act  string `json:"act"`           // const arg rawget rawset error errtab none multi
	N    int    `json:"n,omitempty"`   // arg: which argument is returned (1-based)
	Ret  OVal   `json:"ret,omitempty"` // const / multi: the value returned
}

type MetaEntry struct {
	Event string `json:"event"`
	V     OVal   `json:"v"`
}

type MetaSpec struct {
	Entries []MetaEntry `json:"entries"`
}

type Field struct {
	K OVal `json:"k"`
	V OVal `json:"v"`
}

type ObjSpec struct {
	Kind   string  `json:"kind"` // table | userdata
	Fields []Field `json:"fields,omitempty"`
	Meta   int     `json:"meta"` // index into Metas, -1: none
}

type ZooSpec struct {
	Handlers []HandlerSpec `json:"handlers"`
	Metas    []MetaSpec    `json:"metas"`
	Objs     []ObjSpec     `json:"objs"`
}

type ObjOp struct {
	Op   string `json:"op"`
	A    OVal   `json:"a"`
	B    OVal   `json:"b"`
	C    OVal   `json:"c"`
	Name string `json:"name,omitempty"` // field / global name
	GM   int    `json:"gm,omitempty"`   // global ops: 1+index of the metatable _G carries during the op (0: none)
	GPre *OVal  `json:"gpre,omitempty"` // global ops: raw value of the global before the op (absent: nil)
}

type ObjCase struct {
	Reg    RegCfg  `json:"reg"`
	Depth0 bool    `json:"depth0,omitempty"`
	Top    TopSpec `json:"top"`
	Chain  []Frame `json:"chain"`
	NArgs  int     `json:"nargs"`
	Junk   int     `json:"junk"` // values on the calling function's own list while the operations run
	Zoo    ZooSpec `json:"zoo"`
	Ops    []ObjOp `json:"ops"`
}

var fieldNames = []string{"x", "y", "len", "__index", "1", "", "a b", "10"}
var globalNames = []string{"gx", "gy", "gz"}

// zoo is one materialised copy of the specification.
type zoo struct {
	tag      string
	L        *lua.LState
	spec     *ZooSpec
	objs     []lua.LValue
	metas    []*lua.LTable
	handlers []*lua.LFunction
	errTab   *lua.LTable
	log      []string
	names    map[lua.LValue]string
	byName   map[string]lua.LValue
	addrs    map[string]string
	shared   *sharedNames
}

// sharedNames: values that are not part of a zoo but can show up in results (library functions, _G, the string metatable).
type sharedNames struct {
	names map[lua.LValue]string
}

func newSharedNames(L *lua.LState) *sharedNames {
	s := &sharedNames{names: map[lua.LValue]string{}}
	g := L.Get(lua.GlobalsIndex).(*lua.LTable)
	s.names[g] = "_G"
	if st, ok := g.RawGetString("string").(*lua.LTable); ok {
		s.names[st] = "string"
		st.ForEach(func(k, v lua.LValue) {
			if f, ok := v.(*lua.LFunction); ok {
				s.names[f] = "string." + k.String()
			}
		})
	}
	if mt, ok := L.GetMetatable(lua.LString("")).(*lua.LTable); ok {
		if _, dup := s.names[mt]; !dup {
			s.names[mt] = "strmt"
		}
	}
	return s
}

func numName(f float64) string {
	switch {
	case math.IsNaN(f):
		return "num:nan"
	case f == 0 && math.Signbit(f):
		return "num:0" // -0 == 0 in Lua; nothing here distinguishes them
	}
	return "num:" + strconv.FormatFloat(f, 'g', -1, 64)
}

func (z *zoo) name(v lua.LValue) string {
	if v == nil {
		return "<Go nil>"
	}
	switch x := v.(type) {
	case *lua.LNilType:
		return "nil"
	case lua.LBool:
		return fmt.Sprintf("bool:%v", bool(x))
	case lua.LNumber:
		return numName(float64(x))
	case lua.LString:
		if n, ok := z.addrs[string(x)]; ok {
			return "addrof(" + n + ")"
		}
		return fmt.Sprintf("str:%q", string(x))
	}
	if n, ok := z.names[v]; ok {
		return n
	}
	if n, ok := z.shared.names[v]; ok {
		return n
	}
	return "unknown-" + v.Type().String()
}

func (z *zoo) names_(vs []lua.LValue) string {
	parts := make([]string, len(vs))
	for i, v := range vs {
		parts[i] = z.name(v)
	}
	return strings.Join(parts, ",")
}

func (z *zoo) val(o OVal) lua.LValue {
	switch o.K {
	case "true":
		return lua.LTrue
	case "false":
		return lua.LFalse
	case "num":
		return lua.LNumber(o.F)
	case "nan":
		return lua.LNumber(math.NaN())
	case "inf":
		return lua.LNumber(math.Inf(1))
	case "ninf":
		return lua.LNumber(math.Inf(-1))
	case "str":
		return lua.LString(o.S)
	case "obj":
		if len(z.objs) > 0 {
			return z.objs[mod(o.I, len(z.objs))]
		}
	case "mt":
		if len(z.metas) > 0 {
			return z.metas[mod(o.I, len(z.metas))]
		}
	case "h":
		if len(z.handlers) > 0 {
			return z.handlers[mod(o.I, len(z.handlers))]
		}
	case "G":
		return z.L.Get(lua.GlobalsIndex)
	}
	return lua.LNil
}

func mod(i, n int) int {
	i %= n
	if i < 0 {
		i += n
	}
	return i
}

const luaHandlerTemplate = `local log, R, E, rawget, rawset, error, type = ...
return function(...)
  log(...)
  local a, b, c = ...
  %s
end
`

func luaHandlerBody(h HandlerSpec, id int) string {
	switch h.Act {
	case "const":
		return "return R"
	case "multi":
		return "return R, \"extra\""
	case "arg":
		return "return " + []string{"a", "b", "c"}[mod(h.N-1, 3)]
	case "rawget":
		return "if type(a) == \"table\" then return rawget(a, b) end\n  return nil"
	case "rawset":
		return "if type(a) == \"table\" and b ~= nil and b == b then rawset(a, b, c) end"
	case "error":
		return fmt.Sprintf("error(\"herr%d\")", id)
	case "errtab":
		return "error(E)"
	}
	return "return"
}

func buildZoo(L *lua.LState, spec *ZooSpec, tag string, shared *sharedNames) (*zoo, error) {
	z := &zoo{tag: tag, L: L, spec: spec, names: map[lua.LValue]string{}, byName: map[string]lua.LValue{}, addrs: map[string]string{},
		shared: shared}
	z.errTab = L.NewTable()
	z.names[z.errTab] = "E"
	z.byName["_G"] = L.Get(lua.GlobalsIndex)
	for i, o := range spec.Objs {
		var v lua.LValue
		if o.Kind == "userdata" {
			v = L.NewUserData()
		} else {
			v = L.NewTable()
		}
		z.objs = append(z.objs, v)
		z.names[v] = fmt.Sprintf("obj%d", i)
		z.byName[fmt.Sprintf("obj%d", i)] = v
		z.addrs[v.String()] = fmt.Sprintf("obj%d", i)
	}
	for i := range spec.Metas {
		mt := L.NewTable()
		z.metas = append(z.metas, mt)
		z.names[mt] = fmt.Sprintf("mt%d", i)
		z.byName[fmt.Sprintf("mt%d", i)] = mt
		z.addrs[mt.String()] = fmt.Sprintf("mt%d", i)
	}
	logFn := func(id int) *lua.LFunction {
		return L.NewFunction(func(L *lua.LState) int {
			z.log = append(z.log, fmt.Sprintf("h%d(%s)", id, z.names_(stackValues(L, 1))))
			return 0
		})
	}
	// handlers are created before their constants can refer to other handlers: constants of kind "h" resolve to
	// handlers with a smaller index only (others become nil)
	for i, h := range spec.Handlers {
		i, h := i, h
		var fn *lua.LFunction
		ret := lua.LValue(lua.LNil)
		if h.Ret.K == "h" {
			if len(z.handlers) > 0 {
				ret = z.handlers[mod(h.Ret.I, len(z.handlers))]
			}
		} else {
			ret = z.val(h.Ret)
		}
		if h.Impl == "go" {
			fn = L.NewFunction(func(L *lua.LState) int {
				args := stackValues(L, 1)
				z.log = append(z.log, fmt.Sprintf("h%d(%s)", i, z.names_(args)))
				arg := func(k int) lua.LValue {
					if k <= len(args) {
						return args[k-1]
					}
					return lua.LNil
				}
				switch h.Act {
				case "const":
					L.Push(lua.LString("below")) // something below the result: only the count returned selects the results
					L.Push(ret)
					return 1
				case "multi":
					L.Push(ret)
					L.Push(lua.LString("extra"))
					return 2
				case "arg":
					L.Push(arg(h.N))
					return 1
				case "rawget":
					if t, ok := arg(1).(*lua.LTable); ok {
						L.Push(t.RawGet(arg(2)))
					} else {
						L.Push(lua.LNil)
					}
					return 1
				case "rawset":
					if t, ok := arg(1).(*lua.LTable); ok {
						k := arg(2)
						if n, isnum := k.(lua.LNumber); k != lua.LNil && !(isnum && math.IsNaN(float64(n))) {
							t.RawSet(k, arg(3))
						}
					}
					return 0
				case "error":
					L.RaiseError("herr%d", i)
				case "errtab":
					L.Error(z.errTab, 1)
				}
				return 0
			})
		} else {
			body := luaHandlerBody(h, i)
			g := func(n string) lua.LValue { return L.GetGlobal(n) }
			chunk, err := L.LoadString(fmt.Sprintf(luaHandlerTemplate, body))
			if err != nil {
				return nil, fmt.Errorf("harness: handler source does not compile: %v", err)
			}
			L.Push(chunk)
			for _, a := range []lua.LValue{logFn(i), ret, z.errTab, g("rawget"), g("rawset"), g("error"), g("type")} {
				L.Push(a)
			}
			if err := L.PCall(7, 1, nil); err != nil {
				return nil, fmt.Errorf("harness: handler instantiation failed: %v", err)
			}
			fn = L.Get(-1).(*lua.LFunction)
			L.Pop(1)
		}
		z.handlers = append(z.handlers, fn)
		z.names[fn] = fmt.Sprintf("h%d", i)
		z.addrs[fn.String()] = fmt.Sprintf("h%d", i)
	}
	for i, o := range spec.Objs {
		if t, ok := z.objs[i].(*lua.LTable); ok {
			for _, f := range o.Fields {
				k := z.val(f.K)
				if n, isnum := k.(lua.LNumber); k == lua.LNil || (isnum && math.IsNaN(float64(n))) {
					continue
				}
				t.RawSet(k, z.val(f.V))
			}
		}
	}
	for i, m := range spec.Metas {
		for _, e := range m.Entries {
			z.metas[i].RawSetString(e.Event, z.val(e.V))
		}
	}
	for i, o := range spec.Objs {
		if o.Meta < 0 || len(z.metas) == 0 {
			continue
		}
		mt := z.metas[mod(o.Meta, len(z.metas))]
		switch x := z.objs[i].(type) {
		case *lua.LTable:
			x.Metatable = mt
		case *lua.LUserData:
			x.Metatable = mt
		}
	}
	return z, nil
}

// dump renders the raw contents and metatable of every zoo table canonically.
func (z *zoo) dump() string {
	var b strings.Builder
	one := func(label string, v lua.LValue) {
		switch x := v.(type) {
		case *lua.LTable:
			var items []string
			x.ForEach(func(k, v lua.LValue) {
				items = append(items, z.name(k)+"="+z.name(v))
			})
			sort.Strings(items)
			fmt.Fprintf(&b, "%s{%s}mt=%s;", label, strings.Join(items, " "), z.name(x.Metatable))
		case *lua.LUserData:
			fmt.Fprintf(&b, "%s<ud>mt=%s;", label, z.name(x.Metatable))
		}
	}
	for i, o := range z.objs {
		one(fmt.Sprintf("obj%d", i), o)
	}
	for i, m := range z.metas {
		one(fmt.Sprintf("mt%d", i), m)
	}
	one("E", z.errTab)
	return b.String()
}

// outcome of one evaluation
type outcome struct {
	raised bool
	errobj string // canonical name of the error value when it is not a string (strings carry position text)
	vals   []string
	note   string // unrepresentable results
}

func (o outcome) String() string {
	if o.raised {
		return "raised(" + o.errobj + ")"
	}
	return "values(" + strings.Join(o.vals, ",") + ")"
}

func (z *zoo) errName(obj lua.LValue) string {
	if obj == nil {
		return "<Go nil>"
	}
	if _, ok := obj.(lua.LString); ok {
		return "message"
	}
	return z.name(obj)
}

type objRun struct {
	*chainRun
	c      *ObjCase
	k      *vf.C
	A, B   *zoo
	fns    map[string]*lua.LFunction
	shared *sharedNames
	open   bool // finding C10-OBJLEN-NOLEN is open: steer away
	// statistics
	handlerOps, raisedOps, sideEffectOps, opsRun int
	pending                                      string
}

// luaText: the corresponding Lua expression for each operation, as the body of function(a, b, c).
func luaText(op ObjOp) string {
	name := fmt.Sprintf("a[%q]", op.Name) // the names used need no escapes
	switch op.Op {
	case "gettable":
		return "return a[b]"
	case "settable":
		return "a[b] = c"
	case "getfield":
		return "return " + name
	case "setfield":
		return name + " = c"
	case "getglobal":
		return "return " + op.Name
	case "setglobal":
		return op.Name + " = c"
	case "equal":
		return "return a == b"
	case "rawequal":
		return "return rawequal(a, b)"
	case "lessthan":
		return "return a < b"
	case "concat":
		return "return a .. b"
	case "concat3":
		return "return a .. b .. c"
	case "objlen":
		return "return #a"
	case "getmetatable":
		return "return getmetatable(a)"
	case "tostringmeta":
		return "return tostring(a)"
	case "next":
		return "local k, v = next(a, b)\n  return k, v"
	}
	return ""
}

func (r *objRun) luaFn(op ObjOp) (*lua.LFunction, error) {
	text := luaText(op)
	if text == "" {
		return nil, fmt.Errorf("harness: unknown op %q", op.Op)
	}
	if f, ok := r.fns[text]; ok {
		return f, nil
	}
	L := r.L
	src := "local rawequal, getmetatable, tostring, next = ...\nreturn function(a, b, c)\n  " + text + "\nend\n"
	chunk, err := L.LoadString(src)
	if err != nil {
		return nil, fmt.Errorf("harness: %v in %s", err, src)
	}
	L.Push(chunk)
	for _, n := range []string{"rawequal", "getmetatable", "tostring", "next"} {
		L.Push(L.GetGlobal(n))
	}
	if err := L.PCall(4, 1, nil); err != nil {
		return nil, fmt.Errorf("harness: %v", err)
	}
	f := L.Get(-1).(*lua.LFunction)
	L.Pop(1)
	r.fns[text] = f
	return f, nil
}

func width(op string) int {
	switch op {
	case "settable", "setfield", "setglobal":
		return 0
	case "next":
		return 2
	}
	return 1
}

// evalLua runs the Lua expression on copy B under pcall.
func (r *objRun) evalLua(L *lua.LState, op ObjOp) outcome {
	z := r.B
	f, err := r.luaFn(op)
	if err != nil {
		r.fail("%v", err)
		return outcome{}
	}
	base := L.GetTop()
	L.Push(f)
	L.Push(z.val(op.A))
	L.Push(z.val(op.B))
	L.Push(z.val(op.C))
	if err := L.PCall(3, lua.MultRet, nil); err != nil {
		var obj lua.LValue
		if ae, ok := err.(*lua.ApiError); ok {
			obj = ae.Object
		}
		L.SetTop(base)
		return outcome{raised: true, errobj: z.errName(obj)}
	}
	vals := stackValues(L, base+1)
	L.SetTop(base)
	w := width(op.Op)
	for len(vals) < w {
		vals = append(vals, lua.LNil)
	}
	o := outcome{}
	// what the Go signature cannot carry
	switch op.Op {
	case "objlen":
		n, ok := vals[0].(lua.LNumber)
		if !ok || float64(n) != math.Trunc(float64(n)) || math.Abs(float64(n)) > 1e9 {
			o.note = "len_result_not_an_int"
		}
	case "concat", "concat3":
		if _, ok := vals[0].(lua.LString); !ok {
			o.note = "concat_result_not_a_string"
		}
	}
	for _, v := range vals[:w] {
		o.vals = append(o.vals, z.name(v))
	}
	if len(vals) > w {
		o.vals = append(o.vals, fmt.Sprintf("+%d more", len(vals)-w))
	}
	return o
}

// callAPI performs the Go API call on copy A and names its results.
func (r *objRun) callAPI(L *lua.LState, op ObjOp) []string {
	z := r.A
	a, b, c := z.val(op.A), z.val(op.B), z.val(op.C)
	bname := func(v bool) string { return z.name(lua.LBool(v)) }
	switch op.Op {
	case "gettable":
		return []string{z.name(L.GetTable(a, b))}
	case "settable":
		L.SetTable(a, b, c)
	case "getfield":
		return []string{z.name(L.GetField(a, op.Name))}
	case "setfield":
		L.SetField(a, op.Name, c)
	case "getglobal":
		return []string{z.name(L.GetGlobal(op.Name))}
	case "setglobal":
		L.SetGlobal(op.Name, c)
	case "equal":
		return []string{bname(L.Equal(a, b))}
	case "rawequal":
		return []string{bname(L.RawEqual(a, b))}
	case "lessthan":
		return []string{bname(L.LessThan(a, b))}
	case "concat":
		return []string{z.name(lua.LString(L.Concat(a, b)))}
	case "concat3":
		return []string{z.name(lua.LString(L.Concat(a, b, c)))}
	case "objlen":
		return []string{numName(float64(L.ObjLen(a)))}
	case "getmetatable":
		return []string{z.name(L.GetMetatable(a))}
	case "tostringmeta":
		return []string{z.name(L.ToStringMeta(a))}
	case "next":
		k, v := L.Next(a.(*lua.LTable), b)
		return []string{z.name(k), z.name(v)}
	}
	return nil
}

// evalAPI runs the Go API call on copy A in the current activation.  When the Lua side raised, an error is
// expected and the call is made inside a protected host function of its own; otherwise it is made directly, on the
// calling function's own list, which must be left exactly as it was.
func (r *objRun) evalAPI(L *lua.LState, op ObjOp, expectRaise bool, own []expv, label string) outcome {
	z := r.A
	if r.c.Depth0 {
		o := outcome{}
		func() {
			defer func() {
				if rc := recover(); rc != nil {
					o.raised = true
					if ae, ok := rc.(*lua.ApiError); ok {
						o.errobj = z.errName(ae.Object)
					} else {
						o.errobj = "gopanic:" + firstLine(fmt.Sprint(rc))
					}
				}
			}()
			o.vals = r.callAPI(L, op)
		}()
		if !o.raised {
			r.expectStack(L, "top-level", "after "+label+" (an object-level call must leave the caller's list alone)", own)
		}
		return o
	}
	if !expectRaise {
		r.pending = label + ": the Go API call raised an error, the Lua expression did not"
		vals := r.callAPI(L, op)
		r.pending = ""
		r.expectStack(L, "caller", "after "+label+" (an object-level call must leave the caller's list alone)", own)
		return outcome{vals: vals}
	}
	o := outcome{}
	completed := false
	L.Push(L.NewFunction(func(L *lua.LState) int {
		L.Push(lua.LNumber(7))
		L.Push(lua.LNumber(8))
		o.vals = r.callAPI(L, op)
		completed = true
		if L.GetTop() != 2 || L.Get(1) != lua.LNumber(7) || L.Get(2) != lua.LNumber(8) {
			r.fail("%s: the Go API call changed the calling function's list", label)
		}
		return 0
	}))
	if err := L.PCall(0, 0, nil); err != nil {
		if completed {
			r.fail("%s: harness: error after the API call completed: %v", label, firstLine(err.Error()))
		}
		o.raised = true
		if ae, ok := err.(*lua.ApiError); ok {
			o.errobj = z.errName(ae.Object)
		}
	}
	r.expectStack(L, "caller", "after protected "+label, own)
	return o
}

func (r *objRun) setGlobalsPre(z *zoo, op ObjOp) {
	g := r.L.Get(lua.GlobalsIndex).(*lua.LTable)
	for _, n := range globalNames {
		g.RawSetString(n, lua.LNil)
	}
	if op.GPre != nil {
		g.RawSetString(op.Name, z.val(*op.GPre))
	}
	if op.GM > 0 && len(z.metas) > 0 {
		g.Metatable = z.metas[mod(op.GM-1, len(z.metas))]
	} else {
		g.Metatable = lua.LNil
	}
}

func (r *objRun) globalsPost(z *zoo) string {
	g := r.L.Get(lua.GlobalsIndex).(*lua.LTable)
	g.Metatable = lua.LNil
	var parts []string
	for _, n := range globalNames {
		parts = append(parts, n+"="+z.name(g.RawGetString(n)))
		g.RawSetString(n, lua.LNil)
	}
	return strings.Join(parts, " ")
}

func isGlobalOp(op string) bool { return op == "getglobal" || op == "setglobal" }

// excludedByFinding: ObjLen of a userdata whose metatable has no __len function returns 0 where #ud raises.
func (r *objRun) excludedByFinding(op ObjOp) bool {
	if op.Op != "objlen" || !r.open {
		return false
	}
	ud, ok := r.B.val(op.A).(*lua.LUserData)
	if !ok {
		return false
	}
	if mt, ok := ud.Metatable.(*lua.LTable); ok {
		if _, isf := mt.RawGetString("__len").(*lua.LFunction); isf {
			return false
		}
	}
	return true
}

// inDomain: operand shapes the Go signatures accept / the property names.
func (r *objRun) inDomain(op ObjOp) bool {
	a := r.A.val(op.A)
	switch op.Op {
	case "next":
		_, ok := a.(*lua.LTable)
		return ok
	case "objlen":
		switch a.Type() {
		case lua.LTString, lua.LTTable, lua.LTUserData:
			return true
		}
		return false
	case "settable", "setfield":
		// _G is the one table both copies of the zoo share: storing into it directly would let one side see the
		// other side's store (SetGlobal/GetGlobal reset the globals they touch around every evaluation instead)
		return op.A.K != "G"
	}
	return true
}

// body runs every operation; own is the calling activation's list, which the operations must leave alone.
func (r *objRun) body(L *lua.LState, own []expv) {
	for oi, op := range r.c.Ops {
		if len(r.problems) > 0 {
			return
		}
		if !r.inDomain(op) {
			continue
		}
		if r.excludedByFinding(op) {
			r.k.Excluded(FindingObjLenUserdata)
			continue
		}
		label := fmt.Sprintf("op %d %s(%s,%s,%s,%q)", oi, op.Op, r.A.name(r.A.val(op.A)), r.A.name(r.A.val(op.B)), r.A.name(r.A.val(op.C)), op.Name)
		r.A.log, r.B.log = nil, nil
		if op.Op == "next" {
			r.traverse(L, op, own, label)
			continue
		}
		// Lua side first (always protected), on copy B
		if isGlobalOp(op.Op) {
			r.setGlobalsPre(r.B, op)
		}
		exp := r.B.anchor(op) // independent prediction (manual §2.8), made before anything runs
		ob := r.evalLua(L, op)
		if ob.note == "" {
			r.checkAnchor(r.B, "the Lua expression", label, op, exp, ob)
		}
		gB := ""
		if isGlobalOp(op.Op) {
			gB = r.globalsPost(r.B)
		}
		if ob.note != "" {
			// the Lua result is a value the Go signature (int / string) cannot carry: nothing to compare
			r.k.Discard(ob.note)
			// keep the two copies in step: run the API as well, ignoring what it returns
			if isGlobalOp(op.Op) {
				r.setGlobalsPre(r.A, op)
			}
			r.evalAPI(L, op, true, own, label)
			if isGlobalOp(op.Op) {
				r.globalsPost(r.A)
			}
			continue
		}
		if isGlobalOp(op.Op) {
			r.setGlobalsPre(r.A, op)
		}
		expectRaise := ob.raised
		if exp.ok {
			expectRaise = exp.raised
		}
		oa := r.evalAPI(L, op, expectRaise, own, label)
		r.checkAnchor(r.A, "the Go API", label, op, exp, oa)
		gA := ""
		if isGlobalOp(op.Op) {
			gA = r.globalsPost(r.A)
		}
		if exp.ok {
			r.k.Class("anchored:" + op.Op)
		}
		r.opsRun++
		if oa.String() != ob.String() {
			r.fail("%s: Go API gave %s, the Lua expression `%s` gave %s", label, oa, strings.ReplaceAll(luaText(op), "\n ", ";"), ob)
		}
		la, lb := strings.Join(r.A.log, " "), strings.Join(r.B.log, " ")
		if la != lb {
			r.fail("%s: handler invocations differ: Go API [%s], Lua expression [%s]", label, la, lb)
		}
		if gA != gB {
			r.fail("%s: globals afterwards differ: Go API [%s], Lua [%s]", label, gA, gB)
		}
		da, db := r.A.dump(), r.B.dump()
		if da != db {
			r.fail("%s: object contents afterwards differ: Go API %s / Lua %s", label, da, db)
		}
		r.k.Class("op:" + op.Op)
		if len(r.A.log) > 0 {
			r.handlerOps++
			r.k.Class("op_with_handler:" + op.Op)
		}
		if ob.raised {
			r.raisedOps++
			r.k.Class("op_raised:" + op.Op)
		}
		if r.c.Depth0 && oa.raised {
			// an error nobody caught leaves the top-level state as it is; the property does not cover what follows
			return
		}
	}
}

// traverse: Next from nil until the end on copy A, next() in a Lua loop on copy B; every key exactly as Lua sees it.
func (r *objRun) traverse(L *lua.LState, op ObjOp, own []expv, label string) {
	ta := r.A.val(op.A).(*lua.LTable)
	var seqA []string
	var k lua.LValue = lua.LNil
	for steps := 0; steps < 200; steps++ {
		nk, nv := L.Next(ta, k)
		if nk == nil || nv == nil {
			r.fail("%s: Next returned a Go nil", label)
			return
		}
		seqA = append(seqA, r.A.name(nk)+"="+r.A.name(nv))
		if nk == lua.LNil {
			break
		}
		k = nk
	}
	r.expectStack(L, map[bool]string{true: "top-level", false: "caller"}[r.c.Depth0], "after "+label, own)
	f, err := r.luaFn(op)
	if err != nil {
		r.fail("%v", err)
		return
	}
	tb := r.B.val(op.A)
	var seqB []string
	k = lua.LNil
	for steps := 0; steps < 200; steps++ {
		base := L.GetTop()
		L.Push(f)
		L.Push(tb)
		L.Push(k)
		if err := L.PCall(2, 2, nil); err != nil {
			seqB = append(seqB, "raised")
			break
		}
		nk, nv := L.Get(-2), L.Get(-1)
		L.SetTop(base)
		seqB = append(seqB, r.B.name(nk)+"="+r.B.name(nv))
		if nk == lua.LNil {
			break
		}
		k = nk
	}
	r.opsRun++
	r.k.Class("op:next")
	r.checkTraversal(r.A, "LState.Next", label, ta, seqA)
	if tbt, ok := tb.(*lua.LTable); ok {
		r.checkTraversal(r.B, "next() in Lua", label, tbt, seqB)
	}
	if a, b := strings.Join(seqA, " "), strings.Join(seqB, " "); a != b {
		r.fail("%s: traversal with LState.Next gave [%s], with next() in Lua [%s]", label, a, b)
	}
}

var chkObj = vf.Register("object_ops", objOracle)

// chkObjPairs runs the same oracle over the enumerated operand pairs of TestObjectPairs.
var chkObjPairs = vf.Register("object_pairs", objOracle)

func objOracle(k *vf.C, c *ObjCase) error {
	L := newState(c.Reg)
	defer L.Close()
	env := newValEnv(L)
	cr := &chainRun{L: L, env: env, top: c.Top, frames: c.Chain, innerNArgs: c.NArgs}
	if c.Depth0 {
		cr.frames = nil
	}
	shared := newSharedNames(L)
	r := &objRun{chainRun: cr, c: c, k: k, fns: map[string]*lua.LFunction{}, shared: shared, open: vf.Open(FindingObjLenUserdata) && !noExclusions}
	var err error
	if r.A, err = buildZoo(L, &c.Zoo, "A", shared); err != nil {
		return err
	}
	if r.B, err = buildZoo(L, &c.Zoo, "B", shared); err != nil {
		return err
	}
	if a, b := r.A.dump(), r.B.dump(); a != b {
		return fmt.Errorf("harness: the two copies of the zoo differ before any operation: %s / %s", a, b)
	}
	if L.GetTop() != 0 {
		return fmt.Errorf("harness: stack not empty after building the zoo")
	}
	junk := func(L *lua.LState, exp []expv) []expv {
		for i := 1; i <= c.Junk; i++ {
			v := lua.LString(fmt.Sprintf("own.%d", i))
			L.Push(v)
			exp = append(exp, expv{v: v})
		}
		return exp
	}
	if c.Depth0 {
		var exp []expv
		for i := 1; i <= c.Top.Sent; i++ {
			L.Push(sentVal(-1, i))
			exp = append(exp, expv{v: sentVal(-1, i)})
		}
		exp = junk(L, exp)
		r.body(L, exp)
	} else {
		n := len(cr.frames)
		cr.innerBody = func(L *lua.LState) int {
			exp := exact(cr.argsOf(n)...)
			if !cr.expectStack(L, "caller", "on entry", exp) {
				return 0
			}
			exp = junk(L, exp)
			r.body(L, exp)
			cr.expectStack(L, "caller", "after all operations", exp)
			return 0
		}
		if err := cr.build(); err != nil {
			return err
		}
		cr.run()
		if r.pending != "" {
			cr.problems = append([]string{r.pending}, cr.problems...)
		}
	}
	if err := cr.err(); err != nil {
		return err
	}
	depth := 0
	if !c.Depth0 {
		depth = len(c.Chain) + 1
	}
	k.Class(fmt.Sprintf("depth:%d", depth))
	k.Class(c.Reg.class())
	if c.Junk >= 100 && c.Reg.Max > 0 {
		k.Class("own_list_near_registry_capacity")
	}
	chainClasses(k, cr.frames)
	if r.handlerOps > 0 {
		k.Class("case_with_handler_invocation")
	}
	if r.handlerOps > 0 || r.raisedOps > 0 {
		k.Nontrivial(vf.Hash("obj", fmt.Sprintf("%v|%v", c.Zoo, c.Ops)))
		k.Sample(fmt.Sprintf("obj/depth%d", depth), 1, c)
	}
	return nil
}

// ---------------------------------------------------------------------------------------------
// generator

var numPool = []float64{0, 1, 2, 3, -1, 1.5, 10, 16, 255, 1e15}
var strPool = []string{"", "a", "b", "abc", "10", "1", "0x10", " 5 ", "1e1", "x", "len", "-1", "1.5", "h\u00e9", "A"}

func genPrim(t *rapid.T) OVal {
	switch rapid.IntRange(0, 11).Draw(t, "prim") {
	case 0:
		return OVal{K: "nil"}
	case 1:
		return OVal{K: "true"}
	case 2:
		return OVal{K: "false"}
	case 3, 4, 5:
		return OVal{K: "num", F: rapid.SampledFrom(numPool).Draw(t, "num")}
	case 6:
		return OVal{K: rapid.SampledFrom([]string{"nan", "inf", "ninf"}).Draw(t, "special")}
	default:
		return OVal{K: "str", S: rapid.SampledFrom(strPool).Draw(t, "str")}
	}
}

// genOperand: zoo objects most of the time.
func genOperand(t *rapid.T, z *ZooSpec) OVal {
	switch rapid.IntRange(0, 9).Draw(t, "operand") {
	case 0, 1, 2, 3, 4:
		if len(z.Objs) > 0 {
			return OVal{K: "obj", I: rapid.IntRange(0, len(z.Objs)-1).Draw(t, "obj")}
		}
	case 5:
		if len(z.Metas) > 0 && rapid.Bool().Draw(t, "mt_operand") {
			return OVal{K: "mt", I: rapid.IntRange(0, len(z.Metas)-1).Draw(t, "mt")}
		}
		if len(z.Handlers) > 0 {
			return OVal{K: "h", I: rapid.IntRange(0, len(z.Handlers)-1).Draw(t, "h")}
		}
	case 6:
		if rapid.IntRange(0, 5).Draw(t, "G") == 0 {
			return OVal{K: "G"}
		}
	}
	return genPrim(t)
}

var allEvents = []string{"__index", "__newindex", "__eq", "__lt", "__le", "__concat", "__len", "__call", "__tostring", "__metatable"}

func genHandler(t *rapid.T, z *ZooSpec) HandlerSpec {
	h := HandlerSpec{Impl: rapid.SampledFrom([]string{"lua", "go"}).Draw(t, "impl"),
		Act: rapid.SampledFrom([]string{"const", "const", "arg", "rawget", "rawset", "error", "errtab", "none", "multi"}).Draw(t, "act")}
	switch h.Act {
	case "const", "multi":
		h.Ret = genOperand(t, z)
	case "arg":
		h.N = rapid.IntRange(1, 3).Draw(t, "argn")
	}
	return h
}

// handlerFor picks (or creates) a handler whose result the Go signature of the operation behind the event can carry.
func handlerFor(t *rapid.T, z *ZooSpec, event string) OVal {
	suitable := func(h HandlerSpec) bool {
		switch event {
		case "__concat":
			return h.Act == "error" || h.Act == "errtab" || (h.Act == "const" || h.Act == "multi") && h.Ret.K == "str"
		case "__len":
			return h.Act == "error" || h.Act == "errtab" || (h.Act == "const" || h.Act == "multi") && h.Ret.K == "num" && h.Ret.F == math.Trunc(h.Ret.F) && math.Abs(h.Ret.F) < 1e9
		}
		return true
	}
	if (event == "__len" || event == "__concat") && rapid.IntRange(0, 4).Draw(t, "uncarriable") == 0 {
		// a result the Go signature cannot carry (a string, nil, a boolean or a table as length; a non-string as
		// concatenation): nothing to compare then, but the call must still leave the caller's list alone
		h := HandlerSpec{Impl: rapid.SampledFrom([]string{"lua", "go"}).Draw(t, "impl3"), Act: "const", Ret: genPrim(t)}
		z.Handlers = append(z.Handlers, h)
		return OVal{K: "h", I: len(z.Handlers) - 1}
	}
	var ok []int
	for i, h := range z.Handlers {
		if suitable(h) {
			ok = append(ok, i)
		}
	}
	if len(ok) > 0 && (event != "__concat" && event != "__len" || rapid.IntRange(0, 3).Draw(t, "reuse") > 0) {
		return OVal{K: "h", I: ok[rapid.IntRange(0, len(ok)-1).Draw(t, "hidx")]}
	}
	// add one that fits
	h := HandlerSpec{Impl: rapid.SampledFrom([]string{"lua", "go"}).Draw(t, "impl2"), Act: "const"}
	switch event {
	case "__concat":
		h.Ret = OVal{K: "str", S: rapid.SampledFrom(strPool).Draw(t, "cstr")}
	case "__len":
		h.Ret = OVal{K: "num", F: float64(rapid.IntRange(-2, 50).Draw(t, "clen"))}
	default:
		h.Ret = genPrim(t)
	}
	z.Handlers = append(z.Handlers, h)
	return OVal{K: "h", I: len(z.Handlers) - 1}
}

func genZoo(t *rapid.T) ZooSpec {
	var z ZooSpec
	nobj := rapid.IntRange(1, 5).Draw(t, "nobj")
	for i := 0; i < nobj; i++ {
		kind := "table"
		if rapid.IntRange(0, 2).Draw(t, "isud") == 0 {
			kind = "userdata"
		}
		z.Objs = append(z.Objs, ObjSpec{Kind: kind, Meta: -1})
	}
	nh := rapid.IntRange(0, 4).Draw(t, "nhandlers")
	for i := 0; i < nh; i++ {
		z.Handlers = append(z.Handlers, genHandler(t, &z))
	}
	nm := rapid.SampledFrom([]int{1, 2, 3, 2, 1, 3, 2, 0}).Draw(t, "nmetas")
	// __eq/__lt/__le only fire when both operands carry the very same handler: remember the first one chosen
	sameHandler := map[string]OVal{}
	for i := 0; i < nm; i++ {
		var m MetaSpec
		for _, ev := range allEvents {
			// the comparison and concat events are the ones that need both operands to cooperate: make them denser
			dense := ev == "__eq" || ev == "__lt" || ev == "__le" || ev == "__concat"
			if dense && rapid.IntRange(0, 3).Draw(t, "has"+ev) == 0 || !dense && !rapid.Bool().Draw(t, "has"+ev) {
				continue
			}
			var v OVal
			switch c := rapid.IntRange(0, 11).Draw(t, "entrykind"); {
			case c <= 8:
				if prev, ok := sameHandler[ev]; ok && rapid.IntRange(0, 3).Draw(t, "same_handler") > 0 {
					v = prev
				} else {
					v = handlerFor(t, &z, ev)
					if ev == "__eq" || ev == "__lt" || ev == "__le" {
						sameHandler[ev] = v
					}
				}
			case c <= 10 && (ev == "__index" || ev == "__newindex"):
				v = OVal{K: "obj", I: rapid.IntRange(0, nobj-1).Draw(t, "chain_obj")}
			default:
				v = genPrim(t) // a non-function value in a metamethod slot (and the usual case for __metatable)
			}
			m.Entries = append(m.Entries, MetaEntry{Event: ev, V: v})
		}
		z.Metas = append(z.Metas, m)
	}
	for i := range z.Objs {
		if nm > 0 && rapid.IntRange(0, 5).Draw(t, "hasmeta") > 0 {
			z.Objs[i].Meta = rapid.IntRange(0, nm-1).Draw(t, "meta")
		}
		if z.Objs[i].Kind == "table" {
			nf := rapid.IntRange(0, 5).Draw(t, "nfields")
			for j := 0; j < nf; j++ {
				z.Objs[i].Fields = append(z.Objs[i].Fields, Field{K: genKey(t, &z), V: genOperand(t, &z)})
			}
		}
	}
	return z
}

func genKey(t *rapid.T, z *ZooSpec) OVal {
	switch rapid.IntRange(0, 3).Draw(t, "keykind") {
	case 0:
		return OVal{K: "num", F: float64(rapid.IntRange(1, 4).Draw(t, "ikey"))}
	case 1:
		return OVal{K: "str", S: rapid.SampledFrom(fieldNames).Draw(t, "skey")}
	}
	return genOperand(t, z)
}

var objOpKinds = []string{"gettable", "gettable", "settable", "settable", "getfield", "setfield", "getglobal", "setglobal", "equal",
	"equal", "rawequal", "lessthan", "lessthan", "concat", "concat", "concat3", "objlen", "getmetatable", "tostringmeta", "next"}

func genObj(t *rapid.T, z *ZooSpec, label string) OVal {
	return OVal{K: "obj", I: rapid.IntRange(0, len(z.Objs)-1).Draw(t, label)}
}

// genContainer: what gets indexed — mostly zoo objects, sometimes a string (string metatable) or something unindexable.
func genContainer(t *rapid.T, z *ZooSpec) OVal {
	switch rapid.IntRange(0, 9).Draw(t, "container") {
	case 0:
		return genOperand(t, z)
	case 1:
		return OVal{K: "str", S: rapid.SampledFrom(strPool).Draw(t, "str")}
	}
	return genObj(t, z, "cobj")
}

// genPair: operands of a comparison — objects (so that handlers can fire), or two primitives of one type, or anything.
func genPair(t *rapid.T, z *ZooSpec) (OVal, OVal) {
	switch rapid.IntRange(0, 9).Draw(t, "pair") {
	case 0, 1, 2, 3, 4:
		return genObj(t, z, "lhs"), genObj(t, z, "rhs")
	case 5:
		return OVal{K: "num", F: rapid.SampledFrom(numPool).Draw(t, "n1")}, OVal{K: "num", F: rapid.SampledFrom(numPool).Draw(t, "n2")}
	case 6:
		return OVal{K: "str", S: rapid.SampledFrom(strPool).Draw(t, "s1")}, OVal{K: "str", S: rapid.SampledFrom(strPool).Draw(t, "s2")}
	case 7:
		a := genPrim(t)
		return a, a
	}
	return genOperand(t, z), genOperand(t, z)
}

// genConcatOperand: strings and numbers concatenate by themselves, objects through __concat, the rest raises.
func genConcatOperand(t *rapid.T, z *ZooSpec) OVal {
	switch rapid.IntRange(0, 9).Draw(t, "catop") {
	case 0, 1, 2:
		return OVal{K: "str", S: rapid.SampledFrom(strPool).Draw(t, "str")}
	case 3, 4:
		return OVal{K: "num", F: rapid.SampledFrom(numPool).Draw(t, "num")}
	case 5, 6, 7, 8:
		return genObj(t, z, "catobj")
	}
	return genOperand(t, z)
}

func genObjOp(t *rapid.T, z *ZooSpec) ObjOp {
	op := ObjOp{Op: rapid.SampledFrom(objOpKinds).Draw(t, "objop")}
	switch op.Op {
	case "gettable", "settable":
		op.A, op.B, op.C = genContainer(t, z), genKey(t, z), genOperand(t, z)
	case "getfield", "setfield":
		op.A, op.C = genContainer(t, z), genOperand(t, z)
		op.Name = rapid.SampledFrom(fieldNames).Draw(t, "fname")
	case "getglobal", "setglobal":
		op.Name = rapid.SampledFrom(globalNames).Draw(t, "gname")
		op.C = genOperand(t, z)
		if len(z.Metas) > 0 && rapid.IntRange(0, 3).Draw(t, "gmeta") > 0 {
			op.GM = 1 + rapid.IntRange(0, len(z.Metas)-1).Draw(t, "gm")
		}
		if rapid.IntRange(0, 2).Draw(t, "gpresent") == 0 {
			v := genOperand(t, z)
			op.GPre = &v
		}
	case "equal", "rawequal", "lessthan":
		op.A, op.B = genPair(t, z)
	case "concat":
		op.A, op.B = genConcatOperand(t, z), genConcatOperand(t, z)
	case "concat3":
		op.A, op.B, op.C = genConcatOperand(t, z), genConcatOperand(t, z), genConcatOperand(t, z)
	case "objlen":
		if rapid.IntRange(0, 3).Draw(t, "lenstr") == 0 {
			op.A = OVal{K: "str", S: rapid.SampledFrom(strPool).Draw(t, "str")}
		} else {
			op.A = genObj(t, z, "lenobj")
		}
	case "getmetatable", "tostringmeta":
		op.A = genOperand(t, z)
	case "next":
		op.A = genObj(t, z, "nextobj")
	}
	return op
}

func genObjCase(t *rapid.T) *ObjCase {
	c := &ObjCase{Reg: genRegCfg(t), Top: genTop(t)}
	c.Depth0 = rapid.IntRange(0, 5).Draw(t, "depth0") == 0
	if !c.Depth0 {
		c.Chain = genChain(t, 3)
		c.NArgs = rapid.IntRange(0, 3).Draw(t, "nargs")
	}
	// a few values, or enough of them that the pushes an object-level call makes internally cross the capacity of a
	// 128-slot growable registry
	c.Junk = rapid.SampledFrom([]int{0, 1, 2, 3, 1, 2, 100, 120, 124, 126, 127, 128, 130}).Draw(t, "ownjunk")
	c.Zoo = genZoo(t)
	n := rapid.IntRange(1, 12).Draw(t, "nobjops")
	for i := 0; i < n; i++ {
		c.Ops = append(c.Ops, genObjOp(t, &c.Zoo))
	}
	return c
}

func TestObjectOps(t *testing.T) {
	vf.Rapid(t, func(rt *rapid.T) {
		chkObj.Run(rt, genObjCase(rt))
	})
}

// ---------------------------------------------------------------------------------------------
// enumerated operand pairs

func hv(i int) OVal                  { return OVal{K: "h", I: i} }
func ov(i int) OVal                  { return OVal{K: "obj", I: i} }
func sv(s string) OVal               { return OVal{K: "str", S: s} }
func nv(f float64) OVal              { return OVal{K: "num", F: f} }
func ent(e string, v OVal) MetaEntry { return MetaEntry{Event: e, V: v} }

// fixedZoo returns one of three hand-built zoos: 0 = every event has a handler that returns something, 1 = every
// handler raises, 2 = structural (table-valued __index/__newindex chains, non-function values in slots, two results).
func fixedZoo(variant int) ZooSpec {
	impl := func(i int) string { return []string{"lua", "go"}[i%2] }
	z := ZooSpec{}
	z.Handlers = []HandlerSpec{
		{Impl: impl(0), Act: "const", Ret: sv("H0")},         // h0
		{Impl: impl(1), Act: "const", Ret: nv(7)},            // h1
		{Impl: impl(0), Act: "rawget"},                       // h2
		{Impl: impl(1), Act: "rawset"},                       // h3
		{Impl: impl(0), Act: "arg", N: 2},                    // h4
		{Impl: impl(1), Act: "error"},                        // h5
		{Impl: impl(0), Act: "errtab"},                       // h6
		{Impl: impl(1), Act: "const", Ret: OVal{K: "true"}},  // h7
		{Impl: impl(0), Act: "const", Ret: OVal{K: "false"}}, // h8
		{Impl: impl(0), Act: "multi", Ret: sv("m")},          // h9
		{Impl: impl(1), Act: "multi", Ret: nv(2)},            // h10
		{Impl: impl(1), Act: "none"},                         // h11
	}
	var mt0, mt1 MetaSpec
	switch variant {
	case 0:
		mt0.Entries = []MetaEntry{ent("__index", hv(0)), ent("__newindex", hv(3)), ent("__eq", hv(7)), ent("__lt", hv(4)), ent("__le", hv(8)),
			ent("__concat", hv(0)), ent("__len", hv(1)), ent("__call", hv(0)), ent("__tostring", hv(0)), ent("__metatable", sv("locked"))}
		mt1.Entries = []MetaEntry{ent("__index", hv(2)), ent("__newindex", hv(11)), ent("__eq", hv(7)), ent("__lt", hv(4)), ent("__concat", hv(9)),
			ent("__len", hv(10)), ent("__tostring", hv(4))}
	case 1:
		mt0.Entries = []MetaEntry{ent("__index", hv(5)), ent("__newindex", hv(6)), ent("__eq", hv(5)), ent("__lt", hv(6)), ent("__le", hv(5)),
			ent("__concat", hv(6)), ent("__len", hv(5)), ent("__tostring", hv(6))}
		mt1.Entries = []MetaEntry{ent("__index", hv(6)), ent("__newindex", hv(5)), ent("__eq", hv(5)), ent("__lt", hv(5)), ent("__concat", hv(5)),
			ent("__len", hv(6)), ent("__tostring", hv(5)), ent("__metatable", OVal{K: "false"})}
	default:
		mt0.Entries = []MetaEntry{ent("__index", ov(3)), ent("__newindex", ov(3)), ent("__eq", hv(8)), ent("__lt", hv(7)), ent("__concat", hv(9)),
			ent("__len", nv(3)), ent("__tostring", nv(5)), ent("__metatable", ov(2))}
		mt1.Entries = []MetaEntry{ent("__index", ov(0)), ent("__newindex", ov(6)), ent("__eq", hv(7)), ent("__lt", hv(7)), ent("__concat", sv("notfn")),
			ent("__len", hv(1)), ent("__call", nv(1))}
	}
	mt2 := MetaSpec{Entries: []MetaEntry{ent("__index", ov(3)), ent("__newindex", ov(3))}}
	z.Metas = []MetaSpec{mt0, mt1, mt2}
	z.Objs = []ObjSpec{
		{Kind: "table", Meta: 0, Fields: []Field{{nv(1), sv("a")}, {nv(2), sv("b")}, {sv("x"), nv(1)}}}, // obj0
		{Kind: "table", Meta: 0, Fields: []Field{{sv("x"), nv(2)}, {sv("y"), ov(0)}}},                   // obj1: same metatable as obj0
		{Kind: "table", Meta: 1}, // obj2
		{Kind: "table", Meta: -1, Fields: []Field{{nv(1), nv(10)}, {nv(2), nv(20)}, {nv(3), nv(30)}, {sv("len"), sv("L")}, {ov(0), sv("byobj")}}}, // obj3: plain
		{Kind: "userdata", Meta: 0},  // obj4
		{Kind: "userdata", Meta: 1},  // obj5
		{Kind: "userdata", Meta: -1}, // obj6
		{Kind: "table", Meta: 2, Fields: []Field{{sv("y"), OVal{K: "true"}}}}, // obj7: chains to obj3
	}
	return z
}

func pairOperands() []OVal {
	ops := []OVal{}
	for i := 0; i < 8; i++ {
		ops = append(ops, ov(i))
	}
	return append(ops, OVal{K: "nil"}, OVal{K: "true"}, OVal{K: "false"}, nv(0), nv(1), nv(-1), nv(1.5), OVal{K: "nan"}, sv(""), sv("a"), sv("10"),
		sv("h\u00e9"), hv(0), OVal{K: "mt", I: 0})
}

// TestObjectPairs: the property quantifies over "all operand pairs for the object-level calls".  For three fixed zoos
// every ordered pair of 22 operands goes through every binary call, every operand through every unary call, every
// field name through GetField/SetField, and GetGlobal/SetGlobal through every (metatable on _G, global present) combination;
// at top level and inside a host function called from Lua.  One operation per fresh state.
func TestObjectPairs(t *testing.T) {
	si, sn := vf.Shard()
	n := 0
	operands := pairOperands()
	for variant := 0; variant < 3; variant++ {
		zoo := fixedZoo(variant)
		for _, depth0 := range []bool{true, false} {
			run := func(op ObjOp) {
				n++
				if n%sn != si {
					return
				}
				c := &ObjCase{Reg: RegCfg{Size: 128, Max: 128 + 8192, Step: 1 + n%3}, Depth0: depth0, Top: TopSpec{Sent: 1, Via: "PCall", NRet: -1},
					Junk: 2, Zoo: zoo, Ops: []ObjOp{op}}
				if !depth0 {
					c.Chain = []Frame{{Kind: "lua", NArgs: 1, NPar: 1, Sent: 2, Pend: 1, Cap: true, Via: "call", NRet: -1, Ret: 0}}
					c.NArgs = 1
				}
				chkObjPairs.Run(t, c)
			}
			for _, a := range operands {
				for _, b := range operands {
					for _, op := range []string{"equal", "rawequal", "lessthan", "concat", "gettable"} {
						run(ObjOp{Op: op, A: a, B: b})
					}
					run(ObjOp{Op: "settable", A: a, B: b, C: sv("v")})
					run(ObjOp{Op: "settable", A: a, B: b, C: OVal{K: "nil"}})
				}
				for _, op := range []string{"objlen", "getmetatable", "tostringmeta", "next"} {
					run(ObjOp{Op: op, A: a})
				}
				for _, name := range fieldNames {
					run(ObjOp{Op: "getfield", A: a, Name: name})
					run(ObjOp{Op: "setfield", A: a, Name: name, C: ov(1)})
				}
			}
			for gm := 0; gm <= 3; gm++ {
				for _, pre := range []*OVal{nil, {K: "str", S: "old"}, {K: "false"}} {
					run(ObjOp{Op: "getglobal", Name: "gx", GM: gm, GPre: pre})
					run(ObjOp{Op: "setglobal", Name: "gy", GM: gm, GPre: pre, C: ov(0)})
					run(ObjOp{Op: "setglobal", Name: "gy", GM: gm, GPre: pre, C: OVal{K: "nil"}})
				}
			}
		}
	}
	chkObjPairs.SetExhaustive(true)
	chkObjPairs.Note("space", "3 fixed zoos x 2 contexts x (22x22 ordered operand pairs x {Equal RawEqual LessThan Concat GetTable SetTable(v) SetTable(nil)} + 22 operands x {ObjLen GetMetatable ToStringMeta Next, GetField/SetField x 8 names} + GetGlobal/SetGlobal x 4 metatables on _G x 3 prior values)")
}
