package cref16

import (
	"math"
	"testing"
)

func TestShims(t *testing.T) {
	if v, n := Strtod("0010.5e1xyz"); v != 105 || n != 8 {
		t.Fatalf("strtod: %v %d", v, n)
	}
	if v, n := Strtod("1e400"); !math.IsInf(v, 1) || n != 5 {
		t.Fatalf("strtod overflow: %v %d", v, n)
	}
	if v, n, r := Strtoull("ff", 16); v != 255 || n != 2 || r {
		t.Fatalf("strtoull: %v %d %v", v, n, r)
	}
	tm, ok := Gmtime(0)
	if !ok || tm.Year != 70 || tm.Mon != 0 || tm.Mday != 1 || tm.Wday != 4 || tm.Yday != 0 {
		t.Fatalf("gmtime: %+v", tm)
	}
	if x := Timegm(70, 0, 2, 0, 0, 0); x != 86400 {
		t.Fatalf("timegm: %d", x)
	}
	if s, ok := Strftime(0, "%a %c|%x|%X|%p|%P|%z|%Z|%F|%w|%%"); !ok || s != "Thu Thu Jan  1 00:00:00 1970|01/01/70|00:00:00|AM|am|+0000|GMT|1970-01-01|4|%" {
		t.Fatalf("strftime: %q", s)
	}
}
