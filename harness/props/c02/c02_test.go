// Package c02: calls pass and return exactly the values Lua 5.1 prescribes; tail calls are proper.
package c02

import (
	"sort"
	"strings"
	"testing"

	"pgregory.net/rapid"

	"verif/dcheck"
	"verif/e1"
	"verif/lgen"
	"verif/vf"
)

func TestMain(m *testing.M)   { vf.Main(m) }
func TestReplay(t *testing.T) { vf.Replay(t) }

// non-trivial: the program contains a generated call shape (parameter count x vararg x result count x callee kind x
// result context) or a deep tail call that ran; distinct by the set of call-shape signatures plus the source text
var chkCalls = vf.Register("call_shapes", dcheck.Oracle(func(c *dcheck.ProgCase, r *e1.ROutcome) (bool, string) {
	var sigs []string
	for k := range c.Classes {
		if strings.HasPrefix(k, "callsig:") || strings.HasPrefix(k, "tail:") {
			sigs = append(sigs, k)
		}
	}
	sort.Strings(sigs)
	return len(sigs) > 0 && r.In.Stat.Calls >= 2 && dcheck.Values(r) >= 3, strings.Join(sigs, ",")
}))

func init() { chkCalls.Journal = true }

func TestCallShapes(t *testing.T) {
	vf.Rapid(t, func(rt *rapid.T) { chkCalls.Run(rt, dcheck.Gen(rt, lgen.Calls())) })
}
