package c16

import (
	"encoding/json"
	"testing"

	"verif/vf"
)

// TestKnownFindings re-runs the example of every open C16 finding (a replay-file shaped JSON: {"check","case"}) and
// logs whether it still fails.  It never fails the run: open findings are reported by the driver as KNOWN-FINDING.
func TestKnownFindings(t *testing.T) {
	n := 0
	for _, f := range vf.Findings() {
		if f.Property != "C16" || f.Status != "open" || f.Example == "" {
			continue
		}
		n++
		var ex struct {
			Check string          `json:"check"`
			Case  json.RawMessage `json:"case"`
		}
		if err := json.Unmarshal([]byte(f.Example), &ex); err != nil {
			t.Logf("finding %s: example is not a replay case (%v)", f.ID, err)
			continue
		}
		run := localChecks[ex.Check]
		if run == nil {
			t.Logf("finding %s: example names unknown check %q", f.ID, ex.Check)
			continue
		}
		err := run(ex.Case)
		if err != nil {
			t.Logf("KNOWN-FINDING still reproduces: %s: %v", f.ID, err)
		} else {
			t.Logf("finding %s no longer reproduces: its entry should become fixed", f.ID)
		}
	}
	vf.Col("known_findings").Note("open_examples_rerun", n)
}

func tryCase[T any](k *vf.Check[T]) func(json.RawMessage) error {
	return func(raw json.RawMessage) error {
		var c T
		if err := json.Unmarshal(raw, &c); err != nil {
			return err
		}
		return k.Try(&c)
	}
}

var localChecks = map[string]func(json.RawMessage) error{
	"strlit": tryCase(chkLit), "strlit_neg": tryCase(chkLitNeg), "numeral": tryCase(chkNum), "tonumber_base": tryCase(chkBase),
	"quote": tryCase(chkQuote), "tostring": tryCase(chkToStr), "date": tryCase(chkDate),
}
