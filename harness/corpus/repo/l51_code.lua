
if T==nil then
  (Message or print)('\a\n >>> testC not active: skipping opcode tests <<<\n\a')
  return
end
print "testing code generation and optimizations"


-- this code gave an error for the code checker
do
  local function f (a)
  for k,v,w in a do end
  end
end


function check (f, ...)
  local c = T.listcode(f)
  for i=1, arg.n do
    -- print(arg[i], c[i])
    assert(string.find(c[i], '- '..arg[i]..' *%d'))
  end
  assert(c[arg.n+2] == nil)
end


function checkequal (a, b)
  a = T.listcode(a)
  b = T.listcode(b)
  for i = 1, table.getn(a) do
    a[i] = string.gsub(a[i], '%b()', '')   -- remove line number
    b[i] = string.gsub(b[i], '%b()', '')   -- remove line number
    assert(a[i] == b[i])
  end
end


-- some basic instructions
check(function ()
  (function () end){f()}
end, 'CLOSURE', 'NEWTABLE', 'GETGLOBAL', 'CALL', 'SETLIST', 'CALL', 'RETURN')


-- sequence of LOADNILs
check(function ()
  local a,b,c
  local d; local e;
  a = nil; d=nil
end, 'RETURN')


-- single return
check (function (a,b,c) return a end, 'RETURN')


-- infinite loops
check(function () while true do local a = -1 end end,
'LOADK', 'JMP', 'RETURN')

check(function () while 1 do local a = -1 end end,
'LOADK', 'JMP', 'RETURN')

check(function () repeat local x = 1 until false end,
'LOADK', 'JMP', 'RETURN')

check(function () repeat local x until nil end,
'LOADNIL', 'JMP', 'RETURN')

check(function () repeat local x = 1 until true end,
'LOADK', 'RETURN')


-- concat optimization
check(function (a,b,c,d) return a..b..c..d end,
  'MOVE', 'MOVE', 'MOVE', 'MOVE', 'CONCAT', 'RETURN')

-- not
check(function () return not not nil end, 'LOADBOOL', 'RETURN')
check(function () return not not false end, 'LOADBOOL', 'RETURN')
check(function () return not not true end, 'LOADBOOL', 'RETURN')
check(function () return not not 1 end, 'LOADBOOL', 'RETURN')

-- direct access to locals
check(function ()
  local a,b,c,d
  a = b*2
  c[4], a[b] = -((a + d/-20.5 - a[b]) ^ a.x), b
end,
  'MUL',
  'DIV', 'ADD', 'GETTABLE', 'SUB', 'GETTABLE', 'POW',
    'UNM', 'SETTABLE', 'SETTABLE', 'RETURN')


-- direct access to constants
check(function ()
  local a,b
  a.x = 0
  a.x = b
  a[b] = 'y'
  a = 1 - a
  b = 1/a
  b = 5+4
  a[true] = false
end,
  'SETTABLE', 'SETTABLE', 'SETTABLE', 'SUB', 'DIV', 'LOADK',
  'SETTABLE', 'RETURN')

local function f () return -((2^8 + -(-1)) % 8)/2 * 4 - 3 end

check(f, 'LOADK', 'RETURN')
assert(f() == -5)

check(function ()
  local a,b,c
  b[c], a = c, b
  b[a], a = c, b
  a, b = c, a
  a = a
end, 
  'MOVE', 'MOVE', 'SETTABLE',
  'MOVE', 'MOVE', 'MOVE', 'SETTABLE',
  'MOVE', 'MOVE', 'MOVE',
  -- no code for a = a
  'RETURN')


-- x == nil , x ~= nil
checkequal(function () if (a==nil) then a=1 end; if a~=nil then a=1 end end,
           function () if (a==9) then a=1 end; if a~=9 then a=1 end end)

check(function () if a==nil then a=1 end end,
'GETGLOBAL', 'EQ', 'JMP', 'LOADK', 'SETGLOBAL', 'RETURN')

-- de morgan
checkequal(function () local a; if not (a or b) then b=a end end,
           function () local a; if (not a and not b) then b=a end end)

checkequal(function (l) local a; return 0 <= a and a <= l end,
           function (l) local a; return not (not(a >= 0) or not(a <= l)) end)


print 'OK'

