// Package c10: the Go API of gopher-lua — value stack model, call contract, object-level operations.
//
// Three sub-check families (DESIGN §4/C10):
//
//	stack_machine  generated sequences of Push/Pop/Get/SetTop/Insert/Remove/Replace/GetTop executed by a host
//	               function entered through a generated chain of Lua and Go activations, against a slice model;
//	               every outer activation places sentinel values and re-reads them afterwards
//	call_contract  Call/PCall/CallByParam × (nargs, NRet, produced, callee kind, failure kind, handler kind)
//	               executed at top level or inside a host function at generated depth, against the arithmetic contract
//	object_ops     GetTable/SetTable/GetField/SetField/GetGlobal/SetGlobal/Equal/RawEqual/LessThan/Concat/ObjLen/
//	               GetMetatable/ToStringMeta/Next on operands of a generated object zoo with logging metamethod
//	               handlers, differentially against the corresponding Lua expression evaluated in the same state on
//	               an identically constructed second copy of the zoo
//
// This file holds what the three share: value specs, registry configurations, and the activation-chain builder.
package c10

import (
	"fmt"
	"strings"
	"testing"

	lua "github.com/yuin/gopher-lua"
	"pgregory.net/rapid"

	"verif/vf"
)

func TestMain(m *testing.M) { vf.Main(m) }

func TestReplay(t *testing.T) { vf.Replay(t) }

// ---------------------------------------------------------------------------------------------
// values

// Val is a serialisable description of a stack value.
type Val struct {
	K string `json:"k"`           // n (number) s (string) b (bool) nil t (table of the per-case pool)
	N int    `json:"n,omitempty"` // number / string suffix / bool / pool index
}

const poolTables = 3

type valEnv struct {
	tables [poolTables]*lua.LTable
}

func newValEnv(L *lua.LState) *valEnv {
	e := &valEnv{}
	for i := range e.tables {
		e.tables[i] = L.NewTable()
	}
	return e
}

func (e *valEnv) val(v Val) lua.LValue {
	switch v.K {
	case "n":
		return lua.LNumber(v.N)
	case "s":
		return lua.LString(fmt.Sprintf("v%d", v.N))
	case "b":
		return lua.LBool(v.N != 0)
	case "t":
		n := v.N % poolTables
		if n < 0 {
			n = -n
		}
		return e.tables[n]
	}
	return lua.LNil
}

// desc renders a value for failure messages without addresses (so that messages are stable across processes).
func (e *valEnv) desc(v lua.LValue) string {
	if v == nil {
		return "<Go nil>"
	}
	switch x := v.(type) {
	case *lua.LNilType:
		return "nil"
	case lua.LBool:
		return fmt.Sprintf("%v", bool(x))
	case lua.LNumber:
		return fmt.Sprintf("%v", float64(x))
	case lua.LString:
		return fmt.Sprintf("%q", string(x))
	case *lua.LTable:
		if e != nil {
			for i, t := range e.tables {
				if t == x {
					return fmt.Sprintf("table#%d", i)
				}
			}
		}
		return "table?"
	case *lua.LFunction:
		return "function"
	case *lua.LUserData:
		return "userdata"
	}
	return "?" + v.Type().String()
}

func genVal(t *rapid.T) Val {
	switch rapid.IntRange(0, 9).Draw(t, "valkind") {
	case 0, 1, 2:
		return Val{K: "n", N: rapid.IntRange(-3, 1000).Draw(t, "num")}
	case 3, 4, 5:
		return Val{K: "s", N: rapid.IntRange(0, 50).Draw(t, "str")}
	case 6:
		return Val{K: "b", N: rapid.IntRange(0, 1).Draw(t, "bool")}
	case 7:
		return Val{K: "nil"}
	default:
		return Val{K: "t", N: rapid.IntRange(0, poolTables-1).Draw(t, "tab")}
	}
}

// ---------------------------------------------------------------------------------------------
// registry / call-stack configuration

type RegCfg struct {
	Default  bool `json:"default,omitempty"`  // lua.NewState() with no options
	Size     int  `json:"size,omitempty"`     // RegistrySize
	Max      int  `json:"max,omitempty"`      // RegistryMaxSize (0: fixed)
	Step     int  `json:"step,omitempty"`     // RegistryGrowStep
	MinStack bool `json:"minstack,omitempty"` // MinimizeStackMemory (auto-growing call-frame stack)
}

func newState(c RegCfg) *lua.LState {
	if c.Default {
		return lua.NewState()
	}
	return lua.NewState(lua.Options{RegistrySize: c.Size, RegistryMaxSize: c.Max, RegistryGrowStep: c.Step,
		MinimizeStackMemory: c.MinStack, CallStackSize: 64})
}

func (c RegCfg) class() string {
	switch {
	case c.Default:
		return "reg:default_fixed"
	case c.Max == 0:
		return "reg:fixed"
	}
	return "reg:growable"
}

// genRegCfg: growable registries start at the smallest size the constructor accepts (128) so that pushing a few
// hundred values crosses several growth steps; fixed ones are large enough for everything a case can push
// (running out of a fixed registry is C12's subject, not C10's).
func genRegCfg(t *rapid.T) RegCfg {
	switch rapid.IntRange(0, 5).Draw(t, "regcfg") {
	case 0:
		return RegCfg{Default: true}
	case 1:
		return RegCfg{Size: 4096, MinStack: rapid.Bool().Draw(t, "minstack")}
	default:
		return RegCfg{Size: 128, Max: 128 + 8192, Step: rapid.SampledFrom([]int{1, 3, 16, 32, 100}).Draw(t, "step"),
			MinStack: rapid.Bool().Draw(t, "minstack")}
	}
}

// ---------------------------------------------------------------------------------------------
// activation chain

// Frame describes one intermediate activation between the top level and the innermost host function.
type Frame struct {
	Kind   string `json:"kind"`             // lua | go
	NArgs  int    `json:"nargs"`            // number of arguments this activation is called with
	NPar   int    `json:"npar,omitempty"`   // lua: declared fixed parameters
	VarArg bool   `json:"vararg,omitempty"` // lua: declared ...
	Sent   int    `json:"sent"`             // sentinels it owns while the inner call runs (lua: locals, go: pushed values)
	Pend   int    `json:"pend,omitempty"`   // lua: sentinel values already evaluated as earlier arguments of the enclosing call
	Via    string `json:"via"`              // lua: call|pcall|xpcall|index   go: Call|PCall|PCallH|CallByParam|CallByParamP|CallByParamPH|GetTable
	Cap    bool   `json:"cap,omitempty"`    // lua: the sentinel locals are also captured by a closure and re-read through it
	NRet   int    `json:"nret"`             // number of results requested from the inner call (-1: all)
	Ret    int    `json:"ret"`              // number of marker values it returns
	Junk   int    `json:"junk,omitempty"`   // go: values pushed after the call below the returned ones
}

func protects(via string) bool {
	switch via {
	case "pcall", "xpcall", "PCall", "PCallH", "CallByParamP", "CallByParamPH":
		return true
	}
	return false
}

var goVias = []string{"Call", "PCall", "PCallH", "CallByParam", "CallByParamP", "CallByParamPH", "GetTable"}
var luaVias = []string{"call", "call", "pcall", "xpcall", "index"}

// viaMeta: the inner function is not called directly but runs as the __index handler of a table that the outer
// activation indexes (Lua: M[key], Go: L.GetTable(M, key)); it receives (M, key) and one result is used.
func viaMeta(via string) bool { return via == "index" || via == "GetTable" }

func genFrame(t *rapid.T) Frame {
	f := Frame{NArgs: rapid.IntRange(0, 4).Draw(t, "fnargs"), Sent: rapid.IntRange(0, 3).Draw(t, "sent"),
		Ret: rapid.IntRange(0, 3).Draw(t, "fret")}
	if rapid.Bool().Draw(t, "islua") {
		f.Kind = "lua"
		f.NPar = rapid.IntRange(0, 3).Draw(t, "npar")
		f.VarArg = rapid.Bool().Draw(t, "vararg")
		f.Pend = rapid.IntRange(0, 2).Draw(t, "pend")
		f.Cap = rapid.Bool().Draw(t, "cap")
		f.Via = rapid.SampledFrom(luaVias).Draw(t, "lvia")
		f.NRet = rapid.SampledFrom([]int{-1, 0, 1, 2, 3}).Draw(t, "lnret")
	} else {
		f.Kind = "go"
		f.Via = rapid.SampledFrom(goVias).Draw(t, "gvia")
		f.NRet = rapid.SampledFrom([]int{-1, 0, 1, 3, 2}).Draw(t, "gnret")
		f.Junk = rapid.IntRange(0, 2).Draw(t, "junk")
	}
	return f
}

func genChain(t *rapid.T, maxLen int) []Frame {
	n := rapid.IntRange(0, maxLen).Draw(t, "chainlen")
	var out []Frame
	for i := 0; i < n; i++ {
		out = append(out, genFrame(t))
	}
	return out
}

// TopSpec is the top-level activation (no call frame): it owns Sent values and calls the first frame.
type TopSpec struct {
	Sent int    `json:"sent"`
	Via  string `json:"via"`  // PCall | PCallH | CallByParamP | CallByParamPH   (always protected)
	NRet int    `json:"nret"` // -1 all
}

func genTop(t *rapid.T) TopSpec {
	return TopSpec{Sent: rapid.IntRange(0, 3).Draw(t, "topsent"),
		Via:  rapid.SampledFrom([]string{"PCall", "PCallH", "CallByParamP", "CallByParamPH"}).Draw(t, "topvia"),
		NRet: rapid.SampledFrom([]int{-1, 0, 1, 3}).Draw(t, "topnret")}
}

// expv is an expected stack slot: an exact value, or "any non-nil value" (error messages whose text the property
// does not fix).
type expv struct {
	v   lua.LValue
	any bool
}

func exact(vs ...lua.LValue) []expv {
	out := make([]expv, len(vs))
	for i, v := range vs {
		out[i] = expv{v: v}
	}
	return out
}

// adjust is the result-count rule of the property: all of them for MultRet, nil-padded or truncated otherwise.
func adjust(res []expv, nret int) []expv {
	if nret < 0 {
		return append([]expv(nil), res...)
	}
	out := make([]expv, nret)
	for i := range out {
		if i < len(res) {
			out[i] = res[i]
		} else {
			out[i] = expv{v: lua.LNil}
		}
	}
	return out
}

// chainRun builds and runs  top level -> frame 0 -> ... -> frame n-1 -> inner host function.
type chainRun struct {
	L      *lua.LState
	env    *valEnv
	top    TopSpec
	frames []Frame
	// the innermost host function
	innerNArgs int
	innerBody  func(L *lua.LState) int
	innerRes   []lua.LValue // what it returns when it does not raise
	innerFails bool         // it raises an error

	fn       []lua.LValue  // fn[i] for i in 0..n (n = inner)
	metaObj  []*lua.LTable // metaObj[i]: the table frame i indexes when its Via is index/GetTable
	failsOut []bool        // failsOut[i]: the error leaves activation i
	problems []string
	hGo      *lua.LFunction
	entered  int // how many times the inner body ran
}

func (c *chainRun) fail(format string, args ...any) {
	if len(c.problems) < 8 {
		c.problems = append(c.problems, fmt.Sprintf(format, args...))
	}
}

func (c *chainRun) err() error {
	if len(c.problems) == 0 {
		return nil
	}
	return fmt.Errorf("%s", strings.Join(c.problems, "; "))
}

func argVal(i, k int) lua.LValue  { return lua.LString(fmt.Sprintf("a%d.%d", i, k)) }
func sentVal(i, k int) lua.LValue { return lua.LString(fmt.Sprintf("s%d.%d", i, k)) }
func pendVal(i, k int) lua.LValue { return lua.LString(fmt.Sprintf("q%d.%d", i, k)) }
func markVal(i, k int) lua.LValue { return lua.LString(fmt.Sprintf("r%d.%d", i, k)) }
func junkVal(i, k int) lua.LValue { return lua.LString(fmt.Sprintf("j%d.%d", i, k)) }

const handlerResult = lua.LString("handled")

func (c *chainRun) n() int { return len(c.frames) }

// prepare creates what argsOf needs before anything is built.
func (c *chainRun) prepare() {
	if c.metaObj != nil {
		return
	}
	c.metaObj = make([]*lua.LTable, c.n())
	for i, f := range c.frames {
		if viaMeta(f.Via) {
			c.metaObj[i] = c.L.NewTable()
		}
	}
}

// calledViaMeta: activation i runs as an __index handler of the table its caller indexes.
func (c *chainRun) calledViaMeta(i int) bool { return i > 0 && viaMeta(c.frames[i-1].Via) }

// nargsOf: number of arguments activation i is called with (i == n: the inner function).
func (c *chainRun) nargsOf(i int) int {
	if c.calledViaMeta(i) {
		return 2
	}
	if i == c.n() {
		return c.innerNArgs
	}
	return c.frames[i].NArgs
}

func (c *chainRun) argsOf(i int) []lua.LValue {
	c.prepare()
	out := make([]lua.LValue, c.nargsOf(i))
	for k := range out {
		out[k] = argVal(i, k+1)
	}
	if c.calledViaMeta(i) {
		out[0] = c.metaObj[i-1]
	}
	return out
}

// nretOf: results the inner call of frame f is asked for.
func nretOf(f Frame) int {
	if viaMeta(f.Via) {
		return 1
	}
	return f.NRet
}

// resOf: what activation i returns when it completes.
func (c *chainRun) resOf(i int) []expv {
	if i == c.n() {
		return exact(c.innerRes...)
	}
	out := make([]expv, c.frames[i].Ret)
	for k := range out {
		out[k] = expv{v: markVal(i, k+1)}
	}
	return out
}

func (c *chainRun) match(who, what string, pos int, e expv, got lua.LValue) {
	if got == nil {
		c.fail("%s %s: slot %d is a Go nil (expected %s)", who, what, pos, c.descExp(e))
		return
	}
	if e.any {
		if got == lua.LNil {
			c.fail("%s %s: slot %d is nil, expected an error value", who, what, pos)
		}
		return
	}
	if got != e.v {
		c.fail("%s %s: slot %d is %s, expected %s", who, what, pos, c.env.desc(got), c.env.desc(e.v))
	}
}

func (c *chainRun) descExp(e expv) string {
	if e.any {
		return "<any error value>"
	}
	return c.env.desc(e.v)
}

// expectStack compares the whole visible list of the current activation with exp: GetTop, every positive and
// negative index, and the reads just outside the list (which must be LNil, never a Go nil and never a caller's value).
func (c *chainRun) expectStack(L *lua.LState, who, when string, exp []expv) bool {
	before := len(c.problems)
	n := L.GetTop()
	if n != len(exp) {
		c.fail("%s %s: GetTop()=%d, expected %d", who, when, n, len(exp))
	}
	lim := len(exp)
	if n < lim {
		lim = n
	}
	for k := 1; k <= lim; k++ {
		c.match(who, when, k, exp[k-1], L.Get(k))
	}
	// negative indices address the same list from its end
	for k := 1; k <= lim && n == len(exp); k++ {
		c.match(who, when+" (negative index)", -k, exp[n-k], L.Get(-k))
	}
	for _, idx := range []int{0, n + 1, n + 2, -(n + 1), -(n + 2)} {
		v := L.Get(idx)
		if v != lua.LNil {
			c.fail("%s %s: Get(%d) outside the list 1..%d gave %s, expected nil", who, when, idx, n, c.env.desc(v))
		}
	}
	return len(c.problems) == before
}

func (c *chainRun) who(i int) string {
	if i < 0 {
		return "top-level"
	}
	return fmt.Sprintf("frame%d(%s)", i, c.frames[i].Kind)
}

// build prepares the functions bottom-up.  It runs at top level on an empty stack and leaves it empty.
func (c *chainRun) build() error {
	L := c.L
	n := c.n()
	c.failsOut = make([]bool, n+1)
	c.failsOut[n] = c.innerFails
	for j := n - 1; j >= 0; j-- {
		c.failsOut[j] = c.failsOut[j+1] && !protects(c.frames[j].Via)
	}
	c.hGo = L.NewFunction(func(L *lua.LState) int {
		L.Push(handlerResult)
		return 1
	})
	c.fn = make([]lua.LValue, n+1)
	c.fn[n] = L.NewFunction(func(L *lua.LState) int {
		c.entered++
		return c.innerBody(L)
	})
	c.prepare()
	chkargs := L.NewFunction(c.luaChkArgs)
	chkres := L.NewFunction(c.luaChkRes)
	chksent := L.NewFunction(c.luaChkSent)
	for i := n - 1; i >= 0; i-- {
		f := c.frames[i]
		var m lua.LValue = lua.LNil
		if c.metaObj[i] != nil {
			mt := L.NewTable()
			mt.RawSetString("__index", c.fn[i+1])
			c.metaObj[i].Metatable = mt
			m = c.metaObj[i]
		}
		if f.Kind == "go" {
			i := i
			c.fn[i] = L.NewFunction(func(L *lua.LState) int { return c.goFrame(L, i) })
			continue
		}
		src := c.luaFrameSource(i)
		chunk, err := L.LoadString(src)
		if err != nil {
			return fmt.Errorf("harness: generated Lua frame does not compile: %v\n%s", err, src)
		}
		top := L.GetTop()
		L.Push(chunk)
		L.Push(c.fn[i+1])
		L.Push(chkargs)
		L.Push(chkres)
		L.Push(chksent)
		L.Push(L.GetGlobal("pcall"))
		L.Push(L.GetGlobal("xpcall"))
		L.Push(c.hGo)
		L.Push(m)
		if err := L.PCall(8, 1, nil); err != nil {
			return fmt.Errorf("harness: instantiating Lua frame failed: %v", err)
		}
		c.fn[i] = L.Get(-1)
		L.Pop(1)
		if L.GetTop() != top {
			return fmt.Errorf("harness: stack not balanced after instantiating a Lua frame (%d vs %d)", L.GetTop(), top)
		}
	}
	return nil
}

func luaStrList(vs []lua.LValue) string {
	parts := make([]string, len(vs))
	for i, v := range vs {
		parts[i] = fmt.Sprintf("%q", string(v.(lua.LString))) // names are plain ASCII identifiers with dots
	}
	return strings.Join(parts, ", ")
}

func (c *chainRun) luaFrameSource(i int) string {
	f := c.frames[i]
	var b strings.Builder
	b.WriteString("local inner, chkargs, chkres, chksent, pcall, xpcall, hnd, M = ...\n")
	var params []string
	for k := 1; k <= f.NPar; k++ {
		params = append(params, fmt.Sprintf("p%d", k))
	}
	seen := append([]string(nil), params...)
	if f.VarArg {
		params = append(params, "...")
		seen = append(seen, "...")
	}
	fmt.Fprintf(&b, "return function(%s)\n", strings.Join(params, ", "))
	fmt.Fprintf(&b, "  chkargs(%s)\n", strings.Join(append([]string{fmt.Sprint(i)}, seen...), ", "))
	var sn, sv []string
	for k := 1; k <= f.Sent; k++ {
		sn = append(sn, fmt.Sprintf("s%d", k))
		sv = append(sv, fmt.Sprintf("%q", string(sentVal(i, k).(lua.LString))))
	}
	if f.Sent > 0 {
		fmt.Fprintf(&b, "  local %s = %s\n", strings.Join(sn, ", "), strings.Join(sv, ", "))
		if f.Cap {
			fmt.Fprintf(&b, "  local function peek() return %s end\n", strings.Join(sn, ", "))
		}
	}
	args := ""
	if !viaMeta(f.Via) {
		args = luaStrList(c.argsOf(i + 1))
	}
	var call string
	switch f.Via {
	case "pcall":
		call = "pcall(inner"
		if args != "" {
			call += ", " + args
		}
		call += ")"
	case "xpcall":
		call = "xpcall(function() return inner(" + args + ") end, hnd)"
	case "index":
		call = "M[" + fmt.Sprintf("%q", string(argVal(i+1, 2).(lua.LString))) + "]"
	default:
		call = "inner(" + args + ")"
	}
	pre := []string{fmt.Sprint(i)}
	for k := 1; k <= f.Pend; k++ {
		pre = append(pre, fmt.Sprintf("%q", string(pendVal(i, k).(lua.LString))))
	}
	nret := nretOf(f)
	switch {
	case f.Via == "index":
		fmt.Fprintf(&b, "  chkres(%s)\n", strings.Join(append(pre, call), ", "))
	case nret < 0:
		fmt.Fprintf(&b, "  chkres(%s)\n", strings.Join(append(pre, call), ", "))
	case nret == 0:
		fmt.Fprintf(&b, "  %s\n  chkres(%s)\n", call, strings.Join(pre, ", "))
	case nret == 1:
		fmt.Fprintf(&b, "  chkres(%s)\n", strings.Join(append(pre, "("+call+")"), ", "))
	default:
		var xs []string
		for k := 1; k <= nret; k++ {
			xs = append(xs, fmt.Sprintf("x%d", k))
		}
		fmt.Fprintf(&b, "  local %s = %s\n  chkres(%s)\n", strings.Join(xs, ", "), call, strings.Join(append(pre, xs...), ", "))
	}
	fmt.Fprintf(&b, "  chksent(%s)\n", strings.Join(append([]string{fmt.Sprint(i)}, sn...), ", "))
	if f.Cap && f.Sent > 0 {
		fmt.Fprintf(&b, "  chksent(%d, peek())\n", i)
	}
	var rv []string
	for k := 1; k <= f.Ret; k++ {
		rv = append(rv, fmt.Sprintf("%q", string(markVal(i, k).(lua.LString))))
	}
	fmt.Fprintf(&b, "  return %s\nend\n", strings.Join(rv, ", "))
	return b.String()
}

// frameIndexArg reads the frame index a Lua frame passes as first argument to the chk* callbacks.
func (c *chainRun) frameIndexArg(L *lua.LState) (int, bool) {
	n, ok := L.Get(1).(lua.LNumber)
	if !ok || int(n) < 0 || int(n) >= c.n() {
		c.fail("harness callback: bad frame index %s", c.env.desc(L.Get(1)))
		return 0, false
	}
	return int(n), true
}

func (c *chainRun) expectArgsFrom2(L *lua.LState, who, what string, exp []expv) {
	got := L.GetTop() - 1
	if got != len(exp) {
		c.fail("%s %s: %d values, expected %d", who, what, got, len(exp))
		return
	}
	for k := range exp {
		c.match(who, what, k+1, exp[k], L.Get(k+2))
	}
}

// luaChkArgs: what a Lua frame saw as its parameters (fixed parameters, then the varargs).
func (c *chainRun) luaChkArgs(L *lua.LState) int {
	i, ok := c.frameIndexArg(L)
	if !ok {
		return 0
	}
	f := c.frames[i]
	args := c.argsOf(i)
	n := f.NPar
	if f.VarArg && len(args) > f.NPar {
		n = len(args)
	}
	exp := make([]expv, n)
	for k := range exp {
		if k < len(args) {
			exp[k] = expv{v: args[k]}
		} else {
			exp[k] = expv{v: lua.LNil}
		}
	}
	c.expectArgsFrom2(L, c.who(i), "parameters", exp)
	return 0
}

// luaChkRes: pending sentinel arguments followed by the (adjusted) results of the inner call.
func (c *chainRun) luaChkRes(L *lua.LState) int {
	i, ok := c.frameIndexArg(L)
	if !ok {
		return 0
	}
	f := c.frames[i]
	var exp []expv
	for k := 1; k <= f.Pend; k++ {
		exp = append(exp, expv{v: pendVal(i, k)})
	}
	var raw []expv
	fails := c.failsOut[i+1]
	switch f.Via {
	case "pcall":
		if fails {
			raw = []expv{{v: lua.LFalse}, {any: true}}
		} else {
			raw = append([]expv{{v: lua.LTrue}}, c.resOf(i+1)...)
		}
	case "xpcall":
		if fails {
			raw = []expv{{v: lua.LFalse}, {v: handlerResult}}
		} else {
			raw = append([]expv{{v: lua.LTrue}}, c.resOf(i+1)...)
		}
	default:
		if fails {
			c.fail("%s: the inner call returned although an error had to propagate through it", c.who(i))
		}
		raw = c.resOf(i + 1)
	}
	exp = append(exp, adjust(raw, nretOf(f))...)
	c.expectArgsFrom2(L, c.who(i), "pending arguments + results of the inner call", exp)
	return 0
}

func (c *chainRun) luaChkSent(L *lua.LState) int {
	i, ok := c.frameIndexArg(L)
	if !ok {
		return 0
	}
	f := c.frames[i]
	exp := make([]expv, f.Sent)
	for k := range exp {
		exp[k] = expv{v: sentVal(i, k+1)}
	}
	c.expectArgsFrom2(L, c.who(i), "caller-owned locals after the inner call", exp)
	return 0
}

// callInner performs the inner call of a Go activation (or of the top level) and returns the error of a protected call.
func (c *chainRun) callInner(L *lua.LState, via string, nret int, callee lua.LValue, args []lua.LValue) error {
	switch via {
	case "Call":
		L.Push(callee)
		for _, a := range args {
			L.Push(a)
		}
		L.Call(len(args), nret)
		return nil
	case "PCall", "PCallH":
		L.Push(callee)
		for _, a := range args {
			L.Push(a)
		}
		var h *lua.LFunction
		if via == "PCallH" {
			h = c.hGo
		}
		return L.PCall(len(args), nret, h)
	case "CallByParam":
		return L.CallByParam(lua.P{Fn: callee, NRet: nret, Protect: false}, args...)
	case "CallByParamP":
		return L.CallByParam(lua.P{Fn: callee, NRet: nret, Protect: true}, args...)
	case "CallByParamPH":
		return L.CallByParam(lua.P{Fn: callee, NRet: nret, Protect: true, Handler: c.hGo}, args...)
	}
	panic("harness: unknown via " + via)
}

// goFrame is the body of Go activation i (i == -1: the top level, which is not a function).
func (c *chainRun) goFrame(L *lua.LState, i int) int {
	var f Frame
	var base []expv
	if i < 0 {
		f = Frame{Kind: "go", Sent: c.top.Sent, Via: c.top.Via, NRet: c.top.NRet}
	} else {
		f = c.frames[i]
		base = exact(c.argsOf(i)...)
	}
	who := c.who(i)
	c.expectStack(L, who, "on entry", base)
	exp := append([]expv(nil), base...)
	for k := 1; k <= f.Sent; k++ {
		L.Push(sentVal(i, k))
		exp = append(exp, expv{v: sentVal(i, k)})
	}
	fails := c.failsOut[i+1]
	if f.Via == "GetTable" {
		// the inner function runs as __index handler inside an object-level call: nothing may appear on this list
		got := L.GetTable(c.metaObj[i], argVal(i+1, 2))
		if fails {
			c.fail("%s: GetTable returned although its __index handler raised an error", who)
		}
		c.match(who, "value returned by GetTable (first result of the __index handler)", 1, adjust(c.resOf(i+1), 1)[0], got)
		c.expectStack(L, who, "after GetTable ran the inner function as __index handler", exp)
		for k := 1; k <= f.Junk; k++ {
			L.Push(junkVal(i, k))
		}
		for k := 1; k <= f.Ret; k++ {
			L.Push(markVal(i, k))
		}
		return f.Ret
	}
	err := c.callInner(L, f.Via, f.NRet, c.fn[i+1], c.argsOf(i+1))
	if protects(f.Via) {
		if fails && err == nil {
			c.fail("%s: protected call returned no error although the callee raised one", who)
		}
		if !fails && err != nil {
			c.fail("%s: protected call returned an error although nothing was raised: %v", who, firstLine(err.Error()))
		}
		if err != nil {
			if ae, ok := err.(*lua.ApiError); !ok {
				c.fail("%s: error of a protected call is %T, not *ApiError", who, err)
			} else if strings.HasSuffix(f.Via, "H") && ae.Object != handlerResult {
				c.fail("%s: error object after a handler ran is %s, expected the handler's result", who, c.env.desc(ae.Object))
			}
		}
		if err == nil {
			exp = append(exp, adjust(c.resOf(i+1), f.NRet)...)
		}
	} else {
		if fails {
			c.fail("%s: unprotected call returned although the callee raised an error", who)
		}
		exp = append(exp, adjust(c.resOf(i+1), f.NRet)...)
	}
	c.expectStack(L, who, "after the inner call (own arguments, own sentinels, results)", exp)
	if i < 0 {
		return 0
	}
	for k := 1; k <= f.Junk; k++ {
		L.Push(junkVal(i, k))
	}
	for k := 1; k <= f.Ret; k++ {
		L.Push(markVal(i, k))
	}
	return f.Ret
}

// run executes the chain once from the top level (stack must be empty) and clears the stack afterwards.
func (c *chainRun) run() {
	L := c.L
	func() {
		defer func() {
			if r := recover(); r != nil {
				c.fail("Go panic escaped to the top level: %v", firstLine(fmt.Sprint(r)))
			}
		}()
		c.goFrame(L, -1)
	}()
	L.SetTop(0)
}

func firstLine(s string) string {
	if i := strings.IndexByte(s, '\n'); i >= 0 {
		s = s[:i]
	}
	if len(s) > 300 {
		s = s[:300]
	}
	return s
}

func chainClasses(k *vf.C, frames []Frame) {
	for _, f := range frames {
		k.Class("frame:" + f.Kind)
		k.Class("via:" + f.Via)
	}
}
