// Package cref exposes the C library (libc snprintf, libm) as an oracle that shares no code with
// gopher-lua or with Go's fmt/math packages.  Everything goes through tiny static C shims compiled by cgo.
//
// Printf side: one conversion specification + one argument per call, with the argument converted the way
// Lua 5.1's str_format converts a lua_Number (long long / unsigned long long / int-for-%c / double / char*).
// The conversions double -> integer are done in C as well, so that the reference does not depend on Go's
// float->int conversion rules.
//
// libm side: the double functions (exact-equality oracles for floor ceil fabs fmod modf frexp ldexp sqrt) and,
// for the transcendental functions, the error of a candidate result measured in units in the last place of a
// double against the 80-bit long double version of the function (sinl, powl, ...), which carries 11 more
// mantissa bits than a double and therefore stands in for the mathematically exact value.
package cref

/*
#cgo LDFLAGS: -lm
#include <stdio.h>
#include <stdlib.h>
#include <string.h>
#include <math.h>
#include <float.h>

static int cref_fmt_ll(char *buf, size_t n, const char *fmt, long long v) { return snprintf(buf, n, fmt, v); }
static int cref_fmt_ull(char *buf, size_t n, const char *fmt, unsigned long long v) { return snprintf(buf, n, fmt, v); }
static int cref_fmt_int(char *buf, size_t n, const char *fmt, int v) { return snprintf(buf, n, fmt, v); }
static int cref_fmt_dbl(char *buf, size_t n, const char *fmt, double v) { return snprintf(buf, n, fmt, v); }
static int cref_fmt_str(char *buf, size_t n, const char *fmt, const char *v) { return snprintf(buf, n, fmt, v); }
static int cref_fmt_none(char *buf, size_t n, const char *fmt) { return snprintf(buf, n, fmt, 0); }

static long long cref_d2ll(double d) { return (long long)d; }
static unsigned long long cref_d2ull(double d) { return (unsigned long long)d; }
static int cref_d2int(double d) { return (int)d; }
static int cref_d2uchar(double d) { return (unsigned char)(int)d; }

static double cref_fn1(int f, double x) {
	switch (f) {
	case 0: return floor(x);
	case 1: return ceil(x);
	case 2: return fabs(x);
	case 3: return sqrt(x);
	case 4: return exp(x);
	case 5: return log(x);
	case 6: return log10(x);
	case 7: return sin(x);
	case 8: return cos(x);
	case 9: return tan(x);
	case 10: return asin(x);
	case 11: return acos(x);
	case 12: return atan(x);
	case 13: return sinh(x);
	case 14: return cosh(x);
	case 15: return tanh(x);
	}
	return NAN;
}

static double cref_fn2(int f, double x, double y) {
	switch (f) {
	case 0: return fmod(x, y);
	case 1: return pow(x, y);
	case 2: return atan2(x, y);
	}
	return NAN;
}

static double cref_modf(double x, double *ip) { return modf(x, ip); }
static double cref_frexp(double x, int *e) { return frexp(x, e); }
static double cref_ldexp(double x, int e) { return ldexp(x, e); }

static const long double cref_pil = 3.14159265358979323846264338327950288L;

// the long double reference value of function f at (x, y); f numbering: 100+ are the two-argument ones
static long double cref_refl(int f, double x, double y) {
	switch (f) {
	case 3: return sqrtl(x);
	case 4: return expl(x);
	case 5: return logl(x);
	case 6: return log10l(x);
	case 7: return sinl(x);
	case 8: return cosl(x);
	case 9: return tanl(x);
	case 10: return asinl(x);
	case 11: return acosl(x);
	case 12: return atanl(x);
	case 13: return sinhl(x);
	case 14: return coshl(x);
	case 15: return tanhl(x);
	case 16: return (long double)x * 180.0L / cref_pil; // deg
	case 17: return (long double)x * cref_pil / 180.0L; // rad
	case 101: return powl(x, y);
	case 102: return atan2l(x, y);
	}
	return NAN;
}

// cref_err_ulps: distance between the candidate double `got` and the long double reference, in units of the
// spacing of doubles at the reference value.  NaN reference: 0 when got is NaN, +inf otherwise.
// An infinite candidate is placed at +-2^1024 (one step above DBL_MAX) so that overflow decisions taken
// within one ulp of the overflow threshold are judged like any other rounding.
static double cref_err_ulps(int f, double x, double y, double got, double *refd) {
	long double r = cref_refl(f, x, y);
	*refd = (double)r;
	if (isnan(r)) return isnan(got) ? 0.0 : INFINITY;
	if (isnan(got)) return INFINITY;
	if (isinf(r)) return (isinf(got) && ((got > 0) == (r > 0))) ? 0.0 : INFINITY;
	long double g = got;
	long double a = fabsl(r);
	if (isinf(got)) {
		// reference at or beyond 2^1024 in magnitude: the double result is the infinity of that sign
		if (a >= ldexpl(1.0L, 1024)) return ((got > 0) == (r > 0)) ? 0.0 : INFINITY;
		g = (got > 0) ? ldexpl(1.0L, 1024) : -ldexpl(1.0L, 1024);
	}
	long double ulp;
	if (a < (long double)DBL_MIN) {
		ulp = ldexpl(1.0L, -1074);
	} else if (a >= ldexpl(1.0L, 1024)) {
		ulp = ldexpl(1.0L, 1023 - 52);
	} else {
		int e;
		frexpl(a, &e); // a = m * 2^e, m in [0.5, 1)
		ulp = ldexpl(1.0L, e - 53);
	}
	long double d = fabsl(g - r) / ulp;
	if (d > 1e300L) return 1e300;
	if (d == 0 && got == 0 && r == 0) {
		// both zero: the sign of zero is part of the IEEE result
		if (signbit(got) != signbit((double)r)) return 0.5;
	}
	return (double)d;
}
*/
import "C"

import (
	"unsafe"
)

// ---------------------------------------------------------------------------------------------
// printf

func run(format string, call func(buf *C.char, n C.size_t, f *C.char) C.int) []byte {
	cf := C.CString(format)
	defer C.free(unsafe.Pointer(cf))
	var stack [600]byte
	n := call((*C.char)(unsafe.Pointer(&stack[0])), C.size_t(len(stack)), cf)
	if n < 0 {
		return nil
	}
	if int(n) < len(stack) {
		return append([]byte{}, stack[:int(n)]...)
	}
	big := make([]byte, int(n)+1)
	n2 := call((*C.char)(unsafe.Pointer(&big[0])), C.size_t(len(big)), cf)
	if n2 < 0 || int(n2) >= len(big) {
		return nil
	}
	return big[:int(n2)]
}

// SnprintfLL formats v with a conversion specification that must end in one of d i (length modifier ll is
// expected to be part of format, e.g. "%+5lld").
func SnprintfLL(format string, v int64) []byte {
	return run(format, func(b *C.char, n C.size_t, f *C.char) C.int { return C.cref_fmt_ll(b, n, f, C.longlong(v)) })
}

// SnprintfULL is for o x X u with the ll length modifier.
func SnprintfULL(format string, v uint64) []byte {
	return run(format, func(b *C.char, n C.size_t, f *C.char) C.int { return C.cref_fmt_ull(b, n, f, C.ulonglong(v)) })
}

// SnprintfInt is for %c (the int is converted to unsigned char by printf).
func SnprintfInt(format string, v int) []byte {
	return run(format, func(b *C.char, n C.size_t, f *C.char) C.int { return C.cref_fmt_int(b, n, f, C.int(v)) })
}

// SnprintfDouble is for e E f g G.
func SnprintfDouble(format string, v float64) []byte {
	return run(format, func(b *C.char, n C.size_t, f *C.char) C.int { return C.cref_fmt_dbl(b, n, f, C.double(v)) })
}

// SnprintfString is for %s; v must not contain a NUL byte (C strings end there).
func SnprintfString(format string, v []byte) []byte {
	cv := (*C.char)(C.malloc(C.size_t(len(v) + 1)))
	defer C.free(unsafe.Pointer(cv))
	dst := unsafe.Slice((*byte)(unsafe.Pointer(cv)), len(v)+1)
	copy(dst, v)
	dst[len(v)] = 0
	return run(format, func(b *C.char, n C.size_t, f *C.char) C.int { return C.cref_fmt_str(b, n, f, cv) })
}

// SnprintfNone formats a specification that consumes no argument ("%%").
func SnprintfNone(format string) []byte {
	return run(format, func(b *C.char, n C.size_t, f *C.char) C.int { return C.cref_fmt_none(b, n, f) })
}

// C conversions of a double, as written in lstrlib.c: (long long)d, (unsigned long long)d, (int)d.
// The caller is responsible for d being in the range where ISO C defines the conversion.
func DoubleToLL(d float64) int64   { return int64(C.cref_d2ll(C.double(d))) }
func DoubleToULL(d float64) uint64 { return uint64(C.cref_d2ull(C.double(d))) }
func DoubleToInt(d float64) int    { return int(C.cref_d2int(C.double(d))) }

// ---------------------------------------------------------------------------------------------
// libm

// Fn1 numbers the one-argument functions.
const (
	Floor = iota
	Ceil
	Fabs
	Sqrt
	Exp
	Log
	Log10
	Sin
	Cos
	Tan
	Asin
	Acos
	Atan
	Sinh
	Cosh
	Tanh
	Deg // only for ErrUlps
	Rad // only for ErrUlps
)

// two-argument functions
const (
	Fmod = iota
	Pow
	Atan2
)

// Call1 evaluates the double version of a one-argument libm function (Floor..Tanh).
func Call1(f int, x float64) float64 { return float64(C.cref_fn1(C.int(f), C.double(x))) }

// Call2 evaluates fmod / pow / atan2 in double.
func Call2(f int, x, y float64) float64 {
	return float64(C.cref_fn2(C.int(f), C.double(x), C.double(y)))
}

func Modf(x float64) (ip, fp float64) {
	var i C.double
	f := C.cref_modf(C.double(x), &i)
	return float64(i), float64(f)
}

func Frexp(x float64) (m float64, e int) {
	var ce C.int
	cm := C.cref_frexp(C.double(x), &ce)
	return float64(cm), int(ce)
}

func Ldexp(x float64, e int) float64 { return float64(C.cref_ldexp(C.double(x), C.int(e))) }

// ErrUlps1 returns how far got is from the long double value of the one-argument function f at x, in ulps of
// a double at that value, and the reference rounded to double.
func ErrUlps1(f int, x, got float64) (ulps, ref float64) {
	var r C.double
	u := C.cref_err_ulps(C.int(f), C.double(x), 0, C.double(got), &r)
	return float64(u), float64(r)
}

// ErrUlps2 is the two-argument version (Pow, Atan2).
func ErrUlps2(f int, x, y, got float64) (ulps, ref float64) {
	var r C.double
	u := C.cref_err_ulps(C.int(100+f), C.double(x), C.double(y), C.double(got), &r)
	return float64(u), float64(r)
}
