package lgen

import (
	"strconv"

	L "verif/luaref"
)

// stress produces one size-adversarial statement group (wrapped in do...end so its locals are released).
func (g *Gen) stress() []L.Stmt {
	var ss []L.Stmt
	switch g.n(7, "stresskind") {
	case 0:
		// many locals
		n := 40 + g.n(100, "nlocals")
		if len(g.vars)+n > 150 {
			n = 150 - len(g.vars)
		}
		if n < 5 {
			return nil
		}
		g.class("stress_many_locals")
		sum := L.Expr(num(0))
		for i := 0; i < n; i++ {
			nm := "s" + strconv.Itoa(i) + "_" + strconv.Itoa(g.ctr)
			ss = append(ss, local1(nm, num(float64(i*3+1))))
			if i%7 == 0 || i == n-1 {
				sum = bin("+", sum, name(nm))
			}
		}
		g.ctr++
		ss = append(ss, emit(sum, str("locals"), num(float64(n))))
	case 1:
		// > 256 and > 512 distinct constants, used as RK operands, table keys and globals
		n := 130 + g.n(200, "nconst")
		g.class("stress_many_constants")
		c := "c" + strconv.Itoa(g.ctr)
		g.ctr++
		ss = append(ss, local1(c, tbl()))
		for i := 0; i < n; i++ {
			ss = append(ss, assign1(field(name(c), "a"+strconv.Itoa(i)), num(float64(1000+i)+0.5)))
		}
		probe := []int{0, 1, n / 2, n - 2, n - 1}
		var es []L.Expr
		for _, i := range probe {
			es = append(es, bin("+", field(name(c), "a"+strconv.Itoa(i)), num(float64(5000+i))))
		}
		es = append(es, bin("..", str("k"+strconv.Itoa(n)), field(name(c), "a3")), bin("==", field(name(c), "a"+strconv.Itoa(n-1)), num(float64(1000+n-1)+0.5)))
		ss = append(ss, emit(es...))
	case 2:
		// table constructor crossing the set-list flush boundaries (50 per batch)
		n := []int{49, 50, 51, 99, 100, 101, 150, 257}[g.n(8, "nfields")]
		g.class("stress_setlist")
		if g.pct(6, "hugesetlist") {
			// beyond 511 batches the batch number moves into an extension word; the constructor is an operand in a
			// function without locals and parameters
			hn := []int{25549, 25550, 25551, 25599, 25600, 25601, 25651}[g.n(7, "hugefields")]
			g.class("stress_setlist_extension_word")
			mk := func() *L.TableExpr {
				h := tbl()
				for i := 1; i <= hn; i++ {
					h.Fields = append(h.Fields, pos(num(float64(i))))
				}
				return h
			}
			var e L.Expr
			switch g.n(4, "hugeuse") {
			case 0:
				e = un("#", mk())
			case 1:
				e = idx(paren(mk()), num(float64(hn-1)))
			case 2:
				e = bin("==", num(1), mk())
			default:
				e = un("#", paren(bin("and", &L.TrueExpr{}, mk())))
			}
			ss = append(ss, emit(call(paren(fn(nil, false, blk(ret(e)))))))
		}
		t := tbl()
		for i := 1; i <= n; i++ {
			t.Fields = append(t.Fields, pos(num(float64(i*2))))
			if i%37 == 0 {
				t.Fields = append(t.Fields, kv(str("h"+strconv.Itoa(i)), num(float64(i))))
			}
		}
		switch g.n(3, "tail") {
		case 0:
			t.Fields = append(t.Fields, pos(call(paren(fn(nil, false, blk(ret(str("x"), str("y"), str("z"))))))))
			n += 3
		case 1:
			if g.fn.vararg {
				t.Fields = append(t.Fields, pos(&L.VarargExpr{}))
			}
		}
		tn := "big" + strconv.Itoa(g.ctr)
		g.ctr++
		ss = append(ss, local1(tn, t))
		ss = append(ss, emit(un("#", name(tn)), idx(name(tn), num(1)), idx(name(tn), num(50)), idx(name(tn), num(51)), idx(name(tn), num(float64(n))), idx(name(tn), num(float64(n+1))), field(name(tn), "h37")))
	case 3:
		// deep expression nesting
		depth := 20 + g.n(40, "nestdepth")
		g.class("stress_deep_nesting")
		var e L.Expr = g.leaf(KInt)
		for i := 0; i < depth; i++ {
			switch i % 4 {
			case 0:
				e = bin("+", paren(e), num(float64(i)))
			case 1:
				e = bin("*", num(1), paren(e))
			case 2:
				e = un("-", un("-", e))
			default:
				e = bin("-", e, bin("%", num(float64(i)), num(3)))
			}
		}
		var t L.Expr = tbl(pos(num(7)))
		for i := 0; i < depth; i++ {
			t = tbl(pos(t))
		}
		var r L.Expr = t
		for i := 0; i < depth; i++ {
			r = idx(r, num(1))
		}
		ss = append(ss, emit(e, idx(r, num(1))))
	case 4:
		// long concatenation chain
		n := 10 + g.n(60, "nconcat")
		g.class("stress_long_concat")
		var e L.Expr = str("z")
		for i := 0; i < n; i++ {
			var item L.Expr
			switch i % 3 {
			case 0:
				item = str("s" + strconv.Itoa(i))
			case 1:
				item = num(float64(i))
			default:
				item = g.leaf(KStr)
			}
			e = bin("..", item, e)
		}
		ss = append(ss, emit(e))
	case 5:
		// long and/or chain into several destinations
		n := 8 + g.n(30, "nlogic")
		g.class("stress_long_logic")
		mk := func() L.Expr {
			var e L.Expr = g.leaf(g.anyKind())
			for i := 0; i < n; i++ {
				op := "and"
				if g.n(2, "logop") == 0 {
					op = "or"
				}
				e = bin(op, e, g.leaf(g.anyKind()))
			}
			return e
		}
		ln := "lg" + strconv.Itoa(g.ctr)
		g.ctr++
		ss = append(ss, local1(ln, mk()), emit(name(ln), mk()), local1(ln+"t", tbl(kv(str("f"), mk()), pos(mk()))), emit(field(name(ln+"t"), "f"), idx(name(ln+"t"), num(1))),
			ifs(mk(), blk(emit(str("then"))), blk(emit(str("else")))))
	default:
		// call with many arguments and many results
		n := 20 + g.n(120, "nargs")
		g.class("stress_many_args")
		var as []L.Expr
		for i := 0; i < n; i++ {
			as = append(as, num(float64(i)))
		}
		f := fn(nil, true, blk(ret(call(name("select"), str("#"), &L.VarargExpr{}), call(name("select"), num(float64(n)), &L.VarargExpr{}))))
		ss = append(ss, emit(call(paren(f), as...)))
	}
	return []L.Stmt{&L.DoStmt{Body: blk(ss...)}}
}
