#!/bin/bash
# evaluates one seeded mutation: evalmut.sh <mutdir> <CHECK>[,<CHECK>...] [demo-run-pattern]
# applies <mutdir>/patch.diff in a scratch worktree of /repo HEAD, builds, runs the repository's tests and the demo
# (must pass / must fail), then runs the named checks against the worktree (quick tier), and removes the worktree.
export GOFLAGS=-mod=mod GOPROXY=off GOSUMDB=off GOTOOLCHAIN=local
mdir=$1; checks=$2
wt=/tmp/evalmut-$$
git -C /repo worktree add -q --detach $wt HEAD || exit 2
trap "git -C /repo worktree remove --force $wt" EXIT
cd $wt
if ! git apply $mdir/patch.diff; then echo "RESULT apply=FAIL"; exit 2; fi
go build ./... || { echo "RESULT build=FAIL"; exit 2; }
suite=$(go test -vet=off -count=1 . 2>&1 | tail -1)
cp $mdir/demo_test.go $wt/zz_demo_test.go 2>/dev/null
demo=$(go test -vet=off -count=1 -run 'Test(Demo|Mut|M[0-9])' . 2>&1 | tail -1)
rm -f $wt/zz_demo_test.go
echo "suite: $suite"; echo "demo(with patch): $demo"
cd /verif
for c in ${checks//,/ }; do
  out=$(VERIF_REPO=$wt ./check $c --jobs ${EVALMUT_JOBS:-10} 2>&1)
  rc=$?
  echo "CHECK $c exit=$rc $(echo "$out" | grep -c '^VIOLATION') violations; $(echo "$out" | grep '^\[C' | tail -1)"
  echo "$out" | grep "check .* failed:" | head -3 | cut -c1-400
done
