print('testing tables, next, and for')

local a = {}

-- make sure table has lots of space in hash part
for i=1,100 do a[i.."+"] = true end
for i=1,100 do a[i.."+"] = nil end
-- fill hash part with numeric indices testing size operator
for i=1,100 do
  a[i] = true
  assert(#a == i)
end


if T then
-- testing table sizes

local l2 = math.log(2)
local function log2 (x) return math.log(x)/l2 end

local function mp2 (n)   -- minimum power of 2 >= n
  local mp = 2^math.ceil(log2(n))
  assert(n == 0 or (mp/2 < n and n <= mp))
  return mp
end

local function fb (n)
  local r, nn = T.int2fb(n)
  assert(r < 256)
  return nn
end

-- test fb function
local a = 1
local lim = 2^30
while a < lim do
  local n = fb(a)
  assert(a <= n and n <= a*1.125)
  a = math.ceil(a*1.3)
end

 
local function check (t, na, nh)
  local a, h = T.querytab(t)
  if a ~= na or h ~= nh then
    print(na, nh, a, h)
    assert(nil)
  end
end

-- testing constructor sizes
local lim = 40
local s = 'return {'
for i=1,lim do
  s = s..i..','
  local s = s
  for k=0,lim do 
    local t = loadstring(s..'}')()
    assert(#t == i)
    check(t, fb(i), mp2(k))
    s = string.format('%sa%d=%d,', s, k, k)
  end
end


-- tests with unknown number of elements
local a = {}
for i=1,lim do a[i] = i end   -- build auxiliary table
for k=0,lim do
  local a = {unpack(a,1,k)}
  assert(#a == k)
  check(a, k, 0)
  a = {1,2,3,unpack(a,1,k)}
  check(a, k+3, 0)
  assert(#a == k + 3)
end


print'+'

-- testing tables dynamically built
local lim = 130
local a = {}; a[2] = 1; check(a, 0, 1)
a = {}; a[0] = 1; check(a, 0, 1); a[2] = 1; check(a, 0, 2)
a = {}; a[0] = 1; a[1] = 1; check(a, 1, 1)
a = {}
for i = 1,lim do
  a[i] = 1
  assert(#a == i)
  check(a, mp2(i), 0)
end

a = {}
for i = 1,lim do
  a['a'..i] = 1
  assert(#a == 0)
  check(a, 0, mp2(i))
end

a = {}
for i=1,16 do a[i] = i end
check(a, 16, 0)
for i=1,11 do a[i] = nil end
for i=30,40 do a[i] = nil end   -- force a rehash (?)
check(a, 0, 8)
a[10] = 1
for i=30,40 do a[i] = nil end   -- force a rehash (?)
check(a, 0, 8)
for i=1,14 do a[i] = nil end
for i=30,50 do a[i] = nil end   -- force a rehash (?)
check(a, 0, 4)

-- reverse filling
for i=1,lim do
  local a = {}
  for i=i,1,-1 do a[i] = i end   -- fill in reverse
  check(a, mp2(i), 0)
end

-- size tests for vararg
lim = 35
function foo (n, ...)
  local arg = {...}
  check(arg, n, 0)
  assert(select('#', ...) == n)
  arg[n+1] = true
  check(arg, mp2(n+1), 0)
  arg.x = true
  check(arg, mp2(n+1), 1)
end
local a = {}
for i=1,lim do a[i] = true; foo(i, unpack(a)) end

end


-- test size operation on empty tables
assert(#{} == 0)
assert(#{nil} == 0)
assert(#{nil, nil} == 0)
assert(#{nil, nil, nil} == 0)
assert(#{nil, nil, nil, nil} == 0)
print'+'


local nofind = {}

a,b,c = 1,2,3
a,b,c = nil

local function find (name)
  local n,v
  while 1 do
    n,v = next(_G, n)
    if not n then return nofind end
    assert(v ~= nil)
    if n == name then return v end
  end
end

local function find1 (name)
  for n,v in pairs(_G) do
    if n==name then return v end
  end
  return nil  -- not found
end

do   -- create 10000 new global variables
  for i=1,10000 do _G[i] = i end
end


a = {x=90, y=8, z=23}
assert(table.foreach(a, function(i,v) if i=='x' then return v end end) == 90)
assert(table.foreach(a, function(i,v) if i=='a' then return v end end) == nil)
table.foreach({}, error)

table.foreachi({x=10, y=20}, error)
local a = {n = 1}
table.foreachi({n=3}, function (i, v)
  assert(a.n == i and not v)
  a.n=a.n+1
end)
a = {10,20,30,nil,50}
table.foreachi(a, function (i,v) assert(a[i] == v) end)
assert(table.foreachi({'a', 'b', 'c'}, function (i,v)
         if i==2 then return v end
       end) == 'b')


assert(print==find("print") and print == find1("print"))
assert(_G["print"]==find("print"))
assert(assert==find1("assert"))
assert(nofind==find("return"))
assert(not find1("return"))
_G["ret" .. "urn"] = nil
assert(nofind==find("return"))
_G["xxx"] = 1
assert(xxx==find("xxx"))
print('+')

a = {}
for i=0,10000 do
  if math.mod(i,10) ~= 0 then
    a['x'..i] = i
  end
end

n = {n=0}
for i,v in pairs(a) do
  n.n = n.n+1
  assert(i and v and a[i] == v)
end
assert(n.n == 9000)
a = nil

-- remove those 10000 new global variables
for i=1,10000 do _G[i] = nil end

do   -- clear global table
  local a = {}
  local preserve = {io = 1, string = 1, debug = 1, os = 1,
                    coroutine = 1, table = 1, math = 1}
  for n,v in pairs(_G) do a[n]=v end
  for n,v in pairs(a) do
    if not preserve[n] and type(v) ~= "function" and
       not string.find(n, "^[%u_]") then
     _G[n] = nil
    end
    collectgarbage()
  end
end

local function foo ()
  local getfenv, setfenv, assert, next =
        getfenv, setfenv, assert, next
  local n = {gl1=3}
  setfenv(foo, n)
  assert(getfenv(foo) == getfenv(1))
  assert(getfenv(foo) == n)
  assert(print == nil and gl1 == 3)
  gl1 = nil
  gl = 1
  assert(n.gl == 1 and next(n, 'gl') == nil)
end
foo()

print'+'

local function checknext (a)
  local b = {}
  table.foreach(a, function (k,v) b[k] = v end)
  for k,v in pairs(b) do assert(a[k] == v) end
  for k,v in pairs(a) do assert(b[k] == v) end
  b = {}
  do local k,v = next(a); while k do b[k] = v; k,v = next(a,k) end end
  for k,v in pairs(b) do assert(a[k] == v) end
  for k,v in pairs(a) do assert(b[k] == v) end
end

checknext{1,x=1,y=2,z=3}
checknext{1,2,x=1,y=2,z=3}
checknext{1,2,3,x=1,y=2,z=3}
checknext{1,2,3,4,x=1,y=2,z=3}
checknext{1,2,3,4,5,x=1,y=2,z=3}

assert(table.getn{} == 0)
assert(table.getn{[-1] = 2} == 0)
assert(table.getn{1,2,3,nil,nil} == 3)
for i=0,40 do
  local a = {}
  for j=1,i do a[j]=j end
  assert(table.getn(a) == i)
end


assert(table.maxn{} == 0)
assert(table.maxn{["1000"] = true} == 0)
assert(table.maxn{["1000"] = true, [24.5] = 3} == 24.5)
assert(table.maxn{[1000] = true} == 1000)
assert(table.maxn{[10] = true, [100*math.pi] = print} == 100*math.pi)


-- int overflow
a = {}
for i=0,50 do a[math.pow(2,i)] = true end
assert(a[table.getn(a)])

print("+")


-- erasing values
local t = {[{1}] = 1, [{2}] = 2, [string.rep("x ", 4)] = 3,
           [100.3] = 4, [4] = 5}

local n = 0
for k, v in pairs( t ) do
  n = n+1
  assert(t[k] == v)
  t[k] = nil
  collectgarbage()
  assert(t[k] == nil)
end
assert(n == 5)


local function test (a)
  table.insert(a, 10); table.insert(a, 2, 20);
  table.insert(a, 1, -1); table.insert(a, 40);
  table.insert(a, table.getn(a)+1, 50)
  table.insert(a, 2, -2)
  assert(table.remove(a,1) == -1)
  assert(table.remove(a,1) == -2)
  assert(table.remove(a,1) == 10)
  assert(table.remove(a,1) == 20)
  assert(table.remove(a,1) == 40)
  assert(table.remove(a,1) == 50)
  assert(table.remove(a,1) == nil)
end

a = {n=0, [-7] = "ban"}
test(a)
assert(a.n == 0 and a[-7] == "ban")

a = {[-7] = "ban"};
test(a)
assert(a.n == nil and table.getn(a) == 0 and a[-7] == "ban")


table.insert(a, 1, 10); table.insert(a, 1, 20); table.insert(a, 1, -1)
assert(table.remove(a) == 10)
assert(table.remove(a) == 20)
assert(table.remove(a) == -1)

a = {'c', 'd'}
table.insert(a, 3, 'a')
table.insert(a, 'b')
assert(table.remove(a, 1) == 'c')
assert(table.remove(a, 1) == 'd')
assert(table.remove(a, 1) == 'a')
assert(table.remove(a, 1) == 'b')
assert(table.getn(a) == 0 and a.n == nil)
print("+")

a = {}
for i=1,1000 do
  a[i] = i; a[i-1] = nil
end
assert(next(a,nil) == 1000 and next(a,1000) == nil)

assert(next({}) == nil)
assert(next({}, nil) == nil)

for a,b in pairs{} do error"not here" end
for i=1,0 do error'not here' end
for i=0,1,-1 do error'not here' end
a = nil; for i=1,1 do assert(not a); a=1 end; assert(a)
a = nil; for i=1,1,-1 do assert(not a); a=1 end; assert(a)

a = 0; for i=0, 1, 0.1 do a=a+1 end; assert(a==11)
-- precision problems
--a = 0; for i=1, 0, -0.01 do a=a+1 end; assert(a==101)
a = 0; for i=0, 0.999999999, 0.1 do a=a+1 end; assert(a==10)
a = 0; for i=1, 1, 1 do a=a+1 end; assert(a==1)
a = 0; for i=1e10, 1e10, -1 do a=a+1 end; assert(a==1)
a = 0; for i=1, 0.99999, 1 do a=a+1 end; assert(a==0)
a = 0; for i=99999, 1e5, -1 do a=a+1 end; assert(a==0)
a = 0; for i=1, 0.99999, -1 do a=a+1 end; assert(a==1)

-- conversion
a = 0; for i="10","1","-2" do a=a+1 end; assert(a==5)


collectgarbage()


-- testing generic 'for'

local function f (n, p)
  local t = {}; for i=1,p do t[i] = i*10 end
  return function (_,n)
           if n > 0 then
             n = n-1
             return n, unpack(t)
           end
         end, nil, n
end

local x = 0
for n,a,b,c,d in f(5,3) do
  x = x+1
  assert(a == 10 and b == 20 and c == 30 and d == nil)
end
assert(x == 5)

print"OK"
