package lgen

import (
	"strconv"

	L "verif/luaref"
)

// ---- C06: coroutines

func co(f string, args ...L.Expr) *L.CallExpr { return call(field(name("coroutine"), f), args...) }

// payload: 0..4 simple values including nils and trailing nils
func (g *Gen) payload(tag string) []L.Expr {
	n := g.n(5, "payn")
	var out []L.Expr
	for i := 0; i < n; i++ {
		switch g.n(4, "payv") {
		case 0:
			out = append(out, &L.NilExpr{})
		case 1:
			out = append(out, str(tag+strconv.Itoa(i)))
		default:
			out = append(out, num(float64(g.n(90, "paynum"))))
		}
	}
	return out
}

// tplCoroutines: several coroutines (plain and wrapped) with yields at depth, driven by a random resume sequence;
// every transfer logs the values that arrived and status/running probes.
func (g *Gen) tplCoroutines() []L.Stmt {
	nco := 1 + g.n(4, "nco")
	id := strconv.Itoa(g.ctr)
	g.ctr++
	var out []L.Stmt
	tabn := "cos" + id
	out = append(out, local1(tabn, tbl()))
	tab := name(tabn)
	// a helper that yields from a called function (yield at depth), possibly through a tail call
	helper := "yh" + id
	hbody := blk(local1("got", tbl(pos(co("yield", &L.VarargExpr{})))), ret(call(name("unpack"), name("got"), num(1), num(3))))
	if g.n(2, "tailhelper") == 0 {
		hbody = blk(ret(co("yield", &L.VarargExpr{})))
		g.class("co:yield_in_tail_call")
	}
	out = append(out, &L.LocalFuncStmt{Name: helper, Fn: fn(nil, true, hbody)})
	// closures over the coroutines' own locals are collected here and called by the driver while their coroutine is
	// suspended, running another one, and after it has finished or failed
	fns := "fns" + id
	out = append(out, local1(fns, tbl()), local1("esc"+id, tbl()))
	stash := func(f L.Expr) L.Stmt { return assign1(idx(name(fns), bin("+", un("#", name(fns)), num(1))), f) }
	useFns := func(tag string) L.Stmt {
		return &L.NumForStmt{Var: "fi", Start: num(1), End: un("#", name(fns)), Body: blk(emit(str(tag), name("fi"), call(idx(name(fns), name("fi")))))}
	}
	wrapped := make([]bool, nco)
	for c := 0; c < nco; c++ {
		cn := "C" + strconv.Itoa(c)
		var body []L.Stmt
		body = append(body, emit(str(cn+" starts"), &L.VarargExpr{}), local1("loc", num(float64(c*100))))
		if g.n(2, "stashloc") == 0 {
			g.class("co:closure_over_body_local_called_by_driver")
			body = append(body, stash(fn(nil, false, blk(assign1(name("loc"), bin("+", name("loc"), num(1))), ret(name("loc"))))))
			if k := g.n(6, "extralocals"); k > 0 {
				// more locals, the last one (the highest register) captured as well
				var names []string
				var es []L.Expr
				for i := 0; i < k; i++ {
					names = append(names, "x"+strconv.Itoa(i))
					es = append(es, num(float64(c*1000+i)))
				}
				body = append(body, local(names, es...), stash(fn(nil, false, blk(ret(name(names[k-1]))))))
			}
		}
		steps := 1 + g.n(4, "costeps")
		for s := 0; s < steps; s++ {
			switch g.n(11, "costep") {
			case 0, 1:
				if g.n(4, "hostyield") == 0 {
					// the yield is made by a host function through the Go API, with more values than it was given
					g.class("co:yield_from_host_function")
					body = append(body, emit(str(cn+" resumed with (host yield)"), call(name("hostyield"), g.payload("hy")...)))
				} else {
					body = append(body, emit(str(cn+" resumed with"), co("yield", g.payload("y")...)))
				}
			case 2:
				body = append(body, emit(str(cn+" via helper"), call(name(helper), g.payload("h")...)))
				g.class("co:yield_at_depth")
			case 3:
				// loop state and locals survive suspension
				body = append(body, &L.NumForStmt{Var: "k", Start: num(1), End: num(float64(1 + g.n(3, "loopn"))), Body: blk(assign1(name("loc"), bin("+", name("loc"), name("k"))), emit(str(cn+" loop"), name("k"), paren(co("yield", name("k"))), name("loc")))})
			case 4:
				// resume another coroutine from inside this one (nested resume); the target may be in any state
				if nco > 1 {
					t := g.n(nco, "nested")
					body = append(body, emit(str(cn+" resumes C"+strconv.Itoa(t)), co("status", idx(tab, num(float64(t+1)))), g.resumeExpr(tab, t, wrapped, true)))
					g.class("co:nested_resume")
				}
			case 5:
				body = append(body, emit(str(cn+" probes"), co("status", idx(tab, num(float64(c+1)))), bin("==", co("running"), idx(tab, num(float64(c+1))))))
				if nco > 1 {
					o := g.n(nco, "probeother")
					body = append(body, emit(str(cn+" sees C"+strconv.Itoa(o)), co("status", idx(tab, num(float64(o+1))))))
					g.class("co:status_probe_other")
				}
			case 6:
				// resuming oneself (running) or a dead coroutine must fail cleanly
				body = append(body, emit(str(cn+" resumes itself"), call(name("select"), num(1), co("resume", idx(tab, num(float64(c+1)))))))
				g.class("co:resume_running")
			case 7:
				if g.n(2, "coerr") == 0 {
					switch g.n(5, "coerrkind") {
					case 3:
						// the coroutine dies because a host function fills its value stack / its call stack
						body = append(body, callStmt(call(name("hostregoverflow"))), emit(str(cn+" went on after the overflow")))
						g.class("co:dies_of_registry_overflow")
					case 4:
						body = append(body, callStmt(call(name("hoststackoverflow"))), emit(str(cn+" went on after the overflow")))
						g.class("co:dies_of_stack_overflow")
					case 0:
						body = append(body, ifs(bin("==", name("loc"), name("loc")), blk(callStmt(call(name("error"), tbl(kv(str("from"), str(cn)))))), nil))
					case 1:
						// a fault raised by a VM instruction; what follows must never run
						body = append(body, local1("nz", &L.NilExpr{}), local1("bad", field(name("nz"), "fld")), emit(str(cn+" went on after its fault"), name("bad")))
						g.class("co:vm_fault_in_body")
					default:
						body = append(body, local1("nz", &L.NilExpr{}), assign1(name("loc"), bin("+", name("nz"), num(1))), emit(str(cn+" went on after its fault"), name("loc")))
						g.class("co:vm_fault_in_body")
					}
					g.class("co:error_in_body")
				}
			case 8, 9:
				body = append(body, g.innerCoroutine(cn, 1+g.n(3, "innerdepth"), "esc"+id)...)
			default:
				// a closure over a coroutine local, handed out through yield
				body = append(body, emit(str(cn+" after closure"), co("yield", fn(nil, false, blk(assign1(name("loc"), bin("+", name("loc"), num(1))), ret(name("loc")))))))
				g.class("co:closure_over_coroutine_local")
			}
		}
		body = append(body, ret(append([]L.Expr{str(cn + " returns")}, g.payload("r")...)...))
		fe := fn(nil, true, blk(body...))
		if g.n(3, "iswrap") == 0 {
			wrapped[c] = true
			// wrap functions are stored as well; status probes need the coroutine object, so keep those plain-only
			out = append(out, assign1(idx(tab, num(float64(c+1))), co("create", fn(nil, false, blk()))), assign1(idx(name(tabn+"w"), num(float64(c+1))), co("wrap", fe)))
		} else {
			out = append(out, assign1(idx(tab, num(float64(c+1))), co("create", fe)))
		}
	}
	// wrapped functions live in a second table
	out = append([]L.Stmt{local1(tabn+"w", tbl())}, out...)
	// the driver: a random sequence of resumes with payloads, from the main thread
	nd := 2 + g.n(8, "ndrive")
	for d := 0; d < nd; d++ {
		t := g.n(nco, "drive")
		out = append(out, emit(str("main resumes C"+strconv.Itoa(t)), g.resumeExpr(tab, t, wrapped, false)))
		if g.n(3, "probe") == 0 {
			out = append(out, emit(str("main probes"), co("status", idx(tab, num(float64(t+1)))), co("running")))
		}
		if g.n(4, "usefns") == 0 {
			out = append(out, useFns("closure during drive"))
		}
	}
	if g.n(3, "hostdriven") == 0 {
		// a coroutine driven by the host through the Go API (NewThread + Resume until it is dead; the host checks its own
		// stack height around every Resume): ends normally, by error(), or by a VM fault
		g.class("co:driven_through_go_resume")
		var end []L.Stmt
		switch g.n(3, "hostdrivenend") {
		case 0:
			end = []L.Stmt{ret(str("host-driven done"), name("a"))}
		case 1:
			end = []L.Stmt{callStmt(call(name("error"), tbl(kv(str("host"), str("driven")))))}
		default:
			end = []L.Stmt{local1("nz", &L.NilExpr{}), ret(field(name("nz"), "fld"))}
		}
		hb := fn([]string{"a"}, true, blk(append([]L.Stmt{emit(str("host-driven starts"), name("a"), &L.VarargExpr{}), emit(str("host-driven resumed with"), co("yield", num(1), num(2))), emit(str("again"), call(name("hostyield"), str("x")))}, end...)...))
		out = append(out, emit(str("hostresume gives"), call(name("hostresume"), append([]L.Expr{hb}, g.payload("hr")...)...)), emit(str("main after hostresume"), co("running")))
	}
	out = append(out, useFns("closure after drive"))
	for pass := 0; pass < 2; pass++ {
		out = append(out, &L.NumForStmt{Var: "ei", Start: num(1), End: un("#", name("esc"+id)), Body: blk(emit(str("escaped inner coroutine"), name("ei"), call(idx(name("esc"+id), name("ei")), str("late"), num(float64(pass)))))})
	}
	// closures handed out by coroutines keep working whatever state the coroutine is in (values arrive through emit only;
	// calling them is done by a fixed epilogue when one was yielded: the driver keeps the last function it received)
	g.class("co:ncoroutines" + strconv.Itoa(nco))
	return []L.Stmt{&L.DoStmt{Body: blk(out...)}}
}

// innerCoroutine: a coroutine created by a coroutine (depth levels deep).  The inner one yields some values, then
// returns, fails or is abandoned while suspended; its creator goes on afterwards and must be unaffected.
func (g *Gen) innerCoroutine(cn string, depth int, esc string) []L.Stmt {
	g.class("co:created_inside_coroutine")
	g.class("co:creation_depth" + strconv.Itoa(depth+1))
	tag := cn + " inner" + strconv.Itoa(depth)
	var body []L.Stmt
	body = append(body, emit(str(tag+" starts"), &L.VarargExpr{}))
	ny := g.n(3, "inneryields")
	for i := 0; i < ny; i++ {
		body = append(body, emit(str(tag+" resumed with"), co("yield", g.payload("iy")...)))
	}
	if depth > 1 {
		body = append(body, g.innerCoroutine(cn, depth-1, esc)...)
	}
	end := g.n(4, "innerend")
	switch end {
	case 0:
		switch g.n(3, "innerfailkind") {
		case 0:
			body = append(body, ifs(bin("==", name("loc"), name("loc")), blk(callStmt(call(name("error"), str(tag+" fails")))), nil))
		case 1:
			body = append(body, ifs(bin("==", name("loc"), name("loc")), blk(callStmt(call(name("error"), tbl(kv(str("inner"), str(tag)))))), nil))
		default:
			body = append(body, local1("nz", &L.NilExpr{}), local1("bad", field(name("nz"), "fld")), emit(str(tag+" went on after its fault")))
		}
		g.class("co:inner_fails")
	default:
		body = append(body, ret(append([]L.Expr{str(tag + " returns")}, g.payload("ir")...)...))
	}
	fe := fn(nil, true, blk(body...))
	var out []L.Stmt
	// resumes: fewer than, exactly, or more than the inner coroutine needs to finish
	nr := g.n(ny+3, "innerresumes")
	if nr <= ny {
		g.class("co:inner_abandoned_suspended")
	} else {
		g.class("co:inner_finishes_before_creator_continues")
	}
	if g.n(3, "innerwrap") == 0 {
		out = append(out, local1("iw", co("wrap", fe)))
		unprotected := g.n(3, "innerunprotected") == 0
		if unprotected {
			// an error of the inner coroutine escapes into its creator and kills that too: its resumer gets the value
			g.class("co:inner_wrap_called_unprotected")
		}
		for i := 0; i < nr; i++ {
			if unprotected {
				out = append(out, emit(str(tag+" bare wrap call"), call(name("iw"), g.payload("ip")...)))
			} else {
				out = append(out, emit(str(tag+" wrap call"), call(name("pcall"), append([]L.Expr{name("iw")}, g.payload("ip")...)...)))
			}
		}
	} else {
		out = append(out, local1("ic", co("create", fe)))
		for i := 0; i < nr; i++ {
			out = append(out, emit(str(tag+" resume"), co("resume", append([]L.Expr{name("ic")}, g.payload("ip")...)...), co("status", name("ic"))))
		}
	}
	if g.n(2, "innerescapes") == 0 {
		// the inner coroutine outlives its creator: the main thread goes on resuming it after the drive
		g.class("co:inner_escapes_its_creator")
		var again L.Expr
		if _, isWrap := out[0].(*L.LocalStmt); isWrap && out[0].(*L.LocalStmt).Names[0] == "iw" {
			again = fn(nil, true, blk(ret(call(name("pcall"), name("iw"), &L.VarargExpr{}))))
		} else {
			again = fn(nil, true, blk(ret(co("resume", name("ic"), &L.VarargExpr{}))))
		}
		out = append(out, assign1(idx(name(esc), bin("+", un("#", name(esc)), num(1))), again))
	}
	// whatever the inner one did (returned, failed under pcall, was abandoned): its creator is the running coroutine again
	out = append(out, emit(str(cn+" goes on after inner"), name("loc"), co("running"), co("status", co("running"))))
	return []L.Stmt{&L.DoStmt{Body: blk(out...)}}
}

// resumeExpr resumes coroutine t with a payload: coroutine.resume for plain ones, a protected call of the wrap
// function for wrapped ones (an error inside is raised in the caller).
func (g *Gen) resumeExpr(tab L.Expr, t int, wrapped []bool, nested bool) L.Expr {
	args := g.payload("p")
	if wrapped[t] {
		w := idx(name(tab.(*L.NameExpr).Name+"w"), num(float64(t+1)))
		g.class("co:wrap_call")
		return call(name("pcall"), append([]L.Expr{w}, args...)...)
	}
	return co("resume", append([]L.Expr{idx(tab, num(float64(t+1)))}, args...)...)
}

// tplGenerator: a coroutine-based generator driving a for-in loop.
func (g *Gen) tplGenerator() []L.Stmt {
	n := float64(1 + g.n(4, "genn"))
	g.class("co:generator_for_in")
	gen := fn([]string{"limit"}, false, blk(ret(co("wrap", fn(nil, false, blk(
		&L.NumForStmt{Var: "i", Start: num(1), End: name("limit"), Body: blk(callStmt(co("yield", name("i"), bin("*", name("i"), name("i")))))},
	))))))
	out := []L.Stmt{
		&L.GenForStmt{Names: []string{"a", "b"}, Exprs: []L.Expr{call(paren(gen), num(n))}, Body: blk(emit(str("gen"), name("a"), name("b")))},
	}
	if g.n(2, "anyfirst") == 0 {
		// a generator whose yields start with arbitrary values: only a nil first value ends the loop (false, 0, "" do not);
		// afterwards the generator is dead, or still suspended when a nil ended the loop early
		g.class("co:generator_yields_any_first_value")
		var ys []L.Stmt
		for i, k := 0, 1+g.n(4, "nyields"); i < k; i++ {
			first := []L.Expr{&L.FalseExpr{}, &L.FalseExpr{}, num(0), str(""), &L.TrueExpr{}, num(float64(i + 1)), &L.NilExpr{}}[g.n(7, "firstv")]
			ys = append(ys, callStmt(co("yield", append([]L.Expr{first}, g.payload("gy")...)...)))
		}
		out = append(out, local1("g3", co("wrap", fn(nil, false, blk(ys...)))),
			&L.GenForStmt{Names: []string{"a", "b", "c"}, Exprs: []L.Expr{name("g3")}, Body: blk(emit(str("gen3"), name("a"), name("b"), name("c")))},
			emit(str("after gen3"), call(name("pcall"), name("g3"))), emit(str("again"), call(name("select"), num(1), call(name("pcall"), name("g3")))))
	}
	if g.n(2, "twogens") == 0 {
		// two generators interleaved keep separate state
		out = append(out, local([]string{"g1", "g2"}, call(paren(gen), num(3)), call(paren(gen), num(2))), emit(call(name("g1")), call(name("g2")), call(name("g1")), call(name("g2")), call(name("g1"))),
			emit(call(name("select"), str("#"), call(name("g2")))), emit(call(name("select"), num(1), call(name("pcall"), name("g2")))))
	}
	return []L.Stmt{&L.DoStmt{Body: blk(out...)}}
}

// Coroutines is the profile of C06.
func Coroutines() *Profile {
	return &Profile{Name: "coroutines", MaxStmts: 6, MaxDepth: 2, Wild: 0, WildOpen: 0, Stress: 0, TemplatePc: 70, NoGoto: true,
		Templates: []func(g *Gen) []L.Stmt{(*Gen).tplCoroutines, (*Gen).tplCoroutines, (*Gen).tplCoroutines, (*Gen).tplGenerator}}
}
