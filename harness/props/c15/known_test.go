package c15

import (
	"math"
	"testing"

	"verif/vf"
)

// ---------------------------------------------------------------------------------------------
// known findings: the written-out example of every finding this package knows about.
//
// TestKnownFindings re-runs the example of each finding that is listed as open (without the generator's exclusion) and
// reports whether it still fails.  TestRegression runs the examples of all findings that are NOT open as ordinary cases:
// once a defect is repaired its example is part of the check and a regression is a VIOLATION again.

func i64(v int64) *int64 { return &v }

type example struct {
	id  string
	run func() error // nil: the property held on the example
	txt string
}

func idxEx(id string, c IdxCase) example {
	return example{id, func() error { return chkIdx.Try(&c) }, c.String()}
}

func bytesEx(id string, c BytesCase) example {
	return example{id, func() error { return chkBytes.Try(&c) }, c.String()}
}

func fmtEx(id string, it FmtItem) example {
	c := FmtCase{Items: []FmtItem{it}}
	f, _, shown := c.build()
	return example{id, func() error { return chkFormat.Try(&c) }, "string.format(" + q([]byte(f)) + ", " + shown + ")"}
}

func mathEx(id string, fn string, args ...float64) example {
	c := MathCase{Fn: fn}
	for _, a := range args {
		c.Args = append(c.Args, F64(a))
	}
	return example{id, func() error { return chkMath.Try(&c) }, c.String()}
}

func examples() []example {
	return []example{
		// plain find (code owned by C14)
		idxEx("F-STR1", IdxCase{Fn: "find", S: Bytes("\x00"), P: Bytes{}, I: i64(2)}),
		idxEx("F-STR1", IdxCase{Fn: "find", S: Bytes("abc"), P: Bytes{}, I: i64(10)}),
		idxEx("F-STR2", IdxCase{Fn: "find", S: Bytes(""), P: Bytes("a"), I: i64(2)}),
		idxEx("F-STR2", IdxCase{Fn: "find", S: Bytes("abc"), P: Bytes("c"), I: i64(5)}),
		// string.byte
		idxEx("F-STR4", IdxCase{Fn: "byte", S: Bytes("abc"), I: i64(0), J: i64(2)}),
		idxEx("F-STR8", IdxCase{Fn: "byte", S: Bytes("abc")}),
		idxEx("F-STR8", IdxCase{Fn: "byte", S: Bytes("abc"), I: i64(2), NilPad: true}),
		idxEx("F-STR8", IdxCase{Fn: "byte", S: Bytes("abc"), I: i64(-10), NilPad: true}),
		// upper / lower
		bytesEx("F-STR7", BytesCase{Fn: "upper", S: Bytes("\xff")}),
		bytesEx("F-STR7", BytesCase{Fn: "lower", S: Bytes("\xc3\x89")}),
		bytesEx("F-STR7", BytesCase{Fn: "upper", S: Bytes("h\xc3\xa9llo")}),
		// format
		fmtEx("F-FMT2", FmtItem{Width: -1, Prec: -1, Verb: "c", Num: 128}),
		fmtEx("F-FMT2", FmtItem{Width: 5, Prec: -1, Verb: "c", Num: 233}),
		fmtEx("F-FMT3", FmtItem{Width: 5, Prec: -1, Verb: "s", Str: Bytes("\xc3\xa9\xc3\xa9")}),
		fmtEx("F-FMT3", FmtItem{Width: -1, Prec: 3, Verb: "s", Str: Bytes("\xe6\x97\xa5\xe6\x9c\xac")}),
		fmtEx("F-FMT4", FmtItem{Flags: "+", Width: -1, Prec: -1, Verb: "d", Num: 42, NumText: "42"}),
		fmtEx("F-FMT4", FmtItem{Width: 6, Prec: 3, Verb: "d", Num: -7, NumText: " -7 "}),
		fmtEx("F-FMT4", FmtItem{Width: -1, Prec: -1, Verb: "x", Num: 255, NumText: "255"}),
		fmtEx("F-FMT4", FmtItem{Width: -1, Prec: 2, Verb: "f", Num: 1.5, NumText: "1.5"}),
		fmtEx("F-FMT5", FmtItem{Width: -1, Prec: -1, Verb: "x", Num: F64(two63)}),
		fmtEx("F-FMT5", FmtItem{Width: -1, Prec: -1, Verb: "o", Num: F64(two63 + 2048)}),
		fmtEx("F-FMT6", FmtItem{Flags: "#", Width: -1, Prec: -1, Verb: "x", Num: 0}),
		fmtEx("F-FMT6", FmtItem{Flags: "+", Width: -1, Prec: 0, Verb: "d", Num: 0}),
		fmtEx("F-FMT6", FmtItem{Flags: "#", Width: -1, Prec: 0, Verb: "o", Num: 0}),
		fmtEx("F-FMT6", FmtItem{Flags: "#0", Width: 6, Prec: -1, Verb: "X", Num: 135}),
		{"F-FMT7", func() error {
			return chkFormat.Try(&FmtCase{Items: []FmtItem{{Width: -1, Prec: -1, Verb: "d", Num: 1}}, Tail: Bytes("%"), Extra: 1})
		}, `string.format("%d%%", 1, 7)`},
		{"F-FMT7", func() error { return chkFormat.Try(&FmtCase{Tail: Bytes("100%"), Extra: 2}) }, `string.format("100%%", 7, "x")`},
		// math
		mathEx("F-MATH5", "deg", 2e306),
		mathEx("F-MATH5", "rad", 8.98846567431158e307),
		mathEx("F-MATH6", "modf", math.Inf(1)),
		mathEx("F-MATH6", "modf", math.Inf(-1)),
		mathEx("F-MATH1", "log", 5e-324),
		mathEx("F-MATH1", "log10", 1e-310),
		mathEx("F-MATH1", "pow", 4e-322, -0.1164),
		mathEx("F-MATH2", "exp", 709.5),
		mathEx("F-MATH2", "sinh", -709.78),
		mathEx("F-MATH2", "cosh", 710.3),
		mathEx("F-MATH3", "atan2", -1e-300, -1e30),
		mathEx("F-MATH4", "tan", 9.9e-8),
	}
}

var colKnown = vf.Col("known_findings")

func TestKnownFindings(t *testing.T) {
	noSamples = true
	for _, ex := range examples() {
		if !vf.Open(ex.id) {
			continue
		}
		colKnown.Eval()
		if err := ex.run(); err != nil {
			colKnown.Class(ex.id + ":still_fails")
			t.Logf("KNOWN-FINDING-STATUS %s still fails: %v", ex.id, err)
		} else {
			colKnown.Class(ex.id + ":example_passes_now")
			t.Logf("KNOWN-FINDING-STATUS %s: example %s no longer fails (finding can be marked fixed)", ex.id, ex.txt)
		}
	}
}

type RegressionCase struct {
	Index int    `json:"index"`
	ID    string `json:"finding"`
	Text  string `json:"text"`
}

var chkRegression = vf.Register("regression", func(k *vf.C, c *RegressionCase) error {
	exs := examples()
	if c.Index < 0 || c.Index >= len(exs) {
		return nil
	}
	k.Class("finding:" + exs[c.Index].id)
	return exs[c.Index].run()
})

// softTB turns the Fatalf of vf's Run into an Errorf, so that one run lists every example that fails.
type softTB struct{ *testing.T }

func (s softTB) Fatalf(format string, args ...any) { s.T.Errorf(format, args...) }

func TestRegression(t *testing.T) {
	noSamples = true
	for i, ex := range examples() {
		if vf.Open(ex.id) {
			continue
		}
		chkRegression.Run(softTB{t}, &RegressionCase{Index: i, ID: ex.id, Text: ex.txt})
	}
}
