package c17

// The position of a registry overflow raised while the frame of a called function is laid out: the statement being
// executed is the call (in the caller), and that is the line the message and level 2 of an xpcall handler name.

import (
	"fmt"
	"strings"
	"testing"

	lua "github.com/yuin/gopher-lua"

	"verif/vf"
)

type OverflowCase struct {
	Locals  int `json:"locals_of_the_callee"`
	Shift   int `json:"blank_lines_in_front"`
	RegSize int `json:"registry_size"`
}

var chkOverflowPos = vf.Register("overflow_position", func(k *vf.C, c *OverflowCase) error {
	var names []string
	for i := 0; i < c.Locals; i++ {
		names = append(names, fmt.Sprintf("l%d", i))
	}
	src := strings.Repeat("\n", c.Shift) + "local function big(n)\n  local " + strings.Join(names, ", ") + " = 1\n  local r = big(n + 1)\n  return r\nend\n" +
		"local ok1, e1 = pcall(big, 1)\n" +
		"local ok2, e2 = xpcall(function() return big(1) end, function(m) return tostring(debug.getinfo(2, 'l').currentline) .. '|' .. tostring(m) end)\n" +
		"return ok1, e1, ok2, e2\n"
	callLine := c.Shift + 3
	L := lua.NewState(lua.Options{RegistrySize: c.RegSize})
	defer L.Close()
	if err := L.DoString(src); err != nil {
		return fmt.Errorf("the chunk failed: %v", err)
	}
	e1, e2 := L.Get(-3).String(), L.Get(-1).String()
	want := fmt.Sprintf("<string>:%d: registry overflow", callLine)
	if L.Get(-4) != lua.LFalse || e1 != want {
		return fmt.Errorf("pcall of a recursion that exhausts the registry in a call on line %d gives %v %q, expected false %q", callLine, L.Get(-4), e1, want)
	}
	if L.Get(-2) != lua.LFalse || e2 != fmt.Sprintf("%d|%s", callLine, want) {
		return fmt.Errorf("xpcall: the handler sees line|message %q, expected %q", e2, fmt.Sprintf("%d|%s", callLine, want))
	}
	k.Nontrivial(vf.Hash(fmt.Sprint(*c)))
	if c.Shift == 0 {
		k.Sample("overflow", 1, c)
	}
	return nil
})

func TestOverflowPosition(t *testing.T) {
	for _, locals := range []int{100, 120, 150, 190} {
		for _, shift := range []int{0, 1, 2, 7} {
			for _, rs := range []int{2000, 5120, 8000} {
				chkOverflowPos.Run(t, &OverflowCase{Locals: locals, Shift: shift, RegSize: rs})
			}
		}
	}
	chkOverflowPos.SetExhaustive(true)
}
