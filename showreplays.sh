#!/bin/bash
# development aid: print reason and source of the replay files of a property
for f in /verif/replays/$1/*.json; do python3 - "$f" <<'PY'
import json,sys
d=json.load(open(sys.argv[1]))
print('=====',sys.argv[1].split('/')[-1]); print('REASON:',d.get('reason','')[:500])
c=d['case']
print(c.get('src',json.dumps(c))[:int(1800)])
PY
done
