print"testing sort"


function check (a, f)
  f = f or function (x,y) return x<y end;
  for n=table.getn(a),2,-1 do
    assert(not f(a[n], a[n-1]))
  end
end

a = {"Jan", "Feb", "Mar", "Apr", "May", "Jun", "Jul", "Aug", "Sep",
     "Oct", "Nov", "Dec"}

table.sort(a)
check(a)

limit = 30000
if rawget(_G, "_soft") then limit = 5000 end

a = {}
for i=1,limit do
  a[i] = math.random()
end

local x = os.clock()
table.sort(a)
print(string.format("Sorting %d elements in %.2f sec.", limit, os.clock()-x))
check(a)

x = os.clock()
table.sort(a)
print(string.format("Re-sorting %d elements in %.2f sec.", limit, os.clock()-x))
check(a)

a = {}
for i=1,limit do
  a[i] = math.random()
end

x = os.clock(); i=0
table.sort(a, function(x,y) i=i+1; return y<x end)
print(string.format("Invert-sorting other %d elements in %.2f sec., with %i comparisons",
      limit, os.clock()-x, i))
check(a, function(x,y) return y<x end)


table.sort{}  -- empty array

for i=1,limit do a[i] = false end
x = os.clock();
table.sort(a, function(x,y) return nil end)
print(string.format("Sorting %d equal elements in %.2f sec.", limit, os.clock()-x))
check(a, function(x,y) return nil end)
for i,v in pairs(a) do assert(not v or i=='n' and v==limit) end

a = {"álo", "\0first :-)", "alo", "then this one", "45", "and a new"}
table.sort(a)
check(a)

table.sort(a, function (x, y)
          -- loadstring(string.format("a[%q] = ''", x))()
          -- collectgarbage()
          return x<y
        end)


tt = {__lt = function (a,b) return a.val < b.val end}
a = {}
for i=1,10 do  a[i] = {val=math.random(100)}; setmetatable(a[i], tt); end
table.sort(a)
check(a, tt.__lt)
check(a)

print"OK"
