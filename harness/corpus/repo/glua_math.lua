assert(math.fmod(13.5, 2) == 1.5)
assert(math.pow(7, 2) == 49)

local ok, msg = pcall(function()
  math.max()
end)
assert(not ok and string.find(msg, "wrong number of arguments"))

local ok, msg = pcall(function()
  math.min()
end)
assert(not ok and string.find(msg, "wrong number of arguments"))
