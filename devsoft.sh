#!/bin/bash
# development aid: run one rapid test of a property package without stopping at failures; group failure reasons
# usage: devsoft.sh c01 TestCoreDiff 20000 [seed]
export GOFLAGS=-mod=mod GOPROXY=off GOSUMDB=off GOTOOLCHAIN=local TZ=UTC
pkg=$1; test=$2; n=${3:-10000}; seed=${4:-7}
out=/verif/.build/soft-$pkg.jsonl; rm -f $out; mkdir -p /verif/.build
cd /verif/harness && go test -c -tags verif -vet=off -o /verif/.build/$pkg.softbin ./props/$pkg || exit 2
cd /verif/harness/props/$pkg
for i in 1 2 3 4 5 6 7 8; do
  ( ulimit -v 6000000; VERIF_SOFT=$out VERIF_OUT=/verif/.build/soft-$pkg-$i.json timeout 900 /verif/.build/$pkg.softbin -test.run "^$test\$" -rapid.checks=$((n/8)) -rapid.seed=$((seed*100+i)) -rapid.nofailfile -test.timeout 800s > /verif/.build/soft-$pkg-$i.log 2>&1 ) &
done
wait
tail -n 3 /verif/.build/soft-$pkg-1.log
python3 - <<PY
import json,collections,re
c=collections.Counter(); ex={}
try:
    for l in open("$out"):
        d=json.loads(l); r=re.sub(r'\d+','N',d['reason'])[:160]
        c[r]+=1
        if r not in ex or len(json.dumps(d['case']))<len(json.dumps(ex[r]['case'])): ex[r]=d
except FileNotFoundError: pass
print("distinct reasons:",len(c))
for r,n in c.most_common(40):
    print(n,r)
json.dump(ex,open("/verif/.build/soft-$pkg-examples.json","w"),indent=1)
PY
