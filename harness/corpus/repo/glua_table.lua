local a = {}
assert(table.maxn(a) == 0)
a["key"] = 1
assert(table.maxn(a) == 0)
table.insert(a, 10)
table.insert(a, 3, 10)
assert(table.maxn(a) == 3)

local ok, msg = pcall(function()
  table.insert(a)
end)
assert(not ok and string.find(msg, "wrong number of arguments"))

a = {}
a["key0"] = "0"
a["key1"] = "1"
a[1] = 1
a[2] = 2
a[true] = "true"
a[false] = "false"
for k, v in pairs(a) do
  if k == "key0" then
    assert(v == "0")
  elseif k == "key1" then
    assert(v == "1")
  elseif k == 1 then
    assert(v == 1)
  elseif k == 2 then
    assert(v == 2)
  elseif k == true then
    assert(v == "true")
  elseif k == false then
    assert(v == "false")
  else
    error("unexpected key:" .. tostring(k))
  end
end
