print('testing strings and string library')

assert('alo' < 'alo1')
assert('' < 'a')
assert('alo\0alo' < 'alo\0b')
assert('alo\0alo\0\0' > 'alo\0alo\0')
assert('alo' < 'alo\0')
assert('alo\0' > 'alo')
assert('\0' < '\1')
assert('\0\0' < '\0\1')
assert('\1\0a\0a' <= '\1\0a\0a')
assert(not ('\1\0a\0b' <= '\1\0a\0a'))
assert('\0\0\0' < '\0\0\0\0')
assert(not('\0\0\0\0' < '\0\0\0'))
assert('\0\0\0' <= '\0\0\0\0')
assert(not('\0\0\0\0' <= '\0\0\0'))
assert('\0\0\0' <= '\0\0\0')
assert('\0\0\0' >= '\0\0\0')
assert(not ('\0\0b' < '\0\0a\0'))
print('+')
assert(string.sub("123456789",2,4) == "234")
assert(string.sub("123456789",7) == "789")
assert(string.sub("123456789",7,6) == "")
assert(string.sub("123456789",7,7) == "7")
assert(string.sub("123456789",0,0) == "")
assert(string.sub("123456789",-10,10) == "123456789")
assert(string.sub("123456789",1,9) == "123456789")
assert(string.sub("123456789",-10,-20) == "")
assert(string.sub("123456789",-1) == "9")
assert(string.sub("123456789",-4) == "6789")
assert(string.sub("123456789",-6, -4) == "456")
assert(string.sub("\000123456789",3,5) == "234")
assert(("\000123456789"):sub(8) == "789")
print('+')

assert(string.find("123456789", "345") == 3)
a,b = string.find("123456789", "345")
assert(string.sub("123456789", a, b) == "345")
assert(string.find("1234567890123456789", "345", 3) == 3)
assert(string.find("1234567890123456789", "345", 4) == 13)
assert(string.find("1234567890123456789", "346", 4) == nil)
assert(string.find("1234567890123456789", ".45", -9) == 13)
assert(string.find("abcdefg", "\0", 5, 1) == nil)
assert(string.find("", "") == 1)
assert(string.find('', 'aaa', 1) == nil)
assert(('alo(.)alo'):find('(.)', 1, 1) == 4)

assert(string.len("") == 0)
assert(string.len("\0\0\0") == 3)
assert(string.len("1234567890") == 10)

assert(#"" == 0)
assert(#"\0\0\0" == 3)
assert(#"1234567890" == 10)

assert(string.byte("a") == 97)
assert(string.byte("á") > 127)
assert(string.byte(string.char(255)) == 255)
assert(string.byte(string.char(0)) == 0)
assert(string.byte("\0") == 0)
assert(string.byte("\0\0alo\0x", -1) == string.byte('x'))
assert(string.byte("ba", 2) == 97)
assert(string.byte("\n\n", 2, -1) == 10)
assert(string.byte("\n\n", 2, 2) == 10)
assert(string.byte("") == nil)
assert(string.byte("hi", -3) == nil)
assert(string.byte("hi", 3) == nil)
assert(string.byte("hi", 9, 10) == nil)
assert(string.byte("hi", 2, 1) == nil)
assert(string.char() == "")
assert(string.char(0, 255, 0) == "\0\255\0")
assert(string.char(0, string.byte("á"), 0) == "\0á\0")
assert(string.char(string.byte("ál\0óu", 1, -1)) == "ál\0óu")
assert(string.char(string.byte("ál\0óu", 1, 0)) == "")
assert(string.char(string.byte("ál\0óu", -10, 100)) == "ál\0óu")
print('+')

assert(string.upper("ab\0c") == "AB\0C")
assert(string.lower("\0ABCc%$") == "\0abcc%$")
assert(string.rep('teste', 0) == '')
assert(string.rep('tés\00tê', 2) == 'tés\0têtés\000tê')
assert(string.rep('', 10) == '')

assert(string.reverse"" == "")
assert(string.reverse"\0\1\2\3" == "\3\2\1\0")
assert(string.reverse"\0001234" == "4321\0")

for i=0,30 do assert(string.len(string.rep('a', i)) == i) end

assert(type(tostring(nil)) == 'string')
assert(type(tostring(12)) == 'string')
assert(''..12 == '12' and type(12 .. '') == 'string')
assert(string.find(tostring{}, 'table:'))
assert(string.find(tostring(print), 'function:'))
assert(tostring(1234567890123) == '1234567890123')
assert(#tostring('\0') == 1)
assert(tostring(true) == "true")
assert(tostring(false) == "false")
print('+')

x = '"ílo"\n\\'
-- assert(string.format('%q%s', x, x) == '"\\"ílo\\"\\\n\\\\""ílo"\n\\')
-- assert(string.format('%q', "\0") == [["\000"]])
--assert(string.format("\0%c\0%c%x\0", string.byte("á"), string.byte("b"), 140) ==
--              "\0á\0b8c\0")
assert(string.format('') == "")
assert(string.format("%c",34)..string.format("%c",48)..string.format("%c",90)..string.format("%c",100) ==
       string.format("%c%c%c%c", 34, 48, 90, 100))
assert(string.format("%s\0 is not \0%s", 'not be', 'be') == 'not be\0 is not \0be')
assert(string.format("%%%d %010d", 10, 23) == "%10 0000000023")
assert(tonumber(string.format("%f", 10.3)) == 10.3)
x = string.format('"%-50s"', 'a')
assert(#x == 52)
assert(string.sub(x, 1, 4) == '"a  ')

assert(string.format("-%.20s.20s", string.rep("%", 2000)) == "-"..string.rep("%", 20)..".20s")
assert(string.format('"-%20s.20s"', string.rep("%", 2000)) ==
       string.format("%q", "-"..string.rep("%", 2000)..".20s"))


-- longest number that can be formated
assert(string.len(string.format('%99.99f', -1e308)) >= 100)

-- assert(loadstring("return 1\n--comentário sem EOL no final")() == 1)

assert(table.concat{} == "")
assert(table.concat({}, 'x') == "")
assert(table.concat({'\0', '\0\1', '\0\1\2'}, '.\0.') == "\0.\0.\0\1.\0.\0\1\2")
local a = {}; for i=1,3000 do a[i] = "xuxu" end
assert(table.concat(a, "123").."123" == string.rep("xuxu123", 3000))
assert(table.concat(a, "b", 20, 20) == "xuxu")
assert(table.concat(a, "", 20, 21) == "xuxuxuxu")
assert(table.concat(a, "", 22, 21) == "")
assert(table.concat(a, "3", 2999) == "xuxu3xuxu")

a = {"a","b","c"}
assert(table.concat(a, ",", 1, 0) == "")
assert(table.concat(a, ",", 1, 1) == "a")
assert(table.concat(a, ",", 1, 2) == "a,b")
assert(table.concat(a, ",", 2) == "b,c")
assert(table.concat(a, ",", 3) == "c")
assert(table.concat(a, ",", 4) == "")

local locales = { "ptb", "ISO-8859-1", "pt_BR" }
local function trylocale (w)
  for _, l in ipairs(locales) do
    if os.setlocale(l, w) then return true end
  end
  return false
end

if not trylocale("collate")  then
  print("locale not supported")
else
  assert("alo" < "álo" and "álo" < "amo")
end

if not trylocale("ctype") then
  print("locale not supported")
else
  assert(string.gsub("áéíóú", "%a", "x") == "xxxxx")
  assert(string.gsub("áÁéÉ", "%l", "x") == "xÁxÉ")
  assert(string.gsub("áÁéÉ", "%u", "x") == "áxéx")
  assert(string.upper"áÁé{xuxu}ção" == "ÁÁÉ{XUXU}ÇÃO")
end

-- os.setlocale("C")
-- assert(os.setlocale() == 'C')
-- assert(os.setlocale(nil, "numeric") == 'C')

print('OK')


