// Package lgen generates Lua programs (as luaref ASTs) from rapid draws and prints them under
// generated lexical layouts.
package lgen

import (
	"fmt"
	"math"
	"strconv"
	"strings"

	"verif/luaref"
)

type tokFlag int

const (
	fStmtStart  tokFlag = 1 << iota // first token of a statement
	fNoNLBefore                     // no line break may precede this token (call parenthesis)
	fIndent                         // block opener: following statements are indented
	fDedent                         // block closer
	fTightL                         // may be glued to the previous token
	fTightR                         // may be glued to the next token
)

type tok struct {
	s     string
	flags tokFlag
	depth int
}

// Chooser supplies the layout decisions (a rapid-backed or a fixed implementation).
type Chooser interface {
	// Intn returns a number in [0,n); label is for rapid.
	Intn(n int, label string) int
}

type fixedChooser struct{}

func (fixedChooser) Intn(n int, label string) int { return 0 }

// Layout controls printing.  The zero value is the canonical layout: one simple statement per line,
// single spaces, shortest spellings.
type Layout struct {
	Ch        Chooser
	Wild      bool // random separators, comments, line breaks inside statements
	Spell     bool // alternative spellings of string and number literals
	Semis     bool // optional semicolons
	Parens    bool // redundant parentheses around operands (never around calls/varargs in multi-value positions)
	CRLF      int  // 0 LF, 1 CRLF, 2 CR, 3 mixed
	NoComment bool
	// HostileComments also emits short comments that look like the start of a long bracket (`--[= x`, `--[ [`)
	HostileComments bool
}

type printer struct {
	toks   []tok
	depth  int
	lay    *Layout
	pend   tokFlag
	breaks []int
}

func (p *printer) ch() Chooser {
	if p.lay.Ch == nil {
		return fixedChooser{}
	}
	return p.lay.Ch
}

func (p *printer) t(s string, flags ...tokFlag) {
	f := p.pend
	p.pend = 0
	for _, x := range flags {
		f |= x
	}
	p.toks = append(p.toks, tok{s: s, flags: f, depth: p.depth})
}

// Print renders the main chunk's block.
func Print(b *luaref.Block, lay *Layout) string {
	s, _ := PrintWithBreaks(b, lay)
	return s
}

// PrintWithBreaks also returns the byte offsets that directly follow a line break used as a token separator (never
// inside a token): whole lines (blank, comment-only) can be inserted there without changing any token.
func PrintWithBreaks(b *luaref.Block, lay *Layout) (string, []int) {
	if lay == nil {
		lay = &Layout{}
	}
	p := &printer{lay: lay}
	p.block(b)
	s := p.join()
	return s, p.breaks
}

func (p *printer) block(b *luaref.Block) {
	for _, s := range b.Stmts {
		p.pend |= fStmtStart
		p.stmt(s)
		if p.lay.Semis && p.ch().Intn(4, "semi") == 0 {
			p.t(";", fTightL)
		}
	}
}

func (p *printer) body(b *luaref.Block) {
	p.depth++
	p.block(b)
	p.depth--
}

func (p *printer) exprList(es []luaref.Expr) {
	for i, e := range es {
		if i > 0 {
			p.t(",", fTightL)
		}
		p.expr(e, 0)
	}
}

func (p *printer) stmt(s luaref.Stmt) {
	switch st := s.(type) {
	case *luaref.LocalStmt:
		p.t("local")
		for i, n := range st.Names {
			if i > 0 {
				p.t(",", fTightL)
			}
			p.t(n)
		}
		if len(st.Exprs) > 0 {
			p.t("=")
			p.exprList(st.Exprs)
		}
	case *luaref.AssignStmt:
		p.exprList(st.Targets)
		p.t("=")
		p.exprList(st.Exprs)
	case *luaref.CallStmt:
		p.expr(st.Call, 0)
	case *luaref.DoStmt:
		p.t("do")
		p.body(st.Body)
		p.t("end", fStmtStart)
	case *luaref.WhileStmt:
		p.t("while")
		p.expr(st.Cond, 0)
		p.t("do")
		p.body(st.Body)
		p.t("end", fStmtStart)
	case *luaref.RepeatStmt:
		p.t("repeat")
		p.body(st.Body)
		p.t("until", fStmtStart)
		p.expr(st.Cond, 0)
	case *luaref.IfStmt:
		for i, c := range st.Conds {
			if i == 0 {
				p.t("if")
			} else {
				p.t("elseif", fStmtStart)
			}
			p.expr(c, 0)
			p.t("then")
			p.body(st.Blocks[i])
		}
		if st.Else != nil {
			p.t("else", fStmtStart)
			p.body(st.Else)
		}
		p.t("end", fStmtStart)
	case *luaref.NumForStmt:
		p.t("for")
		p.t(st.Var)
		p.t("=")
		p.expr(st.Start, 0)
		p.t(",", fTightL)
		p.expr(st.End, 0)
		if st.Step != nil {
			p.t(",", fTightL)
			p.expr(st.Step, 0)
		}
		p.t("do")
		p.body(st.Body)
		p.t("end", fStmtStart)
	case *luaref.GenForStmt:
		p.t("for")
		for i, n := range st.Names {
			if i > 0 {
				p.t(",", fTightL)
			}
			p.t(n)
		}
		p.t("in")
		p.exprList(st.Exprs)
		p.t("do")
		p.body(st.Body)
		p.t("end", fStmtStart)
	case *luaref.FuncStmt:
		p.t("function")
		p.funcName(st.Target, st.Fn)
		p.funcRest(st.Fn, isMethodTarget(st))
	case *luaref.LocalFuncStmt:
		p.t("local")
		p.t("function")
		p.t(st.Name)
		p.funcRest(st.Fn, false)
	case *luaref.ReturnStmt:
		p.t("return")
		p.exprList(st.Exprs)
	case *luaref.BreakStmt:
		p.t("break")
	case *luaref.GotoStmt:
		p.t("goto")
		p.t(st.Label)
	case *luaref.LabelStmt:
		p.t("::")
		p.t(st.Name, fTightL, fTightR)
		p.t("::")
	default:
		panic(fmt.Sprintf("lgen: print: unknown statement %T", s))
	}
}

// FuncStmt with a method target is marked by the generator through Fn.Name == ":".
func isMethodTarget(st *luaref.FuncStmt) bool { return st.Fn.Name == ":" }

func (p *printer) funcName(target luaref.Expr, fn *luaref.FuncExpr) {
	var parts []string
	e := target
	for {
		switch x := e.(type) {
		case *luaref.NameExpr:
			parts = append([]string{x.Name}, parts...)
			e = nil
		case *luaref.IndexExpr:
			parts = append([]string{x.Key.(*luaref.StringExpr).Val}, parts...)
			e = x.Obj
		default:
			panic("lgen: bad function name target")
		}
		if e == nil {
			break
		}
	}
	for i, s := range parts {
		if i > 0 {
			if i == len(parts)-1 && fn.Name == ":" {
				p.t(":", fTightL, fTightR)
			} else {
				p.t(".", fTightL, fTightR)
			}
		}
		p.t(s)
	}
}

func (p *printer) funcRest(fn *luaref.FuncExpr, method bool) {
	p.t("(", fTightL, fNoNLBefore)
	params := fn.Params
	if method && len(params) > 0 && params[0] == "self" {
		params = params[1:]
	}
	for i, n := range params {
		if i > 0 {
			p.t(",", fTightL)
		}
		p.t(n)
	}
	if fn.IsVararg {
		if len(params) > 0 {
			p.t(",", fTightL)
		}
		p.t("...")
	}
	p.t(")", fTightL)
	p.body(fn.Body)
	p.t("end", fStmtStart)
}

var prec = map[string][2]int{
	"or": {1, 1}, "and": {2, 2},
	"<": {3, 3}, ">": {3, 3}, "<=": {3, 3}, ">=": {3, 3}, "~=": {3, 3}, "==": {3, 3},
	"..": {5, 4}, "+": {6, 6}, "-": {6, 6}, "*": {7, 7}, "/": {7, 7}, "%": {7, 7}, "^": {10, 9},
}

const unaryPrec = 8

// expr prints e in a context that binds with priority ctx (the expression needs parentheses when its
// own priority is not higher than ctx).
func (p *printer) expr(e luaref.Expr, ctx int) {
	switch x := e.(type) {
	case *luaref.NilExpr:
		p.t("nil")
	case *luaref.TrueExpr:
		p.t("true")
	case *luaref.FalseExpr:
		p.t("false")
	case *luaref.VarargExpr:
		p.t("...")
	case *luaref.NumberExpr:
		p.t(p.number(x))
	case *luaref.StringExpr:
		p.t(p.str(x.Val))
	case *luaref.NameExpr:
		p.t(x.Name)
	case *luaref.ParenExpr:
		p.t("(", fTightR)
		p.expr(x.X, 0)
		p.t(")", fTightL)
	case *luaref.FuncExpr:
		p.t("function")
		p.funcRest(x, false)
	case *luaref.TableExpr:
		p.t("{", fTightR)
		for i, f := range x.Fields {
			if i > 0 {
				if p.lay.Wild && p.ch().Intn(3, "fieldsep") == 0 {
					p.t(";", fTightL)
				} else {
					p.t(",", fTightL)
				}
			}
			if f.Key != nil {
				if s, ok := f.Key.(*luaref.StringExpr); ok && isIdent(s.Val) && !(p.lay.Wild && p.ch().Intn(3, "keyform") == 0) {
					p.t(s.Val)
				} else {
					p.t("[", fTightR)
					p.expr(f.Key, 0)
					p.t("]", fTightL)
				}
				p.t("=")
			}
			p.expr(f.Val, 0)
		}
		if len(x.Fields) > 0 && p.lay.Wild && p.ch().Intn(4, "trailsep") == 0 {
			p.t(",", fTightL)
		}
		p.t("}", fTightL)
	case *luaref.IndexExpr:
		p.prefix(x.Obj)
		if s, ok := x.Key.(*luaref.StringExpr); ok && isIdent(s.Val) && !(p.lay.Wild && p.ch().Intn(4, "idxform") == 0) {
			p.t(".", fTightL, fTightR)
			p.t(s.Val)
		} else {
			p.t("[", fTightL, fTightR)
			p.expr(x.Key, 0)
			p.t("]", fTightL)
		}
	case *luaref.CallExpr:
		p.prefix(x.Fn)
		if x.Method != "" {
			p.t(":", fTightL, fTightR)
			p.t(x.Method)
		}
		// f"str" / f{...} sugar
		if len(x.Args) == 1 && p.lay.Wild && p.ch().Intn(4, "callsugar") == 0 {
			switch a := x.Args[0].(type) {
			case *luaref.StringExpr:
				p.t(p.str(a.Val), fNoNLBefore)
				return
			case *luaref.TableExpr:
				p.expr(a, 0)
				return
			}
		}
		p.t("(", fTightL, fTightR, fNoNLBefore)
		p.exprList(x.Args)
		p.t(")", fTightL)
	case *luaref.UnExpr:
		open := unaryPrec <= ctx
		if open {
			p.t("(", fTightR)
		}
		p.t(x.Op)
		p.expr(x.X, unaryPrec)
		if open {
			p.t(")", fTightL)
		}
	case *luaref.BinExpr:
		pr := prec[x.Op]
		open := pr[0] <= ctx
		if !open && p.lay.Parens && p.ch().Intn(5, "redundantparen") == 0 {
			open = true
		}
		if open {
			p.t("(", fTightR)
		}
		// left operand must bind tighter than (left priority - 1); for left-assoc ops an equal-priority left child is fine
		p.expr(x.L, pr[0]-1+rightAssocAdj(x.Op))
		p.t(x.Op)
		p.expr(x.R, pr[1])
		if open {
			p.t(")", fTightL)
		}
	default:
		panic(fmt.Sprintf("lgen: print: unknown expression %T", e))
	}
}

// For right-associative operators (.. and ^) the left operand needs parentheses at equal priority.
func rightAssocAdj(op string) int {
	if op == ".." || op == "^" {
		return 1
	}
	return 0
}

// prefix prints the prefix expression of an index or call: names, indexes, calls and parenthesised expressions
// can stand as they are; everything else (literals, operators, functions, tables) must be parenthesised.
func (p *printer) prefix(e luaref.Expr) {
	switch e.(type) {
	case *luaref.NameExpr, *luaref.IndexExpr, *luaref.CallExpr, *luaref.ParenExpr:
		p.expr(e, 0)
	default:
		p.t("(", fTightR)
		p.expr(e, 0)
		p.t(")", fTightL)
	}
}

func isIdent(s string) bool {
	if s == "" {
		return false
	}
	for i := 0; i < len(s); i++ {
		c := s[i]
		if !(c == '_' || c >= 'a' && c <= 'z' || c >= 'A' && c <= 'Z' || i > 0 && c >= '0' && c <= '9') {
			return false
		}
	}
	switch s {
	case "and", "break", "do", "else", "elseif", "end", "false", "for", "function", "goto", "if", "in", "local", "nil", "not",
		"or", "repeat", "return", "then", "true", "until", "while":
		return false
	}
	return true
}

// ---- literal spellings

func (p *printer) number(n *luaref.NumberExpr) string {
	if n.Text != "" {
		return n.Text
	}
	v := n.Val
	if v < 0 || v != v || math.IsInf(v, 0) {
		panic("lgen: number literal must be finite and non-negative")
	}
	short := strconv.FormatFloat(v, 'g', -1, 64)
	if strings.Contains(short, "e+") {
		short = strings.Replace(short, "e+", "e", 1)
	}
	if !p.lay.Spell {
		return short
	}
	isInt := v == math.Floor(v) && v < 1e15
	switch p.ch().Intn(8, "numspell") {
	case 1:
		if isInt && v < 1<<52 {
			return fmt.Sprintf("0x%x", uint64(v))
		}
	case 2:
		if isInt && v < 1<<52 {
			return fmt.Sprintf("0X%X", uint64(v))
		}
	case 3:
		if isInt {
			return strconv.FormatInt(int64(v), 10) + "."
		}
	case 4:
		if isInt {
			return strconv.FormatInt(int64(v), 10) + ".0"
		}
	case 5:
		s := strconv.FormatFloat(v, 'e', -1, 64)
		return strings.Replace(s, "e+", "E+", 1)
	case 6:
		s := strconv.FormatFloat(v, 'e', 17, 64)
		if r, err := strconv.ParseFloat(s, 64); err == nil && r == v {
			return s
		}
	case 7:
		if v > 0 && v < 1 {
			if s := strconv.FormatFloat(v, 'f', -1, 64); strings.HasPrefix(s, "0.") {
				return s[1:]
			}
		}
	}
	return short
}

func (p *printer) str(s string) string {
	style := 0
	if p.lay.Spell {
		style = p.ch().Intn(6, "strspell")
	}
	switch style {
	case 4, 5: // long bracket when the content allows it
		if !strings.ContainsAny(s, "\r") && !strings.HasPrefix(s, "\n") || style == 5 && !strings.ContainsAny(s, "\r") {
			lvl := 0
			for strings.Contains(s, "]"+strings.Repeat("=", lvl)+"]") || strings.HasSuffix(s, "]"+strings.Repeat("=", lvl)) {
				lvl++
			}
			eq := strings.Repeat("=", lvl)
			body := s
			if strings.HasPrefix(s, "\n") || p.ch().Intn(2, "leadnl") == 0 {
				body = "\n" + s
			}
			return "[" + eq + "[" + body + "]" + eq + "]"
		}
	}
	q := byte('"')
	if style == 1 || style == 3 {
		q = '\''
	}
	var b strings.Builder
	b.WriteByte(q)
	for i := 0; i < len(s); i++ {
		c := s[i]
		nextDigit := i+1 < len(s) && s[i+1] >= '0' && s[i+1] <= '9'
		switch {
		case c == q || c == '\\':
			b.WriteByte('\\')
			b.WriteByte(c)
		case c == '\n':
			if style >= 2 && style <= 3 {
				b.WriteString("\\\n")
			} else {
				b.WriteString("\\n")
			}
		case c == '\r':
			b.WriteString("\\r")
		case c == '\t':
			b.WriteString("\\t")
		case c == 0 || c < 32 || c == 127:
			if nextDigit {
				fmt.Fprintf(&b, "\\%03d", c)
			} else {
				fmt.Fprintf(&b, "\\%d", c)
			}
		case c >= 128:
			if style >= 2 {
				fmt.Fprintf(&b, "\\%03d", c)
			} else {
				b.WriteByte(c)
			}
		default:
			if style == 3 && c >= 'a' && c <= 'z' && p.ch().Intn(6, "decesc") == 0 {
				fmt.Fprintf(&b, "\\%03d", c)
			} else {
				b.WriteByte(c)
			}
		}
	}
	b.WriteByte(q)
	return b.String()
}

// ---- joining tokens under the layout

var commentTexts = []string{"x", "", " note ", "]]", "[[", "]=]", "'\"", "end", "--", "[=[ ", "if then"}

func (p *printer) join() string {
	var b strings.Builder
	nl := func() string {
		switch p.lay.CRLF {
		case 1:
			return "\r\n"
		case 2:
			return "\r"
		case 3:
			return []string{"\n", "\r\n", "\r", "\n\r"}[p.ch().Intn(4, "nlstyle")]
		}
		return "\n"
	}
	for i, t := range p.toks {
		if i > 0 {
			prev := p.toks[i-1]
			noNL := t.flags&fNoNLBefore != 0
			if !p.lay.Wild {
				glue := t.flags&fTightL != 0 || prev.flags&fTightR != 0
				switch {
				case t.flags&fStmtStart != 0:
					b.WriteString(nl())
					p.breaks = append(p.breaks, b.Len())
					b.WriteString(strings.Repeat("  ", t.depth))
				case glue && !needsSpace(prev.s, t.s):
				default:
					b.WriteByte(' ')
				}
			} else {
				sep := p.wildSep(prev, t, noNL, nl)
				// a separator that contains a line break: the offset after its last line-break character is a break
				if j := strings.LastIndexAny(sep, "\n\r"); j >= 0 {
					p.breaks = append(p.breaks, b.Len()+j+1)
				}
				b.WriteString(sep)
			}
		}
		b.WriteString(t.s)
	}
	if p.lay.Wild {
		if p.ch().Intn(2, "trailnl") == 0 {
			b.WriteString(nl())
		}
	} else {
		b.WriteString(nl())
	}
	return b.String()
}

// NeedsSpace reports whether two adjacent tokens need blank space between them to stay two tokens.
func NeedsSpace(a, c string) bool { return needsSpace(a, c) }

func needsSpace(a, c string) bool {
	if a == "" || c == "" {
		return false
	}
	x, y := a[len(a)-1], c[0]
	isW := func(ch byte) bool {
		return ch == '_' || ch >= 'a' && ch <= 'z' || ch >= 'A' && ch <= 'Z' || ch >= '0' && ch <= '9'
	}
	isNumeral := a[0] >= '0' && a[0] <= '9' || len(a) > 1 && a[0] == '.' && a[1] >= '0' && a[1] <= '9'
	switch {
	case isW(x) && isW(y):
		return true
	case isNumeral && isW(y): // "2." followed by a word: the numeral would swallow it
		return true
	case x == '-' && y == '-': // would start a comment
		return true
	case y == '.' && (a[0] >= '0' && a[0] <= '9' || a[0] == '.'): // 1 .. x, 3. .. x, .. ...: keep numbers and dots apart
		return true
	case x == '.' && y == '.':
		return true
	case x == '.' && y >= '0' && y <= '9':
		return true
	case x == '[' && (y == '[' || y == '='): // would start a long bracket
		return true
	case x == ']' && y == ']':
		return false
	case x == '=' && y == '=', x == '<' && y == '=', x == '>' && y == '=', x == '~' && y == '=', x == ':' && y == ':':
		return true
	}
	return false
}

func (p *printer) wildSep(prev, t tok, noNL bool, nl func() string) string {
	c := p.ch()
	tight := t.flags&fTightL != 0 || prev.flags&fTightR != 0
	k := c.Intn(12, "sep")
	if t.flags&fStmtStart != 0 && k < 6 {
		k = 6 // statements mostly start on a new line
	}
	var s string
	switch {
	case k == 0 && tight && !needsSpace(prev.s, t.s):
		s = ""
	case k <= 3:
		s = " "
	case k == 4:
		s = "\t"
	case k == 5:
		s = "  "
	case k <= 8:
		if noNL {
			s = " "
		} else {
			s = nl() + strings.Repeat(" ", c.Intn(5, "indent"))
		}
	case k == 9:
		if noNL {
			s = " "
		} else {
			s = nl() + nl()
		}
	case k == 10:
		if p.lay.NoComment {
			s = " "
			break
		}
		// inline long comment
		txt := commentTexts[c.Intn(len(commentTexts), "ctext")]
		lvl := 0
		for strings.Contains(txt, "]"+strings.Repeat("=", lvl)+"]") || strings.HasSuffix(txt, "]"+strings.Repeat("=", lvl)) {
			lvl++
		}
		if c.Intn(3, "clevel") == 0 {
			lvl += 2
			for strings.Contains(txt, "]"+strings.Repeat("=", lvl)+"]") || strings.HasSuffix(txt, "]"+strings.Repeat("=", lvl)) {
				lvl++
			}
		}
		eq := strings.Repeat("=", lvl)
		if noNL && strings.ContainsAny(txt, "\n\r") {
			txt = "x"
		}
		s = " --[" + eq + "[" + txt + "]" + eq + "] "
	default:
		if noNL || p.lay.NoComment {
			s = " "
			break
		}
		txt := commentTexts[c.Intn(len(commentTexts), "ctext")]
		// a short comment must not be the start of a long one ("--[[" or "--[=*["); "--[= x" and "--[ [" are short comments
		if p.lay.HostileComments && c.Intn(4, "hostile") == 0 {
			txt = []string{"[= x", "[ [", "[=", "[==  [ ]]", "[", "]]", "[=]"}[c.Intn(7, "hostilewhich")]
		} else if strings.HasPrefix(txt, "[[") || strings.HasPrefix(txt, "[=") {
			txt = " " + txt
		}
		s = " --" + txt + nl()
	}
	if s == "" && needsSpace(prev.s, t.s) {
		s = " "
	}
	return s
}
