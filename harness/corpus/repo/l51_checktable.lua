
assert(rawget(_G, "stat") == nil)  -- module not loaded before

if T == nil then
  stat = function () print"`querytab' nao ativo" end
  return
end


function checktable (t)
  local asize, hsize, ff = T.querytab(t)
  local l = {}
  for i=0,hsize-1 do
    local key,val,next = T.querytab(t, i + asize)
    if key == nil then
      assert(l[i] == nil and val==nil and next==nil)
    elseif key == "<undef>" then
      assert(val==nil)
    else
      assert(t[key] == val)
      local mp = T.hash(key, t)
      if l[i] then
        assert(l[i] == mp)
      elseif mp ~= i then
        l[i] = mp
      else  -- list head
        l[mp] = {mp}   -- first element
        while next do
          assert(ff <= next and next < hsize)
          if l[next] then assert(l[next] == mp) else l[next] = mp end
          table.insert(l[mp], next)
          key,val,next = T.querytab(t, next)
          assert(key)
        end
      end
    end
  end
  l.asize = asize; l.hsize = hsize; l.ff = ff
  return l
end

function mostra (t)
  local asize, hsize, ff = T.querytab(t)
  print(asize, hsize, ff)
  print'------'
  for i=0,asize-1 do
    local _, v = T.querytab(t, i)
    print(string.format("[%d] -", i), v)
  end
  print'------'
  for i=0,hsize-1 do
    print(i, T.querytab(t, i+asize))
  end
  print'-------------'
end

function stat (t)
  t = checktable(t)
  local nelem, nlist = 0, 0
  local maxlist = {}
  for i=0,t.hsize-1 do
    if type(t[i]) == 'table' then
      local n = table.getn(t[i])
      nlist = nlist+1
      nelem = nelem + n
      if not maxlist[n] then maxlist[n] = 0 end
      maxlist[n] = maxlist[n]+1
    end
  end
  print(string.format("hsize=%d  elements=%d  load=%.2f  med.len=%.2f (asize=%d)",
          t.hsize, nelem, nelem/t.hsize, nelem/nlist, t.asize))
  for i=1,table.getn(maxlist) do
    local n = maxlist[i] or 0
    print(string.format("%5d %10d %.2f%%", i, n, n*100/nlist))
  end
end

