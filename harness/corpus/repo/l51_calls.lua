print("testing functions and calls")

-- get the opportunity to test 'type' too ;)

assert(type(1<2) == 'boolean')
assert(type(true) == 'boolean' and type(false) == 'boolean')
assert(type(nil) == 'nil' and type(-3) == 'number' and type'x' == 'string' and
       type{} == 'table' and type(type) == 'function')

assert(type(assert) == type(print))
f = nil
function f (x) return a:x (x) end
assert(type(f) == 'function')


-- testing local-function recursion
fact = false
do
  local res = 1
  local function fact (n)
    if n==0 then return res
    else return n*fact(n-1)
    end
  end
  assert(fact(5) == 120)
end
assert(fact == false)

-- testing declarations
a = {i = 10}
self = 20
function a:x (x) return x+self.i end
function a.y (x) return x+self end

assert(a:x(1)+10 == a.y(1))

a.t = {i=-100}
a["t"].x = function (self, a,b) return self.i+a+b end

assert(a.t:x(2,3) == -95)

do
  local a = {x=0}
  function a:add (x) self.x, a.y = self.x+x, 20; return self end
  assert(a:add(10):add(20):add(30).x == 60 and a.y == 20)
end

local a = {b={c={}}}

function a.b.c.f1 (x) return x+1 end
function a.b.c:f2 (x,y) self[x] = y end
assert(a.b.c.f1(4) == 5)
a.b.c:f2('k', 12); assert(a.b.c.k == 12)

print('+')

t = nil   -- 'declare' t
function f(a,b,c) local d = 'a'; t={a,b,c,d} end

f(      -- this line change must be valid
  1,2)
assert(t[1] == 1 and t[2] == 2 and t[3] == nil and t[4] == 'a')
f(1,2,   -- this one too
      3,4)
assert(t[1] == 1 and t[2] == 2 and t[3] == 3 and t[4] == 'a')

function fat(x)
  if x <= 1 then return 1
  else return x*loadstring("return fat(" .. x-1 .. ")")()
  end
end

assert(loadstring "loadstring 'assert(fat(6)==720)' () ")()
a = loadstring('return fat(5), 3')
a,b = a()
assert(a == 120 and b == 3)
print('+')

function err_on_n (n)
  if n==0 then error(); exit(1);
  else err_on_n (n-1); exit(1);
  end
end

do
  function dummy (n)
    if n > 0 then
      assert(not pcall(err_on_n, n))
      dummy(n-1)
    end
  end
end

dummy(10)

function deep (n)
  if n>0 then deep(n-1) end
end
deep(10)
deep(200)

-- testing tail call
function deep (n) if n>0 then return deep(n-1) else return 101 end end
assert(deep(30000) == 101)
a = {}
function a:deep (n) if n>0 then return self:deep(n-1) else return 101 end end
assert(a:deep(30000) == 101)

print('+')


a = nil
(function (x) a=x end)(23)
assert(a == 23 and (function (x) return x*2 end)(20) == 40)


local x,y,z,a
a = {}; lim = 2000
for i=1, lim do a[i]=i end
assert(select(lim, unpack(a)) == lim and select('#', unpack(a)) == lim)
x = unpack(a)
assert(x == 1)
x = {unpack(a)}
assert(table.getn(x) == lim and x[1] == 1 and x[lim] == lim)
x = {unpack(a, lim-2)}
assert(table.getn(x) == 3 and x[1] == lim-2 and x[3] == lim)
x = {unpack(a, 10, 6)}
assert(next(x) == nil)   -- no elements
x = {unpack(a, 11, 10)}
assert(next(x) == nil)   -- no elements
x,y = unpack(a, 10, 10)
assert(x == 10 and y == nil)
x,y,z = unpack(a, 10, 11)
assert(x == 10 and y == 11 and z == nil)
a,x = unpack{1}
assert(a==1 and x==nil)
a,x = unpack({1,2}, 1, 1)
assert(a==1 and x==nil)


-- testing closures

-- fixed-point operator
Y = function (le)
      local function a (f)
        return le(function (x) return f(f)(x) end)
      end
      return a(a)
    end


-- non-recursive factorial

F = function (f)
      return function (n)
               if n == 0 then return 1
               else return n*f(n-1) end
             end
    end

fat = Y(F)

assert(fat(0) == 1 and fat(4) == 24 and Y(F)(5)==5*Y(F)(4))

local function g (z)
  local function f (a,b,c,d)
    return function (x,y) return a+b+c+d+a+x+y+z end
  end
  return f(z,z+1,z+2,z+3)
end

f = g(10)
assert(f(9, 16) == 10+11+12+13+10+9+16+10)

Y, F, f = nil
print('+')

-- testing multiple returns

function unlpack (t, i)
  i = i or 1
  if (i <= table.getn(t)) then
    return t[i], unlpack(t, i+1)
  end
end

function equaltab (t1, t2)
  assert(table.getn(t1) == table.getn(t2))
  for i,v1 in ipairs(t1) do
    assert(v1 == t2[i])
  end
end

local function pack (...)
  local x = {...}
  x.n = select('#', ...)
  return x
end

function f() return 1,2,30,4 end
function ret2 (a,b) return a,b end

local a,b,c,d = unlpack{1,2,3}
assert(a==1 and b==2 and c==3 and d==nil)
a = {1,2,3,4,false,10,'alo',false,assert}
equaltab(pack(unlpack(a)), a)
equaltab(pack(unlpack(a), -1), {1,-1})
a,b,c,d = ret2(f()), ret2(f())
assert(a==1 and b==1 and c==2 and d==nil)
a,b,c,d = unlpack(pack(ret2(f()), ret2(f())))
assert(a==1 and b==1 and c==2 and d==nil)
a,b,c,d = unlpack(pack(ret2(f()), (ret2(f()))))
assert(a==1 and b==1 and c==nil and d==nil)

a = ret2{ unlpack{1,2,3}, unlpack{3,2,1}, unlpack{"a", "b"}}
assert(a[1] == 1 and a[2] == 3 and a[3] == "a" and a[4] == "b")


-- testing calls with 'incorrect' arguments
rawget({}, "x", 1)
rawset({}, "x", 1, 2)
assert(math.sin(1,2) == math.sin(1))
table.sort({10,9,8,4,19,23,0,0}, function (a,b) return a<b end, "extra arg")


-- test for generic load
x = "-- a comment\n  x = 10 + \n23; \
     local a = function () x = 'hi' end; \
     return ''"
local i = 0
function read1 (x)
  return function ()
    collectgarbage()
    i=i+1
    return string.sub(x, i, i)
  end
end

a = assert(load(read1(x), "modname"))
assert(a() == "" and _G.x == 33)
assert(debug.getinfo(a).source == "modname")

-- x = string.dump(loadstring("x = 1; return x"))
-- i = 0
-- a = assert(load(read1(x)))
-- assert(a() == 1 and _G.x == 1)

-- i = 0
-- local a, b = load(read1("*a = 123"))
-- assert(not a and type(b) == "string" and i == 2)
-- 
-- a, b = load(function () error("hhi") end)
-- assert(not a and string.find(b, "hhi"))

-- test generic load with nested functions
i = 0
x = [[
  return function (x)
    return function (y)
     return function (z)
       return x+y+z
     end
   end
  end
]]

a = assert(load(read1(x)))
assert(a()(2)(3)(10) == 15)


-- test for dump/undump with upvalues
-- local a, b = 20, 30
-- x = loadstring(string.dump(function (x)
--   if x == "set" then a = 10+b; b = b+1 else
--   return a
--   end
-- end))
-- assert(x() == nil)
-- assert(debug.setupvalue(x, 1, "hi") == "a")
-- assert(x() == "hi")
-- assert(debug.setupvalue(x, 2, 13) == "b")
-- assert(not debug.setupvalue(x, 3, 10))   -- only 2 upvalues
-- x("set")
-- assert(x() == 23)
-- x("set")
-- assert(x() == 24)


-- test for bug in parameter adjustment
assert((function () return nil end)(4) == nil)
assert((function () local a; return a end)(4) == nil)
assert((function (a) return a end)() == nil)

print('OK')
return deep
