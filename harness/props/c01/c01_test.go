// Package c01: the core language runs as the Lua 5.1 reference semantics define.
package c01

import (
	"fmt"
	"testing"

	"pgregory.net/rapid"

	"verif/e1"
	"verif/lgen"
	"verif/vf"
)

func TestMain(m *testing.M) { vf.Main(m) }
func TestReplay(t *testing.T) { vf.Replay(t) }

type ProgCase struct {
	Src     string         `json:"src"`
	Profile string         `json:"profile,omitempty"`
	Layout  string         `json:"layout,omitempty"`
	Classes map[string]int `json:"gen_classes,omitempty"`
}

var chkDiff = vf.Register("ref_diff", func(k *vf.C, c *ProgCase) error {
	v, detail, r, _ := e1.Diff(c.Src)
	switch v {
	case e1.Discard:
		k.Discard(discardKey(detail))
		return nil
	case e1.Differ:
		return fmt.Errorf("%s", detail)
	}
	for cl, n := range c.Classes {
		k.ClassN("gen:"+cl, n)
	}
	st := r.In.Stat
	for cl, n := range st.Classes {
		k.ClassN("run:"+cl, n)
	}
	if st.Coercions > 0 {
		k.Class("run:coercion")
	}
	if st.Caught > 0 {
		k.Class("run:fault_caught")
	}
	if r.Failed {
		k.Class("run:chunk_failed")
	}
	k.Class("layout:" + c.Layout)
	// non-trivial: >= 8 statements of >= 4 kinds executed, >= 3 values emitted, did not fail in its first statement
	nvals := 0
	for _, e := range r.Trace {
		nvals += len(e.Vals)
	}
	if st.Stmts >= 8 && len(st.StmtKinds) >= 4 && nvals >= 3 {
		k.Nontrivial(vf.Hash(c.Src))
		k.Sample(c.Layout, 2, map[string]any{"src": clip(c.Src, 1500), "events": len(r.Trace), "stmts_executed": st.Stmts})
	}
	return nil
})

func discardKey(d string) string {
	if len(d) > 70 {
		d = d[:70]
	}
	return d
}

func clip(s string, n int) string {
	if len(s) > n {
		return s[:n] + "..."
	}
	return s
}

func init() { chkDiff.Journal = true }

func genCase(rt *rapid.T, p *lgen.Profile) *ProgCase {
	g := lgen.New(rt, p)
	b := g.Program()
	lay := &lgen.Layout{Ch: g}
	name := "canonical"
	switch rapid.IntRange(0, 3).Draw(rt, "layout") {
	case 1:
		lay.Spell, lay.Parens, lay.Semis = true, true, true
		name = "spelled"
	case 2:
		lay.Wild, lay.Spell, lay.Semis, lay.Parens = true, true, true, true
		lay.CRLF = rapid.IntRange(0, 3).Draw(rt, "crlf")
		name = "wild"
	}
	return &ProgCase{Src: lgen.Print(b, lay), Profile: p.Name, Layout: name, Classes: g.Classes}
}

func TestCoreDiff(t *testing.T) {
	vf.Rapid(t, func(rt *rapid.T) {
		chkDiff.Run(rt, genCase(rt, lgen.Core()))
	})
}
