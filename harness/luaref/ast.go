// Package luaref is an independent definitional implementation of Lua 5.1 (+ goto) used as the
// reference side of the differential checks: its own lexer, parser, AST, tree-walking interpreter
// and library subset.  It shares no code with gopher-lua.
package luaref

// Every node records the line of its first and last token (1-based, as the lexer counts lines:
// LF, CR, CRLF and LFCR each end one line).

type Node struct {
	Line, EndLine int
}

type Expr interface{ exprNode() *Node }
type Stmt interface{ stmtNode() *Node }

func (n *Node) exprNode() *Node { return n }
func (n *Node) stmtNode() *Node { return n }

// ---- expressions

type NilExpr struct{ Node }
type TrueExpr struct{ Node }
type FalseExpr struct{ Node }
type VarargExpr struct{ Node }
type NumberExpr struct {
	Node
	Val  float64
	Text string
}
type StringExpr struct {
	Node
	Val string
}

// NameExpr is resolved by the resolver into a local slot, an upvalue index or a global.
type NameExpr struct {
	Node
	Name string
	Kind int // 0 unresolved, NameLocal, NameUpval, NameGlobal
	Idx  int
}

const (
	NameLocal = iota + 1
	NameUpval
	NameGlobal
)

type IndexExpr struct {
	Node
	Obj, Key Expr
}
type CallExpr struct {
	Node
	Fn     Expr
	Args   []Expr
	Method string // non-empty for obj:name(args); Fn is then the object
	// Line of the "(" / argument start is not needed; errors are reported against the statement span.
}
type FuncExpr struct {
	Node
	Params   []string
	IsVararg bool
	Body     *Block
	Name     string // for diagnostics only
	// filled by the resolver
	NumSlots   int
	Upvals     []UpvalDesc
	UsesArg    bool // compat `arg` table wanted (vararg function that never mentions ...)
	UsesDots   bool
	ParamSlots []int
	ArgSlot    int
	Info       ParseInfo // main chunk only
}
type UpvalDesc struct {
	FromParentLocal bool
	Idx             int
	Name            string
}
type BinExpr struct {
	Node
	Op   string
	L, R Expr
}
type UnExpr struct {
	Node
	Op string // "-", "not", "#"
	X  Expr
}
type ParenExpr struct {
	Node
	X Expr
}
type TableField struct {
	Key  Expr // nil for positional
	Val  Expr
	Line int
}
type TableExpr struct {
	Node
	Fields []TableField
}

// ---- statements

type Block struct {
	Node
	Stmts []Stmt
	// resolver: labels defined directly in this block: name -> statement index
	Labels map[string]int
}

type LocalStmt struct {
	Node
	Names []string
	Exprs []Expr
	Slots []int
}
type AssignStmt struct {
	Node
	Targets []Expr
	Exprs   []Expr
}
type CallStmt struct {
	Node
	Call *CallExpr
}
type DoStmt struct {
	Node
	Body *Block
}
type WhileStmt struct {
	Node
	Cond   Expr
	Body   *Block
	HdrEnd int // line of `do`
}
type RepeatStmt struct {
	Node
	Body      *Block
	Cond      Expr
	UntilLine int
}
type IfStmt struct {
	Node
	Conds   []Expr
	Blocks  []*Block
	Else    *Block
	HdrEnds []int // line of each `then`
	HdrBegs []int // line of each if/elseif
}
type NumForStmt struct {
	Node
	Var              string
	Start, End, Step Expr
	Body             *Block
	Slot             int
	HdrEnd           int
}
type GenForStmt struct {
	Node
	Names  []string
	Exprs  []Expr
	Body   *Block
	Slots  []int
	HdrEnd int
}
type FuncStmt struct { // function a.b.c:m() ... end
	Node
	Target Expr // NameExpr or IndexExpr chain
	Fn     *FuncExpr
}
type LocalFuncStmt struct {
	Node
	Name string
	Fn   *FuncExpr
	Slot int
}
type ReturnStmt struct {
	Node
	Exprs []Expr
}
type BreakStmt struct{ Node }
type GotoStmt struct {
	Node
	Label string
}
type LabelStmt struct {
	Node
	Name string
}
