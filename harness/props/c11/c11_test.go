// Package c11: cancelling the context stops any running script promptly with an error.
package c11

import (
	"context"
	"fmt"
	"regexp"
	"runtime"
	"strings"
	"testing"
	"time"

	lua "github.com/yuin/gopher-lua"
	"pgregory.net/rapid"

	"verif/dcheck"
	"verif/e1"
	"verif/lgen"
	"verif/vf"
)

func TestMain(m *testing.M)   { vf.Main(m) }
func TestReplay(t *testing.T) { vf.Replay(t) }

// ---------------------------------------------------------------------------------------------
// a deterministic cancellation harness

// cctx wraps a real cancelCtx (so contexts derived by NewThread attach to it synchronously) and counts the polls of the
// thread it is attached to.  Cancellation happens at poll FirePoll or inside the FireTick-th tick() call.
type cctx struct {
	context.Context
	cancel   context.CancelFunc
	polls    int64
	firePoll int64
	fired    bool
	after    int64 // main-thread polls after cancel() returned
	bound    int64
	exceeded bool
}

func (c *cctx) Done() <-chan struct{} {
	c.polls++
	if c.fired {
		c.after++
		if c.after > c.bound {
			c.exceeded = true
			runtime.Goexit() // the script does not stop: end its goroutine; detection is by count, not by clock
		}
	} else if c.polls == c.firePoll {
		c.fired = true
		c.cancel()
	}
	return c.Context.Done()
}

type result struct {
	ticks        int
	ticksAtFire  int
	emitsAtFire  int
	emits        []string
	callsAfter   int // host calls (tick or emit) that started after cancel() had returned
	err          error
	panicked     string
	finished     bool // DoString returned
	exceeded     bool
	fired        bool
	pollsAfter   int64
	polls        int64
	threadsAfter int
	safety       bool // the harness cancelled because the asked-for point was never reached
	stuck        bool // ... and the script did not stop even then
}

// run executes src with cancellation at main-thread poll firePoll (>0) or inside tick number fireTick (>0).
// attach says how the counting context c gets onto the state that runs the script:
//
//	""        L.SetContext(c) before the run (the ordinary way)
//	"swap"    the state starts under another, never-done context; the script's first statement calls a host function
//	          that attaches c in its place while the script is running
//	"thread"  the main state has another, never-done context; the script runs in a thread made by NewThread (whose
//	          context is derived from that one) on which SetContext(c) was then called - coroutines the script
//	          creates must follow c
func run(src string, firePoll int64, fireTick int, opts lua.Options) *result {
	return runAttached(src, firePoll, fireTick, opts, "")
}

func runAttached(src string, firePoll int64, fireTick int, opts lua.Options, attach string) *result {
	res := &result{}
	inner, cancel := context.WithCancel(context.Background())
	defer cancel()
	c := &cctx{Context: inner, cancel: cancel, firePoll: firePoll, bound: int64(2*256 + 64)}
	done := make(chan struct{})
	go func() {
		defer close(done)
		defer func() {
			if r := recover(); r != nil {
				res.panicked = fmt.Sprint(r)
			}
		}()
		if attach == "bare" {
			// no library is opened: the script is the very first thing this state ever calls
			opts.SkipOpenLibs = true
		}
		L := lua.NewState(opts)
		defer func() {
			defer func() { recover() }()
			L.Close()
		}()
		other, cancelOther := context.WithCancel(context.Background())
		defer cancelOther()
		switch attach {
		case "swap":
			L.SetContext(other)
			L.SetGlobal("swapctx", L.NewFunction(func(T *lua.LState) int { T.SetContext(c); return 0 }))
			src = "swapctx() " + src
		case "thread":
			L.SetContext(other)
		default:
			L.SetContext(c)
		}
		L.SetGlobal("tick", L.NewFunction(func(L *lua.LState) int {
			if c.fired {
				res.callsAfter++
			}
			res.ticks++
			if fireTick > 0 && res.ticks == fireTick && !c.fired {
				res.ticksAtFire, res.emitsAtFire = res.ticks, len(res.emits)
				c.fired = true
				c.cancel()
			}
			return 0
		}))
		L.SetGlobal("emit", L.NewFunction(func(L *lua.LState) int {
			if c.fired {
				res.callsAfter++
			}
			var b strings.Builder
			for i := 1; i <= L.GetTop(); i++ {
				b.WriteString(L.Get(i).String())
				b.WriteByte(' ')
			}
			res.emits = append(res.emits, b.String())
			return 0
		}))
		if attach == "thread" {
			fn, err := L.LoadString(src)
			if err != nil {
				res.err, res.finished = err, true
				return
			}
			th, _ := L.NewThread()
			th.SetContext(c)
			for {
				st, err, _ := L.Resume(th, fn)
				if st == lua.ResumeError {
					res.err = err
					break
				}
				if st == lua.ResumeOK {
					break
				}
			}
			res.finished = true
			return
		}
		res.err = L.DoString(src)
		res.finished = true
	}()
	select {
	case <-done:
	case <-time.After(1500 * time.Millisecond):
		// The cancellation point was not reached within any reasonable time (the script spins where this harness
		// cannot count, e.g. inside a coroutine, or has fewer ticks than asked for).  Cancel now: if the script stops the
		// case says nothing about the point asked for; if it does not stop even now, that is the property failing.
		res.safety = true
		cancel()
		select {
		case <-done:
		case <-time.After(10 * time.Second):
			res.stuck = true
			return res
		}
	}
	res.exceeded, res.fired, res.pollsAfter, res.polls = c.exceeded, c.fired, c.after, c.polls
	return res
}

// ---------------------------------------------------------------------------------------------
// templates: every way a script can keep running

var templates = []struct {
	name string
	src  string
	term bool // terminates on its own
}{
	{"tight_while", `local n = 0 while true do n = n + 1 tick() end`, false},
	{"tight_while_noticks", `tick() local n = 0 while true do n = n + 1 end`, false},
	{"numeric_for", `for i = 1, 1e9 do tick() end`, false},
	{"generic_for", `local function it(s, c) tick() return c + 1 end for i in it, nil, 0 do tick() end`, false},
	{"repeat_loop", `repeat tick() until false`, false},
	{"goto_loop", `::top:: tick() goto top`, false},
	{"deep_recursion", `local function r(n) tick() if n == 0 then return 0 end return 1 + r(n - 1) end while true do r(PARAM) end`, false},
	{"tail_call_loop", `local function f(n) tick() return f(n + 1) end f(0)`, false},
	{"mutual_tail", `local g local function f(n) tick() return g(n) end g = function(n) return f(n + 1) end f(0)`, false},
	{"pcall_retry", `local function f() tick() local x = 1 end while true do pcall(f) end`, false},
	{"pcall_retry_nested", `local function f() tick() while true do local y = 2 end end while true do pcall(function() pcall(f) tick() end) end`, false},
	{"pcall_swallow_loop", `while true do local ok, e = pcall(function() while true do tick() end end) tick() end`, false},
	{"xpcall_handler_loops", `local function h(m) tick() while true do tick() end end while true do xpcall(function() tick() error("x") end, h) end`, false},
	{"xpcall_handler_calls_back", `local function h(m) tick() return pcall(function() while true do tick() end end) end xpcall(function() tick() error("x") end, h) while true do tick() end`, false},
	{"error_retry", `while true do pcall(error, "e") tick() end`, false},
	{"index_recursion", `local t = setmetatable({}, {__index = function(t, k) tick() return t[k + 1] end}) local x = t[1]`, false},
	{"add_metamethod_loop", `local mt = {} mt.__add = function(a, b) tick() return a end local o = setmetatable({}, mt) while true do o = o + 1 end`, false},
	{"call_metamethod", `local o = setmetatable({}, {__call = function(self, n) tick() return self(n + 1) end}) o(1)`, false},
	{"sort_callback", `local t = {} for i = 1, 50 do t[i] = (i * 7) % 13 end while true do table.sort(t, function(a, b) tick() return a < b end) t[1], t[50] = t[50], t[1] end`, false},
	{"gsub_callback", `local s = string.rep("ab", 40) while true do s:gsub("%w", function(c) tick() return c end) end`, false},
	{"string_methods", `local s = "x" while true do s = s:rep(2):sub(1, 3):upper() tick() end`, false},
	{"coroutine_pingpong", `local co = coroutine.create(function() while true do tick() coroutine.yield(1) end end) while true do coroutine.resume(co) tick() end`, false},
	{"coroutine_inner_loop", `local co = coroutine.create(function() while true do tick() end end) tick() coroutine.resume(co) while true do tick() end`, false},
	{"coroutine_wrap_gen", `local g = coroutine.wrap(function() local i = 0 while true do i = i + 1 tick() coroutine.yield(i) end end) for v in g do tick() end`, false},
	{"coroutine_nested", `local inner = coroutine.wrap(function() while true do tick() coroutine.yield() end end) local outer = coroutine.wrap(function() while true do inner() tick() coroutine.yield() end end) while true do outer() end`, false},
	{"coroutine_created_in_coroutine", `local outer = coroutine.wrap(function() local inner = coroutine.wrap(function() while true do tick() coroutine.yield() end end) while true do inner() tick() end end) tick() outer()`, false},
	{"coroutine_grandchild_loops", `local outer = coroutine.wrap(function() tick() local mid = coroutine.wrap(function() tick() local inner = coroutine.wrap(function() while true do tick() end end) inner() end) mid() end) tick() outer()`, false},
	{"coroutine_orphan_inner", `local inner local outer = coroutine.wrap(function() inner = coroutine.wrap(function() while true do tick() coroutine.yield() end end) inner() return 1 end) outer() while true do inner() tick() end`, false},
	{"coroutine_orphan_inner_spins", `local inner local outer = coroutine.wrap(function() inner = coroutine.wrap(function() coroutine.yield() while true do tick() end end) inner() return 1 end) outer() tick() inner()`, false},
	{"coroutine_pcall_inside", `local co = coroutine.wrap(function() while true do pcall(function() tick() while true do end end) end end) tick() co()`, false},
	{"table_build", `local t = {} local i = 0 while true do i = i + 1 t[i % 100 + 1] = {i} tick() end`, false},
	{"closure_churn", `while true do local f = function() tick() return function() return 1 end end f()() end`, false},
	{"vararg_churn", `local function v(...) tick() return select('#', ...), ... end while true do v(v(1, 2, 3)) end`, false},
	{"multi_line_loop", "local n = 0\nlocal function f(x)\n  return x + 1\nend\n\nwhile true do\n  n = f(n)\n  tick()\nend\n", false},
	{"multi_line_empty_loop", "local n = 0\nn = n + 1\n\nwhile true do\nend\n", false},
	{"terminating_loop", `local s = 0 for i = 1, PARAM do s = s + i tick() end emit(s)`, true},
	{"terminating_calls", `local function f(n) tick() if n == 0 then return 0 end return n + f(n - 1) end emit(f(PARAM)) emit(pcall(f, 3))`, true},
}

// templates that need no library function: they also run in a state created with SkipOpenLibs
var bareTemplates = map[string]bool{"tight_while": true, "tight_while_noticks": true, "numeric_for": true, "generic_for": true, "repeat_loop": true, "goto_loop": true,
	"deep_recursion": true, "tail_call_loop": true, "multi_line_empty_loop": true, "mutual_tail": true, "table_build": true, "closure_churn": true, "terminating_loop": true}

var errLineRe = regexp.MustCompile(`^<string>:(\d+):`)
var loopLines = map[string]map[string]bool{
	"multi_line_loop":       {"3": true, "6": true, "7": true, "8": true, "9": true},
	"multi_line_empty_loop": {"4": true, "5": true},
}

type CancelCase struct {
	Template string `json:"template"`
	Param    int    `json:"param"`
	Mode     string `json:"mode"` // poll | tick
	Upto     int    `json:"upto"` // enumerate cancellation points 1..Upto
	MinStack bool   `json:"minimize_stack"`
	Src      string `json:"src,omitempty"` // generated terminating programs
	Attach   string `json:"attach,omitempty"`
}

func (c *CancelCase) source() string {
	if c.Src != "" {
		return c.Src
	}
	for _, t := range templates {
		if t.name == c.Template {
			return strings.ReplaceAll(t.src, "PARAM", fmt.Sprint(c.Param))
		}
	}
	return ""
}

func clip(s string, n int) string {
	if len(s) > n {
		return s[:n] + "..."
	}
	return s
}

var chkCancel = vf.Register("cancel_everywhere", func(k *vf.C, c *CancelCase) error {
	src := c.source()
	opts := lua.Options{MinimizeStackMemory: c.MinStack}
	deepest := int64(0)
	landed := 0
	for p := 1; p <= c.Upto; p++ {
		var r *result
		if c.Mode == "poll" {
			r = runAttached(src, int64(p), 0, opts, c.Attach)
		} else {
			r = runAttached(src, 0, p, opts, c.Attach)
		}
		k.Class("cancellations")
		where := fmt.Sprintf("%s(%d)%s: cancel at %s %d", c.Template, c.Param, map[string]string{"": "", "swap": " [context attached by a host function during the run]", "thread": " [script in a NewThread thread with its own SetContext]", "bare": " [state created with SkipOpenLibs: the script is its first call]"}[c.Attach], c.Mode, p)
		if r.stuck {
			return fmt.Errorf("%s: the point was not reached; the harness then cancelled the context and the script was still running 10 s later", where)
		}
		if r.safety {
			k.Class("cancellation_point_not_reached")
			break
		}
		if r.panicked != "" {
			return fmt.Errorf("%s: a Go panic escaped DoString: %s", where, r.panicked)
		}
		if !r.fired {
			// the script ended before the cancellation point was reached
			if !r.finished {
				return fmt.Errorf("%s: the script neither finished nor reached the cancellation point", where)
			}
			k.Class("ended_before_cancellation")
			continue
		}
		landed++
		if r.exceeded {
			return fmt.Errorf("%s: the script was still dispatching instructions %d polls after cancel() returned (bound %d)", where, r.pollsAfter, 2*256+64)
		}
		if r.callsAfter > 0 {
			return fmt.Errorf("%s: %d host call(s) were made after cancel() had returned", where, r.callsAfter)
		}
		if r.err == nil {
			return fmt.Errorf("%s: DoString returned without error although the context was cancelled while the script ran", where)
		}
		if !strings.Contains(r.err.Error(), "context canceled") {
			return fmt.Errorf("%s: the error does not carry the context's reason: %s", where, clip(r.err.Error(), 200))
		}
		// once the loop of a multi-line template is running, the error names a line of the loop (or of the function it
		// calls), not of the statements in front of it
		if ok := loopLines[c.Template]; ok != nil && c.Mode == "poll" && p > 12 && c.Attach == "" {
			if m := errLineRe.FindStringSubmatch(r.err.Error()); m == nil || !ok[m[1]] {
				return fmt.Errorf("%s: the loop has been running for a while, the error is reported against %s", where, clip(r.err.Error(), 80))
			}
			k.Class("line_of_the_cancellation_error_checked")
		}
		if r.pollsAfter > deepest {
			deepest = r.pollsAfter
		}
	}
	k.EvalN(c.Upto)
	k.Class("template:" + c.Template)
	k.Class("mode:" + c.Mode)
	k.Class("attach:" + map[string]string{"": "before_run", "swap": "during_run", "thread": "on_derived_thread", "bare": "first_call_of_a_state_without_libraries"}[c.Attach])
	if landed >= 3 {
		k.Nontrivial(vf.Hash(c.Template, fmt.Sprint(c.Param), c.Mode, fmt.Sprint(c.MinStack), c.Src, c.Attach))
		k.Sample(c.Mode, 3, map[string]any{"template": c.Template, "param": c.Param, "mode": c.Mode, "points": c.Upto, "landed": landed, "max_polls_after_cancel": deepest, "src": clip(src, 300)})
	}
	return nil
})

// TestTemplates enumerates, for every template, every cancellation point of a bounded prefix in both modes.
func TestTemplates(t *testing.T) {
	si, sn := vf.Shard()
	i := 0
	upto := vf.Scale(120, 600)
	for _, tp := range templates {
		for _, param := range []int{3, 40, 200} {
			if !strings.Contains(tp.src, "PARAM") && param != 3 {
				continue
			}
			for _, mode := range []string{"poll", "tick"} {
				for _, ms := range []bool{false, true} {
					i++
					if i%sn != si {
						continue
					}
					n := upto
					if mode == "tick" {
						n = upto / 3
					}
					chkCancel.Run(t, &CancelCase{Template: tp.name, Param: param, Mode: mode, Upto: n, MinStack: ms})
					if !ms && bareTemplates[tp.name] {
						chkCancel.Run(t, &CancelCase{Template: tp.name, Param: param, Mode: mode, Upto: n / 3, MinStack: ms, Attach: "bare"})
					}
					if !ms {
						for _, at := range []string{"swap", "thread"} {
							chkCancel.Run(t, &CancelCase{Template: tp.name, Param: param, Mode: mode, Upto: n / 3, MinStack: ms, Attach: at})
						}
					}
				}
			}
		}
	}
}

// TestGeneratedPrograms: ordinary terminating programs (the boundary generator of C05) cancelled at every poll.
func TestGeneratedPrograms(t *testing.T) {
	vf.Rapid(t, func(rt *rapid.T) {
		g := lgen.New(rt, lgen.Core())
		b := g.BoundaryProgram()
		src := "local function snap() end local function hostf(n, ...) return ... end local function hostpcall(f, ...) return pcall(f, ...) end\n" + lgen.Print(b, &lgen.Layout{})
		// count the polls of the fault-free run
		r0 := run(src, 0, 0, lua.Options{})
		if r0.err != nil || r0.polls > 3000 {
			chkCancel.Discard("fault-free run fails or is too long")
			return
		}
		chkCancel.Run(rt, &CancelCase{Template: "generated", Mode: "poll", Upto: int(r0.polls), Src: src})
	})
}

// ---------------------------------------------------------------------------------------------
// "Until the context is done, attaching it does not change the script's behaviour."

type LiveCase struct {
	Src     string `json:"src"`
	Profile string `json:"profile"`
	Kind    string `json:"context_kind"`
}

var addrRe = regexp.MustCompile(`(table|userdata|function|thread|channel): 0x[0-9a-f]+`)

func canon(g *e1.GOutcome) string {
	var b strings.Builder
	b.WriteString(strings.Join(e1.GTraceStrings(g.Trace), "\n"))
	if g.Failed {
		b.WriteString("\nFAILED " + g.ErrText)
	} else {
		b.WriteString("\nRESULTS " + strings.Join(e1.GTraceStrings([]e1.GEvent{{Kind: "results", Vals: g.Results}}), ""))
	}
	return addrRe.ReplaceAllString(b.String(), "$1: ADDR")
}

func firstDiffLine(a, b string) (int, string, string) {
	x, y := strings.Split(a, "\n"), strings.Split(b, "\n")
	for i := 0; i < len(x) || i < len(y); i++ {
		l, r := "<end>", "<end>"
		if i < len(x) {
			l = x[i]
		}
		if i < len(y) {
			r = y[i]
		}
		if l != r {
			return i, clip(l, 200), clip(r, 200)
		}
	}
	return -1, "", ""
}

var chkLive = vf.Register("live_context_transparent", func(k *vf.C, c *LiveCase) error {
	// the reference interpreter only bounds the program here (steps and events); the oracle is gopher-lua without a
	// context against gopher-lua with a context that is never done
	var r *e1.ROutcome
	if c.Profile != "channels" {
		r = e1.RunRef(c.Src, nil)
		if r.ParseErr != nil || r.Unspecified != "" {
			k.Discard("reference: unspecified or over budget")
			return nil
		}
	}
	var ctx context.Context
	var cancel context.CancelFunc
	switch c.Kind {
	case "cancel":
		ctx, cancel = context.WithCancel(context.Background())
	case "deadline":
		ctx, cancel = context.WithTimeout(context.Background(), 24*time.Hour)
	default:
		// a counting context: live for far longer than the program runs
		o := &e1.GOpts{Budget: 50_000_000}
		if r != nil {
			o = e1.BudgetFor(r)
		}
		with := e1.RunGopher(c.Src, o)
		if with.Overrun != "" {
			k.Discard("run exceeds the budget derived from the reference run (subject of C01)")
			return nil
		}
		return compareLive(k, c, r, with)
	}
	defer cancel()
	with := e1.RunGopher(c.Src, &e1.GOpts{Ctx: ctx})
	return compareLive(k, c, r, with)
})

func compareLive(k *vf.C, c *LiveCase, r *e1.ROutcome, with *e1.GOutcome) error {
	if with.Panic != "" {
		return fmt.Errorf("with a live %s context a Go panic escaped: %s", c.Kind, with.Panic)
	}
	// without a context nothing can stop a run-away script: run it aside and give up (inconclusive) after a long wait
	ch := make(chan *e1.GOutcome, 1)
	go func() { ch <- e1.RunGopher(c.Src, nil) }()
	var without *e1.GOutcome
	select {
	case without = <-ch:
	case <-time.After(60 * time.Second):
		return fmt.Errorf("with a live %s context the script ends, without any context it was still running after 60 s", c.Kind)
	}
	if without.Panic != "" {
		k.Discard("Go panic without a context (subject of C05)")
		return nil
	}
	a, b := canon(without), canon(with)
	if a != b {
		i, l, rr := firstDiffLine(a, b)
		return fmt.Errorf("attaching a live %s context changes the behaviour: first difference at line %d of the canonical trace: without context %q, with context %q", c.Kind, i, l, rr)
	}
	k.Class("profile:" + c.Profile)
	k.Class("context:" + c.Kind)
	if r != nil && r.In.Stat.Transfers > 0 {
		k.Class("uses_coroutines")
	}
	if len(with.Trace) >= 2 {
		k.Nontrivial(vf.Hash(c.Src, c.Kind))
		k.Sample(c.Profile+"/"+c.Kind, 1, map[string]any{"src": clip(c.Src, 1000), "events": len(with.Trace), "failed": with.Failed})
	}
	return nil
}

// genChannelScript: channel operations inside one state that never block (the fill level of every channel is tracked);
// every select has exactly one ready case (or none and a default), at a random position among cases of other
// directions that are not ready, with and without handler functions.
func genChannelScript(rt *rapid.T) string {
	var b strings.Builder
	b.WriteString("local A, B, E, F = channel.make(2), channel.make(1), channel.make(1), channel.make(1)\nF:send('full')\n")
	b.WriteString("local function H(tag) return function(...) emit('handler', tag, select('#', ...), ...) end end\n")
	fill := map[string]int{"A": 0, "B": 0}
	capOf := map[string]int{"A": 2, "B": 1}
	val := 0
	nextVal := func() string {
		val++
		if val%3 == 0 {
			return fmt.Sprintf("'s%d'", val)
		}
		return fmt.Sprint(val * 11)
	}
	n := rapid.IntRange(3, 9).Draw(rt, "nsteps")
	for i := 0; i < n; i++ {
		ch := rapid.SampledFrom([]string{"A", "B"}).Draw(rt, "ch")
		switch rapid.IntRange(0, 3).Draw(rt, "step") {
		case 0:
			if fill[ch] < capOf[ch] {
				fmt.Fprintf(&b, "%s:send(%s)\n", ch, nextVal())
				fill[ch]++
			}
		case 1:
			if fill[ch] > 0 {
				fmt.Fprintf(&b, "emit('receive', %s:receive())\n", ch)
				fill[ch]--
			}
		default:
			// a select
			handler := func(tag string) string {
				if rapid.Bool().Draw(rt, "handler") {
					return ", H('" + tag + "')"
				}
				return ""
			}
			notReady := []string{`{"|<-", E` + handler("recv E") + `}`, `{"<-|", F, 'never'` + handler("send F") + `}`}
			var ready string
			kind := rapid.IntRange(0, 2).Draw(rt, "readykind")
			switch {
			case kind == 0 && fill[ch] > 0:
				ready = `{"|<-", ` + ch + handler("recv "+ch) + `}`
				fill[ch]--
			case kind == 1 && fill[ch] < capOf[ch]:
				ready = `{"<-|", ` + ch + ", " + nextVal() + handler("send "+ch) + `}`
				fill[ch]++
			default:
				ready = `{"default"` + handler("default") + `}`
			}
			var cases []string
			for j, m := 0, rapid.IntRange(0, 3).Draw(rt, "nnotready"); j < m; j++ {
				cases = append(cases, notReady[rapid.IntRange(0, 1).Draw(rt, "which")])
			}
			if strings.HasPrefix(ready, `{"default"`) {
				cases = append(cases, ready) // a default case goes last
			} else {
				pos := rapid.IntRange(0, len(cases)).Draw(rt, "pos")
				cases = append(cases[:pos], append([]string{ready}, cases[pos:]...)...)
				if rapid.Bool().Draw(rt, "trailingdefault") {
					cases = append(cases, `{"default"`+handler("unused default")+`}`)
				}
			}
			fmt.Fprintf(&b, "emit('select', channel.select(%s))\n", strings.Join(cases, ", "))
		}
	}
	b.WriteString("A:close()\nfor i = 1, 4 do emit('drain', A:receive()) end\nemit('closed select', channel.select({\"|<-\", A, H('closed A')}, {\"|<-\", E}))\n")
	return b.String()
}

func TestLiveContextTransparent(t *testing.T) {
	profiles := []*lgen.Profile{lgen.Coroutines(), lgen.Coroutines(), lgen.Errors(), lgen.Calls(), lgen.Closures(), lgen.Meta(), lgen.Core()}
	vf.Rapid(t, func(rt *rapid.T) {
		kind := rapid.SampledFrom([]string{"cancel", "deadline", "counting"}).Draw(rt, "ctxkind")
		if rapid.IntRange(0, 5).Draw(rt, "channels") == 0 {
			chkLive.Run(rt, &LiveCase{Src: genChannelScript(rt), Profile: "channels", Kind: kind})
			return
		}
		p := profiles[rapid.IntRange(0, len(profiles)-1).Draw(rt, "profile")]
		pc := dcheck.Gen(rt, p)
		chkLive.Run(rt, &LiveCase{Src: pc.Src, Profile: pc.Profile, Kind: kind})
	})
}

// ---------------------------------------------------------------------------------------------
// blocked channel operations

type ChanCase struct {
	Op  string `json:"op"`
	Buf int    `json:"buffer"`
}

var chanScripts = map[string]string{
	"receive_empty":       `tick() local ok, v = ch:receive() emit("returned", ok, v)`,
	"send_full":           `tick() ch:send(1) emit("returned")`,
	"select_all_blocked":  `tick() local idx, v, ok = channel.select({"|<-", ch}) emit("returned", idx)`,
	"select_send_blocked": `tick() local idx = channel.select({"<-|", ch, 5}) emit("returned", idx)`,
}

// parked reports whether some goroutine is blocked inside one of the channel library's operations.
func parked() (bool, string) {
	buf := make([]byte, 1<<20)
	n := runtime.Stack(buf, true)
	for _, g := range strings.Split(string(buf[:n]), "\n\n") {
		if (strings.Contains(g, "[chan send") || strings.Contains(g, "[chan receive") || strings.Contains(g, "[select")) &&
			(strings.Contains(g, "gopher-lua.channelSend") || strings.Contains(g, "gopher-lua.channelReceive") || strings.Contains(g, "gopher-lua.channelSelect")) {
			return true, strings.SplitN(g, "\n", 2)[0]
		}
	}
	return false, ""
}

var chkChan = vf.Register("cancel_blocked_channel_op", func(k *vf.C, c *ChanCase) error {
	src := chanScripts[c.Op]
	inner, cancel := context.WithCancel(context.Background())
	defer cancel()
	ch := make(chan lua.LValue, c.Buf)
	for i := 0; i < c.Buf; i++ {
		if strings.Contains(c.Op, "send") {
			ch <- lua.LNumber(i) // full buffer: a send blocks
		}
	}
	started := make(chan struct{})
	done := make(chan struct{})
	var err error
	returned := false
	go func() {
		defer close(done)
		L := lua.NewState()
		defer L.Close()
		L.SetContext(inner)
		L.SetGlobal("ch", lua.LChannel(ch))
		L.SetGlobal("tick", L.NewFunction(func(L *lua.LState) int { close(started); return 0 }))
		L.SetGlobal("emit", L.NewFunction(func(L *lua.LState) int { returned = true; return 0 }))
		err = L.DoString(src)
	}()
	<-started
	// wait until the script goroutine is parked in the channel operation (a state that cannot change on its own: nobody
	// else holds the channel)
	ok := false
	for i := 0; i < 400 && !ok; i++ {
		time.Sleep(5 * time.Millisecond)
		ok, _ = parked()
	}
	if !ok {
		select {
		case <-done:
			k.Discard("the operation did not block")
			return nil
		default:
		}
		k.Discard("could not observe the script parked in the channel operation")
		return nil
	}
	cancel()
	select {
	case <-done:
		if err == nil || !strings.Contains(err.Error(), "context canceled") {
			return fmt.Errorf("%s (buffer %d): the blocked operation returned after cancellation, but DoString gave %v (emit reached: %v)", c.Op, c.Buf, err, returned)
		}
		k.Class("woken:" + c.Op)
		k.Nontrivial(vf.Hash(c.Op, fmt.Sprint(c.Buf)))
		k.Sample("channel", 4, map[string]any{"op": c.Op, "buffer": c.Buf, "outcome": "woken with context canceled"})
		return nil
	case <-time.After(1500 * time.Millisecond):
	}
	// not woken: confirm that it is still parked in the channel operation in three consecutive samples
	for i := 0; i < 3; i++ {
		time.Sleep(50 * time.Millisecond)
		if still, _ := parked(); !still {
			k.Discard("inconclusive: neither returned nor parked")
			go func() { <-done }()
			return nil
		}
	}
	_, where := parked()
	// unblock the goroutine so that it does not leak into later cases
	go func() {
		for {
			select {
			case <-done:
				return
			case ch <- lua.LNil:
			case <-ch:
			}
		}
	}()
	return fmt.Errorf("%s (buffer %d): the script stays blocked in the channel operation after its context was cancelled (%s)", c.Op, c.Buf, where)
})

func TestBlockedChannelOps(t *testing.T) {
	for _, op := range []string{"receive_empty", "send_full", "select_all_blocked", "select_send_blocked"} {
		for _, buf := range []int{0, 1, 3} {
			chkChan.Run(t, &ChanCase{Op: op, Buf: buf})
		}
	}
}
