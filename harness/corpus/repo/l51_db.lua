-- testing debug library

local function dostring(s) return assert(loadstring(s))() end

print"testing debug library and debug information"

do
local a=1
end

function test (s, l, p)
  collectgarbage()   -- avoid gc during trace
  local function f (event, line)
    assert(event == 'line')
    local l = table.remove(l, 1)
    if p then print(l, line) end
    assert(l == line, "wrong trace!!")
  end
  debug.sethook(f,"l"); loadstring(s)(); debug.sethook()
  assert(table.getn(l) == 0)
end


do
  local a = debug.getinfo(print)
  assert(a.what == "C" and a.short_src == "[C]")
  local b = debug.getinfo(test, "SfL")
  assert(b.name == nil and b.what == "Lua" and b.linedefined == 11 and
         b.lastlinedefined == b.linedefined + 10 and
         b.func == test and not string.find(b.short_src, "%["))
  assert(b.activelines[b.linedefined + 1] and
         b.activelines[b.lastlinedefined])
  assert(not b.activelines[b.linedefined] and
         not b.activelines[b.lastlinedefined + 1])
end


-- test file and string names truncation
a = "function f () end"
local function dostring (s, x) return loadstring(s, x)() end
dostring(a)
assert(debug.getinfo(f).short_src == string.format('[string "%s"]', a))
dostring(a..string.format("; %s\n=1", string.rep('p', 400)))
assert(string.find(debug.getinfo(f).short_src, '^%[string [^\n]*%.%.%."%]$'))
dostring("\n"..a)
assert(debug.getinfo(f).short_src == '[string "..."]')
dostring(a, "")
assert(debug.getinfo(f).short_src == '[string ""]')
dostring(a, "@xuxu")
assert(debug.getinfo(f).short_src == "xuxu")
dostring(a, "@"..string.rep('p', 1000)..'t')
assert(string.find(debug.getinfo(f).short_src, "^%.%.%.p*t$"))
dostring(a, "=xuxu")
assert(debug.getinfo(f).short_src == "xuxu")
dostring(a, string.format("=%s", string.rep('x', 500)))
assert(string.find(debug.getinfo(f).short_src, "^x*"))
dostring(a, "=")
assert(debug.getinfo(f).short_src == "")
a = nil; f = nil;


repeat
  local g = {x = function ()
    local a = debug.getinfo(2)
    assert(a.name == 'f' and a.namewhat == 'local')
    a = debug.getinfo(1)
    assert(a.name == 'x' and a.namewhat == 'field')
    return 'xixi'
  end}
  local f = function () return 1+1 and (not 1 or g.x()) end
  assert(f() == 'xixi')
  g = debug.getinfo(f)
  assert(g.what == "Lua" and g.func == f and g.namewhat == "" and not g.name)

  function f (x, name)   -- local!
    name = name or 'f'
    local a = debug.getinfo(1)
    assert(a.name == name and a.namewhat == 'local')
    return x
  end

  -- breaks in different conditions
  if 3>4 then break end; f()
  if 3<4 then a=1 else break end; f()
  while 1 do local x=10; break end; f()
  local b = 1
  if 3>4 then return math.sin(1) end; f()
  a = 3<4; f()
  a = 3<4 or 1; f()
  repeat local x=20; if 4>3 then f() else break end; f() until 1
  g = {}
  f(g).x = f(2) and f(10)+f(9)
  assert(g.x == f(19))
  function g(x) if not x then return 3 end return (x('a', 'x')) end
  assert(g(f) == 'a')
until 1

test([[if
math.sin(1)
then
  a=1
else
  a=2
end
]], {2,4,7})

test([[--
if nil then
  a=1
else
  a=2
end
]], {2,5,6})

test([[a=1
repeat
  a=a+1
until a==3
]], {1,3,4,3,4})

test([[ do
  return
end
]], {2})

test([[local a
a=1
while a<=3 do
  a=a+1
end
]], {2,3,4,3,4,3,4,3,5})

test([[while math.sin(1) do
  if math.sin(1)
  then
    break
  end
end
a=1]], {1,2,4,7})

test([[for i=1,3 do
  a=i
end
]], {1,2,1,2,1,2,1,3})

test([[for i,v in pairs{'a','b'} do
  a=i..v
end
]], {1,2,1,2,1,3})

test([[for i=1,4 do a=1 end]], {1,1,1,1,1})



print'+'

a = {}; L = nil
local glob = 1
local oldglob = glob
debug.sethook(function (e,l)
  collectgarbage()   -- force GC during a hook
  local f, m, c = debug.gethook()
  assert(m == 'crl' and c == 0)
  if e == "line" then
    if glob ~= oldglob then
      L = l-1   -- get the first line where "glob" has changed
      oldglob = glob
    end
  elseif e == "call" then
      local f = debug.getinfo(2, "f").func
      a[f] = 1
  else assert(e == "return")
  end
end, "crl")

function f(a,b)
  collectgarbage()
  local _, x = debug.getlocal(1, 1)
  local _, y = debug.getlocal(1, 2)
  assert(x == a and y == b)
  assert(debug.setlocal(2, 3, "pera") == "AA".."AA")
  assert(debug.setlocal(2, 4, "maçã") == "B")
  x = debug.getinfo(2)
  assert(x.func == g and x.what == "Lua" and x.name == 'g' and
         x.nups == 0 and string.find(x.source, "^@.*db%.lua"))
  glob = glob+1
  assert(debug.getinfo(1, "l").currentline == L+1)
  assert(debug.getinfo(1, "l").currentline == L+2)
end

function foo()
  glob = glob+1
  assert(debug.getinfo(1, "l").currentline == L+1)
end; foo()  -- set L
-- check line counting inside strings and empty lines

_ = 'alo\
alo' .. [[

]]
--[[
]]
assert(debug.getinfo(1, "l").currentline == L+11)  -- check count of lines


function g(...)
  do local a,b,c; a=math.sin(40); end
  local feijao
  local AAAA,B = "xuxu", "mamão"
  f(AAAA,B)
  assert(AAAA == "pera" and B == "maçã")
  do
     local B = 13
     local x,y = debug.getlocal(1,5)
     assert(x == 'B' and y == 13)
  end
end

g()


assert(a[f] and a[g] and a[assert] and a[debug.getlocal] and not a[print])


-- tests for manipulating non-registered locals (C and Lua temporaries)

local n, v = debug.getlocal(0, 1)
assert(v == 0 and n == "(*temporary)")
local n, v = debug.getlocal(0, 2)
assert(v == 2 and n == "(*temporary)")
assert(not debug.getlocal(0, 3))
assert(not debug.getlocal(0, 0))

function f()
  assert(select(2, debug.getlocal(2,3)) == 1)
  assert(not debug.getlocal(2,4))
  debug.setlocal(2, 3, 10)
  return 20
end

function g(a,b) return (a+1) + f() end

assert(g(0,0) == 30)
 

debug.sethook(nil);
assert(debug.gethook() == nil)


-- testing access to function arguments

X = nil
a = {}
function a:f (a, b, ...) local c = 13 end
debug.sethook(function (e)
  assert(e == "call")
  dostring("XX = 12")  -- test dostring inside hooks
  -- testing errors inside hooks
  assert(not pcall(loadstring("a='joao'+1")))
  debug.sethook(function (e, l) 
    assert(debug.getinfo(2, "l").currentline == l)
    local f,m,c = debug.gethook()
    assert(e == "line")
    assert(m == 'l' and c == 0)
    debug.sethook(nil)  -- hook is called only once
    assert(not X)       -- check that
    X = {}; local i = 1
    local x,y
    while 1 do
      x,y = debug.getlocal(2, i)
      if x==nil then break end
      X[x] = y
      i = i+1
    end
  end, "l")
end, "c")

a:f(1,2,3,4,5)
assert(X.self == a and X.a == 1   and X.b == 2 and X.arg.n == 3 and X.c == nil)
assert(XX == 12)
assert(debug.gethook() == nil)


-- testing upvalue access
local function getupvalues (f)
  local t = {}
  local i = 1
  while true do
    local name, value = debug.getupvalue(f, i)
    if not name then break end
    assert(not t[name])
    t[name] = value
    i = i + 1
  end
  return t
end

local a,b,c = 1,2,3
local function foo1 (a) b = a; return c end
local function foo2 (x) a = x; return c+b end
assert(debug.getupvalue(foo1, 3) == nil)
assert(debug.getupvalue(foo1, 0) == nil)
assert(debug.setupvalue(foo1, 3, "xuxu") == nil)
local t = getupvalues(foo1)
assert(t.a == nil and t.b == 2 and t.c == 3)
t = getupvalues(foo2)
assert(t.a == 1 and t.b == 2 and t.c == 3)
assert(debug.setupvalue(foo1, 1, "xuxu") == "b")
assert(({debug.getupvalue(foo2, 3)})[2] == "xuxu")
-- cannot manipulate C upvalues from Lua
assert(debug.getupvalue(io.read, 1) == nil)  
assert(debug.setupvalue(io.read, 1, 10) == nil)  


-- testing count hooks
local a=0
debug.sethook(function (e) a=a+1 end, "", 1)
a=0; for i=1,1000 do end; assert(1000 < a and a < 1012)
debug.sethook(function (e) a=a+1 end, "", 4)
a=0; for i=1,1000 do end; assert(250 < a and a < 255)
local f,m,c = debug.gethook()
assert(m == "" and c == 4)
debug.sethook(function (e) a=a+1 end, "", 4000)
a=0; for i=1,1000 do end; assert(a == 0)
debug.sethook(print, "", 2^24 - 1)   -- count upperbound
local f,m,c = debug.gethook()
assert(({debug.gethook()})[3] == 2^24 - 1)
debug.sethook()


-- tests for tail calls
local function f (x)
  if x then
    assert(debug.getinfo(1, "S").what == "Lua")
    local tail = debug.getinfo(2)
    assert(not pcall(getfenv, 3))
    assert(tail.what == "tail" and tail.short_src == "(tail call)" and
           tail.linedefined == -1 and tail.func == nil)
    assert(debug.getinfo(3, "f").func == g1)
    assert(getfenv(3))
    assert(debug.getinfo(4, "S").what == "tail")
    assert(not pcall(getfenv, 5))
    assert(debug.getinfo(5, "S").what == "main")
    assert(getfenv(5))
    print"+"
    end
end

function g(x) return f(x) end

function g1(x) g(x) end

local function h (x) local f=g1; return f(x) end

h(true)

local b = {}
debug.sethook(function (e) table.insert(b, e) end, "cr")
h(false)
debug.sethook()
local res = {"return",   -- first return (from sethook)
  "call", "call", "call", "call",
  "return", "tail return", "return", "tail return",
  "call",    -- last call (to sethook)
}
for _, k in ipairs(res) do assert(k == table.remove(b, 1)) end


lim = 30000
local function foo (x)
  if x==0 then
    assert(debug.getinfo(lim+2).what == "main")
    for i=2,lim do assert(debug.getinfo(i, "S").what == "tail") end
  else return foo(x-1)
  end
end

foo(lim)


print"+"


-- testing traceback

assert(debug.traceback(print) == print)
assert(debug.traceback(print, 4) == print)
assert(string.find(debug.traceback("hi", 4), "^hi\n"))
assert(string.find(debug.traceback("hi"), "^hi\n"))
assert(not string.find(debug.traceback("hi"), "'traceback'"))
assert(string.find(debug.traceback("hi", 0), "'traceback'"))
assert(string.find(debug.traceback(), "^stack traceback:\n"))

-- testing debugging of coroutines

local function checktraceback (co, p)
  local tb = debug.traceback(co)
  local i = 0
  for l in string.gmatch(tb, "[^\n]+\n?") do
    assert(i == 0 or string.find(l, p[i]))
    i = i+1
  end
  assert(p[i] == nil)
end


local function f (n)
  if n > 0 then return f(n-1)
  else coroutine.yield() end
end

local co = coroutine.create(f)
coroutine.resume(co, 3)
checktraceback(co, {"yield", "db.lua", "tail", "tail", "tail"})


co = coroutine.create(function (x)
       local a = 1
       coroutine.yield(debug.getinfo(1, "l"))
       coroutine.yield(debug.getinfo(1, "l").currentline)
       return a
     end)

local tr = {}
local foo = function (e, l) table.insert(tr, l) end
debug.sethook(co, foo, "l")

local _, l = coroutine.resume(co, 10)
local x = debug.getinfo(co, 1, "lfLS")
assert(x.currentline == l.currentline and x.activelines[x.currentline])
assert(type(x.func) == "function")
for i=x.linedefined + 1, x.lastlinedefined do
  assert(x.activelines[i])
  x.activelines[i] = nil
end
assert(next(x.activelines) == nil)   -- no 'extra' elements
assert(debug.getinfo(co, 2) == nil)
local a,b = debug.getlocal(co, 1, 1)
assert(a == "x" and b == 10)
a,b = debug.getlocal(co, 1, 2)
assert(a == "a" and b == 1)
debug.setlocal(co, 1, 2, "hi")
assert(debug.gethook(co) == foo)
assert(table.getn(tr) == 2 and
       tr[1] == l.currentline-1 and tr[2] == l.currentline)

a,b,c = pcall(coroutine.resume, co)
assert(a and b and c == l.currentline+1)
checktraceback(co, {"yield", "in function <"})

a,b = coroutine.resume(co)
assert(a and b == "hi")
assert(table.getn(tr) == 4 and tr[4] == l.currentline+2)
assert(debug.gethook(co) == foo)
assert(debug.gethook() == nil)
checktraceback(co, {})


-- check traceback of suspended (or dead with error) coroutines

function f(i) if i==0 then error(i) else coroutine.yield(); f(i-1) end end

co = coroutine.create(function (x) f(x) end)
a, b = coroutine.resume(co, 3)
t = {"'yield'", "'f'", "in function <"}
while coroutine.status(co) == "suspended" do
  checktraceback(co, t)
  a, b = coroutine.resume(co)
  table.insert(t, 2, "'f'")   -- one more recursive call to 'f'
end
t[1] = "'error'"
checktraceback(co, t)


-- test acessing line numbers of a coroutine from a resume inside
-- a C function (this is a known bug in Lua 5.0)

local function g(x)
    coroutine.yield(x)
end

local function f (i)
  debug.sethook(function () end, "l")
  for j=1,1000 do
    g(i+j)
  end
end

local co = coroutine.wrap(f)
co(10)
pcall(co)
pcall(co)


assert(type(debug.getregistry()) == "table")


print"OK"

