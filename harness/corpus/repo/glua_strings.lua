
local ok, msg = pcall(function()
  string.dump()
end)
assert(not ok and string.find(msg, "GopherLua does not support the string.dump"))
assert(string.find("","aaa") == nil)
assert(string.gsub("hello world", "(%w+)", "%1 %1 %c") == "hello hello %c world world %c")

local ret1, ret2, ret3, ret4 = string.find("aaa bbb", "(%w+())")
assert(ret1 == 1)
assert(ret2 == 3)
assert(ret3 == "aaa")
assert(ret4 == 4)
