print "testing closures and coroutines"
--[[

local A,B = 0,{g=10}
function f(x)
  local a = {}
  for i=1,1000 do
    local y = 0
    do
      a[i] = function () B.g = B.g+1; y = y+x; return y+A end
    end
  end
  local dummy = function () return a[A] end
  collectgarbage()
  A = 1; assert(dummy() == a[1]); A = 0;
  assert(a[1]() == x)
  assert(a[3]() == x)
  collectgarbage()
  assert(B.g == 12)
  return a
end

a = f(10)
-- force a GC in this level
local x = {[1] = {}}   -- to detect a GC
setmetatable(x, {__mode = 'kv'})
while x[1] do   -- repeat until GC
  local a = A..A..A..A  -- create garbage
  A = A+1
end
assert(a[1]() == 20+A)
assert(a[1]() == 30+A)
assert(a[2]() == 10+A)
collectgarbage()
assert(a[2]() == 20+A)
assert(a[2]() == 30+A)
assert(a[3]() == 20+A)
assert(a[8]() == 10+A)
assert(getmetatable(x).__mode == 'kv')
assert(B.g == 19)
--]]

-- testing closures with 'for' control variable
a = {}
for i=1,10 do
  a[i] = {set = function(x) i=x end, get = function () return i end}
  if i == 3 then break end
end
assert(a[4] == nil)
a[1].set(10)
assert(a[2].get() == 2)
a[2].set('a')
assert(a[3].get() == 3)
assert(a[2].get() == 'a')

a = {}
for i, k in pairs{'a', 'b'} do
  a[i] = {set = function(x, y) i=x; k=y end,
          get = function () return i, k end}
  if i == 2 then break end
end
a[1].set(10, 20)
local r,s = a[2].get()
assert(r == 2 and s == 'b')
r,s = a[1].get()
assert(r == 10 and s == 20)
a[2].set('a', 'b')
r,s = a[2].get()
assert(r == "a" and s == "b")


-- testing closures with 'for' control variable x break
for i=1,3 do
  f = function () return i end
  break
end
assert(f() == 1)

for k, v in pairs{"a", "b"} do
  f = function () return k, v end
  break
end
assert(({f()})[1] == 1)
assert(({f()})[2] == "a")


-- testing closure x break x return x errors

local b
function f(x)
  local first = 1
  while 1 do
    if x == 3 and not first then return end
    local a = 'xuxu'
    b = function (op, y)
          if op == 'set' then
            a = x+y
          else
            return a
          end
        end
    if x == 1 then do break end
    elseif x == 2 then return
    else if x ~= 3 then error() end
    end
    first = nil
  end
end

for i=1,3 do
  f(i)
  assert(b('get') == 'xuxu')
  b('set', 10); assert(b('get') == 10+i)
  b = nil
end

pcall(f, 4);
assert(b('get') == 'xuxu')
b('set', 10); assert(b('get') == 14)


local w
-- testing multi-level closure
function f(x)
  return function (y)
    return function (z) return w+x+y+z end
  end
end

y = f(10)
w = 1.345
assert(y(20)(30) == 60+w)

-- testing closures x repeat-until

local a = {}
local i = 1
repeat
  local x = i
  a[i] = function () i = x+1; return x end
until i > 10 or a[i]() ~= x
assert(i == 11 and a[1]() == 1 and a[3]() == 3 and i == 4)

print'+'


-- test for correctly closing upvalues in tail calls of vararg functions
local function t ()
  local function c(a,b) assert(a=="test" and b=="OK") end
  local function v(f, ...) c("test", f() ~= 1 and "FAILED" or "OK") end
  local x = 1
  return v(function() return x end)
end
t()


-- coroutine tests

local f

assert(coroutine.running() == nil)


-- tests for global environment

local function foo (a)
  setfenv(0, a)
  coroutine.yield(getfenv())
  assert(getfenv(0) == a)
  assert(getfenv(1) == _G)
  return getfenv(1)
end

f = coroutine.wrap(foo)
local a = {}
assert(f(a) == _G)
local a,b = pcall(f)
assert(a and b == _G)


-- tests for multiple yield/resume arguments

local function eqtab (t1, t2)
  assert(table.getn(t1) == table.getn(t2))
  for i,v in ipairs(t1) do
    assert(t2[i] == v)
  end
end

_G.x = nil   -- declare x
function foo (a, ...)
  assert(coroutine.running() == f)
  assert(coroutine.status(f) == "running")
  local arg = {...}
  for i=1,table.getn(arg) do
    _G.x = {coroutine.yield(unpack(arg[i]))}
  end
  return unpack(a)
end

f = coroutine.create(foo)
assert(type(f) == "thread" and coroutine.status(f) == "suspended")
assert(string.find(tostring(f), "thread"))
local s,a,b,c,d
s,a,b,c,d = coroutine.resume(f, {1,2,3}, {}, {1}, {'a', 'b', 'c'})
assert(s and a == nil and coroutine.status(f) == "suspended")
s,a,b,c,d = coroutine.resume(f)
eqtab(_G.x, {})
assert(s and a == 1 and b == nil)
s,a,b,c,d = coroutine.resume(f, 1, 2, 3)
eqtab(_G.x, {1, 2, 3})
assert(s and a == 'a' and b == 'b' and c == 'c' and d == nil)
s,a,b,c,d = coroutine.resume(f, "xuxu")
eqtab(_G.x, {"xuxu"})
assert(s and a == 1 and b == 2 and c == 3 and d == nil)
assert(coroutine.status(f) == "dead")
s, a = coroutine.resume(f, "xuxu")
assert(not s and string.find(a, "dead") and coroutine.status(f) == "dead")


-- yields in tail calls
local function foo (i) return coroutine.yield(i) end
f = coroutine.wrap(function ()
  for i=1,10 do
    assert(foo(i) == _G.x)
  end
  return 'a'
end)
for i=1,10 do _G.x = i; assert(f(i) == i) end
_G.x = 'xuxu'; assert(f('xuxu') == 'a')

-- recursive
function pf (n, i)
  coroutine.yield(n)
  pf(n*i, i+1)
end

f = coroutine.wrap(pf)
local s=1
for i=1,10 do
  assert(f(1, 1) == s)
  s = s*i
end

-- sieve
function gen (n)
  return coroutine.wrap(function ()
    for i=2,n do coroutine.yield(i) end
  end)
end


function filter (p, g)
  return coroutine.wrap(function ()
    while 1 do
      local n = g()
      if n == nil then return end
      if math.mod(n, p) ~= 0 then coroutine.yield(n) end
    end
  end)
end

local x = gen(100)
local a = {}
while 1 do
  local n = x()
  if n == nil then break end
  table.insert(a, n)
  x = filter(n, x)
end

assert(table.getn(a) == 25 and a[table.getn(a)] == 97)


-- errors in coroutines
function foo ()
  assert(debug.getinfo(1).currentline == debug.getinfo(foo).linedefined + 1)
  assert(debug.getinfo(2).currentline == debug.getinfo(goo).linedefined)
  coroutine.yield(3)
  error(foo)
end

function goo() foo() end
x = coroutine.wrap(goo)
assert(x() == 3)
local a,b = pcall(x)
assert(not a and b == foo)

x = coroutine.create(goo)
a,b = coroutine.resume(x)
assert(a and b == 3)
a,b = coroutine.resume(x)
assert(not a and b == foo and coroutine.status(x) == "dead")
a,b = coroutine.resume(x)
assert(not a and string.find(b, "dead") and coroutine.status(x) == "dead")


-- co-routines x for loop
function all (a, n, k)
  if k == 0 then coroutine.yield(a)
  else
    for i=1,n do
      a[k] = i
      all(a, n, k-1)
    end
  end
end

local a = 0
for t in coroutine.wrap(function () all({}, 5, 4) end) do
  a = a+1
end
assert(a == 5^4)


-- access to locals of collected corroutines
--[[
local C = {}; setmetatable(C, {__mode = "kv"})
local x = coroutine.wrap (function ()
            local a = 10
            local function f () a = a+10; return a end
            while true do
              a = a+1
              coroutine.yield(f)
            end
          end)

C[1] = x;

local f = x()
assert(f() == 21 and x()() == 32 and x() == f)
x = nil
collectgarbage()
assert(C[1] == nil)
assert(f() == 43 and f() == 53)
--]]


-- old bug: attempt to resume itself

function co_func (current_co)
  assert(coroutine.running() == current_co)
  assert(coroutine.resume(current_co) == false)
  assert(coroutine.resume(current_co) == false)
  return 10
end

local co = coroutine.create(co_func)
local a,b = coroutine.resume(co, co)
assert(a == true and b == 10)
assert(coroutine.resume(co, co) == false)
assert(coroutine.resume(co, co) == false)

-- access to locals of erroneous coroutines
local x = coroutine.create (function ()
            local a = 10
            _G.f = function () a=a+1; return a end
            error('x')
          end)

assert(not coroutine.resume(x))
-- overwrite previous position of local `a'
assert(not coroutine.resume(x, 1, 1, 1, 1, 1, 1, 1))
assert(_G.f() == 11)
assert(_G.f() == 12)


if not T then
  (Message or print)('\a\n >>> testC not active: skipping yield/hook tests <<<\n\a')
else

  local turn
  
  function fact (t, x)
    assert(turn == t)
    if x == 0 then return 1
    else return x*fact(t, x-1)
    end
  end

  local A,B,a,b = 0,0,0,0

  local x = coroutine.create(function ()
    T.setyhook("", 2)
    A = fact("A", 10)
  end)

  local y = coroutine.create(function ()
    T.setyhook("", 3)
    B = fact("B", 11)
  end)

  while A==0 or B==0 do
    if A==0 then turn = "A"; T.resume(x) end
    if B==0 then turn = "B"; T.resume(y) end
  end

  assert(B/A == 11)
end


-- leaving a pending coroutine open
_X = coroutine.wrap(function ()
      local a = 10
      local x = function () a = a+1 end
      coroutine.yield()
    end)

_X()


-- coroutine environments
co = coroutine.create(function ()
       coroutine.yield(getfenv(0))
       return loadstring("return a")()
     end)

a = {a = 15}
debug.setfenv(co, a)
assert(debug.getfenv(co) == a)
assert(select(2, coroutine.resume(co)) == a)
assert(select(2, coroutine.resume(co)) == a.a)


print'OK'
