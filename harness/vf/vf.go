// Package vf is the small runtime shared by every property package: it counts what a run
// actually explored (evaluations, distinct non-trivial cases, class histogram, samples),
// journals the case about to run (so a process-killing input is not lost), writes readable
// replay files for failures, replays them, and knows which known findings are open.
//
// It is driven by the Python driver /verif/check through environment variables:
//
//	VERIF_TIER       quick | thorough
//	VERIF_SEED       integer
//	VERIF_OUT        path of the per-shard counters file (JSON) this process must write
//	VERIF_FAIL       path of the replay file to write on a failure
//	VERIF_JOURNAL    path of the journal (case about to run)
//	VERIF_REPLAY     path of a replay file to re-execute (TestReplay)
//	VERIF_FINDINGS   path of known_findings.json
//	VERIF_SHARD      "i/n" for tests that split an enumerated space themselves
package vf

import (
	"encoding/binary"
	"encoding/json"
	"fmt"
	"hash/fnv"
	"os"
	"sort"
	"strconv"
	"strings"
	"sync"
	"testing"

	"pgregory.net/rapid"
)

// ---------------------------------------------------------------------------------------------
// environment

func Tier() string {
	if v := os.Getenv("VERIF_TIER"); v != "" {
		return v
	}
	return "quick"
}

func Thorough() bool { return Tier() == "thorough" }

// Scale returns q in the quick tier and th in the thorough tier.
func Scale(q, th int) int {
	if Thorough() {
		return th
	}
	return q
}

func Seed() uint64 {
	n, _ := strconv.ParseUint(os.Getenv("VERIF_SEED"), 10, 64)
	return n
}

// Shard returns (index, count) for tests that split a fixed space themselves.
func Shard() (int, int) {
	v := os.Getenv("VERIF_SHARD")
	if v == "" {
		return 0, 1
	}
	p := strings.SplitN(v, "/", 2)
	i, _ := strconv.Atoi(p[0])
	n, _ := strconv.Atoi(p[1])
	if n <= 0 {
		return 0, 1
	}
	return i, n
}

// ---------------------------------------------------------------------------------------------
// counters

type testStats struct {
	Evaluations int64            `json:"evaluations"`
	Classes     map[string]int64 `json:"classes"`
	Discarded   map[string]int64 `json:"discarded_unspecified"`
	Excluded    map[string]int64 `json:"excluded_known"`
	Samples     []any            `json:"samples"`
	Notes       map[string]any   `json:"notes"`
	Exhaustive  bool             `json:"exhaustive"`
	hashes      map[uint64]struct{}
	sampleSeen  map[string]int
}

var (
	mu    sync.Mutex
	stats = map[string]*testStats{}
)

func st(name string) *testStats {
	s := stats[name]
	if s == nil {
		s = &testStats{Classes: map[string]int64{}, Discarded: map[string]int64{}, Excluded: map[string]int64{},
			Notes: map[string]any{}, hashes: map[uint64]struct{}{}, sampleSeen: map[string]int{}}
		stats[name] = s
	}
	return s
}

// Hash is the 64-bit FNV-1a of the parts; used as identity of a case for distinct counting.
func Hash(parts ...string) uint64 {
	h := fnv.New64a()
	for _, p := range parts {
		h.Write([]byte(p))
		h.Write([]byte{0})
	}
	return h.Sum64()
}

// C is the per-sub-check collector handle.
type C struct{ name string }

func Col(name string) *C { return &C{name} }

func (c *C) Eval() { mu.Lock(); st(c.name).Evaluations++; mu.Unlock() }
func (c *C) EvalN(n int) {
	mu.Lock()
	st(c.name).Evaluations += int64(n)
	mu.Unlock()
}

// Nontrivial records one case that satisfies the property's non-triviality rule.
func (c *C) Nontrivial(h uint64) {
	mu.Lock()
	st(c.name).hashes[h^Hash(c.name)] = struct{}{}
	mu.Unlock()
}
func (c *C) Class(k string) { mu.Lock(); st(c.name).Classes[k]++; mu.Unlock() }
func (c *C) ClassN(k string, n int) {
	mu.Lock()
	st(c.name).Classes[k] += int64(n)
	mu.Unlock()
}
func (c *C) Discard(reason string) { mu.Lock(); st(c.name).Discarded[reason]++; mu.Unlock() }
func (c *C) Excluded(id string)    { mu.Lock(); st(c.name).Excluded[id]++; mu.Unlock() }
func (c *C) Note(k string, v any)  { mu.Lock(); st(c.name).Notes[k] = v; mu.Unlock() }
func (c *C) SetExhaustive(b bool)  { mu.Lock(); st(c.name).Exhaustive = b; mu.Unlock() }
func (c *C) ClassCount(k string) int64 {
	mu.Lock()
	defer mu.Unlock()
	return st(c.name).Classes[k]
}

// Sample keeps up to max samples per kind (first ones seen, deterministic).
func (c *C) Sample(kind string, max int, v any) {
	mu.Lock()
	defer mu.Unlock()
	s := st(c.name)
	if s.sampleSeen[kind] >= max {
		return
	}
	s.sampleSeen[kind]++
	s.Samples = append(s.Samples, map[string]any{"check": c.name, "kind": kind, "case": v})
}

// ---------------------------------------------------------------------------------------------
// failures, journal, replay

type replayFile struct {
	Check  string          `json:"check"`
	Reason string          `json:"reason,omitempty"`
	Case   json.RawMessage `json:"case"`
}

var journalF *os.File

func journal(check string, c any) {
	p := os.Getenv("VERIF_JOURNAL")
	if p == "" {
		return
	}
	if journalF == nil {
		f, err := os.OpenFile(p, os.O_CREATE|os.O_RDWR|os.O_TRUNC, 0o644)
		if err != nil {
			return
		}
		journalF = f
	}
	raw, err := json.Marshal(c)
	if err != nil {
		return
	}
	b, _ := json.Marshal(replayFile{Check: check, Reason: "journal: case that was running when the process died", Case: raw})
	journalF.Truncate(0)
	journalF.WriteAt(b, 0)
}

func writeFail(check string, c any, reason string) {
	p := os.Getenv("VERIF_FAIL")
	if p == "" {
		return
	}
	raw, err := json.Marshal(c)
	if err != nil {
		raw, _ = json.Marshal(fmt.Sprintf("%#v", c))
	}
	b, _ := json.MarshalIndent(replayFile{Check: check, Reason: reason, Case: raw}, "", " ")
	os.WriteFile(p, b, 0o644)
}

// TB is what both *testing.T and *rapid.T offer.
type TB interface {
	Helper()
	Logf(string, ...any)
	Fatalf(string, ...any)
}

type runner interface {
	replay(raw json.RawMessage) error
}

var checks = map[string]runner{}

// Check is a named, replayable oracle over a serialisable case type.
type Check[T any] struct {
	*C
	Name    string
	Journal bool
	fn      func(*C, *T) error
}

// Register declares a sub-check.  fn returns nil when the property held on the case.
func Register[T any](name string, fn func(*C, *T) error) *Check[T] {
	k := &Check[T]{C: Col(name), Name: name, fn: fn}
	checks[name] = k
	return k
}

func (k *Check[T]) replay(raw json.RawMessage) error {
	var c T
	if err := json.Unmarshal(raw, &c); err != nil {
		return fmt.Errorf("bad replay case: %v", err)
	}
	return k.Try(&c)
}

// Try runs the oracle under recover; a Go panic escaping the oracle is reported as an error
// (the oracles themselves wrap calls into gopher-lua where a panic has a specific meaning).
func (k *Check[T]) Try(c *T) (err error) {
	defer func() {
		if r := recover(); r != nil {
			err = fmt.Errorf("Go panic escaped: %v", r)
		}
	}()
	return k.fn(k.C, c)
}

// Run evaluates one case: counts it, journals it when asked, and on failure writes the replay
// file and fails the test with a message that is stable across shrinking.
func (k *Check[T]) Run(t TB, c *T) {
	t.Helper()
	k.Eval()
	if k.Journal {
		journal(k.Name, c)
	}
	if err := k.Try(c); err != nil {
		if soft := os.Getenv("VERIF_SOFT"); soft != "" {
			// development aid (never set by the driver): record the failure and keep searching
			if f, e := os.OpenFile(soft, os.O_APPEND|os.O_CREATE|os.O_WRONLY, 0o644); e == nil {
				raw, _ := json.Marshal(c)
				b, _ := json.Marshal(replayFile{Check: k.Name, Reason: err.Error(), Case: raw})
				f.Write(append(b, '\n'))
				f.Close()
			}
			return
		}
		writeFail(k.Name, c, err.Error())
		t.Logf("check %s failed: %v", k.Name, err)
		if b, e := json.Marshal(c); e == nil && len(b) < 4000 {
			t.Logf("case: %s", b)
		}
		t.Fatalf("violation in %s", k.Name)
	}
}

// Replay re-executes the file named by VERIF_REPLAY; used by TestReplay in every package.
func Replay(t *testing.T) {
	p := os.Getenv("VERIF_REPLAY")
	if p == "" {
		t.Skip("no VERIF_REPLAY")
	}
	b, err := os.ReadFile(p)
	if err != nil {
		t.Skipf("cannot read replay: %v", err)
	}
	var rf replayFile
	if err := json.Unmarshal(b, &rf); err != nil {
		t.Skipf("cannot parse replay: %v", err)
	}
	k := checks[rf.Check]
	if k == nil {
		t.Skipf("replay names unknown check %q", rf.Check)
	}
	if err := k.replay(rf.Case); err != nil {
		fmt.Printf("REPLAY-FAILED check=%s: %v\n", rf.Check, err)
		t.Fatalf("replay failed: %v", err)
	}
	fmt.Printf("REPLAY-PASSED check=%s\n", rf.Check)
}

// ---------------------------------------------------------------------------------------------
// known findings

type Finding struct {
	Property string `json:"property"`
	ID       string `json:"id"`
	Status   string `json:"status"` // open | fixed
	What     string `json:"what"`
	Match    string `json:"match,omitempty"`
	Example  string `json:"example,omitempty"`
	Commit   string `json:"commit,omitempty"`
}

var (
	findingsOnce sync.Once
	findings     []Finding
)

func Findings() []Finding {
	findingsOnce.Do(func() {
		p := os.Getenv("VERIF_FINDINGS")
		if p == "" {
			p = "/verif/known_findings.json"
		}
		b, err := os.ReadFile(p)
		if err != nil {
			return
		}
		var f struct {
			Findings []Finding `json:"findings"`
		}
		if json.Unmarshal(b, &f) == nil {
			findings = f.Findings
		}
	})
	return findings
}

// Open reports whether the finding id is listed as open (then the owning generator steers away
// from it by construction and counts what it steered away).
func Open(id string) bool {
	for _, f := range Findings() {
		if f.ID == id && f.Status == "open" {
			return true
		}
	}
	return false
}

// ---------------------------------------------------------------------------------------------
// rapid glue

// Rapid runs prop under rapid.Check.  All flags come from the driver.
func Rapid(t *testing.T, prop func(*rapid.T)) {
	t.Helper()
	rapid.Check(t, prop)
}

// ---------------------------------------------------------------------------------------------
// output

// Main is called from TestMain of every property package.
func Main(m *testing.M) {
	code := m.Run()
	Flush()
	os.Exit(code)
}

func Flush() {
	p := os.Getenv("VERIF_OUT")
	if p == "" {
		return
	}
	mu.Lock()
	defer mu.Unlock()
	out := map[string]any{}
	var hb []byte
	names := make([]string, 0, len(stats))
	for n := range stats {
		names = append(names, n)
	}
	sort.Strings(names)
	for _, n := range names {
		s := stats[n]
		m := map[string]any{
			"evaluations": s.Evaluations, "classes": s.Classes, "discarded_unspecified": s.Discarded,
			"excluded_known": s.Excluded, "samples": s.Samples, "notes": s.Notes, "exhaustive": s.Exhaustive,
			"nontrivial_local": len(s.hashes),
		}
		out[n] = m
		for h := range s.hashes {
			var b [8]byte
			binary.LittleEndian.PutUint64(b[:], h)
			hb = append(hb, b[:]...)
		}
	}
	b, _ := json.Marshal(out)
	os.WriteFile(p, b, 0o644)
	os.WriteFile(p+".hashes", hb, 0o644)
}
