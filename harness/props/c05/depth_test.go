package c05

// Depth grid: a protected call made at call depth A whose callee fails B levels deeper, for every A and B across several
// call-frame segment boundaries, under both call-stack implementations.  The expected outcome is the same for the whole
// grid: the error arrives once at the protected call, the code behind it runs, the state snapshots agree, later calls work.

import (
	"fmt"
	"strings"
	"testing"

	lua "github.com/yuin/gopher-lua"

	"verif/e1"
	"verif/vf"
)

type DepthCase struct {
	A, B     int
	Protect  string `json:"protect"`
	Fail     string `json:"fail"`
	MinStack bool   `json:"minimize_stack_memory"`
	StackSz  int    `json:"call_stack_size"`
}

var depthProtect = map[string]string{
	"pcall":     `ok, e = pcall(down, DEPTHB, fail)`,
	"xpcall":    `ok, e = xpcall(function() return down(DEPTHB, fail) end, function(m) return m end)`,
	"hostpcall": `ok, e = hostpcall(down, DEPTHB, fail)`,
	"resume":    `ok, e = coroutine.resume(coroutine.create(function() return down(DEPTHB, fail) end))`,
	"wrap":      `ok, e = pcall(coroutine.wrap(function() return down(DEPTHB, fail) end))`,
}

var depthFail = map[string]string{
	"error_table": `error({code = 7})`,
	"vm_fault":    `local z = nil local y = z.field`,
	"host_panic":  `hostpanic()`,
}

func (c *DepthCase) src() string {
	t := `
local function down(n, f) if n == 0 then return f() end local r, s = down(n - 1, f) return r, s end
local function fail() FAIL end
emit("start")
local ok, e = down(DEPTHA, function() local keep, ok, e = "kept" snap("G") PROTECT snap("G") emit("behind the protected call", keep) return ok, e end)
emit("after", ok, type(e))
emit(down(3, function() return "later calls work" end), pcall(down, 2, fail))
`
	t = strings.ReplaceAll(t, "PROTECT", depthProtect[c.Protect])
	t = strings.ReplaceAll(t, "FAIL", depthFail[c.Fail])
	t = strings.ReplaceAll(t, "DEPTHA", fmt.Sprint(c.A))
	return strings.ReplaceAll(t, "DEPTHB", fmt.Sprint(c.B))
}

var chkDepth = vf.Register("depth_grid", func(k *vf.C, c *DepthCase) error {
	g := e1.RunGopher(c.src(), &e1.GOpts{Budget: 2_000_000, Options: lua.Options{MinimizeStackMemory: c.MinStack, CallStackSize: c.StackSz}})
	where := fmt.Sprintf("%s at depth %d, %s %d levels deeper (MinimizeStackMemory=%v, CallStackSize=%d)", c.Protect, c.A, c.Fail, c.B, c.MinStack, c.StackSz)
	if g.Panic != "" {
		return fmt.Errorf("%s: a Go panic escaped: %s", where, g.Panic)
	}
	if g.Overrun != "" {
		return fmt.Errorf("%s: the program does not end (%s)", where, g.Overrun)
	}
	if g.Failed {
		return fmt.Errorf("%s: the chunk failed: %s", where, clip(g.ErrText, 200))
	}
	if msg := e1.CheckSnaps(g.Snaps); msg != "" {
		return fmt.Errorf("%s: %s", where, msg)
	}
	t := e1.GTraceStrings(g.Trace)
	typ := map[string]string{"error_table": "table", "vm_fault": "string", "host_panic": "string"}[c.Fail]
	want := []string{`emit "start"`, `emit "behind the protected call" "kept"`, `emit "after" false "` + typ + `"`}
	if len(t) != 4 {
		return fmt.Errorf("%s: %d events instead of 4: %q", where, len(t), t)
	}
	for i, w := range want {
		if t[i] != w {
			return fmt.Errorf("%s: event %d is %s, expected %s", where, i, t[i], w)
		}
	}
	if !strings.HasPrefix(t[3], `emit "later calls work" false `) {
		return fmt.Errorf("%s: afterwards: %s", where, t[3])
	}
	k.Class("protect:" + c.Protect)
	k.Class(fmt.Sprintf("minimize_stack:%v", c.MinStack))
	if (c.A+2)%8 == 0 || (c.A+c.B+3)%8 == 0 {
		k.Class("near_segment_boundary")
	}
	k.Nontrivial(vf.Hash(fmt.Sprint(*c)))
	if c.A == 7 && c.B == 9 {
		k.Sample(c.Protect+"/"+c.Fail, 1, map[string]any{"case": c, "src": c.src()})
	}
	return nil
})

func TestDepthGrid(t *testing.T) {
	si, sn := vf.Shard()
	maxA, maxB := vf.Scale(26, 42), vf.Scale(26, 42)
	i := 0
	for _, ms := range []bool{true, false} {
		for _, sz := range []int{256, 64} {
			for p := range depthProtect {
				for f := range depthFail {
					i++
					if i%sn != si {
						continue
					}
					for a := 0; a <= maxA; a++ {
						for b := 1; b <= maxB; b++ {
							if a+b+8 >= sz {
								continue
							}
							chkDepth.Run(t, &DepthCase{A: a, B: b, Protect: p, Fail: f, MinStack: ms, StackSz: sz})
						}
					}
				}
			}
		}
	}
	chkDepth.SetExhaustive(true)
}
