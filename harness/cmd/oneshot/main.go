// oneshot runs a Lua file on gopher-lua with a context firing at dispatch K (development aid).
package main

import (
	"fmt"
	"os"
	"strconv"

	"verif/e1"
)

func main() {
	b, _ := os.ReadFile(os.Args[1])
	k, _ := strconv.Atoi(os.Args[2])
	ctx := e1.NewOneShotCtx(int64(k))
	g := e1.RunGopher(string(b), &e1.GOpts{Ctx: ctx})
	for _, s := range e1.GTraceStrings(g.Trace) {
		fmt.Println(s)
	}
	fmt.Println("failed:", g.Failed, g.ErrText, "panic:", g.Panic, "polls:", ctx.N, "fired:", ctx.Fired)
}
