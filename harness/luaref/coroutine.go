package luaref

// Coroutines are goroutines with strict hand-off: exactly one of them runs at any time.

type coMsgKind int

const (
	coYield coMsgKind = iota
	coDone
	coError
	coPanic // a non-Lua panic (Unspecified, budget, internal) to be re-raised in the resumer
)

type coMsg struct {
	kind coMsgKind
	vals []Value
	err  Value
	pv   any
}

type coResume struct {
	vals []Value
	kill bool
}

type Coroutine struct {
	fn       Value
	status   string // suspended | running | normal | dead
	th       *thread
	resumeCh chan coResume
	yieldCh  chan coMsg
	started  bool
	wrapped  bool
}

func (in *Interp) newCoroutine(fn Value) *Coroutine {
	co := &Coroutine{fn: fn, status: "suspended", resumeCh: make(chan coResume), yieldCh: make(chan coMsg)}
	co.th = &thread{co: co}
	in.coros = append(in.coros, co)
	return co
}

// resume transfers control into co and returns when it yields, finishes or fails.
func (in *Interp) resume(co *Coroutine, args []Value) coMsg {
	prevTh := in.th
	if prevTh.co != nil {
		prevTh.co.status = "normal"
	}
	co.status = "running"
	in.th = co.th
	in.Stat.Transfers++
	if !co.started {
		co.started = true
		go func() {
			var msg coMsg
			defer func() {
				if r := recover(); r != nil {
					switch x := r.(type) {
					case *LuaError:
						msg = coMsg{kind: coError, err: x.Val}
					case coKill:
						return // abandoned coroutine being torn down; nobody is listening
					default:
						msg = coMsg{kind: coPanic, pv: r}
					}
				}
				co.yieldCh <- msg
			}()
			first := <-co.resumeCh
			if first.kill {
				panic(coKill{})
			}
			res := in.Call(co.fn, first.vals)
			msg = coMsg{kind: coDone, vals: res}
		}()
	}
	co.resumeCh <- coResume{vals: args}
	msg := <-co.yieldCh
	in.th = prevTh
	if prevTh.co != nil {
		prevTh.co.status = "running"
	}
	switch msg.kind {
	case coYield:
		co.status = "suspended"
	case coDone, coError:
		co.status = "dead"
	case coPanic:
		co.status = "dead"
		panic(msg.pv)
	}
	in.Stat.Transfers++
	return msg
}

func (in *Interp) yield(vals []Value) []Value {
	th := in.th
	co := th.co
	if co == nil {
		in.fault("attempt to yield from outside a coroutine")
	}
	// th.cBoundary counts Go-side re-entries (pcall, metamethods, iterators, callbacks) between the coroutine's
	// body and this yield.  Lua 5.1 raises "attempt to yield across metamethod/C-call boundary" there; gopher-lua's
	// behaviour is a recorded finding (F-CO3) that the generators steer away from.
	if th.cBoundary > 0 {
		unspecified("yield across a pcall/metamethod/iterator boundary (F-CO3)")
	}
	co.yieldCh <- coMsg{kind: coYield, vals: vals}
	r := <-co.resumeCh
	if r.kill {
		panic(coKill{})
	}
	in.th = th
	return r.vals
}

// killCoroutines tears down the goroutines of coroutines that were left suspended.
func (in *Interp) killCoroutines() {
	for _, co := range in.coros {
		if co.started && co.status == "suspended" {
			co.status = "dead"
			co.resumeCh <- coResume{kill: true}
		}
	}
	in.coros = nil
}

func openCoroutine(in *Interp) {
	C := NewTable()
	in.G.Set("coroutine", C)
	isFn := func(v Value) bool {
		switch v.(type) {
		case *Closure, *Builtin:
			return true
		}
		return false
	}
	in.reg(C, "create", func(in *Interp, a []Value) []Value {
		if !isFn(arg(a, 0)) {
			in.argErr(1, "create", "Lua function expected")
		}
		if _, ok := a[0].(*Builtin); ok {
			unspecified("coroutine over a host function")
		}
		return []Value{in.newCoroutine(a[0])}
	})
	resume := func(in *Interp, co *Coroutine, args []Value) (bool, []Value) {
		if co.status != "suspended" {
			// "cannot resume dead coroutine" / "cannot resume non-suspended coroutine": text not fixed by a property
			return false, []Value{&OStr{Kind: "err"}}
		}
		in.th.cBoundary++ // auxresume is a host function: the resumer cannot yield "through" it... it simply waits
		in.th.cBoundary--
		msg := in.resume(co, args)
		switch msg.kind {
		case coYield, coDone:
			return true, msg.vals
		}
		return false, []Value{msg.err}
	}
	in.reg(C, "resume", func(in *Interp, a []Value) []Value {
		co, ok := arg(a, 0).(*Coroutine)
		if !ok {
			in.argErr(1, "resume", "coroutine expected")
		}
		if co.wrapped {
			unspecified("coroutine.resume of a wrap-created coroutine")
		}
		in.class("resume:" + co.status)
		ok2, vals := resume(in, co, a[1:])
		return append([]Value{ok2}, vals...)
	})
	// hostresume(f, ...): the host drives a coroutine through the Go API (NewThread + Resume): first resume with the
	// arguments, then resumes without values until the coroutine is dead; returns true and the body's results, or false
	// and the error value
	in.reg(in.G, "hostresume", func(in *Interp, a []Value) []Value {
		if _, ok := arg(a, 0).(*Closure); !ok {
			in.argErr(1, "hostresume", "Lua function expected")
		}
		co := in.newCoroutine(a[0])
		args := a[1:]
		for {
			ok2, vals := resume(in, co, args)
			if !ok2 {
				return append([]Value{false}, vals...)
			}
			if co.status == "dead" {
				return append([]Value{true}, vals...)
			}
			args = nil
		}
	})
	// hostyield(...): a host function that yields through the Go API (LState.Yield) two values of its own followed by its
	// arguments; its results are the values of the next resume
	in.reg(in.G, "hostyield", func(in *Interp, a []Value) []Value {
		return in.yield(append([]Value{"host1", "host2"}, a...))
	})
	in.reg(C, "yield", func(in *Interp, a []Value) []Value {
		return in.yield(append([]Value(nil), a...))
	})
	in.reg(C, "status", func(in *Interp, a []Value) []Value {
		co, ok := arg(a, 0).(*Coroutine)
		if !ok {
			in.argErr(1, "status", "coroutine expected")
		}
		in.class("status:" + co.status)
		return []Value{co.status}
	})
	in.reg(C, "running", func(in *Interp, a []Value) []Value {
		if in.th.co == nil {
			return []Value{nil}
		}
		return []Value{in.th.co}
	})
	in.reg(C, "wrap", func(in *Interp, a []Value) []Value {
		if !isFn(arg(a, 0)) {
			in.argErr(1, "wrap", "Lua function expected")
		}
		if _, ok := a[0].(*Builtin); ok {
			unspecified("coroutine over a host function")
		}
		co := in.newCoroutine(a[0])
		co.wrapped = true
		w := &Builtin{Name: "wrap_aux"}
		w.Fn = func(in *Interp, args []Value) []Value {
			in.class("wrapcall:" + co.status)
			ok, vals := resume(in, co, args)
			if !ok {
				in.class("wrap_error_propagated")
				e := first(vals)
				// 5.1 auxwrap: a string error value gets the position of the wrap caller prepended (luaL_where(L,1))
				// - a detail no listed property fixes; keep the value opaque when it is a string
				switch x := e.(type) {
				case string:
					e = &OStr{Kind: "err", Msg: x}
				case *OStr:
					e = &OStr{Kind: "err"}
				}
				in.raise(e)
			}
			return vals
		}
		return []Value{w}
	})
}
