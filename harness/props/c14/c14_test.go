// Package c14: Lua patterns match as the 5.1 matcher does; bad patterns are errors, not crashes.
//
// Oracle: verif/lstrlib, a line-by-line Go port of PUC-Rio Lua 5.1's lstrlib.c.  Every case is a subject, a pattern
// and a list of operations (string.find / match / gmatch / gsub through the Lua API, pm.Find directly); each operation
// is executed on gopher-lua and on the reference and the two outcomes are compared under the rule that the static
// reading of the pattern selects (see analyse_test.go).
package c14

import (
	"encoding/json"
	"fmt"
	"strconv"
	"strings"
	"testing"

	lua "github.com/yuin/gopher-lua"
	"github.com/yuin/gopher-lua/pm"

	ref "verif/lstrlib"
	"verif/vf"
)

func TestMain(m *testing.M) { vf.Main(m) }

func TestReplay(t *testing.T) { vf.Replay(t) }

// ---------------------------------------------------------------------------------------------
// case

// B is a byte string that survives JSON unchanged and stays readable: every byte is written as the code point
// of the same value (Latin-1), so "a\x00\xff" is "a\u0000ÿ".
type B []byte

func (b B) MarshalJSON() ([]byte, error) {
	out := make([]byte, 0, len(b)+2)
	out = append(out, '"')
	for _, c := range b {
		if c >= 0x20 && c < 0x7f && c != '"' && c != '\\' && c != '<' && c != '>' && c != '&' {
			out = append(out, c)
		} else {
			out = append(out, fmt.Sprintf("\\u%04x", c)...)
		}
	}
	return append(out, '"'), nil
}

func (b *B) UnmarshalJSON(d []byte) error {
	var s string
	if err := json.Unmarshal(d, &s); err != nil {
		return err
	}
	out := make([]byte, 0, len(s))
	for _, r := range s {
		if r > 255 {
			return fmt.Errorf("byte string with code point %d", r)
		}
		out = append(out, byte(r))
	}
	*b = out
	return nil
}

type ReplSpec struct {
	Kind string `json:"kind"`          // str | table | tablemt | gofunc | luafunc
	Str  B      `json:"str,omitempty"` // kind str
	Seed int    `json:"seed"`          // selects the value function of table / function replacements
}

type Op struct {
	Fn    string    `json:"fn"`              // find | match | gmatch | gsub | pm
	Init  *int      `json:"init,omitempty"`  // find/match: third argument (absent when nil)
	Plain bool      `json:"plain,omitempty"` // find: fourth argument true
	Repl  *ReplSpec `json:"repl,omitempty"`  // gsub
	N     *int      `json:"n,omitempty"`     // gsub: fourth argument (absent when nil)
	Via   string    `json:"via,omitempty"`   // "" = CallByParam on the library function | src = DoString of a chunk with literals | method = ("s"):fn(...) chunk | bare (gmatch) = the iterator called without arguments
	Off   int       `json:"off,omitempty"`   // pm: offset
	Limit int       `json:"limit,omitempty"` // pm: limit (-1 all)
}

// Case: subject = S repeated Rep times (Rep <= 1: once) followed by Tail.
type Case struct {
	S    B      `json:"s"`
	Rep  int    `json:"rep,omitempty"`
	Tail B      `json:"tail,omitempty"`
	P    B      `json:"p"`
	Ops  []Op   `json:"ops,omitempty"` // empty: the standard battery (stdOps)
	Kind string `json:"kind,omitempty"`
	// MaxSteps overrides the reference budget (long subjects)
	MaxSteps int64 `json:"max_steps,omitempty"`
}

func (c *Case) subject() string {
	if c.Rep > 1 {
		return strings.Repeat(string(c.S), c.Rep) + string(c.Tail)
	}
	return string(c.S) + string(c.Tail)
}

type V = ref.Value

// ---------------------------------------------------------------------------------------------
// the code under test, driven through the Lua API

type env struct {
	L                         *lua.LState
	find, match, gmatch, gsub lua.LValue
	wrap, collect, setindex   *lua.LFunction
	chunks                    int
}

var theEnv *env

const collectVars = 50

func getEnv() *env {
	if theEnv != nil {
		return theEnv
	}
	L := lua.NewState()
	e := &env{L: L}
	st := L.GetGlobal("string")
	e.find, e.match, e.gmatch, e.gsub = L.GetField(st, "find"), L.GetField(st, "match"), L.GetField(st, "gmatch"), L.GetField(st, "gsub")
	mustLoad := func(src string) *lua.LFunction {
		fn, err := L.LoadString(src)
		if err != nil {
			panic("harness chunk does not compile: " + err.Error())
		}
		return fn
	}
	// a Lua function around a host function (so gsub sees a Lua closure)
	e.wrap = mustLoad("local g = ... return function(...) return g(...) end")
	// a table whose values are produced by a host function through __index
	e.setindex = mustLoad("local g = ... return setmetatable({}, {__index = function(t, k) return g(k) end})")
	// generic-for collector: returns n, {{v1..vN}, ...}
	vars := make([]string, collectVars)
	for i := range vars {
		vars[i] = "v" + strconv.Itoa(i+1)
	}
	vl := strings.Join(vars, ", ")
	e.collect = mustLoad("local s, p = ... local out, n = {}, 0 for " + vl + " in string.gmatch(s, p) do n = n + 1 out[n] = {" + vl + "} if n > #s + 2 then break end end return n, out")
	theEnv = e
	return e
}

func dropEnv() {
	if theEnv != nil {
		func() {
			defer func() { recover() }()
			theEnv.L.Close()
		}()
		theEnv = nil
	}
}

// outcome of one operation on gopher-lua
type outcome struct {
	vals  []V    // values returned
	err   string // Lua error (non-empty: the call raised)
	crash string // Go panic: escaped the protected call, or was converted by PCall (ApiErrorPanic)
}

func fromL(v lua.LValue) V {
	switch x := v.(type) {
	case *lua.LNilType:
		return ref.Nil()
	case lua.LBool:
		return ref.Bool(bool(x))
	case lua.LNumber:
		return ref.Num(float64(x))
	case lua.LString:
		return ref.Str(string(x))
	}
	return V{K: ref.KOther, S: v.Type().String()}
}

func toL(v V) lua.LValue {
	switch v.K {
	case ref.KNil:
		return lua.LNil
	case ref.KFalse:
		return lua.LFalse
	case ref.KTrue:
		return lua.LTrue
	case ref.KNumber:
		return lua.LNumber(v.N)
	case ref.KString:
		return lua.LString(v.S)
	}
	return lua.LNil
}

// pcall calls fn(args...) protected and collects every returned value.
func (e *env) pcall(fn lua.LValue, args ...lua.LValue) (out outcome, raw []lua.LValue) {
	L := e.L
	base := L.GetTop()
	defer func() {
		if r := recover(); r != nil {
			out = outcome{crash: fmt.Sprintf("Go panic escaped the protected call: %v", r)}
			raw = nil
			dropEnv()
		}
	}()
	err := L.CallByParam(lua.P{Fn: fn, NRet: lua.MultRet, Protect: true}, args...)
	if err != nil {
		L.SetTop(base)
		if ae, ok := err.(*lua.ApiError); ok {
			if ae.Type == lua.ApiErrorPanic {
				dropEnv()
				return outcome{crash: "Go panic inside the call (caught by PCall): " + clip(errText(ae), 300)}, nil
			}
			return outcome{err: nonEmpty(errText(ae))}, nil
		}
		return outcome{err: nonEmpty(err.Error())}, nil
	}
	top := L.GetTop()
	for i := base + 1; i <= top; i++ {
		v := L.Get(i)
		raw = append(raw, v)
		out.vals = append(out.vals, fromL(v))
	}
	L.SetTop(base)
	return out, raw
}

func errText(ae *lua.ApiError) string {
	if ae.Object != nil && ae.Object != lua.LNil {
		return ae.Object.String()
	}
	return ae.Error()
}

func nonEmpty(s string) string {
	if s == "" {
		return "(empty error message)"
	}
	return s
}

func clip(s string, n int) string {
	if len(s) > n {
		return s[:n] + "..."
	}
	return s
}

// luaLit spells a byte string as a Lua string literal (decimal escapes for everything that is not alphanumeric).
func luaLit(s string) string {
	var b strings.Builder
	b.WriteByte('"')
	for i := 0; i < len(s); i++ {
		c := s[i]
		if isAlnum(c) || c == ' ' || c == '_' {
			b.WriteByte(c)
		} else {
			fmt.Fprintf(&b, "\\%03d", c)
		}
	}
	b.WriteByte('"')
	return b.String()
}

// chunk compiles src (a "return ..." chunk); a compile error is a harness error.
func (e *env) chunk(src string) (*lua.LFunction, error) {
	fn, err := e.L.LoadString(src)
	if err != nil {
		return nil, fmt.Errorf("harness: generated chunk does not compile: %v\n%s", err, src)
	}
	e.chunks++
	return fn, nil
}

// ---------------------------------------------------------------------------------------------
// value functions of table / function replacements (pure functions of seed and arguments)

func replValue(seed int, args []V) V {
	parts := []string{strconv.Itoa(seed)}
	var cat strings.Builder
	for _, a := range args {
		parts = append(parts, a.String())
		if a.K == ref.KString {
			cat.WriteString(a.S)
		} else if a.K == ref.KNumber {
			cat.WriteString(ref.NumberToString(a.N))
		}
		cat.WriteByte('|')
	}
	h := vf.Hash(parts...)
	switch h % 9 {
	case 0:
		return ref.Nil()
	case 1:
		return ref.Bool(false)
	case 2:
		return ref.Str("<" + cat.String() + ">")
	case 3:
		return ref.Int(int(h>>8) % 1000)
	case 4:
		return ref.Str("")
	case 5:
		return ref.Str("%1%0%%" + cat.String()) // '%' in a table/function result is not an escape
	case 6:
		return ref.Num(float64(int(h>>8)%64) + 0.5)
	case 7:
		return ref.Int(-int(h>>8) % 50)
	}
	return ref.Str(cat.String() + cat.String())
}

// ---------------------------------------------------------------------------------------------
// running one operation on both sides

type result struct {
	// reference
	rvals  []V
	riters [][]V
	rcalls [][]V
	rerr   error
	stats  ref.Stats
	// gopher-lua
	got    outcome
	giters [][]V
	gcalls [][]V
}

func fmtVals(vs []V) string {
	var b strings.Builder
	b.WriteByte('(')
	for i, v := range vs {
		if i > 0 {
			b.WriteString(", ")
		}
		b.WriteString(v.String())
	}
	b.WriteByte(')')
	return b.String()
}

func fmtIters(it [][]V) string {
	var b strings.Builder
	b.WriteByte('[')
	for i, vs := range it {
		if i > 0 {
			b.WriteString(" ")
		}
		b.WriteString(fmtVals(vs))
	}
	b.WriteByte(']')
	return b.String()
}

func eqVals(a, b []V) bool {
	if len(a) != len(b) {
		return false
	}
	for i := range a {
		if a[i] != b[i] {
			return false
		}
	}
	return true
}

func eqIters(a, b [][]V) bool {
	if len(a) != len(b) {
		return false
	}
	for i := range a {
		if !eqVals(a[i], b[i]) {
			return false
		}
	}
	return true
}

func describe(op *Op, s, p string) string {
	q := func(x string) string { return strconv.Quote(clip(x, 80)) }
	var b strings.Builder
	switch op.Fn {
	case "find", "match":
		fmt.Fprintf(&b, "string.%s(%s, %s", op.Fn, q(s), q(p))
		if op.Init != nil {
			fmt.Fprintf(&b, ", %d", *op.Init)
		} else if op.Plain {
			b.WriteString(", nil")
		}
		if op.Plain {
			b.WriteString(", true")
		}
		b.WriteString(")")
	case "gmatch":
		fmt.Fprintf(&b, "string.gmatch(%s, %s)", q(s), q(p))
	case "gsub":
		r := "?"
		if op.Repl != nil {
			if op.Repl.Kind == "str" {
				r = q(string(op.Repl.Str))
			} else {
				r = fmt.Sprintf("<%s seed %d>", op.Repl.Kind, op.Repl.Seed)
			}
		}
		fmt.Fprintf(&b, "string.gsub(%s, %s, %s", q(s), q(p), r)
		if op.N != nil {
			fmt.Fprintf(&b, ", %d", *op.N)
		}
		b.WriteString(")")
	case "pm":
		fmt.Fprintf(&b, "pm.Find(%s, %s, %d, %d)", q(p), q(s), op.Off, op.Limit)
	}
	if op.Via != "" {
		b.WriteString(" [via " + op.Via + "]")
	}
	return b.String()
}

func refOpts(c *Case) *ref.Opts {
	o := &ref.Opts{}
	if c.MaxSteps > 0 {
		o.MaxSteps = c.MaxSteps
	}
	return o
}

// unlimited captures: what the matcher answers when LUA_MAXCAPTURES is lifted
func refOptsNoCapLimit(c *Case) *ref.Opts {
	o := refOpts(c)
	o.MaxCaptures = 4096
	return o
}

func initArg(op *Op) int {
	if op.Init != nil {
		return *op.Init
	}
	return 1
}

// runFindMatch executes string.find / string.match.
func runFindMatch(e *env, c *Case, op *Op, s, p string, o *ref.Opts) (r result, herr error) {
	find := op.Fn == "find"
	r.rvals, r.stats, r.rerr = ref.StrFindAux(s, p, initArg(op), op.Plain, find, o)
	if r.rerr == ref.ErrBudget {
		return r, nil // discarded by the caller; gopher-lua is not run
	}
	switch op.Via {
	case "":
		fn := e.match
		if find {
			fn = e.find
		}
		args := []lua.LValue{lua.LString(s), lua.LString(p)}
		if op.Init != nil {
			args = append(args, lua.LNumber(*op.Init))
		} else if op.Plain {
			args = append(args, lua.LNil)
		}
		if op.Plain {
			args = append(args, lua.LTrue)
		}
		r.got, _ = e.pcall(fn, args...)
	default:
		var a strings.Builder
		if op.Via == "method" {
			fmt.Fprintf(&a, "return (%s):%s(%s", luaLit(s), op.Fn, luaLit(p))
		} else {
			fmt.Fprintf(&a, "return string.%s(%s, %s", op.Fn, luaLit(s), luaLit(p))
		}
		if op.Init != nil {
			fmt.Fprintf(&a, ", %d", *op.Init)
		} else if op.Plain {
			a.WriteString(", nil")
		}
		if op.Plain {
			a.WriteString(", true")
		}
		a.WriteString(")")
		fn, err := e.chunk(a.String())
		if err != nil {
			return r, err
		}
		r.got, _ = e.pcall(fn)
	}
	return r, nil
}

// runGmatch iterates string.gmatch the way the generic for does (f, s, var = gmatch(...); var = f(s, var) ...), in Go
// (Via "") or with a Lua generic for whose loop variables are collected (Via src).
func runGmatch(e *env, c *Case, op *Op, s, p string, o *ref.Opts) (r result, herr error) {
	r.riters, r.stats, r.rerr = ref.Gmatch(s, p, 0, o)
	if r.rerr == ref.ErrBudget {
		return r, nil
	}
	limit := len(s) + 2
	if op.Via == "src" {
		out, raw := e.pcall(e.collect, lua.LString(s), lua.LString(p))
		r.got = out
		if out.err != "" || out.crash != "" {
			return r, nil
		}
		if len(raw) != 2 {
			return r, fmt.Errorf("harness: collector returned %d values", len(raw))
		}
		n := int(raw[0].(lua.LNumber))
		tb := raw[1].(*lua.LTable)
		for i := 1; i <= n; i++ {
			row := tb.RawGetInt(i).(*lua.LTable)
			var vs []V
			for k := 1; k <= collectVars; k++ {
				v := row.RawGetInt(k)
				if v == lua.LNil {
					break
				}
				vs = append(vs, fromL(v))
			}
			r.giters = append(r.giters, vs)
		}
		if n > limit {
			r.got.crash = fmt.Sprintf("gmatch iterated more than len+2 = %d times", limit)
		}
		r.got.vals = nil
		return r, nil
	}
	out, raw := e.pcall(e.gmatch, lua.LString(s), lua.LString(p))
	r.got = out
	if out.err != "" || out.crash != "" {
		return r, nil
	}
	if len(raw) == 0 || raw[0].Type() != lua.LTFunction {
		r.got.err = ""
		r.got.crash = "string.gmatch did not return a function: " + fmtVals(out.vals)
		return r, nil
	}
	f := raw[0]
	var st, ctl lua.LValue = lua.LNil, lua.LNil
	if len(raw) > 1 {
		st = raw[1]
	}
	if len(raw) > 2 {
		ctl = raw[2]
	}
	for n := 0; ; n++ {
		if n > limit {
			r.got.crash = fmt.Sprintf("gmatch iterator returned more than len+2 = %d matches", limit)
			return r, nil
		}
		var io outcome
		var iraw []lua.LValue
		if op.Via == "bare" {
			// "Returns an iterator function that, each time it is called, returns the next captures": local f = s:gmatch(p); f()
			io, iraw = e.pcall(f)
		} else {
			io, iraw = e.pcall(f, st, ctl)
		}
		if io.err != "" || io.crash != "" {
			r.got = io
			return r, nil
		}
		if len(iraw) == 0 || iraw[0] == lua.LNil {
			if op.Via == "bare" {
				// an exhausted iterator keeps answering "no more"
				for again := 0; again < 2; again++ {
					io, iraw = e.pcall(f)
					if io.crash != "" {
						r.got = io
						return r, nil
					}
					if io.err != "" || len(iraw) > 0 && iraw[0] != lua.LNil {
						r.got.crash = "gmatch iterator called after exhaustion: " + io.err + fmtVals(io.vals)
						return r, nil
					}
				}
			}
			break
		}
		ctl = iraw[0]
		r.giters = append(r.giters, io.vals)
	}
	r.got.vals = nil
	return r, nil
}

func runGsub(e *env, c *Case, op *Op, s, p string, o *ref.Opts) (r result, herr error) {
	if op.Repl == nil {
		return r, fmt.Errorf("harness: gsub without repl")
	}
	rs := op.Repl
	hasN := op.N != nil
	n := 0
	if hasN {
		n = *op.N
	}
	var repl ref.Repl
	var keys []V
	switch rs.Kind {
	case "str":
		repl = ref.Repl{Kind: ref.ReplString, Str: string(rs.Str)}
	case "table", "tablemt":
		repl = ref.Repl{Kind: ref.ReplTable, Table: func(k V) V {
			keys = append(keys, k)
			r.rcalls = append(r.rcalls, []V{k})
			return replValue(rs.Seed, []V{k})
		}}
	case "gofunc", "luafunc":
		repl = ref.Repl{Kind: ref.ReplFunc, Func: func(args []V) V {
			r.rcalls = append(r.rcalls, append([]V(nil), args...))
			return replValue(rs.Seed, args)
		}}
	default:
		return r, fmt.Errorf("harness: unknown repl kind %q", rs.Kind)
	}
	out, cnt, st, err := ref.Gsub(s, p, &repl, n, hasN, o)
	r.stats, r.rerr = st, err
	if err == nil {
		r.rvals = []V{ref.Str(out), ref.Int(cnt)}
	}
	if err == ref.ErrBudget {
		return r, nil
	}

	L := e.L
	var replv lua.LValue
	switch rs.Kind {
	case "str":
		replv = lua.LString(string(rs.Str))
	case "table":
		// the table holds exactly the keys the reference looked up (plus a decoy); any other key reads nil on both sides
		tb := L.NewTable()
		for _, k := range keys {
			tb.RawSet(toL(k), toL(replValue(rs.Seed, []V{k})))
		}
		tb.RawSetString("\x00decoy", lua.LString("DECOY"))
		replv = tb
	case "tablemt":
		g := L.NewFunction(func(L *lua.LState) int {
			k := fromL(L.Get(1))
			r.gcalls = append(r.gcalls, []V{k})
			L.Push(toL(replValue(rs.Seed, []V{k})))
			return 1
		})
		o2, raw := e.pcall(e.setindex, g)
		if o2.err != "" || o2.crash != "" || len(raw) != 1 {
			return r, fmt.Errorf("harness: cannot build table with __index: %v", o2)
		}
		replv = raw[0]
	case "gofunc", "luafunc":
		g := L.NewFunction(func(L *lua.LState) int {
			var args []V
			for i := 1; i <= L.GetTop(); i++ {
				args = append(args, fromL(L.Get(i)))
			}
			r.gcalls = append(r.gcalls, args)
			L.Push(toL(replValue(rs.Seed, args)))
			return 1
		})
		replv = g
		if rs.Kind == "luafunc" {
			o2, raw := e.pcall(e.wrap, g)
			if o2.err != "" || o2.crash != "" || len(raw) != 1 {
				return r, fmt.Errorf("harness: cannot wrap function: %v", o2)
			}
			replv = raw[0]
		}
	}
	if theEnv == nil {
		return r, fmt.Errorf("harness: state lost while building the replacement")
	}
	if op.Via == "src" && rs.Kind == "str" {
		var a strings.Builder
		fmt.Fprintf(&a, "return string.gsub(%s, %s, %s", luaLit(s), luaLit(p), luaLit(string(rs.Str)))
		if hasN {
			fmt.Fprintf(&a, ", %d", n)
		}
		a.WriteString(")")
		fn, err := e.chunk(a.String())
		if err != nil {
			return r, err
		}
		r.got, _ = e.pcall(fn)
		return r, nil
	}
	args := []lua.LValue{lua.LString(s), lua.LString(p), replv}
	if hasN {
		args = append(args, lua.LNumber(n))
	}
	r.got, _ = e.pcall(e.gsub, args...)
	return r, nil
}

// pmMatches maps pm.Find's match data to the reference's Match form.
func runPM(op *Op, s, p string, o *ref.Opts) (want []ref.Match, st ref.Stats, rerr error, got []ref.Match, gerr error, crash string) {
	want, st, rerr = ref.Scan(s, p, op.Off, op.Limit, true, o)
	if rerr == ref.ErrBudget {
		return
	}
	func() {
		defer func() {
			if r := recover(); r != nil {
				crash = fmt.Sprintf("pm.Find panicked: %v", r)
			}
		}()
		mds, err := pm.Find(p, []byte(s), op.Off, op.Limit)
		if err != nil {
			gerr = err
			return
		}
		for _, md := range mds {
			n := md.CaptureLength()
			if n < 2 || n%2 != 0 {
				crash = fmt.Sprintf("pm.Find returned match data with %d capture slots", n)
				return
			}
			m := ref.Match{Start: md.Capture(0), End: md.Capture(1)}
			for i := 2; i < n; i += 2 {
				if md.IsPosCapture(i) {
					m.Caps = append(m.Caps, ref.Cap{IsPos: true, Start: md.Capture(i)})
				} else {
					m.Caps = append(m.Caps, ref.Cap{Start: md.Capture(i), End: md.Capture(i + 1)})
				}
			}
			got = append(got, m)
		}
	}()
	return
}

func eqMatches(a, b []ref.Match) bool {
	if len(a) != len(b) {
		return false
	}
	for i := range a {
		if a[i].Start != b[i].Start || a[i].End != b[i].End || len(a[i].Caps) != len(b[i].Caps) {
			return false
		}
		for j := range a[i].Caps {
			if a[i].Caps[j] != b[i].Caps[j] {
				return false
			}
		}
	}
	return true
}

// ---------------------------------------------------------------------------------------------
// the rule

// noMatchShape: the operation reported "no match" (find/match: a single nil; gmatch: no iteration; gsub: the subject
// unchanged and 0; pm: no match data).
func noMatchShape(op *Op, s string, r *result) bool {
	switch op.Fn {
	case "find", "match":
		return len(r.got.vals) == 1 && r.got.vals[0].K == ref.KNil
	case "gmatch":
		return len(r.giters) == 0
	case "gsub":
		return len(r.got.vals) == 2 && r.got.vals[0] == ref.Str(s) && r.got.vals[1] == ref.Int(0)
	}
	return false
}

func sameAsRef(op *Op, r *result) bool {
	if r.rerr != nil {
		return false
	}
	switch op.Fn {
	case "gmatch":
		return eqIters(r.giters, r.riters)
	case "gsub":
		return eqVals(r.got.vals, r.rvals) && (len(r.gcalls) == 0 || eqIters(r.gcalls, r.rcalls))
	}
	return eqVals(r.got.vals, r.rvals)
}

func showGot(op *Op, r *result) string {
	if r.got.err != "" {
		return "error " + strconv.Quote(clip(r.got.err, 160))
	}
	switch op.Fn {
	case "gmatch":
		return fmtIters(r.giters)
	case "gsub":
		s := fmtVals(r.got.vals)
		if len(r.gcalls) > 0 {
			s += " calls " + fmtIters(r.gcalls)
		}
		return s
	}
	return fmtVals(r.got.vals)
}

func showRef(op *Op, r *result) string {
	if r.rerr != nil {
		return "error " + strconv.Quote(r.rerr.Error())
	}
	switch op.Fn {
	case "gmatch":
		return fmtIters(r.riters)
	case "gsub":
		s := fmtVals(r.rvals)
		if len(r.rcalls) > 0 {
			s += " calls " + fmtIters(r.rcalls)
		}
		return s
	}
	return fmtVals(r.rvals)
}

// opStatus: how the static reading classifies this operation (pattern and, for gsub, replacement).
type opStatus struct {
	status   int
	reasons  []string
	tooMany  bool // the only problem is the number of captures
	pat      *patInfo
	replBad  bool // %n in the replacement names a capture that does not exist
	replUndf bool // '%' followed by something the manual does not define
}

func classifyOp(op *Op, p string, cache map[bool]*patInfo) opStatus {
	if op.Fn == "find" && op.Plain {
		return opStatus{status: stOK, pat: &patInfo{}}
	}
	anchorable := op.Fn != "gmatch"
	pi := cache[anchorable]
	if pi == nil {
		pi = analyse(p, anchorable)
		cache[anchorable] = pi
	}
	os := opStatus{status: pi.status, reasons: pi.reasons, pat: pi}
	if pi.status == stMalformed && len(pi.reasons) == 1 && pi.reasons[0] == "too_many_captures" {
		os.tooMany = true
	}
	if op.Fn == "gsub" && op.Repl != nil && op.Repl.Kind == "str" {
		ri := analyseRepl(string(op.Repl.Str))
		if ri.undefinedEscape {
			os.replUndf = true
			if os.status != stUndocumented {
				os.status = stUndocumented
				os.reasons = []string{"repl_escape_undefined"}
			}
		} else if ri.maxIndex > pi.ncaps && !(ri.maxIndex == 1 && pi.ncaps == 0) {
			os.replBad = true
			if os.status == stOK {
				os.status = stMalformed
				os.reasons = []string{"repl_invalid_capture_index"}
				os.tooMany = false
			}
		}
	}
	return os
}

// checkOp runs one operation and applies the rule.  It returns a description of the disagreement, or "".
func checkOp(k *vf.C, c *Case, op *Op, s, p string, cache map[bool]*patInfo, sum *caseSummary) (string, error) {
	o := refOpts(c)
	os := classifyOp(op, p, cache)
	if os.tooMany {
		// more than LUA_MAXCAPTURES captures is a limit of the reference build, not a syntax error: an implementation
		// without the limit may answer what the matcher answers with the limit lifted, so that is the reference here
		// (an error or "no match" are accepted as for every malformed pattern)
		o = refOptsNoCapLimit(c)
	}
	if op.Fn == "pm" {
		return checkPM(k, c, op, s, p, os, o, sum)
	}
	e := getEnv()
	var r result
	var herr error
	switch op.Fn {
	case "find", "match":
		r, herr = runFindMatch(e, c, op, s, p, o)
	case "gmatch":
		r, herr = runGmatch(e, c, op, s, p, o)
	case "gsub":
		r, herr = runGsub(e, c, op, s, p, o)
	default:
		herr = fmt.Errorf("harness: unknown op %q", op.Fn)
	}
	if herr != nil {
		return "", herr
	}
	// whatever the pattern is: no Go panic
	if r.got.crash != "" {
		return fmt.Sprintf("%s: %s (reference: %s)", describe(op, s, p), r.got.crash, showRef(op, &r)), nil
	}
	if r.rerr == ref.ErrBudget {
		k.Discard("reference_step_budget")
		sum.discarded = true
		return "", nil
	}
	switch os.status {
	case stUndocumented:
		k.Discard("undocumented:" + strings.Join(os.reasons, "+"))
		sum.discarded = true
		return "", nil
	case stMalformed:
		for _, why := range os.reasons {
			k.Class("malformed:" + why)
		}
		switch {
		case r.got.err != "":
			k.Class("malformed_outcome:error")
			return "", nil
		case noMatchShape(op, s, &r):
			k.Class("malformed_outcome:no_match")
			return "", nil
		case sameAsRef(op, &r):
			if os.tooMany {
				k.Class("malformed_outcome:as_matcher_without_capture_limit")
			} else {
				k.Class("malformed_outcome:same_as_reference")
			}
			return "", nil
		}
		return fmt.Sprintf("%s: malformed (%s): gopher-lua returned %s, which is neither an error nor 'no match' nor the reference's answer %s",
			describe(op, s, p), strings.Join(os.reasons, "+"), showGot(op, &r), showRef(op, &r)), nil
	}
	// well-formed: equal outcomes
	if r.rerr != nil {
		return "", fmt.Errorf("harness: reference raised %q on a pattern read as well-formed: %s", r.rerr.Error(), describe(op, s, p))
	}
	if r.got.err != "" {
		return fmt.Sprintf("%s: gopher-lua raised %s, reference returned %s", describe(op, s, p), strconv.Quote(clip(r.got.err, 200)), showRef(op, &r)), nil
	}
	if !sameAsRef(op, &r) {
		return fmt.Sprintf("%s: gopher-lua returned %s, reference %s", describe(op, s, p), showGot(op, &r), showRef(op, &r)), nil
	}
	recordOp(k, op, s, p, &r, os, sum)
	return "", nil
}

func checkPM(k *vf.C, c *Case, op *Op, s, p string, os opStatus, o *ref.Opts, sum *caseSummary) (string, error) {
	want, st, rerr, got, gerr, crash := runPM(op, s, p, o)
	d := func() string { return describe(op, s, p) }
	if crash != "" {
		return d() + ": " + crash, nil
	}
	if rerr == ref.ErrBudget {
		k.Discard("reference_step_budget")
		sum.discarded = true
		return "", nil
	}
	switch os.status {
	case stUndocumented:
		k.Discard("undocumented:" + strings.Join(os.reasons, "+"))
		sum.discarded = true
		return "", nil
	case stMalformed:
		k.Class("pm_malformed")
		if gerr != nil || len(got) == 0 || (rerr == nil && eqMatches(got, want)) {
			return "", nil
		}
		return fmt.Sprintf("%s: malformed (%s): pm.Find returned %v, neither an error nor empty nor the reference's answer (%v, %v)",
			d(), strings.Join(os.reasons, "+"), got, want, rerr), nil
	}
	if rerr != nil {
		return "", fmt.Errorf("harness: reference raised %q on a pattern read as well-formed: %s", rerr.Error(), d())
	}
	if gerr != nil {
		return fmt.Sprintf("%s: pm.Find returned error %q, reference %v", d(), gerr.Error(), want), nil
	}
	if !eqMatches(got, want) {
		return fmt.Sprintf("%s: pm.Find returned %v, reference %v", d(), got, want), nil
	}
	k.Class("op:pm")
	if len(want) > 1 {
		k.Class("pm:multiple_matches")
	}
	sum.note(st, len(want) > 0, len(want) > 0 && want[0].Start > op.Off)
	return "", nil
}

// ---------------------------------------------------------------------------------------------
// what a case explored

type caseSummary struct {
	backtracks int64
	matched    bool
	offsetPos  bool // a match started after the first position tried
	discarded  bool
}

func (s *caseSummary) note(st ref.Stats, matched, offset bool) {
	s.backtracks += st.Backtracks
	if matched {
		s.matched = true
	}
	if offset {
		s.offsetPos = true
	}
}

func recordOp(k *vf.C, op *Op, s, p string, r *result, os opStatus, sum *caseSummary) {
	k.Class("op:" + op.Fn)
	if op.Via != "" {
		k.Class("via:" + op.Via)
	}
	switch op.Fn {
	case "find", "match":
		matched := !(len(r.rvals) == 1 && r.rvals[0].K == ref.KNil)
		offset := false
		if op.Init != nil {
			switch {
			case *op.Init < 0:
				k.Class("init:negative")
				if -*op.Init > len(s) {
					k.Class("init:below_-len")
				}
				if -*op.Init > len(s)+1000 {
					k.Class("init:huge")
				}
			case *op.Init == 0:
				k.Class("init:zero")
			case *op.Init > len(s)+1:
				k.Class("init:beyond_len+1")
				if *op.Init > len(s)+1000 {
					k.Class("init:huge")
				}
				if matched {
					k.Class("init:beyond_len+1_and_matched")
				}
			case *op.Init == len(s)+1:
				k.Class("init:len+1")
			default:
				k.Class("init:inside")
			}
		} else {
			k.Class("init:absent")
		}
		if op.Fn == "find" {
			if op.Plain {
				k.Class("find:plain")
				if matched {
					k.Class("find:plain_found")
				}
			} else if !strings.ContainsAny(p, ref.SPECIALS) {
				k.Class("find:no_specials_plain_path")
			}
			if matched && len(r.rvals) >= 2 {
				start := int(r.rvals[0].N)
				first := refStart(initArg(op), len(s))
				offset = start-1 > first
				if r.rvals[1].N < r.rvals[0].N {
					k.Class("outcome:empty_match")
				}
				if len(r.rvals) > 2 {
					k.Class("outcome:find_with_captures")
				}
			}
		} else if matched {
			for _, v := range r.rvals {
				if v.K == ref.KNumber {
					k.Class("outcome:position_capture_value")
					break
				}
			}
		}
		if matched {
			k.Class("outcome:match")
		} else {
			k.Class("outcome:no_match")
		}
		sum.note(r.stats, matched, offset)
	case "gmatch":
		switch {
		case len(r.riters) == 0:
			k.Class("gmatch:no_iteration")
		case len(r.riters) == 1:
			k.Class("gmatch:one_iteration")
		default:
			k.Class("gmatch:several_iterations")
		}
		empty := false
		for _, it := range r.riters {
			if len(it) == 1 && it[0].K == ref.KString && it[0].S == "" {
				empty = true
			}
		}
		if empty {
			k.Class("gmatch:empty_match")
		}
		if os.pat != nil && os.pat.has("caret_literal") {
			k.Class("gmatch:leading_or_inner_caret_literal")
		}
		sum.note(r.stats, len(r.riters) > 0, len(r.riters) > 1)
	case "gsub":
		k.Class("gsub:repl_" + op.Repl.Kind)
		switch {
		case op.N == nil:
			k.Class("gsub:n_absent")
		case *op.N < 0:
			k.Class("gsub:n_negative")
		case *op.N == 0:
			k.Class("gsub:n_0")
		case *op.N == 1:
			k.Class("gsub:n_1")
		case *op.N == 2:
			k.Class("gsub:n_2")
		default:
			k.Class("gsub:n_large")
		}
		cnt := 0
		if len(r.rvals) == 2 {
			cnt = int(r.rvals[1].N)
		}
		if cnt > 0 {
			k.Class("gsub:replaced")
		}
		if cnt > 1 {
			k.Class("gsub:replaced_several")
		}
		if op.N != nil && *op.N >= 0 && cnt == *op.N && cnt > 0 {
			k.Class("gsub:stopped_by_n")
		}
		if op.Repl.Kind == "str" {
			ri := analyseRepl(string(op.Repl.Str))
			if ri.hasWhole {
				k.Class("gsub:repl_%0")
			}
			if ri.maxIndex > 0 {
				k.Class("gsub:repl_%n")
			}
			if ri.hasPercent {
				k.Class("gsub:repl_%%")
			}
		} else {
			for _, call := range r.rcalls {
				v := replValue(op.Repl.Seed, call)
				switch v.K {
				case ref.KNil:
					k.Class("gsub:value_nil")
				case ref.KFalse:
					k.Class("gsub:value_false")
				case ref.KNumber:
					k.Class("gsub:value_number")
				case ref.KString:
					k.Class("gsub:value_string")
				}
				if len(call) > 1 {
					k.Class("gsub:function_several_args")
				}
				if len(call) > 0 && call[0].K == ref.KNumber {
					k.Class("gsub:key_or_arg_is_position")
				}
			}
		}
		sum.note(r.stats, cnt > 0, cnt > 1)
	}
}

// refStart: the first subject offset string.find tries for a given init (0-based).
func refStart(init, l int) int {
	if init < 0 {
		init += l + 1
		if init < 0 {
			init = 0
		}
	}
	init--
	if init < 0 {
		init = 0
	}
	if init > l {
		init = l
	}
	return init
}

// ---------------------------------------------------------------------------------------------
// the oracle

func stdOps(l int) []Op {
	var ops []Op
	ip := func(i int) *int { return &i }
	ops = append(ops, Op{Fn: "find"}, Op{Fn: "match"}, Op{Fn: "find", Plain: true})
	for i := -l - 2; i <= l+2; i++ {
		ops = append(ops, Op{Fn: "find", Init: ip(i)}, Op{Fn: "match", Init: ip(i)})
	}
	for _, i := range []int{-l - 1, -1, 0, 2, l + 1, l + 2} {
		ops = append(ops, Op{Fn: "find", Init: ip(i), Plain: true})
	}
	ops = append(ops, Op{Fn: "gmatch"}, Op{Fn: "gmatch", Via: "bare"})
	ops = append(ops,
		Op{Fn: "gsub", Repl: &ReplSpec{Kind: "str", Str: B("<%0>")}},
		Op{Fn: "gsub", Repl: &ReplSpec{Kind: "str", Str: B("%1%%")}, N: ip(0)},
		Op{Fn: "gsub", Repl: &ReplSpec{Kind: "str", Str: B("%1%%")}, N: ip(1)},
		Op{Fn: "gsub", Repl: &ReplSpec{Kind: "str", Str: B("x")}, N: ip(2)},
		Op{Fn: "gsub", Repl: &ReplSpec{Kind: "table", Seed: 1}},
		Op{Fn: "gsub", Repl: &ReplSpec{Kind: "gofunc", Seed: 2}, N: ip(l + 3)},
	)
	for off := 0; off <= l; off++ {
		ops = append(ops, Op{Fn: "pm", Off: off, Limit: -1})
	}
	ops = append(ops, Op{Fn: "pm", Off: 0, Limit: 1}, Op{Fn: "pm", Off: 0, Limit: 2})
	return ops
}

// stdOpsMalformed: the reduced battery for a malformed pattern (its outcome hardly depends on init).
func stdOpsMalformed(l int) []Op {
	ip := func(i int) *int { return &i }
	ops := []Op{{Fn: "find"}, {Fn: "match"}, {Fn: "find", Plain: true}}
	for _, i := range []int{-1, 0, l + 2} {
		ops = append(ops, Op{Fn: "find", Init: ip(i)}, Op{Fn: "match", Init: ip(i)})
	}
	ops = append(ops, Op{Fn: "gmatch"}, Op{Fn: "gmatch", Via: "bare"},
		Op{Fn: "gsub", Repl: &ReplSpec{Kind: "str", Str: B("<%0>")}},
		Op{Fn: "gsub", Repl: &ReplSpec{Kind: "str", Str: B("%1%%")}, N: ip(1)},
		Op{Fn: "gsub", Repl: &ReplSpec{Kind: "table", Seed: 1}},
		Op{Fn: "gsub", Repl: &ReplSpec{Kind: "gofunc", Seed: 2}, N: ip(l + 3)},
		Op{Fn: "pm", Off: 0, Limit: -1}, Op{Fn: "pm", Off: l, Limit: -1}, Op{Fn: "pm", Off: 0, Limit: 1})
	return ops
}

var stdOpsCache = map[int][]Op{}
var stdOpsMalCache = map[int][]Op{}

func patternCheck(k *vf.C, c *Case) error {
	s, p := c.subject(), string(c.P)
	ops := c.Ops
	cache := map[bool]*patInfo{}
	if len(ops) == 0 {
		pi := analyse(p, true)
		cache[true] = pi
		if pi.status == stMalformed {
			ops = stdOpsMalCache[len(s)]
			if ops == nil {
				ops = stdOpsMalformed(len(s))
				stdOpsMalCache[len(s)] = ops
			}
		} else {
			ops = stdOpsCache[len(s)]
			if ops == nil {
				ops = stdOps(len(s))
				stdOpsCache[len(s)] = ops
			}
		}
	}
	var sum caseSummary
	for i := range ops {
		msg, err := checkOp(k, c, &ops[i], s, p, cache, &sum)
		if err != nil {
			return err
		}
		if msg != "" {
			return fmt.Errorf("%s", msg)
		}
	}
	classifyCase(k, c, s, p, cache, &sum)
	return nil
}

func classifyCase(k *vf.C, c *Case, s, p string, cache map[bool]*patInfo, sum *caseSummary) {
	pi := cache[true]
	if pi == nil {
		pi = cache[false]
	}
	if pi == nil {
		pi = analyse(p, true)
	}
	switch pi.status {
	case stOK:
		k.Class("pattern:well_formed")
	case stMalformed:
		k.Class("pattern:malformed")
	default:
		k.Class("pattern:undocumented")
	}
	if c.Kind != "" {
		k.Class("kind:" + c.Kind)
	}
	for _, f := range pi.feats {
		k.Class("feature:" + f)
	}
	if pi.status == stOK {
		if sum.backtracks > 0 {
			k.Class("outcome:backtracked")
		}
		if sum.offsetPos {
			k.Class("outcome:match_after_first_position")
		}
		hi := false
		for i := 0; i < len(s); i++ {
			if s[i] >= 0x80 || s[i] == 0 {
				hi = true
			}
		}
		if hi {
			k.Class("subject:nul_or_high_bytes")
		}
		// non-trivial: a quantifier or a capture, and the subject matched after the first position or the reference backtracked
		if (pi.nquant > 0 || pi.ncaps > 0) && (sum.offsetPos || sum.backtracks > 0) {
			ob, _ := json.Marshal(c.Ops)
			k.Nontrivial(vf.Hash(p, s, string(ob)))
			k.Sample(c.Kind, 2, map[string]any{"pattern": p, "subject": clip(strconv.Quote(s), 120), "ops": len(c.Ops), "backtracks": sum.backtracks})
		}
	}
}

var chkExh = vf.Register("pat_exhaustive", patternCheck)
var chkTok4 = vf.Register("pat_tokens4_sample", patternCheck)
var chkCls = vf.Register("pat_classes", patternCheck)
var chkCap = vf.Register("pat_captures", patternCheck)
var chkRnd = vf.Register("pat_random", patternCheck)
var chkMal = vf.Register("pat_malformed", patternCheck)
var chkLong = vf.Register("pat_long", patternCheck)
var chkFuzz = vf.Register("pat_fuzz", patternCheck)

func init() {
	chkRnd.Journal = true
	chkMal.Journal = true
	chkLong.Journal = true
}
