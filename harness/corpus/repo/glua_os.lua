local osname = "linux"
if string.find(os.getenv("OS") or "", "Windows") then
  osname = "windows"
end

if osname == "linux" then
  -- travis ci failed to start date command?
  -- assert(os.execute("date") == 0)
  assert(os.execute("date -a") == 1)
else
  assert(os.execute("date /T") == 0)
  assert(os.execute("md") == 1)
end

assert(os.getenv("PATH") ~= "")
assert(os.getenv("_____GLUATEST______") == nil)
assert(os.setenv("_____GLUATEST______", "1"))
assert(os.getenv("_____GLUATEST______") == "1")
