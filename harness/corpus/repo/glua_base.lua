local ok, msg = pcall(function()
  dofile("notexist")
end)
assert(not ok and string.find(msg, ".*notexist.*"))

local ok, msg = pcall(function()
  assert(getfenv(2) == _G)
end)
assert(ok)

local i = 1
local fn = assert(load(function()
  local tbl = {"return ", "1", "+", "1"}
  local v = tbl[i]
  i = i + 1
  return v
end))
assert(fn() == 2)

local fn, msg = load(function()
    return {}
end)
assert(not fn and string.find(msg, "must return a string"))

local i = 1
local fn, msg = load(function()
  if i == 1 then
      i = i + 1
      return "returna"
  end
end)
assert(not fn and string.find(string.lower(msg), "eof"))

local ok, a, b = xpcall(function()
     return "a", "b"
  end, 
  function(err)
     assert(nil)
  end)
assert(ok and a == "a" and b == "b")

local ok, a, b = xpcall(function()
     error("error!")
  end, 
  function(err)
     return err .. "!", "b"
  end)
assert(not ok and string.find(a, "error!!") and b == nil)
