//go:build cgo

package iomodel

// The same histories, executed on the C library's FILE* through the few lines of Lua 5.1's liolib.c that matter
// (g_read / g_write / f_seek / f_flush / f_setvbuf / io_close, re-stated below).  This is not the oracle of the
// property check; it is the yardstick the oracle (model.go) is itself validated against.

/*
#include <stdio.h>
#include <stdlib.h>
#include <string.h>

static FILE *x_open(const char *path, const char *mode) { return fopen(path, mode); }

static int x_write(FILE *f, const char *p, size_t n) { return fwrite(p, 1, n, f) == n; }

// read_chars: up to n bytes; returns the count, *err set on ferror
static long x_readn(FILE *f, char *buf, size_t n, int *err) {
	size_t r = fread(buf, 1, n, f);
	*err = ferror(f) != 0;
	return (long)r;
}

// test_eof
static int x_testeof(FILE *f, int *err) {
	int c = getc(f);
	ungetc(c, f);
	*err = ferror(f) != 0;
	return c != EOF;
}

// read_line without the fgets/strlen artefact: bytes up to and excluding '\n'
static long x_readline(FILE *f, char *buf, long cap, int *hitnl, int *err) {
	long n = 0;
	int c;
	*hitnl = 0;
	while ((c = getc(f)) != EOF) {
		if (c == '\n') { *hitnl = 1; break; }
		if (n < cap) buf[n] = (char)c;
		n++;
	}
	*err = ferror(f) != 0;
	return n;
}

static int x_readnum(FILE *f, double *d, int *err) {
	int r = fscanf(f, "%lf", d);
	*err = ferror(f) != 0;
	return r;
}

static long x_seek(FILE *f, int whence, long off) {
	int w = whence == 0 ? SEEK_SET : whence == 1 ? SEEK_CUR : SEEK_END;
	if (fseek(f, off, w) != 0) return -1;
	return ftell(f);
}

static int x_flush(FILE *f) { return fflush(f) == 0; }
static int x_setvbuf(FILE *f, int full, size_t sz) { return setvbuf(f, NULL, full ? _IOFBF : _IONBF, sz) == 0; }
static int x_close(FILE *f) { return fclose(f) == 0; }
static void x_clearerr(FILE *f) { clearerr(f); }
static int x_bufsiz(void) { return BUFSIZ; }
*/
import "C"

import (
	"fmt"
	"unsafe"
)

// HaveLibc reports whether this build can run histories on the C library.
const HaveLibc = true

// CRunner executes operations on C streams.
type CRunner struct {
	Path string
	h    []*C.FILE
	it   []bool
	buf  []byte
}

func (r *CRunner) CloseAll() {
	for i, f := range r.h {
		if f != nil {
			C.x_close(f)
			r.h[i] = nil
		}
	}
}

func cptr(b []byte) *C.char {
	if len(b) == 0 {
		return (*C.char)(unsafe.Pointer(&[]byte{0}[0]))
	}
	return (*C.char)(unsafe.Pointer(&b[0]))
}

func (r *CRunner) readLine(f *C.FILE, bound int) (Val, bool, bool) {
	if len(r.buf) < bound+1 {
		r.buf = make([]byte, bound+1+4096)
	}
	buf := r.buf
	var nl, e C.int
	n := int(C.x_readline(f, cptr(buf), C.long(len(buf)), &nl, &e))
	if n > len(buf) {
		n = len(buf)
	}
	if nl == 0 && n == 0 {
		return Val{K: VNil}, false, e != 0
	}
	return Val{K: VStr, S: append([]byte(nil), buf[:n]...)}, true, e != 0
}

// Do runs one operation; bound is an upper bound of the file size (for buffers).  Operations on closed handles are
// undefined behaviour in C and must not be passed in.  The result mirrors what liolib.c would hand to Lua.
func (r *CRunner) Do(op *Op, bound int) (vals []Val, err error) {
	failure := []Val{{K: VNil}, {K: VStr, S: []byte("error")}}
	switch op.K {
	case "open":
		mode := op.OpenMode()
		cp, cm := C.CString(r.Path), C.CString(mode)
		f := C.x_open(cp, cm)
		C.free(unsafe.Pointer(cp))
		C.free(unsafe.Pointer(cm))
		r.h = append(r.h, f)
		r.it = append(r.it, false)
		if f == nil {
			return failure, nil
		}
		return []Val{{K: VHandle}}, nil
	case "iolines":
		cp, cm := C.CString(r.Path), C.CString("r")
		f := C.x_open(cp, cm)
		C.free(unsafe.Pointer(cp))
		C.free(unsafe.Pointer(cm))
		if f == nil {
			return nil, fmt.Errorf("fopen failed")
		}
		for {
			v, ok, _ := r.readLine(f, bound)
			if !ok {
				break
			}
			vals = append(vals, v)
		}
		C.x_close(f)
		return vals, nil
	}
	if op.H < 0 || op.H >= len(r.h) || r.h[op.H] == nil {
		return nil, fmt.Errorf("no C stream in slot %d", op.H)
	}
	f := r.h[op.H]
	switch op.K {
	case "write":
		ok := true
		for _, a := range op.W {
			var p []byte
			if a.Num != nil {
				s, _ := NumText(*a.Num)
				p = []byte(s)
			} else {
				p = SegBytes(a.S)
			}
			if C.x_write(f, cptr(p), C.size_t(len(p))) == 0 {
				ok = false
			}
		}
		if !ok {
			return failure, nil
		}
		return []Val{{K: VTrue}}, nil
	case "read":
		fm := op.R
		if len(fm) == 0 {
			fm = []RFmt{{F: "*l"}}
		}
		C.x_clearerr(f)
		success := true
		anyErr := false
		for _, x := range fm {
			if !success {
				break
			}
			var e C.int
			switch {
			case x.N != nil && *x.N == 0:
				success = C.x_testeof(f, &e) != 0
				vals = append(vals, Val{K: VStr, S: []byte{}})
			case x.N != nil:
				n := *x.N
				if n > bound+1 {
					n = bound + 1
				}
				buf := make([]byte, n+1)
				got := int(C.x_readn(f, cptr(buf), C.size_t(n), &e))
				success = got > 0
				vals = append(vals, Val{K: VStr, S: buf[:got]})
			case x.F == "*l":
				var v Val
				var ee bool
				v, success, ee = r.readLine(f, bound)
				if ee {
					e = 1
				}
				vals = append(vals, v)
			case x.F == "*a":
				buf := make([]byte, bound+2)
				got := int(C.x_readn(f, cptr(buf), C.size_t(bound+1), &e))
				vals = append(vals, Val{K: VStr, S: buf[:got]})
			case x.F == "*n":
				var d C.double
				if C.x_readnum(f, &d, &e) == 1 {
					vals = append(vals, Val{K: VNum, N: float64(d)})
				} else {
					vals = append(vals, Val{K: VNil})
					success = false
				}
			}
			if e != 0 {
				anyErr = true
			}
		}
		if anyErr {
			return failure, nil
		}
		if !success {
			vals[len(vals)-1] = Val{K: VNil}
		}
		return vals, nil
	case "lines":
		r.it[op.H] = true
		return []Val{{K: VFunc}}, nil
	case "next":
		v, _, _ := r.readLine(f, bound)
		return []Val{v}, nil
	case "forlines":
		for len(vals) < op.Max {
			v, ok, _ := r.readLine(f, bound)
			if !ok {
				break
			}
			vals = append(vals, v)
		}
		return vals, nil
	case "seek":
		wh := map[string]int{"": 1, "set": 0, "cur": 1, "end": 2}[op.Wh]
		var off int64
		if op.Off != nil {
			off = *op.Off
		}
		p := int64(C.x_seek(f, C.int(wh), C.long(off)))
		if p < 0 {
			return failure, nil
		}
		return []Val{{K: VNum, N: float64(p)}}, nil
	case "flush":
		if C.x_flush(f) == 0 {
			return failure, nil
		}
		return []Val{{K: VTrue}}, nil
	case "setvbuf":
		sz := int(C.x_bufsiz())
		if op.Size != nil {
			sz = *op.Size
		}
		full := 0
		if op.Buf == "full" {
			full = 1
		}
		if C.x_setvbuf(f, C.int(full), C.size_t(sz)) == 0 {
			return failure, nil
		}
		return []Val{{K: VTrue}}, nil
	case "close":
		ok := C.x_close(f) != 0
		r.h[op.H] = nil
		if !ok {
			return failure, nil
		}
		return []Val{{K: VTrue}}, nil
	}
	return nil, fmt.Errorf("unknown op %q", op.K)
}
