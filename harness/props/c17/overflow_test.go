package c17

// The position of a registry overflow raised while the frame of a called function is laid out: the statement being
// executed is the call (in the caller), and that is the line the message and level 2 of an xpcall handler name.

import (
	"fmt"
	"strings"
	"testing"

	lua "github.com/yuin/gopher-lua"

	"verif/e1"
	"verif/vf"
)

type OverflowCase struct {
	Locals  int `json:"locals_of_the_callee"`
	Shift   int `json:"blank_lines_in_front"`
	RegSize int `json:"registry_size"`
}

var chkOverflowPos = vf.Register("overflow_position", func(k *vf.C, c *OverflowCase) error {
	var names []string
	for i := 0; i < c.Locals; i++ {
		names = append(names, fmt.Sprintf("l%d", i))
	}
	src := strings.Repeat("\n", c.Shift) + "local function big(n)\n  local " + strings.Join(names, ", ") + " = 1\n  local r = big(n + 1)\n  return r\nend\n" +
		"local ok1, e1 = pcall(big, 1)\n" +
		"local ok2, e2 = xpcall(function() return big(1) end, function(m) return tostring(debug.getinfo(2, 'l').currentline) .. '|' .. tostring(m) end)\n" +
		"return ok1, e1, ok2, e2\n"
	callLine := c.Shift + 3
	L := lua.NewState(lua.Options{RegistrySize: c.RegSize})
	defer L.Close()
	if err := L.DoString(src); err != nil {
		return fmt.Errorf("the chunk failed: %v", err)
	}
	e1, e2 := L.Get(-3).String(), L.Get(-1).String()
	want := fmt.Sprintf("<string>:%d: registry overflow", callLine)
	if L.Get(-4) != lua.LFalse || e1 != want {
		return fmt.Errorf("pcall of a recursion that exhausts the registry in a call on line %d gives %v %q, expected false %q", callLine, L.Get(-4), e1, want)
	}
	if L.Get(-2) != lua.LFalse || e2 != fmt.Sprintf("%d|%s", callLine, want) {
		return fmt.Errorf("xpcall: the handler sees line|message %q, expected %q", e2, fmt.Sprintf("%d|%s", callLine, want))
	}
	k.Nontrivial(vf.Hash(fmt.Sprint(*c)))
	if c.Shift == 0 {
		k.Sample("overflow", 1, c)
	}
	return nil
})

func TestOverflowPosition(t *testing.T) {
	for _, locals := range []int{100, 120, 150, 190} {
		for _, shift := range []int{0, 1, 2, 7} {
			for _, rs := range []int{2000, 5120, 8000} {
				chkOverflowPos.Run(t, &OverflowCase{Locals: locals, Shift: shift, RegSize: rs})
			}
		}
	}
	chkOverflowPos.SetExhaustive(true)
}

// The line of an error injected at an instruction boundary (cancellation): while a loop is running it is a line of that
// loop or of the function the loop calls - never of the statements in front of the loop.

type InjectLineCase struct {
	Poll int64  `json:"poll"`
	Loop string `json:"loop"`
}

var injectLoops = map[string]struct {
	src string
	ok  map[int]bool
}{
	"calling": {"local n = 0\nlocal function f(x)\n  return x + 1\nend\n\nwhile true do\n  n = f(n)\n  n = n - 1\nend\n", map[int]bool{3: true, 6: true, 7: true, 8: true, 9: true}},
	"empty":   {"local n = 0\nn = n + 1\n\nwhile true do\nend\n", map[int]bool{4: true, 5: true}},
	"repeat":  {"local n = 0\nn = n + 1\n\nrepeat\n  n = n + 1\nuntil false\n", map[int]bool{4: true, 5: true, 6: true}},
	"goto":    {"local n = 0\nn = n + 1\n\n::top::\nn = n + 1\ngoto top\n", map[int]bool{4: true, 5: true, 6: true}},
}

var chkInjectLine = vf.Register("line_of_an_injected_error", func(k *vf.C, c *InjectLineCase) error {
	lp := injectLoops[c.Loop]
	ctx := e1.NewOneShotCtx(c.Poll)
	g := e1.RunGopher(lp.src, &e1.GOpts{Ctx: ctx})
	if g.Panic != "" {
		return fmt.Errorf("loop %q, error injected at dispatch %d: a Go panic escaped: %s", c.Loop, c.Poll, g.Panic)
	}
	if !g.Failed || !ctx.Fired {
		return fmt.Errorf("loop %q, error injected at dispatch %d: the chunk did not fail", c.Loop, c.Poll)
	}
	var line int
	if _, err := fmt.Sscanf(g.ErrText, "<string>:%d:", &line); err != nil || !lp.ok[line] {
		return fmt.Errorf("loop %q, error injected at dispatch %d (the loop has been running for a while): reported as %q", c.Loop, c.Poll, firstLineOf(g.ErrText))
	}
	k.Class("loop:" + c.Loop)
	k.Nontrivial(vf.Hash(fmt.Sprint(*c)))
	if c.Poll == 20 {
		k.Sample(c.Loop, 1, map[string]any{"case": c, "src": lp.src, "error": firstLineOf(g.ErrText)})
	}
	return nil
})

func firstLineOf(s string) string {
	if i := strings.IndexByte(s, '\n'); i >= 0 {
		return s[:i]
	}
	return s
}

func TestInjectedErrorLine(t *testing.T) {
	for name := range injectLoops {
		for p := int64(13); p <= 160; p++ {
			chkInjectLine.Run(t, &InjectLineCase{Poll: p, Loop: name})
		}
	}
	chkInjectLine.SetExhaustive(true)
}
