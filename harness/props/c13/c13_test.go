// Package c13: concurrent states never interfere; channels deliver each value once, in order.
// Built with -race: any report of the race detector is a violation (the driver looks for it in the output).
package c13

import (
	"context"
	"fmt"
	"regexp"
	"runtime"
	"sort"
	"strings"
	"sync"
	"sync/atomic"
	"testing"

	lua "github.com/yuin/gopher-lua"
	"github.com/yuin/gopher-lua/parse"
	"pgregory.net/rapid"

	"verif/e1"
	"verif/gl"
	"verif/lgen"
	"verif/vf"
)

func TestMain(m *testing.M)   { vf.Main(m) }
func TestReplay(t *testing.T) { vf.Replay(t) }

var addrRe = regexp.MustCompile(`(table|userdata|function|thread|channel): 0x[0-9a-f]+`)

func traceOf(g *e1.GOutcome) string {
	s := strings.Join(e1.GTraceStrings(g.Trace), "\n")
	s += fmt.Sprintf("\nfailed=%v %s", g.Failed, firstLine(g.ErrText))
	s += "\n" + strings.Join(e1.GTraceStrings([]e1.GEvent{{Kind: "results", Vals: g.Results}}), "\n")
	return addrRe.ReplaceAllString(s, "$1: ADDR")
}

func firstLine(s string) string {
	if i := strings.IndexByte(s, '\n'); i >= 0 {
		return s[:i]
	}
	return s
}

func clip(s string, n int) string {
	if len(s) > n {
		return s[:n] + "..."
	}
	return s
}

func snapshot(p *lua.FunctionProto) string {
	var b strings.Builder
	var walk func(p *lua.FunctionProto)
	walk = func(p *lua.FunctionProto) {
		b.WriteString(gl.DumpProto(p, true))
		fmt.Fprintf(&b, "strconsts %q\n", lua.VerifStringConstants(p))
		for _, s := range p.FunctionPrototypes {
			walk(s)
		}
	}
	walk(p)
	return b.String()
}

// ---------------------------------------------------------------------------------------------
// (1) many states, one shared prototype, while other goroutines create, compile, match and close

type SharedCase struct {
	Src      string   `json:"src"`
	Profile  string   `json:"profile"`
	States   int      `json:"states"`
	Repeats  int      `json:"repeats"`
	Procs    int      `json:"gomaxprocs"`
	Yields   [][]bool `json:"yield_patterns"` // per state: Gosched before the i-th emit (cyclic)
	Noise    int      `json:"noise_goroutines"`
	NoiseSrc string   `json:"noise_src"`
	MinStack bool     `json:"minimize_stack_memory"`
}

var chkShared = vf.Register("shared_proto", func(k *vf.C, c *SharedCase) error {
	// the reference bounds the program (a diverging run cannot hang the check) and filters Unspecified programs
	r := e1.RunRef(c.Src, nil)
	if r.ParseErr != nil || r.Unspecified != "" {
		k.Discard("reference: unspecified or over budget")
		return nil
	}
	chunk, err := parse.Parse(strings.NewReader(c.Src), "<string>")
	if err != nil {
		k.Discard("not accepted")
		return nil
	}
	proto, err := lua.Compile(chunk, "<string>")
	if err != nil {
		k.Discard("not accepted")
		return nil
	}
	opts := lua.Options{MinimizeStackMemory: c.MinStack}
	before := snapshot(proto) // before anything has run it
	budget := e1.BudgetFor(r)
	seq := e1.RunGopher(c.Src, &e1.GOpts{Proto: proto, Budget: budget.Budget, MaxEvents: budget.MaxEvents, Options: opts})
	if seq.Panic != "" || seq.Overrun != "" {
		k.Discard("sequential run does not finish cleanly (subject of C01/C05)")
		return nil
	}
	want := traceOf(seq)
	old := runtime.GOMAXPROCS(c.Procs)
	defer runtime.GOMAXPROCS(old)
	var wg sync.WaitGroup
	errs := make([]string, c.States)
	stop := make(chan struct{})
	var nwg sync.WaitGroup
	// the background scripts take a few thousand instructions each; one that is still running after five million has been
	// derailed (found by count, not by clock)
	var noiseErr atomic.Value
	noise := func(src string, o lua.Options) {
		// (every other background state also has a memory watchdog, whose goroutine lives until the state is closed)
		var setup func(L *lua.LState, out *e1.GOutcome)
		if len(src)%2 == 0 {
			setup = func(L *lua.LState, out *e1.GOutcome) { L.SetMx(1 << 20) } // (megabytes: never reached; the watchdog only has to exist)
		}
		g := e1.RunGopher(src, &e1.GOpts{Budget: 5_000_000, Options: o, Setup: setup})
		if g.Overrun != "" {
			noiseErr.Store("a background state running a short terminating script was still running after 5000000 instructions: " + clip(src, 80))
		} else if g.Panic != "" {
			noiseErr.Store("a background state let a Go panic escape: " + g.Panic)
		}
	}
	// noise: states created and closed, other sources compiled, patterns matched, deep recursion on auto-growing stacks
	for n := 0; n < c.Noise; n++ {
		nwg.Add(1)
		go func(n int) {
			defer nwg.Done()
			for i := 0; ; i++ {
				select {
				case <-stop:
					return
				default:
				}
				switch (n + i) % 4 {
				case 0:
					noise(`local t = {} for i = 1, 20 do t[i] = tostring(i) end return table.concat(t, ",")`, lua.Options{})
				case 1:
					if ch, err := parse.Parse(strings.NewReader(c.NoiseSrc), "<noise>"); err == nil {
						lua.Compile(ch, "<noise>")
					}
				case 2:
					noise(`local s = string.rep("ab1 ", 30) local n = 0 for w in s:gmatch("%a+%d") do n = n + #w end return (s:gsub("(%a)(%d)", "%2%1")), s:find("b1 a", 1, true), n`, lua.Options{})
				default:
					noise(`local function r(n) if n == 0 then return 0 end return 1 + r(n - 1) end return r(100), pcall(r, 500)`, lua.Options{MinimizeStackMemory: true, CallStackSize: 120})
				}
				runtime.Gosched()
			}
		}(n)
	}
	for s := 0; s < c.States; s++ {
		wg.Add(1)
		go func(s int) {
			defer wg.Done()
			for rep := 0; rep < c.Repeats; rep++ {
				emits := 0
				pat := c.Yields[s%len(c.Yields)]
				g := e1.RunGopher(c.Src, &e1.GOpts{Proto: proto, Budget: budget.Budget * 4, MaxEvents: budget.MaxEvents, Options: opts, OnEmit: func() {
					if len(pat) > 0 && pat[emits%len(pat)] {
						runtime.Gosched()
					}
					emits++
				}})
				if g.Panic != "" {
					errs[s] = "a Go panic escaped: " + g.Panic
					return
				}
				if got := traceOf(g); got != want {
					errs[s] = fmt.Sprintf("state %d, repetition %d computed something else than the sequential run: first difference %s", s, rep, firstDiff(want, got))
					return
				}
			}
		}(s)
	}
	wg.Wait()
	close(stop)
	nwg.Wait()
	for _, e := range errs {
		if e != "" {
			return fmt.Errorf("%s", e)
		}
	}
	if e, _ := noiseErr.Load().(string); e != "" {
		return fmt.Errorf("%s", e)
	}
	if after := snapshot(proto); after != before {
		return fmt.Errorf("executing the shared prototype modified it: first difference %s", firstDiff(before, after))
	}
	k.EvalN(c.States*c.Repeats - 1)
	k.Class(fmt.Sprintf("gomaxprocs:%d", c.Procs))
	k.Class("profile:" + c.Profile)
	if c.States >= 4 && c.Noise >= 2 && len(seq.Trace) >= 3 {
		k.Nontrivial(vf.Hash(c.Src, fmt.Sprint(c.States, c.Procs, c.Noise)))
		k.Sample(c.Profile, 1, map[string]any{"src": clip(c.Src, 900), "states": c.States, "repeats": c.Repeats, "gomaxprocs": c.Procs, "noise_goroutines": c.Noise})
	}
	return nil
})

func firstDiff(a, b string) string {
	x, y := strings.Split(a, "\n"), strings.Split(b, "\n")
	for i := 0; i < len(x) && i < len(y); i++ {
		if x[i] != y[i] {
			return fmt.Sprintf("at line %d: %q vs %q", i, clip(x[i], 120), clip(y[i], 120))
		}
	}
	return fmt.Sprintf("lengths %d vs %d", len(x), len(y))
}

func init() { chkShared.Journal = true; chkChan.Journal = true }

const errorPathsPrologue = `do
  local ft = {function(n) error("e" .. n) end, function(n) local z = nil return z.x end, function(n) return n end}
  local obj = {m = function(self, n) error({n}) end}
  for i = 1, #ft do emit(pcall(function() local r = ft[i](i) return r end)) end
  emit(pcall(function() return ft[1](7) end))
  emit(pcall(function() return (ft[2])(8) end))
  emit(select(1, pcall(function() obj:m(9) end)))
  emit(pcall(function() local name = "m" return obj[name](obj, 10) end) )
  local co = coroutine.wrap(function() ft[2](11) end)
  emit(pcall(co))
end
`

func TestSharedProto(t *testing.T) {
	profiles := []*lgen.Profile{lgen.Core(), lgen.Closures(), lgen.Coroutines(), lgen.Calls(), lgen.Meta()}
	vf.Rapid(t, func(rt *rapid.T) {
		p := profiles[rapid.IntRange(0, len(profiles)-1).Draw(rt, "profile")]
		g := lgen.New(rt, p)
		src := lgen.Print(g.Program(), &lgen.Layout{})
		if rapid.Bool().Draw(rt, "errorpaths") {
			// error paths as well: every caught error builds a traceback from the frames' debug information, also for frames
			// entered through call sites without a static name (computed positions, tail calls, methods)
			src = errorPathsPrologue + src
		}
		g2 := lgen.New(rt, lgen.Core())
		noiseSrc := lgen.Print(g2.Program(), &lgen.Layout{})
		c := &SharedCase{Src: src, Profile: p.Name, NoiseSrc: noiseSrc,
			States:   rapid.SampledFrom([]int{2, 4, 4, 8, 16}).Draw(rt, "states"),
			Repeats:  rapid.IntRange(1, 3).Draw(rt, "repeats"),
			Procs:    rapid.SampledFrom([]int{1, 2, 4, 16}).Draw(rt, "procs"),
			Noise:    rapid.IntRange(0, 4).Draw(rt, "noise"),
			MinStack: rapid.Bool().Draw(rt, "minstack"),
		}
		for i := 0; i < 3; i++ {
			c.Yields = append(c.Yields, rapid.SliceOfN(rapid.Bool(), 1, 7).Draw(rt, "yields"))
		}
		chkShared.Run(rt, c)
	})
}

// ---------------------------------------------------------------------------------------------
// (2) channels: producers and consumers in their own states

type ChanCase struct {
	Producers int  `json:"producers"`
	Consumers int  `json:"consumers"`
	Buffer    int  `json:"buffer"`
	PerSender int  `json:"messages_per_sender"`
	Select    bool `json:"consumers_use_select"`
	Procs     int  `json:"gomaxprocs"`
	LuaClose  bool `json:"closed_from_lua"`
	// the states of the producers / consumers have a (never cancelled) context attached: the channel operations
	// then take their context-watching paths
	ProducerCtx bool `json:"producers_have_context"`
	ConsumerCtx bool `json:"consumers_have_context"`
}

const producerSrc = `
local id, n = ...
for i = 1, n do
  if i % 3 == 0 then
    -- a select with one send case
    channel.select({"<-|", ch, id * 100000 + i})
  else
    ch:send(id * 100000 + i)
  end
end
done:send(id)
`

const consumerSrc = `
while true do
  local ok, v = ch:receive()
  if not ok then
    -- closed and drained: receive reports closure, again and again
    local ok2, v2 = ch:receive()
    record(-1, ok, v, ok2, v2)
    break
  end
  record(v)
end
`

const consumerSelectSrc = `
local closed = false
local sink = channel.make(3)
local sunk = 0
while not closed do
  -- handlers see what select returns: receive handlers (ok, value), send handlers (value), default handlers nothing
  local hidx, hok, hv, hn
  local idx, v, ok = channel.select(
    {"<-|", sink, sunk + 1, function(...) hidx, hn, hv = 1, select('#', ...), ... end},
    {"|<-", ch, function(...) hidx, hn, hok, hv = 2, select('#', ...), ... end},
    {"|<-", ch2, function(...) hidx, hn, hok, hv = 3, select('#', ...), ... end},
    {"default", function(...) hidx, hn = 4, select('#', ...) end})
  if hidx ~= idx then error("select returned case " .. tostring(idx) .. " but ran the handler of case " .. tostring(hidx)) end
  if idx == 4 then
    if hn ~= 0 then error("the default handler got " .. hn .. " arguments") end
    yield()
  elseif idx == 1 then
    sunk = sunk + 1
    if hn ~= 1 or hv ~= sunk then error("the send handler got " .. tostring(hn) .. " arguments, first " .. tostring(hv) .. ", sent " .. sunk) end
    if sunk % 3 == 0 then for i = 1, 3 do local ok2, got = sink:receive() if got ~= sunk - 3 + i then error("sink order") end end end
  else
    if hn ~= 2 or hok ~= ok or hv ~= v then error("the receive handler got (" .. tostring(hok) .. ", " .. tostring(hv) .. "), select returned (" .. tostring(ok) .. ", " .. tostring(v) .. ")") end
    if not ok then
      if idx == 2 then closed = true end
      if idx == 3 then error("ch2 is never closed") end
    else
      record(v, idx - 1)
    end
  end
end
`

var chkChan = vf.Register("channel_delivery", func(k *vf.C, c *ChanCase) error {
	old := runtime.GOMAXPROCS(c.Procs)
	defer runtime.GOMAXPROCS(old)
	ch := make(chan lua.LValue, c.Buffer)
	ch2 := make(chan lua.LValue, 1) // second channel of the select consumers: tagged values (negative numbers)
	done := make(chan lua.LValue, c.Producers)
	type rec struct {
		v, idx float64
		closed []lua.LValue
	}
	got := make([][]rec, c.Consumers)
	errs := make(chan string, c.Producers+c.Consumers+2)
	live, cancelLive := context.WithCancel(context.Background())
	defer cancelLive()
	var pwg, cwg sync.WaitGroup
	for p := 1; p <= c.Producers; p++ {
		pwg.Add(1)
		go func(p int) {
			defer pwg.Done()
			L := lua.NewState()
			defer L.Close()
			if c.ProducerCtx {
				L.SetContext(live)
			}
			L.SetGlobal("ch", lua.LChannel(ch))
			L.SetGlobal("done", lua.LChannel(done))
			fn, err := L.LoadString(producerSrc)
			if err != nil {
				errs <- err.Error()
				return
			}
			L.Push(fn)
			L.Push(lua.LNumber(p))
			L.Push(lua.LNumber(c.PerSender))
			if err := L.PCall(2, 0, nil); err != nil {
				errs <- "producer: " + firstLine(err.Error())
			}
		}(p)
	}
	for q := 0; q < c.Consumers; q++ {
		cwg.Add(1)
		go func(q int) {
			defer cwg.Done()
			L := lua.NewState()
			defer L.Close()
			if c.ConsumerCtx {
				L.SetContext(live)
			}
			L.SetGlobal("ch", lua.LChannel(ch))
			L.SetGlobal("ch2", lua.LChannel(ch2))
			L.SetGlobal("yield", L.NewFunction(func(L *lua.LState) int { runtime.Gosched(); return 0 }))
			L.SetGlobal("record", L.NewFunction(func(L *lua.LState) int {
				r := rec{v: float64(L.CheckNumber(1))}
				if r.v != -1 {
					r.idx = float64(L.OptNumber(2, 0))
				}
				if r.v == -1 {
					for i := 2; i <= L.GetTop(); i++ {
						r.closed = append(r.closed, L.Get(i))
					}
				}
				got[q] = append(got[q], r)
				return 0
			}))
			src := consumerSrc
			if c.Select {
				src = consumerSelectSrc
			}
			if err := L.DoString(src); err != nil {
				errs <- "consumer: " + firstLine(err.Error())
			}
		}(q)
	}
	// feed the second channel of select consumers with tagged values
	feedStop := make(chan struct{})
	var fwg sync.WaitGroup
	fed := 0
	if c.Select {
		fwg.Add(1)
		go func() {
			defer fwg.Done()
			for i := 1; ; i++ {
				select {
				case ch2 <- lua.LNumber(-1000 - i):
					fed++
				case <-feedStop:
					return
				}
			}
		}()
	}
	// the coordinator closes the channel when every producer has reported
	for p := 0; p < c.Producers; p++ {
		<-done
	}
	pwg.Wait()
	if c.LuaClose {
		L := lua.NewState()
		L.SetGlobal("ch", lua.LChannel(ch))
		if err := L.DoString(`ch:close()`); err != nil {
			errs <- "close: " + err.Error()
		}
		L.Close()
	} else {
		close(ch)
	}
	cwg.Wait()
	close(feedStop)
	fwg.Wait()
	select {
	case e := <-errs:
		return fmt.Errorf("%s", e)
	default:
	}
	// received multiset == sent multiset; per consumer, each sender's values in increasing order
	var all []float64
	from2 := 0
	for q, rs := range got {
		last := map[int]float64{}
		for _, r := range rs {
			if r.v == -1 {
				if len(r.closed) != 4 || r.closed[0] != lua.LFalse || r.closed[1] != lua.LNil || r.closed[2] != lua.LFalse || r.closed[3] != lua.LNil {
					return fmt.Errorf("consumer %d: receive on the closed, drained channel returned %v (expected false,nil twice)", q, r.closed)
				}
				continue
			}
			if r.v < 0 {
				// a value of the second channel: select must have reported case 2
				from2++
				if r.idx != 2 {
					return fmt.Errorf("consumer %d: select reported case %v for value %v, which was sent on the second channel", q, r.idx, r.v)
				}
				continue
			}
			if c.Select && r.idx != 1 {
				return fmt.Errorf("consumer %d: select reported case %v for value %v, which was sent on the first channel", q, r.idx, r.v)
			}
			sender := int(r.v) / 100000
			if r.v <= last[sender] {
				return fmt.Errorf("consumer %d received %v after %v from the same sender", q, r.v, last[sender])
			}
			last[sender] = r.v
			all = append(all, r.v)
		}
	}
	sort.Float64s(all)
	want := c.Producers * c.PerSender
	if len(all) != want {
		return fmt.Errorf("%d values were sent, %d received", want, len(all))
	}
	i := 0
	for p := 1; p <= c.Producers; p++ {
		for s := 1; s <= c.PerSender; s++ {
			if all[i] != float64(p*100000+s) {
				return fmt.Errorf("value %d of sender %d was received %s", s, p, map[bool]string{true: "twice or not at all", false: "wrongly"}[true])
			}
			i++
		}
	}
	if c.Select && from2 > fed {
		return fmt.Errorf("%d values were received from the second channel, %d were sent", from2, fed)
	}
	k.Class(fmt.Sprintf("buffer:%d", c.Buffer))
	if c.Select {
		k.Class("select_consumers")
	}
	if c.ProducerCtx {
		k.Class("producers_with_context")
	}
	if c.ConsumerCtx {
		k.Class("consumers_with_context")
	}
	if c.Producers >= 2 && c.Consumers >= 2 && want >= 20 {
		k.Nontrivial(vf.Hash(fmt.Sprint(*c)))
		k.Sample("channels", 2, c)
	}
	return nil
})

func TestChannelDelivery(t *testing.T) {
	vf.Rapid(t, func(rt *rapid.T) {
		c := &ChanCase{
			Producers:   rapid.IntRange(1, 4).Draw(rt, "producers"),
			Consumers:   rapid.IntRange(1, 4).Draw(rt, "consumers"),
			Buffer:      rapid.SampledFrom([]int{0, 1, 8}).Draw(rt, "buffer"),
			PerSender:   rapid.IntRange(1, 40).Draw(rt, "n"),
			Select:      rapid.Bool().Draw(rt, "select"),
			Procs:       rapid.SampledFrom([]int{1, 2, 4, 16}).Draw(rt, "procs"),
			LuaClose:    rapid.Bool().Draw(rt, "luaclose"),
			ProducerCtx: rapid.Bool().Draw(rt, "producerctx"),
			ConsumerCtx: rapid.Bool().Draw(rt, "consumerctx"),
		}
		chkChan.Run(rt, c)
	})
}

// ---------------------------------------------------------------------------------------------
// (3) payloads that must be refused

type RefuseCase struct {
	Payload string `json:"payload"`
	Via     string `json:"via"`
}

var payloads = map[string]struct {
	expr    string
	refused bool
}{
	"number": {"42", false}, "string": {"'s'", false}, "boolean": {"true", false}, "nil": {"nil", false},
	"plain_table": {"{1, 2, x = 3}", false}, "nested_plain_table": {"{{1}, {y = {2}}}", false},
	"function": {"function() end", true}, "host_function": {"print", true}, "userdata": {"newud()", true},
	"thread": {"coroutine.create(function() end)", true}, "table_with_metatable": {"setmetatable({}, {})", true},
	"table_with_protected_metatable": {"setmetatable({}, {__metatable = false})", true},
	"channel":                        {"channel.make(1)", false},
}

var chkRefuse = vf.Register("channel_refusal", func(k *vf.C, c *RefuseCase) error {
	p := payloads[c.Payload]
	L := lua.NewState()
	defer L.Close()
	L.SetGlobal("newud", L.NewFunction(func(L *lua.LState) int { L.Push(L.NewUserData()); return 1 }))
	ch := make(chan lua.LValue, 4)
	L.SetGlobal("ch", lua.LChannel(ch))
	var src string
	if c.Via == "send" {
		src = "local v = " + p.expr + "\nreturn pcall(ch.send, ch, v)"
	} else {
		src = "local v = " + p.expr + "\nreturn pcall(channel.select, {'<-|', ch, v})"
	}
	if err := L.DoString(src); err != nil {
		return fmt.Errorf("%s via %s: %v", c.Payload, c.Via, err)
	}
	ok := L.Get(1) == lua.LTrue
	if p.refused && (ok || len(ch) != 0) {
		return fmt.Errorf("%s via %s was accepted (queued %d) although functions, userdata, threads and tables with metatables must be refused", c.Payload, c.Via, len(ch))
	}
	if !p.refused && (!ok || len(ch) != 1) {
		return fmt.Errorf("%s via %s was refused or not queued: %v", c.Payload, c.Via, L.Get(2))
	}
	k.Class("payload:" + c.Payload)
	k.Nontrivial(vf.Hash(c.Payload, c.Via))
	return nil
})

func TestChannelRefusal(t *testing.T) {
	var names []string
	for n := range payloads {
		names = append(names, n)
	}
	sort.Strings(names)
	for _, n := range names {
		for _, via := range []string{"send", "select"} {
			chkRefuse.Run(t, &RefuseCase{Payload: n, Via: via})
		}
	}
	chkRefuse.SetExhaustive(true)
}
