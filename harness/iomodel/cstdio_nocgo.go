//go:build !cgo

package iomodel

import "errors"

// HaveLibc reports whether this build can run histories on the C library.
const HaveLibc = false

// CRunner is a stub when cgo is not available; the model-vs-libc self-check is then skipped.
type CRunner struct{ Path string }

func (r *CRunner) CloseAll() {}

func (r *CRunner) Do(op *Op, bound int) ([]Val, error) {
	return nil, errors.New("built without cgo: no C library to compare with")
}
