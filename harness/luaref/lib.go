package luaref

import (
	"math"
	"sort"
	"strings"
)

// TraceEvent is one observable action: a call of a host function with its argument values.
type TraceEvent struct {
	Kind string
	Vals []Value
}

func (in *Interp) reg(t *Table, name string, fn func(in *Interp, a []Value) []Value) *Builtin {
	b := &Builtin{Name: name, Fn: fn}
	t.Set(name, b)
	return b
}

func arg(a []Value, i int) Value {
	if i < len(a) {
		return a[i]
	}
	return nil
}

func (in *Interp) argErr(n int, fname, what string) {
	in.fault("bad argument to '" + fname + "' (" + what + ")")
}

func (in *Interp) checkTable(a []Value, i int, fname string) *Table {
	t, ok := arg(a, i).(*Table)
	if !ok {
		in.argErr(i+1, fname, "table expected")
	}
	return t
}

// checkInt follows luaL_checkinteger: numbers and numeric strings, truncated toward zero like a C cast.
func (in *Interp) checkNum(a []Value, i int, fname string) float64 {
	v := deline(arg(a, i))
	if s, ok := v.(string); ok {
		_, st := StrToNum(s)
		if st != numNo {
			// 5.1 library functions coerce numeric strings, gopher-lua's CheckInt/CheckNumber do not: no listed property
			// speaks about it
			unspecified("numeric string where a library function expects a number")
		}
	}
	f, ok := v.(float64)
	if !ok {
		if _, o := v.(*OStr); o {
			unspecified("opaque string as a library argument")
		}
		in.argErr(i+1, fname, "number expected")
	}
	return f
}

func (in *Interp) checkInt(a []Value, i int, fname string) int {
	f := in.checkNum(a, i, fname)
	if f != f || math.Abs(f) > 1e15 {
		unspecified("integer argument out of the modelled range")
	}
	if f != math.Trunc(f) {
		unspecified("non-integral number where an integer is expected") // C cast vs. Go conversion: not fixed by a property
	}
	return int(f)
}

func (in *Interp) optInt(a []Value, i int, fname string, def int) int {
	if arg(a, i) == nil {
		return def
	}
	return in.checkInt(a, i, fname)
}

func (in *Interp) checkStr(a []Value, i int, fname string) string {
	switch x := deline(arg(a, i)).(type) {
	case string:
		return x
	case float64:
		s, ok := NumToStr(x)
		if !ok {
			unspecified("number->string conversion whose text is not fixed")
		}
		return s
	case *OStr:
		unspecified("opaque string as a library argument")
	}
	in.argErr(i+1, fname, "string expected")
	return ""
}

func (in *Interp) tostring(v Value) Value {
	v = deline(v)
	if h := in.metaField(v, "__tostring"); h != nil {
		if _, isStr := v.(string); !isStr {
			if _, isO := v.(*OStr); !isO {
				return in.callMeta("__tostring", h, v)
			}
		}
	}
	switch x := v.(type) {
	case nil:
		return "nil"
	case bool:
		if x {
			return "true"
		}
		return "false"
	case float64:
		s, ok := NumToStr(x)
		if !ok {
			unspecified("number->string conversion whose text is not fixed")
		}
		return s
	case string, *OStr:
		return x
	}
	return &OStr{Kind: "addr", Prefix: TypeName(v) + ": "}
}

func openBase(in *Interp) {
	G := in.G
	in.reg(G, "emit", func(in *Interp, a []Value) []Value {
		in.Trace = append(in.Trace, TraceEvent{"emit", append([]Value(nil), a...)})
		return nil
	})
	in.reg(G, "emitline", func(in *Interp, a []Value) []Value {
		in.Trace = append(in.Trace, TraceEvent{"line", append([]Value(nil), a...)})
		return nil
	})
	in.reg(G, "type", func(in *Interp, a []Value) []Value {
		if len(a) == 0 {
			in.argErr(1, "type", "value expected")
		}
		return []Value{TypeName(a[0])}
	})
	in.reg(G, "tostring", func(in *Interp, a []Value) []Value {
		if len(a) == 0 {
			in.argErr(1, "tostring", "value expected")
		}
		return []Value{in.tostring(a[0])}
	})
	in.reg(G, "tonumber", func(in *Interp, a []Value) []Value {
		if len(a) == 0 {
			in.argErr(1, "tonumber", "value expected")
		}
		base := 10
		if arg(a, 1) != nil {
			base = in.checkInt(a, 1, "tonumber")
		}
		if base == 10 {
			switch x := a[0].(type) {
			case float64:
				return []Value{x}
			case string:
				f, st := StrToNum(x)
				if st == numGrey {
					unspecified("tonumber in the grey zone: %q", x)
				}
				if st == numOK {
					return []Value{f}
				}
				return []Value{nil}
			case *OStr:
				unspecified("tonumber of an opaque string")
			}
			return []Value{nil}
		}
		if base < 2 || base > 36 {
			in.argErr(2, "tonumber", "base out of range")
		}
		s := strings.TrimSpace(in.checkStr(a, 0, "tonumber"))
		if s == "" || len(s) > 10 {
			unspecified("tonumber with base on an unusual string")
		}
		v := 0.0
		for i := 0; i < len(s); i++ {
			c := s[i]
			d := -1
			switch {
			case c >= '0' && c <= '9':
				d = int(c - '0')
			case c >= 'a' && c <= 'z':
				d = int(c-'a') + 10
			case c >= 'A' && c <= 'Z':
				d = int(c-'A') + 10
			default:
				unspecified("tonumber with base on an unusual string")
			}
			if d >= base {
				return []Value{nil}
			}
			v = v*float64(base) + float64(d)
		}
		return []Value{v}
	})
	in.reg(G, "rawget", func(in *Interp, a []Value) []Value {
		t := in.checkTable(a, 0, "rawget")
		if _, ok := arg(a, 1).(*OStr); ok {
			unspecified("opaque string used as a table key")
		}
		return []Value{t.Get(arg(a, 1))}
	})
	in.reg(G, "rawset", func(in *Interp, a []Value) []Value {
		t := in.checkTable(a, 0, "rawset")
		k := arg(a, 1)
		if k == nil {
			in.fault("table index is nil")
		}
		if f, ok := k.(float64); ok && f != f {
			in.fault("table index is NaN")
		}
		if _, ok := k.(*OStr); ok {
			unspecified("opaque string used as a table key")
		}
		if len(a) < 3 {
			in.argErr(3, "rawset", "value expected")
		}
		t.Set(k, a[2])
		return []Value{t}
	})
	in.reg(G, "rawequal", func(in *Interp, a []Value) []Value {
		if len(a) < 2 {
			in.argErr(2, "rawequal", "value expected")
		}
		return []Value{rawEqual(a[0], a[1])}
	})
	in.reg(G, "select", func(in *Interp, a []Value) []Value {
		if s, ok := arg(a, 0).(string); ok && s == "#" {
			return []Value{float64(len(a) - 1)}
		}
		n := in.checkInt(a, 0, "select")
		top := len(a)
		if n < 0 {
			n = top + n
		} else if n > top {
			n = top
		}
		if n < 1 {
			in.argErr(1, "select", "index out of range")
		}
		return append([]Value(nil), a[n:]...)
	})
	in.reg(G, "unpack", func(in *Interp, a []Value) []Value {
		t := in.checkTable(a, 0, "unpack")
		i := in.optInt(a, 1, "unpack", 1)
		var j int
		if arg(a, 2) == nil {
			n, unique := t.Border()
			if !unique {
				unspecified("unpack of a table with more than one border")
			}
			j = n
		} else {
			j = in.checkInt(a, 2, "unpack")
		}
		n := j - i + 1
		if n <= 0 {
			return nil
		}
		if n > 200 {
			unspecified("unpack of more values than the modelled range")
		}
		out := make([]Value, 0, n)
		for k := i; k <= j; k++ {
			out = append(out, t.Get(float64(k)))
		}
		return out
	})
	next := in.reg(G, "next", func(in *Interp, a []Value) []Value {
		t := in.checkTable(a, 0, "next")
		k, v, ok := t.Next(arg(a, 1))
		if !ok {
			unspecified("next with a key that is not in the table")
		}
		if k == nil {
			return []Value{nil}
		}
		return []Value{k, v}
	})
	in.reg(G, "pairs", func(in *Interp, a []Value) []Value {
		t := in.checkTable(a, 0, "pairs")
		return []Value{next, t, nil}
	})
	ipairsAux := &Builtin{Name: "ipairs_aux", Fn: func(in *Interp, a []Value) []Value {
		t := in.checkTable(a, 0, "ipairs")
		i := in.checkInt(a, 1, "ipairs") + 1
		v := t.Get(float64(i))
		if v == nil {
			return []Value{nil}
		}
		return []Value{float64(i), v}
	}}
	in.reg(G, "ipairs", func(in *Interp, a []Value) []Value {
		t := in.checkTable(a, 0, "ipairs")
		return []Value{ipairsAux, t, float64(0)}
	})
	in.reg(G, "getmetatable", func(in *Interp, a []Value) []Value {
		if len(a) == 0 {
			in.argErr(1, "getmetatable", "value expected")
		}
		mt := in.metaOf(a[0])
		if mt == nil {
			return []Value{nil}
		}
		if p := mt.Get("__metatable"); p != nil {
			return []Value{p}
		}
		return []Value{mt}
	})
	in.reg(G, "setmetatable", func(in *Interp, a []Value) []Value {
		if _, isT := arg(a, 0).(*Table); !isT && len(a) > 0 {
			unspecified("setmetatable on a value that is not a table")
		}
		t := in.checkTable(a, 0, "setmetatable")
		var mt *Table
		switch x := arg(a, 1).(type) {
		case nil:
			if len(a) < 2 {
				in.argErr(2, "setmetatable", "nil or table expected")
			}
		case *Table:
			mt = x
		default:
			in.argErr(2, "setmetatable", "nil or table expected")
		}
		if t.Meta != nil && t.Meta.Get("__metatable") != nil {
			in.fault("cannot change a protected metatable")
		}
		t.Meta = mt
		return []Value{t}
	})
	in.reg(G, "assert", func(in *Interp, a []Value) []Value {
		if len(a) == 0 {
			in.argErr(1, "assert", "value expected")
		}
		if !truthy(a[0]) {
			in.Stat.Faults++
			in.raise(&OStr{Kind: "err"})
		}
		return a
	})
	in.reg(G, "error", func(in *Interp, a []Value) []Value {
		if len(a) == 0 {
			unspecified("error() without any argument") // 5.1 raises nil, gopher-lua reports a missing argument: not fixed by a property
		}
		v := arg(a, 0)
		level := in.optInt(a, 1, "error", 1)
		_, isStr := v.(string)
		_, isO := v.(*OStr)
		if (isStr || isO) && level > 0 {
			if level > 2 {
				unspecified("error level > 2")
			}
			self := in.frameAt(1)
			if self.viaTail {
				unspecified("error() reached through a tail call")
			}
			fr := in.frameAt(level + 1)
			if fr == nil || fr.cl == nil {
				unspecified("error level names a frame that is not a Lua function")
			}
			for l := 2; l <= level; l++ {
				if f := in.frameAt(l); f == nil || f.cl == nil || f.viaTail {
					unspecified("error level crosses a host function or a tail call")
				}
			}
			if isStr && fr.lo == fr.hi {
				v = in.ChunkName + ":" + itoa(fr.lo) + ": " + v.(string)
			} else if isStr {
				v = &OStr{Kind: "err", HasPos: true, Lo: fr.lo, Hi: fr.hi, Msg: v.(string), MsgKnown: true}
			} else {
				v = &OStr{Kind: "err", HasPos: true, Lo: fr.lo, Hi: fr.hi}
			}
			in.class("error_with_position")
		}
		if _, isNum := v.(float64); isNum && level > 0 {
			in.class("error_number")
		}
		in.Stat.Faults++
		in.raise(v)
		return nil
	})
	in.reg(G, "pcall", func(in *Interp, a []Value) []Value {
		if len(a) == 0 {
			in.argErr(1, "pcall", "value expected")
		}
		ok, res := in.protected(a[0], a[1:], false, nil)
		if ok {
			return append([]Value{true}, res...)
		}
		return []Value{false, first(res)}
	})
	in.reg(G, "xpcall", func(in *Interp, a []Value) []Value {
		if len(a) < 2 {
			in.argErr(2, "xpcall", "value expected")
		}
		switch a[1].(type) {
		case *Closure, *Builtin:
		default:
			unspecified("xpcall with a handler that is not a function")
		}
		ok, res := in.protected(a[0], nil, true, a[1])
		if ok {
			return append([]Value{true}, res...)
		}
		return []Value{false, first(res)}
	})
	in.reg(G, "getfenv", func(in *Interp, a []Value) []Value {
		switch x := arg(a, 0).(type) {
		case *Closure:
			return []Value{x.Env}
		case *Builtin:
			unspecified("getfenv of a host function")
		case nil, float64:
			level := in.optInt(a, 0, "getfenv", 1)
			if level == 0 {
				unspecified("getfenv(0)")
			}
			if level < 0 {
				in.argErr(1, "getfenv", "level must be non-negative")
			}
			fr := in.frameAt(level + 1)
			if fr == nil {
				in.argErr(1, "getfenv", "invalid level")
			}
			if fr.cl == nil || in.tailBelow(level+1) {
				unspecified("getfenv level names a host function or crosses a tail call")
			}
			return []Value{fr.cl.Env}
		default:
			in.argErr(1, "getfenv", "number expected")
		}
		return nil
	})
	in.reg(G, "setfenv", func(in *Interp, a []Value) []Value {
		t, ok := arg(a, 1).(*Table)
		if !ok {
			in.argErr(2, "setfenv", "table expected")
		}
		switch x := arg(a, 0).(type) {
		case *Closure:
			x.Env = t
			return []Value{x}
		case *Builtin:
			unspecified("setfenv of a host function")
		case float64:
			level := in.checkInt(a, 0, "setfenv")
			if level == 0 {
				unspecified("setfenv(0)")
			}
			if level < 0 {
				in.argErr(1, "setfenv", "level must be non-negative")
			}
			fr := in.frameAt(level + 1)
			if fr == nil {
				in.argErr(1, "setfenv", "invalid level")
			}
			if fr.cl == nil || in.tailBelow(level+1) {
				unspecified("setfenv level names a host function or crosses a tail call")
			}
			fr.cl.Env = t
			return []Value{fr.cl}
		default:
			in.argErr(1, "setfenv", "number expected")
		}
		return nil
	})
	openString(in)
	openTable(in)
	openMath(in)
	openCoroutine(in)
	openHost(in)
	openDebug(in)
}

func (in *Interp) tailBelow(level int) bool {
	for l := 1; l < level; l++ {
		if f := in.frameAt(l); f != nil && f.viaTail {
			return true
		}
	}
	return false
}

func itoa(n int) string {
	s, _ := NumToStr(float64(n))
	return s
}

// protected runs fn(args) as pcall/xpcall do.
func (in *Interp) protected(fn Value, args []Value, isX bool, handler Value) (ok bool, res []Value) {
	th := in.th
	nf, np, cb := len(th.frames), len(th.prot), th.cBoundary
	th.prot = append(th.prot, protEntry{isX: isX, handler: handler})
	th.cBoundary++
	defer func() {
		if r := recover(); r != nil {
			e, isLua := r.(*LuaError)
			if !isLua {
				panic(r)
			}
			in.th = th
			th.frames, th.prot, th.cBoundary = th.frames[:nf], th.prot[:np], cb
			in.Stat.Caught++
			ok, res = false, []Value{e.Val}
		}
	}()
	res = in.Call(fn, args)
	th.frames, th.prot, th.cBoundary = th.frames[:nf], th.prot[:np], cb
	return true, res
}

// ---- string

func openString(in *Interp) {
	S := NewTable()
	in.G.Set("string", S)
	in.StringMeta = NewTable()
	in.StringMeta.Set("__index", S)
	in.reg(S, "len", func(in *Interp, a []Value) []Value {
		return []Value{float64(len(in.checkStr(a, 0, "len")))}
	})
	in.reg(S, "sub", func(in *Interp, a []Value) []Value {
		s := in.checkStr(a, 0, "sub")
		l := len(s)
		i := in.optInt(a, 1, "sub", 1)
		j := in.optInt(a, 2, "sub", -1)
		if i < 0 {
			i = l + i + 1
			if i < 0 {
				i = 0
			}
		}
		if j < 0 {
			j = l + j + 1
			if j < 0 {
				j = 0
			}
		}
		if i < 1 {
			i = 1
		}
		if j > l {
			j = l
		}
		if i > j {
			return []Value{""}
		}
		return []Value{s[i-1 : j]}
	})
	in.reg(S, "upper", func(in *Interp, a []Value) []Value {
		b := []byte(in.checkStr(a, 0, "upper"))
		for i, c := range b {
			if c >= 'a' && c <= 'z' {
				b[i] = c - 32
			}
		}
		return []Value{string(b)}
	})
	in.reg(S, "lower", func(in *Interp, a []Value) []Value {
		b := []byte(in.checkStr(a, 0, "lower"))
		for i, c := range b {
			if c >= 'A' && c <= 'Z' {
				b[i] = c + 32
			}
		}
		return []Value{string(b)}
	})
	in.reg(S, "rep", func(in *Interp, a []Value) []Value {
		s := in.checkStr(a, 0, "rep")
		n := in.checkInt(a, 1, "rep")
		if n <= 0 {
			return []Value{""}
		}
		if n*len(s) > 1<<16 {
			unspecified("string.rep result larger than the modelled range")
		}
		return []Value{strings.Repeat(s, n)}
	})
	in.reg(S, "reverse", func(in *Interp, a []Value) []Value {
		b := []byte(in.checkStr(a, 0, "reverse"))
		for i, j := 0, len(b)-1; i < j; i, j = i+1, j-1 {
			b[i], b[j] = b[j], b[i]
		}
		return []Value{string(b)}
	})
	in.reg(S, "byte", func(in *Interp, a []Value) []Value {
		s := in.checkStr(a, 0, "byte")
		l := len(s)
		i := in.optInt(a, 1, "byte", 1)
		if i < 0 {
			i = l + i + 1
			if i < 0 {
				i = 0
			}
		}
		j := in.optInt(a, 2, "byte", i)
		if j < 0 {
			j = l + j + 1
			if j < 0 {
				j = 0
			}
		}
		if i <= 0 {
			i = 1
		}
		if j > l {
			j = l
		}
		var out []Value
		for k := i; k <= j; k++ {
			out = append(out, float64(s[k-1]))
		}
		return out
	})
	in.reg(S, "char", func(in *Interp, a []Value) []Value {
		b := make([]byte, len(a))
		for i := range a {
			c := in.checkInt(a, i, "char")
			if c < 0 || c > 255 {
				in.argErr(i+1, "char", "invalid value")
			}
			b[i] = byte(c)
		}
		return []Value{string(b)}
	})
}

// ---- table

func openTable(in *Interp) {
	T := NewTable()
	in.G.Set("table", T)
	getn := func(in *Interp, t *Table) int {
		n, unique := t.Border()
		if !unique {
			unspecified("table function on a table with more than one border")
		}
		return n
	}
	in.reg(T, "insert", func(in *Interp, a []Value) []Value {
		t := in.checkTable(a, 0, "insert")
		e := getn(in, t) + 1
		var pos int
		var v Value
		switch len(a) {
		case 2:
			pos, v = e, a[1]
		case 3:
			pos = in.checkInt(a, 1, "insert")
			v = a[2]
			if pos < 1 || pos > e {
				unspecified("table.insert position outside 1..n+1")
			}
			for i := e; i > pos; i-- {
				t.Set(float64(i), t.Get(float64(i-1)))
			}
		default:
			if len(a) > 3 {
				unspecified("table.insert with more than three arguments")
			}
			in.fault("wrong number of arguments to 'insert'")
		}
		t.Set(float64(pos), v)
		return nil
	})
	in.reg(T, "remove", func(in *Interp, a []Value) []Value {
		t := in.checkTable(a, 0, "remove")
		e := getn(in, t)
		pos := in.optInt(a, 1, "remove", e)
		if e == 0 {
			if arg(a, 1) != nil {
				unspecified("table.remove with a position on an empty list")
			}
			return []Value{nil}
		}
		if pos < 1 || pos > e {
			unspecified("table.remove position outside 1..n")
		}
		v := t.Get(float64(pos))
		for ; pos < e; pos++ {
			t.Set(float64(pos), t.Get(float64(pos+1)))
		}
		t.Set(float64(e), nil)
		return []Value{v}
	})
	in.reg(T, "concat", func(in *Interp, a []Value) []Value {
		t := in.checkTable(a, 0, "concat")
		sep := ""
		if arg(a, 1) != nil {
			sep = in.checkStr(a, 1, "concat")
		}
		i := in.optInt(a, 2, "concat", 1)
		var j int
		if arg(a, 3) == nil {
			j = getn(in, t)
		} else {
			j = in.checkInt(a, 3, "concat")
		}
		var b strings.Builder
		for k := i; k <= j; k++ {
			switch x := t.Get(float64(k)).(type) {
			case string:
				b.WriteString(x)
			case float64:
				s, ok := NumToStr(x)
				if !ok {
					unspecified("number->string conversion whose text is not fixed")
				}
				b.WriteString(s)
			case *OStr:
				unspecified("concat of an opaque string")
			default:
				in.fault("invalid value in table for 'concat'")
			}
			if k != j {
				b.WriteString(sep)
			}
		}
		return []Value{b.String()}
	})
	in.reg(T, "getn", func(in *Interp, a []Value) []Value {
		return []Value{float64(getn(in, in.checkTable(a, 0, "getn")))}
	})
	in.reg(T, "maxn", func(in *Interp, a []Value) []Value {
		t := in.checkTable(a, 0, "maxn")
		m := 0.0
		for i, k := range t.keys {
			if f, ok := k.(float64); ok && t.vals[i] != nil && f > m {
				m = f
			}
		}
		return []Value{m}
	})
	// table.sort with a valid comparator: result is the sorted permutation; the sequence of comparator calls is
	// not specified, so programs may only observe the result (comparators with side effects make the case Unspecified
	// unless they merely fail: see C05's use).
	in.reg(T, "sort", func(in *Interp, a []Value) []Value {
		t := in.checkTable(a, 0, "sort")
		n := getn(in, t)
		cmp := arg(a, 1)
		vals := make([]Value, n)
		for i := range vals {
			vals[i] = t.Get(float64(i + 1))
		}
		if cmp != nil {
			// the comparator may only compare (or fail): the order and number of its calls is not specified, so anything
			// it lets the outside observe makes the case Unspecified; the result is checked for a consistent order
			nt := len(in.Trace)
			in.th.cBoundary++
			lt := func(x, y Value) bool { return truthy(first(in.Call(cmp, []Value{x, y}))) }
			for i := 1; i < n; i++ {
				for j := i; j > 0 && lt(vals[j], vals[j-1]); j-- {
					vals[j], vals[j-1] = vals[j-1], vals[j]
				}
			}
			for i := 0; i+1 < n; i++ {
				if lt(vals[i+1], vals[i]) {
					unspecified("table.sort with an inconsistent comparator")
				}
			}
			in.th.cBoundary--
			if len(in.Trace) != nt {
				unspecified("table.sort comparator with observable side effects")
			}
			for i, v := range vals {
				t.Set(float64(i+1), v)
			}
			for i := 0; i+1 < n; i++ {
				if !lt(vals[i], vals[i+1]) {
					unspecified("table.sort with elements the comparator does not order strictly (ties)")
				}
			}
			return nil
		}
		allNum, allStr := true, true
		for _, v := range vals {
			if _, ok := v.(float64); !ok {
				allNum = false
			}
			if _, ok := v.(string); !ok {
				allStr = false
			}
		}
		if n > 1 && !allNum && !allStr {
			unspecified("table.sort of mixed or non-primitive elements")
		}
		sort.SliceStable(vals, func(i, j int) bool {
			if allNum {
				return vals[i].(float64) < vals[j].(float64)
			}
			return vals[i].(string) < vals[j].(string)
		})
		for i, v := range vals {
			if f, ok := v.(float64); ok && f != f {
				unspecified("sort with NaN")
			}
			t.Set(float64(i+1), v)
		}
		return nil
	})
}

// ---- math

func openMath(in *Interp) {
	M := NewTable()
	in.G.Set("math", M)
	in.reg(M, "floor", func(in *Interp, a []Value) []Value { return []Value{math.Floor(in.checkNum(a, 0, "floor"))} })
	in.reg(M, "ceil", func(in *Interp, a []Value) []Value { return []Value{math.Ceil(in.checkNum(a, 0, "ceil"))} })
	in.reg(M, "abs", func(in *Interp, a []Value) []Value { return []Value{math.Abs(in.checkNum(a, 0, "abs"))} })
	in.reg(M, "sqrt", func(in *Interp, a []Value) []Value { return []Value{math.Sqrt(in.checkNum(a, 0, "sqrt"))} })
	in.reg(M, "max", func(in *Interp, a []Value) []Value {
		m := in.checkNum(a, 0, "max")
		for i := 1; i < len(a); i++ {
			v := in.checkNum(a, i, "max")
			if v != v || m != m {
				unspecified("math.max with NaN")
			}
			if v > m {
				m = v
			}
		}
		return []Value{m}
	})
	in.reg(M, "min", func(in *Interp, a []Value) []Value {
		m := in.checkNum(a, 0, "min")
		for i := 1; i < len(a); i++ {
			v := in.checkNum(a, i, "min")
			if v != v || m != m {
				unspecified("math.min with NaN")
			}
			if v < m {
				m = v
			}
		}
		return []Value{m}
	})
}

// openHost registers the host functions every generated program may use (mirrored on the gopher-lua side by e1).
func openHost(in *Interp) {
	G := in.G
	// hostf(r, ...): a host callee that pushes copies of all its arguments and returns the last r of them
	in.reg(G, "hostf", func(in *Interp, a []Value) []Value {
		r := in.checkInt(a, 0, "hostf")
		rest := a[1:]
		if r < 0 {
			r = 0
		}
		if r > len(rest) {
			r = len(rest)
		}
		return append([]Value(nil), rest[len(rest)-r:]...)
	})
	// hostcall(f, ...): a host function that calls back into Lua (unprotected) and returns all results
	in.reg(G, "hostcall", func(in *Interp, a []Value) []Value {
		if len(a) == 0 {
			in.argErr(1, "hostcall", "value expected")
		}
		in.th.cBoundary++
		res := in.Call(a[0], a[1:])
		in.th.cBoundary--
		return res
	})
	// newud(mt): a full userdata with metatable mt (or none)
	in.reg(G, "newud", func(in *Interp, a []Value) []Value {
		u := &Userdata{}
		if t, ok := arg(a, 0).(*Table); ok {
			u.Meta = t
		}
		return []Value{u}
	})
	// snap(label): the gopher-lua side samples its internal state here; no effect in the reference
	in.reg(G, "snap", func(in *Interp, a []Value) []Value { return nil })
	// hostpcall(f, ...): a protected call made from the host side (LState.PCall)
	in.reg(G, "hostpcall", func(in *Interp, a []Value) []Value {
		if len(a) == 0 {
			in.argErr(1, "hostpcall", "value expected")
		}
		ok, res := in.protected(a[0], a[1:], false, nil)
		if ok {
			return append([]Value{true}, res...)
		}
		return []Value{false, first(res)}
	})
	// hostraise(): the host function fails with RaiseError; hostpanic(): it panics with a Go string;
	// hostnilpanic(): it hits a Go run-time panic.  The error value is a string whose text is not fixed.
	// hoststackoverflow(), hostregoverflow(): the host function runs into the call-stack / value-stack limit
	for _, n := range []string{"hostraise", "hostpanic", "hostnilpanic", "hoststackoverflow", "hostregoverflow"} {
		noRoom := strings.HasSuffix(n, "overflow")
		in.reg(G, n, func(in *Interp, a []Value) []Value {
			in.Stat.Faults++
			in.raise(&OStr{Kind: "err", NoRoom: noRoom})
			return nil
		})
	}
}
