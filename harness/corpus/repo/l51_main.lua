# testing special comment on first line

print ("testing lua.c options")

assert(os.execute() ~= 0)   -- machine has a system command

prog = os.tmpname()
otherprog = os.tmpname()
out = os.tmpname()

do
  local i = 0
  while arg[i] do i=i-1 end
  progname = '"'..arg[i+1]..'"'
end
print(progname)

local prepfile = function (s, p)
  p = p or prog
  io.output(p)
  io.write(s)
  assert(io.close())
end

function checkout (s)
  io.input(out)
  local t = io.read("*a")
  io.input():close()
  assert(os.remove(out))
  if s ~= t then print(string.format("'%s' - '%s'\n", s, t)) end
  assert(s == t)
  return t
end

function auxrun (...)
  local s = string.format(...)
  s = string.gsub(s, "lua", progname, 1)
  return os.execute(s)
end

function RUN (...)
  assert(auxrun(...) == 0)
end

function NoRun (...)
  print("\n(the next error is expected by the test)")
  assert(auxrun(...) ~= 0)
end

-- test 2 files
prepfile("print(1); a=2")
prepfile("print(a)", otherprog)
RUN("lua -l %s -l%s -lstring -l io %s > %s", prog, otherprog, otherprog, out)
checkout("1\n2\n2\n")

local a = [[
  assert(table.getn(arg) == 3 and arg[1] == 'a' and
         arg[2] == 'b' and arg[3] == 'c')
  assert(arg[-1] == '--' and arg[-2] == "-e " and arg[-3] == %s)
  assert(arg[4] == nil and arg[-4] == nil)
  local a, b, c = ...
  assert(... == 'a' and a == 'a' and b == 'b' and c == 'c')
]]
a = string.format(a, progname)
prepfile(a)
RUN('lua "-e " -- %s a b c', prog)

prepfile"assert(arg==nil)"
prepfile("assert(arg)", otherprog)
RUN("lua -l%s - < %s", prog, otherprog)

prepfile""
RUN("lua - < %s > %s", prog, out)
checkout("")

-- test many arguments
prepfile[[print(({...})[30])]]
RUN("lua %s %s > %s", prog, string.rep(" a", 30), out)
checkout("a\n")

RUN([[lua "-eprint(1)" -ea=3 -e "print(a)" > %s]], out)
checkout("1\n3\n")

prepfile[[
  print(
1, a
)
]]
RUN("lua - < %s > %s", prog, out)
checkout("1\tnil\n")

prepfile[[
= (6*2-6) -- ===
a 
= 10
print(a)
= a]]
RUN([[lua -e"_PROMPT='' _PROMPT2=''" -i < %s > %s]], prog, out)
checkout("6\n10\n10\n\n")

prepfile("a = [[b\nc\nd\ne]]\n=a")
print(prog)
RUN([[lua -e"_PROMPT='' _PROMPT2=''" -i < %s > %s]], prog, out)
checkout("b\nc\nd\ne\n\n")

prompt = "alo"
prepfile[[ --
a = 2
]]
RUN([[lua "-e_PROMPT='%s'" -i < %s > %s]], prompt, prog, out)
checkout(string.rep(prompt, 3).."\n")

s = [=[ -- 
function f ( x ) 
  local a = [[
xuxu
]]
  local b = "\
xuxu\n"
  if x == 11 then return 1 , 2 end  --[[ test multiple returns ]]
  return x + 1 
  --\\
end
=( f( 10 ) )
assert( a == b )
=f( 11 )  ]=]
s = string.gsub(s, ' ', '\n\n')
prepfile(s)
RUN([[lua -e"_PROMPT='' _PROMPT2=''" -i < %s > %s]], prog, out)
checkout("11\n1\t2\n\n")
  
prepfile[[#comment in 1st line without \n at the end]]
RUN("lua %s", prog)

prepfile("#comment with a binary file\n"..string.dump(loadstring("print(1)")))
RUN("lua %s > %s", prog, out)
checkout("1\n")

prepfile("#comment with a binary file\r\n"..string.dump(loadstring("print(1)")))
RUN("lua %s > %s", prog, out)
checkout("1\n")

-- close Lua with an open file
prepfile(string.format([[io.output(%q); io.write('alo')]], out))
RUN("lua %s", prog)
checkout('alo')

assert(os.remove(prog))
assert(os.remove(otherprog))
assert(not os.remove(out))

RUN("lua -v")

NoRun("lua -h")
NoRun("lua -e")
NoRun("lua -e a")
NoRun("lua -f")

print("OK")
