package luaref

import "fmt"

// Parse parses Lua 5.1 (+ goto/labels with the 5.2 visibility rules) into a resolved AST.
// The returned function is the main chunk (vararg, no `arg` table).
func Parse(src string) (fn *FuncExpr, err error) {
	defer func() {
		if r := recover(); r != nil {
			if se, ok := r.(*SyntaxError); ok {
				fn, err = nil, se
				return
			}
			panic(r)
		}
	}()
	p := &parser{lx: &lexer{src: src, line: 1}}
	p.advance()
	fn = &FuncExpr{IsVararg: true, Name: "main chunk"}
	fn.Line = 1
	fs := p.openFunc(fn, nil)
	fn.Body = p.block(fs, false)
	if p.tok.kind != tEOF {
		p.errf("'<eof>' expected near %s", p.tokText())
	}
	fn.EndLine = p.tok.line
	p.closeFunc(fs)
	p.Info.HasGoto = p.hasGoto
	fn.Info = p.Info
	return fn, nil
}

// ParseInfo carries facts about a parsed text that checks use to decide what may be asserted.
type ParseInfo struct {
	HasGoto   bool
	MaxLocals int // maximum number of simultaneously active locals in one function
	MaxUpvals int
	NumFuncs  int
	MaxDepth  int // syntactic nesting depth of expressions/blocks
}

type blockScope struct {
	parent  *blockScope
	nactive int // number of active locals in the function when the block was opened
	isLoop  bool
	labels  map[string]labelInfo
	pending []*pendingGoto
	block   *Block
}

type labelInfo struct {
	idx     int // statement index in the block
	nactive int
	line    int
}

type pendingGoto struct {
	name    string
	line    int
	nactive int
}

type localVar struct {
	name string
	slot int
}

type funcState struct {
	fn      *FuncExpr
	parent  *funcState
	actives []localVar
	bs      *blockScope
	upvals  map[string]int
}

type parser struct {
	lx      *lexer
	tok     token
	ahead   *token
	prevEnd int // line of the previously consumed token
	depth   int
	hasGoto bool
	Info    ParseInfo
}

func (p *parser) errf(format string, a ...any) {
	panic(&SyntaxError{p.tok.line, fmt.Sprintf(format, a...)})
}

func (p *parser) tokText() string {
	switch p.tok.kind {
	case tEOF:
		return "<eof>"
	case tNumber:
		return p.tok.text
	case tString:
		return fmt.Sprintf("%q", p.tok.s)
	}
	return "'" + p.tok.s + "'"
}

func (p *parser) advance() {
	p.prevEnd = p.tok.line
	if p.ahead != nil {
		p.tok = *p.ahead
		p.ahead = nil
		return
	}
	p.tok = p.lx.next()
}

func (p *parser) peek() token {
	if p.ahead == nil {
		t := p.lx.next()
		p.ahead = &t
	}
	return *p.ahead
}

func (p *parser) isOp(s string) bool { return p.tok.kind == tOp && p.tok.s == s }
func (p *parser) isKw(s string) bool { return p.tok.kind == tKeyword && p.tok.s == s }

func (p *parser) acceptOp(s string) bool {
	if p.isOp(s) {
		p.advance()
		return true
	}
	return false
}
func (p *parser) acceptKw(s string) bool {
	if p.isKw(s) {
		p.advance()
		return true
	}
	return false
}
func (p *parser) expectOp(s string) int {
	if !p.isOp(s) {
		p.errf("'%s' expected near %s", s, p.tokText())
	}
	l := p.tok.line
	p.advance()
	return l
}
func (p *parser) expectKw(s string) int {
	if !p.isKw(s) {
		p.errf("'%s' expected near %s", s, p.tokText())
	}
	l := p.tok.line
	p.advance()
	return l
}
func (p *parser) expectMatch(what, who string, line int) int {
	if !(p.tok.kind == tKeyword && p.tok.s == what) && !(p.tok.kind == tOp && p.tok.s == what) {
		if line == p.tok.line {
			p.errf("'%s' expected near %s", what, p.tokText())
		}
		p.errf("'%s' expected (to close '%s' at line %d) near %s", what, who, line, p.tokText())
	}
	l := p.tok.line
	p.advance()
	return l
}
func (p *parser) expectName() string {
	if p.tok.kind != tName {
		p.errf("<name> expected near %s", p.tokText())
	}
	s := p.tok.s
	p.advance()
	return s
}

func (p *parser) enter() {
	p.depth++
	if p.depth > p.Info.MaxDepth {
		p.Info.MaxDepth = p.depth
	}
	if p.depth > 195 { // LUAI_MAXCCALLS is 200
		p.errf("chunk has too many syntax levels")
	}
}
func (p *parser) leave() { p.depth-- }

// ---- scopes

func (p *parser) openFunc(fn *FuncExpr, parent *funcState) *funcState {
	p.Info.NumFuncs++
	return &funcState{fn: fn, parent: parent, upvals: map[string]int{}}
}

func (p *parser) closeFunc(fs *funcState) {
	if len(fs.fn.Upvals) > p.Info.MaxUpvals {
		p.Info.MaxUpvals = len(fs.fn.Upvals)
	}
}

func (p *parser) openBlock(fs *funcState, isLoop bool) *blockScope {
	bs := &blockScope{parent: fs.bs, nactive: len(fs.actives), isLoop: isLoop, labels: map[string]labelInfo{}}
	fs.bs = bs
	return bs
}

func (p *parser) closeBlock(fs *funcState, nstmts int) {
	bs := fs.bs
	// a label followed only by void statements up to the end of the block is considered to be at the block's end:
	// its scope level is the block's entry level (Lua 5.2 rule)
	for name, li := range bs.labels {
		if p.onlyVoidAfter(bs.block, li.idx) {
			li.nactive = bs.nactive
			bs.labels[name] = li
		}
	}
	// resolve pending gotos against this block's labels
	var rest []*pendingGoto
	for _, g := range bs.pending {
		if li, ok := bs.labels[g.name]; ok {
			if li.nactive > g.nactive {
				p.lx.line = g.line
				panic(&SyntaxError{g.line, fmt.Sprintf("<goto %s> jumps into the scope of a local", g.name)})
			}
			continue
		}
		// leaving the block: the goto's level shrinks to the block's entry level
		if g.nactive > bs.nactive {
			g.nactive = bs.nactive
		}
		rest = append(rest, g)
	}
	fs.actives = fs.actives[:bs.nactive]
	fs.bs = bs.parent
	if fs.bs != nil {
		fs.bs.pending = append(fs.bs.pending, rest...)
	} else if len(rest) > 0 {
		panic(&SyntaxError{rest[0].line, fmt.Sprintf("no visible label '%s' for goto", rest[0].name)})
	}
}

func (p *parser) onlyVoidAfter(b *Block, idx int) bool {
	if b == nil {
		return false
	}
	for i := idx + 1; i < len(b.Stmts); i++ {
		if _, ok := b.Stmts[i].(*LabelStmt); !ok {
			return false
		}
	}
	return true
}

func (p *parser) declare(fs *funcState, name string) int {
	slot := fs.fn.NumSlots
	fs.fn.NumSlots++
	fs.actives = append(fs.actives, localVar{name, slot})
	if len(fs.actives) > p.Info.MaxLocals {
		p.Info.MaxLocals = len(fs.actives)
	}
	if len(fs.actives) > 200 {
		p.errf("too many local variables")
	}
	return slot
}

// reserve allocates a slot without making the name visible yet (local x = x).
func (p *parser) reserve(fs *funcState) int {
	slot := fs.fn.NumSlots
	fs.fn.NumSlots++
	return slot
}

func (p *parser) activate(fs *funcState, name string, slot int) {
	fs.actives = append(fs.actives, localVar{name, slot})
	if len(fs.actives) > p.Info.MaxLocals {
		p.Info.MaxLocals = len(fs.actives)
	}
	if len(fs.actives) > 200 {
		p.errf("too many local variables")
	}
}

func (fs *funcState) findLocal(name string) (int, bool) {
	for i := len(fs.actives) - 1; i >= 0; i-- {
		if fs.actives[i].name == name {
			return fs.actives[i].slot, true
		}
	}
	return 0, false
}

func (p *parser) resolveUpval(fs *funcState, name string) (int, bool) {
	if idx, ok := fs.upvals[name]; ok {
		return idx, true
	}
	if fs.parent == nil {
		return 0, false
	}
	if slot, ok := fs.parent.findLocal(name); ok {
		fs.fn.Upvals = append(fs.fn.Upvals, UpvalDesc{FromParentLocal: true, Idx: slot, Name: name})
	} else if idx, ok := p.resolveUpval(fs.parent, name); ok {
		fs.fn.Upvals = append(fs.fn.Upvals, UpvalDesc{FromParentLocal: false, Idx: idx, Name: name})
	} else {
		return 0, false
	}
	if len(fs.fn.Upvals) > 60 {
		p.errf("too many upvalues")
	}
	idx := len(fs.fn.Upvals) - 1
	fs.upvals[name] = idx
	return idx, true
}

func (p *parser) nameExpr(fs *funcState, name string, line int) *NameExpr {
	e := &NameExpr{Name: name}
	e.Line, e.EndLine = line, line
	if slot, ok := fs.findLocal(name); ok {
		e.Kind, e.Idx = NameLocal, slot
	} else if idx, ok := p.resolveUpval(fs, name); ok {
		e.Kind, e.Idx = NameUpval, idx
	} else {
		e.Kind = NameGlobal
	}
	return e
}

// ---- statements

func (p *parser) blockEnd() bool {
	if p.tok.kind == tEOF {
		return true
	}
	if p.tok.kind == tKeyword {
		switch p.tok.s {
		case "end", "else", "elseif", "until":
			return true
		}
	}
	return false
}

// block parses statements into a new scope.  For repeat-until the caller closes the scope itself.
func (p *parser) block(fs *funcState, isLoop bool) *Block {
	b := p.blockOpen(fs, isLoop)
	p.closeBlock(fs, len(b.Stmts))
	return b
}

func (p *parser) blockOpen(fs *funcState, isLoop bool) *Block {
	p.enter()
	defer p.leave()
	bs := p.openBlock(fs, isLoop)
	b := &Block{Labels: map[string]int{}}
	bs.block = b
	b.Line = p.tok.line
	for !p.blockEnd() {
		if p.isKw("return") {
			b.Stmts = append(b.Stmts, p.returnStmt(fs))
			p.acceptOp(";")
			break
		}
		if p.isKw("break") {
			st := &BreakStmt{}
			st.Line, st.EndLine = p.tok.line, p.tok.line
			ok := false
			for s := fs.bs; s != nil; s = s.parent {
				if s.isLoop {
					ok = true
					break
				}
			}
			if !ok {
				p.errf("no loop to break near %s", p.tokText())
			}
			p.advance()
			b.Stmts = append(b.Stmts, st)
			p.acceptOp(";")
			break
		}
		st := p.statement(fs, b)
		if st != nil {
			b.Stmts = append(b.Stmts, st)
		}
		p.acceptOp(";")
	}
	b.EndLine = p.prevEnd
	if !p.blockEnd() {
		p.errf("'<eof>' or block end expected near %s", p.tokText())
	}
	return b
}

func (p *parser) returnStmt(fs *funcState) Stmt {
	st := &ReturnStmt{}
	st.Line = p.tok.line
	p.advance()
	if !p.blockEnd() && !p.isOp(";") {
		st.Exprs = p.exprList(fs)
	}
	st.EndLine = p.prevEnd
	return st
}

func (p *parser) statement(fs *funcState, b *Block) Stmt {
	line := p.tok.line
	if p.tok.kind == tKeyword {
		switch p.tok.s {
		case "if":
			return p.ifStmt(fs)
		case "while":
			p.advance()
			st := &WhileStmt{}
			st.Line = line
			st.Cond = p.expr(fs)
			st.HdrEnd = p.expectKw("do")
			st.Body = p.block(fs, true)
			st.EndLine = p.expectMatch("end", "while", line)
			return st
		case "do":
			p.advance()
			st := &DoStmt{}
			st.Line = line
			st.Body = p.block(fs, false)
			st.EndLine = p.expectMatch("end", "do", line)
			return st
		case "for":
			return p.forStmt(fs)
		case "repeat":
			p.advance()
			st := &RepeatStmt{}
			st.Line = line
			st.Body = p.blockOpen(fs, true)
			st.UntilLine = p.expectMatch("until", "repeat", line)
			st.Cond = p.expr(fs) // sees the body's locals
			p.closeBlock(fs, len(st.Body.Stmts))
			st.EndLine = p.prevEnd
			return st
		case "function":
			return p.funcStmt(fs)
		case "local":
			p.advance()
			if p.acceptKw("function") {
				st := &LocalFuncStmt{}
				st.Line = line
				st.Name = p.expectName()
				st.Slot = p.declare(fs, st.Name)
				st.Fn = p.funcBody(fs, false, line, st.Name)
				st.EndLine = p.prevEnd
				return st
			}
			st := &LocalStmt{}
			st.Line = line
			st.Names = append(st.Names, p.expectName())
			for p.acceptOp(",") {
				st.Names = append(st.Names, p.expectName())
			}
			if p.acceptOp("=") {
				st.Exprs = p.exprList(fs)
			}
			for _, n := range st.Names {
				st.Slots = append(st.Slots, p.declare(fs, n))
			}
			st.EndLine = p.prevEnd
			return st
		case "goto":
			p.advance()
			p.hasGoto = true
			st := &GotoStmt{}
			st.Line = line
			st.Label = p.expectName()
			st.EndLine = p.prevEnd
			fs.bs.pending = append(fs.bs.pending, &pendingGoto{st.Label, line, len(fs.actives)})
			return st
		case "return", "break":
			p.errf("unexpected %s", p.tokText())
		}
	}
	if p.isOp("::") {
		p.advance()
		p.hasGoto = true
		st := &LabelStmt{}
		st.Line = line
		st.Name = p.expectName()
		p.expectOp("::")
		st.EndLine = p.prevEnd
		// duplicate check: same function, any enclosing block still open
		for s := fs.bs; s != nil; s = s.parent {
			if _, dup := s.labels[st.Name]; dup {
				p.errf("label '%s' already defined", st.Name)
			}
		}
		fs.bs.labels[st.Name] = labelInfo{idx: len(b.Stmts), nactive: len(fs.actives), line: line}
		b.Labels[st.Name] = len(b.Stmts)
		return st
	}
	// exprstat: call or assignment
	e := p.suffixedExpr(fs)
	if p.isOp("=") || p.isOp(",") {
		st := &AssignStmt{}
		st.Line = line
		st.Targets = append(st.Targets, e)
		for p.acceptOp(",") {
			st.Targets = append(st.Targets, p.suffixedExpr(fs))
		}
		for _, t := range st.Targets {
			switch t.(type) {
			case *NameExpr, *IndexExpr:
			default:
				p.errf("syntax error near %s", p.tokText())
			}
		}
		p.expectOp("=")
		st.Exprs = p.exprList(fs)
		st.EndLine = p.prevEnd
		return st
	}
	c, ok := e.(*CallExpr)
	if !ok {
		p.errf("syntax error near %s", p.tokText())
	}
	st := &CallStmt{Call: c}
	st.Line, st.EndLine = line, p.prevEnd
	return st
}

func (p *parser) ifStmt(fs *funcState) Stmt {
	st := &IfStmt{}
	st.Line = p.tok.line
	line := p.tok.line
	st.HdrBegs = append(st.HdrBegs, p.tok.line)
	p.advance()
	st.Conds = append(st.Conds, p.expr(fs))
	st.HdrEnds = append(st.HdrEnds, p.expectKw("then"))
	st.Blocks = append(st.Blocks, p.block(fs, false))
	for {
		if p.isKw("elseif") {
			st.HdrBegs = append(st.HdrBegs, p.tok.line)
			p.advance()
			st.Conds = append(st.Conds, p.expr(fs))
			st.HdrEnds = append(st.HdrEnds, p.expectKw("then"))
			st.Blocks = append(st.Blocks, p.block(fs, false))
			continue
		}
		if p.acceptKw("else") {
			st.Else = p.block(fs, false)
		}
		break
	}
	st.EndLine = p.expectMatch("end", "if", line)
	return st
}

func (p *parser) forStmt(fs *funcState) Stmt {
	line := p.tok.line
	p.advance()
	n1 := p.expectName()
	if p.isOp("=") {
		p.advance()
		st := &NumForStmt{Var: n1}
		st.Line = line
		st.Start = p.expr(fs)
		p.expectOp(",")
		st.End = p.expr(fs)
		if p.acceptOp(",") {
			st.Step = p.expr(fs)
		}
		st.HdrEnd = p.expectKw("do")
		// the loop variable lives in a scope of its own around the body
		p.openBlock(fs, true)
		st.Slot = p.declare(fs, n1)
		st.Body = p.block(fs, false)
		p.closeBlock(fs, 0)
		st.EndLine = p.expectMatch("end", "for", line)
		return st
	}
	st := &GenForStmt{}
	st.Line = line
	st.Names = append(st.Names, n1)
	for p.acceptOp(",") {
		st.Names = append(st.Names, p.expectName())
	}
	p.expectKw("in")
	st.Exprs = p.exprList(fs)
	st.HdrEnd = p.expectKw("do")
	p.openBlock(fs, true)
	for _, n := range st.Names {
		st.Slots = append(st.Slots, p.declare(fs, n))
	}
	st.Body = p.block(fs, false)
	p.closeBlock(fs, 0)
	st.EndLine = p.expectMatch("end", "for", line)
	return st
}

func (p *parser) funcStmt(fs *funcState) Stmt {
	line := p.tok.line
	p.advance()
	st := &FuncStmt{}
	st.Line = line
	nline := p.tok.line
	name := p.expectName()
	var target Expr = p.nameExpr(fs, name, nline)
	full := name
	isMethod := false
	for p.isOp(".") || p.isOp(":") {
		colon := p.isOp(":")
		p.advance()
		kl := p.tok.line
		k := p.expectName()
		full += "." + k
		ke := &StringExpr{Val: k}
		ke.Line, ke.EndLine = kl, kl
		ie := &IndexExpr{Obj: target, Key: ke}
		ie.Line, ie.EndLine = target.exprNode().Line, kl
		target = ie
		if colon {
			isMethod = true
			break
		}
	}
	st.Target = target
	st.Fn = p.funcBody(fs, isMethod, line, full)
	st.EndLine = p.prevEnd
	return st
}

func (p *parser) funcBody(parent *funcState, isMethod bool, line int, name string) *FuncExpr {
	p.enter()
	defer p.leave()
	fn := &FuncExpr{Name: name}
	fn.Line = line
	fs := p.openFunc(fn, parent)
	p.openBlock(fs, false)
	if isMethod {
		fn.Params = append(fn.Params, "self")
		fn.ParamSlots = append(fn.ParamSlots, p.declare(fs, "self"))
	}
	p.expectOp("(")
	if !p.isOp(")") {
		for {
			if p.isOp("...") {
				p.advance()
				fn.IsVararg = true
				break
			}
			n := p.expectName()
			fn.Params = append(fn.Params, n)
			fn.ParamSlots = append(fn.ParamSlots, p.declare(fs, n))
			if !p.acceptOp(",") {
				break
			}
		}
	}
	p.expectOp(")")
	if fn.IsVararg {
		fn.ArgSlot = p.declare(fs, "arg") // LUA_COMPAT_VARARG
	}
	fn.Body = p.block(fs, false)
	fn.EndLine = p.expectMatch("end", "function", line)
	p.closeBlock(fs, 0)
	p.closeFunc(fs)
	fn.UsesArg = fn.IsVararg && !fn.UsesDots
	return fn
}

// ---- expressions

func (p *parser) exprList(fs *funcState) []Expr {
	l := []Expr{p.expr(fs)}
	for p.acceptOp(",") {
		l = append(l, p.expr(fs))
	}
	return l
}

func (p *parser) primaryExpr(fs *funcState) Expr {
	line := p.tok.line
	switch {
	case p.tok.kind == tName:
		n := p.tok.s
		p.advance()
		return p.nameExpr(fs, n, line)
	case p.isOp("("):
		p.advance()
		e := p.expr(fs)
		end := p.expectMatch(")", "(", line)
		pe := &ParenExpr{X: e}
		pe.Line, pe.EndLine = line, end
		return pe
	}
	p.errf("unexpected symbol near %s", p.tokText())
	return nil
}

func (p *parser) suffixedExpr(fs *funcState) Expr {
	p.enter()
	defer p.leave()
	e := p.primaryExpr(fs)
	for {
		line := e.exprNode().Line
		switch {
		case p.isOp("."):
			p.advance()
			kl := p.tok.line
			k := p.expectName()
			ke := &StringExpr{Val: k}
			ke.Line, ke.EndLine = kl, kl
			ie := &IndexExpr{Obj: e, Key: ke}
			ie.Line, ie.EndLine = line, kl
			e = ie
		case p.isOp("["):
			p.advance()
			k := p.expr(fs)
			end := p.expectOp("]")
			ie := &IndexExpr{Obj: e, Key: k}
			ie.Line, ie.EndLine = line, end
			e = ie
		case p.isOp(":"):
			p.advance()
			m := p.expectName()
			ce := &CallExpr{Fn: e, Method: m}
			ce.Line = line
			ce.Args = p.callArgs(fs)
			ce.EndLine = p.prevEnd
			e = ce
		case p.isOp("(") || p.isOp("{") || p.tok.kind == tString:
			ce := &CallExpr{Fn: e}
			ce.Line = line
			ce.Args = p.callArgs(fs)
			ce.EndLine = p.prevEnd
			e = ce
		default:
			return e
		}
	}
}

func (p *parser) callArgs(fs *funcState) []Expr {
	switch {
	case p.tok.kind == tString:
		e := &StringExpr{Val: p.tok.s}
		e.Line = p.tok.line
		p.advance()
		e.EndLine = p.prevEnd
		return []Expr{e}
	case p.isOp("{"):
		return []Expr{p.tableExpr(fs)}
	case p.isOp("("):
		line := p.tok.line
		if line != p.prevEnd {
			p.errf("ambiguous syntax (function call x new statement) near '('")
		}
		p.advance()
		var args []Expr
		if !p.isOp(")") {
			args = p.exprList(fs)
		}
		p.expectMatch(")", "(", line)
		return args
	}
	p.errf("function arguments expected near %s", p.tokText())
	return nil
}

func (p *parser) tableExpr(fs *funcState) Expr {
	t := &TableExpr{}
	t.Line = p.tok.line
	line := p.tok.line
	p.expectOp("{")
	for !p.isOp("}") {
		f := TableField{Line: p.tok.line}
		switch {
		case p.isOp("["):
			p.advance()
			f.Key = p.expr(fs)
			p.expectOp("]")
			p.expectOp("=")
			f.Val = p.expr(fs)
		case p.tok.kind == tName && p.peek().kind == tOp && p.peek().s == "=":
			ke := &StringExpr{Val: p.tok.s}
			ke.Line, ke.EndLine = p.tok.line, p.tok.line
			p.advance()
			p.advance()
			f.Key = ke
			f.Val = p.expr(fs)
		default:
			f.Val = p.expr(fs)
		}
		t.Fields = append(t.Fields, f)
		if !p.acceptOp(",") && !p.acceptOp(";") {
			break
		}
	}
	t.EndLine = p.expectMatch("}", "{", line)
	return t
}

func (p *parser) simpleExpr(fs *funcState) Expr {
	line := p.tok.line
	mk := func(n *Node) { n.Line, n.EndLine = line, line }
	switch {
	case p.tok.kind == tNumber:
		e := &NumberExpr{Val: p.tok.n, Text: p.tok.text}
		mk(&e.Node)
		p.advance()
		return e
	case p.tok.kind == tString:
		e := &StringExpr{Val: p.tok.s}
		e.Line = line
		p.advance()
		e.EndLine = p.prevEnd // long strings may span lines; the token line is its first line
		return e
	case p.isKw("nil"):
		e := &NilExpr{}
		mk(&e.Node)
		p.advance()
		return e
	case p.isKw("true"):
		e := &TrueExpr{}
		mk(&e.Node)
		p.advance()
		return e
	case p.isKw("false"):
		e := &FalseExpr{}
		mk(&e.Node)
		p.advance()
		return e
	case p.isOp("..."):
		if !fs.fn.IsVararg {
			p.errf("cannot use '...' outside a vararg function near '...'")
		}
		fs.fn.UsesDots = true
		e := &VarargExpr{}
		mk(&e.Node)
		p.advance()
		return e
	case p.isOp("{"):
		return p.tableExpr(fs)
	case p.isKw("function"):
		p.advance()
		return p.funcBody(fs, false, line, "anonymous")
	}
	return p.suffixedExpr(fs)
}

type prio struct{ left, right int }

var binPrio = map[string]prio{
	"+": {6, 6}, "-": {6, 6}, "*": {7, 7}, "/": {7, 7}, "%": {7, 7},
	"^": {10, 9}, "..": {5, 4},
	"==": {3, 3}, "~=": {3, 3}, "<": {3, 3}, "<=": {3, 3}, ">": {3, 3}, ">=": {3, 3},
	"and": {2, 2}, "or": {1, 1},
}

const unaryPrio = 8

func (p *parser) binOp() (string, bool) {
	if p.tok.kind == tOp || p.tok.kind == tKeyword {
		if _, ok := binPrio[p.tok.s]; ok {
			return p.tok.s, true
		}
	}
	return "", false
}

func (p *parser) expr(fs *funcState) Expr { return p.subExpr(fs, 0) }

func (p *parser) subExpr(fs *funcState, limit int) Expr {
	p.enter()
	defer p.leave()
	var e Expr
	line := p.tok.line
	if p.isKw("not") || p.isOp("-") || p.isOp("#") {
		op := p.tok.s
		p.advance()
		x := p.subExpr(fs, unaryPrio)
		u := &UnExpr{Op: op, X: x}
		u.Line, u.EndLine = line, x.exprNode().EndLine
		e = u
	} else {
		e = p.simpleExpr(fs)
	}
	for {
		op, ok := p.binOp()
		if !ok || binPrio[op].left <= limit {
			break
		}
		p.advance()
		r := p.subExpr(fs, binPrio[op].right)
		b := &BinExpr{Op: op, L: e, R: r}
		b.Line, b.EndLine = e.exprNode().Line, r.exprNode().EndLine
		e = b
	}
	return e
}
