#!/usr/bin/env python3
"""Maintains the 'fixed' entries of /verif/known_findings.json from /repo's 'fix:' commits.

  tools_findings.py sync      add an entry for every fix commit not listed yet (property/id taken from FIXMAP below or
                              from an agent's findings fragment matched by commit subject), refresh commit hashes
  tools_findings.py check     exit 1 if a fix commit is not listed
"""
import json, subprocess, sys, glob, os, re

KF = '/verif/known_findings.json'
# subject prefix -> (property, id) for fixes made by the main session
FIXMAP = [
 ("fix: '...' assigned to a local that is not the last one", ("C02", "F-VARARG1")),
 ("fix: VARARG with a fixed count reset", ("C02", "F-VARARG2")),
 ("fix: a call or '...' assigned to more than 509 variables", ("C07", "F-CMP-NRET")),
 ("fix: the explist of a generic for was adjusted", ("C01", "F-GENFOR")),
 ("fix: x % y gave -0 for a negative x", ("C01", "F-MOD0")),
 ("fix: building the traceback of a function called through an empty field name", ("C05", "F-ERR-EMPTYNAME")),
 ("fix: a registry overflow while a tail-called function", ("C12", "F-LIM-TAILREG")),
 ("fix: a coroutine created by a coroutine lost its context", ("C11", "F-CTX2")),
 ("fix: the extension word of a large table constructor", ("C07", "F-CMP-EXTW")),
 ("fix: a function with more than 255 upvalues", ("C07", "F-CMP-UPV")),
 ("fix: a yield called for a fixed number of results", ("C06", "F-CO6")),
 ("fix: xpcall/PCall with a handler contains a registry overflow", ("C05", "F-ERR-REGOVF")),
 ("fix: table constructor flushed stale", ("C01", "F-CMP1")),
 ("fix: patchCode treated the SETLIST extension word", ("C07", "F-CMP3")),
 ("fix: constants 0 and -0 shared", ("C01", "F-K0")),
 ("fix: arithmetic results of -0", ("C01", "F-NEG0")),
 ("fix: jump-to-jump optimisation", ("C01", "F-JMP1")),
 ("fix: multiple assignment wrote earlier local targets", ("C01", "F-ASG1")),
 ("fix: surplus right-hand expressions", ("C01", "F-ASG2")),
 ("fix: multiple assignment stores used a misaligned", ("C01", "F-ASG3")),
 ("fix: 'local f = function", ("C03", "F-LOCFN")),
 ("fix: goto closed every upvalue", ("C03", "F-GOTO1")),
 ("fix: a caught error closed the upvalues", ("C03", "F-UV1")),
 ("fix: a call assigned to the last parameter", ("C02", "F-CALL1")),
 ("fix: 'x = f() and y' kept the old x", ("C01", "F-LOGIC1")),
 ("fix: string.match clamps init", ("C14", "F-STR3b")),
 ("fix: 'return coroutine.yield(...)' left", ("C06", "F-CO5")),
 ("fix: resuming a coroutine that waits", ("C06", "F-CO1")),
 ("fix: error(msg, 2) reported", ("C05", "F-ERR2")),
 ("fix: channel:send ignored the context", ("C11", "F-CH1")),
 ("fix: debug.getlocal listed dead locals", ("C17", "F-DBG1")),
 ("fix: break out of a block nested in a loop", ("C03", "F-BRK1")),
 ("fix: a short comment starting with", ("C08", "F-LEX1")),
 ("fix: form feed and vertical tab", ("C08", "F-LEX2")),
 ("fix: NumUsedRegisters did not cover", ("C07", "F-REG1")),
 ("fix: jumps longer than the sBx range", ("C07", "F-CMP2")),
 ("fix: bulk-move merging swallowed", ("C07", "F-MOVEN1")),
]

def fix_commits():
    out = subprocess.run(['git', '-C', '/repo', 'log', '--reverse', '--format=%h\t%s', 'ad95943..HEAD'], capture_output=True, text=True).stdout
    return [l.split('\t', 1) for l in out.splitlines() if '\tfix:' in l]

def fragments():
    m = {}
    for f in glob.glob('/verif/harness/props/*/findings.json'):
        try:
            for e in json.load(open(f)).get('findings', []):
                if e.get('status') == 'fixed' and e.get('commit'):
                    m.setdefault(e['commit'][:7], []).append(e)
        except Exception as ex:
            print('bad fragment', f, ex)
    return m

def agent_subjects():
    """short hash on agent branches -> subject"""
    out = subprocess.run(['git', '-C', '/repo', 'log', '--all', '--format=%h\t%s'], capture_output=True, text=True).stdout
    return dict(l.split('\t', 1) for l in out.splitlines() if '\t' in l)

def main():
    mode = sys.argv[1] if len(sys.argv) > 1 else 'check'
    kf = json.load(open(KF))
    listed = {e.get('commit', '')[:7]: e for e in kf['findings'] if e.get('status') == 'fixed'}
    by_subject = {e.get('subject'): e for e in kf['findings'] if e.get('status') == 'fixed' and e.get('subject')}
    frag = fragments()
    subj = agent_subjects()
    frag_by_subject = {}
    for h, es in frag.items():
        s = subj.get(h)
        if s:
            frag_by_subject.setdefault(s, []).extend(es)
    missing = []
    for h, s in fix_commits():
        if s in by_subject:
            for e in kf['findings']:
                if e.get('subject') == s:
                    e['commit'] = h
            continue
        if mode != 'sync':
            missing.append((h, s))
            continue
        ents = frag_by_subject.get(s)
        if ents:
            for e in ents:
                kf['findings'].append({'property': e['property'], 'id': e['id'], 'status': 'fixed', 'commit': h, 'subject': s, 'what': e.get('what', s)})
            continue
        for pre, (prop, fid) in FIXMAP:
            if s.startswith(pre):
                kf['findings'].append({'property': prop, 'id': fid, 'status': 'fixed', 'commit': h, 'subject': s, 'what': s[5:]})
                break
        else:
            missing.append((h, s))
    if mode == 'sync':
        json.dump(kf, open(KF, 'w'), indent=1)
    for h, s in missing:
        print('NOT LISTED:', h, s)
    return 1 if missing else 0

def table():
    kf = json.load(open(KF))
    rows = ['| id | property | status | commit | what |', '|---|---|---|---|---|']
    for f in sorted(kf['findings'], key=lambda x: (x['property'], x['id'])):
        rows.append('| %s | %s | %s | %s | %s |' % (f['id'], f['property'], f['status'], f.get('commit', ''), f['what'].replace('|', '/')[:220]))
    d = open('/verif/DESIGN.md').read()
    a, b = d.index('<!-- FINDINGS-BEGIN -->'), d.index('<!-- FINDINGS-END -->')
    d = d[:a] + '<!-- FINDINGS-BEGIN -->\n' + '\n'.join(rows) + '\n' + d[b:]
    open('/verif/DESIGN.md', 'w').write(d)
    print(len(rows) - 2, 'findings written to DESIGN.md')


if len(sys.argv) > 1 and sys.argv[1] == 'table':
    table()
    sys.exit(0)
sys.exit(main())
