#!/bin/bash
# seedallc.sh <NN:checks>... : round-3 candidates (/tmp/mutdNN-work) -> seeded/CNN-cmK, sequentially
mkdir -p /verif/.build/seedlogd
for spec in "$@"; do
  p=${spec%%:*}; checks=${spec##*:}
  for d in /tmp/mutd$p-work/m1 /tmp/mutd$p-work/m2 /tmp/mutd$p-work/m3 /tmp/mutd$p-work/*extra*; do
    [ -f $d/patch.diff ] || continue
    m=$(basename $d | sed 's/extra[-_]*//')
    SEEDED_JOBS=${SEEDED_JOBS:-6} python3 /verif/tools_seeded.py add $d C$p-d$m C$p $checks 2>&1 | tail -1 | cut -c1-220 | tee -a /verif/.build/seedlogd/out.txt
  done
done
