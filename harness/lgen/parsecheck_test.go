package lgen

import (
	"strings"
	"testing"

	"pgregory.net/rapid"

	"verif/luaref"
)

// TestPrintedProgramsParse: every program the generator prints, under every layout, must be accepted by the reference parser.
func TestPrintedProgramsParse(t *testing.T) {
	profiles := AllProfiles()
	rapid.Check(t, func(rt *rapid.T) {
		p := profiles[rapid.IntRange(0, len(profiles)-1).Draw(rt, "profile")]
		g := New(rt, p)
		b := g.Program()
		lay := &Layout{Ch: g, Wild: true, Spell: true, Semis: true, Parens: true, CRLF: rapid.IntRange(0, 3).Draw(rt, "crlf")}
		src := Print(b, lay)
		if _, err := luaref.Parse(src); err != nil {
			se := err.(*luaref.SyntaxError)
			lines := strings.FieldsFunc(src, func(r rune) bool { return r == '\n' || r == '\r' })
			_ = lines
			t.Fatalf("%v\n%q", err, around(src, se.Line))
		}
	})
}

func around(src string, line int) string {
	// lines as the lexer counts them
	n := 1
	start := 0
	for i := 0; i < len(src) && n < line-1; i++ {
		if src[i] == '\n' || src[i] == '\r' {
			if i+1 < len(src) && (src[i+1] == '\n' || src[i+1] == '\r') && src[i+1] != src[i] {
				i++
			}
			n++
			start = i + 1
		}
	}
	end := start + 300
	if end > len(src) {
		end = len(src)
	}
	return src[start:end]
}
