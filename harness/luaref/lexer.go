package luaref

import (
	"fmt"
	"strconv"
	"strings"
)

// SyntaxError is what Parse returns for texts outside the grammar.
type SyntaxError struct {
	Line int
	Msg  string
}

func (e *SyntaxError) Error() string { return fmt.Sprintf("line %d: %s", e.Line, e.Msg) }

type tokKind int

const (
	tEOF tokKind = iota
	tName
	tNumber
	tString
	tKeyword
	tOp
)

type token struct {
	kind tokKind
	s    string  // name, keyword, operator text, or string value
	n    float64 // number value
	text string  // numeral spelling
	line int
}

var keywords = map[string]bool{
	"and": true, "break": true, "do": true, "else": true, "elseif": true, "end": true, "false": true, "for": true,
	"function": true, "goto": true, "if": true, "in": true, "local": true, "nil": true, "not": true, "or": true,
	"repeat": true, "return": true, "then": true, "true": true, "until": true, "while": true,
}

type lexer struct {
	src  string
	pos  int
	line int
}

func (lx *lexer) errf(format string, a ...any) {
	panic(&SyntaxError{lx.line, fmt.Sprintf(format, a...)})
}

func (lx *lexer) cur() int {
	if lx.pos >= len(lx.src) {
		return -1
	}
	return int(lx.src[lx.pos])
}
func (lx *lexer) at(i int) int {
	if lx.pos+i >= len(lx.src) {
		return -1
	}
	return int(lx.src[lx.pos+i])
}

func isNewline(c int) bool { return c == '\n' || c == '\r' }
func isDigit(c int) bool   { return c >= '0' && c <= '9' }
func isAlpha(c int) bool {
	return c >= 'a' && c <= 'z' || c >= 'A' && c <= 'Z' || c == '_'
}
func isAlnum(c int) bool { return isAlpha(c) || isDigit(c) }
func isHex(c int) bool {
	return isDigit(c) || c >= 'a' && c <= 'f' || c >= 'A' && c <= 'F'
}
func isSpace(c int) bool {
	return c == ' ' || c == '\t' || c == '\n' || c == '\r' || c == '\f' || c == '\v'
}

// incLine consumes one line end: \n, \r, \r\n or \n\r.
func (lx *lexer) incLine() {
	old := lx.cur()
	lx.pos++
	if isNewline(lx.cur()) && lx.cur() != old {
		lx.pos++
	}
	lx.line++
}

// skipSep: at '[' (or ']'), counts '=' and returns the level if followed by the same bracket, else -(count)-1.
func (lx *lexer) skipSep() int {
	s := lx.cur()
	i := 1
	count := 0
	for lx.at(i) == '=' {
		i++
		count++
	}
	if lx.at(i) == s {
		return count
	}
	return -count - 1
}

func (lx *lexer) readLong(level int, isComment bool) string {
	startLine := lx.line
	lx.pos += level + 2 // opening bracket
	if isNewline(lx.cur()) {
		lx.incLine()
	}
	var b strings.Builder
	for {
		c := lx.cur()
		switch {
		case c == -1:
			what := "string"
			if isComment {
				what = "comment"
			}
			lx.line = startLine
			lx.errf("unfinished long %s", what)
		case c == ']':
			if lx.skipSep() == level {
				lx.pos += level + 2
				return b.String()
			}
			b.WriteByte(']')
			lx.pos++
		case isNewline(c):
			b.WriteByte('\n')
			lx.incLine()
		default:
			b.WriteByte(byte(c))
			lx.pos++
		}
	}
}

func (lx *lexer) readString(quote int) string {
	lx.pos++
	var b strings.Builder
	for {
		c := lx.cur()
		switch {
		case c == quote:
			lx.pos++
			return b.String()
		case c == -1:
			lx.errf("unfinished string")
		case isNewline(c):
			lx.errf("unfinished string")
		case c == '\\':
			lx.pos++
			e := lx.cur()
			switch {
			case e == 'a':
				b.WriteByte('\a')
				lx.pos++
			case e == 'b':
				b.WriteByte('\b')
				lx.pos++
			case e == 'f':
				b.WriteByte('\f')
				lx.pos++
			case e == 'n':
				b.WriteByte('\n')
				lx.pos++
			case e == 'r':
				b.WriteByte('\r')
				lx.pos++
			case e == 't':
				b.WriteByte('\t')
				lx.pos++
			case e == 'v':
				b.WriteByte('\v')
				lx.pos++
			case isNewline(e):
				b.WriteByte('\n')
				lx.incLine()
			case e == -1:
				lx.errf("unfinished string")
			case isDigit(e):
				v := 0
				for i := 0; i < 3 && isDigit(lx.cur()); i++ {
					v = v*10 + (lx.cur() - '0')
					lx.pos++
				}
				if v > 255 {
					lx.errf("escape sequence too large")
				}
				b.WriteByte(byte(v))
			default:
				b.WriteByte(byte(e))
				lx.pos++
			}
		default:
			b.WriteByte(byte(c))
			lx.pos++
		}
	}
}

// ParseNumeral is the strict Lua 5.1 numeral reader: decimal with optional fraction and exponent,
// or 0x followed by hexadecimal digits.  ok=false when s is not a numeral.
func ParseNumeral(s string) (float64, bool) {
	if len(s) > 2 && s[0] == '0' && (s[1] == 'x' || s[1] == 'X') {
		h := s[2:]
		for i := 0; i < len(h); i++ {
			if !isHex(int(h[i])) {
				return 0, false
			}
		}
		if len(h) > 13 { // keep exact in float64; larger values are not needed
			v := 0.0
			for i := 0; i < len(h); i++ {
				d, _ := strconv.ParseUint(h[i:i+1], 16, 8)
				v = v*16 + float64(d)
			}
			return v, true
		}
		u, err := strconv.ParseUint(h, 16, 64)
		if err != nil {
			return 0, false
		}
		return float64(u), true
	}
	i := 0
	nd := 0
	for i < len(s) && isDigit(int(s[i])) {
		i++
		nd++
	}
	if i < len(s) && s[i] == '.' {
		i++
		for i < len(s) && isDigit(int(s[i])) {
			i++
			nd++
		}
	}
	if nd == 0 {
		return 0, false
	}
	if i < len(s) && (s[i] == 'e' || s[i] == 'E') {
		i++
		if i < len(s) && (s[i] == '+' || s[i] == '-') {
			i++
		}
		ne := 0
		for i < len(s) && isDigit(int(s[i])) {
			i++
			ne++
		}
		if ne == 0 {
			return 0, false
		}
	}
	if i != len(s) {
		return 0, false
	}
	t := s
	if strings.HasSuffix(t, ".") {
		t += "0"
	}
	if strings.HasPrefix(t, ".") {
		t = "0" + t
	}
	t = strings.Replace(t, ".e", ".0e", 1)
	t = strings.Replace(t, ".E", ".0E", 1)
	v, err := strconv.ParseFloat(t, 64)
	if err != nil {
		// out of range gives ±Inf with err; that is what strtod gives too
		if ne, ok := err.(*strconv.NumError); ok && ne.Err == strconv.ErrRange {
			return v, true
		}
		return 0, false
	}
	return v, true
}

func (lx *lexer) readNumber() token {
	start := lx.pos
	// llex.c read_numeral: digits and '.', then optional exponent mark with sign, then alnum/_ run
	for isDigit(lx.cur()) || lx.cur() == '.' {
		lx.pos++
	}
	if c := lx.cur(); c == 'E' || c == 'e' {
		lx.pos++
		if c := lx.cur(); c == '+' || c == '-' {
			lx.pos++
		}
	}
	for isAlnum(lx.cur()) {
		lx.pos++
	}
	text := lx.src[start:lx.pos]
	v, ok := ParseNumeral(text)
	if !ok {
		lx.errf("malformed number near '%s'", text)
	}
	return token{kind: tNumber, n: v, text: text, line: lx.line}
}

func (lx *lexer) next() token {
	for {
		c := lx.cur()
		switch {
		case c == -1:
			return token{kind: tEOF, line: lx.line}
		case isNewline(c):
			lx.incLine()
		case isSpace(c):
			lx.pos++
		case c == '-':
			if lx.at(1) != '-' {
				lx.pos++
				return token{kind: tOp, s: "-", line: lx.line}
			}
			lx.pos += 2
			if lx.cur() == '[' {
				if lvl := lx.skipSep(); lvl >= 0 {
					lx.readLong(lvl, true)
					continue
				}
			}
			for lx.cur() != -1 && !isNewline(lx.cur()) {
				lx.pos++
			}
		case c == '[':
			lvl := lx.skipSep()
			if lvl >= 0 {
				line := lx.line
				s := lx.readLong(lvl, false)
				return token{kind: tString, s: s, line: line}
			}
			if lvl == -1 {
				lx.pos++
				return token{kind: tOp, s: "[", line: lx.line}
			}
			lx.errf("invalid long string delimiter")
		case c == '=':
			if lx.at(1) == '=' {
				lx.pos += 2
				return token{kind: tOp, s: "==", line: lx.line}
			}
			lx.pos++
			return token{kind: tOp, s: "=", line: lx.line}
		case c == '<':
			if lx.at(1) == '=' {
				lx.pos += 2
				return token{kind: tOp, s: "<=", line: lx.line}
			}
			lx.pos++
			return token{kind: tOp, s: "<", line: lx.line}
		case c == '>':
			if lx.at(1) == '=' {
				lx.pos += 2
				return token{kind: tOp, s: ">=", line: lx.line}
			}
			lx.pos++
			return token{kind: tOp, s: ">", line: lx.line}
		case c == '~':
			if lx.at(1) == '=' {
				lx.pos += 2
				return token{kind: tOp, s: "~=", line: lx.line}
			}
			lx.errf("unexpected symbol near '~'")
		case c == ':':
			if lx.at(1) == ':' {
				lx.pos += 2
				return token{kind: tOp, s: "::", line: lx.line}
			}
			lx.pos++
			return token{kind: tOp, s: ":", line: lx.line}
		case c == '"' || c == '\'':
			line := lx.line
			s := lx.readString(c)
			return token{kind: tString, s: s, line: line}
		case c == '.':
			if lx.at(1) == '.' {
				if lx.at(2) == '.' {
					lx.pos += 3
					return token{kind: tOp, s: "...", line: lx.line}
				}
				lx.pos += 2
				return token{kind: tOp, s: "..", line: lx.line}
			}
			if isDigit(lx.at(1)) {
				return lx.readNumber()
			}
			lx.pos++
			return token{kind: tOp, s: ".", line: lx.line}
		case isDigit(c):
			return lx.readNumber()
		case isAlpha(c):
			start := lx.pos
			for isAlnum(lx.cur()) {
				lx.pos++
			}
			w := lx.src[start:lx.pos]
			if keywords[w] {
				return token{kind: tKeyword, s: w, line: lx.line}
			}
			return token{kind: tName, s: w, line: lx.line}
		default:
			if strings.ContainsRune("+*/%^#(){}];,", rune(c)) {
				lx.pos++
				return token{kind: tOp, s: string(rune(c)), line: lx.line}
			}
			lx.errf("unexpected symbol near byte %d", c)
		}
	}
}
