// Package e1 is the differential engine: run one source text on the reference interpreter (luaref)
// and on gopher-lua with identical host functions, and compare the observable traces under the
// opacity rules of DESIGN.md 1.2.
package e1

import (
	"os"
	"context"
	"fmt"
	"math"
	"regexp"
	"strconv"
	"strings"
	"time"

	lua "github.com/yuin/gopher-lua"

	"verif/luaref"
)

// ---- gopher-lua side

type GEvent struct {
	Kind string
	Vals []lua.LValue
}

type GOutcome struct {
	Trace   []GEvent
	Results []lua.LValue
	Failed  bool
	Err     lua.LValue // error object
	ErrText string
	Panic   string // non-empty: a Go panic escaped DoString
	Snaps   []Snap
	Overrun string // non-empty: the run was stopped by the instruction or event budget
	Polls   int64
}

// budgetCtx is a context whose Done() counts the VM's polls (one per dispatched instruction of the thread it is
// attached to) and cancels itself after limit polls: a deterministic instruction budget.  It wraps a real cancelCtx
// and hands out that context's own Done channel, so contexts derived by NewThread attach to it synchronously.
type budgetCtx struct {
	context.Context
	cancel context.CancelFunc
	n      int64
	limit  int64
	fired  bool
}

func newBudgetCtx(limit int64) *budgetCtx {
	c, cancel := context.WithCancel(context.Background())
	return &budgetCtx{Context: c, cancel: cancel, limit: limit}
}

func (b *budgetCtx) Done() <-chan struct{} {
	b.n++
	if b.n > b.limit && !b.fired {
		b.fired = true
		b.cancel()
	}
	return b.Context.Done()
}

type GOpts struct {
	// Budget > 0 attaches a counting context that stops the run after that many VM instructions of the main thread
	// (and MaxEvents > 0 stops it when the trace grows beyond that many events).  A run that is stopped is reported
	// through GOutcome.Overrun.
	Budget    int64
	MaxEvents int
	Options   lua.Options
	// Proto, when set, is run instead of loading src (a prototype shared between states); OnEmit is called at the start
	// of every emit (used to perturb goroutine schedules).
	Proto  *lua.FunctionProto
	OnEmit func()
	Ctx       context.Context
	Setup     func(L *lua.LState, out *GOutcome) // extra host functions
	After     func(L *lua.LState, out *GOutcome)
	Args      []lua.LValue
	KeepOpen  bool
	// Shebang, when non-empty, makes the program come from a file whose first line is this text (it must start with
	// '#'): LState.LoadFile skips that line and the line numbers stay those of the file
	Shebang string
}

// RunGopher loads and runs src in a fresh state.
func RunGopher(src string, o *GOpts) (out *GOutcome) {
	out = &GOutcome{}
	var opts lua.Options
	if o != nil {
		opts = o.Options
	}
	L := lua.NewState(opts)
	defer func() {
		if r := recover(); r != nil {
			out.Panic = fmt.Sprint(r)
		}
		if o == nil || !o.KeepOpen {
			func() {
				defer func() { recover() }()
				L.Close()
			}()
		}
	}()
	var bc *budgetCtx
	if o != nil && o.Ctx != nil {
		L.SetContext(o.Ctx)
	} else if o != nil && o.Budget > 0 {
		bc = newBudgetCtx(o.Budget)
		defer bc.cancel()
		L.SetContext(bc)
		defer func() {
			out.Polls = bc.n
			if bc.fired && out.Overrun == "" {
				out.Overrun = fmt.Sprintf("more than %d VM instructions", o.Budget)
			}
		}()
	}
	L.SetGlobal("emit", L.NewFunction(func(L *lua.LState) int {
		if o != nil && o.OnEmit != nil {
			o.OnEmit()
		}
		n := L.GetTop()
		vals := make([]lua.LValue, n)
		for i := 1; i <= n; i++ {
			vals[i-1] = L.Get(i)
		}
		out.Trace = append(out.Trace, GEvent{"emit", vals})
		if bc != nil && o.MaxEvents > 0 && len(out.Trace) > o.MaxEvents && !bc.fired {
			bc.fired = true
			out.Overrun = fmt.Sprintf("more than %d trace events", o.MaxEvents)
			bc.cancel()
		}
		return 0
	}))
	registerHost(L)
	L.SetGlobal("snap", L.NewFunction(func(L *lua.LState) int {
		label := L.OptString(1, "")
		s := lua.VerifSnapshot(L)
		out.Snaps = append(out.Snaps, Snap{Label: label, Thread: fmt.Sprintf("%p", L), S: s})
		return 0
	}))
	L.SetGlobal("emitline", L.NewFunction(func(L *lua.LState) int {
		n := L.GetTop()
		vals := make([]lua.LValue, n)
		for i := 1; i <= n; i++ {
			vals[i-1] = L.Get(i)
		}
		out.Trace = append(out.Trace, GEvent{"line", vals})
		return 0
	}))
	if o != nil && o.Setup != nil {
		o.Setup(L, out)
	}
	var fn *lua.LFunction
	var err error
	if o != nil && o.Proto != nil {
		fn = L.NewFunctionFromProto(o.Proto)
	} else {
		if o != nil && o.Shebang != "" {
			fn, err = loadFromFile(L, o.Shebang+"\n"+src)
		} else {
			fn, err = L.LoadString(src)
		}
	}
	if err != nil {
		out.Failed = true
		out.ErrText = "LOAD: " + err.Error()
		out.Err = lua.LString(out.ErrText)
		return out
	}
	L.Push(fn)
	nargs := 0
	if o != nil {
		for _, a := range o.Args {
			L.Push(a)
			nargs++
		}
	}
	base := L.GetTop() - nargs - 1
	err = L.PCall(nargs, lua.MultRet, nil)
	if err != nil {
		out.Failed = true
		out.ErrText = err.Error()
		if ae, ok := err.(*lua.ApiError); ok {
			out.Err = ae.Object
		} else {
			out.Err = lua.LString(err.Error())
		}
	} else {
		for i := base + 1; i <= L.GetTop(); i++ {
			out.Results = append(out.Results, L.Get(i))
		}
	}
	if o != nil && o.After != nil {
		o.After(L, out)
	}
	return out
}

var fileDir string

// loadFromFile writes text to a file called "<string>" (so that the chunk name is the one every message is compared
// with) in a scratch directory that becomes the working directory, and loads it with LoadFile.
func loadFromFile(L *lua.LState, text string) (*lua.LFunction, error) {
	if fileDir == "" {
		d := os.Getenv("VERIF_SCRATCH")
		if d == "" {
			d = os.TempDir()
		}
		d, err := os.MkdirTemp(d, "e1file")
		if err != nil {
			return nil, err
		}
		if err := os.Chdir(d); err != nil {
			return nil, err
		}
		fileDir = d
	}
	if err := os.WriteFile("<string>", []byte(text), 0o644); err != nil {
		return nil, err
	}
	return L.LoadFile("<string>")
}

// ---- reference side

type ROutcome struct {
	luaref.Outcome
	Trace    []luaref.TraceEvent
	ParseErr error
	In       *luaref.Interp
	Info     luaref.ParseInfo
}

type ROpts struct {
	Setup  func(in *luaref.Interp)
	Budget int
	Args   []luaref.Value
}

func RunRef(src string, o *ROpts) *ROutcome {
	out := &ROutcome{}
	main, err := luaref.Parse(src)
	if err != nil {
		out.ParseErr = err
		return out
	}
	out.Info = main.Info
	in := luaref.NewInterp()
	if o != nil && o.Budget > 0 {
		in.Budget = o.Budget
	}
	if o != nil && o.Setup != nil {
		o.Setup(in)
	}
	var args []luaref.Value
	if o != nil {
		args = o.Args
	}
	out.Outcome = in.Run(main, args...)
	out.Trace = in.Trace
	out.In = in
	return out
}

// ---- comparison

type ids struct {
	r    map[any]int
	g    map[lua.LValue]int
	next int
}

func newIDs() *ids { return &ids{r: map[any]int{}, g: map[lua.LValue]int{}} }

var posRe = regexp.MustCompile(`^<string>:(\d+): `)

// ShowR renders a reference value for messages.
func ShowR(v luaref.Value) string {
	switch x := v.(type) {
	case nil:
		return "nil"
	case bool:
		return fmt.Sprint(x)
	case float64:
		return fmt.Sprintf("%v(%016x)", x, math.Float64bits(x))
	case string:
		return strconv.Quote(x)
	case *luaref.ONum:
		return fmt.Sprintf("<line %d..%d>", x.Lo, x.Hi)
	case *luaref.OStr:
		if x.Kind == "addr" {
			return "<" + x.Prefix + "ADDR>"
		}
		s := "<error string"
		if x.HasPos {
			s += fmt.Sprintf(" at line %d..%d", x.Lo, x.Hi)
		}
		if x.MsgKnown {
			s += " msg=" + strconv.Quote(x.Msg)
		}
		return s + ">"
	}
	return "<" + luaref.TypeName(v) + ">"
}

func ShowG(v lua.LValue) string {
	switch x := v.(type) {
	case lua.LNumber:
		return fmt.Sprintf("%v(%016x)", float64(x), math.Float64bits(float64(x)))
	case lua.LString:
		return strconv.Quote(string(x))
	case *lua.LNilType:
		return "nil"
	case lua.LBool:
		return fmt.Sprint(bool(x))
	}
	if v == nil {
		return "<Go nil>"
	}
	return "<" + v.Type().String() + ">"
}

func (d *ids) match(rv luaref.Value, gv lua.LValue) error {
	if gv == nil {
		return fmt.Errorf("gopher-lua produced a Go nil value where the reference has %s", ShowR(rv))
	}
	mism := func() error { return fmt.Errorf("reference %s, gopher-lua %s", ShowR(rv), ShowG(gv)) }
	switch x := rv.(type) {
	case nil:
		if gv != lua.LNil {
			return mism()
		}
	case bool:
		b, ok := gv.(lua.LBool)
		if !ok || bool(b) != x {
			return mism()
		}
	case float64:
		n, ok := gv.(lua.LNumber)
		if !ok {
			return mism()
		}
		if x != x {
			if float64(n) == float64(n) {
				return mism()
			}
		} else if math.Float64bits(x) != math.Float64bits(float64(n)) {
			return mism()
		}
	case string:
		s, ok := gv.(lua.LString)
		if !ok || string(s) != x {
			return mism()
		}
	case *luaref.ONum:
		n, ok := gv.(lua.LNumber)
		if !ok || float64(n) != math.Floor(float64(n)) || int(n) < x.Lo || int(n) > x.Hi {
			return fmt.Errorf("reference: a line in %d..%d, gopher-lua %s", x.Lo, x.Hi, ShowG(gv))
		}
	case *luaref.OStr:
		if x.Kind == "any" {
			return nil // a value no property fixes (e.g. what xpcall returns when its handler fails too)
		}
		s, ok := gv.(lua.LString)
		if !ok {
			return mism()
		}
		if x.Kind == "addr" {
			if !strings.HasPrefix(string(s), x.Prefix) {
				return mism()
			}
			return nil
		}
		if strings.HasPrefix(string(s), "[G]:") {
			// a position prefix that names a host function instead of a line of the running statement
			return fmt.Errorf("reference %s, gopher-lua %s: the position prefix names a host function", ShowR(rv), ShowG(gv))
		}
		if x.HasPos {
			m := posRe.FindStringSubmatch(string(s))
			if m == nil {
				return fmt.Errorf("reference %s, gopher-lua %s: no <string>:line: prefix", ShowR(rv), ShowG(gv))
			}
			line, _ := strconv.Atoi(m[1])
			if line < x.Lo || line > x.Hi {
				return fmt.Errorf("reference %s, gopher-lua %s: line outside the statement's span", ShowR(rv), ShowG(gv))
			}
			if x.MsgKnown && string(s)[len(m[0]):] != x.Msg {
				return fmt.Errorf("reference %s, gopher-lua %s: message text differs", ShowR(rv), ShowG(gv))
			}
		}
	default:
		// reference types: identity numbering by first appearance
		wantType := luaref.TypeName(rv)
		if gv.Type().String() != wantType {
			return mism()
		}
		rid, rok := d.r[rv]
		gid, gok := d.g[gv]
		if rok != gok || rok && rid != gid {
			return fmt.Errorf("identity mismatch: reference %s#%d(seen=%v), gopher-lua %s#%d(seen=%v)", wantType, rid, rok, gv.Type(), gid, gok)
		}
		if !rok {
			d.next++
			d.r[rv] = d.next
			d.g[gv] = d.next
		}
	}
	return nil
}

type Verdict int

const (
	Equal Verdict = iota
	Differ
	Discard
)

// Compare compares the two outcomes.  detail describes the first difference.
func Compare(r *ROutcome, g *GOutcome) (Verdict, string) {
	if r.ParseErr != nil {
		return Discard, "reference parser rejected the text: " + r.ParseErr.Error()
	}
	if r.Unspecified != "" {
		return Discard, r.Unspecified
	}
	if g.Panic != "" {
		return Differ, "a Go panic escaped gopher-lua: " + g.Panic
	}
	if g.Overrun != "" {
		return Differ, fmt.Sprintf("gopher-lua did not finish where the reference did (%s; reference: %d steps, %d events)", g.Overrun, r.In.Steps, len(r.Trace))
	}
	if strings.HasPrefix(g.ErrText, "LOAD: ") {
		return Differ, "gopher-lua rejected a text the reference accepts: " + g.ErrText
	}
	d := newIDs()
	n := len(r.Trace)
	if len(g.Trace) < n {
		n = len(g.Trace)
	}
	for i := 0; i < n; i++ {
		re, ge := r.Trace[i], g.Trace[i]
		if re.Kind != ge.Kind {
			return Differ, fmt.Sprintf("trace event %d: kind %s vs %s", i, re.Kind, ge.Kind)
		}
		if len(re.Vals) != len(ge.Vals) {
			return Differ, fmt.Sprintf("trace event %d: %d values vs %d: ref %s, gopher-lua %s", i, len(re.Vals), len(ge.Vals), showRs(re.Vals), showGs(ge.Vals))
		}
		for j := range re.Vals {
			if err := d.match(re.Vals[j], ge.Vals[j]); err != nil {
				return Differ, fmt.Sprintf("trace event %d value %d: %v", i, j, err)
			}
		}
	}
	if len(r.Trace) != len(g.Trace) {
		extra := ""
		if len(r.Trace) > n {
			extra = "reference continues with " + showRs(r.Trace[n].Vals)
		} else {
			extra = "gopher-lua continues with " + showGs(g.Trace[n].Vals)
		}
		return Differ, fmt.Sprintf("trace length %d (reference) vs %d (gopher-lua); %s; ref failed=%v(%s) gopher failed=%v(%s)", len(r.Trace), len(g.Trace), extra,
			r.Failed, ShowR(r.Err), g.Failed, g.ErrText)
	}
	if r.Failed != g.Failed {
		return Differ, fmt.Sprintf("reference failed=%v (%s), gopher-lua failed=%v (%s)", r.Failed, ShowR(r.Err), g.Failed, g.ErrText)
	}
	if r.Failed {
		if err := d.match(r.Err, g.Err); err != nil {
			return Differ, "error value: " + err.Error()
		}
		return Equal, ""
	}
	if len(r.Results) != len(g.Results) {
		return Differ, fmt.Sprintf("chunk results: %s vs %s", showRs(r.Results), showGs(g.Results))
	}
	for j := range r.Results {
		if err := d.match(r.Results[j], g.Results[j]); err != nil {
			return Differ, fmt.Sprintf("chunk result %d: %v", j, err)
		}
	}
	return Equal, ""
}

func showRs(vs []luaref.Value) string {
	var p []string
	for _, v := range vs {
		p = append(p, ShowR(v))
	}
	return "[" + strings.Join(p, ", ") + "]"
}

func showGs(vs []lua.LValue) string {
	var p []string
	for _, v := range vs {
		p = append(p, ShowG(v))
	}
	return "[" + strings.Join(p, ", ") + "]"
}

// Diff runs src on both sides with default options and compares.
func Diff(src string) (Verdict, string, *ROutcome, *GOutcome) {
	r := RunRef(src, nil)
	if r.ParseErr != nil || r.Unspecified != "" {
		v, d := Compare(r, &GOutcome{})
		return v, d, r, nil
	}
	g := RunGopher(src, BudgetFor(r))
	v, d := Compare(r, g)
	return v, d, r, g
}

// DiffShebang is Diff with the program loaded from a file that starts with a '#' line; the reference sees a comment
// line in its place.
func DiffShebang(src string) (Verdict, string, *ROutcome, *GOutcome) {
	r := RunRef("-- first line\n"+src, nil)
	if r.ParseErr != nil || r.Unspecified != "" {
		v, d := Compare(r, &GOutcome{})
		return v, d, r, nil
	}
	o := BudgetFor(r)
	o.Shebang = "#!/usr/bin/env lua -- skipped by LoadFile"
	g := RunGopher(src, o)
	v, d := Compare(r, g)
	return v, d, r, g
}

// BudgetFor derives the gopher-lua side's instruction and event budget from what the reference needed.
func BudgetFor(r *ROutcome) *GOpts {
	steps := int64(1000)
	if r.In != nil {
		steps = int64(r.In.Steps)
	}
	return &GOpts{Budget: 400*steps + 3_000_000, MaxEvents: len(r.Trace) + 3}
}

// registerHost mirrors luaref's openHost.
func registerHost(L *lua.LState) {
	L.SetGlobal("hostf", L.NewFunction(func(L *lua.LState) int {
		r := L.CheckInt(1)
		n := L.GetTop() - 1
		for i := 2; i <= n+1; i++ {
			L.Push(L.Get(i)) // pushes more than it returns
		}
		if r < 0 {
			r = 0
		}
		if r > n {
			r = n
		}
		return r
	}))
	L.SetGlobal("hostcall", L.NewFunction(func(L *lua.LState) int {
		n := L.GetTop()
		L.CheckAny(1)
		L.Call(n-1, lua.MultRet) // consumes the function and its arguments
		return L.GetTop()
	}))
	L.SetGlobal("newud", L.NewFunction(func(L *lua.LState) int {
		ud := L.NewUserData()
		ud.Value = "verif"
		if t, ok := L.Get(1).(*lua.LTable); ok {
			L.SetMetatable(ud, t)
		}
		L.Push(ud)
		return 1
	}))
	L.SetGlobal("hostpcall", L.NewFunction(func(L *lua.LState) int {
		n := L.GetTop()
		L.CheckAny(1)
		if err := L.PCall(n-1, lua.MultRet, nil); err != nil {
			L.SetTop(0)
			L.Push(lua.LFalse)
			if ae, ok := err.(*lua.ApiError); ok {
				L.Push(ae.Object)
			} else {
				L.Push(lua.LString(err.Error()))
			}
			return 2
		}
		L.Insert(lua.LTrue, 1)
		return L.GetTop()
	}))
	L.SetGlobal("hostraise", L.NewFunction(func(L *lua.LState) int {
		L.RaiseError("host function failed")
		return 0
	}))
	L.SetGlobal("hostyield", L.NewFunction(func(L *lua.LState) int {
		vals := []lua.LValue{lua.LString("host1"), lua.LString("host2")}
		for i := 1; i <= L.GetTop(); i++ {
			vals = append(vals, L.Get(i))
		}
		return L.Yield(vals...)
	}))
	L.SetGlobal("hostresume", L.NewFunction(func(L *lua.LState) int {
		fn := L.CheckFunction(1)
		var args []lua.LValue
		for i := 2; i <= L.GetTop(); i++ {
			args = append(args, L.Get(i))
		}
		th, _ := L.NewThread()
		top := L.GetTop()
		for {
			st, err, vals := L.Resume(th, fn, args...)
			if L.GetTop() != top {
				// (a Go panic: shows up as a failure no Lua program produces)
				panic(fmt.Sprintf("host: LState.Resume changed the resuming function's stack height from %d to %d", top, L.GetTop()))
			}
			switch st {
			case lua.ResumeError:
				L.Push(lua.LFalse)
				if ae, ok := err.(*lua.ApiError); ok {
					L.Push(ae.Object)
				} else {
					L.Push(lua.LString(err.Error()))
				}
				return 2
			case lua.ResumeOK:
				L.Push(lua.LTrue)
				for _, v := range vals {
					L.Push(v)
				}
				return 1 + len(vals)
			}
			args = nil
		}
	}))
	L.SetGlobal("hoststackoverflow", L.NewFunction(func(L *lua.LState) int {
		// unbounded (non-tail) recursion, entered through the Go API: fails with the call-stack overflow error
		f, err := L.LoadString("local function r(n) return 1 + r(n + 1) end return r(1)")
		if err != nil {
			panic(err)
		}
		L.Push(f)
		L.Call(0, 0)
		return 0
	}))
	L.SetGlobal("hostregoverflow", L.NewFunction(func(L *lua.LState) int {
		// a host function that pushes results until the value stack is full
		for i := 0; i < 1<<26; i++ {
			L.Push(lua.LNumber(i))
		}
		return 0
	}))
	L.SetGlobal("hostpanic", L.NewFunction(func(L *lua.LState) int {
		panic("host function panicked")
	}))
	L.SetGlobal("hostnilpanic", L.NewFunction(func(L *lua.LState) int {
		var m map[string]int
		m["x"] = 1 // Go run-time panic
		return 0
	}))
}

// Snap is one sample of the interpreter's internal state taken by the snap(label) host function.
type Snap struct {
	Label  string
	Thread string
	S      lua.VerifSnap
}

// CheckSnaps: samples with the same label taken in the same thread must agree on call depth, value-stack height,
// frame, handler flag and the set of open upvalues; every open upvalue must lie below the registry top and the list
// must be sorted.  Returns a description of the first violation.
func CheckSnaps(snaps []Snap) string {
	firstOf := map[string]Snap{}
	for _, s := range snaps {
		if !s.S.UpvaluesSorted {
			return fmt.Sprintf("snap %s: open-upvalue list is not sorted: %v", s.Label, s.S.OpenUpvalues)
		}
		for _, u := range s.S.OpenUpvalues {
			// the sample is taken inside the host function snap: the caller's registers all lie below the slot holding
			// the function (LocalBase-1); an open upvalue at or above it points into a frame that no longer exists
			if u >= s.S.LocalBase-1 {
				return fmt.Sprintf("snap %s: open upvalue at register %d, beyond the caller's registers (below %d): it points into a dead frame", s.Label, u, s.S.LocalBase-1)
			}
		}
		key := s.Thread + "/" + s.Label
		f, ok := firstOf[key]
		if !ok {
			firstOf[key] = s
			continue
		}
		delete(firstOf, key) // samples pair up: before, after, before, after, ...
		a, b := f.S, s.S
		// upvalues of the caller's own locals may have been opened in between (new closures), never closed
		sub := true
		have := map[int]bool{}
		for _, u := range b.OpenUpvalues {
			have[u] = true
		}
		for _, u := range a.OpenUpvalues {
			if !have[u] {
				sub = false
			}
		}
		if a.Sp != b.Sp || a.Top != b.Top || a.FrameIdx != b.FrameIdx || a.LocalBase != b.LocalBase || !sub {
			return fmt.Sprintf("snap %s: state before %+v differs from state after %+v", s.Label, a, b)
		}
	}
	return ""
}

// DiffArgs runs src on both sides with numeric chunk arguments and compares.
func DiffArgs(src string, args ...float64) (Verdict, string, *ROutcome, *GOutcome) {
	var ra []luaref.Value
	var ga []lua.LValue
	for _, a := range args {
		ra = append(ra, a)
		ga = append(ga, lua.LNumber(a))
	}
	r := RunRef(src, &ROpts{Args: ra})
	if r.ParseErr != nil || r.Unspecified != "" {
		v, d := Compare(r, &GOutcome{})
		return v, d, r, nil
	}
	o := BudgetFor(r)
	o.Args = ga
	g := RunGopher(src, o)
	v, d := Compare(r, g)
	return v, d, r, g
}

// GTraceStrings serialises a gopher-lua trace canonically (reference values by first-appearance identity), so that two
// runs of gopher-lua can be compared with each other.
func GTraceStrings(evs []GEvent) []string {
	ids := map[lua.LValue]int{}
	out := make([]string, 0, len(evs))
	for _, e := range evs {
		var b strings.Builder
		b.WriteString(e.Kind)
		for _, v := range e.Vals {
			b.WriteByte(' ')
			switch x := v.(type) {
			case lua.LNumber:
				f := float64(x)
				if f != f {
					b.WriteString("n:nan")
				} else {
					fmt.Fprintf(&b, "n:%016x", math.Float64bits(f))
				}
			case lua.LString:
				b.WriteString(strconv.Quote(string(x)))
			case lua.LBool:
				fmt.Fprint(&b, bool(x))
			case *lua.LNilType:
				b.WriteString("nil")
			default:
				if v == nil {
					b.WriteString("<Go nil>")
					break
				}
				id, ok := ids[v]
				if !ok {
					id = len(ids) + 1
					ids[v] = id
				}
				fmt.Fprintf(&b, "%s#%d", v.Type(), id)
			}
		}
		out = append(out, b.String())
	}
	return out
}

// OneShotCtx is a context whose Done() channel is closed on exactly its K-th call and open on every other call: it
// injects a single error at the K-th instruction dispatch of the thread it is attached to, without any source change.
type OneShotCtx struct {
	K     int64
	N     int64
	open  chan struct{}
	shut  chan struct{}
	Fired bool
}

func NewOneShotCtx(k int64) *OneShotCtx {
	c := &OneShotCtx{K: k, open: make(chan struct{}), shut: make(chan struct{})}
	close(c.shut)
	return c
}

func (c *OneShotCtx) Done() <-chan struct{} {
	c.N++
	if c.N == c.K {
		c.Fired = true
		return c.shut
	}
	return c.open
}
func (c *OneShotCtx) Err() error                        { return context.Canceled }
func (c *OneShotCtx) Deadline() (time.Time, bool)       { return time.Time{}, false }
func (c *OneShotCtx) Value(key interface{}) interface{} { return nil }
