#!/bin/bash
# seedalle.sh <NN:checks>... : round-5 candidates (/tmp/muteNN-work) -> seeded/CNN-emK, sequentially
mkdir -p /verif/.build/seedloge
for spec in "$@"; do
  p=${spec%%:*}; checks=${spec##*:}
  for d in /tmp/mute$p-work/m1 /tmp/mute$p-work/m2 /tmp/mute$p-work/m3 /tmp/mute$p-work/*extra*; do
    [ -f $d/patch.diff ] || continue
    m=$(basename $d | sed 's/extra[-_]*//')
    SEEDED_JOBS=${SEEDED_JOBS:-6} python3 /verif/tools_seeded.py add $d C$p-e$m C$p $checks 2>&1 | tail -1 | cut -c1-220 | tee -a /verif/.build/seedloge/out.txt
  done
done
