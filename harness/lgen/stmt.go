package lgen

import (
	"strconv"

	L "verif/luaref"
)

// Program generates a whole chunk.
func (g *Gen) Program() *L.Block {
	g.budget = 40 + g.n(g.P.MaxStmts*12+1, "budget")
	n := 2 + g.n(g.P.MaxStmts, "nstmts")
	ss := g.stmts(n, g.P.MaxDepth)
	// chunk results
	switch g.n(4, "chunkret") {
	case 0:
		ss = append(ss, ret(g.expr(KInt, 1), g.expr(KStr, 1)))
	case 1:
		ss = append(ss, ret(g.leaf(g.anyKind())))
	}
	return blk(ss...)
}

func (g *Gen) stmts(n, d int) []L.Stmt {
	var out []L.Stmt
	g.level++
	for i := 0; i < n; i++ {
		out = append(out, g.stmt(d)...)
	}
	g.level--
	return out
}

// atTop: generating a statement of the main chunk's outermost block.
func (g *Gen) atTop() bool { return g.level == 1 && g.fn.depth == 0 }

func (g *Gen) block(n, d int) *L.Block {
	m := g.mark()
	ss := g.stmts(n, d)
	g.release(m)
	return blk(ss...)
}

// emitSome emits a few visible variables / expressions.
func (g *Gen) emitSome(d int) L.Stmt {
	n := 1 + g.n(3, "nemit")
	var as []L.Expr
	for i := 0; i < n; i++ {
		k := g.anyKind()
		if k == KTab && g.n(2, "emittab") == 0 {
			k = KInt
		}
		as = append(as, g.expr(k, min(d, 2)))
	}
	return emit(as...)
}

func min(a, b int) int {
	if a < b {
		return a
	}
	return b
}

func (g *Gen) declKind() Kind {
	return []Kind{KInt, KInt, KInt, KStr, KStr, KBool, KNum, KTab, KFun, KAny}[g.n(10, "declkind")]
}

func (g *Gen) stmt(d int) []L.Stmt {
	if !g.spend() {
		return []L.Stmt{g.emitSome(1)}
	}
	if len(g.P.Templates) > 0 && g.pct(g.P.TemplatePc, "template") {
		t := g.P.Templates[g.n(len(g.P.Templates), "whichtemplate")]
		if ss := t(g); ss != nil {
			return ss
		}
	}
	if g.P.Stress > 0 && g.fn.depth == 0 && g.rare(g.P.Stress, "stress") {
		if ss := g.stress(); ss != nil {
			return ss
		}
	}
	if g.inPairs > 0 {
		return g.pairsBodyStmt()
	}
	w := g.n(100, "stmtkind")
	if d <= 0 && w >= 45 {
		w = g.n(45, "stmtkind0")
	}
	switch {
	case w < 16:
		return g.localDecl(d)
	case w < 30:
		return g.assignment(d)
	case w < 45:
		if g.noEmit > 0 {
			return g.localDecl(d)
		}
		return []L.Stmt{g.emitSome(d)}
	case w < 53:
		return g.ifStmt(d)
	case w < 59:
		return g.numFor(d)
	case w < 63:
		return g.whileLoop(d)
	case w < 66:
		return g.repeatLoop(d)
	case w < 71:
		return g.genFor(d)
	case w < 74:
		return []L.Stmt{&L.DoStmt{Body: g.block(1+g.n(3, "dostmts"), d-1)}}
	case w < 80:
		return g.funcDecl(d)
	case w < 84:
		return g.callStatement(d)
	case w < 89:
		if g.pure > 0 {
			return g.numFor(d)
		}
		return g.protectedStmt(d)
	case w < 92:
		return g.multiAssign(d)
	case w < 95:
		if g.P.NoGoto {
			return g.localDecl(d)
		}
		return g.gotoShape(d)
	case w < 97:
		return g.earlyExit(d)
	default:
		return g.tableOps(d)
	}
}

func (g *Gen) localDecl(d int) []L.Stmt {
	k := g.declKind()
	n := g.fresh("v")
	if g.n(12, "shadow") == 0 && len(g.vars) > 0 {
		n = g.vars[g.n(len(g.vars), "shadowwho")].Name // shadow an existing name
		if v := g.lookup(n); v != nil && v.NoWrite {
			n = g.fresh("v")
		} else {
			g.class("shadowing")
		}
	}
	v := &Var{Name: n, Kind: k}
	var e L.Expr
	switch k {
	case KTab:
		e = g.recordOrArray(v, d)
	case KFun:
		fi := &FuncInfo{}
		e = g.funExpr(min(d, 3), fi)
		v.Fn = fi
		v.NoWrite = true
	default:
		e = g.expr(k, min(d, 3))
	}
	st := local1(n, e)
	g.push(v)
	if k != KFun && k != KTab && g.n(3, "emitdecl") == 0 && g.noEmit == 0 {
		return []L.Stmt{st, emit(name(n))}
	}
	return []L.Stmt{st}
}

func (g *Gen) recordOrArray(v *Var, d int) L.Expr {
	if g.n(2, "tabshape") == 0 {
		ek := []Kind{KInt, KStr}[g.n(2, "arrk")]
		n := g.n(7, "arrlen")
		v.ArrLen, v.ArrKind, v.IsArr = n, ek, true
		t := tbl()
		for i := 0; i < n; i++ {
			t.Fields = append(t.Fields, pos(g.expr(ek, min(d, 2))))
		}
		return t
	}
	v.Fields = map[string]Kind{}
	t := tbl()
	for i, n := 0, 1+g.n(4, "nrec"); i < n; i++ {
		f := []string{"x", "y", "n", "s", "w"}[g.n(5, "recname")]
		if _, dup := v.Fields[f]; dup {
			continue
		}
		fk := []Kind{KInt, KStr, KBool, KInt}[g.n(4, "reckind")]
		v.Fields[f] = fk
		t.Fields = append(t.Fields, kv(str(f), g.expr(fk, min(d, 2))))
	}
	return t
}

func (g *Gen) assignment(d int) []L.Stmt {
	switch g.n(5, "assignform") {
	case 0, 1, 2:
		k := []Kind{KInt, KStr, KBool, KNum, KInt}[g.n(5, "asgkind")]
		v := g.pick(k, true)
		if v == nil {
			return g.localDecl(d)
		}
		if v.fnDepth != g.fn.depth {
			g.class("upvalue_write")
		}
		if v.Global {
			g.class("global_write")
		}
		// logical expression into every destination kind
		return []L.Stmt{assign1(g.ref(v), g.expr(k, min(d, 3)))}
	case 3:
		// record field
		for i := len(g.vars) - 1; i >= 0; i-- {
			v := g.vars[i]
			if v.Kind == KTab && v.Fields != nil && len(v.Fields) > 0 && g.lookup(v.Name) == v {
				fs := sortedKeys(v.Fields)
				f := fs[g.n(len(fs), "asgfield")]
				g.class("field_write")
				return []L.Stmt{assign1(field(g.ref(v), f), g.expr(v.Fields[f], min(d, 3)))}
			}
		}
		return g.localDecl(d)
	default:
		// global
		n := "G" + strconv.Itoa(1+g.n(4, "gname"))
		v := g.lookup(n)
		if v == nil {
			if !g.atTop() {
				return g.localDecl(d)
			}
			k := []Kind{KInt, KStr, KBool}[g.n(3, "gkind")]
			v = &Var{Name: n, Kind: k, Global: true}
			g.globals = append(g.globals, v)
		}
		if !v.Global {
			return g.localDecl(d)
		}
		g.class("global_write")
		return []L.Stmt{assign1(name(n), g.expr(v.Kind, min(d, 3)))}
	}
}

func (g *Gen) cond(d int) L.Expr {
	if g.n(4, "condany") == 0 {
		return g.expr(KAny, min(d, 2))
	}
	return g.expr(KBool, min(d, 3))
}

func (g *Gen) ifStmt(d int) []L.Stmt {
	st := &L.IfStmt{}
	n := 1 + g.n(3, "nbranches")
	if g.n(3, "oneif") > 0 {
		n = 1
	}
	for i := 0; i < n; i++ {
		st.Conds = append(st.Conds, g.cond(d))
		st.Blocks = append(st.Blocks, g.block(1+g.n(3, "ifstmts"), d-1))
	}
	if g.n(2, "haselse") == 0 {
		st.Else = g.block(1+g.n(2, "elsestmts"), d-1)
	}
	return []L.Stmt{st}
}

func (g *Gen) numFor(d int) []L.Stmt {
	if g.n(12, "zerostep") == 0 {
		// a step of 0 or -0: the loop runs while limit <= index (5.1), so "1, 3, 0" never enters its body and "3, 1, 0"
		// goes on until it is left by break
		g.class("for_zero_step")
		zn := g.fresh("z")
		step := []L.Expr{num(0), un("-", num(0)), bin("-", num(2), num(2))}[g.n(3, "zerostepform")]
		return []L.Stmt{
			&L.NumForStmt{Var: zn, Start: num(1), End: num(3), Step: step, Body: blk(emit(str("zero step body entered"), name(zn)), &L.BreakStmt{})},
			&L.NumForStmt{Var: zn, Start: num(3), End: num(1), Step: step, Body: blk(emit(str("zero step, downward bounds"), name(zn)), &L.BreakStmt{})},
			&L.NumForStmt{Var: zn, Start: num(2), End: num(2), Step: step, Body: blk(emit(str("zero step, equal bounds"), name(zn)), &L.BreakStmt{})}}
	}
	vn := g.fresh("i")
	var start, end, step L.Expr
	ik := KInt
	switch g.n(8, "forshape") {
	case 0, 1, 2:
		start, end = num(1), num(float64(g.n(6, "forend")))
	case 3:
		start, end, step = num(float64(g.n(10, "forstart"))), num(float64(g.n(4, "forend2"))), num(-float64(1+g.n(3, "forstep")))
	case 4:
		start, end, step = num(0), num(1), num([]float64{0.25, 0.5, 0.3, 0.1}[g.n(4, "fracstep")])
		ik = KNum
		g.class("for_fractional")
	case 5:
		start, end, step = g.expr(KInt, 1), g.expr(KInt, 1), num(float64(1+g.n(3, "forstep2")))
		// bound the trip count whatever the expressions give
		end = call(field(name("math"), "min"), end, bin("+", start, num(6)))
		start = paren(start)
	case 6:
		start, end = num(float64(g.n(3, "zs"))+3), num(float64(g.n(3, "ze")))
		g.class("for_zero_trip")
	default:
		start, end, step = num(1), num(float64(2+g.n(4, "forend3"))), num(float64(1+g.n(2, "forstep3")))
	}
	m := g.mark()
	g.push(&Var{Name: vn, Kind: ik, NoWrite: true})
	g.fn.loopDepth++
	body := g.stmts(1+g.n(3, "forstmts"), d-1)
	g.fn.loopDepth--
	g.release(m)
	return []L.Stmt{&L.NumForStmt{Var: vn, Start: start, End: end, Step: step, Body: blk(body...)}}
}

func (g *Gen) fuel() (string, L.Stmt) {
	n := g.fresh("fuel")
	g.push(&Var{Name: n, Kind: KInt, NoWrite: true})
	return n, local1(n, num(float64(1+g.n(5, "fuel"))))
}

// bareLocalLoop: a declaration without values right before a loop whose body (a backward-jump target) starts with another
// one: every pass through `local q` makes q nil again, whatever it held at the end of the pass before.
func (g *Gen) bareLocalLoop() []L.Stmt {
	id := strconv.Itoa(g.ctr)
	g.ctr++
	n, p, q, r := "bn"+id, "bp"+id, "bq"+id, "br"+id
	g.class("bare_locals_at_loop_entry")
	head := []L.Stmt{local1(n, num(0)), local([]string{p})}
	body := []L.Stmt{local([]string{q}), local([]string{r}), emit(name(p), name(q), name(r)), assign1(name(q), bin("+", name(n), num(10))), assign1(name(r), str("set")), assign1(name(p), name(q)), assign1(name(n), bin("+", name(n), num(1)))}
	var loop []L.Stmt
	switch g.n(4, "bareloop") {
	case 0:
		loop = []L.Stmt{&L.RepeatStmt{Body: blk(body...), Cond: bin(">=", name(n), num(3))}}
	case 1:
		loop = []L.Stmt{&L.WhileStmt{Cond: &L.TrueExpr{}, Body: blk(append(body, ifs(bin(">=", name(n), num(3)), blk(&L.BreakStmt{}), nil))...)}}
	case 2:
		lbl := g.fresh("L")
		loop = append([]L.Stmt{&L.LabelStmt{Name: lbl}}, append(body, ifs(bin("<", name(n), num(3)), blk(&L.GotoStmt{Label: lbl}), nil))...)
	default:
		loop = []L.Stmt{&L.WhileStmt{Cond: bin("<", name(n), num(3)), Body: blk(body...)}}
	}
	if g.P.NoGoto && len(loop) > 1 {
		loop = []L.Stmt{&L.RepeatStmt{Body: blk(body...), Cond: bin(">=", name(n), num(3))}}
	}
	return []L.Stmt{&L.DoStmt{Body: blk(append(head, loop...)...)}}
}

func (g *Gen) whileLoop(d int) []L.Stmt {
	if g.n(5, "barelocalloop") == 0 {
		return g.bareLocalLoop()
	}
	fn, decl := g.fuel()
	m := g.mark()
	g.fn.loopDepth++
	body := []L.Stmt{assign1(name(fn), bin("-", name(fn), num(1)))}
	body = append(body, g.stmts(1+g.n(3, "whilestmts"), d-1)...)
	g.fn.loopDepth--
	g.release(m)
	c := bin(">", name(fn), num(0))
	if g.n(2, "whilecond") == 0 {
		c = bin("and", c, g.cond(d))
	}
	return []L.Stmt{decl, &L.WhileStmt{Cond: c, Body: blk(body...)}}
}

func (g *Gen) repeatLoop(d int) []L.Stmt {
	fn, decl := g.fuel()
	m := g.mark()
	g.fn.loopDepth++
	body := []L.Stmt{assign1(name(fn), bin("-", name(fn), num(1)))}
	body = append(body, g.stmts(1+g.n(3, "repstmts"), d-1)...)
	g.fn.loopDepth--
	// the condition sees the body's locals
	c := bin("<=", name(fn), num(0))
	if g.n(2, "repcond") == 0 {
		g.class("repeat_cond_reads_body_local")
		c = bin("or", c, g.cond(d))
	}
	g.release(m)
	return []L.Stmt{decl, &L.RepeatStmt{Body: blk(body...), Cond: c}}
}

func (g *Gen) genFor(d int) []L.Stmt {
	switch g.n(5, "genforshape") {
	case 4:
		// a stateful iterator whose first results are arbitrary non-nil values (false, 0 and "" included): only nil ends
		// the loop
		seq, ps, it := g.fresh("seq"), g.fresh("pos"), g.fresh("it")
		t := tbl()
		for i, n := 0, 1+g.n(5, "seqn"); i < n; i++ {
			t.Fields = append(t.Fields, pos([]L.Expr{&L.FalseExpr{}, num(0), str(""), &L.TrueExpr{}, num(float64(i + 3)), str("s")}[g.n(6, "seqv")]))
		}
		a, b := g.fresh("a"), g.fresh("b")
		g.class("iterator_first_value_any")
		itf := fn(nil, false, blk(assign1(name(ps), bin("+", name(ps), num(1))), ret(idx(name(seq), name(ps)), name(ps))))
		// the explist has one or two expressions (the missing state / control values are nil, whatever the registers held
		// before), and 1..4 loop variables
		dirty := &L.DoStmt{Body: blk(local([]string{"dr1", "dr2", "dr3", "dr4", "dr5", "dr6"}, num(101), num(102), num(103), num(104), num(105), num(106)))}
		names := []string{a, b, g.fresh("c"), g.fresh("d")}[:1+g.n(4, "nloopvars")]
		var shown []L.Expr
		for _, n := range names {
			shown = append(shown, name(n))
		}
		exprs := []L.Expr{name(it)}
		if g.n(2, "withstate") == 0 {
			exprs = append(exprs, str("state"))
		}
		itf = fn([]string{"st", "ctl"}, false, blk(assign1(name(ps), bin("+", name(ps), num(1))), ifs(bin("==", name(ps), num(1)), blk(emit(str("first call gets"), name("st"), name("ctl"))), nil), ret(idx(name(seq), name(ps)), name(ps), str("third"))))
		return []L.Stmt{&L.DoStmt{Body: blk(local1(seq, t), local1(ps, num(0)), &L.LocalFuncStmt{Name: it, Fn: itf}, dirty,
			&L.GenForStmt{Names: names, Exprs: exprs, Body: blk(emit(shown...))}, emit(str("loop ended at"), name(ps)))}}
	case 0, 1:
		// ipairs over an array
		var te L.Expr
		ek := KInt
		var iterated *Var
		if v := g.pick(KTab, false); v != nil && v.IsArr {
			te, ek = g.ref(v), v.ArrKind
			iterated = v
			v.Frozen++
		} else {
			ek = []Kind{KInt, KStr}[g.n(2, "ipk")]
			te = g.arrayLit(ek, g.n(5, "ipn"))
		}
		i, vn := g.fresh("i"), g.fresh("e")
		m := g.mark()
		g.push(&Var{Name: i, Kind: KInt, NoWrite: true})
		g.push(&Var{Name: vn, Kind: ek})
		g.fn.loopDepth++
		body := g.stmts(1+g.n(3, "ipstmts"), d-1)
		g.fn.loopDepth--
		g.release(m)
		if iterated != nil {
			iterated.Frozen--
		}
		return []L.Stmt{&L.GenForStmt{Names: []string{i, vn}, Exprs: []L.Expr{call(name("ipairs"), te)}, Body: blk(body...)}}
	case 2:
		// pairs with an order-insensitive consumer: count and integer sum
		cnt, sum := g.fresh("cnt"), g.fresh("sum")
		t := tbl()
		for i, n := 0, g.n(6, "pn"); i < n; i++ {
			if g.n(2, "pk") == 0 {
				t.Fields = append(t.Fields, kv(str("k"+strconv.Itoa(i)), num(float64(g.n(50, "pv")))))
			} else {
				t.Fields = append(t.Fields, pos(num(float64(g.n(50, "pv2")))))
			}
		}
		k, v := g.fresh("k"), g.fresh("v")
		body := blk(assign1(name(cnt), bin("+", name(cnt), num(1))), assign1(name(sum), bin("+", name(sum), name(v))))
		g.class("pairs_loop")
		out := []L.Stmt{local1(cnt, num(0)), local1(sum, num(0)),
			&L.GenForStmt{Names: []string{k, v}, Exprs: []L.Expr{call(name("pairs"), t)}, Body: body},
			emit(name(cnt), name(sum))}
		g.push(&Var{Name: cnt, Kind: KInt})
		g.push(&Var{Name: sum, Kind: KInt})
		return out
	default:
		// closure iterator: stateless function with (state, control)
		it := g.fresh("it")
		c, s := "c", "s"
		lim := float64(g.n(5, "itlim"))
		itf := fn([]string{s, c}, false, blk(ifs(bin("<", name(c), name(s)), blk(ret(bin("+", name(c), num(1)), bin("*", name(c), num(2)))), nil)))
		a, b := g.fresh("a"), g.fresh("b")
		g.push(&Var{Name: it, Kind: KFun, NoWrite: true})
		m2 := g.mark()
		g.push(&Var{Name: a, Kind: KInt, NoWrite: true})
		g.push(&Var{Name: b, Kind: KInt})
		g.fn.loopDepth++
		body := g.stmts(1+g.n(3, "itstmts"), d-1)
		g.fn.loopDepth--
		g.release(m2)
		g.class("closure_iterator")
		return []L.Stmt{&L.LocalFuncStmt{Name: it, Fn: itf},
			&L.GenForStmt{Names: []string{a, b}, Exprs: []L.Expr{name(it), num(lim), num(0)}, Body: blk(body...)}}
	}
}

func (g *Gen) pairsBodyStmt() []L.Stmt { return nil }

// namedFuncStmts: function statements with dotted and method names (function a.b.c:m(...) ... end), called in every way.
func (g *Gen) namedFuncStmts() []L.Stmt {
	id := strconv.Itoa(g.ctr)
	g.ctr++
	ns := "ns" + id
	g.class("function_statement_with_field_or_method_name")
	inner := field(field(name(ns), "a"), "b")
	mf := fn([]string{"self", "x"}, g.n(2, "methodvararg") == 0, blk(ret(bin("==", name("self"), inner), name("x"), field(name("self"), "tag"))))
	mf.Name = ":"
	top := fn([]string{"self"}, false, blk(ret(field(name("self"), "tag"))))
	top.Name = ":"
	return []L.Stmt{&L.DoStmt{Body: blk(
		local1(ns, tbl(kv(str("tag"), str("ns")), kv(str("a"), tbl(kv(str("b"), tbl(kv(str("tag"), str("inner")))))))),
		&L.FuncStmt{Target: field(name(ns), "f"), Fn: fn([]string{"x"}, false, blk(ret(name("x"), str("ns.f"))))},
		&L.FuncStmt{Target: field(inner, "g"), Fn: fn([]string{"x", "y"}, true, blk(ret(name("y"), name("x"), call(name("select"), str("#"), &L.VarargExpr{}))))},
		&L.FuncStmt{Target: field(inner, "m"), Fn: mf},
		&L.FuncStmt{Target: field(name(ns), "t"), Fn: top},
		emit(call(field(name(ns), "f"), num(1)), call(field(inner, "g"), num(1), num(2), num(3))),
		emit(mcall(inner, "m", num(3)), call(field(inner, "m"), name(ns), num(4)), mcall(name(ns), "t")),
		emit(call(name("type"), field(inner, "m")), call(name("rawget"), name(ns), str("g"))))}}
}

func (g *Gen) funcDecl(d int) []L.Stmt {
	if g.n(8, "namedfuncstmt") == 0 {
		return g.namedFuncStmts()
	}
	fi := &FuncInfo{}
	n := g.fresh("f")
	form := g.n(3, "funcform")
	if form == 2 && !g.atTop() {
		form = 0
	}
	switch form {
	case 0:
		fe := g.funExpr(min(d, 3), fi)
		g.push(&Var{Name: n, Kind: KFun, Fn: fi, NoWrite: true})
		return []L.Stmt{&L.LocalFuncStmt{Name: n, Fn: fe}}
	case 1:
		fe := g.funExpr(min(d, 3), fi)
		g.push(&Var{Name: n, Kind: KFun, Fn: fi, NoWrite: true})
		return []L.Stmt{local1(n, fe)}
	default:
		// global function statement
		gn := "GF" + strconv.Itoa(g.ctr)
		fe := g.funExpr(min(d, 3), fi)
		g.globals = append(g.globals, &Var{Name: gn, Kind: KFun, Fn: fi, NoWrite: true, Global: true})
		return []L.Stmt{&L.FuncStmt{Target: name(gn), Fn: fe}}
	}
}

func (g *Gen) callStatement(d int) []L.Stmt {
	var c []*Var
	for _, v := range g.all() {
		if v.Kind == KFun && v.Fn != nil && g.lookup(v.Name) == v && !v.Fn.Recurse {
			c = append(c, v)
		}
	}
	if len(c) == 0 {
		return g.funcDecl(d)
	}
	v := c[g.n(len(c), "callee")]
	ce := call(g.ref(v), g.args(v.Fn, min(d, 2))...)
	switch g.n(4, "callctx") {
	case 0:
		return []L.Stmt{callStmt(ce)}
	case 1:
		g.class("call_results_emitted")
		return []L.Stmt{emit(ce)}
	case 2:
		g.class("call_truncated")
		return []L.Stmt{emit(paren(ce), ce)}
	default:
		// multiple assignment from results
		var names []string
		var vars []*Var
		for i, n := 0, 1+g.n(3, "nresnames"); i < n; i++ {
			nm := g.fresh("r")
			names = append(names, nm)
			k := KAny
			if i < len(v.Fn.Rets) {
				k = v.Fn.Rets[i]
			} else {
				k = KNil
			}
			vars = append(vars, &Var{Name: nm, Kind: k})
		}
		st := local(names, ce)
		for _, x := range vars {
			g.push(x)
		}
		var es []L.Expr
		for _, nm := range names {
			es = append(es, name(nm))
		}
		return []L.Stmt{st, emit(es...)}
	}
}

// protectedStmt: emit(pcall(function() <statements with wild expressions> end))
func (g *Gen) protectedStmt(d int) []L.Stmt {
	g.protected++
	outer := g.fn
	g.fn = &fnCtx{parent: outer, depth: outer.depth + 1, mark: g.mark()}
	m := g.mark()
	body := g.stmts(1+g.n(3, "pstmts"), min(d-1, 2))
	var rs []L.Expr
	for i, n := 0, g.n(3, "prets"); i < n; i++ {
		rs = append(rs, g.expr(g.anyKind(), 2))
	}
	body = append(body, ret(rs...))
	g.release(m)
	g.fn = outer
	g.protected--
	g.class("pcall_block")
	f := fn(nil, false, blk(body...))
	if g.n(4, "xpcall") == 0 {
		g.class("xpcall_block")
		h := fn([]string{"e"}, false, blk(emit(str("handler"), call(name("type"), name("e"))), ret(name("e"))))
		return []L.Stmt{emit(call(name("xpcall"), f, h))}
	}
	return []L.Stmt{emit(call(name("pcall"), f))}
}

func (g *Gen) multiAssign(d int) []L.Stmt {
	switch g.n(5, "maform") {
	case 3, 4:
		// 1..4 distinct targets of every kind (locals, a field, a slot whose key is one of the locals, a global), fewer, as
		// many or more expressions than targets, and expressions that report what they see: every expression and every key
		// is evaluated before any store
		id := strconv.Itoa(g.ctr)
		g.ctr++
		ma, mb, mt, rec := "ma"+id, "mb"+id, "mt"+id, "rec"+id
		tpool := []L.Expr{name(ma), name(mb), field(name(mt), "f"), idx(name(mt), name(ma)), name("GM")}
		nt := 1 + g.n(4, "nmatargets")
		// a random subset in random order
		var targets []L.Expr
		used := map[int]bool{}
		for len(targets) < nt {
			i := g.n(len(tpool), "matarget")
			if !used[i] {
				used[i] = true
				targets = append(targets, tpool[i])
			}
		}
		epool := func() L.Expr {
			switch g.n(9, "maexpr") {
			case 0:
				return call(name(rec), name(ma))
			case 1:
				return call(name(rec), name(mb))
			case 2:
				return call(name(rec), field(name(mt), "f"), name("GM"))
			case 3:
				return name(ma)
			case 4:
				return name(mb)
			case 5:
				return num(float64(5 + g.n(4, "malit")))
			case 6:
				return call(name(rec), name(ma), name(mb))
			case 7:
				return idx(name(mt), name(mb))
			default:
				return bin("+", name(ma), name(mb))
			}
		}
		ne := nt + g.n(4, "maexprdelta") - 1
		if ne < 1 {
			ne = 1
		}
		var es []L.Expr
		for i := 0; i < ne; i++ {
			es = append(es, epool())
		}
		if ne > nt {
			g.class("multi_assign_surplus_expressions")
		}
		g.class("multi_assign_mixed_targets")
		return []L.Stmt{&L.DoStmt{Body: blk(
			local([]string{ma, mb, mt}, num(1), num(2), tbl(kv(str("f"), num(3)), pos(str("one")), pos(str("two")))),
			&L.LocalFuncStmt{Name: rec, Fn: fn(nil, true, blk(emit(str("rec"), &L.VarargExpr{}), ret(paren(&L.VarargExpr{}))))},
			assign1(name("GM"), num(9)),
			&L.AssignStmt{Targets: targets, Exprs: es},
			emit(name(ma), name(mb), field(name(mt), "f"), idx(name(mt), num(1)), idx(name(mt), num(2)), idx(name(mt), num(5)), name("GM")),
			assign1(name("GM"), &L.NilExpr{}))}}
	case 0:
		// swap two variables of the same kind
		k := []Kind{KInt, KStr}[g.n(2, "swapkind")]
		a := g.pick(k, true)
		b := g.pick(k, true)
		if a == nil || b == nil || a == b {
			return g.localDecl(d)
		}
		g.class("swap")
		return []L.Stmt{&L.AssignStmt{Targets: []L.Expr{g.ref(a), g.ref(b)}, Exprs: []L.Expr{g.ref(b), g.ref(a)}}, emit(g.ref(a), g.ref(b))}
	case 1:
		// more targets than values / more values than targets
		a, b := g.pick(KInt, true), g.pick(KStr, true)
		if a == nil || b == nil {
			return g.localDecl(d)
		}
		es := []L.Expr{g.expr(KInt, 2), g.expr(KStr, 2)}
		if g.n(2, "extra") == 0 {
			es = append(es, g.expr(KAny, 2))
		}
		return []L.Stmt{&L.AssignStmt{Targets: []L.Expr{g.ref(a), g.ref(b)}, Exprs: es}}
	default:
		n1, n2, n3 := g.fresh("m"), g.fresh("m"), g.fresh("m")
		st := local([]string{n1, n2, n3}, g.expr(KInt, 2), g.expr(KStr, 2))
		g.push(&Var{Name: n1, Kind: KInt})
		g.push(&Var{Name: n2, Kind: KStr})
		g.push(&Var{Name: n3, Kind: KNil})
		return []L.Stmt{st, emit(name(n1), name(n2), name(n3))}
	}
}

// gotoShape: continue-style, forward-out and backward-loop uses of goto.
func (g *Gen) gotoShape(d int) []L.Stmt {
	lbl := g.fresh("L")
	switch g.n(3, "gotoshape") {
	case 0:
		// continue inside a numeric for; the label is the last statement of the body
		vn := g.fresh("i")
		m := g.mark()
		g.push(&Var{Name: vn, Kind: KInt, NoWrite: true})
		g.fn.loopDepth++
		pre := g.stmts(g.n(2, "gpre"), d-1)
		mid := g.stmts(1+g.n(2, "gmid"), d-1)
		g.fn.loopDepth--
		g.release(m)
		body := append([]L.Stmt{}, pre...)
		body = append(body, ifs(bin("==", bin("%", name(vn), num(2)), num(0)), blk(&L.GotoStmt{Label: lbl}), nil))
		// statements between the goto and the label must not declare locals that are still active at the label
		body = append(body, &L.DoStmt{Body: blk(mid...)})
		body = append(body, &L.LabelStmt{Name: lbl})
		g.class("goto_continue")
		return []L.Stmt{&L.NumForStmt{Var: vn, Start: num(1), End: num(float64(2 + g.n(4, "gn"))), Body: blk(body...)}}
	case 1:
		// forward jump out of nested blocks
		inner := g.block(1+g.n(2, "ginner"), d-1)
		inner.Stmts = append(inner.Stmts, ifs(g.cond(d), blk(&L.GotoStmt{Label: lbl}), nil))
		inner.Stmts = append(inner.Stmts, g.block(1, d-1).Stmts...)
		g.class("goto_forward_out")
		return []L.Stmt{&L.DoStmt{Body: blk(&L.DoStmt{Body: inner}, emit(str("skipped?")))}, &L.LabelStmt{Name: lbl}, emit(str("after " + lbl))}
	default:
		// backward loop with fuel
		fn, decl := g.fuel()
		m := g.mark()
		body := g.stmts(1+g.n(2, "gback"), d-1)
		g.release(m)
		g.class("goto_backward")
		if g.n(3, "gotocapture") == 0 {
			// a local declared after the label (same block) and captured: every pass makes a new variable
			g.class("goto_backward_captured_local")
			gf, gv := g.fresh("gf"), g.fresh("gv")
			return []L.Stmt{&L.DoStmt{Body: blk(decl, local1(gf, tbl()), &L.LabelStmt{Name: lbl}, local1(gv, bin("*", name(fn), num(10))),
				assign1(idx(name(gf), bin("+", un("#", name(gf)), num(1))), fn_(nil, blk(assign1(name(gv), bin("+", name(gv), num(1))), ret(name(gv))))),
				&L.DoStmt{Body: blk(body...)}, assign1(name(fn), bin("-", name(fn), num(1))),
				ifs(bin(">", name(fn), num(0)), blk(&L.GotoStmt{Label: lbl}), nil),
				&L.NumForStmt{Var: "gi", Start: num(1), End: un("#", name(gf)), Body: blk(emit(name("gi"), call(idx(name(gf), name("gi"))), call(idx(name(gf), name("gi")))))})}}
		}
		out := []L.Stmt{decl, &L.LabelStmt{Name: lbl}, &L.DoStmt{Body: blk(body...)}, assign1(name(fn), bin("-", name(fn), num(1))),
			ifs(bin(">", name(fn), num(0)), blk(&L.GotoStmt{Label: lbl}), nil)}
		return out
	}
}

// earlyExit: break inside a loop, or an early return inside a function.
func (g *Gen) earlyExit(d int) []L.Stmt {
	if g.fn.loopDepth > 0 && g.n(2, "breakorret") == 0 {
		g.class("break")
		return []L.Stmt{ifs(g.cond(d), blk(&L.BreakStmt{}), nil)}
	}
	if g.fn.depth > 0 && !(g.pure > 0 && g.fn.depth == 1) {
		var rs []L.Expr
		for _, rk := range g.fn.rets {
			rs = append(rs, g.expr(rk, 2))
		}
		g.class("early_return")
		return []L.Stmt{ifs(g.cond(d), blk(ret(rs...)), nil)}
	}
	return g.localDecl(d)
}

func (g *Gen) tableOps(d int) []L.Stmt {
	// append / overwrite / delete on an array variable, with the length emitted
	v := g.pick(KTab, false)
	if v == nil || !v.IsArr || v.Frozen > 0 {
		return g.localDecl(d)
	}
	t := g.ref(v)
	switch g.n(4, "tabop") {
	case 0:
		v.ArrLen = 0 // length no longer tracked statically (loops may repeat this statement)
		return []L.Stmt{assign1(idx(t, bin("+", un("#", g.ref(v)), num(1))), g.expr(v.ArrKind, 2)), emit(un("#", g.ref(v)))}
	case 1:
		v.ArrLen = 0
		return []L.Stmt{callStmt(call(field(name("table"), "insert"), t, g.expr(v.ArrKind, 2))), emit(un("#", g.ref(v)))}
	case 2:
		return []L.Stmt{emit(call(name("unpack"), t))}
	default:
		v.ArrLen = 0
		return []L.Stmt{emit(call(field(name("table"), "remove"), t)), emit(un("#", g.ref(v)))}
	}
}

// fn_ builds a parameterless function (for places where a local named fn shadows the constructor)
func fn_(params []string, b *L.Block) *L.FuncExpr { return fn(params, false, b) }
