// Package gl holds helpers around the code under test (gopher-lua) shared by the property packages.
package gl

import (
	"fmt"
	"math"
	"os"
	"path/filepath"
	"sort"
	"strings"

	lua "github.com/yuin/gopher-lua"
)

// DumpProto renders a prototype tree canonically.  withLines includes the debug line tables.
func DumpProto(p *lua.FunctionProto, withLines bool) string {
	var b strings.Builder
	dumpProto(&b, p, withLines, 0)
	return b.String()
}

func dumpProto(b *strings.Builder, p *lua.FunctionProto, withLines bool, depth int) {
	ind := strings.Repeat(" ", depth)
	fmt.Fprintf(b, "%sproto nup=%d npar=%d vararg=%d nreg=%d ncode=%d\n", ind, p.NumUpvalues, p.NumParameters, p.IsVarArg,
		p.NumUsedRegisters, len(p.Code))
	if withLines {
		fmt.Fprintf(b, "%slines def=%d last=%d pos=%v\n", ind, p.LineDefined, p.LastLineDefined, p.DbgSourcePositions)
		for _, l := range p.DbgLocals {
			fmt.Fprintf(b, "%slocal %s %d %d\n", ind, l.Name, l.StartPc, l.EndPc)
		}
		for _, c := range p.DbgCalls {
			fmt.Fprintf(b, "%scall %s %d\n", ind, c.Name, c.Pc)
		}
	}
	fmt.Fprintf(b, "%scode", ind)
	for _, c := range p.Code {
		fmt.Fprintf(b, " %08x", c)
	}
	b.WriteString("\n")
	for i, k := range p.Constants {
		fmt.Fprintf(b, "%sk%d %s\n", ind, i, ConstString(k))
	}
	fmt.Fprintf(b, "%supnames %q\n", ind, p.DbgUpvalues)
	for _, sub := range p.FunctionPrototypes {
		dumpProto(b, sub, withLines, depth+1)
	}
}

func ConstString(v lua.LValue) string {
	switch x := v.(type) {
	case lua.LNumber:
		return fmt.Sprintf("n:%016x", math.Float64bits(float64(x)))
	case lua.LString:
		return fmt.Sprintf("s:%q", string(x))
	case lua.LBool:
		return fmt.Sprintf("b:%v", bool(x))
	case *lua.LNilType:
		return "nil"
	}
	return fmt.Sprintf("?%T", v)
}

// CorpusDir is where seed inputs live (committed copy of the repository's Lua scripts and our own).
func CorpusDir() string {
	if d := os.Getenv("VERIF_CORPUS"); d != "" {
		return d
	}
	return "/verif/harness/corpus"
}

// CorpusFiles returns the sorted list of files in corpus/<sub>.
func CorpusFiles(sub string) []string {
	m, _ := filepath.Glob(filepath.Join(CorpusDir(), sub, "*"))
	sort.Strings(m)
	return m
}

// Scratch returns a private scratch directory for this shard.
func Scratch() string {
	d := os.Getenv("VERIF_SCRATCH")
	if d == "" {
		d = filepath.Join(os.TempDir(), fmt.Sprintf("verif-scratch-%d", os.Getpid()))
	}
	os.MkdirAll(d, 0o755)
	return d
}
