package c14

// Generators: the exhaustive token enumeration, the grammar-based random generator (pattern plus subjects sampled
// from the pattern), the malformed-pattern mutator and the long-subject enumeration.

import (
	"strings"
	"testing"

	"pgregory.net/rapid"

	"verif/vf"
)

// ---------------------------------------------------------------------------------------------
// exhaustive: every sequence of <= N pattern tokens x every subject of length <= 4 over {a,b}

var exhSingles = []string{"a", "b", "."}

func exhTokens() []string {
	var toks []string
	for _, s := range exhSingles {
		for _, q := range []string{"", "*", "+", "-", "?"} {
			toks = append(toks, s+q)
		}
	}
	return append(toks, "(", ")", "()", "%1", "%bab", "^", "$")
}

func exhSubjects(maxLen int) []string {
	out := []string{""}
	prev := []string{""}
	for l := 1; l <= maxLen; l++ {
		var cur []string
		for _, p := range prev {
			cur = append(cur, p+"a", p+"b")
		}
		out = append(out, cur...)
		prev = cur
	}
	return out
}

// enumTokenPatterns calls f(index, pattern) for every sequence of minTok..maxTok tokens.
func enumTokenPatterns(minTok, maxTok int, f func(idx int, p string)) {
	toks := exhTokens()
	idx := 0
	var rec func(prefix string, last string, depth int)
	rec = func(prefix string, last string, depth int) {
		if depth >= minTok {
			idx++
			f(idx, prefix)
		}
		if depth == maxTok {
			return
		}
		for _, tk := range toks {
			if last == "(" && tk == ")" {
				continue // same text as the token "()"
			}
			rec(prefix+tk, tk, depth+1)
		}
	}
	rec("", "", 0)
}

func TestExhaustive(t *testing.T) {
	si, sn := vf.Shard()
	maxTok := vf.Scale(3, 4)
	toks := exhTokens()
	subjects := exhSubjects(4)
	enumTokenPatterns(0, maxTok, func(idx int, p string) {
		if idx%sn != si {
			return
		}
		for _, s := range subjects {
			chkExh.Run(t, &Case{S: B(s), P: B(p), Kind: "exhaustive"})
		}
	})
	chkExh.SetExhaustive(true)
	chkExh.Note("exhaustive_space", map[string]any{
		"pattern_tokens": toks, "max_tokens": maxTok, "subjects": "all strings over {a,b} of length 0..4 (31)",
		"operations": "find and match with init absent and every init in [-len-2, len+2]; plain find; gmatch (generic-for protocol and bare calls); gsub with string (%0, %1, %%), table and function replacements and n in {absent,0,1,2,len+3}; pm.Find at every offset and with limits -1, 1, 2; malformed patterns get a reduced battery (init in {absent,-1,0,len+2})",
	})
}

// TestTokens4Sample (quick tier): a seed-dependent 1/24 sample of the 4-token patterns, which the quick tier cannot
// enumerate completely, against all 31 subjects.  The thorough tier enumerates them all in TestExhaustive.
func TestTokens4Sample(t *testing.T) {
	if vf.Thorough() {
		t.Skip("the thorough tier enumerates every 4-token pattern in TestExhaustive")
	}
	si, sn := vf.Shard()
	const stride = 24
	pick := int(vf.Seed() % stride)
	subjects := exhSubjects(4)
	enumTokenPatterns(4, 4, func(idx int, p string) {
		if idx%stride != pick || (idx/stride)%sn != si {
			return
		}
		for _, s := range subjects {
			chkTok4.Run(t, &Case{S: B(s), P: B(p), Kind: "tokens4"})
		}
	})
	chkTok4.Note("sample", "every 24th sequence of exactly 4 pattern tokens (offset VERIF_SEED mod 24) x all subjects over {a,b} of length 0..4")
}

// ---------------------------------------------------------------------------------------------
// class table: every single-character class x every byte value

// TestClassTable checks the membership of all 256 byte values in every single-character class: the subject is the
// string of all 256 bytes (and its reverse), the operations delete / list / locate the members.  Items: every %x
// class and complement alone, in a set, in a complemented set and under '+'; '.'; every byte 1..255 as a literal
// (escaped when it is not alphanumeric; also unescaped when it is not magic), alone and as the only member of a set;
// ranges between 30 boundary bytes, plain and complemented.
func TestClassTable(t *testing.T) {
	si, sn := vf.Shard()
	all := make([]byte, 256)
	rev := make([]byte, 256)
	for i := range all {
		all[i] = byte(i)
		rev[i] = byte(255 - i)
	}
	var items []string
	for i := 0; i < len(classLetters); i++ {
		c := string(classLetters[i])
		items = append(items, "%"+c, "[%"+c+"]", "[^%"+c+"]", "%"+c+"+", "[%"+c+"_]", "[^%"+c+"a]")
	}
	items = append(items, ".", ".+", "[%a%d]", "[^%s%p]", "[%l%u]", "[%x%z]")
	for b := 1; b < 256; b++ {
		c := byte(b)
		if isAlnum(c) {
			items = append(items, string(c), "["+string(c)+"]", "[^"+string(c)+"]")
			continue
		}
		items = append(items, "%"+string(c), "[%"+string(c)+"]", "[^%"+string(c)+"]")
		if strings.IndexByte(magic, c) < 0 {
			items = append(items, string(c), "["+string(c)+"]")
		}
	}
	bounds := []byte{1, 8, 9, 13, 14, 31, 32, 33, 47, 48, 57, 58, 64, 65, 70, 71, 90, 96, 97, 102, 103, 122, 123, 126, 127, 128, 160, 254, 255, 0x2e}
	for _, lo := range bounds {
		for _, hi := range bounds {
			if strings.IndexByte("%]^-", lo) >= 0 || strings.IndexByte("%]^-", hi) >= 0 {
				continue
			}
			items = append(items, "["+string(lo)+"-"+string(hi)+"]")
			if lo <= hi {
				items = append(items, "[^"+string(lo)+"-"+string(hi)+"]")
			}
		}
	}
	ops := []Op{
		{Fn: "gsub", Repl: &ReplSpec{Kind: "str", Str: B("")}},
		{Fn: "gmatch"},
		{Fn: "find"},
		{Fn: "match", Init: ip(129)},
		{Fn: "pm", Limit: -1},
	}
	for i, it := range items {
		if i%sn != si {
			continue
		}
		chkCls.Run(t, &Case{S: B(all), P: B(it), Ops: ops, Kind: "class_table"})
		chkCls.Run(t, &Case{S: B(rev), P: B(it), Ops: ops[:3], Kind: "class_table"})
	}
	chkCls.SetExhaustive(true)
	chkCls.Note("space", "all 256 byte values x every %x class and complement (alone, in sets, complemented sets, under +), '.', every byte 1..255 as literal / escaped literal / one-member set, ranges over 30 boundary bytes")
}

// ---------------------------------------------------------------------------------------------
// capture table: every number of captures 0..34 x every %0..%9 in replacements and back-references

// TestCaptureTable: the pattern has k captures (k = 0..34, one per subject character, every third one a position
// capture in the second variant); every replacement "%i" (i = 0..9) and every back-reference %i (i = 1..9, the
// subject extended so that it matches) is tried, valid or not, next to find / match / gmatch / table / function.
func TestCaptureTable(t *testing.T) {
	const chars = "abcdefghijklmnopqrstuvwxyz0123456789"
	for k := 0; k <= 34; k++ {
		for variant := 0; variant < 2; variant++ {
			var pb strings.Builder
			for j := 0; j < k; j++ {
				if variant == 1 && j%3 == 1 {
					pb.WriteString("()" + string(chars[j]))
				} else {
					pb.WriteString("(" + string(chars[j]) + ")")
				}
			}
			p := pb.String()
			subj := "-" + chars[:k] + "-" + chars[:k]
			ops := []Op{{Fn: "find"}, {Fn: "match"}, {Fn: "find", Init: ip(3)}, {Fn: "gmatch"}, {Fn: "gmatch", Via: "src"}, {Fn: "pm", Limit: -1},
				{Fn: "gsub", Repl: &ReplSpec{Kind: "table", Seed: k}}, {Fn: "gsub", Repl: &ReplSpec{Kind: "luafunc", Seed: k}}}
			for i := 0; i <= 9; i++ {
				ops = append(ops, Op{Fn: "gsub", Repl: &ReplSpec{Kind: "str", Str: B("[%" + string(rune('0'+i)) + "]")}})
			}
			chkCap.Run(t, &Case{S: B(subj), P: B(p), Ops: ops, Kind: "capture_table"})
			for i := 1; i <= 9; i++ {
				ext := ""
				if i <= k {
					ext = string(chars[i-1])
					if variant == 1 && (i-1)%3 == 1 {
						ext = "" // back-reference to a position capture never matches
					}
				}
				bops := []Op{{Fn: "find"}, {Fn: "match"}, {Fn: "gmatch"}, {Fn: "gsub", Repl: &ReplSpec{Kind: "str", Str: B("<%0>")}}, {Fn: "pm", Limit: -1}}
				chkCap.Run(t, &Case{S: B("-" + chars[:k] + ext + "-" + chars[:k]), P: B(p + "%" + string(rune('0'+i))), Ops: bops, Kind: "capture_table_backref"})
			}
		}
	}
	chkCap.SetExhaustive(true)
	chkCap.Note("space", "k = 0..34 captures (all string captures / every third a position capture) x replacement %0..%9 x back-reference %1..%9, with find, match, gmatch, table and function replacements, pm.Find")
}

// ---------------------------------------------------------------------------------------------
// random: grammar-based patterns with subjects sampled from them

const litPool = "aabbc1 _xZ"

// node of a generated pattern: its text and how to produce a string it matches
type pnode struct {
	text   string
	sample func(g *sampler)
}

type sampler struct {
	t    *rapid.T
	out  []byte
	caps [][]byte // text of the captures closed so far (nil for position captures)
}

type pgen struct {
	t        *rapid.T
	ncaps    int
	closed   []bool
	isPos    []bool
	depth    int
	maxCaps  int
	nodes    int
	allowOdd bool // chained ranges, back-references to position captures
}

type single struct {
	text   string
	accept [256]bool
}

func (s *single) sampleByte(g *sampler) (byte, bool) {
	// prefer the small pool so that subjects stay in a small alphabet, fall back to any accepted byte
	pool := litPool + "-.%\n\x00\xff\x80B0~\v\x7f@[`{fF9"
	start := rapid.IntRange(0, len(pool)-1).Draw(g.t, "pb")
	for i := 0; i < len(pool); i++ {
		c := pool[(start+i)%len(pool)]
		if s.accept[c] {
			return c, true
		}
	}
	for c := 0; c < 256; c++ {
		if s.accept[c] {
			return byte(c), true
		}
	}
	return 0, false
}

func classAccept(cl byte) (acc [256]bool) {
	lower := cl | 0x20
	for c := 0; c < 256; c++ {
		var r bool
		switch lower {
		case 'a':
			r = c >= 'a' && c <= 'z' || c >= 'A' && c <= 'Z'
		case 'c':
			r = c < 32 || c == 127
		case 'd':
			r = c >= '0' && c <= '9'
		case 'l':
			r = c >= 'a' && c <= 'z'
		case 'p':
			r = c >= 33 && c <= 126 && !isAlnum(byte(c))
		case 's':
			r = c == ' ' || c >= 9 && c <= 13
		case 'u':
			r = c >= 'A' && c <= 'Z'
		case 'w':
			r = isAlnum(byte(c))
		case 'x':
			r = c >= '0' && c <= '9' || c >= 'a' && c <= 'f' || c >= 'A' && c <= 'F'
		case 'z':
			r = c == 0
		}
		if cl < 'a' {
			r = !r
		}
		acc[c] = r
	}
	return
}

const magic = "^$()%.[]*+-?"

func (g *pgen) litChar() byte {
	switch rapid.IntRange(0, 19).Draw(g.t, "litkind") {
	case 0:
		return []byte{0x80, 0xff, 0xc3, 0xa9, 0x7f, 0x01, '\n', '\t'}[rapid.IntRange(0, 7).Draw(g.t, "odd")]
	case 1:
		return byte(rapid.IntRange(1, 255).Draw(g.t, "anybyte"))
	}
	return litPool[rapid.IntRange(0, len(litPool)-1).Draw(g.t, "lit")]
}

// genSingle: a single-character class.
func (g *pgen) genSingle() *single {
	s := &single{}
	switch k := rapid.IntRange(0, 99).Draw(g.t, "single"); {
	case k < 42: // literal (escaped when magic)
		c := g.litChar()
		if strings.IndexByte(magic, c) >= 0 {
			s.text = "%" + string(c)
		} else {
			s.text = string(c)
		}
		s.accept[c] = true
	case k < 52:
		s.text = "."
		for c := range s.accept {
			s.accept[c] = true
		}
	case k < 68:
		cl := classLetters[rapid.IntRange(0, len(classLetters)-1).Draw(g.t, "class")]
		s.text = "%" + string(cl)
		s.accept = classAccept(cl)
	case k < 76: // escaped magic / punctuation
		c := "^$()%.[]*+-?!,;"[rapid.IntRange(0, 14).Draw(g.t, "esc")]
		s.text = "%" + string(c)
		s.accept[c] = true
	case k < 96:
		g.genSet(s)
	default: // characters that are magic elsewhere but literal here
		c := "]"[0]
		s.text = string(c)
		s.accept[c] = true
	}
	return s
}

func (g *pgen) genSet(s *single) {
	var b strings.Builder
	var acc [256]bool
	b.WriteByte('[')
	neg := rapid.IntRange(0, 3).Draw(g.t, "setneg") == 0
	if neg {
		b.WriteByte('^')
	}
	n := rapid.IntRange(1, 4).Draw(g.t, "setn")
	first := true
	prevEsc, prevRange := false, false
	if rapid.IntRange(0, 11).Draw(g.t, "setlead") == 0 {
		// leading ']' or '-' are literal
		c := "]-"[rapid.IntRange(0, 1).Draw(g.t, "leadc")]
		b.WriteByte(c)
		acc[c] = true
		first = false
	}
	ends := "09azAZbc!/~" + "\x80\xff"
	for i := 0; i < n; i++ {
		switch k := rapid.IntRange(0, 99).Draw(g.t, "setel"); {
		case k < 40: // plain character
			c := g.litChar()
			if rapid.IntRange(0, 5).Draw(g.t, "setmagic") == 0 {
				c = "[.$()*+?^"[rapid.IntRange(0, 8).Draw(g.t, "setmagicc")] // magic elsewhere, ordinary in a set
			}
			for c == '%' || c == ']' || c == '-' || (c == '^' && first && !neg) {
				c = 'a'
			}
			b.WriteByte(c)
			acc[c] = true
			prevEsc, prevRange = false, false
		case k < 65: // range
			lo := ends[rapid.IntRange(0, len(ends)-1).Draw(g.t, "lo")]
			hi := ends[rapid.IntRange(0, len(ends)-1).Draw(g.t, "hi")]
			if rapid.IntRange(0, 5).Draw(g.t, "ordered") > 0 && lo > hi {
				lo, hi = hi, lo
			}
			b.WriteByte(lo)
			b.WriteByte('-')
			b.WriteByte(hi)
			for c := int(lo); c <= int(hi); c++ {
				acc[c] = true
			}
			prevEsc, prevRange = false, true
			if g.allowOdd && i+1 < n && rapid.IntRange(0, 7).Draw(g.t, "chain") == 0 {
				// chained range "a-c-e": the second '-' and the 'e' are literal characters
				c := ends[rapid.IntRange(0, len(ends)-1).Draw(g.t, "chainc")]
				b.WriteByte('-')
				b.WriteByte(c)
				acc['-'] = true
				acc[c] = true
				prevRange = false
			}
		case k < 85: // class
			cl := classLetters[rapid.IntRange(0, len(classLetters)-1).Draw(g.t, "setclass")]
			b.WriteByte('%')
			b.WriteByte(cl)
			ca := classAccept(cl)
			for c := range acc {
				acc[c] = acc[c] || ca[c]
			}
			prevEsc, prevRange = true, false
		default: // escaped magic
			c := "]-%^[.$"[rapid.IntRange(0, 6).Draw(g.t, "setesc")]
			b.WriteByte('%')
			b.WriteByte(c)
			acc[c] = true
			prevEsc, prevRange = true, false
		}
		first = false
	}
	_ = prevEsc
	_ = prevRange
	if rapid.IntRange(0, 9).Draw(g.t, "settrail") == 0 {
		b.WriteByte('-') // trailing '-' is literal
		acc['-'] = true
	}
	b.WriteByte(']')
	if neg {
		for c := range acc {
			acc[c] = !acc[c]
		}
	}
	s.text = b.String()
	s.accept = acc
}

var balancePairs = []string{"()", "[]", "{}", "ab", "xx", "<>"}

// genSeq generates a sequence of items; top says whether '$'-at-end / leading '^' handling is the caller's.
func (g *pgen) genSeq(maxItems int) []*pnode {
	var nodes []*pnode
	n := rapid.IntRange(0, maxItems).Draw(g.t, "nitems")
	lastBare := false // the previous item is a single without quantifier (a following quantifier char would bind to it)
	for i := 0; i < n && g.nodes < 24; i++ {
		g.nodes++
		k := rapid.IntRange(0, 99).Draw(g.t, "item")
		switch {
		case k < 68:
			s := g.genSingle()
			q := ""
			switch qk := rapid.IntRange(0, 99).Draw(g.t, "quant"); {
			case qk < 45:
			case qk < 60:
				q = "*"
			case qk < 73:
				q = "+"
			case qk < 87:
				q = "-"
			default:
				q = "?"
			}
			nodes = append(nodes, &pnode{text: s.text + q, sample: func(sm *sampler) {
				lo, hi := 1, 1
				switch q {
				case "*":
					lo, hi = 0, 3
				case "+":
					lo, hi = 1, 3
				case "-":
					lo, hi = 0, 2
				case "?":
					lo, hi = 0, 1
				}
				cnt := rapid.IntRange(lo, hi).Draw(sm.t, "reps")
				for j := 0; j < cnt; j++ {
					if c, ok := s.sampleByte(sm); ok {
						sm.out = append(sm.out, c)
					}
				}
			}})
			lastBare = q == ""
		case k < 78 && g.depth < 4 && g.ncaps < g.maxCaps: // capture
			idx := g.ncaps
			g.ncaps++
			g.closed = append(g.closed, false)
			g.isPos = append(g.isPos, false)
			g.depth++
			inner := g.genSeq(3)
			g.depth--
			g.closed[idx] = true
			var tb strings.Builder
			tb.WriteByte('(')
			for _, nd := range inner {
				tb.WriteString(nd.text)
			}
			tb.WriteByte(')')
			nodes = append(nodes, &pnode{text: tb.String(), sample: func(sm *sampler) {
				for len(sm.caps) <= idx {
					sm.caps = append(sm.caps, nil)
				}
				start := len(sm.out)
				for _, nd := range inner {
					nd.sample(sm)
				}
				sm.caps[idx] = append([]byte{}, sm.out[start:]...)
			}})
			lastBare = false
		case k < 83 && g.ncaps < g.maxCaps: // position capture
			idx := g.ncaps
			g.ncaps++
			g.closed = append(g.closed, true)
			g.isPos = append(g.isPos, true)
			nodes = append(nodes, &pnode{text: "()", sample: func(sm *sampler) {
				for len(sm.caps) <= idx {
					sm.caps = append(sm.caps, nil)
				}
			}})
			lastBare = false
		case k < 90: // back-reference to a closed capture
			var cands []int
			for i, c := range g.closed {
				if c && i < 9 && (!g.isPos[i] || g.allowOdd && rapid.IntRange(0, 3).Draw(g.t, "posref") == 0) {
					cands = append(cands, i)
				}
			}
			if len(cands) == 0 {
				continue
			}
			idx := cands[rapid.IntRange(0, len(cands)-1).Draw(g.t, "backref")]
			nodes = append(nodes, &pnode{text: "%" + string(rune('1'+idx)), sample: func(sm *sampler) {
				if idx < len(sm.caps) {
					sm.out = append(sm.out, sm.caps[idx]...)
				}
			}})
			lastBare = false
		case k < 94: // balanced
			pr := balancePairs[rapid.IntRange(0, len(balancePairs)-1).Draw(g.t, "bal")]
			if rapid.IntRange(0, 4).Draw(g.t, "balodd") == 0 {
				pool := "()[]%.^$*-+?ab \xff"
				pr = string([]byte{pool[rapid.IntRange(0, len(pool)-1).Draw(g.t, "bal1")], pool[rapid.IntRange(0, len(pool)-1).Draw(g.t, "bal2")]})
			}
			nodes = append(nodes, &pnode{text: "%b" + pr, sample: func(sm *sampler) {
				var gen func(d int)
				gen = func(d int) {
					sm.out = append(sm.out, pr[0])
					m := rapid.IntRange(0, 2).Draw(sm.t, "balinner")
					for j := 0; j < m; j++ {
						if d < 2 && pr[0] != pr[1] && rapid.IntRange(0, 1).Draw(sm.t, "balnest") == 0 {
							gen(d + 1)
						} else {
							sm.out = append(sm.out, "a1 "[rapid.IntRange(0, 2).Draw(sm.t, "balc")])
						}
					}
					sm.out = append(sm.out, pr[1])
				}
				gen(0)
			}})
			lastBare = false
		case k < 97: // '^' or '$' where they are ordinary characters
			c := "^$"[rapid.IntRange(0, 1).Draw(g.t, "anchorlit")]
			if c == '^' && len(nodes) == 0 && g.depth == 0 {
				continue // would be the anchor
			}
			// '$' must not end the pattern: the caller appends a sentinel item when it does
			nodes = append(nodes, &pnode{text: string(c) + "\x00lit", sample: func(sm *sampler) { sm.out = append(sm.out, c) }})
			lastBare = true
		default: // a quantifier character where it cannot quantify anything
			if lastBare {
				continue
			}
			c := "*+-?"[rapid.IntRange(0, 3).Draw(g.t, "quantlit")]
			nodes = append(nodes, &pnode{text: string(c), sample: func(sm *sampler) { sm.out = append(sm.out, c) }})
			lastBare = true
		}
	}
	return nodes
}

type genPattern struct {
	text  string
	nodes []*pnode
	ncaps int
}

func genPat(t *rapid.T, allowOdd bool) *genPattern {
	g := &pgen{t: t, allowOdd: allowOdd}
	g.maxCaps = 6
	if rapid.IntRange(0, 19).Draw(t, "manycaps") == 0 {
		g.maxCaps = 32
	}
	nodes := g.genSeq(6)
	var b strings.Builder
	if rapid.IntRange(0, 5).Draw(t, "anchor^") == 0 {
		b.WriteByte('^')
	}
	for i, nd := range nodes {
		tx := nd.text
		if strings.HasSuffix(tx, "\x00lit") {
			tx = tx[:len(tx)-4]
			if tx == "$" && i == len(nodes)-1 {
				tx = "%$" // a literal '$' cannot be last
			}
		}
		b.WriteString(tx)
	}
	txt := b.String()
	// nested nodes may carry the marker as well
	txt = strings.ReplaceAll(txt, "\x00lit", "")
	if rapid.IntRange(0, 5).Draw(t, "anchor$") == 0 {
		txt += "$"
	}
	return &genPattern{text: txt, nodes: nodes, ncaps: g.ncaps}
}

func (gp *genPattern) sampleOnce(t *rapid.T) []byte {
	sm := &sampler{t: t}
	for _, nd := range gp.nodes {
		nd.sample(sm)
	}
	return sm.out
}

func poolString(t *rapid.T, maxLen int, label string) []byte {
	n := rapid.IntRange(0, maxLen).Draw(t, label+"n")
	out := make([]byte, n)
	pool := litPool + "ab-%.()\n\x00\xff"
	for i := range out {
		out[i] = pool[rapid.IntRange(0, len(pool)-1).Draw(t, label)]
	}
	return out
}

func genSubject(t *rapid.T, gp *genPattern) []byte {
	var s []byte
	switch m := rapid.IntRange(0, 99).Draw(t, "subjmode"); {
	case m < 35:
		s = append(s, poolString(t, 3, "pre")...)
		s = append(s, gp.sampleOnce(t)...)
		s = append(s, poolString(t, 3, "suf")...)
	case m < 55:
		s = append(s, poolString(t, 2, "pre")...)
		s = append(s, gp.sampleOnce(t)...)
		s = append(s, poolString(t, 2, "suf")...)
		if len(s) > 0 {
			pos := rapid.IntRange(0, len(s)-1).Draw(t, "mutpos")
			switch rapid.IntRange(0, 2).Draw(t, "mut") {
			case 0:
				s[pos] = litPool[rapid.IntRange(0, len(litPool)-1).Draw(t, "mutc")]
			case 1:
				s = append(s[:pos], s[pos+1:]...)
			case 2:
				s = append(s[:pos], append([]byte{s[pos]}, s[pos:]...)...)
			}
		}
	case m < 85:
		k := rapid.IntRange(2, 4).Draw(t, "copies")
		for i := 0; i < k; i++ {
			s = append(s, gp.sampleOnce(t)...)
			s = append(s, poolString(t, 2, "sep")...)
		}
	default:
		s = poolString(t, 12, "rnd")
	}
	if len(s) > 64 {
		s = s[:64]
	}
	return s
}

func ip(i int) *int { return &i }

func genRepl(t *rapid.T, ncaps int, allowBad bool) *ReplSpec {
	switch k := rapid.IntRange(0, 99).Draw(t, "replkind"); {
	case k < 45:
		var b []byte
		n := rapid.IntRange(0, 5).Draw(t, "repln")
		for i := 0; i < n; i++ {
			switch c := rapid.IntRange(0, 99).Draw(t, "replpiece"); {
			case c < 35:
				b = append(b, "x<> -"[rapid.IntRange(0, 4).Draw(t, "replc")])
			case c < 50:
				b = append(b, "%%"...)
			case c < 70:
				b = append(b, "%0"...)
			case c < 97 || !allowBad:
				hi := ncaps
				if hi == 0 {
					hi = 1 // %1 is the whole match when the pattern has no capture
				}
				if hi > 9 {
					hi = 9
				}
				b = append(b, '%', byte('0'+rapid.IntRange(1, hi).Draw(t, "repli")))
			default:
				lo := ncaps + 1
				if ncaps == 0 {
					lo = 2
				}
				if lo > 9 {
					b = append(b, 'y')
				} else {
					b = append(b, '%', byte('0'+rapid.IntRange(lo, 9).Draw(t, "replbad")))
				}
			}
		}
		return &ReplSpec{Kind: "str", Str: B(b)}
	case k < 62:
		return &ReplSpec{Kind: "table", Seed: rapid.IntRange(0, 1000).Draw(t, "seed")}
	case k < 68:
		return &ReplSpec{Kind: "tablemt", Seed: rapid.IntRange(0, 1000).Draw(t, "seed")}
	case k < 86:
		return &ReplSpec{Kind: "gofunc", Seed: rapid.IntRange(0, 1000).Draw(t, "seed")}
	}
	return &ReplSpec{Kind: "luafunc", Seed: rapid.IntRange(0, 1000).Draw(t, "seed")}
}

func genN(t *rapid.T, l int) *int {
	switch k := rapid.IntRange(0, 99).Draw(t, "nkind"); {
	case k < 35:
		return nil
	case k < 47:
		return ip(0)
	case k < 62:
		return ip(1)
	case k < 76:
		return ip(2)
	case k < 94:
		return ip([]int{l + 1, l + 5, 1000, 1<<31 - 1, 3}[rapid.IntRange(0, 4).Draw(t, "nlarge")])
	}
	return ip(-rapid.IntRange(1, 3).Draw(t, "nneg"))
}

func genInit(t *rapid.T, l int) *int {
	if rapid.IntRange(0, 3).Draw(t, "initabsent") == 0 {
		return nil
	}
	if rapid.IntRange(0, 29).Draw(t, "inithuge") == 0 {
		return ip([]int{1<<31 - 1, -(1 << 31), 1 << 40, -(1 << 40), 1000, -1000}[rapid.IntRange(0, 5).Draw(t, "hugeinit")])
	}
	return ip(rapid.IntRange(-l-2, l+2).Draw(t, "init"))
}

func genOps(t *rapid.T, l int, ncaps int, allowBadRepl bool) []Op {
	n := rapid.IntRange(1, 5).Draw(t, "nops")
	ops := make([]Op, 0, n)
	vias := func(choices ...string) string {
		if rapid.IntRange(0, 3).Draw(t, "viadirect") > 0 {
			return ""
		}
		return choices[rapid.IntRange(0, len(choices)-1).Draw(t, "via")]
	}
	for i := 0; i < n; i++ {
		switch k := rapid.IntRange(0, 99).Draw(t, "op"); {
		case k < 22:
			ops = append(ops, Op{Fn: "find", Init: genInit(t, l), Plain: rapid.IntRange(0, 7).Draw(t, "plain") == 0, Via: vias("src", "method")})
		case k < 40:
			ops = append(ops, Op{Fn: "match", Init: genInit(t, l), Via: vias("src", "method")})
		case k < 58:
			ops = append(ops, Op{Fn: "gmatch", Via: vias("src", "bare")})
		case k < 86:
			ops = append(ops, Op{Fn: "gsub", Repl: genRepl(t, ncaps, allowBadRepl), N: genN(t, l), Via: vias("src")})
		default:
			lim := []int{-1, -1, 1, 2, 3}[rapid.IntRange(0, 4).Draw(t, "pmlimit")]
			ops = append(ops, Op{Fn: "pm", Off: rapid.IntRange(0, l).Draw(t, "pmoff"), Limit: lim})
		}
	}
	return ops
}

func TestRandom(t *testing.T) {
	vf.Rapid(t, func(rt *rapid.T) {
		gp := genPat(rt, true)
		s := genSubject(rt, gp)
		ops := genOps(rt, len(s), gp.ncaps, false)
		chkRnd.Run(rt, &Case{S: B(s), P: B(gp.text), Ops: ops, Kind: "random"})
	})
}

// ---------------------------------------------------------------------------------------------
// malformed patterns and replacements

var handMalformed = []string{
	"%", "a%", "a*%", "[", "[a", "[^", "[]", "[^]", "[a-", "[%", "[%a", "a[", "[a%]", "(", "(a", "a(", "((a)", "(()", "a)", ")", "())", "(a))",
	"%b", "%b(", "a%b", "a%bx", "%0", "a%0", "(a)%0", "%1", "a%1", "(a%1)", "(a)%2", "((a)%1)", "((a)%2)", "(a(b)%1)", "%9", "(a)%9",
	"()%2", "(()", "(%", "(a)%", "^%", "^(", "^)", "$)", "(a$", "[a$", "%b$", "a-(", "a*)", ".-%", "[]%",
}

func manyCaptures(t *rapid.T) string {
	n := rapid.IntRange(31, 40).Draw(t, "ncap")
	var b strings.Builder
	for i := 0; i < n; i++ {
		switch rapid.IntRange(0, 3).Draw(t, "capkind") {
		case 0:
			b.WriteString("()")
		case 1:
			b.WriteString("(a*)")
		case 2:
			b.WriteString("(.?)")
		default:
			b.WriteString("(a)")
		}
	}
	return b.String()
}

var malInserts = []string{"%", "[", "(", ")", "%b", "%bx", "%0", "%1", "%2", "%9", "[^", "]", "(()", "%", "(", ")"}

func genMalformed(t *rapid.T) (p string, s []byte, ncaps int, kind string) {
	gp := genPat(t, false)
	base := gp.text
	ncaps = gp.ncaps
	switch k := rapid.IntRange(0, 99).Draw(t, "malkind"); {
	case k < 25: // truncation
		kind = "truncate"
		if len(base) > 0 {
			base = base[:rapid.IntRange(0, len(base)-1).Draw(t, "cut")]
		} else {
			base = "%"
		}
	case k < 50: // insertion of a magic token
		kind = "insert"
		ins := malInserts[rapid.IntRange(0, len(malInserts)-1).Draw(t, "ins")]
		pos := rapid.IntRange(0, len(base)).Draw(t, "inspos")
		base = base[:pos] + ins + base[pos:]
	case k < 60: // deletion of one character
		kind = "delete"
		if len(base) > 0 {
			pos := rapid.IntRange(0, len(base)-1).Draw(t, "delpos")
			base = base[:pos] + base[pos+1:]
		}
	case k < 72: // hand-written
		kind = "hand"
		base = handMalformed[rapid.IntRange(0, len(handMalformed)-1).Draw(t, "hand")]
		if rapid.IntRange(0, 2).Draw(t, "handprefix") == 0 {
			base = "a*" + base
		}
	case k < 80:
		kind = "many_captures"
		base = manyCaptures(t)
	default: // soup of magic characters
		kind = "soup"
		al := "ab%[]()^$*+-?.12b"
		n := rapid.IntRange(1, 10).Draw(t, "soupn")
		var b strings.Builder
		for i := 0; i < n; i++ {
			b.WriteByte(al[rapid.IntRange(0, len(al)-1).Draw(t, "soup")])
		}
		base = b.String()
	}
	// subject: something the undamaged pattern matches, or a soup over the small alphabet
	if rapid.IntRange(0, 2).Draw(t, "malsubj") > 0 {
		s = append(s, poolString(t, 2, "pre")...)
		s = append(s, gp.sampleOnce(t)...)
		s = append(s, poolString(t, 2, "suf")...)
	} else {
		n := rapid.IntRange(0, 8).Draw(t, "subjn")
		for i := 0; i < n; i++ {
			s = append(s, "aab()1%"[rapid.IntRange(0, 6).Draw(t, "subjc")])
		}
	}
	if kind == "many_captures" {
		s = []byte(strings.Repeat("a", rapid.IntRange(0, 40).Draw(t, "manya")))
	}
	if len(s) > 64 {
		s = s[:64]
	}
	return base, s, ncaps, kind
}

func TestMalformed(t *testing.T) {
	vf.Rapid(t, func(rt *rapid.T) {
		if rapid.IntRange(0, 4).Draw(rt, "badrepl") == 0 {
			// well-formed pattern, replacement string naming a capture that does not exist (or an undefined escape)
			gp := genPat(rt, false)
			s := genSubject(rt, gp)
			noPercent := func(b []byte) []byte {
				for i := range b {
					if b[i] == '%' {
						b[i] = 'x'
					}
				}
				return b
			}
			var r []byte
			r = append(r, noPercent(poolString(rt, 2, "r1"))...)
			switch rapid.IntRange(0, 23).Draw(rt, "badreplkind") { // rapid favours small values: the rare kinds sit in the middle
			case 13:
				r = append(r, '%') // trailing '%': undefined by the manual
			case 17:
				r = append(r, '%', 'x') // undefined by the manual
			default:
				lo := gp.ncaps + 1
				if gp.ncaps == 0 {
					lo = 2
				}
				if lo > 9 {
					lo = 9
				}
				r = append(r, '%', byte('0'+rapid.IntRange(lo, 9).Draw(rt, "badidx")))
				r = append(r, noPercent(poolString(rt, 2, "r2"))...)
			}
			ops := []Op{{Fn: "gsub", Repl: &ReplSpec{Kind: "str", Str: B(r)}, N: genN(rt, len(s))}}
			chkMal.Run(rt, &Case{S: B(s), P: B(gp.text), Ops: ops, Kind: "bad_replacement"})
			return
		}
		p, s, ncaps, kind := genMalformed(rt)
		ops := genOps(rt, len(s), ncaps, true)
		chkMal.Run(rt, &Case{S: B(s), P: B(p), Ops: ops, Kind: "mal_" + kind})
	})
}

// ---------------------------------------------------------------------------------------------
// long subjects: recursion depth and the cost of the loops, on patterns that are linear for a backtracking matcher

type longSpec struct {
	unit, tail, p string
	ops           []Op
	maxN          int // 0: every length
}

func longSpecs() []longSpec {
	find := Op{Fn: "find"}
	match := Op{Fn: "match"}
	pm1 := Op{Fn: "pm", Limit: 1}
	gs3 := Op{Fn: "gsub", Repl: &ReplSpec{Kind: "str", Str: B("<%0>")}, N: ip(3)}
	gsf := Op{Fn: "gsub", Repl: &ReplSpec{Kind: "gofunc", Seed: 5}, N: ip(2)}
	gm := Op{Fn: "gmatch"}
	all := []Op{find, match, pm1, gs3, gsf}
	return []longSpec{
		{"a", "", "a*", all, 0},
		{"a", "b", "a*b", all, 0},
		{"a", "b", "^a*b$", all, 0},
		{"a", "b", "a+b", all, 0},
		{"a", "b", ".-b", all, 0},
		{"a", "b", "^(.-)b", all, 0},
		{"a", "b", "(a*)(b)", all, 0},
		{"a", "b", "^.*$", all, 0},
		{"a", "b", "^.*b", all, 0},
		{"a", "b", "^.*a", all, 0},
		{"a", "", "^.*b", []Op{find, match}, 0},
		{"a", "", "^a-b", []Op{find, match}, 0},
		{"ab", "", "^[ab]*", all, 0},
		{"ab", "c", "^[^c]+c", all, 0},
		{"a1 ", "", "^[%w%s]*$", all, 0},
		{"a", "", "^(a*)%1$", []Op{find, match}, 20000}, // gopher-lua compares the back-reference byte by byte: quadratic
		{"a", "", "^a?a?a?a*$", all, 0},
		{"(", ")", "^%b()", []Op{find, match}, 0},
		{"()", "", "^%b()", all, 0},
		{"a", "", "^a*()", all, 0},
		{"ab", "", "^((a)(b))", all, 0},
		{"a", "b", "b", []Op{find, match, {Fn: "find", Plain: true}, {Fn: "find", Init: ip(-1)}, {Fn: "match", Init: ip(-1)}}, 0},
		{"a", "b", "^%a+$", all, 0},
		{"a", "", "a", []Op{{Fn: "gsub", Repl: &ReplSpec{Kind: "str", Str: B("b")}, N: ip(100)}, {Fn: "pm", Limit: 50}}, 0},
		{"ab", "", "b", []Op{{Fn: "gsub", Repl: &ReplSpec{Kind: "str", Str: B("%0%0")}, N: ip(100)}, {Fn: "pm", Limit: 50}}, 0},
		{"a", "", "(a)", []Op{gm}, 4096},
		{"ab ", "", "%a+", []Op{gm}, 4096},
		{"ab ", "", "%a+", []Op{{Fn: "gsub", Repl: &ReplSpec{Kind: "table", Seed: 3}}}, 4096}, // gopher-lua's gsub assembles quadratically
	}
}

// Finding F-PM5 (fixed by 4b2cfd3): pm's virtual machine recursed once per character taken by a greedy quantifier and
// gave up at 10^6 levels ("pattern/input too complex"), so 'a*' over more than about 10^6 characters raised where Lua
// 5.1 matches.  If the finding is ever listed as open again the long subjects stay below that size (counted as
// excluded); otherwise the case is generated.
const fPM5 = "F-PM5"

func beyondRecursionCap() *Case {
	return &Case{S: B("a"), Rep: 1000100, Tail: B("b"), P: B("^a*b"), Ops: []Op{{Fn: "find"}, {Fn: "match"}}, Kind: "long_beyond_cap", MaxSteps: 100000000}
}

func TestLong(t *testing.T) {
	si, sn := vf.Shard()
	lengths := []int{1000, 4096, 20000}
	if vf.Thorough() {
		lengths = append(lengths, 65536, 200000, 1000000)
	}
	idx := 0
	if si == 0 {
		if vf.Open(fPM5) {
			chkLong.Excluded(fPM5)
		} else {
			chkLong.Run(t, beyondRecursionCap())
		}
	}
	for _, sp := range longSpecs() {
		for _, n := range lengths {
			if sp.maxN > 0 && n > sp.maxN {
				continue
			}
			idx++
			if idx%sn != si {
				continue
			}
			rep := n / len(sp.unit)
			chkLong.Run(t, &Case{S: B(sp.unit), Rep: rep, Tail: B(sp.tail), P: B(sp.p), Ops: sp.ops, Kind: "long", MaxSteps: int64(60*n) + 1000000})
			chkLong.Class("length:" + map[bool]string{true: ">=65536", false: "<65536"}[n >= 65536])
			if n >= 1000000 {
				chkLong.Class("length:>=10^6")
			}
		}
	}
}

// TestKnownFindings re-runs the example of every open finding of this property and logs whether it still fails.
func TestKnownFindings(t *testing.T) {
	if vf.Open(fPM5) {
		if err := chkLong.Try(beyondRecursionCap()); err != nil {
			t.Logf("KNOWN-FINDING %s still fails: %v", fPM5, clip(err.Error(), 300))
			chkLong.Class("known_finding_still_fails:" + fPM5)
		} else {
			t.Logf("KNOWN-FINDING %s no longer fails: mark it fixed", fPM5)
			chkLong.Class("known_finding_no_longer_fails:" + fPM5)
		}
	}
}

// ---------------------------------------------------------------------------------------------
// coverage-guided campaign (thorough tier only): arbitrary pattern and subject bytes, a fixed battery

func fuzzOps(sel byte, l int) []Op {
	init := int(sel%16) - 8
	return []Op{
		{Fn: "find", Init: ip(init)}, {Fn: "match"}, {Fn: "gmatch"}, {Fn: "gmatch", Via: "bare"},
		{Fn: "gsub", Repl: &ReplSpec{Kind: "str", Str: B("<%0%1>")}},
		{Fn: "gsub", Repl: &ReplSpec{Kind: "gofunc", Seed: int(sel)}, N: ip(int(sel>>4) - 1)},
		{Fn: "gsub", Repl: &ReplSpec{Kind: "table", Seed: int(sel)}},
		{Fn: "pm", Off: 0, Limit: -1},
	}
}

func FuzzPattern(f *testing.F) {
	for _, p := range handMalformed {
		f.Add([]byte(p), []byte("ab(a)b%1[x]"), byte(9))
	}
	for _, p := range []string{"a*b", "(a+)(b-)%1", "^[%a_][%w_]*$", "%b()", "()aa()", "[^%s]+", "a?b?c?$", "(.-)%1", "[]a-c-e-]", "%f[%a]", ".-$", "((a)(b))%3%2"} {
		f.Add([]byte(p), []byte("aab aba (a(b)) abab _x1"), byte(0x28))
	}
	f.Fuzz(func(t *testing.T, p []byte, s []byte, sel byte) {
		if len(p) > 40 || len(s) > 80 {
			return
		}
		chkFuzz.Run(t, &Case{S: B(s), P: B(p), Ops: fuzzOps(sel, len(s)), Kind: "fuzz"})
	})
}
