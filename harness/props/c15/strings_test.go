package c15

import (
	"fmt"
	"testing"

	lua "github.com/yuin/gopher-lua"
	"pgregory.net/rapid"

	"verif/vf"
)

// ---------------------------------------------------------------------------------------------
// the manual's definitions, written directly over []byte
//
// Lua 5.1 manual 5.4: "Indices are allowed to be negative and are interpreted as indexing backwards, from the end of
// the string."  string.sub(s,i,j): substring from i to j, j defaults to -1; string.byte(s,i,j): codes of s[i..j],
// i defaults to 1, j defaults to i; string.find(s,p,init,true): plain substring search from init (default 1, may be
// negative).  Out-of-range positions are clamped (start below 1 -> 1, end beyond len -> len, init beyond len -> len+1).

// relPos translates a possibly negative position: -1 is the last byte; anything before the first byte becomes 0.
func relPos(pos int64, l int64) int64 {
	if pos < 0 {
		pos += l + 1
		if pos < 0 {
			pos = 0
		}
	}
	return pos
}

func modelSub(s []byte, i int64, jp *int64) []byte {
	l := int64(len(s))
	j := int64(-1)
	if jp != nil {
		j = *jp
	}
	start, end := relPos(i, l), relPos(j, l)
	if start < 1 {
		start = 1
	}
	if end > l {
		end = l
	}
	if start > end {
		return []byte{}
	}
	return s[start-1 : end]
}

func modelByte(s []byte, ip, jp *int64) []int {
	l := int64(len(s))
	i := int64(1)
	if ip != nil {
		i = *ip
	}
	start := relPos(i, l)
	end := start // "the default value for j is i"
	if jp != nil {
		end = relPos(*jp, l)
	}
	if start < 1 {
		start = 1
	}
	if end > l {
		end = l
	}
	var out []int
	for k := start; k <= end; k++ {
		out = append(out, int(s[k-1]))
	}
	return out
}

// findStart is the 0-based offset at which a plain find with this init starts looking.
func findStart(l int64, ip *int64) int64 {
	init := int64(1)
	if ip != nil {
		init = *ip
	}
	st := relPos(init, l) - 1
	if st < 0 {
		st = 0
	}
	if st > l {
		st = l
	}
	return st
}

func modelFindPlain(s, p []byte, ip *int64) (from, to int64, found bool) {
	l, m := int64(len(s)), int64(len(p))
	for k := findStart(l, ip); k+m <= l; k++ {
		eq := true
		for x := int64(0); x < m; x++ {
			if s[k+x] != p[x] {
				eq = false
				break
			}
		}
		if eq {
			return k + 1, k + m, true
		}
	}
	return 0, 0, false
}

func modelUpper(s []byte) []byte {
	out := make([]byte, len(s))
	for i, c := range s {
		if c >= 'a' && c <= 'z' {
			c -= 'a' - 'A'
		}
		out[i] = c
	}
	return out
}

func modelLower(s []byte) []byte {
	out := make([]byte, len(s))
	for i, c := range s {
		if c >= 'A' && c <= 'Z' {
			c += 'a' - 'A'
		}
		out[i] = c
	}
	return out
}

func modelReverse(s []byte) []byte {
	out := make([]byte, len(s))
	for i, c := range s {
		out[len(s)-1-i] = c
	}
	return out
}

func modelRep(s []byte, n int64) []byte {
	out := []byte{}
	for k := int64(0); k < n; k++ {
		out = append(out, s...)
	}
	return out
}

// ---------------------------------------------------------------------------------------------
// one indexed call: sub / byte / plain find

type IdxCase struct {
	Fn     string `json:"fn"` // sub | byte | find
	S      Bytes  `json:"s"`
	P      Bytes  `json:"p,omitempty"`       // find: the (plain) pattern
	I      *int64 `json:"i"`                 // null: argument omitted (explicit nil when something follows)
	J      *int64 `json:"j"`                 // null: argument omitted
	NilPad bool   `json:"nil_pad,omitempty"` // pass omitted trailing arguments as explicit nils
}

func (c *IdxCase) String() string {
	pi := func(p *int64) string {
		if p == nil {
			return "-"
		}
		return fmt.Sprint(*p)
	}
	switch c.Fn {
	case "find":
		return fmt.Sprintf("string.find(%s, %s, %s, true)", q(c.S), q(c.P), pi(c.I))
	}
	pad := ""
	if c.NilPad {
		pad = " [omitted passed as nil]"
	}
	return fmt.Sprintf("string.%s(%s, %s, %s)%s", c.Fn, q(c.S), pi(c.I), pi(c.J), pad)
}

func num(p *int64) lua.LValue {
	if p == nil {
		return lua.LNil
	}
	return lua.LNumber(float64(*p))
}

// idxArgs builds the Lua argument list after the subject for one call shape; ok=false when the shape is not a legal
// call (string.sub needs i).
func idxArgs(c *IdxCase) (args []lua.LValue, ok bool) {
	switch c.Fn {
	case "sub":
		if c.I == nil {
			return nil, false
		}
		args = append(args, num(c.I))
		if c.J != nil || c.NilPad {
			args = append(args, num(c.J))
		}
	case "byte":
		switch {
		case c.J != nil:
			args = append(args, num(c.I), num(c.J))
		case c.I != nil:
			args = append(args, num(c.I))
			if c.NilPad {
				args = append(args, lua.LNil)
			}
		default:
			if c.NilPad {
				args = append(args, lua.LNil, lua.LNil)
			}
		}
	case "find":
		if c.J != nil {
			return nil, false
		}
		args = append(args, lua.LString(string(c.P)), num(c.I), lua.LTrue)
	default:
		return nil, false
	}
	return args, true
}

// idxExcluded names the open known finding whose shape the call has ("" for none).  string.find's code is owned by
// the C14 check; its two defects on plain searches are only reported here.
func idxExcluded(c *IdxCase) string {
	if c.Fn != "find" {
		return ""
	}
	l := int64(len(c.S))
	init := int64(1)
	if c.I != nil {
		init = *c.I
	}
	if len(c.P) == 0 {
		if findStart(l, c.I) > 0 {
			return "F-STR1" // empty pattern: (1,0) is returned whatever init is
		}
		return ""
	}
	if relPos(init, l)-1 > l {
		return "F-STR2" // init beyond len+1: Go slice panic instead of nil
	}
	return ""
}

// checkIdx runs one call and compares it with the model; it also checks that the subject (and the pattern) still
// hold the bytes they held before the call.
func checkIdx(k *vf.C, c *IdxCase) error {
	args, ok := idxArgs(c)
	if !ok {
		return fmt.Errorf("harness: illegal call shape %s", c)
	}
	subject := string(c.S) // fresh heap copy: an in-place modification would be visible below
	pat := ""
	if c.Fn == "find" {
		pat = string(c.P)
		args[0] = lua.LString(pat)
	}
	all := append([]lua.LValue{lua.LString(subject)}, args...)
	rets, err := call(fn("string", c.Fn), all...)
	if subject != string(c.S) {
		return fmt.Errorf("%s modified its subject in place: now %s", c, q([]byte(subject)))
	}
	if pat != string(c.P) {
		return fmt.Errorf("%s modified its pattern in place: now %s", c, q([]byte(pat)))
	}
	if err != nil {
		return fmt.Errorf("%s raised %q; the manual defines a result for these arguments", c, clip(err.Error(), 200))
	}
	l := int64(len(c.S))
	switch c.Fn {
	case "sub":
		want := modelSub(c.S, *c.I, c.J)
		if len(rets) != 1 {
			return fmt.Errorf("%s returned %d values %s, want 1 string %s", c, len(rets), describe(rets), q(want))
		}
		got, isStr := rets[0].(lua.LString)
		if !isStr || string(got) != string(want) {
			return fmt.Errorf("%s = %s, want %s", c, describe(rets), q(want))
		}
		if len(want) == 0 {
			k.Class("sub:empty")
		} else if int64(len(want)) == l {
			k.Class("sub:whole")
		} else {
			k.Class("sub:part")
		}
	case "byte":
		want := modelByte(c.S, c.I, c.J)
		bad := len(rets) != len(want)
		for x := 0; !bad && x < len(want); x++ {
			n, isNum := rets[x].(lua.LNumber)
			bad = !isNum || float64(n) != float64(want[x])
		}
		if bad {
			return fmt.Errorf("%s = %s, want %v", c, describe(rets), want)
		}
		switch len(want) {
		case 0:
			k.Class("byte:none")
		case 1:
			k.Class("byte:one")
		default:
			k.Class("byte:many")
		}
	case "find":
		from, to, found := modelFindPlain(c.S, c.P, c.I)
		if !found {
			if len(rets) != 1 || rets[0] != lua.LNil {
				return fmt.Errorf("%s = %s, want nil", c, describe(rets))
			}
			k.Class("find:miss")
		} else {
			bad := len(rets) != 2
			if !bad {
				a, ok1 := rets[0].(lua.LNumber)
				b, ok2 := rets[1].(lua.LNumber)
				bad = !ok1 || !ok2 || float64(a) != float64(from) || float64(b) != float64(to)
			}
			if bad {
				return fmt.Errorf("%s = %s, want (%d, %d)", c, describe(rets), from, to)
			}
			if len(c.P) == 0 {
				k.Class("find:empty_pattern")
			} else if from-1 > findStart(l, c.I) {
				k.Class("find:hit_after_init")
			} else {
				k.Class("find:hit_at_init")
			}
		}
	}
	classPos(k, "i", c.I, l)
	if c.Fn != "find" {
		classPos(k, "j", c.J, l)
	}
	if c.NilPad {
		k.Class("explicit_nil")
	}
	return nil
}

func classPos(k *vf.C, name string, p *int64, l int64) {
	switch {
	case p == nil:
		k.Class(name + ":omitted")
	case *p == 0:
		k.Class(name + ":zero")
	case *p > l:
		k.Class(name + ":beyond_end")
	case *p > 0:
		k.Class(name + ":inside")
	case *p >= -l:
		k.Class(name + ":negative_inside")
	default:
		k.Class(name + ":before_start")
	}
}

func nontrivialIdx(c *IdxCase) bool {
	l := int64(len(c.S))
	out := func(p *int64) bool { return p != nil && (*p <= 0 || *p > l) }
	return out(c.I) || out(c.J)
}

func clip(s string, n int) string {
	if len(s) > n {
		return s[:n] + "..."
	}
	return s
}

func idxOracle(k *vf.C, c *IdxCase) error {
	if err := checkIdx(k, c); err != nil {
		return err
	}
	if nontrivialIdx(c) {
		recordNontrivial(k, func() uint64 { return vf.Hash(c.String(), fmt.Sprint(c.NilPad)) })
		sample(k, "str_index", func() any { return c.String() })
	}
	return nil
}

var chkIdx = vf.Register("str_index", idxOracle)

// ---------------------------------------------------------------------------------------------
// the whole window [-len-2, len+2]^2 (plus omitted arguments) for one subject

type WindowCase struct {
	S  Bytes   `json:"s"`
	Ps []Bytes `json:"patterns"` // plain-find patterns tried at every init of the window
}

func ip(v int64) *int64 { return &v }

// windowOracle evaluates every call of the window; the first disagreement is the failure.  Calls that have the shape
// of an open known finding are skipped and counted.
func windowOracle(k *vf.C, c *WindowCase) error {
	l := int64(len(c.S))
	lo, hi := -l-2, l+2
	n := 0
	run := func(ic *IdxCase) error {
		if id := idxExcluded(ic); id != "" && vf.Open(id) {
			k.Excluded(id)
			return nil
		}
		n++
		return checkIdx(k, ic)
	}
	for i := lo; i <= hi; i++ {
		// j omitted
		if err := run(&IdxCase{Fn: "sub", S: c.S, I: ip(i)}); err != nil {
			return err
		}
		if err := run(&IdxCase{Fn: "byte", S: c.S, I: ip(i)}); err != nil {
			return err
		}
		if err := run(&IdxCase{Fn: "sub", S: c.S, I: ip(i), NilPad: true}); err != nil {
			return err
		}
		if err := run(&IdxCase{Fn: "byte", S: c.S, I: ip(i), NilPad: true}); err != nil {
			return err
		}
		// i omitted (explicit nil), j given
		if err := run(&IdxCase{Fn: "byte", S: c.S, J: ip(i)}); err != nil {
			return err
		}
		for j := lo; j <= hi; j++ {
			if err := run(&IdxCase{Fn: "sub", S: c.S, I: ip(i), J: ip(j)}); err != nil {
				return err
			}
			if err := run(&IdxCase{Fn: "byte", S: c.S, I: ip(i), J: ip(j)}); err != nil {
				return err
			}
		}
		for _, p := range c.Ps {
			if err := run(&IdxCase{Fn: "find", S: c.S, P: p, I: ip(i)}); err != nil {
				return err
			}
		}
	}
	if err := run(&IdxCase{Fn: "byte", S: c.S}); err != nil {
		return err
	}
	if err := run(&IdxCase{Fn: "byte", S: c.S, NilPad: true}); err != nil {
		return err
	}
	for _, p := range c.Ps {
		if err := run(&IdxCase{Fn: "find", S: c.S, P: p}); err != nil { // init omitted (nil)
			return err
		}
	}
	k.EvalN(n)
	recordNontrivial(k, func() uint64 { return vf.Hash("window", string(c.S), fmt.Sprint(len(c.Ps))) })
	k.Class(fmt.Sprintf("subject_len:%s", lenClass(len(c.S))))
	if len(c.S) >= 2 {
		sample(k, k2name(k), func() any {
			return map[string]any{"subject": q(c.S), "patterns": len(c.Ps), "calls_in_window": n}
		})
	}
	return nil
}

func lenClass(n int) string {
	switch {
	case n == 0:
		return "0"
	case n == 1:
		return "1"
	case n <= 3:
		return "2-3"
	case n <= 16:
		return "4-16"
	default:
		return "17+"
	}
}

var chkWindowFixed = vf.Register("str_window_fixed", windowOracle)
var chkWindowRandom = vf.Register("str_window_random", windowOracle)

// patternsFor derives the plain-find patterns tried on a subject: the empty pattern, every distinct byte of the
// subject, its prefixes/suffixes/inner pieces up to a bound, the subject itself, the subject plus one byte, and bytes
// that do not occur in it.
func patternsFor(s []byte, extra [][]byte) []Bytes {
	seen := map[string]bool{}
	var out []Bytes
	add := func(p []byte) {
		if !seen[string(p)] && len(out) < 24 {
			seen[string(p)] = true
			out = append(out, append(Bytes{}, p...))
		}
	}
	add(nil)
	for i := range s {
		if i < 6 || i >= len(s)-2 {
			add(s[i : i+1])
		}
	}
	for n := 2; n <= 3 && n <= len(s); n++ {
		add(s[:n])
		add(s[len(s)-n:])
		if len(s) > n+1 {
			add(s[1 : 1+n])
		}
	}
	add(s)
	add(append(append([]byte{}, s...), 'a'))
	for _, b := range []byte{0x00, 'q', 0xfe, '%', '.'} {
		add([]byte{b})
	}
	for _, e := range extra {
		add(e)
	}
	return out
}

var windowAlphabet = []byte{0x00, 'a', 'Z', 0x7f, 0x80, 0xff}

// fixedSubjects is the enumerated set S of the exhaustive window check.
func fixedSubjects() [][]byte {
	var out [][]byte
	out = append(out, []byte{})
	for b := 0; b < 256; b++ {
		out = append(out, []byte{byte(b)})
	}
	for _, a := range windowAlphabet {
		for _, b := range windowAlphabet {
			out = append(out, []byte{a, b})
			for _, c := range windowAlphabet {
				out = append(out, []byte{a, b, c})
			}
		}
	}
	for _, s := range []string{
		"hello world", "a.b.c", "%d%s%%", "[a-z]*", "^anchor$", "a+b-c?", "(x)(y)", "%", ".", "aaaa", "abababab", "aab", "\x00\x00\x00\x00",
		"h\xc3\xa9llo", "\xe6\x97\xa5\xe6\x9c\xac\xe8\xaa\x9e", "\xf0\x9f\x98\x80!", "\xc3", "\xa9\xc3", "\xff\xfe\xfd\xfc", "\xed\xa0\x80", "\xc0\x80",
		"The quick brown fox jumps over the lazy dog", "MiXeD CaSe 123 \x7f\x80",
	} {
		out = append(out, []byte(s))
	}
	return out
}

// TestWindowFixed: the whole index window for every subject of the fixed set (exhaustive over that set).
func TestWindowFixed(t *testing.T) {
	si, sn := vf.Shard()
	subjects := fixedSubjects()
	for n, s := range subjects {
		if n%sn != si {
			continue
		}
		chkWindowFixed.Run(t, &WindowCase{S: s, Ps: patternsFor(s, nil)})
	}
	chkWindowFixed.SetExhaustive(true)
	chkWindowFixed.Note("fixed_subjects", len(subjects))
	chkWindowFixed.Note("window", "every i and every (i,j) in [-len-2, len+2], omitted and explicit-nil arguments, for sub, byte and plain find (init over the window, up to 24 patterns per subject)")
}

// genSubject draws a byte string of a given maximal length from several classes.
func genSubject(r *src, maxLen int, label string) []byte {
	n := r.size(label+"_len", 0, maxLen)
	if r.chance(1, 3) { // rapid prefers short lengths; spread a third of the subjects uniformly over the range
		n = r.n(maxLen + 1)
	}
	out := make([]byte, 0, n)
	switch r.n(6) {
	case 0: // any bytes
		for len(out) < n {
			out = append(out, byte(r.n(256)))
		}
	case 1: // small alphabet (many repeats, so that find has several candidates)
		for len(out) < n {
			out = append(out, "ab\x00\xff"[r.n(4)])
		}
	case 2: // letters and punctuation incl. pattern magic characters
		const al = "abcXYZ019 .%[]()*+-?^$_"
		for len(out) < n {
			out = append(out, al[r.n(len(al))])
		}
	case 3: // valid UTF-8 with multi-byte sequences
		for len(out) < n {
			out = append(out, []byte(string(choose(r, 'a', 'Z', 0xe9, 0xc9, 0x3b1, 0x416, 0x65e5, 0x1f600, 0x7f, 0x80, 0x7ff, 0xffff, 0x10ffff, 0)))...)
		}
	case 4: // invalid UTF-8: truncated and stray continuation bytes
		for len(out) < n {
			out = append(out, choose[byte](r, 0xc3, 0xa9, 0xe6, 0x97, 0xf0, 0x9f, 0x80, 0xbf, 0xc0, 0xff, 0xfe, 'a'))
		}
	default: // high bytes only
		for len(out) < n {
			out = append(out, byte(0x80+r.n(128)))
		}
	}
	return out
}

// TestWindowRandom: the whole window for generated longer subjects.
func TestWindowRandom(t *testing.T) {
	vf.Rapid(t, func(rt *rapid.T) {
		r := newSrc(rt)
		s := genSubject(r, vf.Scale(24, 40), "s")
		var extra [][]byte
		if len(s) > 0 && r.chance(1, 2) {
			a := r.n(len(s))
			b := a + r.n(len(s)-a+1)
			extra = append(extra, s[a:b])
		}
		if r.chance(1, 2) {
			extra = append(extra, genSubject(r, 4, "p"))
		}
		chkWindowRandom.Run(rt, &WindowCase{S: s, Ps: patternsFor(s, extra)})
	})
}

// genPos draws a position: mostly around the ends of a string of length l, sometimes far away.
func genPos(r *src, l int64) int64 {
	switch r.n(10) {
	case 0:
		return choose[int64](r, 1<<31, -(1 << 31), 1<<31-1, 1<<32, -(1 << 32), 1<<40, -(1 << 40), 1<<53-1, -(1<<53 - 1), 1<<53, -(1 << 53))
	case 1:
		return r.between(-3*l-10, 3*l+10)
	case 2, 3:
		return r.between(-l-3, -l+3) // around the front, counted from the end
	case 4, 5:
		return r.between(l-3, l+3) // around the end
	case 6:
		return r.between(-3, 3)
	default:
		return r.between(-l-3, l+3)
	}
}

// TestIndexRandom: single calls on longer subjects with positions near and far from the ends.
func TestIndexRandom(t *testing.T) {
	vf.Rapid(t, func(rt *rapid.T) {
		r := newSrc(rt)
		s := genSubject(r, 300, "s")
		l := int64(len(s))
		c := &IdxCase{S: s, Fn: choose(r, "sub", "byte", "find")}
		switch c.Fn {
		case "sub":
			c.I = ip(genPos(r, l))
			if r.chance(4, 5) {
				c.J = ip(genPos(r, l))
			} else {
				c.NilPad = r.chance(1, 2)
			}
		case "byte":
			shape := r.n(6)
			if shape != 0 {
				c.I = ip(genPos(r, l))
			}
			if shape >= 3 || shape == 0 && r.chance(1, 2) {
				j := genPos(r, l)
				if c.I != nil && j-*c.I > 4000 { // results are pushed one by one; keep the count moderate
					j = *c.I + 4000
				}
				c.J = ip(j)
			} else {
				c.NilPad = r.chance(1, 2)
			}
		case "find":
			if r.chance(5, 6) {
				c.I = ip(genPos(r, l))
			}
			switch r.n(8) {
			case 0, 1:
				c.P = genSubject(r, 3, "p")
			case 2:
				c.P = Bytes{}
			default:
				if l > 0 {
					a := r.n(int(l))
					b := a + r.n(min(int(l)-a, 6)+1)
					c.P = append(Bytes{}, s[a:b]...)
				}
			}
		}
		if id := idxExcluded(c); id != "" && vf.Open(id) {
			chkIdx.Excluded(id)
			return
		}
		chkIdx.Run(rt, c)
	})
}

// ---------------------------------------------------------------------------------------------
// len rep reverse upper lower char

type BytesCase struct {
	Fn    string `json:"fn"` // len | rep | reverse | upper | lower | char
	S     Bytes  `json:"s"`
	N     int64  `json:"n,omitempty"`     // rep count
	Codes []int  `json:"codes,omitempty"` // char arguments
}

func (c *BytesCase) String() string {
	switch c.Fn {
	case "rep":
		return fmt.Sprintf("string.rep(%s, %d)", clip(q(c.S), 120), c.N)
	case "char":
		return fmt.Sprintf("string.char(%v)", c.Codes)
	}
	return fmt.Sprintf("string.%s(%s)", c.Fn, clip(q(c.S), 200))
}

func bytesOracle(k *vf.C, c *BytesCase) error {
	subject := string(c.S)
	var args []lua.LValue
	var want []byte
	wantNum := -1
	switch c.Fn {
	case "len":
		args = []lua.LValue{lua.LString(subject)}
		wantNum = len(c.S)
	case "reverse":
		args = []lua.LValue{lua.LString(subject)}
		want = modelReverse(c.S)
	case "upper":
		args = []lua.LValue{lua.LString(subject)}
		want = modelUpper(c.S)
	case "lower":
		args = []lua.LValue{lua.LString(subject)}
		want = modelLower(c.S)
	case "rep":
		args = []lua.LValue{lua.LString(subject), lua.LNumber(float64(c.N))}
		want = modelRep(c.S, c.N)
	case "char":
		want = make([]byte, len(c.Codes))
		for i, v := range c.Codes {
			if v < 0 || v > 255 {
				return fmt.Errorf("harness: char code %d outside 0..255", v)
			}
			args = append(args, lua.LNumber(float64(v)))
			want[i] = byte(v)
		}
	default:
		return fmt.Errorf("harness: unknown function %q", c.Fn)
	}
	rets, err := call(fn("string", c.Fn), args...)
	if subject != string(c.S) {
		return fmt.Errorf("%s modified its argument in place: now %s", c, clip(q([]byte(subject)), 200))
	}
	if err != nil {
		return fmt.Errorf("%s raised %q", c, clip(err.Error(), 200))
	}
	if len(rets) != 1 {
		return fmt.Errorf("%s returned %d values", c, len(rets))
	}
	if wantNum >= 0 {
		n, ok := rets[0].(lua.LNumber)
		if !ok || float64(n) != float64(wantNum) {
			return fmt.Errorf("%s = %s, want %d", c, describe(rets), wantNum)
		}
	} else {
		got, ok := rets[0].(lua.LString)
		if !ok || string(got) != string(want) {
			return fmt.Errorf("%s = %s, want %s", c, clip(describe(rets), 300), clip(q(want), 300))
		}
	}
	k.Class("fn:" + c.Fn)
	hasHigh, hasNul, hasLetter := false, false, false
	src := []byte(c.S)
	if c.Fn == "char" {
		src = want
	}
	for _, b := range src {
		hasHigh = hasHigh || b >= 0x80
		hasNul = hasNul || b == 0
		hasLetter = hasLetter || (b|0x20 >= 'a' && b|0x20 <= 'z')
	}
	if hasHigh {
		k.Class("bytes>=0x80")
	}
	if hasNul {
		k.Class("byte_0")
	}
	if hasLetter && (c.Fn == "upper" || c.Fn == "lower") {
		k.Class("case_mapped_letters")
	}
	if c.Fn == "rep" {
		switch {
		case c.N < 0:
			k.Class("rep:n<0")
		case c.N == 0:
			k.Class("rep:n=0")
		case c.N > 100:
			k.Class("rep:n_large")
		default:
			k.Class("rep:n_small")
		}
	}
	if hasHigh || hasNul || c.Fn == "rep" && c.N <= 0 {
		recordNontrivial(k, func() uint64 { return vf.Hash(c.String()) })
		sample(k, k2name(k), func() any { return c.String() })
	}
	return nil
}

var chkBytes = vf.Register("str_bytes", bytesOracle)
var chkBytesFixed = vf.Register("str_bytes_all256", bytesOracle)

// TestBytesFixed: every function over every single byte value, char over all 256 codes at once, rep with counts -2..5
// and large counts.
func TestBytesFixed(t *testing.T) {
	si, sn := vf.Shard()
	n := 0
	run := func(c *BytesCase) {
		n++
		if n%sn != si {
			return
		}
		chkBytesFixed.Run(t, c)
	}
	for b := 0; b < 256; b++ {
		s := Bytes{byte(b)}
		for _, f := range []string{"len", "reverse", "upper", "lower"} {
			run(&BytesCase{Fn: f, S: s})
			run(&BytesCase{Fn: f, S: Bytes{byte(b), 'x', byte(b)}})
		}
		for r := int64(-2); r <= 5; r++ {
			run(&BytesCase{Fn: "rep", S: s, N: r})
		}
		run(&BytesCase{Fn: "char", Codes: []int{b}})
		run(&BytesCase{Fn: "char", Codes: []int{b, 255 - b, b}})
	}
	all := make([]int, 256)
	allb := make(Bytes, 256)
	for i := range all {
		all[i] = i
		allb[i] = byte(i)
	}
	run(&BytesCase{Fn: "char", Codes: all})
	run(&BytesCase{Fn: "char"})
	for _, f := range []string{"len", "reverse", "upper", "lower"} {
		run(&BytesCase{Fn: f, S: allb})
		run(&BytesCase{Fn: f, S: Bytes{}})
	}
	for _, r := range []int64{-1 << 31, -1, 0, 1, 2, 3, 1000, 65536, 1 << 20} {
		run(&BytesCase{Fn: "rep", S: Bytes{}, N: r})
		if r <= 65536 {
			run(&BytesCase{Fn: "rep", S: Bytes("a\x00\xff"), N: r})
			run(&BytesCase{Fn: "rep", S: allb[100:140], N: min(r, 4096)})
		}
	}
	chkBytesFixed.SetExhaustive(true)
	chkBytesFixed.Note("space", "len reverse upper lower rep(-2..5) char over each of the 256 byte values (alone and embedded), char over all 256 codes in one call, rep with large counts")
}

func TestBytesRandom(t *testing.T) {
	vf.Rapid(t, func(rt *rapid.T) {
		r := newSrc(rt)
		c := &BytesCase{Fn: choose(r, "len", "rep", "reverse", "upper", "lower", "char")}
		switch c.Fn {
		case "char":
			n := r.size("n", 0, 40)
			for i := 0; i < n; i++ {
				c.Codes = append(c.Codes, r.n(256))
			}
		case "rep":
			c.S = genSubject(r, 40, "s")
			if r.chance(1, 10) {
				c.N = r.between(100, 3000)
			} else {
				c.N = r.between(-3, 40)
			}
		default:
			c.S = genSubject(r, 300, "s")
		}
		chkBytes.Run(rt, c)
	})
}
