// Package lstrlib is a line-by-line Go port of the pattern-matching half of PUC-Rio Lua 5.1's
// lstrlib.c (match/do_match, max_expand, min_expand, start_capture, end_capture, match_capture,
// matchbalance, classEnd, singlematch, matchbracketclass, match_class, str_find_aux including the
// plain / "no specials" path, gmatch_aux, str_gsub, add_s, add_value, push_onecapture,
// push_captures, get_onecapture semantics; LUA_MAXCAPTURES = 32; C-locale <ctype.h> predicates over
// bytes).  It is the reference ("oracle") of property C14 and shares no code with gopher-lua.
//
// C idioms are kept on purpose so that the port can be read next to the C file:
//
//   - a `const char *` into the subject is an int offset into MatchState.src; NULL is -1;
//   - a `const char *` into the pattern is an int offset into MatchState.p; reading at or past the
//     end yields 0, exactly like the terminating '\0' of the C string.  Lua 5.1 treats the pattern
//     as a C string, so a pattern with an embedded NUL ends there (the manual: "A pattern cannot
//     contain embedded zeros.  Use %z instead.");
//   - reading the subject at src_end yields 0 (Lua strings carry a trailing '\0');
//   - luaL_error is a Go panic with *Error, recovered at the three entry points.
//
// Additions that are not in the C file: a step counter with a budget (ErrBudget), a backtrack
// counter (used by the checks to recognise non-trivial cases), and a configurable capture limit.
package lstrlib

import (
	"strconv"
	"strings"
)

const (
	LUA_MAXCAPTURES = 32
	CAP_UNFINISHED  = -1
	CAP_POSITION    = -2
	L_ESC           = '%'
	SPECIALS        = "^$*+?.([%-"
)

// Error is a Lua error raised by the reference (luaL_error).
type Error struct{ Msg string }

func (e *Error) Error() string { return e.Msg }

// ErrBudget is returned when the reference needed more than Opts.MaxSteps steps.
var ErrBudget = &Error{"lstrlib: step budget exceeded"}

type budgetPanic struct{}

// Opts tunes one call.  The zero value means: 10^6 steps, 32 captures.
type Opts struct {
	MaxSteps    int64
	MaxCaptures int
}

// Stats says how much work the reference did.
type Stats struct {
	Steps      int64 // calls of match + iterations of the expand / balance / bracket loops
	Backtracks int64 // times a tentative continuation failed and an alternative was tried
}

type capture struct {
	init int
	len  int
}

type MatchState struct {
	src     string // src_init .. src_end
	p       string // pattern as a C string (cut at the first NUL)
	level   int    // total number of captures (finished or unfinished)
	capture []capture
	steps   int64
	max     int64
	back    int64
}

func newState(src, p string, o *Opts) *MatchState {
	ms := &MatchState{src: src, p: cstring(p), max: 1000000}
	n := LUA_MAXCAPTURES
	if o != nil {
		if o.MaxSteps > 0 {
			ms.max = o.MaxSteps
		}
		if o.MaxCaptures > 0 {
			n = o.MaxCaptures
		}
	}
	ms.capture = make([]capture, n)
	return ms
}

func cstring(p string) string {
	if i := strings.IndexByte(p, 0); i >= 0 {
		return p[:i]
	}
	return p
}

func (ms *MatchState) stats() Stats { return Stats{Steps: ms.steps, Backtracks: ms.back} }

func (ms *MatchState) step() {
	ms.steps++
	if ms.steps > ms.max {
		panic(budgetPanic{})
	}
}

func luaL_error(msg string) { panic(&Error{msg}) }

// pc reads the pattern like *p in C ('\0' at and beyond the end).
func (ms *MatchState) pc(i int) byte {
	if i >= 0 && i < len(ms.p) {
		return ms.p[i]
	}
	return 0
}

// sc reads the subject like *s in C ('\0' at src_end).
func (ms *MatchState) sc(i int) byte {
	if i >= 0 && i < len(ms.src) {
		return ms.src[i]
	}
	return 0
}

func (ms *MatchState) srcEnd() int { return len(ms.src) }

// ---------------------------------------------------------------------------------------------
// <ctype.h> in the "C" locale, over unsigned char values

func isalpha(c int) bool  { return c >= 'a' && c <= 'z' || c >= 'A' && c <= 'Z' }
func isdigit(c int) bool  { return c >= '0' && c <= '9' }
func islower(c int) bool  { return c >= 'a' && c <= 'z' }
func isupper(c int) bool  { return c >= 'A' && c <= 'Z' }
func isalnum(c int) bool  { return isalpha(c) || isdigit(c) }
func iscntrl(c int) bool  { return c >= 0 && c <= 31 || c == 127 }
func isspace(c int) bool  { return c == ' ' || c >= 9 && c <= 13 }
func isgraph(c int) bool  { return c >= 33 && c <= 126 }
func ispunct(c int) bool  { return isgraph(c) && !isalnum(c) }
func isxdigit(c int) bool { return isdigit(c) || c >= 'a' && c <= 'f' || c >= 'A' && c <= 'F' }
func tolower(c int) int {
	if isupper(c) {
		return c + ('a' - 'A')
	}
	return c
}

// ---------------------------------------------------------------------------------------------

func (ms *MatchState) check_capture(l int) int {
	l -= '1'
	if l < 0 || l >= ms.level || ms.capture[l].len == CAP_UNFINISHED {
		luaL_error("invalid capture index")
	}
	return l
}

func (ms *MatchState) capture_to_close() int {
	level := ms.level
	for level--; level >= 0; level-- {
		if ms.capture[level].len == CAP_UNFINISHED {
			return level
		}
	}
	luaL_error("invalid pattern capture")
	return 0
}

func (ms *MatchState) classEnd(p int) int {
	c := ms.pc(p)
	p++
	switch c {
	case L_ESC:
		if ms.pc(p) == 0 {
			luaL_error("malformed pattern (ends with '%')")
		}
		return p + 1
	case '[':
		if ms.pc(p) == '^' {
			p++
		}
		for { /* look for a `]' */
			if ms.pc(p) == 0 {
				luaL_error("malformed pattern (missing ']')")
			}
			c := ms.pc(p)
			p++
			if c == L_ESC && ms.pc(p) != 0 {
				p++ /* skip escapes (e.g. `%]') */
			}
			if ms.pc(p) == ']' {
				break
			}
		}
		return p + 1
	default:
		return p
	}
}

func match_class(c int, cl int) bool {
	var res bool
	switch tolower(cl) {
	case 'a':
		res = isalpha(c)
	case 'c':
		res = iscntrl(c)
	case 'd':
		res = isdigit(c)
	case 'l':
		res = islower(c)
	case 'p':
		res = ispunct(c)
	case 's':
		res = isspace(c)
	case 'u':
		res = isupper(c)
	case 'w':
		res = isalnum(c)
	case 'x':
		res = isxdigit(c)
	case 'z':
		res = (c == 0)
	default:
		return cl == c
	}
	if islower(cl) {
		return res
	}
	return !res
}

func (ms *MatchState) matchbracketclass(c int, p int, ec int) bool {
	sig := true
	if ms.pc(p+1) == '^' {
		sig = false
		p++ /* skip the `^' */
	}
	for p++; p < ec; p++ {
		ms.step()
		if ms.pc(p) == L_ESC {
			p++
			if match_class(c, int(ms.pc(p))) {
				return sig
			}
		} else if ms.pc(p+1) == '-' && (p+2 < ec) {
			p += 2
			if int(ms.pc(p-2)) <= c && c <= int(ms.pc(p)) {
				return sig
			}
		} else if int(ms.pc(p)) == c {
			return sig
		}
	}
	return !sig
}

func (ms *MatchState) singlematch(c int, p int, ep int) bool {
	switch ms.pc(p) {
	case '.':
		return true /* matches any char */
	case L_ESC:
		return match_class(c, int(ms.pc(p+1)))
	case '[':
		return ms.matchbracketclass(c, p, ep-1)
	default:
		return int(ms.pc(p)) == c
	}
}

func (ms *MatchState) matchbalance(s int, p int) int {
	if ms.pc(p) == 0 || ms.pc(p+1) == 0 {
		luaL_error("unbalanced pattern")
	}
	if ms.sc(s) != ms.pc(p) {
		return -1
	}
	b := ms.pc(p)
	e := ms.pc(p + 1)
	cont := 1
	for s++; s < ms.srcEnd(); s++ {
		ms.step()
		if ms.sc(s) == e {
			cont--
			if cont == 0 {
				return s + 1
			}
		} else if ms.sc(s) == b {
			cont++
		}
	}
	return -1 /* string ends out of balance */
}

func (ms *MatchState) max_expand(s int, p int, ep int) int {
	i := 0 /* counts maximum expand for item */
	for (s+i) < ms.srcEnd() && ms.singlematch(int(ms.sc(s+i)), p, ep) {
		ms.step()
		i++
	}
	/* keeps trying to match with the maximum repetitions */
	for i >= 0 {
		res := ms.match(s+i, ep+1)
		if res != -1 {
			return res
		}
		ms.back++
		i-- /* else didn't match; reduce 1 repetition to try again */
	}
	return -1
}

func (ms *MatchState) min_expand(s int, p int, ep int) int {
	for {
		res := ms.match(s, ep+1)
		if res != -1 {
			return res
		} else if s < ms.srcEnd() && ms.singlematch(int(ms.sc(s)), p, ep) {
			ms.back++
			s++ /* try with one more repetition */
		} else {
			return -1
		}
	}
}

func (ms *MatchState) start_capture(s int, p int, what int) int {
	level := ms.level
	if level >= len(ms.capture) {
		luaL_error("too many captures")
	}
	ms.capture[level].init = s
	ms.capture[level].len = what
	ms.level = level + 1
	res := ms.match(s, p)
	if res == -1 { /* match failed? */
		ms.level-- /* undo capture */
	}
	return res
}

func (ms *MatchState) end_capture(s int, p int) int {
	l := ms.capture_to_close()
	ms.capture[l].len = s - ms.capture[l].init /* close capture */
	res := ms.match(s, p)
	if res == -1 { /* match failed? */
		ms.capture[l].len = CAP_UNFINISHED /* undo capture */
	}
	return res
}

func (ms *MatchState) match_capture(s int, l int) int {
	l = ms.check_capture(l)
	ln := ms.capture[l].len
	// size_t len: CAP_POSITION (-2) becomes a huge unsigned number, so the comparison below is false
	if ln < 0 {
		return -1
	}
	if ms.srcEnd()-s >= ln && ms.src[ms.capture[l].init:ms.capture[l].init+ln] == ms.src[s:s+ln] {
		return s + ln
	}
	return -1
}

func (ms *MatchState) match(s int, p int) int {
init: /* using goto's to optimize tail recursion */
	ms.step()
	switch ms.pc(p) {
	case '(': /* start capture */
		if ms.pc(p+1) == ')' { /* position capture? */
			return ms.start_capture(s, p+2, CAP_POSITION)
		}
		return ms.start_capture(s, p+1, CAP_UNFINISHED)
	case ')': /* end capture */
		return ms.end_capture(s, p+1)
	case L_ESC:
		switch ms.pc(p + 1) {
		case 'b': /* balanced string? */
			s = ms.matchbalance(s, p+2)
			if s == -1 {
				return -1
			}
			p += 4
			goto init /* else return match(ms, s, p+4); */
		case 'f': /* frontier? */
			p += 2
			if ms.pc(p) != '[' {
				luaL_error("missing '[' after '%f' in pattern")
			}
			ep := ms.classEnd(p) /* points to what is next */
			var previous byte
			if s != 0 {
				previous = ms.sc(s - 1)
			}
			if ms.matchbracketclass(int(previous), p, ep-1) || !ms.matchbracketclass(int(ms.sc(s)), p, ep-1) {
				return -1
			}
			p = ep
			goto init /* else return match(ms, s, ep); */
		default:
			if isdigit(int(ms.pc(p + 1))) { /* capture results (%0-%9)? */
				s = ms.match_capture(s, int(ms.pc(p+1)))
				if s == -1 {
					return -1
				}
				p += 2
				goto init /* else return match(ms, s, p+2) */
			}
			goto dflt /* case default */
		}
	case 0: /* end of pattern */
		return s /* match succeeded */
	case '$':
		if ms.pc(p+1) == 0 { /* is the `$' the last char in pattern? */
			if s == ms.srcEnd() { /* check end of string */
				return s
			}
			return -1
		}
		goto dflt
	default:
		goto dflt
	}
dflt: /* it is a pattern item */
	{
		ep := ms.classEnd(p) /* points to what is next */
		m := s < ms.srcEnd() && ms.singlematch(int(ms.sc(s)), p, ep)
		switch ms.pc(ep) {
		case '?': /* optional */
			if m {
				res := ms.match(s+1, ep+1)
				if res != -1 {
					return res
				}
				ms.back++
			}
			p = ep + 1
			goto init /* else return match(ms, s, ep+1); */
		case '*': /* 0 or more repetitions */
			return ms.max_expand(s, p, ep)
		case '+': /* 1 or more repetitions */
			if m {
				return ms.max_expand(s+1, p, ep)
			}
			return -1
		case '-': /* 0 or more repetitions (minimum) */
			return ms.min_expand(s, p, ep)
		default:
			if !m {
				return -1
			}
			s++
			p = ep
			goto init /* else return match(ms, s+1, ep); */
		}
	}
}

func lmemfind(s1 string, s2 string) int {
	if len(s2) == 0 {
		return 0 /* empty strings are everywhere */
	} else if len(s2) > len(s1) {
		return -1 /* avoids a negative `l1' */
	}
	// memchr for the first byte, memcmp for the rest
	l2 := len(s2) - 1
	l1 := len(s1) - l2
	off := 0
	for l1 > 0 {
		i := strings.IndexByte(s1[off:off+l1], s2[0])
		if i < 0 {
			return -1
		}
		i++
		if s1[off+i:off+i+l2] == s2[1:] {
			return off + i - 1
		}
		l1 -= i
		off += i
	}
	return -1
}

// ---------------------------------------------------------------------------------------------
// Lua values as far as the string library needs them

type Kind int

const (
	KNil Kind = iota
	KFalse
	KTrue
	KNumber
	KString
	KOther // table, function, userdata ...: only its type name matters
)

type Value struct {
	K Kind
	N float64
	S string // string value, or type name for KOther
}

func Nil() Value          { return Value{K: KNil} }
func Num(n float64) Value { return Value{K: KNumber, N: n} }
func Int(n int) Value     { return Value{K: KNumber, N: float64(n)} }
func Str(s string) Value  { return Value{K: KString, S: s} }
func Bool(b bool) Value {
	if b {
		return Value{K: KTrue}
	}
	return Value{K: KFalse}
}

func (v Value) String() string {
	switch v.K {
	case KNil:
		return "nil"
	case KFalse:
		return "false"
	case KTrue:
		return "true"
	case KNumber:
		return NumberToString(v.N)
	case KString:
		return strconv.Quote(v.S)
	}
	return "<" + v.S + ">"
}

// NumberToString is lua_Number2str: "%.14g".
func NumberToString(n float64) string {
	return strconv.FormatFloat(n, 'g', 14, 64)
}

func (ms *MatchState) push_onecapture(i int, s int, e int) Value {
	if i >= ms.level {
		if i == 0 { /* ms->level == 0, too */
			return Str(ms.src[s:e]) /* add whole match */
		}
		luaL_error("invalid capture index")
	}
	l := ms.capture[i].len
	if l == CAP_UNFINISHED {
		luaL_error("unfinished capture")
	}
	if l == CAP_POSITION {
		return Int(ms.capture[i].init + 1)
	}
	return Str(ms.src[ms.capture[i].init : ms.capture[i].init+l])
}

// push_captures: wholeIfNone corresponds to passing a non-NULL s in C.
func (ms *MatchState) push_captures(s int, e int, wholeIfNone bool) []Value {
	nlevels := ms.level
	if ms.level == 0 && wholeIfNone {
		nlevels = 1
	}
	out := make([]Value, 0, nlevels)
	for i := 0; i < nlevels; i++ {
		out = append(out, ms.push_onecapture(i, s, e))
	}
	return out
}

func posrelat(pos int, len int) int {
	/* relative string position: negative means back from end */
	if pos < 0 {
		pos += len + 1
	}
	if pos >= 0 {
		return pos
	}
	return 0
}

func guard(ms *MatchState, st *Stats, err *error) {
	*st = ms.stats()
	if r := recover(); r != nil {
		switch x := r.(type) {
		case *Error:
			*err = x
		case budgetPanic:
			*err = ErrBudget
		default:
			panic(r)
		}
	}
}

// StrFindAux is str_find_aux: string.find (find=true) and string.match (find=false).
// init is the third argument (pass 1 when absent); plain is lua_toboolean of the fourth.
// The result is the list of Lua values the C function returns.
func StrFindAux(s, p string, init int, plain bool, find bool, o *Opts) (res []Value, st Stats, err error) {
	ms := newState(s, p, o)
	defer guard(ms, &st, &err)
	l1 := len(s)
	init = posrelat(init, l1) - 1
	if init < 0 {
		init = 0
	} else if init > l1 {
		init = l1
	}
	if find && (plain || !strings.ContainsAny(ms.p, SPECIALS)) { /* explicit request or no special characters? */
		/* do a plain search */
		s2 := lmemfind(s[init:], p)
		if s2 != -1 {
			s2 += init
			return []Value{Int(s2 + 1), Int(s2 + len(p))}, st, nil
		}
	} else {
		pp := 0
		anchor := false
		if ms.pc(0) == '^' {
			pp++
			anchor = true
		}
		s1 := init
		for {
			ms.level = 0
			if r := ms.match(s1, pp); r != -1 {
				if find {
					out := []Value{Int(s1 + 1), Int(r)}
					return append(out, ms.push_captures(0, 0, false)...), st, nil
				}
				return ms.push_captures(s1, r, true), st, nil
			}
			// } while (s1++ < ms.src_end && !anchor);
			cont := s1 < ms.srcEnd()
			s1++
			if !(cont && !anchor) {
				break
			}
		}
	}
	return []Value{Nil()}, st, nil /* not found */
}

// Gmatch runs string.gmatch's iterator (gmatch_aux) to exhaustion and returns what every call
// returned.  When the iterator raises an error the iterations completed before it are returned
// together with the error.  maxIter bounds the number of iterations (0 = no bound).
func Gmatch(s, p string, maxIter int, o *Opts) (iters [][]Value, st Stats, err error) {
	ms := newState(s, p, o)
	defer guard(ms, &st, &err)
	upv := 0 // lua_upvalueindex(3)
	for {
		found := false
		for src := upv; src <= ms.srcEnd(); src++ {
			ms.level = 0
			if e := ms.match(src, 0); e != -1 {
				newstart := e
				if e == src {
					newstart++ /* empty match? go at least one position */
				}
				upv = newstart
				iters = append(iters, ms.push_captures(src, e, true))
				found = true
				break
			}
		}
		if !found {
			return iters, st, nil /* not found */
		}
		if maxIter > 0 && len(iters) >= maxIter {
			return iters, st, nil
		}
	}
}

// Repl is the third argument of string.gsub.
type Repl struct {
	Kind  ReplKind
	Str   string                   // ReplString (a number argument is passed as its string form)
	Table func(key Value) Value    // ReplTable: lua_gettable(L, 3)
	Func  func(args []Value) Value // ReplFunc: lua_call(L, n, 1)
	Other string                   // ReplOther: type name
}

type ReplKind int

const (
	ReplString ReplKind = iota
	ReplTable
	ReplFunc
	ReplOther
)

func (ms *MatchState) add_s(b *strings.Builder, news string, s int, e int) {
	l := len(news)
	at := func(i int) byte { // news is a Lua string: '\0' after the end
		if i < l {
			return news[i]
		}
		return 0
	}
	for i := 0; i < l; i++ {
		if at(i) != L_ESC {
			b.WriteByte(at(i))
		} else {
			i++ /* skip ESC */
			if !isdigit(int(at(i))) {
				b.WriteByte(at(i))
			} else if at(i) == '0' {
				b.WriteString(ms.src[s:e])
			} else {
				v := ms.push_onecapture(int(at(i))-'1', s, e)
				addvalue(b, v) /* add capture to accumulated result */
			}
		}
	}
}

func addvalue(b *strings.Builder, v Value) {
	switch v.K {
	case KString:
		b.WriteString(v.S)
	case KNumber:
		b.WriteString(NumberToString(v.N))
	}
}

func (ms *MatchState) add_value(b *strings.Builder, s int, e int, repl *Repl) {
	var v Value
	switch repl.Kind {
	case ReplString:
		ms.add_s(b, repl.Str, s, e)
		return
	case ReplFunc:
		args := ms.push_captures(s, e, true)
		v = repl.Func(args)
	case ReplTable:
		k := ms.push_onecapture(0, s, e)
		v = repl.Table(k)
	}
	if v.K == KNil || v.K == KFalse { /* nil or false? */
		v = Str(ms.src[s:e]) /* keep original text */
	} else if !(v.K == KString || v.K == KNumber) {
		tn := v.S
		if v.K == KTrue {
			tn = "boolean"
		}
		luaL_error("invalid replacement value (a " + tn + ")")
	}
	addvalue(b, v) /* add result to accumulator */
}

// Gsub is str_gsub.  hasMax tells whether the fourth argument was given (and not nil).
func Gsub(src, p string, repl *Repl, maxS int, hasMax bool, o *Opts) (out string, n int, st Stats, err error) {
	ms := newState(src, p, o)
	defer guard(ms, &st, &err)
	srcl := len(src)
	if !hasMax {
		maxS = srcl + 1
	}
	pp := 0
	anchor := false
	if ms.pc(0) == '^' {
		pp++
		anchor = true
	}
	if repl.Kind == ReplOther {
		luaL_error("bad argument #3 to 'gsub' (string/function/table expected)")
	}
	var b strings.Builder
	s := 0
	for n < maxS {
		ms.level = 0
		e := ms.match(s, pp)
		if e != -1 {
			n++
			ms.add_value(&b, s, e, repl)
		}
		if e != -1 && e > s { /* non empty match? */
			s = e /* skip it */
		} else if s < ms.srcEnd() {
			b.WriteByte(ms.src[s])
			s++
		} else {
			break
		}
		if anchor {
			break
		}
	}
	b.WriteString(ms.src[s:])
	return b.String(), n, st, nil
}

// ---------------------------------------------------------------------------------------------
// Scan: every match of p in src as the gsub loop finds them (leftmost, then continuing after the
// match, empty matches advancing by one).  It is what an "all matches" entry point built on the
// reference matcher returns; the checks use it to compare with pm.Find directly.

type Cap struct {
	IsPos      bool
	Start, End int // byte offsets, 0-based, End exclusive; for a position capture Start is the 1-based position
}

type Match struct {
	Start, End int
	Caps       []Cap
}

// Scan starts at offset and stops after limit matches (limit < 0: no limit).  A leading '^' is an
// anchor when anchorable is set (one attempt only, at offset).
func Scan(src, p string, offset, limit int, anchorable bool, o *Opts) (out []Match, st Stats, err error) {
	ms := newState(src, p, o)
	defer guard(ms, &st, &err)
	pp := 0
	anchor := false
	if anchorable && ms.pc(0) == '^' {
		pp++
		anchor = true
	}
	for s := offset; s <= ms.srcEnd(); {
		if limit >= 0 && len(out) >= limit {
			break
		}
		ms.level = 0
		e := ms.match(s, pp)
		if e != -1 {
			m := Match{Start: s, End: e}
			for i := 0; i < ms.level; i++ {
				l := ms.capture[i].len
				if l == CAP_UNFINISHED {
					luaL_error("unfinished capture")
				}
				if l == CAP_POSITION {
					m.Caps = append(m.Caps, Cap{IsPos: true, Start: ms.capture[i].init + 1})
				} else {
					m.Caps = append(m.Caps, Cap{Start: ms.capture[i].init, End: ms.capture[i].init + l})
				}
			}
			out = append(out, m)
		}
		if e != -1 && e > s {
			s = e
		} else {
			s++
		}
		if anchor {
			break
		}
	}
	return out, st, nil
}
