// Package c20: require loads each module once, from preload first, and reports loops.
//
// model_test.go: the case type (a history of actions) and the reference model.  The model is written from the
// Lua 5.1 reference manual (section 5.3, `require`, `module`, `package.*`) and from ll_require / luaL_register /
// luaL_findtable as documented there; it shares no code with gopher-lua.
package c20

import (
	"fmt"
	"sort"
	"strings"
)

// ---------------------------------------------------------------------------------------------
// case

// Names are the user module names a history talks about.  "ma.mb" and "ma.mb.mc" are sub-module names: they are
// searched as ma/mb and ma/mb/mc on the path and registered as the nested globals ma.mb and ma.mb.mc.
var Names = []string{"ma", "mb", "mc", "ma.mb", "ma.mb.mc"}

const nNames = 5

// StdLibs are the names under which the built-in libraries register themselves.
var StdLibs = []string{"package", "_G", "table", "io", "os", "string", "math", "debug", "channel", "coroutine"}

// Case is one history.  It is plain data and replays identically in a fresh process.
type Case struct {
	Kind  string   `json:"kind,omitempty"`
	Open  []string `json:"open,omitempty"` // libraries to open one by one (README recipe); empty: NewState() default (OpenLibs)
	Path  []string `json:"path"`           // initial package.path templates; "$S" stands for the scratch root
	Steps []Action `json:"steps"`
}

// Action is one step of a history.
//
//	require        Mod, Via (lua | go | co): pcall(require, Mod) from a Lua chunk, through the Go API, or inside a coroutine
//	preload_lua    Mod, Ld: package.preload[Mod] = function(...) <Ld> end   executed as Lua
//	preload_go     Mod, Ld: L.PreloadModule(Mod, <LGFunction interpreting Ld>)
//	preload_clear  Mod:     package.preload[Mod] = nil
//	preload_replace Val:    package.preload = {} ("empty") or a shallow copy of itself ("copy")
//	loaded_clear   Mod:     package.loaded[Mod] = nil
//	loaded_set     Mod, Val (false | true | table | string): package.loaded[Mod] = <value>
//	file_write     File, Ld: write a module file (relative to the scratch root) whose chunk is <Ld>
//	file_remove    File
//	path_set       Path:    package.path = templates joined by ";"
//	register       Mod:     L.RegisterModule(Mod, {hostfn}) followed by the reachability probes
//	std_probe      Mod:     require(<built-in library name>) against the global of that name
type Action struct {
	Op   string   `json:"op"`
	Mod  string   `json:"mod,omitempty"`
	Via  string   `json:"via,omitempty"`
	Ld   *Loader  `json:"ld,omitempty"`
	File string   `json:"file,omitempty"`
	Path []string `json:"path,omitempty"`
	Val  string   `json:"val,omitempty"`
}

// Loader describes what a loader does when invoked: it logs its invocation, performs Steps in order and ends with Ret.
//
//	Ret: nothing | nil | false | true | table | string | raise | raise_table
//	     (table/string: a fresh value on every invocation, so a second run of the loader is visible in the value)
type Loader struct {
	ID     string  `json:"id"`
	Steps  []LStep `json:"steps,omitempty"`
	Ret    string  `json:"ret"`
	Syntax bool    `json:"syntax,omitempty"` // file only: the file does not compile
}

// LStep is one nested action of a loader.
//
//	require    Mod: require(Mod), an error propagates out of the loader
//	prequire   Mod: pcall(require, Mod), the outcome is ignored
//	setloaded  Mod, Val (table | string | true | false | nil): package.loaded[Mod] = <value>
//	module     Mod: module(Mod)            (Lua loaders only)
type LStep struct {
	Op  string `json:"op"`
	Mod string `json:"mod"`
	Val string `json:"val,omitempty"`
}

func (c *Case) key() string {
	var b strings.Builder
	b.WriteString(strings.Join(c.Open, ","))
	b.WriteByte('|')
	b.WriteString(strings.Join(c.Path, ";"))
	for i := range c.Steps {
		a := &c.Steps[i]
		b.WriteByte('|')
		b.WriteString(a.Op)
		b.WriteByte(' ')
		b.WriteString(a.Mod)
		b.WriteByte(' ')
		b.WriteString(a.Via)
		b.WriteString(a.File)
		b.WriteString(a.Val)
		b.WriteString(strings.Join(a.Path, ";"))
		if a.Ld != nil {
			b.WriteString(a.Ld.key())
		}
	}
	return b.String()
}

func (l *Loader) key() string {
	var b strings.Builder
	b.WriteByte('{')
	b.WriteString(l.ID)
	for _, s := range l.Steps {
		b.WriteByte(',')
		b.WriteString(s.Op)
		b.WriteByte(':')
		b.WriteString(s.Mod)
		b.WriteByte(':')
		b.WriteString(s.Val)
	}
	b.WriteString("->")
	b.WriteString(l.Ret)
	if l.Syntax {
		b.WriteString("!syntax")
	}
	b.WriteByte('}')
	return b.String()
}

// ---------------------------------------------------------------------------------------------
// abstract values

// val is an abstract Lua value as far as the property can see it.
//
//	k: 'n' nil  'f' false  't' true  'S' the in-progress sentinel (some userdata)  's' string (s = content)
//	   'T' table (s = identity: "L:<loader id>#<n>" n-th value made by that loader, "G:<path>" the table at that global
//	   path, "G:_G" the globals table)   '?' anything else (s = description)
type val struct {
	k byte
	s string
}

var (
	vNil   = val{k: 'n'}
	vFalse = val{k: 'f'}
	vTrue  = val{k: 't'}
	vSent  = val{k: 'S'}
)

func (v val) truthy() bool { return v.k != 'n' && v.k != 'f' }

func (v val) String() string {
	switch v.k {
	case 'n':
		return "nil"
	case 'f':
		return "false"
	case 't':
		return "true"
	case 'S':
		return "<sentinel userdata>"
	case 's':
		return fmt.Sprintf("%q", v.s)
	case 'T':
		return "table(" + v.s + ")"
	}
	return "<" + v.s + ">"
}

type event struct{ Lid, Arg string }

// merr is an error as far as the property fixes it.
type merr struct {
	kind  string   // loop | notfound | raised | raised_table | syntax
	mod   string   // loop, notfound: the module named by the message
	tried []string // notfound: every file name that was tried ("$S" form)
	lid   string   // raised, syntax: loader that failed
	tag   string   // raised_table: identity of the error value
}

func (e *merr) String() string {
	if e == nil {
		return "<no error>"
	}
	switch e.kind {
	case "loop":
		return "loop error naming " + e.mod
	case "notfound":
		return fmt.Sprintf("module %s not found (tried preload and %v)", e.mod, e.tried)
	case "raised":
		return "error raised by loader " + e.lid
	case "raised_table":
		return "table error value " + e.tag + " raised by loader"
	case "syntax":
		return "error loading file of loader " + e.lid
	}
	return e.kind
}

// ---------------------------------------------------------------------------------------------
// model

type preloadEntry struct {
	ld  *Loader
	go_ bool
}

// policy holds the two points on which the property text is silent and the model therefore accepts either reading.
// The zero value is Lua 5.1 (manual and ll_require).
type policy struct {
	// clearOnFail: when a loader fails, the in-progress mark is dropped (5.1 leaves it, so that a later require reports
	// "loop or previous error"; the property only speaks about loaders "while they succeed").
	clearOnFail bool
	// assignWins: when a loader stored a true value in package.loaded[name] itself AND returned a non-nil value, the
	// stored one is kept (the 5.1 manual says the returned value is assigned; the property only demands that whatever
	// the first require returned is what every later require returns).  It does not apply when the loader left
	// nil/false there: then the returned value is the only candidate for "the cached value".
	assignWins bool
	// falseCached: a module whose final value is false counts as loaded (5.1 and its test suite reload it on the next
	// require, because only a true value in package.loaded means "loaded"; the property text, read literally, wants
	// the loader of a module that succeeded not to run again).
	falseCached bool
}

type model struct {
	policy

	loaded  map[string]val
	preload map[string]*preloadEntry
	files   map[string]*Loader // relative file name -> chunk
	path    []string
	globals map[string]bool // dotted global paths that hold a table made by luaL_findtable
	ctr     map[string]int  // values made so far, per loader id

	events      []event
	depth       int
	invocations int
	loading     []string // modules whose loader is running, outermost first
	unbounded   bool     // the history recurses without bound (a loader clears its own in-progress mark and requires itself)

	// statistics for the class histogram
	stats map[string]int
}

func newModel(c *Case, p policy) *model {
	m := &model{policy: p, loaded: map[string]val{}, preload: map[string]*preloadEntry{},
		files: map[string]*Loader{}, globals: map[string]bool{}, ctr: map[string]int{}, stats: map[string]int{}}
	m.path = append([]string(nil), c.Path...)
	open := c.Open
	if len(open) == 0 {
		open = StdLibs
	}
	for _, lib := range open {
		// luaL_register: _LOADED[name] = the global table of that name
		m.loaded[lib] = val{'T', "G:" + lib}
	}
	return m
}

func (m *model) mk(lid, kind string) val {
	switch kind {
	case "nil", "nothing":
		return vNil
	case "false":
		return vFalse
	case "true":
		return vTrue
	case "table":
		m.ctr[lid]++
		return val{'T', fmt.Sprintf("L:%s#%d", lid, m.ctr[lid])}
	case "string":
		m.ctr[lid]++
		return val{'s', fmt.Sprintf("S:%s#%d", lid, m.ctr[lid])}
	}
	panic("bad value kind " + kind)
}

// findtable is luaL_findtable on the globals: creates the chain of tables for a dotted name.
func (m *model) findtable(name string) val {
	parts := strings.Split(name, ".")
	for i := range parts {
		m.globals[strings.Join(parts[:i+1], ".")] = true
	}
	return val{'T', "G:" + name}
}

// Subst is the path-template substitution of the manual: every "?" becomes the module name with "." turned into the
// directory separator.
func Subst(template, name string) string {
	return strings.ReplaceAll(template, "?", strings.ReplaceAll(name, ".", "/"))
}

// get reads package.loaded[name] (an absent entry is nil).
func (m *model) get(name string) val {
	if v, ok := m.loaded[name]; ok && v.k != 0 {
		return v
	}
	return vNil
}

func (m *model) stat(k string) { m.stats[k]++ }

// require is ll_require.
func (m *model) require(name string) (val, *merr) {
	v := m.get(name)
	if v.truthy() {
		if v.k == 'S' {
			at := -1
			for i, n := range m.loading {
				if n == name {
					at = i
				}
			}
			if at >= 0 {
				m.stat("req:err_loop")
				m.stat(fmt.Sprintf("cycle_len:%d", min(len(m.loading)-at, 4)))
			} else {
				m.stat("req:again_after_failure")
			}
			return vNil, &merr{kind: "loop", mod: name}
		}
		m.stat("req:cached")
		return v, nil
	}
	if v.k == 'f' {
		if m.falseCached {
			return v, nil
		}
		m.stat("req:reload_after_false")
	}
	// loaders: preload first, then the path search
	var ld *Loader
	src := ""
	if p := m.preload[name]; p != nil {
		ld = p.ld
		src = "preload_lua"
		if p.go_ {
			src = "preload_go"
		}
		for _, t := range m.path {
			if f := m.fileAt(Subst(t, name)); f != nil {
				m.stat("preload_beats_file")
				break
			}
		}
	} else {
		var tried []string
		for _, t := range m.path {
			fn := Subst(t, name)
			if f := m.fileAt(fn); f != nil {
				if f.Syntax {
					m.stat("req:err_syntax")
					return vNil, &merr{kind: "syntax", lid: f.ID}
				}
				ld = f
				src = "file"
				if len(tried) > 0 {
					m.stat("file_on_later_template")
				}
				break
			}
			tried = append(tried, fn)
		}
		if ld == nil {
			m.stat("req:err_notfound")
			return vNil, &merr{kind: "notfound", mod: name, tried: tried}
		}
	}
	m.loaded[name] = vSent
	if m.depth > 0 {
		m.stat("nested_load")
	}
	m.loading = append(m.loading, name)
	ret, err := m.runLoader(ld, name)
	m.loading = m.loading[:len(m.loading)-1]
	if err != nil {
		if m.get(name).k == 'S' {
			if m.clearOnFail {
				m.loaded[name] = vNil
			}
		}
		m.stat("req:failed_in_loader")
		return vNil, err
	}
	if ret.k != 'n' {
		if cur := m.get(name); cur.truthy() && cur.k != 'S' {
			if !m.assignWins {
				m.loaded[name] = ret
			}
		} else {
			m.loaded[name] = ret
		}
	}
	if m.get(name).k == 'S' {
		m.loaded[name] = vTrue
		m.stat("req:true_from_nothing")
	}
	m.stat("req:loaded_" + src)
	out := m.get(name)
	switch out.k {
	case 'f':
		m.stat("req:result_false")
	case 'n':
		m.stat("req:result_nil")
	}
	return out, nil
}

func (m *model) fileAt(fn string) *Loader {
	if !strings.HasPrefix(fn, "$S/") {
		return nil
	}
	return m.files[fn[3:]]
}

// A history whose loaders keep dropping their own in-progress mark can recurse without bound (or fan out
// exponentially through protected requires); such histories are discarded before the real code is run.
const (
	maxDepth       = 12
	maxInvocations = 400
)

func (m *model) runLoader(ld *Loader, name string) (val, *merr) {
	m.events = append(m.events, event{ld.ID, name})
	m.depth++
	defer func() { m.depth-- }()
	m.invocations++
	if m.depth > maxDepth || m.invocations > maxInvocations {
		m.unbounded = true
		return vNil, &merr{kind: "raised", lid: ld.ID}
	}
	selfAssigned := false
	for _, s := range ld.Steps {
		if m.unbounded {
			return vNil, &merr{kind: "raised", lid: ld.ID}
		}
		switch s.Op {
		case "require":
			if s.Mod == name {
				m.stat("nested:self")
			} else {
				m.stat("nested:other")
			}
			if _, err := m.require(s.Mod); err != nil {
				return vNil, err
			}
		case "prequire":
			m.stat("nested:protected")
			m.require(s.Mod)
		case "setloaded":
			m.loaded[s.Mod] = m.mk(ld.ID, s.Val)
			if s.Mod == name {
				selfAssigned = true
				m.stat("selfassign:" + s.Val)
			} else {
				m.stat("assign_other")
			}
		case "module":
			// ll_module: reuse _LOADED[name] when it is a table, else the (possibly new) global table of that name
			if m.get(s.Mod).k != 'T' {
				m.loaded[s.Mod] = m.findtable(s.Mod)
			}
			m.stat("module_fn")
			if s.Mod == name {
				selfAssigned = true
			}
		default:
			panic("bad loader step " + s.Op)
		}
	}
	switch ld.Ret {
	case "raise":
		m.stat("loader_raises")
		return vNil, &merr{kind: "raised", lid: ld.ID}
	case "raise_table":
		m.stat("loader_raises")
		return vNil, &merr{kind: "raised_table", tag: m.mk(ld.ID, "table").s}
	}
	r := m.mk(ld.ID, ld.Ret)
	if selfAssigned && r.k != 'n' {
		m.stat("selfassign_and_return")
	}
	return r, nil
}

// ---------------------------------------------------------------------------------------------
// what the model expects from one step

type expect struct {
	events []event
	hasRes bool
	v      val
	err    *merr
	// register
	regFresh bool // the host table is (re)filled by this call: hostfn must be callable, the global must be the same table
	// state after the step
	loaded  [nNames]val
	preload [nNames]bool
	globals [nNames]bool
}

func (m *model) step(a *Action, idx int) expect {
	m.events = nil
	var e expect
	switch a.Op {
	case "require", "std_probe":
		e.hasRes = true
		e.v, e.err = m.require(a.Mod)
	case "preload_lua":
		m.preload[a.Mod] = &preloadEntry{ld: a.Ld}
	case "preload_go":
		m.preload[a.Mod] = &preloadEntry{ld: a.Ld, go_: true}
	case "preload_clear":
		delete(m.preload, a.Mod)
	case "preload_replace":
		if len(m.preload) > 0 {
			m.stat("preload_table_replaced_" + a.Val)
		}
		if a.Val == "empty" {
			m.preload = map[string]*preloadEntry{}
		}
	case "loaded_clear":
		if m.get(a.Mod).k == 'S' {
			m.stat("clear_after_failure")
		} else if m.get(a.Mod).truthy() {
			m.stat("clear_loaded_module")
		}
		delete(m.loaded, a.Mod)
	case "loaded_set":
		m.loaded[a.Mod] = m.mk(fmt.Sprintf("act%d", idx), a.Val)
	case "file_write":
		m.files[a.File] = a.Ld
	case "file_remove":
		delete(m.files, a.File)
	case "path_set":
		m.path = append([]string(nil), a.Path...)
	case "register":
		// luaL_register(L, name, funcs): reuse _LOADED[name] when it is a table; else take/create the global table,
		// store it in _LOADED[name]; then a require(name) must give that table without running any loader.
		if m.get(a.Mod).k == 'T' {
			m.stat("register_existing")
		} else {
			if m.get(a.Mod).k == 'S' {
				m.stat("register_over_failed")
			}
			m.loaded[a.Mod] = m.findtable(a.Mod)
			e.regFresh = true
			m.stat("register_fresh")
		}
		e.hasRes = true
		e.v, e.err = m.require(a.Mod)
	default:
		panic("bad action " + a.Op)
	}
	e.events = m.events
	for i, n := range Names {
		e.loaded[i] = m.get(n)
		e.preload[i] = m.preload[n] != nil
		e.globals[i] = m.globals[n]
	}
	return e
}

func sortedKeys(m map[string]int) []string {
	ks := make([]string, 0, len(m))
	for k := range m {
		ks = append(ks, k)
	}
	sort.Strings(ks)
	return ks
}
