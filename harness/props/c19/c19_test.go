// Package c19: io file handles behave as a byte sequence with one cursor under any history of
// write / read / lines / seek / flush / setvbuf / close (property C19).
//
// A case is an initial file content plus a list of operations over handle slots.  The oracle replays the list on
// gopher-lua (through the Lua-visible functions only: io.open, h:read, h:write, ..., io.read, io.lines) and, in
// lock step, on the model of /verif/harness/iomodel (a byte slice and one cursor per handle, written from the Lua 5.1
// manual and ISO C 7.19).  After every operation the results must equal the model's, and whenever no handle holds
// output the program has not flushed, the bytes on disk (os.ReadFile) must equal the model's bytes.
package c19

import (
	"bytes"
	"encoding/json"
	"fmt"
	"os"
	"path/filepath"
	"runtime/debug"
	"strings"
	"sync"
	"testing"

	lua "github.com/yuin/gopher-lua"
	"github.com/yuin/gopher-lua/parse"

	"verif/gl"
	im "verif/iomodel"
	"verif/vf"
)

func TestMain(m *testing.M) {
	// every case builds a fresh LState (tens of KB of registry); the live heap is tiny, so let the collector run rarely
	debug.SetGCPercent(400)
	vf.Main(m)
}

func TestReplay(t *testing.T) { vf.Replay(t) }

// ---------------------------------------------------------------------------------------------
// case

type Case struct {
	Absent bool     `json:"absent,omitempty"` // the file does not exist at the start
	Init   []im.Seg `json:"init,omitempty"`   // initial content
	Trunc  int      `json:"trunc,omitempty"`  // > 0: initial content is cut to this many bytes
	Ops    []im.Op  `json:"ops"`
}

func (c *Case) InitBytes() []byte {
	b := im.SegBytes(c.Init)
	if c.Trunc > 0 && len(b) > c.Trunc {
		b = b[:c.Trunc]
	}
	return b
}

// ---------------------------------------------------------------------------------------------
// running operations on gopher-lua

const helperSrc = `
local function collect(iter, s, c, max, limit)
  local t, n = {}, 0
  for l in iter, s, c do
    n = n + 1; t[n] = l
    if max and n >= max then break end
    if n > limit then error("runaway line iterator") end
  end
  return n, t
end
return
  function(f, max, limit) return collect(f:lines(), nil, nil, max, limit) end,
  function(f, max, limit) io.input(f); local a, b, c = io.lines(); return collect(a, b, c, max, limit) end,
  function(path, limit) return collect(io.lines(path), nil, nil, nil, limit) end
`

type luaRunner struct {
	L       *lua.LState
	path    string
	io      *lua.LTable
	h       []lua.LValue
	it      []lua.LValue
	forM    lua.LValue
	forIO   lua.LValue
	ioLines lua.LValue
}

func openLib(L *lua.LState, name string, fn lua.LGFunction) {
	L.Push(L.NewFunction(fn))
	L.Push(lua.LString(name))
	L.Call(1, 0)
}

var (
	helperOnce  sync.Once
	helperProto *lua.FunctionProto
	helperErr   error
)

func compileHelper() {
	chunk, err := parse.Parse(strings.NewReader(helperSrc), "helper")
	if err != nil {
		helperErr = err
		return
	}
	helperProto, helperErr = lua.Compile(chunk, "helper")
}

func newLuaRunner(path string) (*luaRunner, error) {
	helperOnce.Do(compileHelper)
	if helperErr != nil {
		return nil, fmt.Errorf("harness: helper does not compile: %v", helperErr)
	}
	L := lua.NewState(lua.Options{SkipOpenLibs: true, RegistrySize: 4096, CallStackSize: 64})
	openLib(L, lua.LoadLibName, lua.OpenPackage)
	openLib(L, lua.BaseLibName, lua.OpenBase)
	openLib(L, lua.IoLibName, lua.OpenIo)
	r := &luaRunner{L: L, path: path}
	iot, ok := L.GetGlobal("io").(*lua.LTable)
	if !ok {
		L.Close()
		return nil, fmt.Errorf("harness: no io table")
	}
	r.io = iot
	L.Push(L.NewFunctionFromProto(helperProto))
	if err := L.PCall(0, 3, nil); err != nil {
		L.Close()
		return nil, fmt.Errorf("harness: helper failed: %v", err)
	}
	r.forM, r.forIO, r.ioLines = L.Get(-3), L.Get(-2), L.Get(-1)
	L.SetTop(0)
	return r, nil
}

func conv(v lua.LValue) im.Val {
	switch x := v.(type) {
	case *lua.LNilType:
		return im.Val{K: im.VNil}
	case lua.LBool:
		if bool(x) {
			return im.Val{K: im.VTrue}
		}
		return im.Val{K: im.VOther}
	case lua.LString:
		return im.Val{K: im.VStr, S: []byte(string(x))}
	case lua.LNumber:
		return im.Val{K: im.VNum, N: float64(x)}
	case *lua.LFunction:
		return im.Val{K: im.VFunc}
	case *lua.LUserData:
		return im.Val{K: im.VHandle}
	}
	return im.Val{K: im.VOther}
}

// call invokes fn in protected mode and returns what it returned (or that it raised).
func (r *luaRunner) call(fn lua.LValue, args ...lua.LValue) (raised bool, msg string, vals []im.Val, raw []lua.LValue) {
	L := r.L
	base := L.GetTop()
	err := L.CallByParam(lua.P{Fn: fn, NRet: lua.MultRet, Protect: true}, args...)
	if err != nil {
		L.SetTop(base)
		return true, err.Error(), nil, nil
	}
	n := L.GetTop() - base
	for i := 1; i <= n; i++ {
		v := L.Get(base + i)
		raw = append(raw, v)
		vals = append(vals, conv(v))
	}
	L.SetTop(base)
	return false, "", vals, raw
}

func (r *luaRunner) method(h lua.LValue, name string) lua.LValue { return r.L.GetField(h, name) }

func (r *luaRunner) iofn(name string) lua.LValue { return r.io.RawGetString(name) }

func tableVals(n im.Val, t lua.LValue) ([]im.Val, error) {
	tb, ok := t.(*lua.LTable)
	if !ok || n.K != im.VNum {
		return nil, fmt.Errorf("harness: helper returned no table")
	}
	var out []im.Val
	for i := 1; i <= int(n.N); i++ {
		out = append(out, conv(tb.RawGetInt(i)))
	}
	return out, nil
}

// do executes one operation.  herr reports a problem of the harness itself (never of the code under test).
func (r *luaRunner) do(op *im.Op, bound int) (raised bool, msg string, vals []im.Val, herr error) {
	L := r.L
	viaIO := op.Via == "io"
	switch op.K {
	case "open":
		var raw []lua.LValue
		if op.Via == "io.input" || op.Via == "io.output" {
			raised, msg, vals, raw = r.call(r.iofn(op.Via[3:]), lua.LString(r.path))
		} else if op.NoMode {
			raised, msg, vals, raw = r.call(r.iofn("open"), lua.LString(r.path))
		} else {
			raised, msg, vals, raw = r.call(r.iofn("open"), lua.LString(r.path), lua.LString(op.Mode))
		}
		var h lua.LValue = lua.LNil
		if !raised && len(raw) > 0 {
			h = raw[0]
		}
		r.h = append(r.h, h)
		r.it = append(r.it, lua.LNil)
		if len(vals) > 1 && vals[0].K == im.VHandle {
			return raised, msg, vals, fmt.Errorf("io.open returned a handle and %d more values", len(vals)-1)
		}
		return
	case "iolines":
		raised, msg, vals, raw := r.call(r.ioLines, lua.LString(r.path), lua.LNumber(bound+2))
		if raised {
			return raised, msg, nil, nil
		}
		if len(raw) != 2 {
			return false, "", nil, fmt.Errorf("harness: helper returned %d values", len(raw))
		}
		lines, e := tableVals(vals[0], raw[1])
		return false, "", lines, e
	}
	if op.H < 0 || op.H >= len(r.h) || r.h[op.H] == lua.LNil {
		return false, "", nil, fmt.Errorf("harness: no handle in slot %d", op.H)
	}
	h := r.h[op.H]
	switch op.K {
	case "write":
		var args []lua.LValue
		for _, a := range op.W {
			if a.Num != nil {
				args = append(args, lua.LNumber(*a.Num))
			} else {
				args = append(args, lua.LString(string(im.SegBytes(a.S))))
			}
		}
		if viaIO {
			if ra, m, _, _ := r.call(r.iofn("output"), h); ra {
				return true, "io.output(h): " + m, nil, fmt.Errorf("harness: io.output(h) raised: %s", m)
			}
			raised, msg, vals, _ = r.call(r.iofn("write"), args...)
			return
		}
		raised, msg, vals, _ = r.call(r.method(h, "write"), append([]lua.LValue{h}, args...)...)
		return
	case "read":
		var args []lua.LValue
		for _, f := range op.R {
			if f.N != nil {
				args = append(args, lua.LNumber(*f.N))
			} else {
				args = append(args, lua.LString(f.F))
			}
		}
		if viaIO {
			if ra, m, _, _ := r.call(r.iofn("input"), h); ra {
				return true, "", nil, fmt.Errorf("harness: io.input(h) raised: %s", m)
			}
			raised, msg, vals, _ = r.call(r.iofn("read"), args...)
			return
		}
		raised, msg, vals, _ = r.call(r.method(h, "read"), append([]lua.LValue{h}, args...)...)
		return
	case "lines":
		var raw []lua.LValue
		raised, msg, vals, raw = r.call(r.method(h, "lines"), h)
		if !raised && len(raw) > 0 {
			r.it[op.H] = raw[0]
		}
		return
	case "next":
		if r.it[op.H] == lua.LNil {
			return false, "", nil, fmt.Errorf("harness: no iterator in slot %d", op.H)
		}
		raised, msg, vals, _ = r.call(r.it[op.H])
		return
	case "forlines":
		fn := r.forM
		if viaIO {
			fn = r.forIO
		}
		var raw []lua.LValue
		raised, msg, vals, raw = r.call(fn, h, lua.LNumber(op.Max), lua.LNumber(bound+2))
		if raised {
			return
		}
		if len(raw) != 2 {
			return false, "", nil, fmt.Errorf("harness: helper returned %d values", len(raw))
		}
		lines, e := tableVals(vals[0], raw[1])
		return false, "", lines, e
	case "seek":
		args := []lua.LValue{h}
		if op.Wh != "" {
			args = append(args, lua.LString(op.Wh))
			if op.Off != nil {
				args = append(args, lua.LNumber(*op.Off))
			}
		} else if op.Off != nil {
			return false, "", nil, fmt.Errorf("harness: seek offset without whence")
		}
		raised, msg, vals, _ = r.call(r.method(h, "seek"), args...)
		return
	case "flush":
		if viaIO {
			if ra, m, _, _ := r.call(r.iofn("output"), h); ra {
				return true, "", nil, fmt.Errorf("harness: io.output(h) raised: %s", m)
			}
			raised, msg, vals, _ = r.call(r.iofn("flush"))
			return
		}
		raised, msg, vals, _ = r.call(r.method(h, "flush"), h)
		return
	case "setvbuf":
		args := []lua.LValue{h, lua.LString(op.Buf)}
		if op.Size != nil {
			args = append(args, lua.LNumber(*op.Size))
		}
		raised, msg, vals, _ = r.call(r.method(h, "setvbuf"), args...)
		return
	case "close":
		if op.Via == "io.close0" {
			if ra, m, _, _ := r.call(r.iofn("output"), h); ra {
				return true, "", nil, fmt.Errorf("harness: io.output(h) raised: %s", m)
			}
			raised, msg, vals, _ = r.call(r.iofn("close"))
			return
		}
		if viaIO {
			raised, msg, vals, _ = r.call(r.iofn("close"), h)
			return
		}
		raised, msg, vals, _ = r.call(r.method(h, "close"), h)
		return
	}
	_ = L
	return false, "", nil, fmt.Errorf("harness: unknown op %q", op.K)
}

// shutdown releases what the history left open (only reached on the error paths; a history that ran to its end has
// closed every handle through Lua).
func (r *luaRunner) shutdown() {
	for _, h := range r.h {
		if h != lua.LNil {
			r.call(r.method(h, "close"), h)
		}
	}
	r.L.Close()
}

// ---------------------------------------------------------------------------------------------
// the oracle

func opString(op *im.Op) string {
	b, _ := json.Marshal(op)
	s := string(b)
	if len(s) > 300 {
		s = s[:300] + "..."
	}
	return s
}

func checkDisk(path string, w *im.World) error {
	got, err := os.ReadFile(path)
	if !w.Exists {
		if err == nil {
			return fmt.Errorf("file exists on disk (%d bytes) but was never created by the history", len(got))
		}
		return nil
	}
	if err != nil {
		return fmt.Errorf("file cannot be read back: %v", err)
	}
	if bytes.Equal(got, w.Data) {
		return nil
	}
	i := 0
	for i < len(got) && i < len(w.Data) && got[i] == w.Data[i] {
		i++
	}
	clip := func(b []byte) string {
		lo, hi := i-8, i+24
		if lo < 0 {
			lo = 0
		}
		if hi > len(b) {
			hi = len(b)
		}
		if lo > hi {
			lo = hi
		}
		return fmt.Sprintf("%q", b[lo:hi])
	}
	return fmt.Errorf("bytes on disk differ from the model at offset %d: disk has %d bytes (...%s...), model has %d bytes (...%s...)",
		i, len(got), clip(got), len(w.Data), clip(w.Data))
}

var fileSeq int

func sizeClass(n int) string {
	switch {
	case n == 0, n == 1, n == 4095, n == 4096, n == 4097, n == 9000, n == 8191, n == 8192, n == 8193:
		return fmt.Sprintf("init_size:%d", n)
	case n < 4095:
		return "init_size:2..4094"
	case n < 8191:
		return "init_size:4098..8190"
	}
	return "init_size:other>8193"
}

func runHistory(k *vf.C, c *Case) error {
	dir := gl.Scratch()
	fileSeq++
	path := filepath.Join(dir, fmt.Sprintf("c19-%d.dat", fileSeq%4))
	os.Remove(path)
	init := c.InitBytes()
	if !c.Absent {
		if err := os.WriteFile(path, init, 0o600); err != nil {
			return fmt.Errorf("harness: cannot create scratch file: %v", err)
		}
	} else {
		init = nil
	}
	defer os.Remove(path)
	r, err := newLuaRunner(path)
	if err != nil {
		return err
	}
	defer r.shutdown()
	w := im.NewWorld(!c.Absent, init)

	if c.Absent {
		k.Class("init:absent")
	} else {
		k.Class(sizeClass(len(init)))
	}
	nontrivial := false
	step := func(i int, op *im.Op, implicit bool) (stop bool, err error) {
		e := w.Apply(op)
		if e.Unspec != "" {
			k.Discard(e.Unspec)
			return true, nil
		}
		bound := len(w.Data)
		if len(init) > bound {
			bound = len(init)
		}
		raised, msg, vals, herr := r.do(op, bound)
		if herr != nil {
			return true, herr
		}
		what := fmt.Sprintf("op %d %s", i, opString(op))
		if implicit {
			what = fmt.Sprintf("final close of handle %d", op.H)
		}
		if cerr := e.Compare(raised, msg, vals); cerr != nil {
			return true, fmt.Errorf("%s: %v", what, cerr)
		}
		if op.K == "open" && e.Exact && r.h[op.H] == lua.LNil {
			return true, fmt.Errorf("%s: no handle returned", what)
		}
		if e.Raise && op.K == "open" {
			r.h[op.H] = lua.LNil
		}
		if w.Synced() {
			k.Class("disk_compared")
			if derr := checkDisk(path, w); derr != nil {
				return true, fmt.Errorf("after %s: %v", what, derr)
			}
		}
		for _, t := range e.Tags {
			k.Class(t)
			if strings.HasPrefix(t, "trans:") || strings.HasPrefix(t, "cross4096:") {
				nontrivial = true
			}
		}
		if op.Via != "" {
			k.Class("via:" + op.Via)
		}
		return false, nil
	}
	for i := range c.Ops {
		stop, err := step(i, &c.Ops[i], false)
		if err != nil {
			return err
		}
		if stop {
			break
		}
	}
	// every handle still open is closed through Lua; then the file must be the model's
	for hi, h := range w.H {
		if h.Failed || h.Closed {
			continue
		}
		if _, err := step(len(c.Ops), &im.Op{K: "close", H: hi}, true); err != nil {
			return err
		}
		r.h[hi] = lua.LNil
	}
	for i := range r.h {
		if i < len(w.H) && (w.H[i].Closed || w.H[i].Failed) {
			r.h[i] = lua.LNil
		}
	}
	if derr := checkDisk(path, w); derr != nil {
		return fmt.Errorf("at the end of the history: %v", derr)
	}
	if nontrivial {
		b, _ := json.Marshal(c)
		k.Nontrivial(vf.Hash(string(b)))
		k.Sample("history", 2, c)
	}
	return nil
}

var chkHistory = vf.Register("io_history", runHistory)
