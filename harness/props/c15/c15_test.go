// Package c15: string.sub/byte/char/len/rep/reverse/upper/lower/plain find/format and the math library return what
// the Lua 5.1 manual (and, for format and the math functions, ISO C) defines, for all arguments.
//
// Every function is called through LState.CallByParam on one shared state.  The oracles are
//   - the manual's definitions written directly over []byte (strings_test.go),
//   - libc snprintf through cgo, one conversion specification at a time (format_test.go),
//   - libm through cgo: exact equality for the exactly-defined functions, an error bound in ulps against the
//     long double version for the transcendental ones (math_test.go).
package c15

import (
	"encoding/json"
	"fmt"
	"math"
	"strconv"
	"testing"

	lua "github.com/yuin/gopher-lua"

	"verif/vf"
)

func TestMain(m *testing.M) { vf.Main(m) }

func TestReplay(t *testing.T) { vf.Replay(t) }

// ---------------------------------------------------------------------------------------------
// the state under test

var L = lua.NewState()

func libfn(lib, name string) lua.LValue {
	t, ok := L.GetGlobal(lib).(*lua.LTable)
	if !ok {
		panic("no library " + lib)
	}
	f := t.RawGetString(name)
	if f.Type() != lua.LTFunction {
		panic("no function " + lib + "." + name)
	}
	return f
}

var fnCache = map[string]lua.LValue{}

func fn(lib, name string) lua.LValue {
	k := lib + "." + name
	if f, ok := fnCache[k]; ok {
		return f
	}
	f := libfn(lib, name)
	fnCache[k] = f
	return f
}

// call runs f(args...) protected, with all results, and leaves the stack as it found it.
func call(f lua.LValue, args ...lua.LValue) (rets []lua.LValue, err error) {
	top := L.GetTop()
	err = L.CallByParam(lua.P{Fn: f, NRet: lua.MultRet, Protect: true}, args...)
	if err != nil {
		L.SetTop(top)
		return nil, err
	}
	n := L.GetTop() - top
	if n < 0 {
		L.SetTop(top)
		return nil, fmt.Errorf("harness: stack shrank below the caller's top by %d", -n)
	}
	rets = make([]lua.LValue, n)
	for i := 0; i < n; i++ {
		rets[i] = L.Get(top + 1 + i)
	}
	L.SetTop(top)
	return rets, nil
}

// recordNontrivial records the identity of a non-trivial case, at most maxHashes per sub-check and process: the driver
// keeps every hash of every shard in memory, and a thorough run evaluates > 10^8 cases.  distinct_nontrivial in the
// evidence is therefore a lower bound (the class histograms count everything).
const maxHashes = 40000

var hashCount = map[*vf.C]int{}

// recordNontrivial calls hash() and records it unless the cap is reached.
func recordNontrivial(k *vf.C, hash func() uint64) {
	if hashCount[k] < maxHashes {
		hashCount[k]++
		k.Nontrivial(hash())
		if hashCount[k] == maxHashes {
			k.Note("distinct_nontrivial", fmt.Sprintf("lower bound: each shard stops recording hashes after %d per sub-check", maxHashes))
		}
	}
}

// sample writes out a case for the evidence.  The driver keeps 3 samples per sub-check in name order and 12 in total,
// so only shard 0 of the generated sub-checks contributes, with a small quota each; otherwise the string sub-checks
// (last in name order) would never be shown.
var sampleQuota = map[string]int{"format": 2, "math": 2, "math_random": 1, "str_bytes": 1, "str_index": 2, "str_window_random": 1, "str_window_fixed": 1}

// noSamples is set by the tests that re-run written-out examples (they are not what the generators explore).
var noSamples bool

var checkNames = map[*vf.C]string{}

func init() {
	checkNames[chkFormat.C] = "format"
	checkNames[chkMath.C] = "math"
	checkNames[chkBytes.C] = "str_bytes"
	checkNames[chkIdx.C] = "str_index"
	checkNames[chkWindowRandom.C] = "str_window_random"
	checkNames[chkWindowFixed.C] = "str_window_fixed"
}

// k2name is the registered name of the sub-check a collector belongs to ("" for the ones that do not sample).
func k2name(k *vf.C) string { return checkNames[k] }

func sample(k *vf.C, name string, v func() any) {
	if si, _ := vf.Shard(); si != 0 || sampleQuota[name] == 0 || noSamples {
		return
	}
	sampleQuota[name]--
	k.Sample(name, 3, v())
}

// ---------------------------------------------------------------------------------------------
// serialisable byte strings and floats

// Bytes is a byte string that is written to replay files as a Go-quoted ASCII string (lossless for all 256 byte
// values and still readable), e.g. "a\x00\xff".
type Bytes []byte

func (b Bytes) MarshalJSON() ([]byte, error) {
	return json.Marshal(strconv.QuoteToASCII(string(b)))
}

func (b *Bytes) UnmarshalJSON(raw []byte) error {
	var q string
	if err := json.Unmarshal(raw, &q); err != nil {
		return err
	}
	s, err := strconv.Unquote(q)
	if err != nil {
		return fmt.Errorf("bad quoted bytes %q: %v", q, err)
	}
	*b = Bytes(s)
	return nil
}

func q(b []byte) string { return strconv.QuoteToASCII(string(b)) }

// F64 is a float64 written to replay files as its IEEE bit pattern plus a readable rendering (the rendering is
// ignored when reading).
type F64 float64

type f64json struct {
	Bits string `json:"bits"`
	Text string `json:"text"`
}

func (f F64) MarshalJSON() ([]byte, error) {
	return json.Marshal(f64json{Bits: fmt.Sprintf("%016x", math.Float64bits(float64(f))), Text: ftxt(float64(f))})
}

func (f *F64) UnmarshalJSON(raw []byte) error {
	var j f64json
	if err := json.Unmarshal(raw, &j); err != nil {
		return err
	}
	u, err := strconv.ParseUint(j.Bits, 16, 64)
	if err != nil {
		return err
	}
	*f = F64(math.Float64frombits(u))
	return nil
}

func ftxt(x float64) string {
	return strconv.FormatFloat(x, 'g', 17, 64)
}

// sameFloat: identical value, NaN equals NaN, the sign of zero counts.
func sameFloat(a, b float64) bool {
	if math.IsNaN(a) || math.IsNaN(b) {
		return math.IsNaN(a) && math.IsNaN(b)
	}
	return math.Float64bits(a) == math.Float64bits(b)
}

func describe(vs []lua.LValue) string {
	s := "("
	for i, v := range vs {
		if i > 0 {
			s += ", "
		}
		switch x := v.(type) {
		case lua.LString:
			s += q([]byte(string(x)))
		case lua.LNumber:
			s += ftxt(float64(x))
		default:
			s += v.Type().String() + ":" + v.String()
		}
	}
	return s + ")"
}
