package c14

// Static reading of a pattern against the pattern language of the Lua 5.1 manual (section 5.4.1).
// It decides which rule of the check applies to a (pattern, ...) case:
//
//	ok           every subject has a defined outcome and the reference never raises: results must be equal
//	malformed    some construct is not a pattern (truncated %, missing ], unbalanced parentheses, %0, a
//	             back-reference to a capture that is not closed, %b without its two characters, more than
//	             LUA_MAXCAPTURES captures): the outcome must be a Lua error, "no match", or what the
//	             reference returns (the reference raises its errors lazily, only when the matcher reaches
//	             the bad construct) - never a Go panic
//	undocumented the manual gives the construct no meaning (%f; "%x" with x alphanumeric and not a class
//	             letter; a range in a set whose end points involve a %-escape: "The interaction between
//	             ranges and classes is not defined"; an embedded NUL): only "no Go panic" is asserted and the
//	             case is counted as discarded
//
// The analysis is independent of gopher-lua; it follows the manual's grammar and, for where a set ends and
// which '-' are range operators, the reference's classEnd / matchbracketclass.

import (
	"sort"
	"strings"
)

const (
	stOK = iota
	stMalformed
	stUndocumented
)

type patInfo struct {
	status  int
	reasons []string // why malformed / undocumented (sorted, distinct)
	ncaps   int
	feats   []string // features present (sorted, distinct)
	nquant  int
	items   int
}

func (pi *patInfo) has(f string) bool {
	i := sort.SearchStrings(pi.feats, f)
	return i < len(pi.feats) && pi.feats[i] == f
}

const classLetters = "acdlpsuwxzACDLPSUWXZ"

func isAlnum(c byte) bool {
	return c >= '0' && c <= '9' || c >= 'a' && c <= 'z' || c >= 'A' && c <= 'Z'
}

func analyse(p string, anchorable bool) *patInfo {
	feat := map[string]bool{}
	mal := map[string]bool{}
	und := map[string]bool{}
	n := len(p)
	i := 0
	if strings.IndexByte(p, 0) >= 0 {
		und["embedded_nul"] = true
		p = p[:strings.IndexByte(p, 0)]
		n = len(p)
	}
	if anchorable && n > 0 && p[0] == '^' {
		i = 1
		feat["anchor_start"] = true
	}
	var open []int
	var closed []bool
	var isPos []bool
	nquant, items := 0, 0
	for i < n {
		c := p[i]
		single := false
		items++
		switch {
		case c == '(':
			if i+1 < n && p[i+1] == ')' {
				closed = append(closed, true)
				isPos = append(isPos, true)
				feat["poscapture"] = true
				i += 2
			} else {
				open = append(open, len(closed))
				closed = append(closed, false)
				isPos = append(isPos, false)
				feat["capture"] = true
				if len(open) > 1 {
					feat["capture_nested"] = true
				}
				i++
			}
		case c == ')':
			if len(open) == 0 {
				mal["unbalanced_close"] = true
			} else {
				closed[open[len(open)-1]] = true
				open = open[:len(open)-1]
			}
			i++
		case c == '%':
			if i+1 >= n {
				mal["ends_with_percent"] = true
				i = n
				break
			}
			d := p[i+1]
			switch {
			case d == 'b':
				if i+3 >= n {
					mal["balance_missing_args"] = true
					i = n
				} else {
					feat["balance"] = true
					if p[i+2] == p[i+3] {
						feat["balance_same_delims"] = true
					}
					i += 4
				}
			case d == 'f':
				und["frontier"] = true
				i += 2
			case d >= '0' && d <= '9':
				k := int(d) - '1'
				if d == '0' {
					mal["backref_zero"] = true
				} else if k >= len(closed) || !closed[k] {
					mal["backref_invalid"] = true
				} else {
					feat["backref"] = true
					if isPos[k] {
						feat["backref_to_poscapture"] = true
					}
				}
				i += 2
			default:
				single = true
				switch {
				case strings.IndexByte(classLetters, d) >= 0:
					if d >= 'a' {
						feat["class"] = true
					} else {
						feat["class_complement"] = true
					}
				case isAlnum(d):
					und["escape_alnum"] = true
				default:
					feat["escape"] = true
				}
				i += 2
			}
		case c == '[':
			end, ok := analyseSet(p, i, feat, und)
			if !ok {
				mal["set_unclosed"] = true
				i = n
			} else {
				feat["set"] = true
				single = true
				i = end + 1
			}
		case c == '$' && i == n-1:
			feat["anchor_end"] = true
			i++
		default:
			single = true
			switch c {
			case '.':
				feat["dot"] = true
			case '$':
				feat["dollar_literal"] = true
			case '^':
				feat["caret_literal"] = true
			case ']':
				feat["close_bracket_literal"] = true
			case '*', '+', '-', '?':
				feat["quantifier_char_literal"] = true
			default:
				feat["literal"] = true
				if c >= 0x80 {
					feat["literal_high_byte"] = true
				}
			}
			i++
		}
		if single && i < n && strings.IndexByte("*+-?", p[i]) >= 0 {
			feat["quant_"+map[byte]string{'*': "star", '+': "plus", '-': "minus", '?': "opt"}[p[i]]] = true
			nquant++
			i++
		}
	}
	if len(open) > 0 {
		mal["unfinished_capture"] = true
	}
	if len(closed) > 32 {
		mal["too_many_captures"] = true
	}
	pi := &patInfo{ncaps: len(closed), nquant: nquant, items: items}
	pi.feats = keys(feat)
	switch {
	case len(und) > 0:
		pi.status = stUndocumented
		pi.reasons = keys(und)
	case len(mal) > 0:
		pi.status = stMalformed
		pi.reasons = keys(mal)
	}
	return pi
}

// analyseSet reads the set starting at p[i]=='['; it returns the index of the closing ']'.
func analyseSet(p string, i int, feat, und map[string]bool) (int, bool) {
	n := len(p)
	j := i + 1
	if j < n && p[j] == '^' {
		j++
		feat["set_complement"] = true
	}
	// where the set ends: the first ']' after at least one element, escapes skipped (classEnd)
	k := j
	for {
		if k >= n {
			return 0, false
		}
		c := p[k]
		k++
		if c == '%' && k < n {
			k++
		}
		if k < n && p[k] == ']' {
			break
		}
	}
	ec := k
	for q := j; q < ec; {
		switch {
		case p[q] == '%':
			x := p[q+1]
			switch {
			case strings.IndexByte(classLetters, x) >= 0:
				feat["set_class"] = true
			case isAlnum(x):
				und["escape_alnum"] = true
			default:
				feat["set_escape"] = true
			}
			q += 2
			if q < ec && p[q] == '-' && q+1 < ec {
				und["set_range_after_escape"] = true
			}
		case q+1 < ec && p[q+1] == '-' && q+2 < ec:
			if p[q+2] == '%' {
				und["set_range_to_escape"] = true
			}
			feat["set_range"] = true
			if p[q] > p[q+2] {
				feat["set_range_empty"] = true
			}
			if p[q] == ']' || p[q] == '-' || p[q] == '^' || p[q+2] == '-' || p[q+2] == '^' || p[q+2] == '[' {
				feat["set_range_magic_endpoint"] = true
			}
			q += 3
			if q < ec && p[q] == '-' && q+1 < ec {
				feat["set_chained_range"] = true
			}
		default:
			switch p[q] {
			case ']':
				feat["set_leading_close_bracket"] = true
			case '-':
				switch {
				case q == j:
					feat["set_leading_dash"] = true
				case q == ec-1:
					feat["set_trailing_dash"] = true
				default:
					feat["set_inner_dash"] = true
				}
			case '^':
				feat["set_caret_literal"] = true
			case '[':
				feat["set_open_bracket_literal"] = true
			default:
				feat["set_char"] = true
			}
			q++
		}
	}
	return ec, true
}

func keys(m map[string]bool) []string {
	out := make([]string, 0, len(m))
	for k := range m {
		out = append(out, k)
	}
	sort.Strings(out)
	return out
}

// replInfo classifies a gsub replacement string against the manual: "%1".."%9", "%0", "%%" are defined.
type replInfo struct {
	undefinedEscape bool // '%' followed by anything else, or at the very end: the manual gives it no meaning
	maxIndex        int  // largest n of a %n
	hasWhole        bool // %0
	hasPercent      bool // %%
}

func analyseRepl(r string) replInfo {
	var ri replInfo
	for i := 0; i < len(r); i++ {
		if r[i] != '%' {
			continue
		}
		i++
		if i >= len(r) {
			ri.undefinedEscape = true
			break
		}
		switch {
		case r[i] == '%':
			ri.hasPercent = true
		case r[i] == '0':
			ri.hasWhole = true
		case r[i] >= '1' && r[i] <= '9':
			if int(r[i]-'0') > ri.maxIndex {
				ri.maxIndex = int(r[i] - '0')
			}
		default:
			ri.undefinedEscape = true
		}
	}
	return ri
}
