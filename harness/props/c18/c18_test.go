// Package c18: the table library keeps list semantics; sort gives an ordered permutation and does not crash.
//
// list_machine: a rapid state machine on one list against a Go slice.  After every step the contents 0..n+1 (rawget),
// #t / getn / maxn / Len / MaxN, the key set and every return value must be what the Lua 5.1 manual says.
// sort_check: element multisets x comparators (valid strict weak orders, always-true, inconsistent, raising,
// non-boolean results), also on lists whose array part has trailing nil slots.
package c18

import (
	"encoding/json"
	"fmt"
	"math"
	"math/bits"
	"strings"
	"sync"
	"testing"

	lua "github.com/yuin/gopher-lua"
	"github.com/yuin/gopher-lua/parse"
	"pgregory.net/rapid"

	"verif/vf"
)

func TestMain(m *testing.M) { vf.Main(m) }

func TestReplay(t *testing.T) { vf.Replay(t) }

// ---------------------------------------------------------------------------------------------
// Lua side

const helperSrc = `
local emit, log = ...
local insert, remove, concat, maxn, getn, sort = table.insert, table.remove, table.concat, table.maxn, table.getn, table.sort
return
  function(t, v) emit(insert(t, v)) end,
  function(t, p, v) emit(insert(t, p, v)) end,
  function(t) emit(remove(t)) end,
  function(t, p) emit(remove(t, p)) end,
  function(t, v) t[#t + 1] = v end,
  function(t) t[#t] = nil end,
  function(t, k, v) t[k] = v end,
  function(t) emit(concat(t)) end,
  function(t, s) emit(concat(t, s)) end,
  function(t, s, i) emit(concat(t, s, i)) end,
  function(t, s, i, j) emit(concat(t, s, i, j)) end,
  function(t) emit(maxn(t), getn(t), #t) end,
  function(t) emit(unpack(t)) end,
  function(t, i) emit(unpack(t, i)) end,
  function(t, i, j) emit(unpack(t, i, j)) end,
  function(t, n) for i = 0, n + 1 do emit(i, rawget(t, i)) end end,
  function(t) for k in pairs(t) do emit(k) end end,
  function(t) emit(sort(t)) end,
  function(t, f) emit(sort(t, f)) end,
  function(a, b) log(a, b); return a < b end,
  function(a, b) log(a, b); return a > b end
`

const nHelpers = 21

const (
	hInsEnd = iota
	hInsPos
	hRemEnd
	hRemPos
	hAppLen
	hPopLen
	hAssign
	hConcat1
	hConcat2
	hConcat3
	hConcat4
	hSizes
	hUnpack1
	hUnpack2
	hUnpack3
	hContents
	hKeys
	hSort1
	hSort2
	hLuaLt
	hLuaGt
)

var (
	helperOnce  sync.Once
	helperProto *lua.FunctionProto
	helperErr   error
)

func helper() (*lua.FunctionProto, error) {
	helperOnce.Do(func() {
		chunk, err := parse.Parse(strings.NewReader(helperSrc), "helper")
		if err != nil {
			helperErr = err
			return
		}
		helperProto, helperErr = lua.Compile(chunk, "helper")
	})
	return helperProto, helperErr
}

const nObjs = 8

// env is one Lua state with the helpers and the object pool.
type env struct {
	L     *lua.LState
	fn    []*lua.LFunction
	objs  []lua.LValue
	emits [][]lua.LValue
	logf  func(a, b lua.LValue)
}

func newEnv() (*env, error) {
	proto, err := helper()
	if err != nil {
		return nil, fmt.Errorf("harness: helper chunk does not compile: %v", err)
	}
	L := lua.NewState(lua.Options{SkipOpenLibs: true})
	for _, lib := range []struct {
		n string
		f lua.LGFunction
	}{{lua.LoadLibName, lua.OpenPackage}, {lua.BaseLibName, lua.OpenBase}, {lua.TabLibName, lua.OpenTable}} {
		L.Push(L.NewFunction(lib.f))
		L.Push(lua.LString(lib.n))
		L.Call(1, 0)
	}
	e := &env{L: L}
	emit := L.NewFunction(func(L *lua.LState) int {
		n := L.GetTop()
		args := make([]lua.LValue, n)
		for i := range args {
			args[i] = L.Get(i + 1)
		}
		e.emits = append(e.emits, args)
		return 0
	})
	logfn := L.NewFunction(func(L *lua.LState) int {
		if e.logf != nil {
			e.logf(L.Get(1), L.Get(2))
		}
		return 0
	})
	top := L.GetTop()
	if err := L.CallByParam(lua.P{Fn: L.NewFunctionFromProto(proto), NRet: nHelpers, Protect: true}, emit, logfn); err != nil {
		L.Close()
		return nil, fmt.Errorf("harness: helper chunk failed: %v", err)
	}
	e.fn = make([]*lua.LFunction, nHelpers)
	for i := range e.fn {
		f, ok := L.Get(top + 1 + i).(*lua.LFunction)
		if !ok {
			L.Close()
			return nil, fmt.Errorf("harness: helper %d is not a function", i)
		}
		e.fn[i] = f
	}
	L.SetTop(top)
	e.objs = make([]lua.LValue, nObjs)
	for i := range e.objs {
		e.objs[i] = L.NewTable()
	}
	return e, nil
}

func (e *env) close() { e.L.Close() }

// call runs helper h protected and returns what it passed to emit.
func (e *env) call(h int, args ...lua.LValue) ([][]lua.LValue, error) {
	return e.callFn(e.fn[h], args...)
}

func (e *env) callFn(f *lua.LFunction, args ...lua.LValue) ([][]lua.LValue, error) {
	e.emits = nil
	top := e.L.GetTop()
	err := e.L.CallByParam(lua.P{Fn: f, NRet: 0, Protect: true}, args...)
	e.L.SetTop(top)
	return e.emits, err
}

func (e *env) lv(v Val) lua.LValue {
	switch v.T {
	case "num":
		return lua.LNumber(v.F())
	case "str":
		return lua.LString(v.S)
	case "bool":
		return lua.LBool(v.B)
	case "obj":
		if v.I >= 0 && v.I < len(e.objs) {
			return e.objs[v.I]
		}
	}
	return lua.LNil
}

func (e *env) back(lv lua.LValue) (Val, bool) {
	switch v := lv.(type) {
	case lua.LNumber:
		return vNum(float64(v)), true
	case lua.LString:
		return vStr(string(v)), true
	case lua.LBool:
		return vBool(bool(v)), true
	case *lua.LNilType:
		return vNil, true
	}
	for i, o := range e.objs {
		if o == lv {
			return vObj(i), true
		}
	}
	return vNil, false
}

func show(lv lua.LValue) string {
	if lv == nil {
		return "<Go nil>"
	}
	switch v := lv.(type) {
	case lua.LNumber:
		return fmt.Sprintf("number %v", float64(v))
	case lua.LString:
		return fmt.Sprintf("string %q", string(v))
	}
	return lv.Type().String() + " " + lv.String()
}

func (e *env) same(got lua.LValue, want Val) bool {
	if got == nil {
		return false
	}
	switch want.T {
	case "nil", "":
		return got == lua.LNil
	case "num":
		g, ok := got.(lua.LNumber)
		return ok && (float64(g) == want.F() || math.IsNaN(float64(g)) && math.IsNaN(want.F()))
	case "str":
		g, ok := got.(lua.LString)
		return ok && string(g) == want.S
	case "bool":
		g, ok := got.(lua.LBool)
		return ok && bool(g) == want.B
	case "obj":
		return want.I >= 0 && want.I < len(e.objs) && got == e.objs[want.I]
	}
	return false
}

func litVal(v Val) (string, bool) {
	switch v.T {
	case "nil", "":
		return "nil", true
	case "bool":
		if v.B {
			return "true", true
		}
		return "false", true
	case "str":
		var b strings.Builder
		b.WriteByte('"')
		for i := 0; i < len(v.S); i++ {
			c := v.S[i]
			if c >= 'a' && c <= 'z' || c >= 'A' && c <= 'Z' || c >= '0' && c <= '9' || c == '_' || c == ' ' {
				b.WriteByte(c)
			} else {
				fmt.Fprintf(&b, "\\%03d", c)
			}
		}
		b.WriteByte('"')
		return b.String(), true
	case "num":
		f := v.F()
		if f == math.Trunc(f) && math.Abs(f) < 1e15 && !(f == 0 && math.Signbit(f)) {
			if f < 0 {
				return fmt.Sprintf("(-%d)", int64(-f)), true
			}
			return fmt.Sprintf("%d", int64(f)), true
		}
	}
	return "", false
}

// ---------------------------------------------------------------------------------------------
// list machine: case

type LOp struct {
	Op   string `json:"op"`
	Via  string `json:"via,omitempty"` // lua | go
	Pos  int    `json:"pos,omitempty"`
	V    *Val   `json:"v,omitempty"`
	Sep  string `json:"sep,omitempty"`
	NArg int    `json:"narg,omitempty"` // concat / unpack: number of arguments given
	I    int    `json:"i,omitempty"`
	J    int    `json:"j,omitempty"`
	Cmp  string `json:"cmp,omitempty"`
	Lite bool   `json:"lite,omitempty"` // inner step of a bulk run: only sizes and the slot written are re-read
}

type ListCase struct {
	Init string `json:"init"` // new | create | ctor
	Acap int    `json:"acap,omitempty"`
	Hcap int    `json:"hcap,omitempty"`
	Ctor []Val  `json:"ctor,omitempty"`
	Ops  []*LOp `json:"ops"`
}

type lexec struct {
	k     *vf.C
	e     *env
	tb    *lua.LTable
	m     []Val // the model: t[i+1] == m[i]
	hi    int   // estimate of the highest array slot in use (class labelling only)
	steps int

	sawHoleOp, sawRemIns, lastWasRemEnd bool
}

func newLexec(k *vf.C, c *ListCase) (*lexec, error) {
	e, err := newEnv()
	if err != nil {
		return nil, err
	}
	x := &lexec{k: k, e: e}
	switch c.Init {
	case "create":
		x.tb = e.L.CreateTable(c.Acap, c.Hcap)
	case "ctor":
		var b strings.Builder
		b.WriteString("return {")
		for _, v := range c.Ctor {
			lit, ok := litVal(v)
			if !ok || v.IsNil() {
				e.close()
				return nil, fmt.Errorf("harness: constructor value %v has no literal", v)
			}
			b.WriteString(lit + ", ")
		}
		b.WriteString("}")
		f, err := e.L.LoadString(b.String())
		if err != nil {
			e.close()
			return nil, fmt.Errorf("constructor %s does not load: %v", b.String(), err)
		}
		top := e.L.GetTop()
		if err := e.L.CallByParam(lua.P{Fn: f, NRet: 1, Protect: true}); err != nil {
			e.close()
			return nil, fmt.Errorf("constructor %s raised: %v", b.String(), err)
		}
		tb, ok := e.L.Get(top + 1).(*lua.LTable)
		e.L.SetTop(top)
		if !ok {
			e.close()
			return nil, fmt.Errorf("constructor %s did not return a table", b.String())
		}
		x.tb = tb
		x.m = append(x.m, c.Ctor...)
		x.hi = len(x.m)
	default:
		x.tb = e.L.NewTable()
	}
	return x, nil
}

func (x *lexec) close() { x.e.close() }

func (x *lexec) n() int { return len(x.m) }

// verify: contents 0..n+1 through rawget, sizes, key set.
func (x *lexec) verify() error {
	n := x.n()
	em, err := x.e.call(hContents, x.tb, lua.LNumber(n))
	if err != nil {
		return fmt.Errorf("rawget loop raised: %v", err)
	}
	if len(em) != n+2 {
		return fmt.Errorf("harness: contents loop emitted %d rows for n=%d", len(em), n)
	}
	for i, row := range em {
		want := vNil
		if i >= 1 && i <= n {
			want = x.m[i-1]
		}
		if len(row) != 2 || !x.e.same(row[1], want) {
			got := "<nothing>"
			if len(row) == 2 {
				got = show(row[1])
			}
			return fmt.Errorf("rawget(t, %d) = %s, the list model (n=%d) has %v", i, got, n, want)
		}
	}
	if err := x.sizes(); err != nil {
		return err
	}
	em, err = x.e.call(hKeys, x.tb)
	if err != nil {
		return fmt.Errorf("pairs loop raised: %v", err)
	}
	seen := make([]bool, n+1)
	for _, row := range em {
		f, ok := row[0].(lua.LNumber)
		i := int(f)
		if !ok || float64(i) != float64(f) || i < 1 || i > n || seen[i] {
			return fmt.Errorf("pairs(t) produced the key %s; the list has exactly the keys 1..%d", show(row[0]), n)
		}
		seen[i] = true
	}
	if len(em) != n {
		return fmt.Errorf("pairs(t) produced %d keys; the list has the keys 1..%d", len(em), n)
	}
	return nil
}

func (x *lexec) sizes() error {
	n := x.n()
	em, err := x.e.call(hSizes, x.tb)
	if err != nil {
		return fmt.Errorf("maxn/getn/# raised: %v", err)
	}
	if len(em) != 1 || len(em[0]) != 3 {
		return fmt.Errorf("harness: sizes helper emitted %v", em)
	}
	for i, nm := range []string{"table.maxn(t)", "table.getn(t)", "#t"} {
		if f, ok := em[0][i].(lua.LNumber); !ok || float64(f) != float64(n) {
			return fmt.Errorf("%s = %s for a list with %d elements", nm, show(em[0][i]), n)
		}
	}
	if l := x.tb.Len(); l != n {
		return fmt.Errorf("LTable.Len() = %d for a list with %d elements", l, n)
	}
	if l := x.tb.MaxN(); l != n {
		return fmt.Errorf("LTable.MaxN() = %d for a list with %d elements", l, n)
	}
	return nil
}

func (x *lexec) expectNoResults(what string, em [][]lua.LValue) error {
	if len(em) != 1 || len(em[0]) != 0 {
		return fmt.Errorf("%s returned %d values, the manual gives it no result", what, countVals(em))
	}
	return nil
}

func countVals(em [][]lua.LValue) int {
	if len(em) == 0 {
		return -1
	}
	return len(em[0])
}

// concatExpect computes table.concat(t, sep, i, j) from the manual: t[i]..sep..t[i+1] ... sep..t[j], "" when i > j.
// ok is false when the range leaves 1..n or holds an element that is not a string or a number (not specified).
func (x *lexec) concatExpect(sep string, i, j int) (string, bool) {
	if i > j {
		return "", true
	}
	if i < 1 || j > x.n() {
		return "", false
	}
	var b strings.Builder
	for p := i; p <= j; p++ {
		s, ok := x.m[p-1].concatText()
		if !ok {
			return "", false
		}
		b.WriteString(s)
		if p != j {
			b.WriteString(sep)
		}
	}
	return b.String(), true
}

// pure orders used by the list machine's sort op and by the sort check
func pureLess(a, b Val) (less bool, comparable bool) {
	if a.T == "num" && b.T == "num" {
		return a.F() < b.F(), true
	}
	if a.T == "str" && b.T == "str" {
		return a.S < b.S, true
	}
	return false, false
}

func (x *lexec) step(op *LOp) (err error) {
	defer func() {
		if r := recover(); r != nil {
			err = fmt.Errorf("Go panic in %s: %v", op.Op, r)
		}
	}()
	e, tb, n := x.e, x.tb, x.n()
	x.steps++
	if x.hi > n {
		x.k.Class("state:op_with_trailing_hole")
		x.sawHoleOp = true
	}
	if n == 0 {
		x.k.Class("state:empty_list")
	} else if n == 1 {
		x.k.Class("state:one_element")
	}
	if op.Via == "" {
		op.Via = "lua"
	}
	x.k.Class("op:" + op.Op + ":" + op.Via)
	remEnd := false
	touched := 0
	switch op.Op {
	case "insert_end":
		if op.V == nil || op.V.IsNil() {
			return nil
		}
		if op.Via == "go" {
			tb.Append(e.lv(*op.V))
		} else {
			em, err := e.call(hInsEnd, tb, e.lv(*op.V))
			if err != nil {
				return fmt.Errorf("table.insert(t, %v) raised: %v", *op.V, err)
			}
			if err := x.expectNoResults("table.insert(t, v)", em); err != nil {
				return err
			}
		}
		if x.lastWasRemEnd {
			x.sawRemIns = true
			x.k.Class("event:remove_then_insert_at_end")
		}
		x.m = append(x.m, *op.V)
		touched = len(x.m)
	case "insert_pos":
		if op.V == nil || op.V.IsNil() || op.Pos < 1 || op.Pos > n+1 {
			return nil
		}
		if op.Via == "go" {
			tb.Insert(op.Pos, e.lv(*op.V))
		} else {
			em, err := e.call(hInsPos, tb, lua.LNumber(op.Pos), e.lv(*op.V))
			if err != nil {
				return fmt.Errorf("table.insert(t, %d, %v) with n=%d raised: %v", op.Pos, *op.V, n, err)
			}
			if err := x.expectNoResults("table.insert(t, pos, v)", em); err != nil {
				return err
			}
		}
		switch op.Pos {
		case n + 1:
			x.k.Class("insert_pos:n+1")
		case 1:
			x.k.Class("insert_pos:1")
		default:
			x.k.Class("insert_pos:inside")
		}
		x.m = append(x.m, vNil)
		copy(x.m[op.Pos:], x.m[op.Pos-1:])
		x.m[op.Pos-1] = *op.V
		touched = op.Pos
	case "remove_end":
		em, err := e.call(hRemEnd, tb)
		if err != nil {
			return fmt.Errorf("table.remove(t) with n=%d raised: %v", n, err)
		}
		if n == 0 {
			// the manual does not say how many values an empty list yields; whatever comes must be nil
			if len(em) != 1 || len(em[0]) > 1 || len(em[0]) == 1 && em[0][0] != lua.LNil {
				return fmt.Errorf("table.remove(t) on an empty list returned %v", em)
			}
			break
		}
		if len(em) != 1 || len(em[0]) != 1 || !e.same(em[0][0], x.m[n-1]) {
			return fmt.Errorf("table.remove(t) with n=%d returned %s, t[n] was %v", n, showRow(em), x.m[n-1])
		}
		x.m = x.m[:n-1]
		remEnd = true
	case "remove_pos":
		if op.Pos < 1 || op.Pos > n {
			return nil
		}
		want := x.m[op.Pos-1]
		if op.Via == "go" {
			if got := tb.Remove(op.Pos); !e.same(got, want) {
				return fmt.Errorf("LTable.Remove(%d) with n=%d returned %s, t[pos] was %v", op.Pos, n, show(got), want)
			}
		} else {
			em, err := e.call(hRemPos, tb, lua.LNumber(op.Pos))
			if err != nil {
				return fmt.Errorf("table.remove(t, %d) with n=%d raised: %v", op.Pos, n, err)
			}
			if len(em) != 1 || len(em[0]) != 1 || !e.same(em[0][0], want) {
				return fmt.Errorf("table.remove(t, %d) with n=%d returned %s, t[pos] was %v", op.Pos, n, showRow(em), want)
			}
		}
		if op.Pos == n {
			x.k.Class("remove_pos:n")
			remEnd = true
		} else if op.Pos == 1 {
			x.k.Class("remove_pos:1")
		} else {
			x.k.Class("remove_pos:inside")
		}
		x.m = append(x.m[:op.Pos-1], x.m[op.Pos:]...)
	case "append_len":
		if op.V == nil || op.V.IsNil() {
			return nil
		}
		if _, err := e.call(hAppLen, tb, e.lv(*op.V)); err != nil {
			return fmt.Errorf("t[#t+1] = v raised: %v", err)
		}
		x.m = append(x.m, *op.V)
		touched = len(x.m)
	case "pop_len":
		if _, err := e.call(hPopLen, tb); err != nil {
			return fmt.Errorf("t[#t] = nil raised: %v", err)
		}
		if n > 0 {
			x.m = x.m[:n-1]
			if x.hi < n {
				x.hi = n
			}
		}
		// n == 0: t[0] = nil, no effect
	case "assign":
		if op.V == nil || op.V.IsNil() || op.Pos < 1 || op.Pos > n {
			return nil
		}
		if op.Via == "go" {
			tb.RawSetInt(op.Pos, e.lv(*op.V))
		} else if _, err := e.call(hAssign, tb, lua.LNumber(op.Pos), e.lv(*op.V)); err != nil {
			return fmt.Errorf("t[%d] = v raised: %v", op.Pos, err)
		}
		x.m[op.Pos-1] = *op.V
		touched = op.Pos
	case "concat":
		i, j := op.I, op.J
		args := []lua.LValue{tb}
		h := hConcat1
		switch op.NArg {
		case 2:
			h, args = hConcat2, append(args, lua.LString(op.Sep))
		case 3:
			h, args = hConcat3, append(args, lua.LString(op.Sep), lua.LNumber(i))
		case 4:
			h, args = hConcat4, append(args, lua.LString(op.Sep), lua.LNumber(i), lua.LNumber(j))
		}
		sep := op.Sep
		if op.NArg < 2 {
			sep = ""
		}
		if op.NArg < 3 {
			i = 1
		}
		if op.NArg < 4 {
			j = n
		}
		want, ok := x.concatExpect(sep, i, j)
		if !ok {
			x.k.Discard("concat_range_not_specified")
			return nil
		}
		em, err := e.call(h, args...)
		if err != nil {
			return fmt.Errorf("table.concat(t, %q, %d, %d) [%d args] with n=%d raised: %v", sep, i, j, op.NArg, n, err)
		}
		// One element that is a number: the manual's formula t[i]..sep.. ... ..t[j] degenerates to t[i]; PUC-Rio Lua gives the
		// string, gopher-lua the number itself.  The manual's wording does not decide it, so both are accepted.
		singleNum := i == j && x.m[i-1].T == "num" && len(em) == 1 && len(em[0]) == 1 && e.same(em[0][0], x.m[i-1])
		if singleNum {
			x.k.Class("concat:single_number_returned_as_number")
		} else if len(em) != 1 || len(em[0]) != 1 || !e.same(em[0][0], vStr(want)) {
			return fmt.Errorf("table.concat(t, %q, %d, %d) [%d args] with n=%d returned %s, expected %q", sep, i, j, op.NArg, n, showRow(em), want)
		}
		switch {
		case i > j && (i > n || j < 1):
			x.k.Class("concat:empty_range_at_or_beyond_the_ends")
		case i > j:
			x.k.Class("concat:empty_range_inside")
		case i == 1 && j == n:
			x.k.Class("concat:whole")
		default:
			x.k.Class("concat:part")
		}
	case "unpack":
		i, j := op.I, op.J
		args := []lua.LValue{tb}
		h := hUnpack1
		switch op.NArg {
		case 2:
			h, args = hUnpack2, append(args, lua.LNumber(i))
		case 3:
			h, args = hUnpack3, append(args, lua.LNumber(i), lua.LNumber(j))
		}
		if op.NArg < 2 {
			i = 1
		}
		if op.NArg < 3 {
			j = n
		}
		if j-i > 3000 {
			return nil
		}
		em, err := e.call(h, args...)
		if err != nil {
			return fmt.Errorf("unpack(t, %d, %d) [%d args] with n=%d raised: %v", i, j, op.NArg, n, err)
		}
		cnt := j - i + 1
		if cnt < 0 {
			cnt = 0
		}
		if len(em) != 1 || len(em[0]) != cnt {
			return fmt.Errorf("unpack(t, %d, %d) [%d args] with n=%d returned %d values, expected %d", i, j, op.NArg, n, countVals(em), cnt)
		}
		for p := 0; p < cnt; p++ {
			want := vNil
			if idx := i + p; idx >= 1 && idx <= n {
				want = x.m[idx-1]
			}
			if !e.same(em[0][p], want) {
				return fmt.Errorf("unpack(t, %d, %d) with n=%d: value %d is %s, t[%d] is %v", i, j, n, p+1, show(em[0][p]), i+p, want)
			}
		}
		if i < 1 || j > n {
			x.k.Class("unpack:beyond_the_ends")
		} else if cnt == 0 {
			x.k.Class("unpack:empty")
		} else {
			x.k.Class("unpack:inside")
		}
	case "sort":
		// only comparators that are strict weak orders on the current contents
		valid := true
		for _, v := range x.m {
			if _, ok := pureLess(v, x.m[0]); !ok || v.T == "num" && math.IsNaN(v.F()) {
				valid = false
			}
		}
		if !valid {
			return nil
		}
		var em [][]lua.LValue
		var err error
		switch op.Cmp {
		case "lt":
			em, err = e.call(hSort2, tb, e.fn[hLuaLt])
		case "gt":
			em, err = e.call(hSort2, tb, e.fn[hLuaGt])
		default:
			em, err = e.call(hSort1, tb)
		}
		if err != nil {
			return fmt.Errorf("table.sort(t, %s) with n=%d raised: %v", op.Cmp, n, err)
		}
		if err := x.expectNoResults("table.sort", em); err != nil {
			return err
		}
		// read the result, check permutation and order, adopt it
		res := make([]Val, n)
		count := map[string]int{}
		for _, v := range x.m {
			count[v.id()]++
		}
		for p := 1; p <= n; p++ {
			v, ok := e.back(tb.RawGet(lua.LNumber(p)))
			if !ok || v.IsNil() {
				return fmt.Errorf("after table.sort t[%d] = %s", p, show(tb.RawGet(lua.LNumber(p))))
			}
			res[p-1] = v
			count[v.id()]--
		}
		for _, v := range res {
			if count[v.id()] != 0 {
				return fmt.Errorf("after table.sort the list is not a permutation of its former contents (element %v)", v)
			}
		}
		for p := 0; p+1 < n; p++ {
			a, b := res[p], res[p+1]
			if op.Cmp == "gt" {
				a, b = b, a
			}
			if l, _ := pureLess(b, a); l {
				return fmt.Errorf("after table.sort(t, %s) t[%d] = %v and t[%d] = %v are out of order", op.Cmp, p+1, res[p], p+2, res[p+1])
			}
		}
		x.m = res
	}
	x.lastWasRemEnd = remEnd
	if x.hi < len(x.m) {
		x.hi = len(x.m)
	}
	if op.Op == "remove_end" || op.Op == "remove_pos" {
		if x.hi > len(x.m) {
			x.hi--
		}
	}
	if op.Lite {
		if touched >= 1 {
			if got := tb.RawGet(lua.LNumber(touched)); !e.same(got, x.m[touched-1]) {
				return fmt.Errorf("rawget(t, %d) = %s right after storing %v there", touched, show(got), x.m[touched-1])
			}
		}
		return x.sizes()
	}
	return x.verify()
}

func showRow(em [][]lua.LValue) string {
	if len(em) != 1 {
		return fmt.Sprintf("<%d emits>", len(em))
	}
	var parts []string
	for _, v := range em[0] {
		parts = append(parts, show(v))
	}
	return "(" + strings.Join(parts, ", ") + ")"
}

func (x *lexec) finish(c *ListCase) {
	if x.sawHoleOp || x.sawRemIns {
		b, _ := json.Marshal(c)
		x.k.Nontrivial(vf.Hash(string(b)))
		x.k.Sample("history", 2, c)
	}
}

func runList(k *vf.C, c *ListCase) error {
	x, err := newLexec(k, c)
	if err != nil {
		return err
	}
	defer x.close()
	if err := x.verify(); err != nil {
		return fmt.Errorf("right after creation: %v", err)
	}
	for i, op := range c.Ops {
		if err := x.step(op); err != nil {
			return fmt.Errorf("step %d (%s): %v", i, op.Op, err)
		}
	}
	x.finish(c)
	return nil
}

var chkList = vf.Register("list_machine", runList)

// ---------------------------------------------------------------------------------------------
// list machine: generator

type lgen struct {
	rt   *rapid.T
	x    *lexec
	c    *ListCase
	ctr  int
	nops int
	big  bool
	pure bool
}

func pick(rt *rapid.T, label string, weights ...int) int {
	total := 0
	for _, w := range weights {
		total += w
	}
	r := rapid.IntRange(0, total-1).Draw(rt, label)
	for i, w := range weights {
		if r < w {
			return i
		}
		r -= w
	}
	return 0
}

var listStrings = []string{"a", "b", "", "x y", "10", "9", "A", "ab", "\x00", "zz", "é", ","}

func (g *lgen) val() Val {
	g.ctr++
	w := []int{30, 25, 10, 4, 3, 2}
	if g.pure { // only strings and numbers, so that concat and sort apply to every range
		w[3], w[4], w[5] = 0, 0, 0
	}
	switch pick(g.rt, "valclass", w...) {
	case 0:
		return vNum(float64(rapid.IntRange(-5, 40).Draw(g.rt, "int")))
	case 1:
		return vStr(listStrings[rapid.IntRange(0, len(listStrings)-1).Draw(g.rt, "str")])
	case 2:
		// distinct values; some large enough that a %g-style rendering would switch to an exponent (concat must give digits)
		scale := []float64{1, 1, 10, 1000, 1e6}[rapid.IntRange(0, 4).Draw(g.rt, "bigscale")]
		return vNum(float64(100000+g.ctr) * scale)
	case 3:
		return vObj(rapid.IntRange(0, nObjs-1).Draw(g.rt, "obj"))
	case 4:
		return vBool(false)
	default:
		return vBool(true)
	}
}

func (g *lgen) via() string {
	if rapid.IntRange(0, 3).Draw(g.rt, "go") == 0 {
		return "go"
	}
	return "lua"
}

func (g *lgen) emit(op *LOp) {
	g.c.Ops = append(g.c.Ops, op)
	g.nops++
	if err := g.x.step(op); err != nil {
		chkList.Run(g.rt, g.c)
		g.rt.Fatalf("violation seen while generating did not reproduce from the recorded case: %v", err)
	}
}

func (g *lgen) done() bool { return g.nops >= 220 }

func (g *lgen) maxN() int {
	if g.big {
		return 1500
	}
	return 60
}

func (g *lgen) grow() {
	if g.x.n() >= g.maxN() {
		g.shrink()
		return
	}
	v := g.val()
	n := g.x.n()
	switch pick(g.rt, "grow", 5, 5, 5) {
	case 0:
		g.emit(&LOp{Op: "insert_end", Via: g.via(), V: &v})
	case 1:
		pos := []int{n + 1, 1, rapid.IntRange(1, n+1).Draw(g.rt, "pos")}[rapid.IntRange(0, 2).Draw(g.rt, "where")]
		g.emit(&LOp{Op: "insert_pos", Via: g.via(), Pos: pos, V: &v})
	default:
		g.emit(&LOp{Op: "append_len", V: &v})
	}
}

func (g *lgen) shrink() {
	n := g.x.n()
	switch pick(g.rt, "shrink", 5, 5, 5) {
	case 0:
		g.emit(&LOp{Op: "remove_end", Via: "lua"})
	case 1:
		if n == 0 {
			g.emit(&LOp{Op: "remove_end", Via: "lua"})
			return
		}
		pos := []int{n, 1, rapid.IntRange(1, n).Draw(g.rt, "pos")}[rapid.IntRange(0, 2).Draw(g.rt, "where")]
		g.emit(&LOp{Op: "remove_pos", Via: g.via(), Pos: pos})
	default:
		g.emit(&LOp{Op: "pop_len"})
	}
}

func (g *lgen) assign() {
	n := g.x.n()
	if n == 0 {
		g.grow()
		return
	}
	v := g.val()
	g.emit(&LOp{Op: "assign", Via: g.via(), Pos: rapid.IntRange(1, n).Draw(g.rt, "pos"), V: &v})
}

func (g *lgen) concat() {
	n := g.x.n()
	sep := []string{"", ",", ", ", "\x00", "--", "1"}[rapid.IntRange(0, 5).Draw(g.rt, "sep")]
	narg := rapid.IntRange(1, 4).Draw(g.rt, "narg")
	var i, j int
	switch pick(g.rt, "range", 6, 3, 3, 2) {
	case 0: // inside
		if n == 0 {
			i, j = 1, 0
		} else {
			i = rapid.IntRange(1, n).Draw(g.rt, "i")
			j = rapid.IntRange(i, n).Draw(g.rt, "j")
		}
	case 1: // empty inside
		if n < 2 {
			i, j = 1, 0
		} else {
			i = rapid.IntRange(2, n).Draw(g.rt, "i")
			j = rapid.IntRange(1, i-1).Draw(g.rt, "j")
		}
	case 2: // the natural empty ranges at the ends
		if rapid.Bool().Draw(g.rt, "tail") {
			i, j = n+1, n
		} else {
			i, j = 1, 0
		}
	default: // i > j with one or both outside 1..n
		i = rapid.IntRange(-1, n+3).Draw(g.rt, "i")
		j = rapid.IntRange(-3, i-1).Draw(g.rt, "j")
	}
	// keep to what the manual specifies: every element of a non-empty range is a string or a number
	ok := func(p int) bool { _, c := g.x.m[p-1].concatText(); return c }
	if i <= j {
		for i <= j && !ok(i) {
			i++
		}
		for p := i; p <= j; p++ {
			if !ok(p) {
				j = p - 1
				break
			}
		}
	}
	whole := true
	for p := 1; p <= n; p++ {
		whole = whole && ok(p)
	}
	if narg < 4 && !(whole && i == 1 || narg == 3 && func() bool {
		for p := i; p <= n; p++ {
			if p >= 1 && !ok(p) {
				return false
			}
		}
		return i >= 1
	}()) {
		narg = 4
	}
	g.emit(&LOp{Op: "concat", Sep: sep, NArg: narg, I: i, J: j})
}

func (g *lgen) unpack() {
	n := g.x.n()
	narg := rapid.IntRange(1, 3).Draw(g.rt, "narg")
	i := rapid.IntRange(-2, n+3).Draw(g.rt, "i")
	j := rapid.IntRange(-2, n+3).Draw(g.rt, "j")
	if rapid.Bool().Draw(g.rt, "inside") && n > 0 {
		i = rapid.IntRange(1, n).Draw(g.rt, "i1")
		j = rapid.IntRange(i, n).Draw(g.rt, "j1")
	}
	g.emit(&LOp{Op: "unpack", NArg: narg, I: i, J: j})
}

func (g *lgen) sort() {
	g.emit(&LOp{Op: "sort", Cmp: []string{"none", "lt", "gt"}[rapid.IntRange(0, 2).Draw(g.rt, "cmp")]})
}

func (g *lgen) bulk() {
	m := rapid.IntRange(2, 50).Draw(g.rt, "bulk")
	if g.big {
		m = rapid.IntRange(100, 700).Draw(g.rt, "bulkbig")
	}
	kind := rapid.IntRange(0, 2).Draw(g.rt, "kind")
	homog := rapid.IntRange(0, 2).Draw(g.rt, "homog") // 0 mixed, 1 numbers, 2 strings (so that concat/sort apply)
	for i := 0; i < m && g.x.n() < g.maxN(); i++ {
		v := g.val()
		switch homog {
		case 1:
			v = vNum(float64(rapid.IntRange(-50, 50).Draw(g.rt, "bn")))
		case 2:
			v = vStr(listStrings[rapid.IntRange(0, len(listStrings)-1).Draw(g.rt, "bs")])
		}
		op := &LOp{Op: []string{"insert_end", "append_len", "insert_pos"}[kind], Via: "lua", V: &v, Lite: i < m-1}
		if kind == 2 {
			op.Pos = g.x.n() + 1
		}
		g.c.Ops = append(g.c.Ops, op)
		if err := g.x.step(op); err != nil {
			chkList.Run(g.rt, g.c)
			g.rt.Fatalf("violation seen while generating did not reproduce from the recorded case: %v", err)
		}
	}
	g.nops++
}

func (g *lgen) drain() {
	m := rapid.IntRange(2, 12).Draw(g.rt, "drain")
	kind := rapid.IntRange(0, 1).Draw(g.rt, "kind")
	for i := 0; i < m && !g.done(); i++ {
		g.emit(&LOp{Op: []string{"pop_len", "remove_end"}[kind], Via: "lua"})
	}
}

func listMachine(rt *rapid.T, big bool) {
	c := &ListCase{Init: "new"}
	switch pick(rt, "init", 5, 2, 3) {
	case 1:
		c.Init, c.Acap, c.Hcap = "create", rapid.IntRange(0, 40).Draw(rt, "acap"), rapid.IntRange(0, 8).Draw(rt, "hcap")
	case 2:
		c.Init = "ctor"
		n := rapid.IntRange(0, 12).Draw(rt, "nctor")
		for i := 0; i < n; i++ {
			if rapid.Bool().Draw(rt, "cs") {
				c.Ctor = append(c.Ctor, vStr(listStrings[rapid.IntRange(0, len(listStrings)-1).Draw(rt, "s")]))
			} else {
				c.Ctor = append(c.Ctor, vNum(float64(rapid.IntRange(-5, 40).Draw(rt, "n"))))
			}
		}
	}
	x, err := newLexec(chkList.C, c)
	if err != nil {
		chkList.Run(rt, c)
		rt.Fatalf("creation failed while generating but not from the recorded case: %v", err)
	}
	defer x.close()
	g := &lgen{rt: rt, x: x, c: c, big: big, pure: rapid.IntRange(0, 9).Draw(rt, "pure") < 6}
	if err := x.verify(); err != nil {
		chkList.Run(rt, c)
		rt.Fatalf("violation seen while generating did not reproduce from the recorded case: %v", err)
	}
	guard := func(f func()) func(*rapid.T) {
		return func(*rapid.T) {
			if !g.done() {
				f()
			}
		}
	}
	actions := map[string]func(*rapid.T){
		"grow1":  guard(g.grow),
		"grow2":  guard(g.grow),
		"shrink": guard(g.shrink),
		"assign": guard(g.assign),
		"concat": guard(g.concat),
		"unpack": guard(g.unpack),
		"sort":   guard(g.sort),
		"bulk":   guard(g.bulk),
		"drain":  guard(g.drain),
	}
	if big {
		g.bulk()
	}
	rt.Repeat(actions)
	x.finish(c)
	chkList.Eval()
}

func TestListMachine(t *testing.T) {
	vf.Rapid(t, func(rt *rapid.T) { listMachine(rt, false) })
}

func TestListMachineBig(t *testing.T) {
	vf.Rapid(t, func(rt *rapid.T) { listMachine(rt, true) })
}

// ---------------------------------------------------------------------------------------------
// sort check

type SortCase struct {
	Elems []Val  `json:"elems"`
	Pre   string `json:"pre"`             // ctor | insert | pop | remove | create
	Extra int    `json:"extra,omitempty"` // pop/remove: that many extra elements are appended and deleted again before the sort
	Cmp   string `json:"cmp"`             // none lua_lt lua_gt go_lt go_gt proj objkey false noret truthy true incons raise
	K     int    `json:"k,omitempty"`     // proj: divisor; raise: call number; incons: salt
	Keys  []int  `json:"keys,omitempty"`  // objkey: sort key of pool object i
}

func allOf(elems []Val, t string) bool {
	for _, v := range elems {
		if v.T != t || t == "num" && math.IsNaN(v.F()) {
			return false
		}
	}
	return true
}

// order returns the pure "less" of the comparator when it is a strict weak order on elems (valid), and whether the
// comparator is one.
func (c *SortCase) order() (less func(a, b Val) bool, valid bool) {
	homog := allOf(c.Elems, "num") || allOf(c.Elems, "str")
	switch c.Cmp {
	case "none", "lua_lt", "go_lt", "truthy", "raise":
		return func(a, b Val) bool { l, _ := pureLess(a, b); return l }, homog
	case "lua_gt", "go_gt":
		return func(a, b Val) bool { l, _ := pureLess(b, a); return l }, homog
	case "proj":
		d := float64(c.K)
		if d < 1 {
			d = 1
		}
		return func(a, b Val) bool { return math.Floor(a.F()/d) < math.Floor(b.F()/d) }, allOf(c.Elems, "num")
	case "objkey":
		key := func(v Val) int {
			if v.I >= 0 && v.I < len(c.Keys) {
				return c.Keys[v.I]
			}
			return 0
		}
		return func(a, b Val) bool { return key(a) < key(b) }, allOf(c.Elems, "obj")
	case "false", "noret":
		return func(a, b Val) bool { return false }, true
	}
	return nil, false
}

func runSort(k *vf.C, c *SortCase) (err error) {
	defer func() {
		if r := recover(); r != nil {
			err = fmt.Errorf("Go panic escaped: %v", r)
		}
	}()
	e, err := newEnv()
	if err != nil {
		return err
	}
	defer e.close()
	L := e.L
	n := len(c.Elems)

	// build the list
	var tb *lua.LTable
	switch c.Pre {
	case "ctor":
		var b strings.Builder
		b.WriteString("return {")
		for _, v := range c.Elems {
			lit, ok := litVal(v)
			if !ok || v.IsNil() {
				lit = "false" // placeholder, overwritten below
			}
			b.WriteString(lit + ", ")
		}
		b.WriteString("}")
		f, lerr := L.LoadString(b.String())
		if lerr != nil {
			return fmt.Errorf("constructor does not load: %v", lerr)
		}
		top := L.GetTop()
		if cerr := L.CallByParam(lua.P{Fn: f, NRet: 1, Protect: true}); cerr != nil {
			return fmt.Errorf("constructor raised: %v", cerr)
		}
		tb, _ = L.Get(top + 1).(*lua.LTable)
		L.SetTop(top)
		if tb == nil {
			return fmt.Errorf("constructor did not return a table")
		}
		for i, v := range c.Elems {
			if _, ok := litVal(v); !ok {
				tb.RawSetInt(i+1, e.lv(v))
			}
		}
	case "create":
		tb = L.CreateTable(n+c.Extra, 0)
	default:
		tb = L.NewTable()
	}
	if c.Pre != "ctor" {
		for _, v := range c.Elems {
			if _, cerr := e.call(hInsEnd, tb, e.lv(v)); cerr != nil {
				return fmt.Errorf("table.insert raised while building the list: %v", cerr)
			}
		}
	}
	if c.Pre == "pop" || c.Pre == "remove" {
		for i := 0; i < c.Extra; i++ {
			if _, cerr := e.call(hAppLen, tb, lua.LNumber(-1000-i)); cerr != nil {
				return fmt.Errorf("t[#t+1]=v raised while building the list: %v", cerr)
			}
		}
		h := hPopLen
		if c.Pre == "remove" {
			h = hRemEnd
		}
		for i := 0; i < c.Extra; i++ {
			if _, cerr := e.call(h, tb); cerr != nil {
				return fmt.Errorf("deleting the extra elements raised: %v", cerr)
			}
		}
		if c.Extra > 0 {
			k.Class("pre:trailing_elements_deleted_by_" + c.Pre)
		}
	}
	// the list must now be exactly Elems (this is the list machine's subject; a failure here is reported as such)
	for i := 0; i <= n+1; i++ {
		want := vNil
		if i >= 1 && i <= n {
			want = c.Elems[i-1]
		}
		if got := tb.RawGet(lua.LNumber(i)); !e.same(got, want) {
			return fmt.Errorf("before the sort: t[%d] = %s, expected %v (list building went wrong)", i, show(got), want)
		}
	}
	if l := tb.Len(); l != n {
		return fmt.Errorf("before the sort: #t = %d for a list of %d elements", l, n)
	}

	// the comparator
	ids := map[string]int{}
	for _, v := range c.Elems {
		ids[v.id()]++
	}
	calls := 0
	maxCalls := 40*n*(bits.Len(uint(n))+1) + n*n + 100
	var argErr error
	overrun := false
	logArgs := func(a, b lua.LValue) {
		calls++
		if calls > maxCalls {
			overrun = true
			L.RaiseError("harness: comparator called more than %d times for %d elements", maxCalls, n)
		}
		for _, lv := range []lua.LValue{a, b} {
			v, ok := e.back(lv)
			if (!ok || ids[v.id()] == 0) && argErr == nil {
				argErr = fmt.Errorf("comparator call %d received %s, which is not an element of the list", calls, show(lv))
			}
		}
	}
	e.logf = logArgs
	less, valid := c.order()
	raised := false
	var cmp *lua.LFunction
	goCmp := func(f func(L *lua.LState, a, b Val) int) *lua.LFunction {
		return L.NewFunction(func(L *lua.LState) int {
			logArgs(L.Get(1), L.Get(2))
			a, _ := e.back(L.Get(1))
			b, _ := e.back(L.Get(2))
			return f(L, a, b)
		})
	}
	pushBool := func(L *lua.LState, b bool) int { L.Push(lua.LBool(b)); return 1 }
	strict := func(L *lua.LState, a, b Val) bool {
		l, ok := pureLess(a, b)
		if !ok {
			L.RaiseError("attempt to compare %s with %s", a.T, b.T)
		}
		return l
	}
	switch c.Cmp {
	case "none":
	case "lua_lt":
		cmp = e.fn[hLuaLt]
	case "lua_gt":
		cmp = e.fn[hLuaGt]
	case "go_lt":
		cmp = goCmp(func(L *lua.LState, a, b Val) int { return pushBool(L, strict(L, a, b)) })
	case "go_gt":
		cmp = goCmp(func(L *lua.LState, a, b Val) int { return pushBool(L, strict(L, b, a)) })
	case "proj", "objkey":
		cmp = goCmp(func(L *lua.LState, a, b Val) int {
			if c.Cmp == "proj" && (a.T != "num" || b.T != "num") || c.Cmp == "objkey" && (a.T != "obj" || b.T != "obj") {
				L.RaiseError("comparator got a %s and a %s", a.T, b.T)
			}
			return pushBool(L, less(a, b))
		})
	case "false":
		cmp = goCmp(func(L *lua.LState, a, b Val) int { return pushBool(L, false) })
	case "noret":
		cmp = goCmp(func(L *lua.LState, a, b Val) int { return 0 })
	case "truthy": // a valid order that answers with 1 / nil instead of true / false
		cmp = goCmp(func(L *lua.LState, a, b Val) int {
			if strict(L, a, b) {
				L.Push(lua.LNumber(0)) // 0 is true in Lua
			} else {
				L.Push(lua.LNil)
			}
			return 1
		})
	case "true":
		cmp = goCmp(func(L *lua.LState, a, b Val) int { return pushBool(L, true) })
	case "incons":
		cmp = goCmp(func(L *lua.LState, a, b Val) int {
			return pushBool(L, vf.Hash(a.id(), b.id(), fmt.Sprint(c.K), fmt.Sprint(calls%3))&1 == 1)
		})
	case "raise":
		cmp = goCmp(func(L *lua.LState, a, b Val) int {
			if calls >= c.K {
				raised = true
				L.RaiseError("comparator fails at call %d", calls)
			}
			return pushBool(L, strict(L, a, b))
		})
	default:
		return fmt.Errorf("harness: unknown comparator %q", c.Cmp)
	}

	var em [][]lua.LValue
	var serr error
	if cmp == nil {
		em, serr = e.call(hSort1, tb)
	} else {
		em, serr = e.call(hSort2, tb, cmp)
	}
	e.logf = nil
	k.Class("cmp:" + c.Cmp)
	if overrun {
		return fmt.Errorf("table.sort of %d elements with comparator %s made more than %d comparator calls", n, c.Cmp, maxCalls)
	}
	if argErr != nil {
		return fmt.Errorf("table.sort with comparator %s: %v", c.Cmp, argErr)
	}
	if serr != nil {
		ae, ok := serr.(*lua.ApiError)
		if !ok || ae.Type == lua.ApiErrorPanic {
			return fmt.Errorf("table.sort of %d elements with comparator %s ended in a Go panic, not a Lua error: %v", n, c.Cmp, serr)
		}
		if valid && !raised {
			return fmt.Errorf("table.sort of %d elements with the strict weak order %s raised: %v", n, c.Cmp, serr)
		}
		k.Class("outcome:lua_error")
		if raised {
			k.Class("outcome:comparator_error_propagated")
		}
		return nil
	}
	if len(em) != 1 || len(em[0]) != 0 {
		return fmt.Errorf("table.sort returned %d values, the manual gives it no result", countVals(em))
	}
	// a permutation in every case
	left := map[string]int{}
	for id, cnt := range ids {
		left[id] = cnt
	}
	res := make([]Val, n)
	for p := 1; p <= n; p++ {
		got := tb.RawGet(lua.LNumber(p))
		v, ok := e.back(got)
		if !ok || v.IsNil() || left[v.id()] == 0 {
			return fmt.Errorf("after table.sort (%s) t[%d] = %s: the list is not a permutation of its %d elements", c.Cmp, p, show(got), n)
		}
		left[v.id()]--
		res[p-1] = v
	}
	if got := tb.RawGet(lua.LNumber(n + 1)); got != lua.LNil {
		return fmt.Errorf("after table.sort (%s) t[%d] = %s beyond the %d elements", c.Cmp, n+1, show(got), n)
	}
	if l := tb.Len(); l != n {
		return fmt.Errorf("after table.sort (%s) #t = %d for %d elements", c.Cmp, l, n)
	}
	if ks, kerr := e.call(hKeys, tb); kerr != nil || len(ks) != n {
		return fmt.Errorf("after table.sort (%s) pairs(t) gives %d keys for %d elements (%v)", c.Cmp, len(ks), n, kerr)
	}
	if valid && !raised {
		for p := 0; p+1 < n; p++ {
			if less(res[p+1], res[p]) {
				return fmt.Errorf("after table.sort with the strict weak order %s: t[%d] = %v, t[%d] = %v are out of order", c.Cmp, p+1, res[p], p+2, res[p+1])
			}
		}
		k.Class("outcome:ordered_permutation")
	} else {
		k.Class("outcome:permutation_with_invalid_order")
	}
	dups := false
	for _, cnt := range ids {
		if cnt > 1 {
			dups = true
		}
	}
	if dups {
		k.Class("elems:duplicates")
	}
	switch {
	case n == 0:
		k.Class("elems:n=0")
	case n == 1:
		k.Class("elems:n=1")
	case n <= 12:
		k.Class("elems:n<=12")
	default:
		k.Class("elems:n>12")
	}
	if dups && c.Cmp != "none" && n > 2 {
		b, _ := json.Marshal(c)
		k.Nontrivial(vf.Hash(string(b)))
		k.Sample("sort/"+c.Cmp, 1, c)
	}
	return nil
}

var chkSort = vf.Register("sort_check", runSort)

var cmpKinds = []string{"none", "lua_lt", "lua_gt", "go_lt", "go_gt", "proj", "objkey", "false", "noret", "truthy", "true", "incons", "raise"}

func genSortCase(rt *rapid.T, maxN int) *SortCase {
	c := &SortCase{}
	c.Cmp = cmpKinds[rapid.IntRange(0, len(cmpKinds)-1).Draw(rt, "cmp")]
	n := 0
	switch pick(rt, "size", 2, 10, 6, 2) {
	case 0:
		n = rapid.IntRange(0, 2).Draw(rt, "n0")
	case 1:
		n = rapid.IntRange(3, 14).Draw(rt, "n1")
	case 2:
		n = rapid.IntRange(15, 70).Draw(rt, "n2")
	default:
		n = rapid.IntRange(71, maxN).Draw(rt, "n3")
	}
	// element kind follows the comparator, with a share of mismatches (mixed types, NaN) that make the order invalid
	kind := "num"
	switch c.Cmp {
	case "objkey":
		kind = "obj"
	case "proj":
		kind = "num"
	default:
		kind = []string{"num", "num", "str", "num", "str", "mixed", "nan"}[rapid.IntRange(0, 6).Draw(rt, "kind")]
	}
	shape := rapid.IntRange(0, 5).Draw(rt, "shape") // 0 random narrow (many dups) 1 random wide 2 sorted 3 reversed 4 all equal 5 organ pipe
	width := 6
	if shape == 1 {
		width = 1000
	}
	for i := 0; i < n; i++ {
		var x int
		switch shape {
		case 0, 1:
			x = rapid.IntRange(-width, width).Draw(rt, "x")
		case 2:
			x = i / 2
		case 3:
			x = (n - i) / 2
		case 4:
			x = 7
		default:
			x = i
			if i > n/2 {
				x = n - i
			}
		}
		switch kind {
		case "num":
			c.Elems = append(c.Elems, vNum(float64(x)))
		case "str":
			c.Elems = append(c.Elems, vStr(fmt.Sprintf("s%d", x)))
		case "obj":
			c.Elems = append(c.Elems, vObj(((x%nObjs)+nObjs)%nObjs))
		case "mixed":
			if i%3 == 1 {
				c.Elems = append(c.Elems, vStr(fmt.Sprintf("%d", x)))
			} else {
				c.Elems = append(c.Elems, vNum(float64(x)))
			}
		case "nan":
			if i%4 == 2 {
				c.Elems = append(c.Elems, vNum(math.NaN()))
			} else {
				c.Elems = append(c.Elems, vNum(float64(x)))
			}
		}
	}
	if kind == "num" && n > 0 && rapid.IntRange(0, 9).Draw(rt, "special") == 0 {
		c.Elems[rapid.IntRange(0, n-1).Draw(rt, "at")] = []Val{vNum(math.Inf(1)), vNum(math.Inf(-1)), vNum(0.5), vNum(math.Copysign(0, -1))}[rapid.IntRange(0, 3).Draw(rt, "which")]
	}
	c.Pre = []string{"insert", "ctor", "pop", "remove", "create", "pop"}[rapid.IntRange(0, 5).Draw(rt, "pre")]
	if c.Pre == "pop" || c.Pre == "remove" || c.Pre == "create" {
		c.Extra = rapid.IntRange(1, 5).Draw(rt, "extra")
	}
	switch c.Cmp {
	case "proj":
		c.K = rapid.IntRange(2, 10).Draw(rt, "div")
	case "raise":
		c.K = rapid.IntRange(1, 3*n+2).Draw(rt, "at")
	case "incons":
		c.K = rapid.IntRange(0, 1000).Draw(rt, "salt")
	case "objkey":
		for i := 0; i < nObjs; i++ {
			c.Keys = append(c.Keys, rapid.IntRange(0, 3).Draw(rt, "key"))
		}
	}
	return c
}

func TestSort(t *testing.T) {
	vf.Rapid(t, func(rt *rapid.T) {
		chkSort.Run(rt, genSortCase(rt, vf.Scale(300, 1500)))
	})
}

// ---------------------------------------------------------------------------------------------
// regressions: the shrunk cases with which this check re-found the defects that were then repaired (F-TB1 table.remove
// with a trailing nil slot, F-TB6 concat with i > j beyond the end, F-TB2 sort over trailing nil slots).  They must keep
// passing; on the unrepaired tree each of them fails.

var listRegressions = []string{
	`{"init":"new","ops":[{"op":"insert_end","via":"go","v":{"t":"num","n":"0"}},{"op":"pop_len","via":"lua"},{"op":"pop_len","via":"lua"},{"op":"insert_pos","via":"go","pos":1,"v":{"t":"num","n":"0"}},{"op":"remove_end","via":"lua"}]}`,
	`{"init":"new","ops":[{"op":"insert_end","via":"lua","v":{"t":"num","n":"1"}},{"op":"insert_end","via":"lua","v":{"t":"num","n":"2"}},{"op":"insert_end","via":"lua","v":{"t":"num","n":"3"}},{"op":"pop_len","via":"lua"},{"op":"remove_end","via":"lua"}]}`,
	`{"init":"ctor","ctor":[{"t":"num","n":"1"},{"t":"num","n":"2"},{"t":"num","n":"3"}],"ops":[{"op":"concat","sep":",","narg":4,"i":4,"j":3},{"op":"concat","sep":",","narg":4,"i":5,"j":4},{"op":"concat","sep":",","narg":4,"i":3,"j":2}]}`,
	`{"init":"new","ops":[{"op":"insert_end","via":"lua","v":{"t":"num","n":"2"}},{"op":"insert_end","via":"lua","v":{"t":"num","n":"1"}},{"op":"insert_end","via":"lua","v":{"t":"num","n":"9"}},{"op":"pop_len","via":"lua"},{"op":"sort","cmp":"none"}]}`,
}

var sortRegressions = []string{
	`{"elems":null,"pre":"pop","extra":2,"cmp":"none"}`,
	`{"elems":[{"t":"num","n":"0"}],"pre":"pop","extra":1,"cmp":"none"}`,
	`{"elems":[{"t":"num","n":"3"},{"t":"num","n":"1"},{"t":"num","n":"2"}],"pre":"pop","extra":3,"cmp":"go_lt"}`,
	`{"elems":[{"t":"str","s":"b"},{"t":"str","s":"a"}],"pre":"remove","extra":2,"cmp":"lua_gt"}`,
}

func TestRegressions(t *testing.T) {
	for i, src := range listRegressions {
		var c ListCase
		if err := json.Unmarshal([]byte(src), &c); err != nil {
			t.Fatalf("list regression case %d does not parse: %v", i, err)
		}
		chkList.Class("regression_case")
		t.Run(fmt.Sprintf("list%d", i), func(t *testing.T) { chkList.Run(t, &c) })
	}
	for i, src := range sortRegressions {
		var c SortCase
		if err := json.Unmarshal([]byte(src), &c); err != nil {
			t.Fatalf("sort regression case %d does not parse: %v", i, err)
		}
		chkSort.Class("regression_case")
		t.Run(fmt.Sprintf("sort%d", i), func(t *testing.T) { chkSort.Run(t, &c) })
	}
}
