#!/bin/bash
# development aid: minimise the source of each replay of a property and show both traces
export GOFLAGS=-mod=mod GOPROXY=off GOSUMDB=off GOTOOLCHAIN=local
cd /verif/harness && go build -tags verif -o /verif/.build/both ./cmd/both || exit 1
for f in /verif/replays/$1/*.json; do
  python3 -c "import json,sys; print(json.load(open('$f'))['case']['src'])" > /tmp/minsrc.lua
  echo "===== $f"; timeout 300 /verif/.build/both -min /tmp/minsrc.lua 2>&1 | head -${2:-40}
done
