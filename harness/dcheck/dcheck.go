// Package dcheck is the shared body of the differential property checks (C01-C04, C06): generate a program with a
// profile, print it under a drawn layout, run it on both sides, compare, count.
package dcheck

import (
	"fmt"

	"pgregory.net/rapid"

	"verif/e1"
	"verif/lgen"
	"verif/vf"
)

type ProgCase struct {
	Src     string         `json:"src"`
	Profile string         `json:"profile,omitempty"`
	Layout  string         `json:"layout,omitempty"`
	Classes map[string]int `json:"gen_classes,omitempty"`
	Shebang bool           `json:"from_file_with_shebang_line,omitempty"`
}

// Gen draws a program of the profile and a layout.
func Gen(rt *rapid.T, p *lgen.Profile) *ProgCase {
	g := lgen.New(rt, p)
	b := g.Program()
	lay := &lgen.Layout{Ch: g}
	name := "canonical"
	switch rapid.IntRange(0, 3).Draw(rt, "layout") {
	case 1:
		lay.Spell, lay.Parens, lay.Semis = true, true, true
		name = "spelled"
	case 2:
		lay.Wild, lay.Spell, lay.Semis, lay.Parens, lay.HostileComments = true, true, true, true, true
		lay.CRLF = rapid.IntRange(0, 3).Draw(rt, "crlf")
		name = "wild"
	}
	return &ProgCase{Src: lgen.Print(b, lay), Profile: p.Name, Layout: name, Classes: g.Classes}
}

func clip(s string, n int) string {
	if len(s) > n {
		return s[:n] + "..."
	}
	return s
}

// Oracle returns the oracle function of a differential check.  nontrivial decides, from the reference run, whether
// the case counts as non-trivial and under which signature it is distinct ("" = by source text).
func Oracle(nontrivial func(c *ProgCase, r *e1.ROutcome) (bool, string)) func(k *vf.C, c *ProgCase) error {
	return func(k *vf.C, c *ProgCase) error {
		diff := e1.Diff
		if c.Shebang {
			diff = e1.DiffShebang
			k.Class("run:loaded_from_file_with_shebang_line")
		}
		v, detail, r, g := diff(c.Src)
		switch v {
		case e1.Discard:
			d := detail
			if len(d) > 70 {
				d = d[:70]
			}
			k.Discard(d)
			return nil
		case e1.Differ:
			return fmt.Errorf("%s", detail)
		}
		if g != nil {
			if msg := e1.CheckSnaps(g.Snaps); msg != "" {
				return fmt.Errorf("%s", msg)
			}
			if len(g.Snaps) > 0 {
				k.Class("run:state_snapshots_compared")
			}
		}
		for cl, n := range c.Classes {
			k.ClassN("gen:"+cl, n)
		}
		st := r.In.Stat
		for cl, n := range st.Classes {
			k.ClassN("run:"+cl, n)
		}
		for ev, n := range st.MetaCalls {
			k.ClassN("run:meta:"+ev, n)
		}
		if st.Coercions > 0 {
			k.Class("run:coercion")
		}
		if st.Caught > 0 {
			k.Class("run:fault_caught")
		}
		if st.Transfers > 0 {
			k.Class("run:coroutine_transfer")
		}
		if r.Failed {
			k.Class("run:chunk_failed")
		}
		k.Class("layout:" + c.Layout)
		if ok, sig := nontrivial(c, r); ok {
			if sig == "" {
				k.Nontrivial(vf.Hash(c.Src))
			} else {
				k.Nontrivial(vf.Hash(sig, c.Src))
			}
			k.Sample(c.Layout, 2, map[string]any{"src": clip(c.Src, 1800), "events": len(r.Trace), "stmts_executed": st.Stmts})
		}
		return nil
	}
}

// Values counts the values handed to emit.
func Values(r *e1.ROutcome) int {
	n := 0
	for _, e := range r.Trace {
		n += len(e.Vals)
	}
	return n
}
