package lgen

import (
	"strconv"

	L "verif/luaref"
)

// ---- C04: metamethods

var binEvents = []struct{ ev, op string }{
	{"__add", "+"}, {"__sub", "-"}, {"__mul", "*"}, {"__div", "/"}, {"__mod", "%"}, {"__pow", "^"}, {"__concat", ".."},
}

// handler2 is a logging binary handler: emits the event and both operands (by identity), returns a computed value.
func handler2(ev string, result L.Expr) L.Expr {
	return fn([]string{"a", "b"}, false, blk(emit(str(ev), name("a"), name("b")), ret(result, str("second result is dropped"))))
}

// metaTable draws a metatable with a random subset of events.
func (g *Gen) metaTable(tag string) *L.TableExpr {
	mt := tbl()
	add := func(ev string, h L.Expr) { mt.Fields = append(mt.Fields, kv(str(ev), h)) }
	for _, be := range binEvents {
		if g.n(3, "hasbin") == 0 {
			add(be.ev, handler2(be.ev+tag, str("R"+be.ev)))
		}
	}
	if g.n(3, "hasunm") == 0 {
		add("__unm", fn([]string{"a"}, false, blk(emit(str("__unm"+tag), name("a")), ret(num(-1)))))
	}
	if g.n(3, "haseq") == 0 {
		add("__eq", handler2("__eq"+tag, []L.Expr{&L.TrueExpr{}, &L.FalseExpr{}, num(0), &L.NilExpr{}}[g.n(4, "eqres")]))
	}
	if g.n(3, "haslt") == 0 {
		add("__lt", handler2("__lt"+tag, []L.Expr{&L.TrueExpr{}, &L.FalseExpr{}, str("truthy"), &L.NilExpr{}}[g.n(4, "ltres")]))
	}
	if g.n(4, "hasle") == 0 {
		add("__le", handler2("__le"+tag, []L.Expr{&L.TrueExpr{}, &L.FalseExpr{}}[g.n(2, "leres")]))
	}
	if g.n(4, "hascall") == 0 {
		add("__call", fn([]string{"self"}, true, blk(emit(str("__call"+tag), name("self"), &L.VarargExpr{}), ret(str("called"), &L.VarargExpr{}))))
	}
	if g.n(4, "hastostring") == 0 {
		add("__tostring", fn([]string{"a"}, false, blk(emit(str("__tostring"+tag)), ret(str("OBJ"+tag)))))
	}
	if g.n(5, "haslen") == 0 {
		g.mtHasLen[tag] = true
		add("__len", fn([]string{"a"}, false, blk(emit(str("__len"+tag)), ret(num(42)))))
	}
	if g.n(6, "hasprot") == 0 {
		// any value other than nil guards the metatable - false and 0 included
		add("__metatable", []L.Expr{str("locked" + tag), &L.FalseExpr{}, num(0), str(""), tbl(kv(str("guard"), str(tag)))}[g.n(5, "protval")])
	}
	switch g.n(4, "hasindex") {
	case 0:
		add("__index", fn([]string{"t", "k"}, false, blk(emit(str("__index"+tag), name("t"), name("k")), ret(bin("..", str("idx:"), call(name("tostring"), name("k")))))))
	case 1:
		add("__index", tbl(kv(str("inherited"), str("from proto"+tag)), kv(num(1), str("one"))))
	}
	switch g.n(4, "hasnewindex") {
	case 0:
		add("__newindex", fn([]string{"t", "k", "v"}, false, blk(emit(str("__newindex"+tag), name("t"), name("k"), name("v")))))
	case 1:
		add("__newindex", name("sink"))
	}
	return mt
}

// operandZoo returns names of the operands available to the template and the statements defining them.
func (g *Gen) operandZoo() ([]string, []L.Stmt) {
	var ss []L.Stmt
	g.mtHasLen, g.opIsUd, g.opMt = map[string]bool{}, map[string]bool{}, map[string]string{}
	mtTag := map[string]string{"mtA": "A", "mtB": "B"}
	ss = append(ss, local1("sink", tbl()))
	ss = append(ss, local1("mtA", g.metaTable("A")))
	if g.n(2, "sharedmt") == 0 {
		ss = append(ss, local1("mtB", name("mtA")))
		mtTag["mtB"] = "A"
		g.class("meta:shared_metatable")
	} else {
		ss = append(ss, local1("mtB", g.metaTable("B")))
		if g.n(2, "sharehandlers") == 0 {
			// different metatables with identical comparison handlers
			// each comparison event shared or not on its own: a shared __lt with different (or one-sided) __le makes <= fall
			// back to not (b < a)
			for _, ev := range []string{"__eq", "__lt", "__le"} {
				switch g.n(4, "share"+ev) {
				case 0, 1:
					ss = append(ss, assign1(field(name("mtB"), ev), field(name("mtA"), ev)))
				case 2:
					ss = append(ss, assign1(field(name("mtB"), ev), &L.NilExpr{}))
				}
			}
			g.class("meta:shared_handlers")
		}
	}
	if g.n(3, "metameta") == 0 {
		// the metatable has a metatable of its own whose __index offers a handler for every event: events are looked up raw,
		// none of these may ever run
		g.class("meta:metatable_with_inheriting_metatable")
		inh := tbl()
		for _, ev := range []string{"__add", "__sub", "__mul", "__div", "__mod", "__pow", "__concat", "__unm", "__eq", "__lt", "__le", "__call", "__tostring", "__len", "__index", "__newindex", "__metatable"} {
			inh.Fields = append(inh.Fields, kv(str(ev), fn(nil, true, blk(emit(str("a handler inherited through the metatable's metatable ran"), str(ev)), ret(str("inherited"))))))
		}
		ss = append(ss, callStmt(call(name("setmetatable"), name("mtA"), tbl(kv(str("__index"), inh)))))
	}
	mk := func(n, mt string) L.Stmt {
		g.opMt[n] = mtTag[mt]
		if g.n(3, "udobj") == 0 {
			g.class("meta:userdata_operand")
			g.opIsUd[n] = true
			return local1(n, call(name("newud"), name(mt)))
		}
		return local1(n, call(name("setmetatable"), tbl(kv(str("own"), str("raw "+n))), name(mt)))
	}
	ss = append(ss, mk("oa", "mtA"), mk("ob", "mtB"), mk("oa2", "mtA"))
	ss = append(ss, local([]string{"pn", "ps", "pz", "pt"}, num(3), str("10"), str("zz"), tbl()))
	return []string{"oa", "ob", "oa2", "pn", "ps", "pz", "pt", "nil", "true"}, ss
}

func operand(n string) L.Expr {
	switch n {
	case "nil":
		return &L.NilExpr{}
	case "true":
		return &L.TrueExpr{}
	}
	return name(n)
}

// protect wraps an expression so that a fault does not end the program: emit(pcall(function() return e end))
func protect(es ...L.Expr) L.Stmt {
	return emit(call(name("pcall"), fn(nil, false, blk(ret(es...)))))
}

func (g *Gen) tplMetaOps() []L.Stmt {
	ops, defs := g.operandZoo()
	out := defs
	pick := func(obj bool) string {
		if obj {
			return ops[g.n(3, "objop")]
		}
		return ops[g.n(len(ops), "anyop")]
	}
	for i, n := 0, 3+g.n(6, "nmetaops"); i < n; i++ {
		// at least one side is an object most of the time
		l, r := pick(g.n(4, "lobj") > 0), pick(g.n(4, "robj") > 0)
		if g.n(2, "swap") == 0 {
			l, r = r, l
		}
		form := g.n(16, "metaform")
		g.class("metaop:" + strconv.Itoa(form))
		switch form {
		case 0, 1, 2:
			be := binEvents[g.n(len(binEvents), "binev")]
			out = append(out, protect(bin(be.op, operand(l), operand(r))))
		case 3:
			// constant operand forms: 1 + obj, obj + 1, obj .. 1 .. obj
			be := binEvents[g.n(len(binEvents), "binev")]
			if g.n(2, "constside") == 0 {
				out = append(out, protect(bin(be.op, num(1), operand(l))))
			} else {
				out = append(out, protect(bin(be.op, operand(l), str("k"))))
			}
		case 4:
			out = append(out, protect(bin("..", operand(l), bin("..", num(1), operand(r)))))
		case 5:
			out = append(out, protect(bin("==", operand(l), operand(r)), bin("~=", operand(l), operand(r)), call(name("rawequal"), operand(l), operand(r))))
		case 6:
			cmp := []string{"<", "<=", ">", ">="}[g.n(4, "cmpop")]
			out = append(out, protect(bin(cmp, operand(l), operand(r))))
		case 7:
			out = append(out, protect(un("-", operand(l))))
		case 8:
			// (# of a table does not consult __len in 5.1 and gopher-lua documents that it does: not generated)
			if _, isObj := g.opMt[l]; isObj && !g.opIsUd[l] && g.mtHasLen[g.opMt[l]] {
				l = "ps"
			}
			out = append(out, protect(un("#", operand(l))))
		case 9:
			// index: raw first, then __index through tables and functions
			k := []L.Expr{str("own"), str("inherited"), str("missing"), num(1)}[g.n(4, "idxkey")]
			out = append(out, protect(idx(operand(l), k), call(name("rawget"), name("pt"), k)))
		case 10:
			// assignment: __newindex only for absent keys
			k := []string{"own", "fresh", "fresh2"}[g.n(3, "nikey")]
			out = append(out, emit(call(name("pcall"), fn(nil, false, blk(assign1(field(operand(l), k), num(float64(i))), ret(call(name("rawget"), name("sink"), str(k))))))))
		case 11:
			// call in expression, statement and tail position
			switch g.n(5, "callpos") {
			case 3:
				// through the host-side call paths
				out = append(out, emit(call(name("pcall"), operand(l), str("via pcall"), num(2))))
			case 4:
				out = append(out, emit(call(name("pcall"), name("hostcall"), operand(l), str("via host Call"))))
			case 0:
				out = append(out, protect(call(operand(l), num(1), num(2))))
			case 1:
				out = append(out, emit(call(name("pcall"), fn(nil, false, blk(callStmt(call(operand(l), str("stmt")))))), str("after call statement")))
			default:
				out = append(out, emit(call(name("pcall"), fn(nil, false, blk(ret(call(operand(l), str("tail"))))))))
			}
		case 12:
			out = append(out, protect(call(name("tostring"), operand(l))))
		case 13:
			out = append(out, protect(call(name("getmetatable"), operand(l))), emit(call(name("pcall"), name("setmetatable"), name("pt"), tbl())))
			if g.n(2, "setprot") == 0 {
				// (setmetatable on userdata is not defined in 5.1)
				po := ops[g.n(3, "protobj")]
				if g.opIsUd[po] {
					po = "pt"
				}
				out = append(out, emit(call(name("select"), num(1), call(name("pcall"), name("setmetatable"), operand(po), tbl()))))
			}
		case 14:
			// __call as a for-in iterator
			it := call(name("setmetatable"), tbl(), tbl(kv(str("__call"), fn([]string{"self", "s", "c"}, false, blk(emit(str("iter"), name("self"), name("c")), ifs(bin("<", name("c"), name("s")), blk(ret(bin("+", name("c"), num(1)))), nil))))))
			out = append(out, &L.GenForStmt{Names: []string{"ii"}, Exprs: []L.Expr{it, num(2), num(0)}, Body: blk(emit(str("body"), name("ii")))})
			out = append(out, emit(call(name("pcall"), fn(nil, false, blk(&L.GenForStmt{Names: []string{"zi"}, Exprs: []L.Expr{operand(l), num(1), num(0)}, Body: blk(emit(str("zoo iterator body"), name("zi")), &L.BreakStmt{})})))))
			g.class("meta:__call_iterator")
		default:
			// __index chains
			depth := 1 + g.n(5, "chaindepth")
			if g.pct(15, "deepchain") {
				// around the limit on the length of a chain (100 steps)
				depth = 97 + g.n(6, "deepchaindepth")
				g.class("meta:index_chain_near_limit")
			}
			ss := []L.Stmt{local1("base", tbl(kv(str("deep"), str("bottom"))))}
			if g.n(2, "chainfn") == 0 {
				// the chain ends in a function: it must receive the table that owns the handler, and the key
				g.class("meta:index_chain_ends_in_function")
				ss = []L.Stmt{local1("owner", tbl(kv(str("tag"), str("owner")))),
					local1("base", call(name("setmetatable"), name("owner"), tbl(kv(str("__index"), fn([]string{"t", "k"}, false, blk(emit(str("chain handler"), name("t"), bin("==", name("t"), name("owner")), name("k")), ret(bin("..", str("fn:"), call(name("tostring"), name("k"))))))))))}
			}
			// the same chain serves assignments: a store under an absent key travels down to the first table without
			// __newindex (the bottom), or ends in an error when the chain is too long
			ss = append(ss, local1("bottom", name("base")))
			if g.n(3, "callablelink") == 0 {
				// a link of the chain that is itself callable (a table with __call): it is indexed, not called
				g.class("meta:index_chain_callable_link")
				ss = append(ss, assign1(name("base"), call(name("setmetatable"), tbl(kv(str("linkfield"), str("from the callable link"))), tbl(kv(str("__index"), name("base")), kv(str("__newindex"), name("base")),
					kv(str("__call"), fn(nil, true, blk(emit(str("a chain link was called"), call(name("select"), str("#"), &L.VarargExpr{})), ret(str("called")))))))))
			}
			ss = append(ss, &L.NumForStmt{Var: "d", Start: num(1), End: num(float64(depth)), Body: blk(assign1(name("base"), call(name("setmetatable"), tbl(), tbl(kv(str("__index"), name("base")), kv(str("__newindex"), name("base"))))))})
			ss = append(ss, protect(field(name("base"), "deep")), protect(field(name("base"), "nothing")), protect(field(name("base"), "linkfield")), emit(call(name("rawget"), name("base"), str("deep"))),
				emit(call(name("pcall"), fn(nil, false, blk(assign1(field(name("base"), "stored"), num(1))))), call(name("rawget"), name("bottom"), str("stored")), call(name("rawget"), name("base"), str("stored"))),
				emit(call(name("pcall"), fn(nil, false, blk(local1("ck2", str("stored2")), assign1(idx(name("base"), name("ck2")), num(2))))), call(name("rawget"), name("bottom"), str("stored2"))))
			// the same lookups through a computed key, a method call and as the environment of a function
			ss = append(ss, local1("ck", str("computed")), protect(idx(name("base"), name("ck")), idx(name("base"), num(7))),
				emit(call(name("pcall"), fn(nil, false, blk(ret(mcall(name("base"), "method", num(1))))))),
				local1("envf", fn(nil, false, blk(ret(name("freeglobal"))))), callStmt(call(name("setfenv"), name("envf"), name("base"))), emit(call(name("pcall"), name("envf"))),
				// an assignment to a free name goes through the environment's __newindex like any other store
				local1("envw", fn(nil, false, blk(assign1(name("assignedglobal"), str("w")), &L.FuncStmt{Target: name("declaredglobal"), Fn: fn(nil, false, blk(ret(num(1))))}))), callStmt(call(name("setfenv"), name("envw"), name("base"))), emit(call(name("pcall"), name("envw"))),
				emit(call(name("rawget"), name("bottom"), str("assignedglobal")), call(name("rawget"), name("base"), str("assignedglobal")), call(name("type"), call(name("rawget"), name("bottom"), str("declaredglobal"))), name("assignedglobal")))
			if g.n(3, "loopchain") == 0 {
				// a chain that loops back on itself must end in an error, not hang
				ss = append(ss, local1("l1", tbl()), local1("l2", call(name("setmetatable"), tbl(), tbl(kv(str("__index"), name("l1"))))), callStmt(call(name("setmetatable"), name("l1"), tbl(kv(str("__index"), name("l2"))))),
					emit(call(name("select"), num(1), call(name("pcall"), fn(nil, false, blk(ret(field(name("l1"), "x"))))))))
				g.class("meta:index_loop")
			}
			out = append(out, &L.DoStmt{Body: blk(ss...)})
		}
	}
	return []L.Stmt{&L.DoStmt{Body: blk(out...)}}
}

// Meta is the profile of C04.
func Meta() *Profile {
	return &Profile{Name: "meta", MaxStmts: 8, MaxDepth: 3, Wild: 6, WildOpen: 0, Stress: 0, TemplatePc: 60,
		Templates: []func(g *Gen) []L.Stmt{(*Gen).tplMetaOps}}
}
