// Package c17: errors and debug queries report the right source line and variables.
package c17

import (
	"fmt"
	"regexp"
	"strconv"
	"strings"
	"testing"

	lua "github.com/yuin/gopher-lua"
	"pgregory.net/rapid"

	"verif/dcheck"
	"verif/e1"
	"verif/lgen"
	"verif/vf"
)

func TestMain(m *testing.M)   { vf.Main(m) }
func TestReplay(t *testing.T) { vf.Replay(t) }

// ---------------------------------------------------------------------------------------------
// (1) span rule and scope model: differential against the reference interpreter

// non-trivial: a line probe or scope probe ran (line events, or local@/upvalue events)
var chkSpan = vf.Register("span_and_scope", dcheck.Oracle(func(c *dcheck.ProgCase, r *e1.ROutcome) (bool, string) {
	probes := 0
	for _, e := range r.Trace {
		if e.Kind == "line" {
			probes++
			continue
		}
		if len(e.Vals) > 0 {
			if s, ok := e.Vals[0].(string); ok && (strings.HasPrefix(s, "local@") || s == "upvalue" || s == "setlocal" || s == "setupvalue") {
				probes++
			}
		}
	}
	return probes >= 2 && (c.Layout == "wild" || probes >= 4), ""
}))

func init() { chkSpan.Journal = true; chkShift.Journal = true }

func TestSpanAndScope(t *testing.T) {
	vf.Rapid(t, func(rt *rapid.T) {
		c := dcheck.Gen(rt, lgen.Lines())
		// now and then the program comes from a file that starts with a '#' line (skipped by LoadFile, counted as a line)
		c.Shebang = rapid.IntRange(0, 7).Draw(rt, "fromfile") == 0
		c.Src = lgen.LinesPrelude + c.Src
		chkSpan.Run(rt, c)
	})
}

// ---------------------------------------------------------------------------------------------
// (2) shift relation: inserting whole lines shifts every reported line number by exactly the shift of the tokens

type ShiftCase struct {
	Src    string `json:"src"`
	Breaks []int  `json:"breaks"` // offsets where whole lines may be inserted
	Insert []Ins  `json:"insert"` // what to insert, by index into Breaks
}

type Ins struct {
	At   int    `json:"at"`
	Text string `json:"text"` // one or more complete lines
}

// lineOf counts lines as a Lua lexer does (LF, CR, CRLF and LFCR each end one line).
func lineStarts(src string) []int {
	starts := []int{0}
	for i := 0; i < len(src); i++ {
		c := src[i]
		if c == '\n' || c == '\r' {
			if i+1 < len(src) && (src[i+1] == '\n' || src[i+1] == '\r') && src[i+1] != c {
				i++
			}
			starts = append(starts, i+1)
		}
	}
	return starts
}

func lineAt(starts []int, off int) int {
	// number of starts <= off
	n := 0
	for _, s := range starts {
		if s <= off {
			n++
		}
	}
	return n
}

func countLines(text string) int { return len(lineStarts(text)) - 1 }

var posRe = regexp.MustCompile(`<string>:(\d+):`)

var chkShift = vf.Register("line_shift", func(k *vf.C, c *ShiftCase) error {
	src1 := c.Src
	starts := lineStarts(src1)
	// build the second layout and the line map
	type ins struct {
		off, lines int
		text       string
	}
	var list []ins
	for _, in := range c.Insert {
		if in.At < 0 || in.At >= len(c.Breaks) {
			continue
		}
		list = append(list, ins{c.Breaks[in.At], countLines(in.Text), in.Text})
	}
	// stable order by offset
	for i := 1; i < len(list); i++ {
		for j := i; j > 0 && list[j].off < list[j-1].off; j-- {
			list[j], list[j-1] = list[j-1], list[j]
		}
	}
	var b strings.Builder
	prev := 0
	for _, in := range list {
		b.WriteString(src1[prev:in.off])
		b.WriteString(in.text)
		prev = in.off
	}
	b.WriteString(src1[prev:])
	src2 := b.String()
	sigma := func(l int) int {
		add := 0
		for _, in := range list {
			if lineAt(starts, in.off) <= l { // the insertion precedes the first token of line l
				add += in.lines
			}
		}
		return l + add
	}
	g1 := e1.RunGopher(src1, &e1.GOpts{Budget: 3_000_000, MaxEvents: 5000})
	g2 := e1.RunGopher(src2, &e1.GOpts{Budget: 3_000_000, MaxEvents: 5000})
	if g1.Panic != "" || g2.Panic != "" || g1.Overrun != "" || g2.Overrun != "" {
		k.Discard("run does not finish cleanly (subject of C01/C05)")
		return nil
	}
	if strings.HasPrefix(g1.ErrText, "LOAD: ") {
		k.Discard("not accepted")
		return nil
	}
	if strings.HasPrefix(g2.ErrText, "LOAD: ") {
		return fmt.Errorf("inserting whole lines made the text unacceptable: %s", g2.ErrText)
	}
	mapStr := func(s string) string {
		return posRe.ReplaceAllStringFunc(s, func(m string) string {
			n, _ := strconv.Atoi(posRe.FindStringSubmatch(m)[1])
			return "<string>:" + strconv.Itoa(sigma(n)) + ":"
		})
	}
	if len(g1.Trace) != len(g2.Trace) {
		return fmt.Errorf("the two layouts give traces of different length (%d and %d)", len(g1.Trace), len(g2.Trace))
	}
	lines, moved := 0, 0
	for i := range g1.Trace {
		a, bb := g1.Trace[i], g2.Trace[i]
		if a.Kind != bb.Kind || len(a.Vals) != len(bb.Vals) {
			return fmt.Errorf("event %d differs in shape between the two layouts", i)
		}
		for j := range a.Vals {
			va, vb := a.Vals[j], bb.Vals[j]
			switch x := va.(type) {
			case lua.LNumber:
				y, ok := vb.(lua.LNumber)
				if !ok {
					return fmt.Errorf("event %d value %d: %v vs %v", i, j, va, vb)
				}
				if a.Kind == "line" {
					lines++
					if sigma(int(x)) != int(y) {
						return fmt.Errorf("event %d value %d: line %d is reported under the first layout; its tokens move to line %d under the second, which reports %d", i, j, int(x), sigma(int(x)), int(y))
					}
					if int(x) != int(y) {
						moved++
					}
				} else if x != y && !(x != x && y != y) {
					return fmt.Errorf("event %d value %d: %v vs %v", i, j, va, vb)
				}
			case lua.LString:
				y, ok := vb.(lua.LString)
				if !ok {
					return fmt.Errorf("event %d value %d: %v vs %v", i, j, va, vb)
				}
				if posRe.MatchString(string(x)) {
					lines++
					if mapStr(string(x)) != string(y) {
						moved++
					}
				}
				if mapStr(string(x)) != string(y) && !strings.Contains(string(x), ": 0x") {
					return fmt.Errorf("event %d value %d: %q under the first layout should become %q under the second, which gives %q", i, j, clip(string(x), 120), clip(mapStr(string(x)), 120), clip(string(y), 120))
				}
				if mapStr(string(x)) != string(y) {
					moved--
				}
			default:
				if va.Type() != vb.Type() {
					return fmt.Errorf("event %d value %d: %v vs %v", i, j, va.Type(), vb.Type())
				}
			}
		}
	}
	if g1.Failed != g2.Failed || g1.Failed && mapStr(firstLine(g1.ErrText)) != firstLine(g2.ErrText) {
		return fmt.Errorf("the chunk's own failure differs: %q should become %q, got %q", firstLine(g1.ErrText), mapStr(firstLine(g1.ErrText)), firstLine(g2.ErrText))
	}
	if lines >= 2 && len(list) > 0 {
		k.Nontrivial(vf.Hash(src2))
		k.Sample("shift", 2, map[string]any{"first_layout": clip(src1, 900), "second_layout": clip(src2, 1100), "line_values_compared": lines})
	}
	k.ClassN("line_values_compared", lines)
	return nil
})

func firstLine(s string) string {
	if i := strings.IndexByte(s, '\n'); i >= 0 {
		return s[:i]
	}
	return s
}

func clip(s string, n int) string {
	if len(s) > n {
		return s[:n] + "..."
	}
	return s
}

// (no pad line starts with a line-break character: after a CR it would merge into one CRLF line end)
var padLines = []string{" \n", " \n \n", "-- pad\n", "   \t\n", "--[[ block comment ]]\n", "--[==[ two\nlines ]==]\n", "  -- indented comment\n \n", ";\n"}

func TestLineShift(t *testing.T) {
	vf.Rapid(t, func(rt *rapid.T) {
		g := lgen.New(rt, lgen.Lines())
		b := g.Program()
		lay := &lgen.Layout{Ch: g}
		if rapid.Bool().Draw(rt, "wild") {
			lay.Wild, lay.Spell, lay.Parens = true, true, true
			lay.CRLF = rapid.IntRange(0, 2).Draw(rt, "crlf")
		}
		body, breaks := lgen.PrintWithBreaks(b, lay)
		// the prelude shifts everything by a constant; its own line ends are break points as well
		src := lgen.LinesPrelude + body
		for i := range breaks {
			breaks[i] += len(lgen.LinesPrelude)
		}
		breaks = append([]int{0, len(lgen.LinesPrelude)}, breaks...)
		c := &ShiftCase{Src: src, Breaks: breaks}
		n := rapid.IntRange(1, 6).Draw(rt, "ninsert")
		for i := 0; i < n; i++ {
			txt := padLines[rapid.IntRange(0, len(padLines)-1).Draw(rt, "pad")]
			at := rapid.IntRange(0, len(breaks)-1).Draw(rt, "at")
			if txt == ";\n" {
				continue // an empty statement is not layout
			}
			c.Insert = append(c.Insert, Ins{At: at, Text: txt})
		}
		for cl, nn := range g.Classes {
			chkShift.ClassN("gen:"+cl, nn)
		}
		chkShift.Run(rt, c)
	})
}
