if rawget(_G, "_soft") then return 10 end

print "testing large programs (>64k)"

-- template to create a very big test file
prog = [[$

local a,b

b = {$1$
  b30009 = 65534,
  b30010 = 65535,
  b30011 = 65536,
  b30012 = 65537,
  b30013 = 16777214,
  b30014 = 16777215,
  b30015 = 16777216,
  b30016 = 16777217,
  b30017 = 4294967294,
  b30018 = 4294967295,
  b30019 = 4294967296,
  b30020 = 4294967297,
  b30021 = -65534,
  b30022 = -65535,
  b30023 = -65536,
  b30024 = -4294967297,
  b30025 = 15012.5,
  $2$
};

assert(b.a50008 == 25004 and b["a11"] == 5.5)
assert(b.a33007 == 16503.5 and b.a50009 == 25004.5)
assert(b["b"..30024] == -4294967297)

function b:xxx (a,b) return a+b end
assert(b:xxx(10, 12) == 22)   -- pushself with non-constant index
b.xxx = nil

s = 0; n=0
for a,b in pairs(b) do s=s+b; n=n+1 end
assert(s==13977183656.5  and n==70001)

require "checktable"
stat(b)

a = nil; b = nil
print'+'

function f(x) b=x end

a = f{$3$} or 10

assert(a==10)
assert(b[1] == "a10" and b[2] == 5 and b[table.getn(b)-1] == "a50009")


function xxxx (x) return b[x] end

assert(xxxx(3) == "a11")

a = nil; b=nil
xxxx = nil

return 10

]]

-- functions to fill in the $n$
F = {
function ()   -- $1$
  for i=10,50009 do
    io.write('a', i, ' = ', 5+((i-10)/2), ',\n')
  end
end,

function ()   -- $2$
  for i=30026,50009 do
    io.write('b', i, ' = ', 15013+((i-30026)/2), ',\n')
  end
end,

function ()   -- $3$
  for i=10,50009 do
    io.write('"a', i, '", ', 5+((i-10)/2), ',\n')
  end
end,
}

file = os.tmpname()
io.output(file)
for s in string.gmatch(prog, "$([^$]+)") do
  local n = tonumber(s)
  if not n then io.write(s) else F[n]() end
end
io.close()
result = dofile(file)
assert(os.remove(file))
print'OK'
return result

