package c15

import (
	"fmt"
	"math"
	"testing"

	lua "github.com/yuin/gopher-lua"
	"pgregory.net/rapid"

	"verif/cref"
	"verif/vf"
)

// ---------------------------------------------------------------------------------------------
// math library against libm
//
// exact (bit-for-bit, NaN equals NaN, the sign of zero counts):
//	floor ceil abs sqrt fmod modf frexp ldexp, max/min (value; either zero when the extreme is a zero)
// accuracy bound for exp log log10 sin cos tan asin acos atan atan2 sinh cosh tanh pow deg rad:
//	|result - exact| <= (T + 2*max(k-1, 0)) ulp, where exact is the 80-bit long double libm value (11 more mantissa
//	bits than a double), ulp is the spacing of doubles at the exact value, k is the condition number of the function at
//	the argument(s) (|x f'(x)/f(x)|, summed over the arguments), and T is 2 for log atan deg rad and 4 for the others.
//	In words: within T ulps where the function is well conditioned; where it is not, within T ulps plus what a
//	perturbation of the argument by one ulp would explain.  T is not 1 because Go's math package, to which mathlib.go
//	delegates, is not a 1-ulp library: measured over > 10^7 arguments per function the error left after the
//	conditioning allowance peaks at log 0.74, deg/rad 0.65, atan 1.14, cos 1.21, tanh 1.39, atan2 1.46, sin 1.53,
//	exp 1.67, acos 1.81, log10 1.85, asin 2.02, cosh 1.98, pow 2.34, sinh 2.62 ulp (glibc's own double functions:
//	<= 0.56 except log10 1.56, tanh 2.12).  The histogram classes accuracy:* and error>1ulp:<fn> report what was seen.
// arguments that are +-0, +-Inf or NaN (C99 Annex F fixes those results exactly): identical to the libm result.

type MathCase struct {
	Fn   string `json:"fn"`
	Args []F64  `json:"args"`
}

func (c *MathCase) String() string {
	s := "math." + c.Fn + "("
	for i, a := range c.Args {
		if i > 0 {
			s += ", "
		}
		s += ftxt(float64(a))
	}
	return s + ")"
}

type mathSpec struct {
	nargs int    // 0: variadic (max/min)
	kind  string // exact1 | exact2 | modf | frexp | ldexp | fold | approx1 | approx2
	id    int
	tol   float64
}

var mathFns = map[string]mathSpec{
	"floor": {1, "exact1", cref.Floor, 0},
	"ceil":  {1, "exact1", cref.Ceil, 0},
	"abs":   {1, "exact1", cref.Fabs, 0},
	"sqrt":  {1, "exact1", cref.Sqrt, 0},
	"fmod":  {2, "exact2", cref.Fmod, 0},
	"modf":  {1, "modf", 0, 0},
	"frexp": {1, "frexp", 0, 0},
	"ldexp": {2, "ldexp", 0, 0},
	"max":   {0, "fold", 0, 0},
	"min":   {0, "fold", 0, 0},
	"exp":   {1, "approx1", cref.Exp, 4},
	"log":   {1, "approx1", cref.Log, 2},
	"log10": {1, "approx1", cref.Log10, 4},
	"sin":   {1, "approx1", cref.Sin, 4},
	"cos":   {1, "approx1", cref.Cos, 4},
	"tan":   {1, "approx1", cref.Tan, 4},
	"asin":  {1, "approx1", cref.Asin, 4},
	"acos":  {1, "approx1", cref.Acos, 4},
	"atan":  {1, "approx1", cref.Atan, 2},
	"sinh":  {1, "approx1", cref.Sinh, 4},
	"cosh":  {1, "approx1", cref.Cosh, 4},
	"tanh":  {1, "approx1", cref.Tanh, 4},
	"deg":   {1, "approx1", cref.Deg, 2},
	"rad":   {1, "approx1", cref.Rad, 2},
	"pow":   {2, "approx2", cref.Pow, 4},
	"atan2": {2, "approx2", cref.Atan2, 4},
}

var mathFnNames = []string{"floor", "ceil", "abs", "sqrt", "fmod", "modf", "frexp", "ldexp", "max", "min", "exp", "log", "log10", "sin", "cos", "tan",
	"asin", "acos", "atan", "sinh", "cosh", "tanh", "deg", "rad", "pow", "atan2"}

const minNormal = 2.2250738585072014e-308

func special(x float64) bool { return x == 0 || math.IsInf(x, 0) || math.IsNaN(x) }

// cond1 is the condition number |x f'(x) / f(x)| of a one-argument function (computed with libm in double, which is
// plenty for a tolerance).
func cond1(id int, x float64) float64 {
	ax := math.Abs(x)
	c1 := func(f int) float64 { return math.Abs(cref.Call1(f, x)) }
	switch id {
	case cref.Exp:
		return ax
	case cref.Log:
		return 1 / c1(cref.Log)
	case cref.Log10:
		return 1 / c1(cref.Log)
	case cref.Sin:
		return ax / c1(cref.Tan)
	case cref.Cos:
		return ax * c1(cref.Tan)
	case cref.Tan:
		t := c1(cref.Tan)
		return ax * (t + 1/t)
	case cref.Asin:
		return ax / (cref.Call1(cref.Sqrt, (1-ax)*(1+ax)) * c1(cref.Asin))
	case cref.Acos:
		return ax / (cref.Call1(cref.Sqrt, (1-ax)*(1+ax)) * c1(cref.Acos))
	case cref.Atan:
		return ax / ((1 + x*x) * c1(cref.Atan))
	case cref.Sinh:
		return ax / c1(cref.Tanh)
	case cref.Cosh:
		return ax * c1(cref.Tanh)
	case cref.Tanh:
		t := c1(cref.Tanh)
		return ax * (1 - t*t) / t
	}
	return 1 // deg rad
}

func bound(tol, cond float64) float64 {
	if math.IsNaN(cond) || math.IsInf(cond, 0) {
		return math.Inf(1)
	}
	if cond > 1 {
		return tol + 2*(cond-1)
	}
	return tol
}

// mathExcluded names the open known finding whose shape the call has ("" for none).  All of them are inherited from Go's
// math package, to which mathlib.go delegates.
func mathExcluded(c *MathCase) string {
	if len(c.Args) == 0 {
		return ""
	}
	x := float64(c.Args[0])
	switch c.Fn {
	case "log", "log10":
		if x > 0 && x < minNormal {
			return "F-MATH1" // amd64 assembly Log does not normalise subnormal arguments
		}
	case "pow":
		if len(c.Args) == 2 {
			if y := float64(c.Args[1]); x > 0 && x < minNormal && y != math.Trunc(y) && math.Abs(y) != 0.5 {
				return "F-MATH1" // Pow takes Log(x) for the fractional part of the exponent
			}
		}
	case "exp":
		if x > 709.4 && x < 709.79 {
			return "F-MATH2" // amd64 assembly Exp overflows to +Inf from about 709.436 on (the threshold is 709.78...)
		}
	case "sinh", "cosh":
		if ax := math.Abs(x); ax > 709.4 && ax < 710.48 {
			return "F-MATH2" // Sinh/Cosh are Exp(x)/2 there
		}
	case "atan2":
		if len(c.Args) == 2 {
			y, xx := x, float64(c.Args[1])
			if xx < 0 && y != 0 && !math.IsNaN(y) && !math.IsInf(xx, 0) && y/xx == 0 {
				return "F-MATH3" // y/x underflows to zero: the sign of y is lost, +pi is returned for negative y
			}
		}
	case "tan":
		if ax := math.Abs(x); ax > 1e-9 && ax <= 1.0000001e-7 {
			return "F-MATH4" // tan(x) returns x itself for x*x <= 1e-14: up to 25 ulps short
		}
	}
	return ""
}

func oneNumber(c *MathCase, rets []lua.LValue) (float64, error) {
	if len(rets) != 1 {
		return 0, fmt.Errorf("%s returned %d values %s", c, len(rets), describe(rets))
	}
	n, ok := rets[0].(lua.LNumber)
	if !ok {
		return 0, fmt.Errorf("%s returned a %s", c, rets[0].Type())
	}
	return float64(n), nil
}

func mathOracle(k *vf.C, c *MathCase) error {
	sp, ok := mathFns[c.Fn]
	if !ok {
		return fmt.Errorf("harness: unknown function %q", c.Fn)
	}
	if sp.nargs != 0 && len(c.Args) != sp.nargs || sp.nargs == 0 && (len(c.Args) < 1 || len(c.Args) > 6) {
		return fmt.Errorf("harness: %d arguments for math.%s", len(c.Args), c.Fn)
	}
	args := make([]lua.LValue, len(c.Args))
	xs := make([]float64, len(c.Args))
	anySpecial := false
	for i, a := range c.Args {
		xs[i] = float64(a)
		args[i] = lua.LNumber(xs[i])
		anySpecial = anySpecial || special(xs[i])
	}
	rets, err := call(fn("math", c.Fn), args...)
	if err != nil {
		return fmt.Errorf("%s raised %q", c, clip(err.Error(), 200))
	}
	switch sp.kind {
	case "exact1", "exact2":
		got, err := oneNumber(c, rets)
		if err != nil {
			return err
		}
		var want float64
		if sp.kind == "exact1" {
			want = cref.Call1(sp.id, xs[0])
		} else {
			want = cref.Call2(sp.id, xs[0], xs[1])
		}
		if !sameFloat(got, want) {
			return fmt.Errorf("%s = %s, libm gives %s", c, ftxt(got), ftxt(want))
		}
		if c.Fn == "fmod" && !math.IsNaN(got) && math.Signbit(got) != math.Signbit(xs[0]) {
			return fmt.Errorf("%s = %s does not have the sign of the dividend", c, ftxt(got))
		}
	case "modf":
		if len(rets) != 2 {
			return fmt.Errorf("%s returned %d values", c, len(rets))
		}
		ipart, ok1 := rets[0].(lua.LNumber)
		fpart, ok2 := rets[1].(lua.LNumber)
		wi, wf := cref.Modf(xs[0])
		if !ok1 || !ok2 || !sameFloat(float64(ipart), wi) || !sameFloat(float64(fpart), wf) {
			return fmt.Errorf("%s = %s, libm gives (%s, %s)", c, describe(rets), ftxt(wi), ftxt(wf))
		}
		if !math.IsNaN(xs[0]) && float64(ipart)+float64(fpart) != xs[0] {
			return fmt.Errorf("%s = %s does not recompose to the argument", c, describe(rets))
		}
	case "frexp":
		if len(rets) != 2 {
			return fmt.Errorf("%s returned %d values", c, len(rets))
		}
		m, ok1 := rets[0].(lua.LNumber)
		e, ok2 := rets[1].(lua.LNumber)
		wm, we := cref.Frexp(xs[0])
		finite := !math.IsInf(xs[0], 0) && !math.IsNaN(xs[0])
		if !ok1 || !ok2 || !sameFloat(float64(m), wm) || finite && float64(e) != float64(we) {
			return fmt.Errorf("%s = %s, libm gives (%s, %d)", c, describe(rets), ftxt(wm), we)
		}
		if finite {
			if am := math.Abs(float64(m)); xs[0] != 0 && !(am >= 0.5 && am < 1) {
				return fmt.Errorf("%s: mantissa %s outside [0.5, 1)", c, ftxt(float64(m)))
			}
			if back := cref.Ldexp(float64(m), int(e)); !sameFloat(back, xs[0]) {
				return fmt.Errorf("%s = %s recomposes to %s", c, describe(rets), ftxt(back))
			}
		}
	case "ldexp":
		e := xs[1]
		if e != math.Trunc(e) || math.Abs(e) > 2147483647 {
			return fmt.Errorf("harness: ldexp exponent %v is not an int", e)
		}
		got, err := oneNumber(c, rets)
		if err != nil {
			return err
		}
		if want := cref.Ldexp(xs[0], int(e)); !sameFloat(got, want) {
			return fmt.Errorf("%s = %s, libm gives %s", c, ftxt(got), ftxt(want))
		}
	case "fold":
		got, err := oneNumber(c, rets)
		if err != nil {
			return err
		}
		want := xs[0]
		for _, a := range xs {
			if math.IsNaN(a) {
				return fmt.Errorf("harness: NaN argument for math.%s (the manual does not define the result)", c.Fn)
			}
			if c.Fn == "max" && a > want || c.Fn == "min" && a < want {
				want = a
			}
		}
		if got != want || want != 0 && !sameFloat(got, want) {
			return fmt.Errorf("%s = %s, want %s", c, ftxt(got), ftxt(want))
		}
		k.Class(fmt.Sprintf("fold_args:%d", len(xs)))
	case "approx1", "approx2":
		got, err := oneNumber(c, rets)
		if err != nil {
			return err
		}
		var ulps, ref, libm, cond float64
		if sp.kind == "approx1" {
			ulps, ref = cref.ErrUlps1(sp.id, xs[0], got)
			switch c.Fn {
			case "deg", "rad":
				libm = xs[0] // only used for special arguments: 0, inf and nan are preserved
			default:
				libm = cref.Call1(sp.id, xs[0])
			}
			cond = cond1(sp.id, xs[0])
		} else {
			ulps, ref = cref.ErrUlps2(sp.id, xs[0], xs[1], got)
			libm = cref.Call2(sp.id, xs[0], xs[1])
			cond = 1
			if c.Fn == "pow" {
				cond = math.Abs(xs[1]) * (1 + math.Abs(cref.Call1(cref.Log, math.Abs(xs[0]))))
			}
		}
		if anySpecial && !sameFloat(got, libm) {
			return fmt.Errorf("%s = %s, C99 Annex F (and libm) give %s", c, ftxt(got), ftxt(libm))
		}
		if got == 0 && !math.IsNaN(ref) && math.Signbit(got) != math.Signbit(ref) {
			return fmt.Errorf("%s = %s: zero of the wrong sign (exact value rounds to %s)", c, ftxt(got), ftxt(ref))
		}
		if (c.Fn == "sin" || c.Fn == "cos" || c.Fn == "tanh") && math.Abs(got) > 1 {
			return fmt.Errorf("%s = %s is outside [-1, 1]", c, ftxt(got))
		}
		b := bound(sp.tol, cond)
		if !(ulps <= b) {
			return fmt.Errorf("%s = %s is %.3g ulp away from the exact value %s (bound %.3g ulp = %g + conditioning %.3g)", c, ftxt(got), ulps, ftxt(ref), b, sp.tol, cond)
		}
		switch {
		case math.IsNaN(ref):
			k.Class("result:nan")
		case ulps <= 0.5:
			k.Class("accuracy:correctly_rounded")
		case ulps <= 1:
			k.Class("accuracy:<=1ulp")
		case ulps <= 2:
			k.Class("accuracy:<=2ulp")
		case ulps <= sp.tol:
			k.Class("accuracy:<=T")
		default:
			k.Class("accuracy:conditioning_allowance_used")
			k.Class("conditioning_allowance_used:" + c.Fn)
		}
		// per function: how often the error left after the conditioning allowance exceeds 1 and 2 ulp (information)
		if rest := ulps - bound(0, cond); rest > 2 {
			k.Class("error>2ulp:" + c.Fn)
		} else if rest > 1 {
			k.Class("error>1ulp:" + c.Fn)
		}
		// what libm itself does, for information: how often Go's result and the C double result differ
		if c.Fn != "deg" && c.Fn != "rad" && !math.IsNaN(libm) && !math.IsNaN(got) && libm != got {
			k.Class("differs_from_libm_double:" + c.Fn)
		}
	}
	k.Class("fn:" + c.Fn)
	nontrivial := false
	for _, x := range xs {
		switch {
		case math.IsNaN(x):
			k.Class("arg:nan")
		case math.IsInf(x, 0):
			k.Class("arg:inf")
		case x == 0 && math.Signbit(x):
			k.Class("arg:-0")
		case x == 0:
			k.Class("arg:+0")
		case math.Abs(x) < minNormal:
			k.Class("arg:subnormal")
		case math.Abs(x) >= 1e300:
			k.Class("arg:huge")
		case math.Abs(x) >= 1<<53:
			k.Class("arg:>=2^53")
		case x != math.Trunc(x):
			k.Class("arg:non_integral")
		default:
			k.Class("arg:integral")
		}
		if math.Abs(x) > 1 || math.Abs(x) < minNormal || math.IsNaN(x) {
			nontrivial = true
		}
	}
	if c.Fn == "pow" && xs[1] != math.Trunc(xs[1]) {
		k.Class("pow:non_integral_exponent")
	}
	if nontrivial {
		recordNontrivial(k, func() uint64 { return vf.Hash(c.String()) })
		if sp.kind == "approx2" || sp.kind == "modf" || sp.kind == "exact2" {
			sample(k, k2name(k), func() any { return map[string]any{"call": c.String(), "result": describe(rets)} })
		}
	}
	return nil
}

var chkMath = vf.Register("math", mathOracle)
var chkMathCorners = vf.Register("math_corners", mathOracle)

func runMath(t vf.TB, chk *vf.Check[MathCase], c *MathCase) {
	if id := mathExcluded(c); id != "" && vf.Open(id) {
		chk.Excluded(id)
		return
	}
	chk.Run(t, c)
}

// ---------------------------------------------------------------------------------------------
// argument values

func ulpUp(x float64) float64   { return math.Float64frombits(math.Float64bits(x) + 1) }
func ulpDown(x float64) float64 { return math.Float64frombits(math.Float64bits(x) - 1) }

// cornerValues: the float64 corner set (positive members; the negative ones are added by the users).
var cornerValues = func() []float64 {
	v := []float64{
		0, 5e-324, 1e-323, 1e-310, ulpDown(minNormal), minNormal, ulpUp(minNormal), 1e-300, 1e-100, 1e-20, 1e-9, 5e-8, 1e-7, 1e-5, 0.001,
		0.1, 0.25, 1.0 / 3, 0.5, ulpDown(0.5), 0.6, 0.7, 0.75, 0.9, 0.99, 0.999999, ulpDown(1), 1, ulpUp(1), 1.0000001, 1.5, 2, 2.5, 3, 4, 7, 10, 16, 100, 255, 256, 1000,
		math.Pi / 4, math.Pi / 2, math.Pi, 3 * math.Pi / 2, 2 * math.Pi, 100 * math.Pi, 1e5 * math.Pi, math.E, math.Ln2, math.Sqrt2,
		20, 22, 37, 88.7, 700, 709, 709.5, 709.78, 710, 710.4, 745.2, 1024, 1e5, 1e10, 1 << 29, 1<<31 - 1, 1 << 31, 1 << 32,
		1<<52 - 1, 1 << 52, 1<<52 + 1, 4503599627370495.5, 1<<53 - 1, 1 << 53, 1<<53 + 2, 1 << 62, 1 << 63, 1e19, 1e22, 1e100, 1e300, 8.98846567431158e307, math.MaxFloat64 / 2, ulpDown(math.MaxFloat64), math.MaxFloat64,
		math.Inf(1), math.NaN(),
	}
	return v
}()

func signedCorners() []float64 {
	var out []float64
	for _, v := range cornerValues {
		out = append(out, v)
		if !math.IsNaN(v) {
			out = append(out, -v)
		}
	}
	return out
}

// smaller set for the quadratic enumerations
var pairValues = []float64{0, 5e-324, minNormal, 1e-300, 1e-7, 0.25, 1.0 / 3, 0.5, 0.75, 1, 1.5, 2, 3, 7, 10, 100.5, 1023, 1024, 1e5, 1 << 31, 1<<53 - 1, 1 << 53, 1e22, 1e300,
	math.MaxFloat64, math.Inf(1), math.NaN()}

func signedPairs() []float64 {
	var out []float64
	for _, v := range pairValues {
		out = append(out, v)
		if !math.IsNaN(v) {
			out = append(out, -v)
		}
	}
	return out
}

// TestMathCorners: every one-argument function over the whole corner set, every two-argument function over all pairs of
// a smaller signed set, ldexp over corner x exponents, max/min over all pairs and some longer lists.
func TestMathCorners(t *testing.T) {
	si, sn := vf.Shard()
	n := 0
	run := func(c *MathCase) {
		n++
		if n%sn != si {
			return
		}
		runMath(t, chkMathCorners, c)
	}
	sc := signedCorners()
	for _, name := range mathFnNames {
		if mathFns[name].nargs == 1 {
			for _, x := range sc {
				run(&MathCase{Fn: name, Args: []F64{F64(x)}})
			}
		}
	}
	sp := signedPairs()
	for _, name := range []string{"fmod", "pow", "atan2"} {
		for _, x := range sp {
			for _, y := range sp {
				run(&MathCase{Fn: name, Args: []F64{F64(x), F64(y)}})
			}
		}
	}
	for _, y := range []float64{0.5, -0.5, 1.0 / 3, 2.5, -2.5, 0.1, 10.5, 1e-5, 100, -100, 1023, -1074, 3, -3, 5, 0.9999999, 1e10, 1<<53 + 2, 1<<53 - 1} {
		for _, x := range sc {
			run(&MathCase{Fn: "pow", Args: []F64{F64(x), F64(y)}})
		}
	}
	exps := []float64{0, 1, -1, 2, 10, -10, 52, 53, 54, 100, -100, 1000, 1022, 1023, 1024, 1025, -1021, -1022, -1023, -1024, -1073, -1074, -1075, -1076, 2000, -2000, 2046, 2047, 2098, 2099, 5000, -5000,
		1 << 20, -(1 << 20), 1<<31 - 1, -(1<<31 - 1)}
	for _, x := range sc {
		for _, e := range exps {
			run(&MathCase{Fn: "ldexp", Args: []F64{F64(x), F64(e)}})
		}
	}
	for _, name := range []string{"max", "min"} {
		for _, x := range sp {
			if math.IsNaN(x) {
				continue
			}
			run(&MathCase{Fn: name, Args: []F64{F64(x)}})
			for _, y := range sp {
				if math.IsNaN(y) {
					continue
				}
				run(&MathCase{Fn: name, Args: []F64{F64(x), F64(y)}})
				run(&MathCase{Fn: name, Args: []F64{F64(y), F64(1), F64(x), F64(-1), F64(y), F64(x)}})
			}
		}
	}
	chkMathCorners.SetExhaustive(true)
	chkMathCorners.Note("space", fmt.Sprintf("one-argument functions x %d corner values; fmod/pow/atan2 x %d^2 pairs; pow: 19 exponents x corners; ldexp: corners x %d exponents; max/min: all pairs and 6-lists", len(sc), len(sp), len(exps)))
}

// genMathArg draws an argument from classes that matter for the math functions.
func genMathArg(r *src) float64 {
	var x float64
	switch r.n(13) {
	case 0:
		x = choose(r, cornerValues...)
	case 1: // any bit pattern (finite, infinite or NaN)
		x = math.Float64frombits(r.u64())
		if math.IsNaN(x) {
			x = math.NaN()
		}
		return x
	case 2: // subnormal
		x = math.Float64frombits(uint64(r.between(1, 1<<52-1)))
	case 3: // huge
		x = math.Float64frombits(uint64(r.between(0x7e00000000000000, 0x7fefffffffffffff)))
	case 4: // [0, 1)
		x = r.frac()
	case 5: // close to 1
		x = 1 - math.Ldexp(r.mant(), -r.n(54))
	case 6: // moderate
		x = r.frac() * choose(r, 2.0, 10, 100, 1000, 100000)
	case 7: // integers and halves
		x = float64(r.u64()>>uint(10+r.n(54))) / 2
	case 8: // small integers
		x = float64(r.n(2001))
	case 9: // near a multiple of pi/2
		x = float64(1+r.n(1<<20)) * (math.Pi / 2)
		x = math.Float64frombits(math.Float64bits(x) + uint64(r.n(5)) - 2)
	case 10: // any magnitude, random mantissa
		x = math.Ldexp(r.mant(), int(r.between(-1073, 1024)))
	case 11: // exp/sinh/cosh thresholds
		x = 690 + 70*r.frac()
	default: // tiny
		x = math.Ldexp(r.mant(), -r.n(80))
	}
	if r.chance(1, 3) {
		x = -x
	}
	return x
}

func TestMathRandom(t *testing.T) {
	vf.Rapid(t, func(rt *rapid.T) {
		r := newSrc(rt)
		name := choose(r, mathFnNames...)
		sp := mathFns[name]
		c := &MathCase{Fn: name}
		switch sp.kind {
		case "fold":
			n := r.size("n_args", 1, 6)
			for i := 0; i < n; i++ {
				x := genMathArg(r)
				if math.IsNaN(x) {
					x = 0
				}
				if i > 0 && r.chance(1, 4) {
					x = float64(c.Args[r.n(i)])
				}
				c.Args = append(c.Args, F64(x))
			}
		case "ldexp":
			e := r.between(-2200, 2200)
			if r.chance(1, 10) {
				e = r.between(-(1<<31 - 1), 1<<31-1)
			}
			c.Args = []F64{F64(genMathArg(r)), F64(float64(e))}
		case "approx2", "exact2":
			x, y := genMathArg(r), genMathArg(r)
			if name == "pow" {
				switch r.n(4) {
				case 0: // small integer or half-integer exponent
					y = float64(r.between(-200, 200)) / 2
				case 1: // result in range: choose y from the logarithm of the result
					if x > 0 && x != 1 && !math.IsInf(x, 0) {
						y = (2*r.frac() - 1) * 1100 / math.Log2(x)
					}
				}
			}
			if name == "fmod" && r.chance(1, 4) {
				// quotient with many bits, divisor of a different magnitude
				y = math.Ldexp(r.mant(), int(r.between(-1073, 1000)))
			}
			c.Args = []F64{F64(x), F64(y)}
		default:
			c.Args = []F64{F64(genMathArg(r))}
		}
		runMath(rt, chkMath, c)
	})
}

// ---------------------------------------------------------------------------------------------
// math.random

type RandomCase struct {
	Seed  int64 `json:"seed"`
	NArgs int   `json:"nargs"` // 0: random(), 1: random(m), 2: random(m, n)
	M     int64 `json:"m"`
	N     int64 `json:"n"`
	Draws int   `json:"draws"`
}

var chkRandom = vf.Register("math_random", func(k *vf.C, c *RandomCase) error {
	if _, err := call(fn("math", "randomseed"), lua.LNumber(float64(c.Seed))); err != nil {
		return fmt.Errorf("math.randomseed(%d) raised %q", c.Seed, clip(err.Error(), 200))
	}
	lo, hi := float64(c.M), float64(c.N)
	var args []lua.LValue
	switch c.NArgs {
	case 0:
		lo, hi = 0, 1
	case 1:
		lo, hi = 1, float64(c.M)
		args = []lua.LValue{lua.LNumber(float64(c.M))}
	case 2:
		args = []lua.LValue{lua.LNumber(lo), lua.LNumber(hi)}
	default:
		return fmt.Errorf("harness: nargs %d", c.NArgs)
	}
	if lo > hi || c.NArgs > 0 && hi-lo >= 2147483647 {
		return fmt.Errorf("harness: empty or over-wide interval [%v, %v]", lo, hi)
	}
	f := fn("math", "random")
	sawLo, sawHi := false, false
	first, varied := 0.0, false
	for i := 0; i < c.Draws; i++ {
		rets, err := call(f, args...)
		if err != nil {
			return fmt.Errorf("math.random%v raised %q at draw %d", args, clip(err.Error(), 200), i)
		}
		if len(rets) != 1 {
			return fmt.Errorf("math.random%v returned %d values", args, len(rets))
		}
		n, ok := rets[0].(lua.LNumber)
		if !ok {
			return fmt.Errorf("math.random%v returned a %s", args, rets[0].Type())
		}
		x := float64(n)
		if c.NArgs == 0 {
			if !(x >= 0 && x < 1) {
				return fmt.Errorf("math.random() = %s is outside [0, 1) (draw %d, seed %d)", ftxt(x), i, c.Seed)
			}
		} else {
			if !(x >= lo && x <= hi) {
				return fmt.Errorf("math.random%v = %s is outside [%v, %v] (draw %d, seed %d)", args, ftxt(x), lo, hi, i, c.Seed)
			}
			if x != math.Trunc(x) {
				return fmt.Errorf("math.random%v = %s is not an integer (draw %d, seed %d)", args, ftxt(x), i, c.Seed)
			}
		}
		sawLo = sawLo || x == lo
		sawHi = sawHi || x == hi
		if i == 0 {
			first = x
		} else if x != first {
			varied = true
		}
	}
	k.EvalN(c.Draws)
	// "a uniform pseudo-random integer in [m, n]": with at least 100 draws per value of a range of at most 4 values,
	// missing an end point has probability < 1e-12 for a uniform source (and the sequence is fixed by the seed).
	if c.NArgs > 0 && hi-lo <= 3 && float64(c.Draws) >= 100*(hi-lo+1) {
		if !sawLo || !sawHi {
			return fmt.Errorf("math.random%v never returned %v in %d draws (seed %d): lower end seen %v, upper end seen %v", args, map[bool]float64{true: hi, false: lo}[sawLo], c.Draws, c.Seed, sawLo, sawHi)
		}
		k.Class("endpoints_reached_checked")
	}
	if hi > lo && c.Draws >= 200 && !varied {
		return fmt.Errorf("math.random%v returned %s %d times in a row (seed %d)", args, ftxt(first), c.Draws, c.Seed)
	}
	k.Class(fmt.Sprintf("random_args:%d", c.NArgs))
	if c.NArgs == 2 {
		switch {
		case c.M == c.N:
			k.Class("random:m==n")
		case c.N < 0:
			k.Class("random:negative_range")
		case c.M < 0:
			k.Class("random:range_across_zero")
		}
		if hi-lo > 1<<30 {
			k.Class("random:wide_range")
		}
	}
	recordNontrivial(k, func() uint64 { return vf.Hash(fmt.Sprint(*c)) })
	sample(k, "math_random", func() any { return fmt.Sprintf("%+v: all draws inside the interval", *c) })
	return nil
})

func TestMathRandomRange(t *testing.T) {
	vf.Rapid(t, func(rt *rapid.T) {
		r := newSrc(rt)
		c := &RandomCase{Seed: r.between(-1<<40, 1<<40), Draws: choose(r, 50, 200, 400, 1000)}
		c.NArgs = choose(r, 0, 1, 2, 2, 2, 2)
		switch c.NArgs {
		case 1:
			if r.chance(1, 2) {
				c.M = r.between(1, 4)
			} else {
				c.M = r.between(1, 1<<31-2)
			}
		case 2:
			switch r.n(5) {
			case 0:
				c.M = r.between(-1000, 1000)
				c.N = c.M
			case 1:
				c.M = r.between(-1000, 1000)
				c.N = c.M + r.between(1, 3)
			case 2:
				c.M = r.between(-(1 << 31), 1<<31-1)
				c.N = c.M + r.between(0, min(int64(1<<31-2), 1<<31-1-c.M))
			case 3:
				c.N = -r.between(1, 1<<20)
				c.M = c.N - r.between(0, 1<<20)
			default:
				c.M = -r.between(0, 100)
				c.N = r.between(0, 100)
			}
		}
		chkRandom.Run(rt, c)
	})
}
