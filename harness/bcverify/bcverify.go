// Package bcverify is a structural verifier for gopher-lua function prototypes, written from the text of
// property C07 and the operand conventions documented in opcode.go (not from the compiler).
package bcverify

import (
	"fmt"

	lua "github.com/yuin/gopher-lua"
)

const (
	maxRegisters = 200 // config.go: the VM frame limit the compiler promises to respect
	bitRK        = 1 << 8
	maxSbx       = (1<<18 - 1) >> 1
)

func opcode(i uint32) int { return int(i >> 26) }
func argA(i uint32) int   { return int(i>>18) & 0xff }
func argB(i uint32) int   { return int(i & 0x1ff) }
func argC(i uint32) int   { return int(i>>9) & 0x1ff }
func argBx(i uint32) int  { return int(i & 0x3ffff) }
func argSbx(i uint32) int { return argBx(i) - maxSbx }

// Stats describes what a verified prototype tree contained (for non-triviality rules).
type Stats struct {
	Protos     int
	Insts      int
	Jumps      int
	MultiWord  int // CLOSURE capture lists, MOVEN tails, extended SETLIST
	MaxRegs    int
	MaxConsts  int
	ExtSetList int
	RKConst    int // constant operands beyond index 255 loaded through a register
}

// Verify checks p and all nested prototypes.  Each returned string is one violation.
func Verify(p *lua.FunctionProto, strConsts func(*lua.FunctionProto) []string) ([]string, Stats) {
	var out []string
	var st Stats
	verify(p, strConsts, "main", &out, &st, 0)
	return out, st
}

func verify(p *lua.FunctionProto, strConsts func(*lua.FunctionProto) []string, path string, out *[]string, st *Stats, depth int) {
	st.Protos++
	bad := func(pc int, format string, a ...any) {
		if len(*out) < 40 {
			*out = append(*out, fmt.Sprintf("%s pc=%d: ", path, pc)+fmt.Sprintf(format, a...))
		}
	}
	code := p.Code
	n := len(code)
	st.Insts += n
	nreg := int(p.NumUsedRegisters)
	if nreg > st.MaxRegs {
		st.MaxRegs = nreg
	}
	if len(p.Constants) > st.MaxConsts {
		st.MaxConsts = len(p.Constants)
	}
	if nreg > maxRegisters+56 { // uint8 holds up to 255; the documented frame limit is maxRegisters
		bad(-1, "NumUsedRegisters %d exceeds the VM frame limit", nreg)
	}
	if int(p.NumParameters) > nreg {
		bad(-1, "NumParameters %d > NumUsedRegisters %d", p.NumParameters, nreg)
	}
	if len(p.DbgSourcePositions) != n {
		bad(-1, "line table has %d entries for %d instructions", len(p.DbgSourcePositions), n)
	}
	if int(p.NumUpvalues) != len(p.DbgUpvalues) {
		bad(-1, "NumUpvalues %d but %d upvalue names", p.NumUpvalues, len(p.DbgUpvalues))
	}
	if n == 0 {
		bad(-1, "empty code")
		return
	}
	var sc []string
	if strConsts != nil {
		sc = strConsts(p)
		if len(sc) != len(p.Constants) {
			bad(-1, "string-constant side table has %d entries for %d constants", len(sc), len(p.Constants))
		}
	}
	// pass 1: mark instruction starts vs. continuation words
	cont := make([]bool, n)
	for pc := 0; pc < n; pc++ {
		i := code[pc]
		switch opcode(i) {
		case lua.OP_CLOSURE:
			bx := argBx(i)
			if bx < len(p.FunctionPrototypes) {
				nu := int(p.FunctionPrototypes[bx].NumUpvalues)
				for k := 1; k <= nu; k++ {
					if pc+k >= n {
						bad(pc, "CLOSURE capture list runs past the end of the code")
						break
					}
					cont[pc+k] = true
				}
				if nu > 0 {
					st.MultiWord++
				}
				pc += nu
			}
		case lua.OP_MOVEN:
			c := argC(i)
			for k := 1; k <= c; k++ {
				if pc+k >= n {
					bad(pc, "MOVEN tail runs past the end of the code")
					break
				}
				cont[pc+k] = true
			}
			st.MultiWord++
			pc += c
		case lua.OP_SETLIST:
			if argC(i) == 0 {
				if pc+1 >= n {
					bad(pc, "SETLIST extension word missing")
				} else {
					cont[pc+1] = true
				}
				st.MultiWord++
				st.ExtSetList++
				pc++
			}
		}
	}
	reg := func(pc int, what string, r int) {
		if r < 0 || r >= nreg {
			bad(pc, "%s register %d outside the declared %d registers", what, r, nreg)
		}
	}
	regRange := func(pc int, what string, lo, hi int) { // inclusive
		if hi >= lo {
			reg(pc, what+" (first)", lo)
			reg(pc, what+" (last)", hi)
		}
	}
	konst := func(pc int, what string, k int) bool {
		if k < 0 || k >= len(p.Constants) {
			bad(pc, "%s constant index %d outside %d constants", what, k, len(p.Constants))
			return false
		}
		return true
	}
	strConst := func(pc int, what string, k int) {
		if !konst(pc, what, k) {
			return
		}
		s, ok := p.Constants[k].(lua.LString)
		if !ok {
			bad(pc, "%s constant %d is %s, not a string", what, k, p.Constants[k].Type())
			return
		}
		if sc != nil && k < len(sc) && sc[k] != string(s) {
			bad(pc, "%s string side table entry %d is %q, constant is %q", what, k, sc[k], string(s))
		}
	}
	rk := func(pc int, what string, v int) {
		if v&bitRK != 0 {
			konst(pc, what, v&^bitRK)
		} else {
			reg(pc, what, v)
		}
	}
	// a string-keyed operand: a string constant, or a register that the previous instruction loaded with one
	rkStr := func(pc int, what string, v int) {
		if v&bitRK != 0 {
			strConst(pc, what, v&^bitRK)
			return
		}
		reg(pc, what, v)
		st.RKConst++
		// the nearest earlier instruction that writes register v must be a LOADK of a string constant (that is how a
		// constant beyond index 255 reaches a string-keyed instruction); when no writer is found nearby no verdict
		for q := pc - 1; q >= 0 && q >= pc-2000; q-- {
			if cont[q] {
				continue
			}
			w := code[q]
			if argA(w) != v {
				continue
			}
			switch opcode(w) {
			case lua.OP_LOADK:
				if k := argBx(w); k < len(p.Constants) {
					if _, isS := p.Constants[k].(lua.LString); !isS {
						bad(pc, "%s is register %d, loaded at pc=%d with a constant that is not a string", what, v, q)
					}
				}
				return
			case lua.OP_MOVE, lua.OP_MOVEN, lua.OP_LOADBOOL, lua.OP_LOADNIL, lua.OP_GETUPVAL, lua.OP_GETGLOBAL, lua.OP_GETTABLE, lua.OP_GETTABLEKS,
				lua.OP_NEWTABLE, lua.OP_ADD, lua.OP_SUB, lua.OP_MUL, lua.OP_DIV, lua.OP_MOD, lua.OP_POW, lua.OP_UNM, lua.OP_NOT, lua.OP_LEN,
				lua.OP_CONCAT, lua.OP_CLOSURE:
				bad(pc, "%s is register %d, last written at pc=%d by opcode %d, not by a LOADK of a string constant", what, v, q, opcode(w))
				return
			}
		}
	}
	target := func(pc int, what string, t int) {
		if t < 0 || t >= n {
			bad(pc, "%s target %d outside the code [0,%d)", what, t, n)
			return
		}
		if cont[t] {
			bad(pc, "%s target %d lands inside a multi-word group", what, t)
		}
	}
	for pc := 0; pc < n; pc++ {
		if cont[pc] {
			continue
		}
		i := code[pc]
		op := opcode(i)
		a, b, c := argA(i), argB(i), argC(i)
		switch op {
		case lua.OP_MOVE:
			reg(pc, "MOVE A", a)
			reg(pc, "MOVE B", b)
		case lua.OP_MOVEN:
			reg(pc, "MOVEN A", a)
			reg(pc, "MOVEN B", b)
			for k := 1; k <= c && pc+k < n; k++ {
				w := code[pc+k]
				if opcode(w) != lua.OP_MOVE {
					bad(pc+k, "MOVEN tail word is opcode %d, not MOVE", opcode(w))
				}
				reg(pc+k, "MOVEN tail A", argA(w))
				reg(pc+k, "MOVEN tail B", argB(w))
			}
		case lua.OP_LOADK:
			reg(pc, "LOADK A", a)
			konst(pc, "LOADK", argBx(i))
		case lua.OP_LOADBOOL:
			reg(pc, "LOADBOOL A", a)
			if c != 0 {
				st.Jumps++
				target(pc, "LOADBOOL skip", pc+2)
			}
		case lua.OP_LOADNIL:
			regRange(pc, "LOADNIL", a, b)
			if b < a {
				bad(pc, "LOADNIL range %d..%d is empty", a, b)
			}
		case lua.OP_GETUPVAL:
			reg(pc, "GETUPVAL A", a)
			if b >= int(p.NumUpvalues) {
				bad(pc, "GETUPVAL upvalue %d outside %d upvalues", b, p.NumUpvalues)
			}
		case lua.OP_SETUPVAL:
			reg(pc, "SETUPVAL A", a)
			if b >= int(p.NumUpvalues) {
				bad(pc, "SETUPVAL upvalue %d outside %d upvalues", b, p.NumUpvalues)
			}
		case lua.OP_GETGLOBAL:
			reg(pc, "GETGLOBAL A", a)
			strConst(pc, "GETGLOBAL", argBx(i))
		case lua.OP_SETGLOBAL:
			reg(pc, "SETGLOBAL A", a)
			strConst(pc, "SETGLOBAL", argBx(i))
		case lua.OP_GETTABLE:
			reg(pc, "GETTABLE A", a)
			reg(pc, "GETTABLE B", b)
			rk(pc, "GETTABLE C", c)
		case lua.OP_GETTABLEKS:
			reg(pc, "GETTABLEKS A", a)
			reg(pc, "GETTABLEKS B", b)
			rkStr(pc, "GETTABLEKS C", c)
		case lua.OP_SETTABLE:
			reg(pc, "SETTABLE A", a)
			rk(pc, "SETTABLE B", b)
			rk(pc, "SETTABLE C", c)
		case lua.OP_SETTABLEKS:
			reg(pc, "SETTABLEKS A", a)
			rkStr(pc, "SETTABLEKS B", b)
			rk(pc, "SETTABLEKS C", c)
		case lua.OP_NEWTABLE:
			reg(pc, "NEWTABLE A", a)
		case lua.OP_SELF:
			reg(pc, "SELF A", a)
			reg(pc, "SELF A+1", a+1)
			reg(pc, "SELF B", b)
			rkStr(pc, "SELF C", c)
		case lua.OP_ADD, lua.OP_SUB, lua.OP_MUL, lua.OP_DIV, lua.OP_MOD, lua.OP_POW:
			reg(pc, "arith A", a)
			rk(pc, "arith B", b)
			rk(pc, "arith C", c)
		case lua.OP_UNM:
			reg(pc, "UNM A", a)
			rk(pc, "UNM B", b)
		case lua.OP_NOT, lua.OP_LEN:
			reg(pc, "unary A", a)
			reg(pc, "unary B", b)
		case lua.OP_CONCAT:
			reg(pc, "CONCAT A", a)
			regRange(pc, "CONCAT B..C", b, c)
			if c < b {
				bad(pc, "CONCAT range %d..%d is empty", b, c)
			}
		case lua.OP_JMP:
			st.Jumps++
			target(pc, "JMP", pc+1+argSbx(i))
		case lua.OP_EQ, lua.OP_LT, lua.OP_LE:
			rk(pc, "compare B", b)
			rk(pc, "compare C", c)
			st.Jumps++
			target(pc, "compare skip", pc+2)
			target(pc, "compare fallthrough", pc+1)
		case lua.OP_TEST:
			reg(pc, "TEST A", a)
			st.Jumps++
			target(pc, "TEST skip", pc+2)
			target(pc, "TEST fallthrough", pc+1)
		case lua.OP_TESTSET:
			reg(pc, "TESTSET A", a)
			reg(pc, "TESTSET B", b)
			st.Jumps++
			target(pc, "TESTSET skip", pc+2)
			target(pc, "TESTSET fallthrough", pc+1)
		case lua.OP_CALL:
			reg(pc, "CALL A", a)
			if b > 0 {
				regRange(pc, "CALL arguments", a+1, a+b-1)
			}
			if c > 1 {
				regRange(pc, "CALL results", a, a+c-2)
			}
		case lua.OP_TAILCALL:
			reg(pc, "TAILCALL A", a)
			if b > 0 {
				regRange(pc, "TAILCALL arguments", a+1, a+b-1)
			}
		case lua.OP_RETURN:
			if b != 1 {
				reg(pc, "RETURN A", a)
			}
			if b > 1 {
				regRange(pc, "RETURN values", a, a+b-2)
			}
		case lua.OP_FORLOOP:
			regRange(pc, "FORLOOP A..A+3", a, a+3)
			st.Jumps++
			target(pc, "FORLOOP", pc+1+argSbx(i))
		case lua.OP_FORPREP:
			regRange(pc, "FORPREP A..A+2", a, a+2)
			st.Jumps++
			target(pc, "FORPREP", pc+1+argSbx(i))
		case lua.OP_TFORLOOP:
			regRange(pc, "TFORLOOP A..A+2", a, a+2)
			if c > 0 {
				regRange(pc, "TFORLOOP results", a+3, a+2+c)
			}
			st.Jumps++
			if pc+1 >= n || opcode(code[pc+1]) != lua.OP_JMP && opcode(code[pc+1]) != lua.OP_NOP {
				bad(pc, "TFORLOOP is not followed by a jump")
			} else {
				target(pc, "TFORLOOP continue", pc+2+argSbx(code[pc+1]))
			}
			target(pc, "TFORLOOP exit", pc+2)
		case lua.OP_SETLIST:
			reg(pc, "SETLIST A", a)
			if b > 0 {
				regRange(pc, "SETLIST values", a+1, a+b)
			}
			if c == 0 && pc+1 < n {
				if code[pc+1] < 512 {
					bad(pc, "SETLIST extension word holds batch %d (batches up to 511 fit the C field; 0 is never valid)", code[pc+1])
				}
				if code[pc+1] >= 1<<26 {
					// a batch number that large would stand for more than three thousand million fields
					bad(pc, "SETLIST extension word holds %#x, which is an instruction and not a batch number", code[pc+1])
				}
			}
		case lua.OP_CLOSE:
			if a > nreg {
				bad(pc, "CLOSE register %d outside the declared %d registers", a, nreg)
			}
		case lua.OP_CLOSURE:
			reg(pc, "CLOSURE A", a)
			bx := argBx(i)
			if bx >= len(p.FunctionPrototypes) {
				bad(pc, "CLOSURE prototype index %d outside %d prototypes", bx, len(p.FunctionPrototypes))
				break
			}
			nu := int(p.FunctionPrototypes[bx].NumUpvalues)
			for k := 1; k <= nu && pc+k < n; k++ {
				w := code[pc+k]
				switch opcode(w) {
				case lua.OP_MOVE:
					reg(pc+k, "capture MOVE B", argB(w))
				case lua.OP_GETUPVAL:
					if argB(w) >= int(p.NumUpvalues) {
						bad(pc+k, "capture GETUPVAL %d outside %d upvalues", argB(w), p.NumUpvalues)
					}
				default:
					bad(pc+k, "capture list word is opcode %d, not MOVE/GETUPVAL", opcode(w))
				}
			}
		case lua.OP_VARARG:
			reg(pc, "VARARG A", a)
			if b > 1 {
				regRange(pc, "VARARG values", a, a+b-2)
			}
			if p.IsVarArg == 0 {
				bad(pc, "VARARG in a function that is not vararg")
			}
		case lua.OP_NOP:
		default:
			bad(pc, "unknown opcode %d", op)
		}
	}
	// the code ends in a return
	last := n - 1
	for last > 0 && cont[last] {
		last--
	}
	if opcode(code[last]) != lua.OP_RETURN {
		bad(last, "last instruction is opcode %d, not RETURN", opcode(code[last]))
	}
	if depth > 250 {
		bad(-1, "prototype nesting deeper than 250")
		return
	}
	for k, sub := range p.FunctionPrototypes {
		verify(sub, strConsts, fmt.Sprintf("%s/%d", path, k), out, st, depth+1)
	}
}
