// Package c05: errors at any point are contained by protected calls and leave the state intact.
package c05

import (
	"fmt"
	"strings"
	"testing"

	lua "github.com/yuin/gopher-lua"
	"pgregory.net/rapid"

	"verif/e1"
	"verif/lgen"
	"verif/vf"
)

func TestMain(m *testing.M)   { vf.Main(m) }
func TestReplay(t *testing.T) { vf.Replay(t) }

// ---------------------------------------------------------------------------------------------
// (a) explicit fault sites: one run per (site, kind), all sites of the program enumerated

type SiteCase struct {
	Src    string `json:"src"`
	Sites  int    `json:"sites"`
	Layout string `json:"layout,omitempty"`
}

var chkSites = vf.Register("fault_sites", func(k *vf.C, c *SiteCase) error {
	nk := len(lgen.FaultKinds)
	deep := 0
	for site := 0; site <= c.Sites; site++ {
		for kind := 1; kind <= nk; kind++ {
			if site == 0 && kind > 1 {
				break
			}
			v, detail, r, g := e1.DiffArgs(c.Src, float64(site), float64(kind))
			k.Class("runs")
			switch v {
			case e1.Discard:
				d := detail
				if len(d) > 60 {
					d = d[:60]
				}
				k.Discard(d)
				continue
			case e1.Differ:
				return fmt.Errorf("site %d of %d, kind %s: %s", site, c.Sites, kindName(kind), detail)
			}
			if g != nil {
				if msg := e1.CheckSnaps(g.Snaps); msg != "" {
					return fmt.Errorf("site %d, kind %s: %s", site, kindName(kind), msg)
				}
			}
			if site > 0 && r.In.Stat.Faults > 0 {
				k.Class("fault_delivered:" + kindName(kind))
				if r.In.Stat.Caught >= 2 {
					deep++
				}
			}
			for cl, n := range r.In.Stat.Classes {
				k.ClassN("run:"+cl, n)
			}
		}
	}
	k.EvalN(c.Sites * nk) // the driver counts the case itself as one more evaluation
	k.Class("layout:" + c.Layout)
	// non-trivial: the program has >= 3 sites and some fault was delivered through >= 2 protected calls
	if c.Sites >= 3 && deep > 0 {
		k.Nontrivial(vf.Hash(c.Src))
		k.Sample(c.Layout, 2, map[string]any{"src": clip(c.Src, 2500), "sites": c.Sites, "runs": c.Sites*nk + 1})
	}
	return nil
})

func kindName(k int) string {
	if k >= 1 && k <= len(lgen.FaultKinds) {
		return lgen.FaultKinds[k-1]
	}
	return fmt.Sprint(k)
}

func clip(s string, n int) string {
	if len(s) > n {
		return s[:n] + "..."
	}
	return s
}

func init() { chkSites.Journal = true; chkBoundary.Journal = true }

func TestFaultSites(t *testing.T) {
	vf.Rapid(t, func(rt *rapid.T) {
		g := lgen.New(rt, lgen.Errors())
		b := g.Program()
		lay := &lgen.Layout{Ch: g}
		name := "canonical"
		if rapid.IntRange(0, 2).Draw(rt, "layout") == 2 {
			lay.Wild, lay.Spell, lay.Semis, lay.Parens = true, true, true, true
			name = "wild"
		}
		for cl, n := range g.Classes {
			chkSites.ClassN("gen:"+cl, n)
		}
		// the prelude ends with a line break, so the body's line numbers are shifted by a constant on both sides
		src := lgen.FaultPrelude + lgen.Print(b, lay)
		chkSites.Run(rt, &SiteCase{Src: src, Sites: g.Sites, Layout: name})
	})
}

// ---------------------------------------------------------------------------------------------
// (b) every instruction boundary: a one-shot context fires at the k-th dispatch, for every k of the fault-free run

type BoundaryCase struct {
	Src string `json:"src"`
}

// split cuts a trace at the markers and serialises the three parts separately (identities are numbered within a part,
// so that a part can be compared between runs whatever came before it).
func split(evs []e1.GEvent) (pro, body, epi []string, hasBody, hasEpi bool) {
	ib, ie := -1, -1
	for i, e := range evs {
		if len(e.Vals) == 0 {
			continue
		}
		if s, ok := e.Vals[0].(lua.LString); ok {
			if ib < 0 && s == "@BODY" {
				ib = i
			}
			if ie < 0 && s == "@EPILOGUE" {
				ie = i
			}
		}
	}
	ser := e1.GTraceStrings
	switch {
	case ib < 0 && ie < 0:
		return ser(evs), nil, nil, false, false
	case ib < 0:
		// the body failed before its first effect
		return ser(evs[:ie]), nil, ser(evs[ie:]), false, true
	case ie < 0:
		return ser(evs[:ib]), ser(evs[ib+1:]), nil, true, false
	}
	return ser(evs[:ib]), ser(evs[ib+1 : ie]), ser(evs[ie:]), true, true
}

func isPrefix(a, b []string) bool {
	if len(a) > len(b) {
		return false
	}
	for i := range a {
		if a[i] != b[i] {
			return false
		}
	}
	return true
}

var chkBoundary = vf.Register("every_instruction", func(k *vf.C, c *BoundaryCase) error {
	// the reference interpreter bounds the program first (its step budget): a generated program that does not end - e.g. a
	// numeric for at a magnitude where adding the step changes nothing - must not hang the check
	if r := e1.RunRef(c.Src, nil); r.ParseErr != nil || r.Unspecified != "" {
		k.Discard("reference: unspecified or over budget")
		return nil
	}
	// fault-free run under a counting context that never fires
	free := e1.NewOneShotCtx(-1)
	g0 := e1.RunGopher(c.Src, &e1.GOpts{Ctx: free})
	if g0.Panic != "" {
		return fmt.Errorf("fault-free run: Go panic escaped: %s", g0.Panic)
	}
	if g0.Failed {
		k.Discard("fault-free run fails")
		return nil
	}
	K := free.N
	if K > 6000 {
		k.Discard("more than 6000 instructions")
		return nil
	}
	// without any context the trace must be the same (attaching an undone context changes nothing)
	gn := e1.RunGopher(c.Src, nil)
	t0 := e1.GTraceStrings(g0.Trace)
	if tn := e1.GTraceStrings(gn.Trace); strings.Join(tn, "\n") != strings.Join(t0, "\n") || gn.Failed {
		return fmt.Errorf("trace with an undone context attached differs from the trace without context")
	}
	if msg := e1.CheckSnaps(g0.Snaps); msg != "" {
		return fmt.Errorf("fault-free run: %s", msg)
	}
	p0, b0, e0, _, _ := split(g0.Trace)
	_ = e0
	if len(b0) == 0 || b0[len(b0)-1] != `emit "@BODYEND"` {
		k.Discard("the body does not complete in the fault-free run")
		return nil
	}
	var failEpi []string
	inBody := 0
	lastBodyLen := -1
	for kk := int64(1); kk <= K; kk++ {
		ctx := e1.NewOneShotCtx(kk)
		g := e1.RunGopher(c.Src, &e1.GOpts{Ctx: ctx})
		k.Class("injections")
		if g.Panic != "" {
			return fmt.Errorf("fault at instruction %d of %d: a Go panic escaped DoString: %s", kk, K, g.Panic)
		}
		if !ctx.Fired {
			return fmt.Errorf("instruction %d of %d was not reached: the run is not deterministic", kk, K)
		}
		if msg := e1.CheckSnaps(g.Snaps); msg != "" {
			return fmt.Errorf("fault at instruction %d of %d: %s", kk, K, msg)
		}
		tk := e1.GTraceStrings(g.Trace)
		pk, bk, ek, hasBody, hasEpi := split(g.Trace)
		if g.Failed {
			// the fault hit outside the protected call: the chunk fails with the injected error and what it did is a
			// prefix of the fault-free run
			if !strings.Contains(g.ErrText, "context canceled") {
				return fmt.Errorf("fault at instruction %d of %d: the chunk failed with %q, not with the injected error", kk, K, clip(g.ErrText, 200))
			}
			if !isPrefix(tk, t0) {
				return fmt.Errorf("fault at instruction %d of %d (outside the protected call): the trace is not a prefix of the fault-free trace", kk, K)
			}
			if hasBody && !hasEpi && (len(bk) == 0 || bk[len(bk)-1] != `emit "@BODYEND"`) {
				// the body had started and not finished: the fault was raised inside the protected call and came out of it
				return fmt.Errorf("fault at instruction %d of %d: the error raised inside the protected body escaped the protected call", kk, K)
			}
			k.Class("fault_outside_protected_call")
			continue
		}
		// the fault was contained: prologue complete, body a prefix, epilogue the failure epilogue (the same for every k)
		if !hasEpi {
			return fmt.Errorf("fault at instruction %d of %d: the chunk finished without reaching the epilogue", kk, K)
		}
		if strings.Join(pk, "\n") != strings.Join(p0, "\n") {
			return fmt.Errorf("fault at instruction %d of %d: prologue trace changed", kk, K)
		}
		if !isPrefix(bk, b0) {
			return fmt.Errorf("fault at instruction %d of %d: the side effects of the failed call are not a prefix of its fault-free side effects", kk, K)
		}
		if len(bk) == len(b0) && len(bk) > 0 && bk[len(bk)-1] == `emit "@BODYEND"` {
			// the fault came after the last effect of the body but still inside it
		}
		if len(bk) < lastBodyLen {
			return fmt.Errorf("fault at instruction %d of %d: a later fault left fewer side effects (%d) than an earlier one (%d)", kk, K, len(bk), lastBodyLen)
		}
		lastBodyLen = len(bk)
		if !strings.HasPrefix(ek[0], `emit "@EPILOGUE" false "string" true n:4026000000000000 "keep" n:4014000000000000 n:4014000000000000`) {
			return fmt.Errorf("fault at instruction %d of %d: after the failed protected call the caller saw %s", kk, K, ek[0])
		}
		if failEpi == nil {
			failEpi = ek
		} else if strings.Join(failEpi, "\n") != strings.Join(ek, "\n") {
			return fmt.Errorf("fault at instruction %d of %d: behaviour after the failed call differs from the behaviour after a fault at an earlier instruction", kk, K)
		}
		inBody++
		k.Class("fault_inside_protected_call")
	}
	k.EvalN(int(K))
	if inBody >= 5 {
		k.Nontrivial(vf.Hash(c.Src))
		k.Sample("boundary", 2, map[string]any{"src": clip(c.Src, 2000), "instructions": K, "injected_inside_body": inBody})
	}
	return nil
})

func TestEveryInstruction(t *testing.T) {
	vf.Rapid(t, func(rt *rapid.T) {
		g := lgen.New(rt, lgen.Core())
		b := g.BoundaryProgram()
		for cl, n := range g.Classes {
			chkBoundary.ClassN("gen:"+cl, n)
		}
		chkBoundary.Run(rt, &BoundaryCase{Src: lgen.Print(b, &lgen.Layout{})})
	})
}

var _ = lua.LNil
