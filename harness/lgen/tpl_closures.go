package lgen

import (
	"strconv"

	L "verif/luaref"
)

// ---- C03: closures on every exit path; fenv

// noise: calls that reuse the registers above the current frame (many locals and arguments), used between leaving
// a scope and invoking the closures saved from it.
func (g *Gen) noise() []L.Stmt {
	var args []L.Expr
	for i := 0; i < 4+g.n(6, "noiseargs"); i++ {
		args = append(args, num(float64(900+i)))
	}
	nf := fn([]string{"a", "b", "c", "d", "e", "f"}, true, blk(
		local([]string{"g", "h", "i", "j"}, num(801), num(802), num(803), num(804)),
		local1("t", tbl(pos(name("a")), pos(name("g")), pos(&L.VarargExpr{}))),
		ret(bin("+", un("#", name("t")), name("j")))))
	// (a statement must not start with a parenthesis: it would continue the previous statement)
	return []L.Stmt{local1("nz", nf), callStmt(call(name("nz"), args...)), local([]string{"z1", "z2", "z3"}, num(701), num(702), num(703))}
}

// closurePair stores into saved (a table expression) a getter and a setter sharing variable v.
func closurePair(saved L.Expr, v string) []L.Stmt {
	next := bin("+", un("#", saved), num(1))
	return []L.Stmt{
		assign1(idx(saved, next), fn(nil, false, blk(ret(name(v))))),
		assign1(idx(saved, next), fn([]string{"x"}, false, blk(assign1(name(v), name("x"))))),
	}
}

// useSaved: read every getter, write through every setter, read again (sharing within a pair, independence between pairs).
func useSaved(saved string) []L.Stmt {
	i := "si"
	return []L.Stmt{
		emit(str("saved"), un("#", name(saved))),
		&L.NumForStmt{Var: i, Start: num(1), End: un("#", name(saved)), Step: num(2), Body: blk(
			emit(name(i), call(idx(name(saved), name(i)))),
			callStmt(call(idx(name(saved), bin("+", name(i), num(1))), bin("*", name(i), num(100)))),
		)},
		&L.NumForStmt{Var: i, Start: num(1), End: un("#", name(saved)), Step: num(2), Body: blk(
			emit(name(i), call(idx(name(saved), name(i)))),
		)},
	}
}

func (g *Gen) tplClosureExit() []L.Stmt {
	saved := g.fresh("sv")
	// inside a function of its own, without parameters and with every earlier declaration outside it: the first local
	// of the block that is left lives in register 0
	freshFn := g.n(3, "freshfn") == 0
	var pre, out []L.Stmt
	declare := func(s L.Stmt) {
		if freshFn {
			pre = append(pre, s)
		} else {
			out = append(out, s)
		}
	}
	declare(local1(saved, tbl()))
	sv := name(saved)
	capture := g.n(5, "capture")
	exit := g.n(14, "exit")
	g.class("closure:capture" + strconv.Itoa(capture) + ":exit" + strconv.Itoa(exit))
	// the statements that create the closures, given the exit statement to run after them
	// the closures may be created in a block nested inside the one that declares the variable
	innerCreate := g.n(3, "innercreate") == 0
	if innerCreate {
		g.class("closure:created_in_block_nested_in_the_declaring_one")
	}
	closurePair := func(saved L.Expr, v string) []L.Stmt {
		ss := closurePair(saved, v)
		if innerCreate {
			switch g.n(3, "innercreatekind") {
			case 0:
				return []L.Stmt{ifs(bin("~=", name(v), str("never this")), blk(ss...), nil)}
			case 1:
				return []L.Stmt{&L.DoStmt{Body: blk(&L.DoStmt{Body: blk(ss...)})}}
			default:
				return []L.Stmt{&L.NumForStmt{Var: "once", Start: num(1), End: num(1), Body: blk(ss...)}}
			}
		}
		return ss
	}
	create := func(v string, exitStmt []L.Stmt) []L.Stmt {
		var ss []L.Stmt
		switch capture {
		case 0: // block local
			ss = append(ss, local1(v, num(float64(10+g.n(80, "initv")))))
			ss = append(ss, closurePair(sv, v)...)
		case 1: // two locals, two pairs; captured in ascending or descending register order
			ss = append(ss, local([]string{v, v + "b"}, num(1), str("two")))
			if g.n(2, "descending") == 0 {
				g.class("closure:descending_capture_order")
				ss = append(ss, closurePair(sv, v+"b")...)
				ss = append(ss, closurePair(sv, v)...)
			} else {
				ss = append(ss, closurePair(sv, v)...)
				ss = append(ss, closurePair(sv, v+"b")...)
			}
		case 2: // enclosing upvalue reached through two levels
			ss = append(ss, local1(v, num(5)))
			ss = append(ss, assign1(idx(sv, bin("+", un("#", sv), num(1))), call(paren(fn(nil, false, blk(ret(fn(nil, false, blk(ret(name(v)))))))))))
			ss = append(ss, assign1(idx(sv, bin("+", un("#", sv), num(1))), call(paren(fn(nil, false, blk(ret(fn([]string{"x"}, false, blk(assign1(name(v), name("x")))))))))))
		case 3: // the variable is modified after the closures were created, before the scope ends
			ss = append(ss, local1(v, num(7)))
			ss = append(ss, closurePair(sv, v)...)
			ss = append(ss, assign1(name(v), bin("+", name(v), num(1))))
		default: // captured together with many neighbours (register pressure)
			var names []string
			var es []L.Expr
			for i := 0; i < 8; i++ {
				names = append(names, v+"n"+strconv.Itoa(i))
				es = append(es, num(float64(i)))
			}
			ss = append(ss, local(names, es...), local1(v, bin("+", name(names[3]), num(40))))
			ss = append(ss, closurePair(sv, v)...)
			ss = append(ss, closurePair(sv, names[6])...)
		}
		return append(ss, exitStmt...)
	}
	// the closures may be created a few blocks deeper than the statement that leaves the scope expects
	nest := func(ss []L.Stmt) []L.Stmt {
		for i, n := 0, g.n(3, "nestdepth"); i < n; i++ {
			g.class("closure:nested_block")
			if g.n(2, "nestkind") == 0 {
				ss = []L.Stmt{&L.DoStmt{Body: blk(ss...)}}
			} else {
				ss = []L.Stmt{ifs(&L.TrueExpr{}, blk(ss...), nil)}
			}
		}
		return ss
	}
	v := g.fresh("cv")
	switch exit {
	case 0: // fall through the end of a do block
		out = append(out, &L.DoStmt{Body: blk(create(v, nil)...)})
	case 1: // each loop iteration gets a fresh variable; leave by break
		body := nest(create(v, []L.Stmt{ifs(bin("==", name("li"), num(2)), blk(&L.BreakStmt{}), nil)}))
		switch g.n(3, "looptype") {
		case 0:
			out = append(out, &L.NumForStmt{Var: "li", Start: num(1), End: num(3), Body: blk(body...)})
		case 1:
			// while loop with its own counter
			g.class("closure:while_loop")
			declare(local1("li", num(0)))
			out = append(out, &L.WhileStmt{Cond: bin("<", name("li"), num(3)), Body: blk(append([]L.Stmt{assign1(name("li"), bin("+", name("li"), num(1)))}, body...)...)})
		default:
			// repeat-until: the loop goes round through a false condition that reads a body local
			g.class("closure:repeat_loop")
			declare(local1("li", num(0)))
			out = append(out, &L.RepeatStmt{Body: blk(append([]L.Stmt{assign1(name("li"), bin("+", name("li"), num(1))), local1("done", bin(">=", name("li"), num(3)))}, body...)...), Cond: name("done")})
		}
	case 12, 13: // the scope is left by falling past an exit that is not taken: its last statement is an if whose last arm ends in
		// return / break / goto, and control gets behind it through the other arm
		var last L.Stmt
		lbl := g.fresh("L")
		ut := g.n(5, "untaken")
		if ut == 2 && exit == 13 {
			ut = 0 // (no loop to break out of)
		}
		switch ut {
		case 0:
			last = ifs(bin(">", name("li"), num(5)), blk(ret(str("never"))), nil)
		case 1:
			last = ifs(bin("<", name("li"), num(5)), blk(assign1(name("li"), name("li"))), blk(ret(str("never"))))
		case 2:
			last = ifs(bin(">", name("li"), num(5)), blk(&L.BreakStmt{}), nil)
		case 3:
			last = &L.IfStmt{Conds: []L.Expr{bin(">", name("li"), num(7)), bin(">", name("li"), num(5))}, Blocks: []*L.Block{blk(emit(str("never"))), blk(ret(str("never")))}}
		default:
			last = ifs(bin(">", name("li"), num(5)), blk(&L.GotoStmt{Label: lbl}), nil)
		}
		g.class("closure:scope_ends_in_untaken_exit")
		body := nest(create(v, []L.Stmt{last}))
		if exit == 12 {
			out = append(out, &L.NumForStmt{Var: "li", Start: num(1), End: num(3), Body: blk(body...)})
		} else {
			declare(local1("li", num(0)))
			out = append(out, assign1(name("li"), num(1)), &L.DoStmt{Body: blk(body...)})
		}
		out = append(out, &L.LabelStmt{Name: lbl}, &L.DoStmt{Body: blk()})
	case 2: // loop variable itself captured, loop runs to completion
		out = append(out, &L.NumForStmt{Var: v, Start: num(1), End: num(3), Body: blk(closurePair(sv, v)...)})
	case 3: // generic for variables captured
		out = append(out, &L.GenForStmt{Names: []string{"gk", v}, Exprs: []L.Expr{call(name("ipairs"), tbl(pos(str("x")), pos(str("y"))))}, Body: blk(append(closurePair(sv, v), closurePair(sv, "gk")...)...)})
	case 4: // goto out of nested blocks
		lbl := g.fresh("L")
		out = append(out, &L.DoStmt{Body: blk(&L.DoStmt{Body: blk(create(v, []L.Stmt{ifs(&L.TrueExpr{}, blk(&L.GotoStmt{Label: lbl}), nil)})...)}, emit(str("not reached")))}, &L.LabelStmt{Name: lbl}, &L.DoStmt{Body: blk()})
	case 5: // continue-style goto inside a loop
		lbl := g.fresh("L")
		body := nest(create(v, []L.Stmt{ifs(bin("<", name("li"), num(3)), blk(&L.GotoStmt{Label: lbl}), nil)}))
		body = []L.Stmt{&L.DoStmt{Body: blk(body...)}, emit(str("tail of iteration"), name("li")), &L.LabelStmt{Name: lbl}}
		out = append(out, &L.NumForStmt{Var: "li", Start: num(1), End: num(3), Body: blk(body...)})
	case 6: // backward goto: every pass through the declaration creates a new variable
		lbl := g.fresh("L")
		out = append(out, &L.DoStmt{Body: blk(append([]L.Stmt{local1("pass", num(0)), &L.LabelStmt{Name: lbl}},
			append(create(v, nil), assign1(name("pass"), bin("+", name("pass"), num(1))), ifs(bin("<", name("pass"), num(3)), blk(&L.GotoStmt{Label: lbl}), nil))...)...)})
	case 7: // return / tail call out of a function (parameters captured as well)
		var r L.Stmt = ret(str("returned"))
		if g.n(2, "tailexit") == 0 {
			r = ret(call(name("hostf"), num(1), str("tail")))
		}
		fe := fn([]string{v + "p"}, false, blk(append(closurePair(sv, v+"p"), nest(create(v, []L.Stmt{r}))...)...))
		if g.n(2, "twoactivations") == 0 {
			// two activations of the same function (the second one recursive): each has its own instances
			g.class("closure:two_activations")
			rf := g.fresh("rf")
			rfe := fn([]string{"depth"}, false, blk(local1("mine", bin("*", name("depth"), num(10))), assign1(idx(sv, bin("+", un("#", sv), num(1))), fn(nil, false, blk(ret(name("mine"))))), assign1(idx(sv, bin("+", un("#", sv), num(1))), fn([]string{"x"}, false, blk(assign1(name("mine"), name("x"))))),
				ifs(bin(">", name("depth"), num(1)), blk(callStmt(call(name(rf), bin("-", name("depth"), num(1))))), nil), ret(name("mine"))))
			out = append(out, local1("ff", fe), emit(call(name("ff"), num(33))), emit(call(name("ff"), num(44))), &L.LocalFuncStmt{Name: rf, Fn: rfe}, emit(call(name(rf), num(3))))
		} else {
			out = append(out, emit(call(paren(fe), num(33))))
		}
	case 8: // error caught by pcall / xpcall / Go-side panic caught by pcall
		var raise L.Stmt
		switch g.n(4, "raisekind") {
		case 0:
			raise = callStmt(call(name("error"), str("boom 50% %s")))
		case 1:
			raise = callStmt(call(name("error"), tbl()))
		case 2:
			raise = callStmt(call(name("hostpanic")))
		default:
			raise = local1("bad", bin("+", &L.NilExpr{}, num(1)))
		}
		// the failing function is a few frames deep
		inner := fn(nil, false, blk(nest(create(v, []L.Stmt{raise}))...))
		mid := fn(nil, false, blk(local1("m1", num(1)), callStmt(call(paren(inner))), ret(name("m1"))))
		if g.n(2, "xp") == 0 {
			g.class("closure:exit_xpcall")
			h := fn([]string{"e"}, false, blk(ret(str("handled"))))
			if g.n(3, "handlerfails") == 0 {
				// the message handler fails too: what xpcall then returns after false is not fixed, the closures are
				g.class("closure:exit_xpcall_handler_fails")
				h = fn([]string{"e"}, false, blk(callStmt(call(name("error"), str("handler failed")))))
				out = append(out, emit(paren(call(name("xpcall"), mid, h))))
			} else {
				out = append(out, emit(call(name("xpcall"), mid, h)))
			}
		} else {
			out = append(out, emit(call(name("select"), num(1), call(name("pcall"), mid))))
		}
	case 9: // coroutine suspended with open upvalues, resumed later
		body := fn(nil, false, blk(create(v, []L.Stmt{callStmt(call(field(name("coroutine"), "yield"), str("y1"))), assign1(name(v), str("after yield")), ret(str("co done"))})...))
		var rargs []L.Expr
		if g.n(2, "varargbody") == 0 {
			// a ... body resumed with arguments, ending by running off its end right after a call statement: the captured
			// locals are the highest registers in use when the coroutine ends
			g.class("closure:coroutine_vararg_body_runs_off_its_end")
			body = fn(nil, true, blk(create(v, []L.Stmt{callStmt(call(field(name("coroutine"), "yield"), str("y1"))), assign1(name(v), str("after yield")), emit(str("co body ends"), call(name("select"), str("#"), &L.VarargExpr{}))})...))
			for i, n := 0, g.n(5, "nresumeargs"); i < n; i++ {
				rargs = append(rargs, num(float64(i+1)))
			}
		}
		co := g.fresh("co")
		out = append(out, local1(co, call(field(name("coroutine"), "create"), body)), emit(call(field(name("coroutine"), "resume"), append([]L.Expr{name(co)}, rargs...)...)))
		out = append(out, g.noise()...)
		out = append(out, useSaved(saved)...)
		out = append(out, emit(call(field(name("coroutine"), "resume"), name(co))))
	case 10: // coroutine left suspended forever
		body := fn(nil, false, blk(create(v, []L.Stmt{callStmt(call(field(name("coroutine"), "yield"), str("parked")))})...))
		out = append(out, emit(call(call(field(name("coroutine"), "wrap"), body))))
	default: // coroutine dies with an error
		var death L.Stmt = callStmt(call(name("error"), tbl(kv(str("code"), num(1)))))
		if g.n(2, "covmfault") == 0 {
			// (a fault raised by an instruction of the very function that owns the captured locals)
			g.class("closure:coroutine_dies_of_vm_fault")
			death = local1("bad", field(name("nonexistentglobal"), "fld"))
		}
		body := fn(nil, false, blk(create(v, []L.Stmt{death})...))
		co := g.fresh("co")
		out = append(out, local1(co, call(field(name("coroutine"), "create"), body)), emit(call(name("select"), num(1), call(field(name("coroutine"), "resume"), name(co)))), emit(call(field(name("coroutine"), "status"), name(co))))
	}
	out = append(out, g.noise()...)
	out = append(out, useSaved(saved)...)
	if freshFn {
		g.class("closure:in_fresh_function")
		wf := g.fresh("wf")
		return []L.Stmt{&L.DoStmt{Body: blk(append(pre, local1(wf, fn(nil, false, blk(out...))), callStmt(call(name(wf))))...)}}
	}
	return []L.Stmt{&L.DoStmt{Body: blk(out...)}}
}

// tplFenv: free names resolve through the environment of the function that mentions them.
func (g *Gen) tplFenv() []L.Stmt {
	env := g.fresh("env")
	f := g.fresh("ef")
	g.class("fenv")
	out := []L.Stmt{local1(env, tbl(kv(str("emit"), name("emit")), kv(str("gv"), str("from env")), kv(str("setfenv"), name("setfenv")), kv(str("getfenv"), name("getfenv"))))}
	switch g.n(7, "fenvform") {
	case 5, 6:
		// every evaluation of a function expression makes a function object of its own, also when it captures nothing:
		// setfenv on one of them leaves its siblings alone
		g.class("fenv:sibling_closures")
		inner := fn(nil, false, blk(ret(name("gv"))))
		if g.n(2, "viafactory") == 0 {
			out = append(out, &L.LocalFuncStmt{Name: f, Fn: fn(nil, false, blk(ret(inner)))}, local([]string{"s1", "s2"}, call(name(f)), call(name(f))))
		} else {
			out = append(out, local1("sibs", tbl()), &L.NumForStmt{Var: "i", Start: num(1), End: num(2), Body: blk(assign1(idx(name("sibs"), name("i")), inner))}, local([]string{"s1", "s2"}, idx(name("sibs"), num(1)), idx(name("sibs"), num(2))))
		}
		out = append(out, assign1(name("gv"), str("global gv")), emit(bin("==", name("s1"), name("s2")), call(name("s1")), call(name("s2"))),
			callStmt(call(name("setfenv"), name("s1"), name(env))), emit(call(name("s1")), call(name("s2")), bin("==", call(name("getfenv"), name("s1")), name(env)), bin("==", call(name("getfenv"), name("s2")), name(env))),
			assign1(name("gv"), &L.NilExpr{}))
	case 0:
		// setfenv(f, t): reads and writes of free names go to t; a nested closure inherits it
		fe := fn(nil, false, blk(emit(str("in f"), name("gv")), assign1(name("made"), num(1)), ret(fn(nil, false, blk(assign1(name("nested"), num(2)), ret(name("gv")))))))
		out = append(out, &L.LocalFuncStmt{Name: f, Fn: fe}, callStmt(call(name("setfenv"), name(f), name(env))), local1("inner", call(name(f))), emit(call(name("inner"))),
			emit(field(name(env), "made"), field(name(env), "nested"), name("made"), name("nested"), bin("==", call(name("getfenv"), name(f)), name(env)), bin("==", call(name("getfenv"), name("inner")), name(env))))
	case 1:
		// setfenv(1, t) inside the function: later free names in the same activation use t
		fe := fn(nil, false, blk(assign1(name("before"), str("global")), callStmt(call(name("setfenv"), num(1), name(env))), assign1(name("after"), name("gv")), ret(bin("==", call(name("getfenv"), num(1)), name(env)))))
		out = append(out, &L.LocalFuncStmt{Name: f, Fn: fe}, emit(call(name(f))), emit(name("before"), name("after"), field(name(env), "after"), field(name(env), "before")), assign1(name("before"), &L.NilExpr{}))
	case 2:
		// a closure created before the setfenv keeps the old environment; one created after inherits the new one
		fe := fn(nil, false, blk(local1("c1", fn(nil, false, blk(ret(name("gv"))))), callStmt(call(name("setfenv"), num(1), name(env))), local1("c2", fn(nil, false, blk(ret(name("gv"))))), ret(name("c1"), name("c2"))))
		out = append(out, &L.LocalFuncStmt{Name: f, Fn: fe}, local([]string{"c1", "c2"}, call(name(f))), emit(call(name("c1")), call(name("c2"))))
	case 3:
		// environment with __index fallback to the globals, __newindex logging
		mt := tbl(kv(str("__index"), name("_G")), kv(str("__newindex"), fn([]string{"t", "k", "v"}, false, blk(emit(str("newindex"), name("k"), name("v")), callStmt(call(name("rawset"), name("t"), name("k"), name("v")))))))
		fe := fn(nil, false, blk(assign1(name("fresh"), call(name("type"), name("emit"))), assign1(name("fresh"), str("again")), ret(name("fresh"), call(name("rawget"), call(name("getfenv"), num(1)), str("fresh")))))
		out = append(out, local1("e2", call(name("setmetatable"), tbl(), mt)), &L.LocalFuncStmt{Name: f, Fn: fe}, callStmt(call(name("setfenv"), name(f), name("e2"))), emit(call(name(f))), emit(name("fresh")))
	default:
		// getfenv of levels: 1 = the function itself, 2 = its caller
		fe := fn(nil, false, blk(ret(bin("==", call(name("getfenv"), num(1)), name(env)), bin("==", call(name("getfenv"), num(2)), call(name("getfenv"), num(1))))))
		caller := fn(nil, false, blk(local([]string{"a", "b"}, call(name(f))), ret(name("a"), name("b"))))
		out = append(out, &L.LocalFuncStmt{Name: f, Fn: fe}, callStmt(call(name("setfenv"), name(f), name(env))), emit(call(paren(caller))))
	}
	return []L.Stmt{&L.DoStmt{Body: blk(out...)}}
}

// Closures is the profile of C03.
func Closures() *Profile {
	return &Profile{Name: "closures", MaxStmts: 10, MaxDepth: 3, Wild: 6, WildOpen: 0, Stress: 2, TemplatePc: 55,
		Templates: []func(g *Gen) []L.Stmt{(*Gen).tplClosureExit, (*Gen).tplClosureExit, (*Gen).tplClosureExit, (*Gen).tplFenv}}
}
