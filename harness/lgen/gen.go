package lgen

import (
	"fmt"
	"math"
	"strconv"

	"pgregory.net/rapid"

	L "verif/luaref"
)

// Kind is the soft type the generator believes an expression or variable has.
type Kind int

const (
	KAny Kind = iota
	KInt      // integral number of modest size
	KNum      // any finite number
	KStr
	KBool
	KNil
	KTab
	KFun
)

var kindNames = []string{"any", "int", "num", "str", "bool", "nil", "tab", "fun"}

type Var struct {
	Name    string
	Kind    Kind
	Global  bool
	Fields  map[string]Kind // KTab: known record fields
	ArrLen  int             // KTab: number of leading array slots known to be filled
	IsArr   bool            // KTab: used as a sequence only
	ArrKind Kind
	Fn      *FuncInfo // KFun
	NoWrite bool      // loop control variables, fuel counters, functions
	Frozen  int       // > 0 while an ipairs loop over this table is being generated: no growth inside
	fnDepth int
}

type FuncInfo struct {
	Params  []Kind
	Vararg  bool
	Rets    []Kind
	Pure    bool // no emits / side effects: may be called anywhere
	Recurse bool
}

type fnCtx struct {
	parent    *fnCtx
	vararg    bool
	loopDepth int
	depth     int
	rets      []Kind
	mark      int // scope stack height at function entry
}

// Profile weights the grammar.
type Profile struct {
	Name       string
	MaxStmts   int
	MaxDepth   int
	Wild       int // percent of wild (ill-typed) expressions inside protected contexts
	WildOpen   int // per mille outside protected contexts
	Templates  []func(g *Gen) []L.Stmt
	TemplatePc int // percent of statements that come from profile templates
	Stress     int // per mille of stress-shape statements
	NoGoto     bool
}

type Gen struct {
	mtHasLen, opIsUd map[string]bool
	opMt             map[string]string
	T                *rapid.T
	P                *Profile
	vars             []*Var
	globals          []*Var
	fn               *fnCtx
	ctr              int
	budget           int
	protected        int
	Classes          map[string]int
	inPairs          int // inside an order-insensitive pairs body: only commutative accumulation allowed
	noEmit           int
	noYield          int
	level            int
	Sites            int // number of fault(i) sites planted so far (errors profile)
	pure             int // > 0: generating statements that must not touch anything outside themselves
}

func New(t *rapid.T, p *Profile) *Gen {
	return &Gen{T: t, P: p, Classes: map[string]int{}, fn: &fnCtx{vararg: true}}
}

func (g *Gen) class(k string) { g.Classes[k]++ }

// n draws an int in [0,k), close to uniformly.  rapid's own integer generators are deliberately biased towards
// small values, which would distort the grammar weights (a "12 per mille" event would fire a third of the time), so
// the number is assembled from fair coin flips inside one custom generator (one shrinkable group); it still shrinks
// towards 0, so alternative 0 of every choice must be the simplest one and rare events sit at the high end.
func (g *Gen) n(k int, label string) int {
	if k <= 1 {
		return 0
	}
	gen := uniformGens[k]
	if gen == nil {
		b := 3
		for 1<<uint(b-3) < k {
			b++
		}
		kk := k
		gen = rapid.Custom(func(t *rapid.T) int {
			v := 0
			for i := 0; i < b; i++ {
				v <<= 1
				if boolGen.Draw(t, "b") {
					v |= 1
				}
			}
			return v % kk
		})
		uniformGens[k] = gen
	}
	return gen.Draw(g.T, label)
}

var boolGen = rapid.Bool()
var uniformGens = map[int]*rapid.Generator[int]{}

// pct is true with probability p percent; false is the value it shrinks to.
func (g *Gen) pct(p int, label string) bool { return g.n(100, label) >= 100-p }

// rare is true with probability p per mille; false is the value it shrinks to.
func (g *Gen) rare(p int, label string) bool { return g.n(1000, label) >= 1000-p }

// Intn implements Chooser for layouts.
func (g *Gen) Intn(n int, label string) int { return g.n(n, label) }

func (g *Gen) fresh(prefix string) string {
	g.ctr++
	return prefix + strconv.Itoa(g.ctr)
}

// ---- scope

func (g *Gen) push(v *Var) *Var {
	v.fnDepth = g.fn.depth
	g.vars = append(g.vars, v)
	return v
}

func (g *Gen) mark() int     { return len(g.vars) }
func (g *Gen) release(m int) { g.vars = g.vars[:m] }
func (g *Gen) lookup(name string) *Var {
	for i := len(g.vars) - 1; i >= 0; i-- {
		if g.vars[i].Name == name {
			return g.vars[i]
		}
	}
	for _, v := range g.globals {
		if v.Name == name {
			return v
		}
	}
	return nil
}

// all returns globals followed by locals (outermost first).
func (g *Gen) all() []*Var {
	out := make([]*Var, 0, len(g.globals)+len(g.vars))
	out = append(out, g.globals...)
	return append(out, g.vars...)
}

// pick returns a visible variable of kind k (exact), or nil.
func (g *Gen) pick(k Kind, writable bool) *Var {
	var c []*Var
	for _, v := range g.all() {
		if v.Kind != k && !(k == KNum && v.Kind == KInt && !writable) {
			continue
		}
		if writable && v.NoWrite {
			continue
		}
		if g.lookup(v.Name) != v {
			continue // shadowed
		}
		c = append(c, v)
	}
	if len(c) == 0 {
		return nil
	}
	// prefer recent variables
	i := len(c) - 1 - g.n(len(c), "pickvar")
	if g.n(2, "pickrecent") == 0 && len(c) > 3 {
		i = len(c) - 1 - g.n(3, "pickvar3")
	}
	return c[i]
}

// ---- AST helpers

func name(s string) *L.NameExpr  { return &L.NameExpr{Name: s} }
func str(s string) *L.StringExpr { return &L.StringExpr{Val: s} }
func num(v float64) L.Expr {
	if v < 0 || v == 0 && math.Signbit(v) {
		return &L.UnExpr{Op: "-", X: &L.NumberExpr{Val: -v}}
	}
	return &L.NumberExpr{Val: v}
}
func numText(t string, v float64) L.Expr { return &L.NumberExpr{Val: v, Text: t} }
func bin(op string, l, r L.Expr) L.Expr  { return &L.BinExpr{Op: op, L: l, R: r} }
func un(op string, x L.Expr) L.Expr      { return &L.UnExpr{Op: op, X: x} }
func call(fn L.Expr, args ...L.Expr) *L.CallExpr {
	return &L.CallExpr{Fn: fn, Args: args}
}
func mcall(obj L.Expr, m string, args ...L.Expr) *L.CallExpr {
	return &L.CallExpr{Fn: obj, Method: m, Args: args}
}
func idx(o, k L.Expr) L.Expr          { return &L.IndexExpr{Obj: o, Key: k} }
func field(o L.Expr, f string) L.Expr { return &L.IndexExpr{Obj: o, Key: str(f)} }
func paren(e L.Expr) L.Expr           { return &L.ParenExpr{X: e} }
func callStmt(c *L.CallExpr) L.Stmt   { return &L.CallStmt{Call: c} }
func emit(args ...L.Expr) L.Stmt      { return callStmt(call(name("emit"), args...)) }
func local(names []string, es ...L.Expr) L.Stmt {
	return &L.LocalStmt{Names: names, Exprs: es}
}
func local1(n string, e L.Expr) L.Stmt { return &L.LocalStmt{Names: []string{n}, Exprs: []L.Expr{e}} }
func assign1(t, e L.Expr) L.Stmt       { return &L.AssignStmt{Targets: []L.Expr{t}, Exprs: []L.Expr{e}} }
func blk(ss ...L.Stmt) *L.Block        { return &L.Block{Stmts: ss} }
func ret(es ...L.Expr) L.Stmt          { return &L.ReturnStmt{Exprs: es} }
func fn(params []string, vararg bool, body *L.Block) *L.FuncExpr {
	return &L.FuncExpr{Params: params, IsVararg: vararg, Body: body}
}
func ifs(c L.Expr, then *L.Block, els *L.Block) L.Stmt {
	return &L.IfStmt{Conds: []L.Expr{c}, Blocks: []*L.Block{then}, Else: els}
}
func tbl(fields ...L.TableField) *L.TableExpr { return &L.TableExpr{Fields: fields} }
func pos(e L.Expr) L.TableField               { return L.TableField{Val: e} }
func kv(k, v L.Expr) L.TableField             { return L.TableField{Key: k, Val: v} }

// ---- literals

var intLits = []float64{0, 1, 2, 3, 4, 5, 7, 10, 16, 100, 255, 256, 1000, -1, -2, -5, -10, 65536, 1e6}
var numLits = []float64{0.5, 1.5, 2.25, 0.1, 3.75, -0.5, 1e10, 1e-3, 123456.5, 2.5, 0.25, 1e15, 9007199254740992, 1e100}
var strLits = []string{"", "a", "b", "abc", "hello", "x y", "A", "Z", "0", "10", "zz", "foo", "bar", "\n", "a\tb", "\\", "\"q\"", "'", "é", "\xff\x00z", "]]", "--"}
var numStrLits = []struct {
	s string
	k Kind
}{{"10", KInt}, {"3", KInt}, {" 5 ", KInt}, {"0x10", KInt}, {"1e2", KInt}, {"-3", KInt}, {"2.5", KNum}, {"7", KInt}, {".5", KNum}, {"5.", KInt}, {"\t8\n", KInt}}

func (g *Gen) intLit() L.Expr {
	if g.n(4, "intlit") == 0 {
		return num(float64(g.n(21, "smallint") - 4))
	}
	return num(intLits[g.n(len(intLits), "intlits")])
}

func (g *Gen) strLit() L.Expr { return str(strLits[g.n(len(strLits), "strlits")]) }

// ---- expressions

func (g *Gen) leaf(k Kind) L.Expr {
	switch k {
	case KInt:
		if v := g.pick(KInt, false); v != nil && g.n(3, "leafvar") > 0 {
			return g.ref(v)
		}
		return g.intLit()
	case KNum:
		if v := g.pick(KNum, false); v != nil && g.n(3, "leafvar") > 0 {
			return g.ref(v)
		}
		if g.n(3, "numint") == 0 {
			return g.intLit()
		}
		return num(numLits[g.n(len(numLits), "numlits")])
	case KStr:
		if v := g.pick(KStr, false); v != nil && g.n(3, "leafvar") > 0 {
			return g.ref(v)
		}
		return g.strLit()
	case KBool:
		if v := g.pick(KBool, false); v != nil && g.n(3, "leafvar") > 0 {
			return g.ref(v)
		}
		if g.n(2, "boollit") == 0 {
			return &L.TrueExpr{}
		}
		return &L.FalseExpr{}
	case KNil:
		return &L.NilExpr{}
	case KTab:
		if v := g.pick(KTab, false); v != nil && g.n(4, "leafvar") > 0 {
			return g.ref(v)
		}
		return tbl()
	case KFun:
		if v := g.pick(KFun, false); v != nil {
			return g.ref(v)
		}
		return fn(nil, false, blk())
	}
	return g.leaf(g.anyKind())
}

func (g *Gen) ref(v *Var) L.Expr { return name(v.Name) }

func (g *Gen) anyKind() Kind {
	return []Kind{KInt, KInt, KNum, KStr, KStr, KBool, KNil, KTab}[g.n(8, "anykind")]
}

func (g *Gen) spend() bool {
	g.budget--
	return g.budget > 0
}

// wild decides whether to produce an ill-typed expression here.
func (g *Gen) wild() bool {
	if g.protected > 0 {
		return g.pct(g.P.Wild, "wild")
	}
	return g.P.WildOpen > 0 && g.rare(g.P.WildOpen, "wildopen")
}

func (g *Gen) expr(k Kind, d int) L.Expr {
	if d <= 0 || !g.spend() {
		return g.leaf(k)
	}
	if g.wild() {
		g.class("wild_expr")
		k2 := g.anyKind()
		return g.expr(k2, d-1)
	}
	switch k {
	case KInt:
		return g.intExpr(d)
	case KNum:
		return g.numExpr(d)
	case KStr:
		return g.strExpr(d)
	case KBool:
		return g.boolExpr(d)
	case KNil:
		return &L.NilExpr{}
	case KTab:
		return g.tabExpr(d)
	case KFun:
		return g.funExpr(d, nil)
	}
	// any: a value of some kind, possibly through a logical choice
	switch g.n(6, "anyform") {
	case 0:
		g.class("logical_mixed")
		return bin("or", bin("and", g.expr(KAny, d-1), g.expr(g.anyKind(), d-1)), g.expr(g.anyKind(), d-1))
	case 1:
		return bin("and", g.expr(KAny, d-1), g.expr(g.anyKind(), d-1))
	case 2:
		return bin("or", g.expr(KAny, d-1), g.expr(g.anyKind(), d-1))
	}
	return g.expr(g.anyKind(), d-1)
}

// sel: cond and a or b with a of the wanted kind being truthy (never nil/false), so the kind is preserved
func (g *Gen) sel(k Kind, d int) L.Expr {
	g.class("select_and_or")
	return bin("or", bin("and", g.expr(KBool, d-1), g.expr(k, d-1)), g.expr(k, d-1))
}

func (g *Gen) intExpr(d int) L.Expr {
	switch g.n(16, "intform") {
	case 0, 1:
		return g.leaf(KInt)
	case 2, 3:
		return bin("+", g.expr(KInt, d-1), g.expr(KInt, d-1))
	case 4:
		return bin("-", g.expr(KInt, d-1), g.expr(KInt, d-1))
	case 5:
		return bin("*", g.expr(KInt, d-1), num(float64(g.n(7, "mulk")-2)))
	case 6:
		m := float64(g.n(9, "modk") + 1)
		if g.n(4, "modneg") == 0 {
			m = -m
		}
		return bin("%", g.expr(KInt, d-1), num(m))
	case 7:
		return un("-", g.expr(KInt, d-1))
	case 8:
		return un("#", g.expr(KStr, d-1))
	case 9:
		if v := g.pick(KTab, false); v != nil && v.IsArr {
			return un("#", g.ref(v))
		}
		return un("#", g.arrayLit(KInt, g.n(5, "arrn")))
	case 10:
		return call(field(name("math"), "floor"), g.expr(KNum, d-1))
	case 11:
		return g.sel(KInt, d)
	case 12:
		g.class("coercion_str_arith")
		s := numStrLits[g.n(len(numStrLits), "numstr")]
		if s.k != KInt {
			return g.leaf(KInt)
		}
		return bin([]string{"+", "-", "*"}[g.n(3, "coop")], str(s.s), g.expr(KInt, d-1))
	case 13:
		if e := g.callKnown(KInt, d); e != nil {
			return e
		}
		return g.leaf(KInt)
	case 14:
		if e := g.fieldRead(KInt); e != nil {
			return e
		}
		return g.leaf(KInt)
	default:
		if g.fn.vararg && g.n(2, "selcount") == 0 {
			return call(name("select"), str("#"), &L.VarargExpr{})
		}
		return paren(g.expr(KInt, d-1))
	}
}

func (g *Gen) numExpr(d int) L.Expr {
	switch g.n(10, "numform") {
	case 0, 1:
		return g.leaf(KNum)
	case 2:
		return g.expr(KInt, d)
	case 3:
		return bin("/", g.expr(KNum, d-1), g.expr(KNum, d-1))
	case 4:
		return bin("*", g.expr(KNum, d-1), g.expr(KNum, d-1))
	case 5:
		return bin("^", g.expr(KNum, d-1), num(float64(g.n(5, "powk"))-1+0.5*float64(g.n(2, "powhalf"))))
	case 6:
		return bin("+", g.expr(KNum, d-1), g.expr(KNum, d-1))
	case 7:
		return bin("-", g.expr(KNum, d-1), g.expr(KNum, d-1))
	case 8:
		// divisors that are powers of two: a/b, floor and the product are exact, so the 5.1 definition
		// a - floor(a/b)*b and an fmod-based one agree (elsewhere they differ in the last bits and the case is discarded)
		m := []float64{0.5, 0.25, 2, 8, 1024}[g.n(5, "fmodk")]
		return bin("%", g.expr(KNum, d-1), num(m))
	default:
		return un("-", g.expr(KNum, d-1))
	}
}

func (g *Gen) strExpr(d int) L.Expr {
	switch g.n(12, "strform") {
	case 0, 1:
		return g.leaf(KStr)
	case 2, 3:
		return bin("..", g.expr(KStr, d-1), g.expr(KStr, d-1))
	case 4:
		g.class("concat_number")
		if g.n(2, "numside") == 0 {
			return bin("..", g.expr(KInt, d-1), g.expr(KStr, d-1))
		}
		return bin("..", g.expr(KStr, d-1), g.expr(KInt, d-1))
	case 5:
		return call(name("tostring"), g.expr(KInt, d-1))
	case 6:
		return mcall(g.strOperand(d), "rep", num(float64(g.n(4, "repn"))))
	case 7:
		return mcall(g.strOperand(d), "sub", num(float64(g.n(7, "subi")-2)), num(float64(g.n(7, "subj")-3)))
	case 8:
		return mcall(g.strOperand(d), []string{"upper", "lower", "reverse"}[g.n(3, "strm")])
	case 9:
		return g.sel(KStr, d)
	case 10:
		return call(name("type"), g.expr(KAny, d-1))
	default:
		if e := g.callKnown(KStr, d); e != nil {
			return e
		}
		if e := g.fieldRead(KStr); e != nil {
			return e
		}
		return g.leaf(KStr)
	}
}

// strOperand: a string expression usable as a method-call receiver (literals get parenthesised by the printer)
func (g *Gen) strOperand(d int) L.Expr { return g.expr(KStr, d-1) }

func (g *Gen) boolExpr(d int) L.Expr {
	cmp := []string{"<", "<=", ">", ">=", "==", "~="}
	switch g.n(12, "boolform") {
	case 0:
		return g.leaf(KBool)
	case 1, 2:
		return bin(cmp[g.n(6, "cmp")], g.expr(KInt, d-1), g.expr(KInt, d-1))
	case 3:
		return bin(cmp[g.n(6, "cmp")], g.expr(KNum, d-1), g.expr(KNum, d-1))
	case 4:
		return bin(cmp[g.n(6, "cmp")], g.expr(KStr, d-1), g.expr(KStr, d-1))
	case 5:
		return bin(cmp[4+g.n(2, "eqop")], g.expr(KAny, d-1), g.expr(KAny, d-1))
	case 6:
		return un("not", g.expr(KAny, d-1))
	case 7:
		return bin("and", g.expr(KBool, d-1), g.expr(KBool, d-1))
	case 8:
		return bin("or", g.expr(KBool, d-1), g.expr(KBool, d-1))
	case 9:
		return bin("==", call(name("type"), g.expr(KAny, d-1)), str([]string{"number", "string", "table", "nil", "boolean", "function"}[g.n(6, "tyname")]))
	case 10:
		return call(name("rawequal"), g.expr(KAny, d-1), g.expr(KAny, d-1))
	default:
		return un("not", un("not", g.expr(KAny, d-1)))
	}
}

func (g *Gen) arrayLit(ek Kind, n int) *L.TableExpr {
	t := tbl()
	for i := 0; i < n; i++ {
		t.Fields = append(t.Fields, pos(g.leaf(ek)))
	}
	return t
}

func (g *Gen) tabExpr(d int) L.Expr {
	switch g.n(6, "tabform") {
	case 0:
		return g.leaf(KTab)
	case 1:
		return g.arrayLit([]Kind{KInt, KStr, KAny}[g.n(3, "arrk")], g.n(8, "arrn"))
	default:
		t := tbl()
		n := g.n(6, "nfields")
		for i := 0; i < n; i++ {
			switch g.n(5, "fieldform") {
			case 0, 1:
				t.Fields = append(t.Fields, pos(g.expr(g.anyKind(), d-1)))
			case 2:
				t.Fields = append(t.Fields, kv(str([]string{"x", "y", "name", "n", "k1"}[g.n(5, "fname")]+strconv.Itoa(i)), g.expr(g.anyKind(), d-1)))
			case 3:
				t.Fields = append(t.Fields, kv(num(float64(100+i)), g.expr(g.anyKind(), d-1)))
			default:
				t.Fields = append(t.Fields, kv(g.expr([]Kind{KStr, KInt}[g.n(2, "keykind")], d-1), g.expr(KInt, d-1)))
				// computed keys may collide with positional slots or be nil-free; string/int/bool keys never fault
				t.Fields[len(t.Fields)-1].Key = bin("..", str("k"), t.Fields[len(t.Fields)-1].Key.(L.Expr))
				if g.n(2, "plainkey") == 0 {
					t.Fields[len(t.Fields)-1].Key = str("c" + strconv.Itoa(i))
				}
			}
		}
		return t
	}
}

// fieldRead reads a known record field of kind k.
func (g *Gen) fieldRead(k Kind) L.Expr {
	var c []L.Expr
	for _, v := range g.all() {
		if v.Kind != KTab || g.lookup(v.Name) != v {
			continue
		}
		for _, f := range sortedKeys(v.Fields) {
			if v.Fields[f] == k {
				c = append(c, field(g.ref(v), f))
			}
		}
		if v.ArrKind == k && v.ArrLen > 0 && v.IsArr {
			c = append(c, idx(g.ref(v), num(float64(1+len(c)%v.ArrLen))))
		}
	}
	if len(c) == 0 {
		return nil
	}
	g.class("field_read")
	return c[g.n(len(c), "fieldread")]
}

func sortedKeys(m map[string]Kind) []string {
	ks := make([]string, 0, len(m))
	for k := range m {
		ks = append(ks, k)
	}
	for i := 1; i < len(ks); i++ {
		for j := i; j > 0 && ks[j] < ks[j-1]; j-- {
			ks[j], ks[j-1] = ks[j-1], ks[j]
		}
	}
	return ks
}

// callKnown calls a visible function whose first result has kind k.
func (g *Gen) callKnown(k Kind, d int) L.Expr {
	var c []*Var
	for _, v := range g.all() {
		if v.Kind == KFun && v.Fn != nil && len(v.Fn.Rets) > 0 && v.Fn.Rets[0] == k && g.lookup(v.Name) == v {
			if v.Fn.Recurse {
				continue
			}
			if !v.Fn.Pure && (g.inPairs > 0 || g.noEmit > 0) {
				continue
			}
			c = append(c, v)
		}
	}
	if len(c) == 0 {
		return nil
	}
	v := c[g.n(len(c), "callee")]
	g.class("call_known")
	return call(g.ref(v), g.args(v.Fn, d)...)
}

func (g *Gen) args(fi *FuncInfo, d int) []L.Expr {
	var as []L.Expr
	for _, pk := range fi.Params {
		as = append(as, g.expr(pk, d-1))
	}
	if fi.Vararg {
		for i := g.n(3, "nextra"); i > 0; i-- {
			as = append(as, g.expr(g.anyKind(), d-1))
		}
	}
	return as
}

// funExpr generates a function expression; fi (optional) receives its signature.
func (g *Gen) funExpr(d int, fi *FuncInfo) *L.FuncExpr {
	if fi == nil {
		fi = &FuncInfo{}
	}
	np := g.n(4, "nparams")
	fi.Vararg = g.n(5, "vararg") == 0
	outer := g.fn
	g.fn = &fnCtx{parent: outer, vararg: fi.Vararg, depth: outer.depth + 1, mark: g.mark()}
	m := g.mark()
	var params []string
	for i := 0; i < np; i++ {
		pk := []Kind{KInt, KInt, KStr, KAny, KNum}[g.n(5, "paramkind")]
		n := g.fresh("p")
		params = append(params, n)
		fi.Params = append(fi.Params, pk)
		g.push(&Var{Name: n, Kind: pk})
	}
	nr := g.n(4, "nrets")
	for i := 0; i < nr; i++ {
		fi.Rets = append(fi.Rets, []Kind{KInt, KStr, KInt, KBool, KNum}[g.n(5, "retkind")])
	}
	g.fn.rets = fi.Rets
	nst := g.n(4, "fnstmts")
	if d <= 1 {
		nst = g.n(2, "fnstmts1")
	}
	body := g.stmts(nst, d-1)
	var rs []L.Expr
	for _, rk := range fi.Rets {
		rs = append(rs, g.expr(rk, d-1))
	}
	if len(rs) > 0 || g.n(3, "emptyret") == 0 {
		body = append(body, ret(rs...))
	}
	g.release(m)
	g.fn = outer
	return fn(params, fi.Vararg, blk(body...))
}

func (g *Gen) String() string { return fmt.Sprintf("gen(%d vars)", len(g.vars)) }
