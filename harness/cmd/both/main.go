// both runs a Lua file on the reference interpreter and on gopher-lua and prints the comparison (development aid).
// With -min it first minimises the source line-wise while the two sides keep differing.
package main

import (
	"fmt"
	"io"
	"os"
	"strings"

	"verif/e1"
)

func differs(src string) bool {
	v, _, _, _ := e1.Diff(src)
	return v == e1.Differ
}

func minimise(src string) string {
	lines := strings.Split(src, "\n")
	for chunk := len(lines) / 2; chunk >= 1; {
		removed := false
		for i := 0; i+chunk <= len(lines); {
			cand := append(append([]string{}, lines[:i]...), lines[i+chunk:]...)
			if differs(strings.Join(cand, "\n")) {
				lines = cand
				removed = true
			} else {
				i++
			}
		}
		if !removed || chunk > len(lines)/2 {
			chunk /= 2
		}
	}
	return strings.Join(lines, "\n")
}

func main() {
	var b []byte
	args := os.Args[1:]
	min := false
	if len(args) > 0 && args[0] == "-min" {
		min = true
		args = args[1:]
	}
	if len(args) > 0 {
		b, _ = os.ReadFile(args[0])
	} else {
		b, _ = io.ReadAll(os.Stdin)
	}
	src := string(b)
	switch os.Getenv("BOTH_ONLY") {
	case "ref":
		r := e1.RunRef(src, nil)
		fmt.Println("ref only: events", len(r.Trace), "failed", r.Failed, "unspecified", r.Unspecified, "parse", r.ParseErr)
		return
	case "gl":
		g := e1.RunGopher(src, &e1.GOpts{Budget: 50_000_000, MaxEvents: 100000})
		fmt.Println("gl only: events", len(g.Trace), "failed", g.Failed, g.ErrText, "overrun", g.Overrun, "panic", g.Panic)
		return
	}
	if min && differs(src) {
		src = minimise(src)
		fmt.Println("---- minimised source")
		fmt.Println(src)
		fmt.Println("----")
	}
	v, d, r, g := e1.Diff(src)
	fmt.Println("verdict:", []string{"EQUAL", "DIFFER", "DISCARD"}[v], d)
	if r != nil {
		for i, e := range r.Trace {
			s := ""
			for _, x := range e.Vals {
				s += e1.ShowR(x) + " "
			}
			fmt.Printf("ref %d: %s\n", i, s)
		}
		fmt.Println("ref failed:", r.Failed, e1.ShowR(r.Err), "parse:", r.ParseErr)
	}
	if g != nil {
		for i, e := range g.Trace {
			s := ""
			for _, x := range e.Vals {
				s += e1.ShowG(x) + " "
			}
			fmt.Printf("gl  %d: %s\n", i, s)
		}
		fmt.Println("gl failed:", g.Failed, g.ErrText, g.Panic)
	}
}
