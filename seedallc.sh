#!/bin/bash
# seedallc.sh <NN:checks>... : round-3 candidates (/tmp/mutcNN-work) -> seeded/CNN-cmK, sequentially
mkdir -p /verif/.build/seedlogc
for spec in "$@"; do
  p=${spec%%:*}; checks=${spec##*:}
  for d in /tmp/mutc$p-work/m1 /tmp/mutc$p-work/m2 /tmp/mutc$p-work/m3 /tmp/mutc$p-work/*extra*; do
    [ -f $d/patch.diff ] || continue
    m=$(basename $d | sed 's/extra[-_]*//')
    SEEDED_JOBS=${SEEDED_JOBS:-6} python3 /verif/tools_seeded.py add $d C$p-c$m C$p $checks 2>&1 | tail -1 | cut -c1-220 | tee -a /verif/.build/seedlogc/out.txt
  done
done
