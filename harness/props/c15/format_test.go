package c15

import (
	"fmt"
	"math"
	"strconv"
	"strings"
	"testing"

	lua "github.com/yuin/gopher-lua"
	"pgregory.net/rapid"

	"verif/cref"
	"verif/vf"
)

// ---------------------------------------------------------------------------------------------
// string.format against libc snprintf
//
// A case is a format string made of literal pieces and conversion specifications %[flags][width][.prec]verb with
// exactly one argument per specification.  Only combinations whose behaviour ISO C defines are generated:
//
//	d i     flags - + space 0, width, precision        argument: (long long) of the number
//	o x X   flags - # 0,       width, precision        argument: (unsigned long long) of the non-negative number
//	e E f   flags - + space # 0, width, precision      argument: the double (finite)
//	c       flag  -,           width                   argument: (int) of the number, printf converts to unsigned char
//	s       flag  -,           width, precision        argument: a string without NUL bytes
//	%%      nothing
//
// Lua 5.1 restricts width and precision to two digits each; "%.d" (a period without digits) means precision 0.

type FmtItem struct {
	Lit     Bytes  `json:"lit,omitempty"`      // literal text in front of the specification (a '%' is spelled "%%" in the format)
	Flags   string `json:"flags,omitempty"`    // in the order they are written
	Width   int    `json:"width"`              // -1: none
	Prec    int    `json:"prec"`               // -1: none, -2: "." without digits
	Verb    string `json:"verb"`               // d i o x X e E f c s
	Num     F64    `json:"num"`                // the numeric argument
	NumText string `json:"num_text,omitempty"` // when set the argument is passed as a Lua string holding this numeral (value Num)
	Str     Bytes  `json:"str,omitempty"`      // the %s argument
}

type FmtCase struct {
	Items []FmtItem `json:"items"`
	Tail  Bytes     `json:"tail,omitempty"`
	Extra int       `json:"extra_args,omitempty"` // arguments beyond what the format consumes (ISO C and 5.1: ignored)
}

func (it *FmtItem) spec(lengthMod string) string {
	var b strings.Builder
	b.WriteByte('%')
	b.WriteString(it.Flags)
	if it.Width >= 0 {
		b.WriteString(strconv.Itoa(it.Width))
	}
	if it.Prec >= 0 {
		b.WriteByte('.')
		b.WriteString(strconv.Itoa(it.Prec))
	} else if it.Prec == -2 {
		b.WriteByte('.')
	}
	b.WriteString(lengthMod)
	b.WriteString(it.Verb)
	return b.String()
}

func escLit(b []byte) string { return strings.ReplaceAll(string(b), "%", "%%") }

const two63 = 9223372036854775808.0
const two64 = 18446744073709551616.0

// validItem rejects (as a harness error) anything outside the domain described above, so that a replay file edited
// by hand cannot produce a verdict about undefined behaviour.
func validItem(it *FmtItem) error {
	if len(it.Verb) != 1 || !strings.Contains("dioxXeEfcs", it.Verb) {
		return fmt.Errorf("verb %q", it.Verb)
	}
	allowed := map[byte]string{'d': "-+ 0", 'i': "-+ 0", 'o': "-#0", 'x': "-#0", 'X': "-#0", 'e': "-+ #0", 'E': "-+ #0", 'f': "-+ #0", 'c': "-", 's': "-"}[it.Verb[0]]
	for _, f := range it.Flags {
		if !strings.ContainsRune(allowed, f) {
			return fmt.Errorf("flag %q with %%%s", f, it.Verb)
		}
	}
	if len(it.Flags) > 5 || it.Width > 99 || it.Width == 0 || it.Prec > 99 || it.Width < -1 || it.Prec < -2 {
		return fmt.Errorf("flags/width/precision outside what Lua 5.1 accepts")
	}
	if it.Verb == "c" && it.Prec != -1 {
		return fmt.Errorf("precision with %%c")
	}
	x := float64(it.Num)
	switch it.Verb[0] {
	case 'd', 'i':
		if !(x > -two63 && x < two63) {
			return fmt.Errorf("%%%s of %v: conversion to long long undefined", it.Verb, x)
		}
	case 'o', 'x', 'X':
		if !(x > -1 && x < two64) || math.Signbit(x) && x != 0 {
			return fmt.Errorf("%%%s of %v: conversion to unsigned long long undefined", it.Verb, x)
		}
	case 'c':
		if !(x > -2147483649.0 && x < 2147483648.0) {
			return fmt.Errorf("%%c of %v: conversion to int undefined", x)
		}
		if cref.DoubleToInt(x)&0xff == 0 {
			return fmt.Errorf("%%c of a multiple of 256: 5.1 drops the NUL byte (strlen), printf emits it; not asserted")
		}
	case 'e', 'E', 'f':
		if math.IsNaN(x) || math.IsInf(x, 0) {
			return fmt.Errorf("%%%s of %v: spelling of inf/nan is implementation-defined", it.Verb, x)
		}
	case 's':
		for _, b := range it.Str {
			if b == 0 {
				return fmt.Errorf("%%s argument with a NUL byte")
			}
		}
	}
	if it.NumText != "" {
		if it.Verb == "s" {
			return fmt.Errorf("numeral argument with %%s")
		}
		v, err := strconv.ParseFloat(strings.TrimSpace(it.NumText), 64)
		if err != nil || v != x {
			return fmt.Errorf("numeral %q does not denote %v", it.NumText, x)
		}
	}
	return nil
}

// want renders one item with libc.
func (it *FmtItem) want() []byte {
	x := float64(it.Num)
	switch it.Verb[0] {
	case 'd', 'i':
		return cref.SnprintfLL(it.spec("ll"), cref.DoubleToLL(x))
	case 'o', 'x', 'X':
		return cref.SnprintfULL(it.spec("ll"), cref.DoubleToULL(x))
	case 'c':
		return cref.SnprintfInt(it.spec(""), cref.DoubleToInt(x))
	case 'e', 'E', 'f':
		return cref.SnprintfDouble(it.spec(""), x)
	case 's':
		return cref.SnprintfString(it.spec(""), it.Str)
	}
	return nil
}

func (c *FmtCase) build() (format string, args []lua.LValue, shown string) {
	var f strings.Builder
	var sh []string
	for i := range c.Items {
		it := &c.Items[i]
		f.WriteString(escLit(it.Lit))
		f.WriteString(it.spec(""))
		switch {
		case it.Verb == "s":
			args = append(args, lua.LString(string(it.Str)))
			sh = append(sh, q(it.Str))
		case it.NumText != "":
			args = append(args, lua.LString(it.NumText))
			sh = append(sh, strconv.Quote(it.NumText))
		default:
			args = append(args, lua.LNumber(float64(it.Num)))
			sh = append(sh, ftxt(float64(it.Num)))
		}
	}
	f.WriteString(escLit(c.Tail))
	for i := 0; i < c.Extra; i++ {
		if i%2 == 0 {
			args = append(args, lua.LNumber(7))
			sh = append(sh, "7")
		} else {
			args = append(args, lua.LString("x"))
			sh = append(sh, `"x"`)
		}
	}
	return f.String(), args, strings.Join(sh, ", ")
}

func formatOracle(k *vf.C, c *FmtCase) error {
	var want []byte
	if c.Extra < 0 || c.Extra > 8 {
		return fmt.Errorf("harness: %d extra arguments", c.Extra)
	}
	for i := range c.Items {
		it := &c.Items[i]
		if err := validItem(it); err != nil {
			return fmt.Errorf("harness: item %d outside the asserted domain: %v", i, err)
		}
		w := it.want()
		if w == nil {
			return fmt.Errorf("harness: snprintf failed for %q", it.spec(""))
		}
		want = append(want, it.Lit...)
		want = append(want, w...)
	}
	want = append(want, c.Tail...)
	format, args, shown := c.build()
	fcopy := string([]byte(format))
	all := append([]lua.LValue{lua.LString(fcopy)}, args...)
	rets, err := call(fn("string", "format"), all...)
	if fcopy != format {
		return fmt.Errorf("string.format modified its format string in place")
	}
	for i := range c.Items {
		if it := &c.Items[i]; it.Verb == "s" && string(args[i].(lua.LString)) != string(it.Str) {
			return fmt.Errorf("string.format modified argument %d in place", i+1)
		}
	}
	if err != nil {
		return fmt.Errorf("string.format(%s, %s) raised %q, libc gives %s", q([]byte(format)), shown, clip(err.Error(), 200), q(want))
	}
	if len(rets) != 1 {
		return fmt.Errorf("string.format(%s, %s) returned %d values", q([]byte(format)), shown, len(rets))
	}
	got, ok := rets[0].(lua.LString)
	if !ok || string(got) != string(want) {
		return fmt.Errorf("string.format(%s, %s) = %s, libc snprintf gives %s", q([]byte(format)), shown, clip(describe(rets), 600), clip(q(want), 600))
	}
	classifyFmt(k, c, format, shown, []byte(string(got)))
	return nil
}

var chkFormat = vf.Register("format", formatOracle)
var chkFormatGrid = vf.Register("format_grid", formatOracle)

func classifyFmt(k *vf.C, c *FmtCase, format, shown string, got []byte) {
	nontrivial := false
	for i := range c.Items {
		it := &c.Items[i]
		k.Class("verb:" + it.Verb)
		for _, f := range it.Flags {
			k.Class("flag:" + string(f))
		}
		if it.Width >= 0 {
			k.Class("width")
		}
		switch {
		case it.Prec >= 0:
			k.Class("precision")
		case it.Prec == -2:
			k.Class("precision_empty")
		}
		if it.Flags != "" || it.Prec != -1 {
			nontrivial = true
		}
		if it.NumText != "" {
			k.Class("arg:numeric_string")
		}
		x := float64(it.Num)
		switch it.Verb[0] {
		case 'd', 'i', 'o', 'x', 'X':
			switch {
			case x == 0:
				k.Class("int:zero")
			case x < 0:
				k.Class("int:negative")
			case math.Abs(x) >= two63:
				k.Class("int:>=2^63")
			case math.Abs(x) >= 1<<53:
				k.Class("int:>=2^53")
			}
			if x != math.Trunc(x) {
				k.Class("int:fraction_truncated")
			}
		case 'e', 'E', 'f':
			switch {
			case x == 0 && math.Signbit(x):
				k.Class("float:-0")
			case x == 0:
				k.Class("float:+0")
			case math.Abs(x) < 2.2250738585072014e-308:
				k.Class("float:subnormal")
			case math.Abs(x) >= 1e100:
				k.Class("float:huge")
			case math.Abs(x) <= 1e-100:
				k.Class("float:tiny")
			}
		case 'c':
			v := cref.DoubleToInt(x)
			switch {
			case v < 0 || v > 255:
				k.Class("c:outside_0..255")
			case v >= 128:
				k.Class("c:>=128")
			default:
				k.Class("c:ascii")
			}
		case 's':
			high := false
			for _, b := range it.Str {
				high = high || b >= 0x80
			}
			if high {
				k.Class("s:bytes>=0x80")
			}
			if it.Prec != -1 && len(it.Str) > max(it.Prec, 0) {
				k.Class("s:truncated_by_precision")
			}
			if it.Width > len(it.Str) {
				k.Class("s:padded")
			}
		}
	}
	if strings.Contains(format, "%%") {
		k.Class("verb:%%")
	}
	k.Class(fmt.Sprintf("directives:%d", min(len(c.Items), 4)))
	if c.Extra > 0 {
		k.Class("excess_arguments")
		if strings.Contains(format, "%%") {
			k.Class("excess_arguments_and_%%")
		}
	}
	if nontrivial {
		recordNontrivial(k, func() uint64 { return vf.Hash(format, fmt.Sprint(c.Items)) })
		if len(c.Items) >= 2 {
			sample(k, k2name(k), func() any {
				return map[string]any{"call": "string.format(" + q([]byte(format)) + ", " + shown + ")", "result": q(got)}
			})
		}
	}
}

// ---------------------------------------------------------------------------------------------
// generators

func genFlags(r *src, allowed string) string {
	if r.chance(1, 3) {
		return ""
	}
	var b []byte
	for i := 0; i < len(allowed); i++ {
		if r.chance(1, 3) {
			b = append(b, allowed[i])
		}
	}
	for i := len(b) - 1; i > 0; i-- { // any order
		j := r.n(i + 1)
		b[i], b[j] = b[j], b[i]
	}
	if len(b) > 0 && len(b) < 5 && r.chance(1, 16) {
		b = append(b, b[0]) // a repeated flag is legal in C and in 5.1 (at most 5 flag characters)
	}
	return string(b)
}

func genWidth(r *src) int {
	switch r.n(10) {
	case 0, 1, 2, 3:
		return -1
	case 4:
		return int(r.between(21, 99))
	default:
		return int(r.between(1, 20))
	}
}

func genPrec(r *src, maxCommon int) int {
	switch r.n(12) {
	case 0, 1, 2, 3:
		return -1
	case 4:
		return -2
	case 5:
		return int(r.between(int64(maxCommon+1), 99))
	default:
		return int(r.between(0, int64(maxCommon)))
	}
}

var intEdges = []float64{1, 7, 8, 9, 10, 15, 16, 255, 256, 511, 512, 4095, 65535, 65536, 99999, 100000, 2147483647, 2147483648, 4294967295, 4294967296,
	1<<53 - 1, 1 << 53, 1<<53 + 2, 1 << 62, two63 - 1024}

// integral values interesting for d i o x X
func genIntegral(r *src, signed bool) float64 {
	var x float64
	switch r.n(10) {
	case 0:
		x = 0
	case 1, 2:
		x = float64(r.n(301))
	case 3:
		x = float64(r.between(0, 1<<53))
	case 4:
		x = choose(r, intEdges...)
	case 5: // beyond 2^53 (still exact doubles)
		x = float64(r.between(1<<53, 1<<62))
	case 6: // fraction that the conversion truncates
		x = float64(r.n(100001)) + choose(r, 0.5, 0.25, 0.999, 0.001, 0.75)
	case 7:
		x = float64(uint64(1) << uint(r.n(63)))
		if r.chance(1, 2) && x > 1 && x <= 1<<53 {
			x--
		}
	case 8: // any bit length
		x = float64(r.u64() >> uint(1+r.n(63)))
		if x >= two63 {
			x = two63 - 1024
		}
	default:
		x = float64(r.between(0, 1<<32))
	}
	if signed {
		if r.chance(1, 3) {
			x = -x
		}
	} else if r.chance(1, 20) {
		// [2^63, 2^64): defined for the unsigned conversions
		x = two63 + float64(r.between(0, 1<<52-1))*2048
	}
	return x
}

var floatEdges = []float64{
	0, math.Copysign(0, -1), 1, -1, 0.5, 1.5, 2.5, 3.5, -0.5, -1.5, -2.5, 0.25, 0.125, 0.375, 0.0625, 0.05, 0.15, 0.25, 0.35, 0.45, 0.55,
	0.045, 0.005, 0.015, 0.025, 1.005, 2.675, 1.45, 0.1, 0.2, 0.3, 1.0 / 3, 2.0 / 3, 9.5, 9.95, 9.995, 99.5, 99.95, 999.9995, 0.95, 0.995, 0.9995,
	9.999999, 0.9999995, 1e15, 1e16, 1e17, 123456789012345678, 1e21, 1e22, 1e23, 1e100, 1e300, 1e-300, 1e308, 1.7976931348623157e308,
	2.2250738585072014e-308, 2.225073858507201e-308, 5e-324, 1e-323, 1e-310, 1e-5, 1e-4, 1e-7, 123.456, 3.141592653589793, 2.718281828459045,
	1 << 53, 1<<53 + 2, 4503599627370495.5, 4503599627370496.5, 1e-1, 5e-1, 5e-2, 5e-3, 5e-10,
}

func genFloat(r *src) float64 {
	var x float64
	switch r.n(9) {
	case 0, 1:
		x = choose(r, floatEdges...)
	case 2: // any finite bit pattern
		x = math.Float64frombits(r.u64())
		if math.IsNaN(x) || math.IsInf(x, 0) {
			x = 1
		}
	case 3: // k / 2^m: exactly representable ties for %.nf rounding
		x = float64(r.n(4001)) / float64(uint64(1)<<uint(r.n(13)))
	case 4: // decimal-looking
		x = float64(r.n(1000000)) * math.Pow(10, float64(r.between(-12, 12)))
	case 5: // halfway digits at a small number of decimals
		x = (float64(r.n(10000)) + 0.5) / math.Pow(10, float64(r.n(7)))
	case 6:
		x = r.frac() * choose(r, 1.0, 10, 1000, 1e6)
	case 7: // any magnitude, uniform mantissa
		x = math.Ldexp(r.mant(), int(r.between(-1073, 1024)))
	default:
		x = float64(r.between(-1<<53, 1<<53))
	}
	if r.chance(1, 4) {
		x = -x
	}
	return x
}

// genNumeral spells an integral or simple decimal value the way a Lua program might hold it in a string ("" when the
// value is not spelled).
func genNumeral(r *src, x float64) string {
	s := strconv.FormatFloat(x, 'f', -1, 64)
	if math.Abs(x) >= 1e15 || len(s) > 20 {
		return ""
	}
	if x == 0 && math.Signbit(x) {
		// "-0" as a string converts to +0 in gopher-lua (parseNumber tries ParseInt first); string->number conversion is
		// the subject of the C16 check, not of this one
		return ""
	}
	switch r.n(4) {
	case 0:
		return s
	case 1:
		return " " + s
	case 2:
		return s + " "
	default:
		if x == math.Trunc(x) && !strings.Contains(s, ".") {
			return s + ".0"
		}
		return "\t" + s + "\n"
	}
}

func genStrArg(r *src) []byte {
	s := genSubject(r, choose(r, 0, 3, 10, 40, 120), "sarg")
	out := s[:0:0]
	for _, b := range s {
		if b != 0 {
			out = append(out, b)
		}
	}
	return out
}

func genLit(r *src) []byte {
	switch r.n(6) {
	case 0, 1:
		return nil
	case 2:
		return []byte(choose(r, " ", "x=", ", ", "%", "100%", "[", "]", "\n", "\t|", "%%", "a%b"))
	default:
		return genSubject(r, 6, "lit")
	}
}

func genItem(r *src) FmtItem {
	it := FmtItem{Lit: genLit(r), Width: -1, Prec: -1}
	it.Verb = choose(r, "d", "d", "i", "o", "x", "x", "X", "e", "E", "f", "f", "c", "s", "s")
	switch it.Verb[0] {
	case 'd', 'i':
		it.Flags = genFlags(r, "-+ 0")
		it.Width = genWidth(r)
		it.Prec = genPrec(r, 8)
		it.Num = F64(genIntegral(r, true))
	case 'o', 'x', 'X':
		it.Flags = genFlags(r, "-#0")
		it.Width = genWidth(r)
		it.Prec = genPrec(r, 8)
		it.Num = F64(genIntegral(r, false))
	case 'e', 'E', 'f':
		it.Flags = genFlags(r, "-+ #0")
		it.Width = genWidth(r)
		it.Prec = genPrec(r, 8)
		it.Num = F64(genFloat(r))
	case 'c':
		it.Flags = genFlags(r, "-")
		it.Width = genWidth(r)
		var v int
		switch r.n(6) {
		case 0:
			v = int(r.between(-100000, 100000))
		case 1, 2:
			v = int(r.between(128, 255))
		default:
			v = int(r.between(1, 127))
		}
		if v&0xff == 0 {
			v++
		}
		it.Num = F64(float64(v))
		if v > 0 && r.chance(1, 10) {
			it.Num += 0.5 // (int)65.5 is 65
		}
	case 's':
		it.Flags = genFlags(r, "-")
		it.Width = genWidth(r)
		it.Prec = genPrec(r, 12)
		it.Str = genStrArg(r)
	}
	if it.Verb != "s" && r.chance(1, 8) {
		it.NumText = genNumeral(r, float64(it.Num))
	}
	return it
}

func TestFormat(t *testing.T) {
	vf.Rapid(t, func(rt *rapid.T) {
		r := newSrc(rt)
		n := []int{0, 1, 1, 1, 1, 1, 1, 2, 2, 2, 3, 3, 5}[r.size("n_directives", 0, 12)]
		c := &FmtCase{}
		for i := 0; i < n; i++ {
			c.Items = append(c.Items, genItem(r))
		}
		c.Tail = genLit(r)
		if r.chance(1, 8) {
			c.Extra = 1 + r.n(3)
		}
		chkFormat.Run(rt, c)
	})
}

// TestFormatGrid: one directive at a time over a fixed grid: every verb x every subset of its legal flags x widths
// {none, 1, 6, 12} x precisions {none, ".", 0, 1, 3, 10} x a fixed set of argument values.
func TestFormatGrid(t *testing.T) {
	si, sn := vf.Shard()
	n := 0
	ints := []float64{0, 1, -1, 7, 8, 42, -42, 255, 4095, 65536, 123456789, -123456789, 1<<53 - 1, -(1 << 53), 0.999, 17.5, -17.5}
	uints := []float64{0, 1, 7, 8, 42, 255, 4095, 65536, 123456789, 1<<53 - 1, 1 << 62, 17.5}
	floats := []float64{0, math.Copysign(0, -1), 1, -1, 0.5, 1.5, 2.5, -2.5, 0.125, 0.05, 9.995, 99.5, 123.456, -123.456, 1e15, 1e22, 1e100, 1e-100, 5e-324, 1.7976931348623157e308, 1.0 / 3, 0.1}
	chars := []float64{1, 9, 10, 32, 65, 97, 126, 127, 128, 160, 195, 233, 255, 321, -191, 65.5}
	strs := []string{"", "a", "hello", "hello world, this is longer", "h\xc3\xa9llo", "\xe6\x97\xa5\xe6\x9c\xac", "\xff\xfe", "\xc3", "caf\xe9", "%d"}
	widths := []int{-1, 1, 6, 12}
	precs := []int{-1, -2, 0, 1, 3, 10}
	subsets := func(allowed string) []string {
		var out []string
		for m := 0; m < 1<<uint(len(allowed)); m++ {
			s := ""
			for i := 0; i < len(allowed); i++ {
				if m&(1<<uint(i)) != 0 {
					s += string(allowed[i])
				}
			}
			out = append(out, s)
		}
		return out
	}
	run := func(it FmtItem) {
		n++
		if n%sn != si {
			return
		}
		chkFormatGrid.Run(t, &FmtCase{Items: []FmtItem{it}})
	}
	for _, verb := range []string{"d", "i", "o", "x", "X", "e", "E", "f", "c", "s"} {
		var allowed string
		var vals []float64
		ps := precs
		switch verb {
		case "d", "i":
			allowed, vals = "-+ 0", ints
		case "o", "x", "X":
			allowed, vals = "-#0", uints
		case "e", "E", "f":
			allowed, vals = "-+ #0", floats
		case "c":
			allowed, vals, ps = "-", chars, []int{-1}
		case "s":
			allowed = "-"
		}
		for _, fl := range subsets(allowed) {
			for _, w := range widths {
				for _, p := range ps {
					if verb == "s" {
						for _, s := range strs {
							run(FmtItem{Flags: fl, Width: w, Prec: p, Verb: verb, Str: Bytes(s)})
						}
						continue
					}
					for _, v := range vals {
						run(FmtItem{Flags: fl, Width: w, Prec: p, Verb: verb, Num: F64(v)})
					}
				}
			}
		}
	}
	chkFormatGrid.SetExhaustive(true)
	chkFormatGrid.Note("grid", "each verb x every subset of its legal flags x widths {none,1,6,12} x precisions {none,'.',0,1,3,10} x 10-22 fixed argument values")
}
