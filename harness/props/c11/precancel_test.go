package c11

// A context that is done before the call starts: every entry into the interpreter - however short the function, even one
// that consists of a single RETURN - ends in the context's error and runs no host function.

import (
	"context"
	"fmt"
	"strings"
	"testing"

	lua "github.com/yuin/gopher-lua"

	"verif/vf"
)

type PreCancelCase struct {
	Body string `json:"function_body"`
	Via  string `json:"entered_through"`
}

var preCancelBodies = []string{"", "return", "return ...", "return 1", "local x = 1", "tick()", "return tick()", "local a, b = ... return a", "while true do end", "return (function() end)()"}

var chkPreCancel = vf.Register("cancelled_before_the_call", func(k *vf.C, c *PreCancelCase) error {
	ctx, cancel := context.WithCancel(context.Background())
	defer cancel()
	L := lua.NewState()
	defer L.Close()
	ticks := 0
	L.SetGlobal("tick", L.NewFunction(func(L *lua.LState) int { ticks++; return 0 }))
	fn, err := L.LoadString(c.Body)
	if err != nil {
		return fmt.Errorf("harness: %v", err)
	}
	L.SetContext(ctx)
	cancel()
	var got error
	switch c.Via {
	case "DoString":
		got = L.DoString(c.Body)
	case "PCall":
		L.Push(fn)
		L.Push(lua.LNumber(1))
		got = L.PCall(1, lua.MultRet, nil)
	case "CallByParam":
		got = L.CallByParam(lua.P{Fn: fn, NRet: 1, Protect: true}, lua.LNumber(1), lua.LNumber(2))
	case "Resume":
		th, _ := L.NewThread()
		_, got, _ = L.Resume(th, fn, lua.LNumber(1))
	case "callback_of_a_host_function":
		// the cancelled state is entered again from Go: a host function calls back into Lua
		L.SetGlobal("cb", fn)
		got = L.DoString(`return pcall(cb, 1)`) // DoString itself must fail already
	}
	if got == nil {
		return fmt.Errorf("%s of a function with the body %q returned no error although the context was done before the call", c.Via, c.Body)
	}
	if !strings.Contains(got.Error(), "context canceled") {
		return fmt.Errorf("%s of %q: the error does not carry the context's reason: %s", c.Via, c.Body, clip(got.Error(), 160))
	}
	if ticks != 0 {
		return fmt.Errorf("%s of %q: %d host call(s) were made although the context was done before the call", c.Via, c.Body, ticks)
	}
	k.Class("via:" + c.Via)
	k.Nontrivial(vf.Hash(c.Body, c.Via))
	if c.Body == "return 1" {
		k.Sample(c.Via, 1, c)
	}
	return nil
})

func TestCancelledBeforeCall(t *testing.T) {
	for _, via := range []string{"DoString", "PCall", "CallByParam", "Resume", "callback_of_a_host_function"} {
		for _, b := range preCancelBodies {
			chkPreCancel.Run(t, &PreCancelCase{Body: b, Via: via})
		}
	}
	chkPreCancel.SetExhaustive(true)
}
