#!/bin/bash
# seedrerun.sh <lanes> : re-run every stored seeded change against its own property's check (quick, seed SEEDED_SEED or 1)
lanes=${1:-3}
mkdir -p /verif/.build/seedrerun; rm -f /verif/.build/seedrerun/*
i=0
for d in /verif/seeded/C*/; do id=$(basename $d); echo $id >> /verif/.build/seedrerun/lane$((i % lanes)); i=$((i+1)); done
for l in $(seq 0 $((lanes-1))); do
  ( while read id; do SEEDED_OWN=1 SEEDED_JOBS=${SEEDED_JOBS:-5} python3 /verif/tools_seeded.py run $id >> /verif/.build/seedrerun/out.txt 2>&1; done < /verif/.build/seedrerun/lane$l; echo LANE-DONE >> /verif/.build/seedrerun/out.txt ) &
done
wait
