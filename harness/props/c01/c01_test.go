// Package c01: the core language runs as the Lua 5.1 reference semantics define.
package c01

import (
	"testing"

	"pgregory.net/rapid"

	"verif/dcheck"
	"verif/e1"
	"verif/lgen"
	"verif/vf"
)

func TestMain(m *testing.M)   { vf.Main(m) }
func TestReplay(t *testing.T) { vf.Replay(t) }

// non-trivial: >= 8 statements of >= 4 kinds executed, >= 3 values emitted
var chkDiff = vf.Register("ref_diff", dcheck.Oracle(func(c *dcheck.ProgCase, r *e1.ROutcome) (bool, string) {
	st := r.In.Stat
	return st.Stmts >= 8 && len(st.StmtKinds) >= 4 && dcheck.Values(r) >= 3, ""
}))

func init() { chkDiff.Journal = true }

func TestCoreDiff(t *testing.T) {
	vf.Rapid(t, func(rt *rapid.T) { chkDiff.Run(rt, dcheck.Gen(rt, lgen.Core())) })
}
