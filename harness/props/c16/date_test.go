package c16

import (
	"fmt"
	"os"
	"strings"
	"testing"

	lua "github.com/yuin/gopher-lua"
	"pgregory.net/rapid"

	"verif/cref16"
	"verif/vf"
)

// DateCase: a whole second T and a strftime format made of supported directives and literal text.
type DateCase struct {
	T   int64  `json:"t"`
	Fmt string `json:"fmt"`
}

// The directives gopher-lua's os.date implements (utils.go: keys of cDateFlagToGo, plus 'w' and "%%").  %Z is
// handled apart: the zone abbreviation of UTC is "GMT" for libc gmtime and "UTC" for libc localtime under TZ=UTC.
var dateDirectives = []string{"a", "A", "b", "B", "c", "d", "F", "H", "I", "m", "M", "p", "P", "S", "x", "X", "y", "Y", "z", "w", "%"}

const minT, maxT = -(1 << 31), 1 << 36

var chkDate = vf.Register("date", func(k *vf.C, c *DateCase) error {
	if os.Getenv("TZ") != "UTC" {
		return fmt.Errorf("harness: the date check needs TZ=UTC in the environment (the driver sets it)")
	}
	if c.T < minT || c.T > maxT {
		return fmt.Errorf("harness: t out of the checked range")
	}
	gm, ok := cref16.Gmtime(c.T)
	if !ok {
		return fmt.Errorf("harness: gmtime failed")
	}
	if back := cref16.Timegm(gm.Year, gm.Mon, gm.Mday, gm.Hour, gm.Min, gm.Sec); back != c.T {
		return fmt.Errorf("harness: timegm(gmtime(t)) = %d for t = %d", back, c.T)
	}
	ip := in()
	T := lua.LNumber(float64(c.T))
	want := []int{gm.Year + 1900, gm.Mon + 1, gm.Mday, gm.Hour, gm.Min, gm.Sec, gm.Wday + 1, gm.Yday + 1}
	names := []string{"year", "month", "day", "hour", "min", "sec", "wday", "yday"}
	for _, utc := range []lua.LValue{lua.LFalse, lua.LTrue} {
		form := `"*t"`
		if utc == lua.LTrue {
			form = `"!*t"`
		}
		// fields of os.date("*t", t) are gmtime's
		res, err := ip.call("datet", 9, T, utc)
		if err != nil {
			return fmt.Errorf("os.date(%s, %d) raised: %v", form, c.T, err)
		}
		for i, n := range names {
			if g, ok := num(res[i]); !ok || g != float64(want[i]) {
				return fmt.Errorf("os.date(%s, %d).%s = %s, gmtime says %d (%04d-%02d-%02d %02d:%02d:%02d wday %d yday %d)", form, c.T, n, show(res[i]),
					want[i], want[0], want[1], want[2], want[3], want[4], want[5], want[6], want[7])
			}
		}
		if res[8] != lua.LFalse {
			return fmt.Errorf("os.date(%s, %d).isdst = %s, want false in UTC", form, c.T, show(res[8]))
		}
		// round trip
		res, err = ip.call("timeofdate", 1, T, utc)
		if err != nil {
			return fmt.Errorf("os.time(os.date(%s, %d)) raised: %v", form, c.T, err)
		}
		if g, ok := num(res[0]); !ok || g != float64(c.T) {
			return fmt.Errorf("os.time(os.date(%s, t)) = %s for t = %d", form, show(res[0]), c.T)
		}
	}
	// os.time of the broken-down fields
	res, err := ip.call("timeof", 1, lua.LNumber(want[0]), lua.LNumber(want[1]), lua.LNumber(want[2]), lua.LNumber(want[3]), lua.LNumber(want[4]), lua.LNumber(want[5]))
	if err != nil {
		return fmt.Errorf("os.time{...} raised for t = %d: %v", c.T, err)
	}
	if g, ok := num(res[0]); !ok || g != float64(c.T) {
		return fmt.Errorf("os.time{year=%d,month=%d,day=%d,hour=%d,min=%d,sec=%d} = %s, timegm says %d", want[0], want[1], want[2], want[3], want[4], want[5], show(res[0]), c.T)
	}
	// every supported directive alone, then the composite format
	fmts := make([]string, 0, len(dateDirectives)+1)
	for _, d := range dateDirectives {
		fmts = append(fmts, "%"+d)
	}
	if c.Fmt != "" {
		if strings.ContainsAny(c.Fmt, "\x00") || strings.HasPrefix(c.Fmt, "!") || strings.HasPrefix(c.Fmt, "*") || !onlySupportedDirectives(c.Fmt) {
			return fmt.Errorf("harness: format %q is outside the generated family", c.Fmt)
		}
		fmts = append(fmts, c.Fmt)
	}
	for _, f := range fmts {
		ref, ok := cref16.Strftime(c.T, f)
		if !ok {
			return fmt.Errorf("harness: strftime failed")
		}
		for _, pre := range []string{"!", ""} {
			res, err := ip.call("datefmt", 1, lua.LString(pre+f), T)
			if err != nil {
				return fmt.Errorf("os.date(%q, %d) raised: %v", pre+f, c.T, err)
			}
			if s, ok := res[0].(lua.LString); !ok || string(s) != ref {
				return fmt.Errorf("os.date(%q, %d) = %s, libc strftime on gmtime(t) gives %q", pre+f, c.T, show(res[0]), ref)
			}
		}
	}
	for _, f := range []string{"!%Z", "%Z"} {
		res, err := ip.call("datefmt", 1, lua.LString(f), T)
		if err != nil {
			return fmt.Errorf("os.date(%q, %d) raised: %v", f, c.T, err)
		}
		if s, ok := res[0].(lua.LString); !ok || s != "UTC" && s != "GMT" {
			return fmt.Errorf("os.date(%q, %d) = %s, want the zone abbreviation UTC (or GMT)", f, c.T, show(res[0]))
		}
	}

	// bookkeeping
	y := want[0]
	switch {
	case y < 1970:
		k.Class("year:<1970")
	case y <= 2037:
		k.Class("year:1970..2037")
	case y < 2100:
		k.Class("year:2038..2099")
	default:
		k.Class("year:>=2100")
	}
	if want[1] == 2 && want[2] == 29 {
		k.Class("feb29")
	}
	if want[1] == 12 && want[2] == 31 || want[1] == 1 && want[2] == 1 {
		k.Class("year_boundary")
	}
	if want[3] == 0 && want[4] == 0 && want[5] == 0 || want[3] == 23 && want[4] == 59 && want[5] == 59 {
		k.Class("day_boundary")
	}
	if want[3] == 0 || want[3] == 12 {
		k.Class("hour_0_or_12")
	}
	if want[2] < 10 {
		k.Class("day<10")
	}
	if c.T < 0 {
		k.Class("t<0")
	}
	if c.T >= 1<<31 {
		k.Class("t>=2^31")
	}
	if c.Fmt != "" {
		k.Class("composite_format")
	}
	if y < 1970 || y > 2037 {
		nontrivial(k, vf.Hash("date", fmt.Sprint(c.T), c.Fmt))
		ref, _ := cref16.Strftime(c.T, "%Y-%m-%d %H:%M:%S")
		k.Sample("date", 3, map[string]any{"t": c.T, "utc": ref, "fmt": c.Fmt})
	}
	return nil
})

// onlySupportedDirectives: every '%' of f starts one of dateDirectives (so no %Z, no unsupported directive, no
// lone '%' at the end, which ISO C leaves undefined).
func onlySupportedDirectives(f string) bool {
	for i := 0; i < len(f); i++ {
		if f[i] != '%' {
			continue
		}
		i++
		if i >= len(f) {
			return false
		}
		ok := false
		for _, d := range dateDirectives {
			if d[0] == f[i] {
				ok = true
			}
		}
		if !ok {
			return false
		}
	}
	return true
}

var dateLiterals = []string{" ", "-", ":", "/", "T", "Z", ", ", "at ", "day ", "[", "]", "x", "0", "%%", "\n", "é", "."}

func genDateFmt(t *rapid.T) string {
	n := rapid.IntRange(1, 6).Draw(t, "nitems")
	var b strings.Builder
	for i := 0; i < n; i++ {
		if rapid.IntRange(0, 2).Draw(t, "lit") == 0 {
			b.WriteString(dateLiterals[rapid.IntRange(0, len(dateLiterals)-1).Draw(t, "l")])
		} else {
			b.WriteString("%" + dateDirectives[rapid.IntRange(0, len(dateDirectives)-1).Draw(t, "d")])
		}
	}
	return b.String()
}

var dateCornersT = []int64{0, -1, 1, 59, 60, 3599, 3600, 86399, 86400, -86400, -86401, 951782400 /* 2000-02-29 */, 951868799, 951868800,
	946684799, 946684800 /* 2000-01-01 */, 2147483647, 2147483648, -2147483648, 4294967295, 4294967296, 4107542400 /* 2100-03-01 */, 4107455999,
	4107456000 /* 2100-02-28 */, 13574563200 /* 2400-02-29 */, 32503680000 /* 3000-01-01 */, 68719476736, 68719476735, -2208988800, /* 1900-01-01 is out of range: clipped below */
	-2145916800 /* 1902-01-01 */, 1234567890, 1e9, 2e9, 1709164800 /* 2024-02-29 */, 253402300799 /* 9999-12-31: clipped */}

func genDateT(t *rapid.T) int64 {
	var v int64
	switch rapid.IntRange(0, 4).Draw(t, "tclass") {
	case 0:
		v = dateCornersT[rapid.IntRange(0, len(dateCornersT)-1).Draw(t, "corner")]
	case 1: // a calendar boundary: first or last second of a month, leap days, century years
		y := rapid.IntRange(1902, 4146).Draw(t, "year")
		if rapid.IntRange(0, 3).Draw(t, "century") == 0 {
			y = []int{2000, 2100, 2200, 2300, 2400, 1904, 2096, 2104, 3000, 4000, 2038, 1970, 1969}[rapid.IntRange(0, 12).Draw(t, "cy")]
		}
		m := rapid.IntRange(0, 11).Draw(t, "mon")
		if rapid.IntRange(0, 2).Draw(t, "feb") == 0 {
			m = rapid.IntRange(1, 2).Draw(t, "febmar")
		}
		v = cref16.Timegm(y-1900, m, 1, 0, 0, 0) + int64(rapid.IntRange(-2, 2).Draw(t, "off"))
		if rapid.IntRange(0, 3).Draw(t, "dayback") == 0 {
			v -= 86400 * int64(rapid.IntRange(0, 2).Draw(t, "days"))
		}
	case 2:
		v = rapid.Int64Range(0, 1<<31-1).Draw(t, "t32")
	default:
		v = rapid.Int64Range(minT, maxT).Draw(t, "t")
	}
	if v < minT {
		v = minT
	}
	if v > maxT {
		v = maxT
	}
	return v
}

func TestDates(t *testing.T) {
	vf.Rapid(t, func(rt *rapid.T) {
		c := &DateCase{T: genDateT(rt)}
		if rapid.IntRange(0, 3).Draw(rt, "withfmt") > 0 {
			c.Fmt = genDateFmt(rt)
		}
		chkDate.Run(rt, c)
	})
}
