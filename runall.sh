#!/bin/bash
# development aid: runall.sh <seed> [tier] [jobs] [checks...] : checks in sequence, one summary line each
here=$(cd $(dirname $0) && pwd)
seed=${1:-1}; tier=${2:-quick}; jobs=${3:-8}; shift 3 2>/dev/null
list=${@:-$(seq -w 1 20 | sed 's/^/C/')}
mkdir -p $here/.build
out=$here/.build/runall-$tier-seed$seed.log; : > $out
for c in $list; do
  t0=$(date +%s)
  VERIF_SEED=$seed $here/check $c --tier $tier --jobs $jobs > $here/.build/runall-$c-$tier-$seed.txt 2>&1; rc=$?
  echo "$c seed=$seed tier=$tier exit=$rc secs=$(( $(date +%s) - t0 )) $(grep -c '^VIOLATION' $here/.build/runall-$c-$tier-$seed.txt) violations; $(grep '^\[C' $here/.build/runall-$c-$tier-$seed.txt | tail -1)" | tee -a $out
done
echo ALL-DONE | tee -a $out
