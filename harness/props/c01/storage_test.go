package c01

// "An expression means the same whether the compiler folds it, keeps it in a constant, a register, an upvalue, a global
// or a table field, and whatever unrelated locals or statements surround it."
//
// Metamorphic check without a reference: one expression tree over leaf values is instantiated with its leaves as
// literals (the compiler may fold), locals, upvalues, globals, table fields, parameters, varargs, a random mix, and
// with unrelated declarations and statements around it; gopher-lua must compute the same value (bit for bit; all NaNs
// alike) or fail in all of them.  This also decides the corners the reference leaves Unspecified (modulo and power with
// zero/inf/nan, division by zero, negative zero): whatever gopher-lua computes there, it must not depend on storage.

import (
	"fmt"
	"math"
	"strconv"
	"strings"
	"testing"

	lua "github.com/yuin/gopher-lua"
	"pgregory.net/rapid"

	"verif/vf"
)

type StorageCase struct {
	Leaves []string `json:"leaves"` // Lua literal texts
	Expr   string   `json:"expr"`   // expression over $1..$n
	Mix    []int    `json:"mix"`    // storage of each leaf in the mixed form
	Pad    int      `json:"pad"`    // unrelated locals before
}

var leafPool = []string{"0", "1", "2", "3", "-1", "-2", "0.5", "-0.5", "7", "10", "255", "256", "1e15", "2^53", "1e308", "1e-320", "-0", "(0/0)", "(1/0)", "(-1/0)",
	"\"10\"", "\"0x10\"", "\" 5 \"", "\"abc\"", "\"\"", "\"1e2\"", "true", "false", "nil", "3.7", "-3.7", "1e100", "2^31", "2^63", "0.1"}

func genExpr(rt *rapid.T, n, depth int) string {
	if depth == 0 || rapid.IntRange(0, 3).Draw(rt, "leaf") == 0 {
		return "$" + strconv.Itoa(rapid.IntRange(1, n).Draw(rt, "which"))
	}
	switch rapid.IntRange(0, 9).Draw(rt, "form") {
	case 0:
		return "(-" + genExpr(rt, n, depth-1) + ")"
	case 1:
		return "(not " + genExpr(rt, n, depth-1) + ")"
	case 2:
		return "(#" + genExpr(rt, n, depth-1) + ")"
	default:
		op := rapid.SampledFrom([]string{"+", "-", "*", "/", "%", "^", "..", "==", "~=", "<", "<=", ">", ">=", "and", "or", "+", "-", "*", "%", "^"}).Draw(rt, "op")
		return "(" + genExpr(rt, n, depth-1) + " " + op + " " + genExpr(rt, n, depth-1) + ")"
	}
}

func subst(expr string, f func(i int) string) string {
	var b strings.Builder
	for i := 0; i < len(expr); i++ {
		if expr[i] == '$' {
			j := i + 1
			for j < len(expr) && expr[j] >= '0' && expr[j] <= '9' {
				j++
			}
			n, _ := strconv.Atoi(expr[i+1 : j])
			b.WriteString(f(n))
			i = j - 1
		} else {
			b.WriteByte(expr[i])
		}
	}
	return b.String()
}

func list(n int, f func(i int) string) string {
	var p []string
	for i := 1; i <= n; i++ {
		p = append(p, f(i))
	}
	return strings.Join(p, ", ")
}

// forms returns the named renderings of the case.
func (c *StorageCase) forms() [][2]string {
	n := len(c.Leaves)
	lit := func(i int) string { return "(" + c.Leaves[i-1] + ")" } // parenthesised: -1 ^ 2 is not (-1) ^ 2
	v := func(p string) func(int) string { return func(i int) string { return p + strconv.Itoa(i) } }
	var pad strings.Builder
	for i := 0; i < c.Pad; i++ {
		fmt.Fprintf(&pad, "local pad%d = %d\n", i, i*3)
	}
	noise := "do local q = {1, 2, 3} q[#q + 1] = #q for i = 1, 2 do q[i] = q[i] .. 'x' end end\n"
	out := [][2]string{
		{"literals", "return " + subst(c.Expr, lit)},
		{"locals", "local " + list(n, v("a")) + " = " + list(n, lit) + "\nreturn " + subst(c.Expr, v("a"))},
		{"upvalues", "local " + list(n, v("a")) + " = " + list(n, lit) + "\nreturn (function() return " + subst(c.Expr, v("a")) + " end)()"},
		{"upvalues_two_levels", "local " + list(n, v("a")) + " = " + list(n, lit) + "\nreturn (function() return (function() return " + subst(c.Expr, v("a")) + " end)() end)()"},
		{"globals", list(n, v("g")) + " = " + list(n, lit) + "\nreturn " + subst(c.Expr, v("g"))},
		{"fields", "local t = {}\n" + list(n, v("t.f")) + " = " + list(n, lit) + "\nreturn " + subst(c.Expr, v("t.f"))},
		{"array_slots", "local t = {n = 0}\nfor i, x in pairs({" + list(n, func(i int) string { return "[" + strconv.Itoa(i) + "] = " + lit(i) }) + "}) do t[i] = x end\nreturn " + subst(c.Expr, func(i int) string { return "t[" + strconv.Itoa(i) + "]" })},
		{"parameters", "return (function(" + list(n, v("p")) + ") return " + subst(c.Expr, v("p")) + " end)(" + list(n, lit) + ")"},
		{"varargs", "return (function(...) local " + list(n, v("s")) + " = ... return " + subst(c.Expr, v("s")) + " end)(" + list(n, lit) + ")"},
		{"select", "return (function(...) return " + subst(c.Expr, func(i int) string { return "(select(" + strconv.Itoa(i) + ", ...))" }) + " end)(" + list(n, lit) + ")"},
		{"padded_locals", pad.String() + noise + "local " + list(n, v("a")) + " = " + list(n, lit) + "\n" + noise + "local r = " + subst(c.Expr, v("a")) + "\nlocal after = 1\nreturn r"},
		{"in_loop", "local " + list(n, v("a")) + " = " + list(n, lit) + "\nlocal r\nfor i = 1, 2 do r = " + subst(c.Expr, v("a")) + " end\nreturn r"},
		{"as_condition", "local " + list(n, v("a")) + " = " + list(n, lit) + "\nlocal r = " + subst(c.Expr, v("a")) + "\nlocal b1, b2\nif " + subst(c.Expr, v("a")) + " then b1 = true else b1 = false end\nif " + subst(c.Expr, lit) + " then b2 = true else b2 = false end\nif b1 ~= b2 or b1 ~= (not not r) then error('truth value differs') end\nreturn r"},
		{"as_table_value", "local " + list(n, v("a")) + " = " + list(n, lit) + "\nlocal t = {" + subst(c.Expr, v("a")) + ", k = " + subst(c.Expr, lit) + "}\nif not rawequal(t[1], t.k) and (t[1] == t[1] or t.k == t.k) then error('constructor values differ') end\nreturn t[1]"},
		{"as_argument", "local " + list(n, v("a")) + " = " + list(n, lit) + "\nreturn (function(x, y) return x end)(" + subst(c.Expr, v("a")) + ", 1)"},
	}
	// mixed storage
	var pre strings.Builder
	pre.WriteString("local t = {}\n")
	names := make([]string, n+1)
	var params, args []string
	for i := 1; i <= n; i++ {
		switch c.Mix[(i-1)%len(c.Mix)] % 5 {
		case 0:
			names[i] = lit(i)
		case 1:
			fmt.Fprintf(&pre, "local m%d = %s\n", i, lit(i))
			names[i] = "m" + strconv.Itoa(i)
		case 2:
			fmt.Fprintf(&pre, "gm%d = %s\n", i, lit(i))
			names[i] = "gm" + strconv.Itoa(i)
		case 3:
			fmt.Fprintf(&pre, "t.f%d = %s\n", i, lit(i))
			names[i] = "t.f" + strconv.Itoa(i)
		default:
			params = append(params, "mp"+strconv.Itoa(i))
			args = append(args, lit(i))
			names[i] = "mp" + strconv.Itoa(i)
		}
	}
	out = append(out, [2]string{"mixed", pre.String() + "return (function(" + strings.Join(params, ", ") + ") return " + subst(c.Expr, func(i int) string { return names[i] }) + " end)(" + strings.Join(args, ", ") + ")"})
	return out
}

type sval struct {
	ok   bool
	kind string
	bits uint64
	s    string
}

func runForm(src string) (v sval, panicked string) {
	defer func() {
		if r := recover(); r != nil {
			panicked = fmt.Sprint(r)
		}
	}()
	L := lua.NewState()
	defer L.Close()
	if err := L.DoString(src); err != nil {
		if strings.Contains(err.Error(), "truth value differs") || strings.Contains(err.Error(), "constructor values differ") {
			return sval{ok: false, kind: "INTERNAL " + err.Error()}, ""
		}
		return sval{ok: false, kind: "error"}, ""
	}
	r := L.Get(-1)
	v = sval{ok: true, kind: r.Type().String()}
	switch x := r.(type) {
	case lua.LNumber:
		f := float64(x)
		if f != f {
			v.s = "nan"
		} else {
			v.bits = math.Float64bits(f)
		}
	case lua.LString:
		v.s = string(x)
	case lua.LBool:
		v.s = fmt.Sprint(bool(x))
	}
	return v, ""
}

var chkStorage = vf.Register("storage_invariance", func(k *vf.C, c *StorageCase) error {
	forms := c.forms()
	var base sval
	for i, f := range forms {
		v, pan := runForm(f[1])
		if pan != "" {
			return fmt.Errorf("form %s: a Go panic escaped DoString: %s\n%s", f[0], pan, f[1])
		}
		if strings.HasPrefix(v.kind, "INTERNAL") {
			return fmt.Errorf("form %s: %s\n%s", f[0], v.kind, f[1])
		}
		if i == 0 {
			base = v
			continue
		}
		if v != base {
			return fmt.Errorf("the expression %s over %v gives %+v with its leaves as %s and %+v as %s\n--- %s:\n%s\n--- %s:\n%s", c.Expr, c.Leaves, base, forms[0][0], v, f[0], forms[0][0], forms[0][1], f[0], f[1])
		}
	}
	k.EvalN(len(forms) - 1)
	if base.ok {
		k.Class("value:" + base.kind)
		if base.s == "nan" {
			k.Class("value:nan")
		}
		if base.kind == "number" && base.bits == math.Float64bits(math.Copysign(0, -1)) {
			k.Class("value:negative_zero")
		}
	} else {
		k.Class("fails_in_every_form")
	}
	ops := strings.Count(c.Expr, " ") / 2
	if ops >= 2 {
		k.Nontrivial(vf.Hash(c.Expr, strings.Join(c.Leaves, ",")))
		k.Sample(map[bool]string{true: "value", false: "error"}[base.ok], 2, map[string]any{"expr": c.Expr, "leaves": c.Leaves, "result": fmt.Sprintf("%+v", base)})
	}
	return nil
})

func TestStorageInvariance(t *testing.T) {
	vf.Rapid(t, func(rt *rapid.T) {
		n := rapid.IntRange(1, 4).Draw(rt, "nleaves")
		c := &StorageCase{Pad: rapid.SampledFrom([]int{0, 1, 5, 40, 150}).Draw(rt, "pad")}
		for i := 0; i < n; i++ {
			c.Leaves = append(c.Leaves, rapid.SampledFrom(leafPool).Draw(rt, "leafv"))
		}
		c.Expr = genExpr(rt, n, rapid.IntRange(1, 4).Draw(rt, "depth"))
		c.Mix = rapid.SliceOfN(rapid.IntRange(0, 4), n, n).Draw(rt, "mix")
		chkStorage.Run(rt, c)
	})
}
